(* Proofs about Print.v: the printed form of a constant is uniquely decodable.
   For well-formed valid constants c, d and texts r1, r2 that are empty or start with
   a character that cannot occur inside a name or a number,
     print c ++ r1 = print d ++ r2 -> c = d /\ r1 = r2,
   by induction on c, together with the same statement for the tails of lists
   (print_ltail) and of maps / structs (print_mtail). Injectivity of print follows
   with r1 = r2 = []. *)
From Coq Require Import List ZArith Bool Lia DecimalZ DecimalPos.
From MV Require Import Term.Hash Term.Const Term.ConstProofs Term.Print Term.PrintProofs Term.EscProofs.
Import ListNotations.
Open Scope Z_scope.

(* ---- characters ----------------------------------------------------------- *)
(* the characters of names and numbers *)
Definition wordc (x : Z) : bool := constant_char x || (x =? 47).
(* the characters of numbers and finite floats *)
Definition numc (x : Z) : bool := is_digit x || (x =? 45) || (x =? 46).
(* what may follow a printed constant: nothing, or a character outside names and numbers *)
Definition follow (r : list Z) : Prop := match r with [] => True | x :: _ => wordc x = false end.

Lemma numc_range : forall x, numc x = true -> 48 <= x <= 57 \/ x = 45 \/ x = 46.
Proof.
  intros x H. unfold numc, is_digit in H. apply orb_true_iff in H. destruct H as [H|H].
  - apply orb_true_iff in H. destruct H as [H|H].
    + apply in_range_iff in H. left; exact H.
    + apply Z.eqb_eq in H. right; left; exact H.
  - apply Z.eqb_eq in H. right; right; exact H.
Qed.

Lemma numc_wordc : forall x, numc x = true -> wordc x = true.
Proof.
  intros x H. unfold numc in H. unfold wordc, constant_char.
  destruct (is_digit x); destruct (x =? 45); destruct (x =? 46); destruct (is_letter x); cbn [orb] in *;
    try reflexivity; discriminate H.
Qed.

Lemma forallb_numc_wordc : forall w, forallb numc w = true -> forallb wordc w = true.
Proof.
  induction w as [|x w IH]; cbn [forallb]; intro H; [reflexivity|].
  apply andb_true_iff in H. destruct H as [H1 H2]. rewrite (numc_wordc _ H1), (IH H2). reflexivity.
Qed.

Lemma follow_cons : forall x r, wordc x = false -> follow (x :: r).
Proof. intros x r H. exact H. Qed.

Lemma cons_inv : forall (x : Z) a b, x :: a = x :: b -> a = b.
Proof. intros x a b H. injection H as H. exact H. Qed.

(* ---- splitting a text ------------------------------------------------------- *)
Lemma word_split : forall w w' r r', forallb wordc w = true -> forallb wordc w' = true ->
  follow r -> follow r' -> w ++ r = w' ++ r' -> w = w' /\ r = r'.
Proof.
  induction w as [|x w IH]; destruct w' as [|y w']; cbn [app forallb]; intros r r' W W' F F' H.
  - split; [reflexivity|assumption].
  - exfalso. subst r. cbn [follow] in F. apply andb_true_iff in W'. destruct W' as [W' _]. rewrite W' in F. discriminate F.
  - exfalso. subst r'. cbn [follow] in F'. apply andb_true_iff in W. destruct W as [W _]. rewrite W in F'. discriminate F'.
  - injection H as -> H. apply andb_true_iff in W, W'. destruct W as [_ W], W' as [_ W'].
    destruct (IH w' r r' W W' F F' H) as [-> ->]. split; reflexivity.
Qed.

Lemma quote_split : forall t t' r r', ~ In 34 t -> ~ In 34 t' ->
  t ++ 34 :: r = t' ++ 34 :: r' -> t = t' /\ r = r'.
Proof.
  induction t as [|x t IH]; destruct t' as [|y t']; cbn [app]; intros r r' N N' H.
  - injection H as H. split; [reflexivity|assumption].
  - exfalso. injection H as H _. apply N'. left. symmetry. exact H.
  - exfalso. injection H as H _. apply N. left. exact H.
  - injection H as -> H.
    assert (N1 : ~ In 34 t) by (intro I; apply N; right; exact I).
    assert (N1' : ~ In 34 t') by (intro I; apply N'; right; exact I).
    destruct (IH t' r r' N1 N1' H) as [-> ->]. split; reflexivity.
Qed.

(* ---- the blank after '[' ---------------------------------------------------- *)
Definition nonblank (t : list Z) : Prop := exists x t0, t = x :: t0 /\ x <> 32.

Lemma nonblank_app : forall t r, nonblank t -> nonblank (t ++ r).
Proof. intros t r (x & t0 & -> & N). exists x, (t0 ++ r). split; [reflexivity|assumption]. Qed.

Lemma after_bracket_strip : forall t t' x x', nonblank t -> nonblank t' ->
  after_bracket t ++ x = after_bracket t' ++ x' -> t ++ x = t' ++ x'.
Proof.
  intros t t' x x' (c & t0 & -> & N) (c' & t0' & -> & N') H. unfold after_bracket in H.
  destruct ((c =? 45) || (c =? 43)); destruct ((c' =? 45) || (c' =? 43)); cbn [app] in H |- *.
  - injection H as H1 H2. rewrite H1, H2. reflexivity.
  - exfalso. injection H as H _. apply N'. symmetry. exact H.
  - exfalso. injection H as H _. apply N. exact H.
  - exact H.
Qed.

Lemma after_bracket_head : forall c t0, exists y t1, after_bracket (c :: t0) = y :: t1 /\ (y = c \/ y = 32).
Proof.
  intros c t0. unfold after_bracket. destruct ((c =? 45) || (c =? 43)).
  - exists 32, (c :: t0). split; [reflexivity|right; reflexivity].
  - exists c, t0. split; [reflexivity|left; reflexivity].
Qed.

(* ---- classes of printed texts by their first characters -------------------- *)
Definition hd_class (t : list Z) : Z :=
  match t with
  | [] => 0
  | x :: t' =>
      if x =? 47 then 1 else if x =? 34 then 2 else if x =? 98 then 3
      else if x =? 102 then
        match t' with
        | _ :: _ :: y :: _ =>
            if y =? 116 then 5 else if y =? 100 then 6 else if y =? 112 then 7 else if y =? 109 then 8 else 0
        | _ => 0
        end
      else if x =? 91 then 9 else if x =? 123 then 10
      else if numc x then 4 else 0
  end.

Definition cls (c : const) : Z :=
  match c with
  | CLeaf t _ _ =>
      match t with
      | NameT => 1 | StringT => 2 | BytesT => 3 | NumberT | Float64T => 4 | TimeT => 5 | DurationT => 6
      | PairS => 0 | ListS => 9 | MapS => 8 | StructS => 10
      end
  | CCell t _ _ _ =>
      match t with PairS => 7 | ListS | MapS => 9 | StructS => 10 | _ => 0 end
  end.

Lemma hd_numc : forall x t, numc x = true -> hd_class (x :: t) = 4.
Proof.
  intros x t H. unfold hd_class. rewrite H. apply numc_range in H.
  destruct (Z.eqb_spec x 47); [lia|]. destruct (Z.eqb_spec x 34); [lia|]. destruct (Z.eqb_spec x 98); [lia|].
  destruct (Z.eqb_spec x 102); [lia|]. destruct (Z.eqb_spec x 91); [lia|]. destruct (Z.eqb_spec x 123); [lia|].
  reflexivity.
Qed.

Lemma hd_class_head : forall t, hd_class t <> 0 ->
  exists x t', t = x :: t' /\ x <> 32 /\ x <> 93 /\ x <> 125 /\ x <> 41 /\ x <> 44.
Proof.
  intros [|x t'] H; [exfalso; apply H; reflexivity|]. exists x, t'. split; [reflexivity|].
  unfold hd_class in H.
  destruct (Z.eqb_spec x 47); [lia|]. destruct (Z.eqb_spec x 34); [lia|]. destruct (Z.eqb_spec x 98); [lia|].
  destruct (Z.eqb_spec x 102); [lia|]. destruct (Z.eqb_spec x 91); [lia|]. destruct (Z.eqb_spec x 123); [lia|].
  destruct (numc x) eqn:E; [|exfalso; apply H; reflexivity]. apply numc_range in E. lia.
Qed.

(* ---- numbers ---------------------------------------------------------------- *)
Lemma uint_bytes_numc : forall d, forallb numc (uint_bytes d) = true.
Proof.
  intro d. apply forallb_forall. intros x I. pose proof (uint_bytes_digits d) as F. rewrite Forall_forall in F.
  specialize (F x I). unfold numc, is_digit. replace (in_range 48 57 x) with true; [reflexivity|].
  symmetry. apply in_range_iff. exact F.
Qed.

Lemma uint_bytes_nil : forall d, uint_bytes d = [] -> d = Decimal.Nil.
Proof. intros d H. destruct d; cbn [uint_bytes] in H; try discriminate H. reflexivity. Qed.

Lemma print_number_numc : forall n, forallb numc (print_number n) = true /\ print_number n <> [].
Proof.
  intro n. unfold print_number. destruct n as [|p|p]; cbn [Z.to_int].
  - split; [reflexivity|discriminate].
  - split; [apply uint_bytes_numc|]. intro H. apply uint_bytes_nil in H. exact (Unsigned.to_uint_nonnil p H).
  - split; [|discriminate]. cbn [forallb]. rewrite uint_bytes_numc. reflexivity.
Qed.

Lemma name_valid_shape : forall s, name_valid s = true -> (exists s', s = 47 :: s') /\ forallb wordc s = true.
Proof.
  intros s H. unfold name_valid in H. apply andb_true_iff in H. destruct H as [H1 H2]. split.
  - unfold name_ok in H1. destruct s as [|x [|y r]]; try discriminate H1.
    apply andb_true_iff in H1. destruct H1 as [H1 _]. apply andb_true_iff in H1. destruct H1 as [H1 _].
    apply Z.eqb_eq in H1. subst x. eexists. reflexivity.
  - exact H2.
Qed.

Section Inj.
  Variable fmt_float fmt_time fmt_dur : Z -> list Z.

  (* laws of the library formatters (sampled by the harness, runner c08_lib) *)
  Hypothesis float_inj : forall b b', float_special b = false -> float_special b' = false ->
    format_float64 fmt_float b = format_float64 fmt_float b' -> b = b'.
  Hypothesis float_alpha : forall b, float_special b = false -> forallb numc (fmt_float b) = true.
  Hypothesis time_inj : forall n n', fmt_time n = fmt_time n' -> n = n'.
  Hypothesis time_nq : forall n, ~ In 34 (fmt_time n).
  Hypothesis dur_inj : forall n n', fmt_dur n = fmt_dur n' -> n = n'.
  Hypothesis dur_nq : forall n, ~ In 34 (fmt_dur n).

  Local Notation pr := (print fmt_float fmt_time fmt_dur).
  Local Notation ltail := (print_ltail fmt_time fmt_dur (format_float64 fmt_float)).
  Local Notation mtail := (print_mtail fmt_time fmt_dur (format_float64 fmt_float)).

  Definition print_entry (e : const) : list Z :=
    match e with
    | CCell _ _ k v => pr k ++ s_colon ++ pr v
    | CLeaf _ _ _ => []
    end.

  (* unfolding equations *)
  Lemma pr_pair : forall n f s, pr (CCell PairS n f s) = s_pair_open ++ pr f ++ s_comma ++ pr s ++ [41].
  Proof. reflexivity. Qed.
  Lemma pr_list : forall n f s, pr (CCell ListS n f s) = 91 :: after_bracket (pr f) ++ ltail s ++ [93].
  Proof. reflexivity. Qed.
  Lemma pr_map : forall n f s, pr (CCell MapS n f s) = 91 :: after_bracket (print_entry f) ++ mtail s ++ [93].
  Proof. intros n f s. destruct f; reflexivity. Qed.
  Lemma pr_struct : forall n f s, pr (CCell StructS n f s) = 123 :: print_entry f ++ mtail s ++ [125].
  Proof. intros n f s. destruct f; reflexivity. Qed.
  Lemma ltail_leaf : forall t s n, ltail (CLeaf t s n) = [].
  Proof. reflexivity. Qed.
  Lemma ltail_cell : forall t n f s, ltail (CCell t n f s) = s_comma ++ pr f ++ ltail s.
  Proof. reflexivity. Qed.
  Lemma mtail_leaf : forall t s n, mtail (CLeaf t s n) = [].
  Proof. reflexivity. Qed.
  Lemma mtail_cell : forall t n e s, mtail (CCell t n e s) = s_comma ++ print_entry e ++ mtail s.
  Proof. intros t n e s. destruct e; reflexivity. Qed.
  Lemma pr_name : forall s n, pr (CLeaf NameT s n) = s.
  Proof. reflexivity. Qed.
  Lemma pr_string : forall s n e, esc_string 0 s = Some e -> pr (CLeaf StringT s n) = 34 :: e ++ [34].
  Proof. intros s n e E. unfold print. cbn [print_gen print_scalar]. rewrite E. reflexivity. Qed.
  Lemma pr_bytes : forall s n, pr (CLeaf BytesT s n) = 98 :: 34 :: esc_bytes s ++ [34].
  Proof. reflexivity. Qed.
  Lemma pr_number : forall s n, pr (CLeaf NumberT s n) = print_number n.
  Proof. reflexivity. Qed.
  Lemma pr_float : forall s n, pr (CLeaf Float64T s n) = format_float64 fmt_float (to_uint64 n).
  Proof. reflexivity. Qed.
  Lemma pr_time : forall s n, pr (CLeaf TimeT s n) = s_time_open ++ fmt_time n ++ s_call_close.
  Proof. reflexivity. Qed.
  Lemma pr_dur : forall s n, pr (CLeaf DurationT s n) = s_dur_open ++ fmt_dur n ++ s_call_close.
  Proof. reflexivity. Qed.

  Lemma valid_string : forall s n, valid (CLeaf StringT s n) = true -> exists e, esc_string 0 s = Some e.
  Proof.
    intros s n V. cbn [valid] in V. apply andb_true_iff in V. destruct V as [_ V].
    destruct (esc_string 0 s) as [e|]; [exists e; reflexivity|discriminate V].
  Qed.

  Lemma format_float64_numc : forall b, float_special b = false ->
    forallb numc (format_float64 fmt_float b) = true /\ format_float64 fmt_float b <> [].
  Proof.
    intros b F. unfold format_float64. rewrite F. cbn [orb]. pose proof (float_alpha b F) as A.
    destruct (has_byte 46 (fmt_float b)) eqn:E.
    - split; [exact A|]. intro N. rewrite N in E. discriminate E.
    - split; [rewrite forallb_app, A; reflexivity|]. intro N. apply app_eq_nil in N. destruct N as [_ N]. discriminate N.
  Qed.

  (* number and float constants print as non-empty words over numc *)
  Lemma pr_numeric : forall t s n, t = NumberT \/ t = Float64T -> valid (CLeaf t s n) = true ->
    forallb numc (pr (CLeaf t s n)) = true /\ pr (CLeaf t s n) <> [].
  Proof.
    intros t s n [-> | ->] V.
    - rewrite pr_number. apply print_number_numc.
    - rewrite pr_float. cbn [valid] in V. apply negb_true_iff in V. apply format_float64_numc. exact V.
  Qed.

  Lemma wf_cell_type : forall t n f s, wf (CCell t n f s) = true -> t = PairS \/ t = ListS \/ t = MapS \/ t = StructS.
  Proof. intros t n f s W. destruct (wf_cell_inv _ _ _ _ W) as (_ & _ & _ & H). exact H. Qed.

  (* the class of a printed constant *)
  Lemma pr_hd : forall c r, wf c = true -> valid c = true -> hd_class (pr c ++ r) = cls c.
  Proof.
    intros c r W V. destruct c as [t s n|t n f s].
    - destruct t.
      + rewrite pr_name. cbn [valid] in V. destruct (name_valid_shape _ V) as [[s' ->] _]. reflexivity.
      + destruct (valid_string _ _ V) as [e E]. rewrite (pr_string _ _ _ E). reflexivity.
      + reflexivity.
      + destruct (pr_numeric NumberT s n (or_introl eq_refl) V) as [A N].
        destruct (pr (CLeaf NumberT s n)) as [|x w]; [contradiction|]. cbn [forallb] in A.
        apply andb_true_iff in A. destruct A as [A _]. cbn [app]. rewrite (hd_numc _ _ A). reflexivity.
      + destruct (pr_numeric Float64T s n (or_intror eq_refl) V) as [A N].
        destruct (pr (CLeaf Float64T s n)) as [|x w]; [contradiction|]. cbn [forallb] in A.
        apply andb_true_iff in A. destruct A as [A _]. cbn [app]. rewrite (hd_numc _ _ A). reflexivity.
      + reflexivity.
      + reflexivity.
      + discriminate W.
      + reflexivity.
      + reflexivity.
      + reflexivity.
    - destruct (wf_cell_type _ _ _ _ W) as [->|[->|[->| ->]]].
      + reflexivity.
      + reflexivity.
      + rewrite pr_map. reflexivity.
      + rewrite pr_struct. reflexivity.
  Qed.

  Lemma cls_nonzero : forall c, wf c = true -> cls c <> 0.
  Proof.
    intros c W. destruct c as [t s n|t n f s].
    - destruct t; cbn [cls]; try discriminate; try discriminate W.
    - destruct (wf_cell_type _ _ _ _ W) as [->|[->|[->| ->]]]; cbn [cls]; discriminate.
  Qed.

  Lemma pr_head : forall c, wf c = true -> valid c = true ->
    exists x t, pr c = x :: t /\ x <> 32 /\ x <> 93 /\ x <> 125 /\ x <> 41 /\ x <> 44.
  Proof.
    intros c W V. apply hd_class_head. rewrite <- (app_nil_r (pr c)), (pr_hd c [] W V). apply cls_nonzero. exact W.
  Qed.

  Lemma pr_nonblank : forall c, wf c = true -> valid c = true -> nonblank (pr c).
  Proof. intros c W V. destruct (pr_head c W V) as (x & t & E & N & _). exists x, t. split; assumption. Qed.

  (* ---- what is to be proved, for constants, list tails, map / struct tails ---- *)
  Definition P (c : const) : Prop := forall d r1 r2,
    wf c = true -> valid c = true -> wf d = true -> valid d = true -> follow r1 -> follow r2 ->
    pr c ++ r1 = pr d ++ r2 -> c = d /\ r1 = r2.

  Definition closes (r : list Z) : Prop := exists x r', r = x :: r' /\ (x = 93 \/ x = 125).

  Definition Pl (c : const) : Prop := forall d r1 r2,
    wf c = true -> valid c = true -> wf d = true -> valid d = true ->
    ctype_of c = ListS -> ctype_of d = ListS -> closes r1 -> closes r2 ->
    ltail c ++ r1 = ltail d ++ r2 -> c = d /\ r1 = r2.

  Definition Pm (c : const) : Prop := forall T d r1 r2, T = MapS \/ T = StructS ->
    wf c = true -> valid c = true -> wf d = true -> valid d = true ->
    ctype_of c = T -> ctype_of d = T -> closes r1 -> closes r2 ->
    mtail c ++ r1 = mtail d ++ r2 -> c = d /\ r1 = r2.

  Definition Psub (c : const) : Prop :=
    match c with CCell _ _ k v => P k /\ P v | CLeaf _ _ _ => True end.

  Lemma cls_eq : forall c d r1 r2, wf c = true -> valid c = true -> wf d = true -> valid d = true ->
    pr c ++ r1 = pr d ++ r2 -> cls c = cls d.
  Proof. intros c d r1 r2 Wc Vc Wd Vd H. rewrite <- (pr_hd c r1 Wc Vc), <- (pr_hd d r2 Wd Vd), H. reflexivity. Qed.

  Lemma valid_cell : forall t n f s, valid (CCell t n f s) = true -> valid f = true /\ valid s = true.
  Proof. intros t n f s V. cbn [valid] in V. apply andb_true_iff in V. exact V. Qed.

  (* wf of the leaves *)
  Lemma wf_sym_leaf : forall t s n n', t = NameT \/ t = StringT \/ t = BytesT ->
    wf (CLeaf t s n) = true -> wf (CLeaf t s n') = true -> n = n'.
  Proof.
    intros t s n n' [->|[->| ->]] W W'; cbn [wf] in W, W'; apply Z.eqb_eq in W, W'; congruence.
  Qed.
  Lemma wf_num_leaf : forall t s n, t = NumberT \/ t = Float64T \/ t = TimeT \/ t = DurationT ->
    wf (CLeaf t s n) = true -> s = [].
  Proof.
    intros t s n [->|[->|[->| ->]]] W; cbn [wf] in W; apply andb_true_iff in W; destruct W as [W _];
      apply is_nil_true in W; exact W.
  Qed.
  Lemma wf_nil_leaf : forall t s n, t = ListS \/ t = MapS \/ t = StructS ->
    wf (CLeaf t s n) = true -> s = [] /\ n = 0.
  Proof.
    intros t s n [->|[->| ->]] W; cbn [wf] in W; apply andb_true_iff in W; destruct W as [W1 W2];
      apply is_nil_true in W1; apply Z.eqb_eq in W2; split; assumption.
  Qed.

  (* wf of the cells *)
  Lemma wf_list_cell : forall n f s, wf (CCell ListS n f s) = true ->
    wf f = true /\ wf s = true /\ n = hash_pair f s ListS /\ ctype_of s = ListS.
  Proof.
    intros n f s W. destruct (wf_cell_inv _ _ _ _ W) as (Wf & Ws & Hn & _). cbn [wf] in W.
    apply andb_true_iff in W. destruct W as [_ W]. apply ctype_eqb_eq in W. repeat split; assumption.
  Qed.
  Lemma wf_entry_cell : forall T n f s, T = MapS \/ T = StructS -> wf (CCell T n f s) = true ->
    wf f = true /\ wf s = true /\ n = hash_pair f s T /\ ctype_of s = T /\
    exists m k v, f = CCell PairS m k v.
  Proof.
    intros T n f s HT W. destruct (wf_cell_inv _ _ _ _ W) as (Wf & Ws & Hn & _).
    assert (X : ctype_eqb (ctype_of s) T && is_pair_cell f = true).
    { cbn [wf] in W. apply andb_true_iff in W. destruct W as [_ W]. destruct HT as [-> | ->]; exact W. }
    apply andb_true_iff in X. destruct X as [X1 X2]. apply ctype_eqb_eq in X1.
    repeat split; try assumption.
    destruct f as [|t m k v]; [discriminate X2|]. destruct t; try discriminate X2. exists m, k, v. reflexivity.
  Qed.
  Lemma wf_pair_cell : forall n f s, wf (CCell PairS n f s) = true ->
    wf f = true /\ wf s = true /\ n = hash_pair f s PairS.
  Proof. intros n f s W. destruct (wf_cell_inv _ _ _ _ W) as (Wf & Ws & Hn & _). repeat split; assumption. Qed.

  (* ---- leaves ---------------------------------------------------------------- *)
  Lemma follow_comma : forall X, follow (s_comma ++ X).
  Proof. intro X. exact eq_refl. Qed.
  Lemma follow_colon : forall X, follow (s_colon ++ X).
  Proof. intro X. exact eq_refl. Qed.
  Lemma follow_ltail : forall s r, follow (ltail s ++ 93 :: r).
  Proof. intros s r. destruct s; exact eq_refl. Qed.
  Lemma follow_mtail : forall s x r, x = 93 \/ x = 125 -> follow (mtail s ++ x :: r).
  Proof. intros s x r [-> | ->]; destruct s as [|? ? e ?]; try exact eq_refl; destruct e; exact eq_refl. Qed.

  (* a list / map cell prints '[' and then something that is not ']' *)
  Lemma bracket_cell_head : forall t n f s, t = ListS \/ t = MapS ->
    wf (CCell t n f s) = true -> valid (CCell t n f s) = true ->
    exists y X, pr (CCell t n f s) = 91 :: y :: X /\ y <> 93.
  Proof.
    intros t n f s [-> | ->] W V; destruct (valid_cell _ _ _ _ V) as [Vf Vs].
    - destruct (wf_list_cell _ _ _ W) as (Wf & _). rewrite pr_list.
      destruct (pr_head f Wf Vf) as (x & t & -> & N1 & N2 & _).
      destruct (after_bracket_head x t) as (y & t1 & -> & Hy). exists y. eexists. split; [reflexivity|]. lia.
    - destruct (wf_entry_cell MapS _ _ _ (or_introl eq_refl) W) as (Wf & _ & _ & _ & m & k & v & ->).
      destruct (wf_pair_cell _ _ _ Wf) as (Wk & _). destruct (valid_cell _ _ _ _ Vf) as [Vk _].
      rewrite pr_map. cbn [print_entry]. destruct (pr_head k Wk Vk) as (x & t & -> & N1 & N2 & _). cbn [app].
      destruct (after_bracket_head x (t ++ s_colon ++ pr v)) as (y & t1 & -> & Hy). exists y. eexists.
      split; [reflexivity|]. lia.
  Qed.

  Lemma brace_cell_head : forall n f s, wf (CCell StructS n f s) = true -> valid (CCell StructS n f s) = true ->
    exists y X, pr (CCell StructS n f s) = 123 :: y :: X /\ y <> 125.
  Proof.
    intros n f s W V. destruct (valid_cell _ _ _ _ V) as [Vf Vs].
    destruct (wf_entry_cell StructS _ _ _ (or_intror eq_refl) W) as (Wf & _ & _ & _ & m & k & v & ->).
    destruct (wf_pair_cell _ _ _ Wf) as (Wk & _). destruct (valid_cell _ _ _ _ Vf) as [Vk _].
    rewrite pr_struct. cbn [print_entry]. destruct (pr_head k Wk Vk) as (x & t & -> & N1 & N2 & N3 & _). cbn [app].
    exists x. eexists. split; [reflexivity|assumption].
  Qed.

  Lemma P_leaf : forall t s n, P (CLeaf t s n).
  Proof.
    intros t s n d r1 r2 Wc Vc Wd Vd F1 F2 H.
    pose proof (cls_eq _ _ _ _ Wc Vc Wd Vd H) as K.
    destruct t; [| | | | | | |discriminate Wc| | |].
    - (* name *)
      destruct d as [t' s' n'|t' n' f' s']; destruct t'; cbn [cls] in K; try discriminate K.
      rewrite !pr_name in H. cbn [valid] in Vc, Vd.
      destruct (name_valid_shape _ Vc) as [_ A]. destruct (name_valid_shape _ Vd) as [_ A'].
      destruct (word_split _ _ _ _ A A' F1 F2 H) as [<- <-].
      rewrite (wf_sym_leaf NameT s n n' (or_introl eq_refl) Wc Wd). split; reflexivity.
    - (* string *)
      destruct d as [t' s' n'|t' n' f' s']; destruct t'; cbn [cls] in K; try discriminate K.
      destruct (valid_string _ _ Vc) as [e E]. destruct (valid_string _ _ Vd) as [e' E'].
      rewrite (pr_string _ _ _ E), (pr_string _ _ _ E') in H. cbn [app] in H. injection H as H.
      rewrite <- !app_assoc in H. cbn [app] in H.
      destruct (esc_string_inj _ _ _ _ _ _ E E' H) as [<- <-].
      rewrite (wf_sym_leaf StringT s n n' (or_intror (or_introl eq_refl)) Wc Wd). split; reflexivity.
    - (* bytes *)
      destruct d as [t' s' n'|t' n' f' s']; destruct t'; cbn [cls] in K; try discriminate K.
      rewrite !pr_bytes in H. cbn [app] in H. injection H as H. rewrite <- !app_assoc in H. cbn [app] in H.
      cbn [valid] in Vc, Vd.
      destruct (esc_bytes_inj _ _ _ _ Vc Vd H) as [<- <-].
      rewrite (wf_sym_leaf BytesT s n n' (or_intror (or_intror eq_refl)) Wc Wd). split; reflexivity.
    - (* number *)
      destruct d as [t' s' n'|t' n' f' s']; destruct t'; cbn [cls] in K; try discriminate K.
      + destruct (pr_numeric NumberT s n (or_introl eq_refl) Vc) as [A _].
        destruct (pr_numeric NumberT s' n' (or_introl eq_refl) Vd) as [A' _].
        destruct (word_split _ _ _ _ (forallb_numc_wordc _ A) (forallb_numc_wordc _ A') F1 F2 H) as [E <-].
        split; [|reflexivity].
        apply (print_inj_numeric fmt_float fmt_time fmt_dur float_inj); try assumption; reflexivity.
      + destruct (pr_numeric NumberT s n (or_introl eq_refl) Vc) as [A _].
        destruct (pr_numeric Float64T s' n' (or_intror eq_refl) Vd) as [A' _].
        destruct (word_split _ _ _ _ (forallb_numc_wordc _ A) (forallb_numc_wordc _ A') F1 F2 H) as [E <-].
        split; [|reflexivity].
        apply (print_inj_numeric fmt_float fmt_time fmt_dur float_inj); try assumption; reflexivity.
    - (* float *)
      destruct d as [t' s' n'|t' n' f' s']; destruct t'; cbn [cls] in K; try discriminate K.
      + destruct (pr_numeric Float64T s n (or_intror eq_refl) Vc) as [A _].
        destruct (pr_numeric NumberT s' n' (or_introl eq_refl) Vd) as [A' _].
        destruct (word_split _ _ _ _ (forallb_numc_wordc _ A) (forallb_numc_wordc _ A') F1 F2 H) as [E <-].
        split; [|reflexivity].
        apply (print_inj_numeric fmt_float fmt_time fmt_dur float_inj); try assumption; reflexivity.
      + destruct (pr_numeric Float64T s n (or_intror eq_refl) Vc) as [A _].
        destruct (pr_numeric Float64T s' n' (or_intror eq_refl) Vd) as [A' _].
        destruct (word_split _ _ _ _ (forallb_numc_wordc _ A) (forallb_numc_wordc _ A') F1 F2 H) as [E <-].
        split; [|reflexivity].
        apply (print_inj_numeric fmt_float fmt_time fmt_dur float_inj); try assumption; reflexivity.
    - (* time *)
      destruct d as [t' s' n'|t' n' f' s']; destruct t'; cbn [cls] in K; try discriminate K.
      rewrite !pr_time, <- !app_assoc in H. apply app_inv_head in H.
      change s_call_close with [34; 41] in H. cbn [app] in H.
      destruct (quote_split _ _ _ _ (time_nq n) (time_nq n') H) as [E R]. apply time_inj in E. subst n'.
      injection R as <-.
      rewrite (wf_num_leaf TimeT s n (or_intror (or_intror (or_introl eq_refl))) Wc),
              (wf_num_leaf TimeT s' n (or_intror (or_intror (or_introl eq_refl))) Wd). split; reflexivity.
    - (* duration *)
      destruct d as [t' s' n'|t' n' f' s']; destruct t'; cbn [cls] in K; try discriminate K.
      rewrite !pr_dur, <- !app_assoc in H. apply app_inv_head in H.
      change s_call_close with [34; 41] in H. cbn [app] in H.
      destruct (quote_split _ _ _ _ (dur_nq n) (dur_nq n') H) as [E R]. apply dur_inj in E. subst n'.
      injection R as <-.
      rewrite (wf_num_leaf DurationT s n (or_intror (or_intror (or_intror eq_refl))) Wc),
              (wf_num_leaf DurationT s' n (or_intror (or_intror (or_intror eq_refl))) Wd). split; reflexivity.
    - (* the empty list *)
      destruct d as [t' s' n'|t' n' f' s']; destruct t'; cbn [cls] in K; try discriminate K.
      + destruct (wf_nil_leaf ListS s n (or_introl eq_refl) Wc) as [-> ->].
        destruct (wf_nil_leaf ListS s' n' (or_introl eq_refl) Wd) as [-> ->].
        apply app_inv_head in H. split; [reflexivity|assumption].
      + exfalso. destruct (bracket_cell_head ListS n' f' s' (or_introl eq_refl) Wd Vd) as (y & X & E & N).
        rewrite E in H. injection H as H _. apply N. symmetry. exact H.
      + exfalso. destruct (bracket_cell_head MapS n' f' s' (or_intror eq_refl) Wd Vd) as (y & X & E & N).
        rewrite E in H. injection H as H _. apply N. symmetry. exact H.
    - (* the empty map *)
      destruct d as [t' s' n'|t' n' f' s']; destruct t'; cbn [cls] in K; try discriminate K.
      destruct (wf_nil_leaf MapS s n (or_intror (or_introl eq_refl)) Wc) as [-> ->].
      destruct (wf_nil_leaf MapS s' n' (or_intror (or_introl eq_refl)) Wd) as [-> ->].
      apply app_inv_head in H. split; [reflexivity|assumption].
    - (* the empty struct *)
      destruct d as [t' s' n'|t' n' f' s']; destruct t'; cbn [cls] in K; try discriminate K.
      + destruct (wf_nil_leaf StructS s n (or_intror (or_intror eq_refl)) Wc) as [-> ->].
        destruct (wf_nil_leaf StructS s' n' (or_intror (or_intror eq_refl)) Wd) as [-> ->].
        apply app_inv_head in H. split; [reflexivity|assumption].
      + exfalso. destruct (brace_cell_head n' f' s' Wd Vd) as (y & X & E & N).
        rewrite E in H. injection H as H _. apply N. symmetry. exact H.
  Qed.

  (* ---- cells ------------------------------------------------------------------ *)
  Lemma P_pair : forall n f s, P f -> P s -> P (CCell PairS n f s).
  Proof.
    intros n f s Pf Ps d r1 r2 Wc Vc Wd Vd F1 F2 H.
    pose proof (cls_eq _ _ _ _ Wc Vc Wd Vd H) as K.
    destruct d as [t' s' n'|t' n' f' s']; destruct t'; cbn [cls] in K; try discriminate K.
    destruct (wf_pair_cell _ _ _ Wc) as (Wf & Ws & ->). destruct (wf_pair_cell _ _ _ Wd) as (Wf' & Ws' & ->).
    destruct (valid_cell _ _ _ _ Vc) as [Vf Vs]. destruct (valid_cell _ _ _ _ Vd) as [Vf' Vs'].
    rewrite !pr_pair, <- !app_assoc in H. apply app_inv_head in H.
    destruct (Pf f' _ _ Wf Vf Wf' Vf' (follow_comma _) (follow_comma _) H) as [<- H1].
    apply app_inv_head in H1.
    destruct (Ps s' _ _ Ws Vs Ws' Vs' (follow_cons 41 _ eq_refl) (follow_cons 41 _ eq_refl) H1) as [<- H2].
    injection H2 as <-. split; reflexivity.
  Qed.

  (* entries of maps and structs *)
  Lemma P_entry : forall e e' r1 r2, Psub e -> is_pair_cell e = true -> is_pair_cell e' = true ->
    wf e = true -> valid e = true -> wf e' = true -> valid e' = true -> follow r1 -> follow r2 ->
    print_entry e ++ r1 = print_entry e' ++ r2 -> e = e' /\ r1 = r2.
  Proof.
    intros e e' r1 r2 PS I I' We Ve We' Ve' F1 F2 H.
    destruct e as [|t m k v]; [discriminate I|]. destruct t; try discriminate I.
    destruct e' as [|t' m' k' v']; [discriminate I'|]. destruct t'; try discriminate I'.
    destruct PS as [Pk Pv].
    destruct (wf_pair_cell _ _ _ We) as (Wk & Wv & ->). destruct (wf_pair_cell _ _ _ We') as (Wk' & Wv' & ->).
    destruct (valid_cell _ _ _ _ Ve) as [Vk Vv]. destruct (valid_cell _ _ _ _ Ve') as [Vk' Vv'].
    cbn [print_entry] in H. rewrite <- !app_assoc in H.
    destruct (Pk k' _ _ Wk Vk Wk' Vk' (follow_colon _) (follow_colon _) H) as [<- H1].
    apply app_inv_head in H1.
    destruct (Pv v' _ _ Wv Vv Wv' Vv' F1 F2 H1) as [<- <-]. split; reflexivity.
  Qed.

  Lemma entry_nonblank : forall m k v, wf k = true -> valid k = true -> nonblank (print_entry (CCell PairS m k v)).
  Proof. intros m k v W V. cbn [print_entry]. apply nonblank_app. apply pr_nonblank; assumption. Qed.

  Lemma closes_cons : forall x r, x = 93 \/ x = 125 -> closes (x :: r).
  Proof. intros x r H. exists x, r. split; [reflexivity|exact H]. Qed.

  Lemma P_list : forall n f s, P f -> Pl s -> P (CCell ListS n f s).
  Proof.
    intros n f s Pf Pls d r1 r2 Wc Vc Wd Vd F1 F2 H.
    pose proof (cls_eq _ _ _ _ Wc Vc Wd Vd H) as K.
    destruct (wf_list_cell _ _ _ Wc) as (Wf & Ws & -> & Ts). destruct (valid_cell _ _ _ _ Vc) as [Vf Vs].
    destruct d as [t' s' n'|t' n' f' s']; destruct t'; cbn [cls] in K; try discriminate K.
    - exfalso. destruct (bracket_cell_head ListS _ f s (or_introl eq_refl) Wc Vc) as (y & X & E & N).
      rewrite E in H. injection H as H _. apply N. exact H.
    - destruct (wf_list_cell _ _ _ Wd) as (Wf' & Ws' & -> & Ts'). destruct (valid_cell _ _ _ _ Vd) as [Vf' Vs'].
      rewrite !pr_list in H. rewrite <- !app_comm_cons in H. apply cons_inv in H. rewrite <- !app_assoc in H.
      apply after_bracket_strip in H; [|apply pr_nonblank; assumption|apply pr_nonblank; assumption].
      destruct (Pf f' _ _ Wf Vf Wf' Vf' (follow_ltail _ _) (follow_ltail _ _) H) as [<- H1].
      destruct (Pls s' _ _ Ws Vs Ws' Vs' Ts Ts' (closes_cons 93 _ (or_introl eq_refl)) (closes_cons 93 _ (or_introl eq_refl)) H1)
        as [<- H2].
      injection H2 as <-. split; reflexivity.
    - exfalso.
      destruct (wf_entry_cell MapS _ _ _ (or_introl eq_refl) Wd) as (Wf' & _ & _ & _ & m & k & v & ->).
      destruct (wf_pair_cell _ _ _ Wf') as (Wk & _). destruct (valid_cell _ _ _ _ Vd) as [Vf' _].
      destruct (valid_cell _ _ _ _ Vf') as [Vk _].
      rewrite pr_list, pr_map in H. rewrite <- !app_comm_cons in H. apply cons_inv in H. rewrite <- !app_assoc in H.
      apply after_bracket_strip in H; [|apply pr_nonblank; assumption|apply (entry_nonblank m); assumption].
      cbn [print_entry] in H. rewrite <- !app_assoc in H.
      destruct (Pf k _ _ Wf Vf Wk Vk (follow_ltail _ _) (follow_colon _) H) as [_ H1].
      destruct s; [rewrite ltail_leaf in H1|rewrite ltail_cell in H1]; discriminate H1.
  Qed.

  Lemma P_map : forall n f s, Psub f -> Pm s -> P (CCell MapS n f s).
  Proof.
    intros n f s PS Pms d r1 r2 Wc Vc Wd Vd F1 F2 H.
    pose proof (cls_eq _ _ _ _ Wc Vc Wd Vd H) as K.
    destruct (wf_entry_cell MapS _ _ _ (or_introl eq_refl) Wc) as (Wf & Ws & -> & Ts & m & k & v & ->).
    destruct (valid_cell _ _ _ _ Vc) as [Vf Vs].
    destruct (wf_pair_cell _ _ _ Wf) as (Wk & Wv & Em). destruct (valid_cell _ _ _ _ Vf) as [Vk Vv].
    destruct d as [t' s' n'|t' n' f' s']; destruct t'; cbn [cls] in K; try discriminate K.
    - exfalso. destruct (bracket_cell_head MapS _ _ s (or_intror eq_refl) Wc Vc) as (y & X & E & N).
      rewrite E in H. injection H as H _. apply N. exact H.
    - exfalso.
      destruct (wf_list_cell _ _ _ Wd) as (Wf' & _). destruct (valid_cell _ _ _ _ Vd) as [Vf' _].
      rewrite pr_list, pr_map in H. rewrite <- !app_comm_cons in H. apply cons_inv in H. rewrite <- !app_assoc in H.
      apply after_bracket_strip in H; [|apply (entry_nonblank m); assumption|apply pr_nonblank; assumption].
      cbn [print_entry] in H. rewrite <- !app_assoc in H. destruct PS as [Pk _].
      destruct (Pk f' _ _ Wk Vk Wf' Vf' (follow_colon _) (follow_ltail _ _) H) as [_ H1].
      destruct s'; [rewrite ltail_leaf in H1|rewrite ltail_cell in H1]; discriminate H1.
    - destruct (wf_entry_cell MapS _ _ _ (or_introl eq_refl) Wd) as (Wf' & Ws' & -> & Ts' & m' & k' & v' & ->).
      destruct (valid_cell _ _ _ _ Vd) as [Vf' Vs'].
      destruct (wf_pair_cell _ _ _ Wf') as (Wk' & _). destruct (valid_cell _ _ _ _ Vf') as [Vk' _].
      rewrite !pr_map in H. rewrite <- !app_comm_cons in H. apply cons_inv in H. rewrite <- !app_assoc in H.
      apply after_bracket_strip in H; [|apply (entry_nonblank m); assumption|apply (entry_nonblank m'); assumption].
      destruct (P_entry (CCell PairS m k v) (CCell PairS m' k' v') _ _ PS eq_refl eq_refl Wf Vf Wf' Vf'
                  (follow_mtail _ 93 _ (or_introl eq_refl)) (follow_mtail _ 93 _ (or_introl eq_refl)) H) as [<- H1].
      destruct (Pms MapS s' _ _ (or_introl eq_refl) Ws Vs Ws' Vs' Ts Ts'
                  (closes_cons 93 _ (or_introl eq_refl)) (closes_cons 93 _ (or_introl eq_refl)) H1) as [<- H2].
      injection H2 as <-. split; reflexivity.
  Qed.

  Lemma P_struct : forall n f s, Psub f -> Pm s -> P (CCell StructS n f s).
  Proof.
    intros n f s PS Pms d r1 r2 Wc Vc Wd Vd F1 F2 H.
    pose proof (cls_eq _ _ _ _ Wc Vc Wd Vd H) as K.
    destruct d as [t' s' n'|t' n' f' s']; destruct t'; cbn [cls] in K; try discriminate K.
    - exfalso. destruct (brace_cell_head _ _ _ Wc Vc) as (y & X & E & N).
      rewrite E in H. injection H as H _. apply N. exact H.
    - destruct (wf_entry_cell StructS _ _ _ (or_intror eq_refl) Wc) as (Wf & Ws & -> & Ts & m & k & v & ->).
      destruct (valid_cell _ _ _ _ Vc) as [Vf Vs].
      destruct (wf_entry_cell StructS _ _ _ (or_intror eq_refl) Wd) as (Wf' & Ws' & -> & Ts' & m' & k' & v' & ->).
      destruct (valid_cell _ _ _ _ Vd) as [Vf' Vs'].
      rewrite !pr_struct in H. rewrite <- !app_comm_cons in H. apply cons_inv in H. rewrite <- !app_assoc in H.
      destruct (P_entry (CCell PairS m k v) (CCell PairS m' k' v') _ _ PS eq_refl eq_refl Wf Vf Wf' Vf'
                  (follow_mtail _ 125 _ (or_intror eq_refl)) (follow_mtail _ 125 _ (or_intror eq_refl)) H) as [<- H1].
      destruct (Pms StructS s' _ _ (or_intror eq_refl) Ws Vs Ws' Vs' Ts Ts'
                  (closes_cons 125 _ (or_intror eq_refl)) (closes_cons 125 _ (or_intror eq_refl)) H1) as [<- H2].
      injection H2 as <-. split; reflexivity.
  Qed.

  (* ---- tails ------------------------------------------------------------------- *)
  Lemma closes_not_comma : forall r X, closes r -> r <> s_comma ++ X.
  Proof. intros r X (x & r' & -> & Hx) H. injection H as H _. lia. Qed.

  Lemma Pl_leaf : forall t s n, Pl (CLeaf t s n).
  Proof.
    intros t s n d r1 r2 Wc Vc Wd Vd Tc Td C1 C2 H. cbn [ctype_of] in Tc. subst t.
    destruct (wf_nil_leaf ListS s n (or_introl eq_refl) Wc) as [-> ->].
    destruct d as [t' s' n'|t' n' f' s']; cbn [ctype_of] in Td; subst t'.
    - destruct (wf_nil_leaf ListS s' n' (or_introl eq_refl) Wd) as [-> ->].
      rewrite !ltail_leaf in H. split; [reflexivity|exact H].
    - exfalso. rewrite ltail_leaf, ltail_cell, <- app_assoc in H. exact (closes_not_comma _ _ C1 H).
  Qed.

  Lemma Pl_cell : forall t n f s, P f -> Pl s -> Pl (CCell t n f s).
  Proof.
    intros t n f s Pf Pls d r1 r2 Wc Vc Wd Vd Tc Td C1 C2 H. cbn [ctype_of] in Tc. subst t.
    destruct (wf_list_cell _ _ _ Wc) as (Wf & Ws & -> & Ts). destruct (valid_cell _ _ _ _ Vc) as [Vf Vs].
    destruct d as [t' s' n'|t' n' f' s']; cbn [ctype_of] in Td; subst t'.
    - exfalso. rewrite ltail_leaf, ltail_cell, <- app_assoc in H. symmetry in H. exact (closes_not_comma _ _ C2 H).
    - destruct (wf_list_cell _ _ _ Wd) as (Wf' & Ws' & -> & Ts'). destruct (valid_cell _ _ _ _ Vd) as [Vf' Vs'].
      rewrite !ltail_cell, <- !app_assoc in H. apply app_inv_head in H.
      assert (G : forall s0 r, closes r -> follow (ltail s0 ++ r)).
      { intros s0 r (x & r' & -> & [-> | ->]); destruct s0; exact eq_refl. }
      destruct (Pf f' _ _ Wf Vf Wf' Vf' (G _ _ C1) (G _ _ C2) H) as [<- H1].
      destruct (Pls s' _ _ Ws Vs Ws' Vs' Ts Ts' C1 C2 H1) as [<- <-]. split; reflexivity.
  Qed.

  Lemma Pm_leaf : forall t s n, Pm (CLeaf t s n).
  Proof.
    intros t s n T d r1 r2 HT Wc Vc Wd Vd Tc Td C1 C2 H. cbn [ctype_of] in Tc. subst t.
    assert (HT3 : T = ListS \/ T = MapS \/ T = StructS) by (destruct HT; auto).
    destruct (wf_nil_leaf T s n HT3 Wc) as [-> ->].
    destruct d as [t' s' n'|t' n' f' s']; cbn [ctype_of] in Td; subst t'.
    - destruct (wf_nil_leaf T s' n' HT3 Wd) as [-> ->].
      rewrite !mtail_leaf in H. split; [reflexivity|exact H].
    - exfalso. rewrite mtail_leaf, mtail_cell, <- app_assoc in H. exact (closes_not_comma _ _ C1 H).
  Qed.

  Lemma Pm_cell : forall t n f s, Psub f -> Pm s -> Pm (CCell t n f s).
  Proof.
    intros t n f s PS Pms T d r1 r2 HT Wc Vc Wd Vd Tc Td C1 C2 H. cbn [ctype_of] in Tc. subst t.
    destruct (wf_entry_cell T _ _ _ HT Wc) as (Wf & Ws & -> & Ts & m & k & v & ->).
    destruct (valid_cell _ _ _ _ Vc) as [Vf Vs].
    destruct d as [t' s' n'|t' n' f' s']; cbn [ctype_of] in Td; subst t'.
    - exfalso. rewrite mtail_leaf, mtail_cell, <- app_assoc in H. symmetry in H. exact (closes_not_comma _ _ C2 H).
    - destruct (wf_entry_cell T _ _ _ HT Wd) as (Wf' & Ws' & -> & Ts' & m' & k' & v' & ->).
      destruct (valid_cell _ _ _ _ Vd) as [Vf' Vs'].
      rewrite !mtail_cell, <- !app_assoc in H. apply app_inv_head in H.
      assert (G : forall s0 r, closes r -> follow (mtail s0 ++ r)).
      { intros s0 r (x & r' & -> & Hx). apply follow_mtail. exact Hx. }
      destruct (P_entry (CCell PairS m k v) (CCell PairS m' k' v') _ _ PS eq_refl eq_refl Wf Vf Wf' Vf' (G _ _ C1) (G _ _ C2) H) as [<- H1].
      destruct (Pms T s' _ _ HT Ws Vs Ws' Vs' Ts Ts' C1 C2 H1) as [<- <-]. split; reflexivity.
  Qed.

  (* ---- the induction ------------------------------------------------------------ *)
  Lemma decodable : forall c, P c /\ Pl c /\ Pm c /\ Psub c.
  Proof.
    induction c as [t s n|t n f [Pf [Plf [Pmf PSf]]] s [Ps [Pls [Pms PSs]]]].
    - split; [apply P_leaf|]. split; [apply Pl_leaf|]. split; [apply Pm_leaf|exact I].
    - split; [|split; [apply Pl_cell; assumption|split; [apply Pm_cell; assumption|split; assumption]]].
      destruct t; try (intros d r1 r2 Wc; exfalso; destruct (wf_cell_type _ _ _ _ Wc) as [X|[X|[X|X]]]; discriminate X).
      + apply P_pair; assumption.
      + apply P_list; assumption.
      + apply P_map; assumption.
      + apply P_struct; assumption.
  Qed.

  (* unique decodability of the printed form *)
  Lemma print_decodable : forall c d r1 r2,
    wf c = true -> valid c = true -> wf d = true -> valid d = true -> follow r1 -> follow r2 ->
    pr c ++ r1 = pr d ++ r2 -> c = d /\ r1 = r2.
  Proof. intros c d r1 r2. destruct (decodable c) as [H _]. apply H. Qed.

  Lemma print_inj_lemma : forall c d,
    wf c = true -> wf d = true -> valid c = true -> valid d = true -> pr c = pr d -> c = d.
  Proof.
    intros c d Wc Wd Vc Vd H.
    destruct (print_decodable c d [] [] Wc Vc Wd Vd I I) as [E _]; [rewrite !app_nil_r; exact H|exact E].
  Qed.
End Inj.

(* ---- the laws are satisfiable: formatters built from the decimal printer ---- *)
Definition toy_float (b : Z) : list Z := print_number b ++ [46; 48].

Lemma print_number_no_quote : forall n, ~ In 34 (print_number n).
Proof.
  intros n I. destruct (print_number_numc n) as [A _]. rewrite forallb_forall in A. specialize (A 34 I). discriminate A.
Qed.

Lemma toy_laws :
  (forall b b', float_special b = false -> float_special b' = false ->
     format_float64 toy_float b = format_float64 toy_float b' -> b = b') /\
  (forall b, float_special b = false -> forallb numc (toy_float b) = true) /\
  (forall n n', print_number n = print_number n' -> n = n') /\
  (forall n, ~ In 34 (print_number n)).
Proof.
  assert (D : forall b, float_special b = false -> format_float64 toy_float b = toy_float b).
  { intros b F. unfold format_float64. rewrite F. cbn [orb].
    replace (has_byte 46 (toy_float b)) with true; [reflexivity|].
    symmetry. apply has_byte_In. unfold toy_float. apply in_or_app. right. left. reflexivity. }
  split; [|split; [|split]].
  - intros b b' F F' H. rewrite (D b F), (D b' F') in H. unfold toy_float in H. apply app_inv_tail in H.
    apply print_number_inj_lemma. exact H.
  - intros b _. unfold toy_float. rewrite forallb_app. destruct (print_number_numc b) as [A _]. rewrite A. reflexivity.
  - exact print_number_inj_lemma.
  - exact print_number_no_quote.
Qed.
