(* Model of ast.Map / ast.Struct (ast/ast.go:384, :408) and SortIndexInto
   (:1456). The argument list is the sequence in which Go's `for k, v := range
   kvMap` happened to deliver the entries (an arbitrary permutation of the
   supplied pairs: Go map iteration order). sort.Stable with Less = "hash <"
   is modelled by the stable sort itself (stable insertion sort); the sorted
   entries are then consed one by one in front of the nil, so the constant
   lists them by descending key hash. Executable definitions only. *)
From Coq Require Import List ZArith Bool.
From MV Require Export Term.Const.
Import ListNotations.
Open Scope Z_scope.

Definition kv := (const * const)%type.
Definition kv_key (e : kv) : Z := hash (fst e).

(* insert x in front of the first element whose key is not smaller: with
   fold_right this keeps equal keys in their input order (stable) *)
Fixpoint insert_kv (x : kv) (l : list kv) : list kv :=
  match l with
  | [] => [x]
  | y :: r => if kv_key x <=? kv_key y then x :: l else y :: insert_kv x r
  end.
Definition sort_kv (l : list kv) : list kv := fold_right insert_kv [] l.

Definition mk_shape (cons : const -> const -> const -> const) (nil : const) (l : list kv) : const :=
  fold_left (fun m e => cons (fst e) (snd e) m) (sort_kv l) nil.
Definition mk_map : list kv -> const := mk_shape map_cons map_nil.
Definition mk_struct : list kv -> const := mk_shape struct_cons struct_nil.
