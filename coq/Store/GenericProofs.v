(* Lifting: if every shard operation of an in-memory store acts on the shard's
   element list as the set operations do, then the store (constants + shards by
   predicate + cached count) refines the set machine on every history. *)
From Coq Require Import List ZArith Bool Lia Permutation.
From MV Require Import Store.AMap Store.SetSpec Store.Generic Store.AMapProofs.
Import ListNotations.
Open Scope Z_scope.

Lemma len_add (a : atom) l l' :
  NoDup l -> NoDup l' -> ~ In a l -> (forall x, In x l' <-> x = a \/ In x l) -> length l' = Datatypes.S (length l).
Proof.
  intros Hl Hl' Hn Hm. change (Datatypes.S (length l)) with (length (a :: l)).
  apply Permutation_length. apply NoDup_Permutation; auto.
  - constructor; auto.
  - intros x. rewrite Hm. simpl. intuition.
Qed.
Lemma len_remove (a : atom) l l' :
  NoDup l -> NoDup l' -> In a l -> (forall x, In x l' <-> x <> a /\ In x l) -> length l = Datatypes.S (length l').
Proof.
  intros Hl Hl' Hi Hm. change (Datatypes.S (length l')) with (length (a :: l')).
  apply Permutation_length. apply NoDup_Permutation; auto.
  - constructor; auto. rewrite Hm. tauto.
  - intros x. simpl. rewrite Hm. split.
    + intros H. destruct (atom_eqb a x) eqn:E.
      * apply atom_eqb_spec in E. auto.
      * right. split; auto. intros ->. rewrite (proj2 (atom_eqb_spec a a) eq_refl) in E. discriminate.
    + intros [<-|[_ H]]; auto.
Qed.
Lemma filter_neq_in (a : atom) s x : In x (filter (fun y => negb (atom_eqb a y)) s) <-> x <> a /\ In x s.
Proof.
  rewrite filter_In. split.
  - intros [H1 H2]. split; auto. intros ->. rewrite (proj2 (atom_eqb_spec a a) eq_refl) in H2. discriminate.
  - intros [H1 H2]. split; auto. destruct (atom_eqb a x) eqn:E; auto. apply atom_eqb_spec in E. congruence.
Qed.

Lemma pgs {V} k (v : V) m : pget k (pput k v m) = Some v.
Proof. apply get_put_same. apply pred_eqb_spec. Qed.
Lemma pgo {V} k k' (v : V) m : k' <> k -> pget k' (pput k v m) = pget k' m.
Proof. apply get_put_other. apply pred_eqb_spec. Qed.
Lemma pgd_other {V} k k' (m : list (pred * V)) : k' <> k -> pget k' (pdel k m) = pget k' m.
Proof. apply get_del_other. apply pred_eqb_spec. Qed.
Lemma pgd_same {V} k (m : list (pred * V)) : NoDup (keys m) -> pget k (pdel k m) = None.
Proof. apply get_del_same. apply pred_eqb_spec. Qed.
Lemma pnd_put {V} k (v : V) m : NoDup (keys m) -> NoDup (keys (pput k v m)).
Proof. apply nodup_put. apply pred_eqb_spec. Qed.
Lemma pnd_del {V} k (m : list (pred * V)) : NoDup (keys m) -> NoDup (keys (pdel k m)).
Proof. apply nodup_del. Qed.
Lemma pmsum_put {V} (f : V -> Z) k v m :
  msum f (pput k v m) = msum f m + f v - match pget k m with Some v0 => f v0 | None => 0 end.
Proof. apply msum_put. Qed.
Lemma pmsum_del {V} (f : V -> Z) k (m : list (pred * V)) :
  msum f (pdel k m) = msum f m - match pget k m with Some v0 => f v0 | None => 0 end.
Proof. apply msum_del. Qed.
Lemma pred_eqb_refl p : pred_eqb p p = true.
Proof. apply pred_eqb_spec; reflexivity. Qed.

(* outputs are compared up to the order of result lists *)
Definition out_equiv (x y : out) : Prop :=
  match x, y with
  | OB b, OB b' => b = b'
  | OL l, OL l' => Permutation l l'
  | OP l, OP l' => Permutation l l'
  | ON n, ON n' => n = n'
  | OU, OU => True
  | _, _ => False
  end.
(* the same, but a predicate listing only has to cover the set's predicates *)
Definition out_covers (x y : out) : Prop :=
  match x, y with
  | OP l, OP l' => incl l' l
  | _, _ => out_equiv x y
  end.

Section Lifting.
  Context {T : Type} (I : shard_impl T).
  Variable elems : T -> list atom.
  Variable WF : pred -> T -> Prop.
  Variable ok2 : atom -> atom -> Prop.     (* side condition between an argument atom and a stored atom *)
  Definition okc (a : atom) (s : list atom) : Prop := forall x, In x s -> ok2 a x.

  Definition pconst (p : pred) : bool := use_constants I && (snd p =? 0).

  Record shard_ok : Prop := {
    so_pred : forall p t a, WF p t -> In a (elems t) -> pred_of a = p;
    so_nodup : forall p t, WF p t -> NoDup (elems t);
    so_new : forall a, pconst (pred_of a) = false ->
      WF (pred_of a) (sh_new I a) /\ forall x, In x (elems (sh_new I a)) <-> x = a;
    so_add : forall t a, WF (pred_of a) t -> pconst (pred_of a) = false -> okc a (elems t) ->
      WF (pred_of a) (fst (sh_add I a t)) /\ snd (sh_add I a t) = negb (s_mem a (elems t)) /\
      forall x, In x (elems (fst (sh_add I a t))) <-> x = a \/ In x (elems t);
    so_remove : forall t a, WF (pred_of a) t -> pconst (pred_of a) = false -> okc a (elems t) ->
      WF (pred_of a) (fst (sh_remove I a t)) /\ snd (sh_remove I a t) = s_mem a (elems t) /\
      forall x, In x (elems (fst (sh_remove I a t))) <-> x <> a /\ In x (elems t);
    so_contains : forall t a, WF (pred_of a) t -> pconst (pred_of a) = false -> okc a (elems t) ->
      sh_contains I a t = s_mem a (elems t);
    so_query : forall p t pat, WF p t -> pconst p = false -> Z.of_nat (length pat) = snd p ->
      Permutation (sh_query I pat t) (filter (fun f => matches pat (snd f)) (elems t));
    so_count : forall p t, WF p t -> cached_count I = false -> sh_count I t = Z.of_nat (length (elems t));
    so_drop : forall p t, WF p t -> sh_drop_empty I t = true -> elems t = [];
  }.
  Hypothesis SO : shard_ok.

  Definition Mem (st : gstore T) (a : atom) : Prop :=
    if pconst (pred_of a) then pget (pred_of a) (constants st) <> None
    else exists t, pget (pred_of a) (shards st) = Some t /\ In a (elems t).

  Definition elen (t : T) : Z := Z.of_nat (length (elems t)).
  Definition csum (st : gstore T) : Z :=
    msum (fun _ : atom => 1) (constants st) + msum elen (shards st).

  Record R (st : gstore T) (s : sset) : Prop := {
    r_nodup : NoDup s;
    r_ck : NoDup (keys (constants st));
    r_sk : NoDup (keys (shards st));
    r_const : forall p a, pget p (constants st) = Some a -> pconst p = true /\ a = (fst p, []);
    r_shard : forall p t, pget p (shards st) = Some t -> pconst p = false /\ WF p t;
    r_mem : forall a, In a s <-> Mem st a;
    r_count : count st = Z.of_nat (length s);
    r_csum : csum st = Z.of_nat (length s);
  }.

  Lemma is_const_pconst a : is_const I a = pconst (pred_of a).
  Proof. reflexivity. Qed.
  Lemma const_atom a : pconst (pred_of a) = true -> a = (fst (pred_of a), []).
  Proof.
    unfold pconst, pred_of. destruct a as [s l]; simpl. rewrite andb_true_iff. intros [_ H].
    apply Z.eqb_eq in H. destruct l; simpl in H; [reflexivity|lia].
  Qed.
  Lemma pconst_same_pred a b : pconst (pred_of a) = true -> pred_of a = pred_of b -> a = b.
  Proof.
    intros H E. rewrite (const_atom a H). rewrite E in H. rewrite (const_atom b H). rewrite E. reflexivity.
  Qed.

  Lemma R_empty : R (g_empty) [].
  Proof.
    constructor; simpl; try constructor; try discriminate; try reflexivity.
    - tauto.
    - unfold Mem; simpl. destruct (pconst (pred_of a)); [congruence|]. intros [t [H _]]; discriminate.
  Qed.


  (* replacing (or creating) the shard of predicate p *)
  Lemma R_upd st s p t' s' cnt :
    R st s -> pconst p = false -> WF p t' -> NoDup s' ->
    (forall x, pred_of x = p -> (In x s' <-> In x (elems t'))) ->
    (forall x, pred_of x <> p -> (In x s' <-> In x s)) ->
    cnt = Z.of_nat (length s') ->
    Z.of_nat (length s') = Z.of_nat (length s) + elen t'
        - match pget p (shards st) with Some t0 => elen t0 | None => 0 end ->
    R {| constants := constants st; shards := pput p t' (shards st); count := cnt |} s'.
  Proof.
    intros HR Hp Hwf Hnd Hin Hout Hcnt Hlen. destruct HR.
    constructor; simpl; auto.
    - apply pnd_put; auto.
    - intros q t Hq. destruct (pred_eqb q p) eqn:E.
      + apply pred_eqb_spec in E; subst q. rewrite pgs in Hq. inversion Hq; subst. auto.
      + rewrite pgo in Hq. apply r_shard0; auto.
        intros ->. rewrite pred_eqb_refl in E. discriminate.
    - intros x. unfold Mem; simpl.
      destruct (pred_eqb (pred_of x) p) eqn:E.
      + apply pred_eqb_spec in E. rewrite (Hin x E). rewrite E, Hp. rewrite pgs.
        split; [intros H; eauto | intros [t [Ht Hi]]; inversion Ht; subst; auto].
      + assert (Hne : pred_of x <> p).
        { intros Hx. rewrite Hx in E. rewrite pred_eqb_refl in E. discriminate. }
        rewrite (Hout x Hne). rewrite r_mem0. unfold Mem. rewrite pgo; auto. tauto.
    - unfold csum in *; simpl. rewrite pmsum_put. lia.
  Qed.

  Lemma Mem_shard st s a t :
    R st s -> pconst (pred_of a) = false -> pget (pred_of a) (shards st) = Some t ->
    (In a s <-> In a (elems t)).
  Proof.
    intros HR Hp Hg. rewrite (r_mem _ _ HR). unfold Mem. rewrite Hp. split.
    - intros [t' [Ht Hi]]. congruence.
    - eauto.
  Qed.
  Lemma Mem_noshard st s a :
    R st s -> pconst (pred_of a) = false -> pget (pred_of a) (shards st) = None -> ~ In a s.
  Proof.
    intros HR Hp Hg. rewrite (r_mem _ _ HR). unfold Mem. rewrite Hp. intros [t [Ht _]]. congruence.
  Qed.
  Lemma elems_sub st s p t x : R st s -> pget p (shards st) = Some t -> In x (elems t) -> In x s.
  Proof.
    intros HR Hg Hi. destruct (r_shard _ _ HR _ _ Hg) as [Hp Hwf].
    assert (E := so_pred SO _ _ _ Hwf Hi). subst p.
    rewrite (r_mem _ _ HR). unfold Mem. rewrite Hp. eauto.
  Qed.

  Lemma add_ok st s a :
    R st s -> okc a s ->
    R (fst (g_add I a st)) (fst (s_add a s)) /\ snd (g_add I a st) = snd (s_add a s).
  Proof.
    intros HR Hok. unfold g_add, g_add_raw, s_add. rewrite is_const_pconst.
    destruct (pconst (pred_of a)) eqn:Hp.
    - (* zero-arity atom in the constants map *)
      destruct (pget (pred_of a) (constants st)) eqn:Hg; simpl.
      + assert (Hin : In a s) by (rewrite (r_mem _ _ HR); unfold Mem; rewrite Hp, Hg; congruence).
        rewrite (proj2 (s_mem_in a s) Hin). simpl. auto.
      + assert (Hnin : ~ In a s) by (rewrite (r_mem _ _ HR); unfold Mem; rewrite Hp, Hg; congruence).
        rewrite (proj2 (s_mem_false a s) Hnin). simpl. split; auto.
        destruct HR. constructor; simpl; auto.
        * constructor; auto.
        * apply pnd_put; auto.
        * intros q b Hq. destruct (pred_eqb q (pred_of a)) eqn:E.
          -- apply pred_eqb_spec in E; subst q. rewrite pgs in Hq. inversion Hq; subst. split; auto.
             apply const_atom; auto.
          -- rewrite pgo in Hq. apply r_const0; auto.
             intros ->. rewrite pred_eqb_refl in E. discriminate.
        * intros x. unfold Mem; simpl. destruct (pconst (pred_of x)) eqn:Hx.
          -- destruct (pred_eqb (pred_of x) (pred_of a)) eqn:E.
             ++ apply pred_eqb_spec in E. assert (x = a) by (apply pconst_same_pred; auto). subst x.
                rewrite pgs. split; [congruence|auto].
             ++ assert (Hne : pred_of x <> pred_of a).
                { intros Hx'. rewrite Hx' in E. rewrite pred_eqb_refl in E. discriminate. }
                rewrite pgo; auto. specialize (r_mem0 x). unfold Mem in r_mem0. rewrite Hx in r_mem0.
                rewrite <- r_mem0. split; [intros [->|H]; [congruence|auto] | auto].
          -- specialize (r_mem0 x). unfold Mem in r_mem0. rewrite Hx in r_mem0. rewrite <- r_mem0.
             split; [intros [->|H]; [congruence|auto] | auto].
        * rewrite r_count0. lia.
        * unfold csum in *; simpl. rewrite pmsum_put. rewrite Hg. lia.
    - destruct (pget (pred_of a) (shards st)) eqn:Hg.
      + (* the predicate has a shard *)
        destruct (r_shard _ _ HR _ _ Hg) as [_ Hwf].
        assert (Hokt : okc a (elems t)) by (intros x Hx; apply Hok; eapply elems_sub; eauto).
        destruct (so_add SO t a Hwf Hp Hokt) as [Hwf' [Hb Hel]].
        destruct (sh_add I a t) as [t' b]; simpl in *. subst b.
        assert (Hms : s_mem a s = s_mem a (elems t)).
        { destruct (s_mem a (elems t)) eqn:E.
          - apply s_mem_in. apply (Mem_shard st s a t HR Hp Hg). apply s_mem_in; auto.
          - apply s_mem_false. rewrite (Mem_shard st s a t HR Hp Hg). apply s_mem_false; auto. }
        rewrite Hms. destruct (s_mem a (elems t)) eqn:E; simpl.
        * split; auto. apply s_mem_in in E.
          eapply R_upd; eauto.
          -- exact (r_nodup _ _ HR).
          -- intros x Hx. rewrite Hel. rewrite <- Hx in Hg. rewrite (Mem_shard st s x t HR); auto.
             ++ split; auto. intros [->|H]; auto.
             ++ rewrite Hx; auto.
          -- tauto.
          -- exact (r_count _ _ HR).
          -- rewrite Hg. unfold elen.
             assert (length (elems t') = length (elems t)); [|lia].
             apply Permutation_length. apply NoDup_Permutation; eauto using so_nodup.
             intros x. rewrite Hel. split; auto. intros [->|H]; auto.
        * split; auto. apply s_mem_false in E.
          assert (Hns : ~ In a s) by (rewrite (Mem_shard st s a t HR Hp Hg); auto).
          eapply R_upd; eauto.
          -- constructor; auto. exact (r_nodup _ _ HR).
          -- intros x Hx. rewrite Hel. simpl. rewrite <- Hx in Hg.
             assert (Hpx : pconst (pred_of x) = false) by (rewrite Hx; auto).
             rewrite (Mem_shard st s x t HR Hpx Hg). split; [intros [<-|H]; auto | intros [->|H]; auto].
          -- intros x Hx. simpl. split; auto. intros [<-|H]; auto. congruence.
          -- simpl. rewrite (r_count _ _ HR). lia.
          -- rewrite Hg. unfold elen. rewrite (len_add a (elems t) (elems t')); eauto using so_nodup.
             simpl. lia.
      + (* first atom of the predicate: a new shard *)
        assert (Hns : ~ In a s) by (eapply Mem_noshard; eauto).
        rewrite (proj2 (s_mem_false a s) Hns). simpl. split; auto.
        destruct (so_new SO a Hp) as [Hwf' Hel].
        eapply R_upd; eauto.
        * constructor; auto. exact (r_nodup _ _ HR).
        * intros x Hx. rewrite Hel. simpl. split; [intros [<-|H]; auto|auto].
          exfalso. assert (Hpx : pconst (pred_of x) = false) by (rewrite Hx; auto).
          rewrite <- Hx in Hg. exact (Mem_noshard st s x HR Hpx Hg H).
        * intros x Hx. simpl. split; auto. intros [<-|H]; auto. congruence.
        * simpl. rewrite (r_count _ _ HR). lia.
        * rewrite Hg. unfold elen.
          assert (length (elems (sh_new I a)) = 1%nat); [|simpl; lia].
          change 1%nat with (length [a]). apply Permutation_length. apply NoDup_Permutation.
          -- eapply so_nodup; eauto.
          -- constructor; auto. constructor.
          -- intros x. rewrite Hel. simpl. intuition.
  Qed.

  Lemma R_del st s p t s' cnt :
    R st s -> pget p (shards st) = Some t -> NoDup s' ->
    (forall x, pred_of x = p -> ~ In x s') ->
    (forall x, pred_of x <> p -> (In x s' <-> In x s)) ->
    cnt = Z.of_nat (length s') ->
    Z.of_nat (length s') = Z.of_nat (length s) - elen t ->
    R {| constants := constants st; shards := pdel p (shards st); count := cnt |} s'.
  Proof.
    intros HR Hg Hnd Hin Hout Hcnt Hlen. destruct HR.
    constructor; simpl; auto.
    - apply pnd_del; auto.
    - intros q t0 Hq. destruct (pred_eqb q p) eqn:E.
      + apply pred_eqb_spec in E; subst q. rewrite pgd_same in Hq; auto. discriminate.
      + rewrite pgd_other in Hq; auto. intros ->. rewrite pred_eqb_refl in E. discriminate.
    - intros x. unfold Mem; simpl.
      destruct (pred_eqb (pred_of x) p) eqn:E.
      + apply pred_eqb_spec in E. destruct (r_shard0 _ _ Hg) as [Hp _].
        rewrite E, Hp. rewrite pgd_same; auto. split.
        * intros H. exfalso. exact (Hin x E H).
        * intros [t0 [Ht _]]. discriminate.
      + assert (Hne : pred_of x <> p).
        { intros Hx. rewrite Hx in E. rewrite pred_eqb_refl in E. discriminate. }
        rewrite (Hout x Hne). rewrite r_mem0. unfold Mem. rewrite pgd_other; auto. tauto.
    - unfold csum in *; simpl. rewrite pmsum_del. rewrite Hg. lia.
  Qed.

  Lemma remove_ok st s a :
    R st s -> okc a s ->
    R (fst (g_remove I a st)) (fst (s_remove a s)) /\ snd (g_remove I a st) = snd (s_remove a s).
  Proof.
    intros HR Hok. unfold g_remove, g_remove_raw, s_remove. rewrite is_const_pconst.
    assert (Hfn : NoDup (filter (fun y => negb (atom_eqb a y)) s)) by (apply NoDup_filter; exact (r_nodup _ _ HR)).
    destruct (pconst (pred_of a)) eqn:Hp.
    - destruct (pget (pred_of a) (constants st)) eqn:Hg; simpl.
      + assert (Hin : In a s) by (rewrite (r_mem _ _ HR); unfold Mem; rewrite Hp, Hg; congruence).
        rewrite (proj2 (s_mem_in a s) Hin). simpl. split; auto.
        assert (Hlen : length s = Datatypes.S (length (filter (fun y => negb (atom_eqb a y)) s))).
        { apply (len_remove a); auto. exact (r_nodup _ _ HR). apply filter_neq_in. }
        destruct HR. constructor; simpl; auto.
        * apply pnd_del; auto.
        * intros q b Hq. destruct (pred_eqb q (pred_of a)) eqn:E.
          -- apply pred_eqb_spec in E; subst q. rewrite pgd_same in Hq; auto. discriminate.
          -- rewrite pgd_other in Hq; auto. intros ->. rewrite pred_eqb_refl in E. discriminate.
        * intros x. rewrite filter_neq_in. unfold Mem; simpl. destruct (pconst (pred_of x)) eqn:Hx.
          -- destruct (pred_eqb (pred_of x) (pred_of a)) eqn:E.
             ++ apply pred_eqb_spec in E. assert (x = a) by (apply pconst_same_pred; auto). subst x.
                rewrite pgd_same; auto. tauto.
             ++ assert (Hne : pred_of x <> pred_of a).
                { intros Hx'. rewrite Hx' in E. rewrite pred_eqb_refl in E. discriminate. }
                rewrite pgd_other; auto. specialize (r_mem0 x). unfold Mem in r_mem0. rewrite Hx in r_mem0.
                rewrite <- r_mem0. split; [tauto|]. intros H. split; auto. intros ->. congruence.
          -- specialize (r_mem0 x). unfold Mem in r_mem0. rewrite Hx in r_mem0. rewrite <- r_mem0.
             split; [tauto|]. intros H. split; auto. intros ->. congruence.
        * rewrite r_count0. lia.
        * unfold csum in *; simpl. rewrite pmsum_del. rewrite Hg. lia.
      + assert (Hnin : ~ In a s) by (rewrite (r_mem _ _ HR); unfold Mem; rewrite Hp, Hg; congruence).
        rewrite (proj2 (s_mem_false a s) Hnin). simpl. auto.
    - destruct (pget (pred_of a) (shards st)) eqn:Hg.
      + destruct (r_shard _ _ HR _ _ Hg) as [_ Hwf].
        assert (Hokt : okc a (elems t)) by (intros x Hx; apply Hok; eapply elems_sub; eauto).
        destruct (so_remove SO t a Hwf Hp Hokt) as [Hwf' [Hb Hel]].
        destruct (sh_remove I a t) as [t' b]; simpl in *. subst b.
        assert (Hms : s_mem a s = s_mem a (elems t)).
        { destruct (s_mem a (elems t)) eqn:E.
          - apply s_mem_in. apply (Mem_shard st s a t HR Hp Hg). apply s_mem_in; auto.
          - apply s_mem_false. rewrite (Mem_shard st s a t HR Hp Hg). apply s_mem_false; auto. }
        rewrite Hms. destruct (s_mem a (elems t)) eqn:E; simpl.
        * split; auto. apply s_mem_in in E.
          assert (Hins : In a s) by (apply (Mem_shard st s a t HR Hp Hg); auto).
          assert (Hlen : length s = Datatypes.S (length (filter (fun y => negb (atom_eqb a y)) s))).
          { apply (len_remove a); auto. exact (r_nodup _ _ HR). apply filter_neq_in. }
          assert (Hlt : length (elems t) = Datatypes.S (length (elems t'))).
          { apply (len_remove a); eauto using so_nodup. }
          destruct (sh_drop_empty I t') eqn:Hd.
          -- assert (He := so_drop SO _ _ Hwf' Hd).
             eapply R_del; eauto.
             ++ intros x Hx. rewrite filter_neq_in. intros [Hxa Hxs].
                assert (Hpx : pconst (pred_of x) = false) by (rewrite Hx; auto).
                rewrite <- Hx in Hg. rewrite (Mem_shard st s x t HR Hpx Hg) in Hxs.
                assert (In x (elems t')) by (apply Hel; auto). rewrite He in H. exact H.
             ++ intros x Hx. rewrite filter_neq_in. split; [tauto|]. intros H; split; auto. intros ->. congruence.
             ++ rewrite (r_count _ _ HR). lia.
             ++ unfold elen. rewrite He in Hlt. simpl in Hlt. lia.
          -- eapply R_upd; eauto.
             ++ intros x Hx. rewrite filter_neq_in, Hel.
                assert (Hpx : pconst (pred_of x) = false) by (rewrite Hx; auto).
                rewrite <- Hx in Hg. rewrite (Mem_shard st s x t HR Hpx Hg). tauto.
             ++ intros x Hx. rewrite filter_neq_in. split; [tauto|]. intros H; split; auto. intros ->. congruence.
             ++ rewrite (r_count _ _ HR). lia.
             ++ rewrite Hg. unfold elen. lia.
        * split; auto. apply s_mem_false in E.
          eapply R_upd; eauto.
          -- exact (r_nodup _ _ HR).
          -- intros x Hx. rewrite Hel.
             assert (Hpx : pconst (pred_of x) = false) by (rewrite Hx; auto).
             rewrite <- Hx in Hg. rewrite (Mem_shard st s x t HR Hpx Hg).
             split; [intros H; split; auto; intros ->; auto | tauto].
          -- tauto.
          -- exact (r_count _ _ HR).
          -- rewrite Hg. unfold elen.
             assert (length (elems t') = length (elems t)); [|lia].
             apply Permutation_length. apply NoDup_Permutation; eauto using so_nodup.
             intros x. rewrite Hel. split; [tauto|]. intros H; split; auto. intros ->; auto.
      + assert (Hns : ~ In a s) by (eapply Mem_noshard; eauto).
        rewrite (proj2 (s_mem_false a s) Hns). simpl. auto.
  Qed.

  Lemma contains_ok st s a : R st s -> okc a s -> g_contains I a st = s_mem a s.
  Proof.
    intros HR Hok. unfold g_contains. rewrite is_const_pconst.
    destruct (pconst (pred_of a)) eqn:Hp.
    - destruct (s_mem a s) eqn:E.
      + apply s_mem_in in E. rewrite (r_mem _ _ HR) in E. unfold Mem in E. rewrite Hp in E.
        destruct (pget (pred_of a) (constants st)); auto; try congruence.
      + apply s_mem_false in E. rewrite (r_mem _ _ HR) in E. unfold Mem in E. rewrite Hp in E.
        destruct (pget (pred_of a) (constants st)); auto; try (exfalso; apply E; congruence).
    - destruct (pget (pred_of a) (shards st)) eqn:Hg.
      + destruct (r_shard _ _ HR _ _ Hg) as [_ Hwf].
        assert (Hokt : okc a (elems t)) by (intros x Hx; apply Hok; eapply elems_sub; eauto).
        rewrite (so_contains SO t a Hwf Hp Hokt).
        destruct (s_mem a (elems t)) eqn:E; symmetry.
        * apply s_mem_in. apply (Mem_shard st s a t HR Hp Hg). apply s_mem_in; auto.
        * apply s_mem_false. rewrite (Mem_shard st s a t HR Hp Hg). apply s_mem_false; auto.
      + symmetry. apply s_mem_false. eapply Mem_noshard; eauto.
  Qed.

  Lemma nil_of_no_elements {A} (l : list A) : (forall x, ~ In x l) -> l = [].
  Proof. destruct l; auto. intros H. exfalso. apply (H a). left; reflexivity. Qed.

  Lemma query_ok st s q : R st s -> Permutation (g_query I q st) (s_query q s).
  Proof.
    intros HR. unfold g_query, s_query. fold (pconst (ppred_of q)).
    assert (Hfn : NoDup (filter (pat_matches q) s)) by (apply NoDup_filter; exact (r_nodup _ _ HR)).
    assert (Hpm : forall x, pat_matches q x = true <-> ppred_of q = pred_of x /\ matches (snd q) (snd x) = true).
    { intros x. unfold pat_matches. rewrite andb_true_iff, pred_eqb_spec. tauto. }
    destruct (pconst (ppred_of q)) eqn:Hp.
    - assert (Hq0 : snd q = []).
      { unfold pconst, ppred_of in Hp. simpl in Hp. apply andb_true_iff in Hp. destruct Hp as [_ Hp].
        apply Z.eqb_eq in Hp. destruct (snd q); [reflexivity|simpl in Hp; lia]. }
      destruct (pget (ppred_of q) (constants st)) eqn:Hg.
      + destruct (r_const _ _ HR _ _ Hg) as [_ Ha].
        apply NoDup_Permutation; auto.
        * constructor; auto. constructor.
        * intros x. rewrite filter_In, Hpm. simpl. split.
          -- intros [<-|[]]. assert (Hpa : pred_of a = ppred_of q).
             { subst a. unfold pred_of, ppred_of. simpl. rewrite Hq0. reflexivity. }
             split; [|split; auto; rewrite Hq0; reflexivity].
             rewrite (r_mem _ _ HR). unfold Mem. rewrite Hpa, Hp, Hg. congruence.
          -- intros [Hxs [Hxp _]]. left. subst a.
             rewrite Hxp in Hp. rewrite (const_atom x Hp). rewrite Hxp. reflexivity.
      + replace (filter (pat_matches q) s) with (@nil atom); auto.
        symmetry. apply nil_of_no_elements. intros x. rewrite filter_In, Hpm. intros [Hxs [Hxp _]].
        rewrite (r_mem _ _ HR) in Hxs. unfold Mem in Hxs. rewrite <- Hxp, Hp, Hg in Hxs. congruence.
    - destruct (pget (ppred_of q) (shards st)) eqn:Hg.
      + destruct (r_shard _ _ HR _ _ Hg) as [_ Hwf].
        rewrite (so_query SO _ t (snd q) Hwf Hp eq_refl).
        apply NoDup_Permutation; auto.
        * apply NoDup_filter. eapply so_nodup; eauto.
        * intros x. rewrite !filter_In, Hpm. split.
          -- intros [Hx Hm]. split; [eapply elems_sub; eauto|]. split; auto.
             symmetry. eapply so_pred; eauto.
          -- intros [Hxs [Hxp Hm]]. split; auto.
             rewrite Hxp in Hg, Hp. apply (Mem_shard st s x t HR Hp Hg). auto.
      + replace (filter (pat_matches q) s) with (@nil atom); auto.
        symmetry. apply nil_of_no_elements. intros x. rewrite filter_In, Hpm. intros [Hxs [Hxp _]].
        rewrite Hxp in Hg, Hp. exact (Mem_noshard st s x HR Hp Hg Hxs).
  Qed.

  Lemma preds_cover st s : R st s -> incl (s_preds s) (g_preds st).
  Proof.
    intros HR p Hp. unfold s_preds in Hp. rewrite (dedup_in pred_eqb pred_eqb_spec) in Hp.
    apply in_map_iff in Hp. destruct Hp as [a [<- Ha]].
    rewrite (r_mem _ _ HR) in Ha. unfold Mem in Ha. unfold g_preds. apply in_or_app.
    destruct (pconst (pred_of a)).
    - left. destruct (pget (pred_of a) (constants st)) eqn:G; [|congruence].
      eapply get_some_in_keys; [apply pred_eqb_spec|exact G].
    - right. destruct Ha as [t [G _]]. eapply get_some_in_keys; [apply pred_eqb_spec|exact G].
  Qed.

  Lemma length_msum {V} (m : list (pred * V)) : Z.of_nat (length m) = msum (fun _ => 1) m.
  Proof.
    unfold msum. induction m as [|x m IH]; [reflexivity|].
    cbn [length fold_right]. rewrite Nat2Z.inj_succ, IH. lia.
  Qed.

  Lemma count_ok st s : R st s -> g_count I st = s_count s.
  Proof.
    intros HR. unfold g_count, s_count. destruct (cached_count I) eqn:Hc.
    - exact (r_count _ _ HR).
    - rewrite <- (r_csum _ _ HR). unfold csum. rewrite <- length_msum. f_equal.
      assert (H : forall m, (forall p t, In (p, t) m -> sh_count I t = elen t) ->
                  fold_right (fun (kv : pred * T) c => sh_count I (snd kv) + c) 0 m = msum elen m).
      { unfold msum. induction m as [|[p t] m IH]; simpl; auto. intros Hm.
        rewrite IH; [|intros; apply (Hm p0); auto]. rewrite (Hm p t); auto. }
      apply H. intros p t Hin. apply in_get with (keqb := pred_eqb) in Hin.
      + destruct (r_shard _ _ HR _ _ Hin) as [_ Hwf]. eapply so_count; eauto.
      + apply pred_eqb_spec.
      + exact (r_sk _ _ HR).
  Qed.

  Lemma merge_ok l : forall st s, R st s -> (forall a, In a l -> okc a (l ++ s)) ->
    R (g_merge I l st) (s_merge l s).
  Proof.
    unfold g_merge, s_merge. induction l as [|a l IH]; intros st s HR Hok; simpl; auto.
    assert (Hoa : okc a s) by (intros x Hx; apply (Hok a); [left; auto|right; apply in_or_app; auto]).
    destruct (add_ok st s a HR Hoa) as [HR' _].
    apply IH; auto. intros b Hb x Hx. apply (Hok b); [right; auto|].
    apply in_app_or in Hx. destruct Hx as [Hx|Hx]; [right; apply in_or_app; auto|].
    unfold s_add in Hx. destruct (s_mem a s); simpl in Hx.
    - right. apply in_or_app; auto.
    - destruct Hx as [<-|Hx]; [left; auto|right; apply in_or_app; auto].
  Qed.

  (* ---- histories *)
  Lemma s_merge_incl l : forall s U, incl l U -> incl s U -> incl (s_merge l s) U.
  Proof.
    unfold s_merge. induction l as [|a l IH]; intros s U Hl Hs; simpl; auto.
    apply IH; [intros x Hx; apply Hl; right; auto|].
    unfold s_add. destruct (s_mem a s); simpl; auto.
    intros x [<-|Hx]; [apply Hl; left; auto|auto].
  Qed.

  Theorem refines_set_on (U : list atom) :
    (forall a b, In a U -> In b U -> ok2 a b) ->
    forall h st s, R st s -> incl s U -> incl (history_atoms h) U ->
      Forall2 out_covers (run (g_step I) st h) (run s_step s h).
  Proof.
    intros HU. induction h as [|o h IH]; intros st s HR Hs Hh; simpl; [constructor|].
    assert (Hh' : incl (history_atoms h) U).
    { intros x Hx. apply Hh. unfold history_atoms. simpl. apply in_or_app; right; exact Hx. }
    assert (Hoa : forall a, In a (op_atoms o) -> In a U).
    { intros a Ha. apply Hh. unfold history_atoms. simpl. apply in_or_app; left; exact Ha. }
    assert (Hokc : forall a, In a (op_atoms o) -> okc a s).
    { intros a Ha x Hx. apply HU; auto. }
    destruct o as [a|a|a|q| | |l]; simpl.
    - destruct (add_ok st s a HR (Hokc a (or_introl eq_refl))) as [HR' Hb].
      destruct (g_add I a st) as [st' b]; destruct (s_add a s) as [s' b'] eqn:Es; simpl in *.
      constructor; [exact Hb|]. apply IH; auto.
      unfold s_add in Es. destruct (s_mem a s); inversion Es; subst; auto.
      intros x [<-|Hx]; auto; try (apply Hoa; left; reflexivity).
    - destruct (remove_ok st s a HR (Hokc a (or_introl eq_refl))) as [HR' Hb].
      destruct (g_remove I a st) as [st' b]; destruct (s_remove a s) as [s' b'] eqn:Es; simpl in *.
      constructor; [exact Hb|]. apply IH; auto.
      unfold s_remove in Es. destruct (s_mem a s); inversion Es; subst; auto.
      intros x Hx. apply filter_In in Hx. apply Hs; tauto.
    - constructor; [simpl; apply contains_ok; auto; apply Hokc; left; auto|]. apply IH; auto.
    - constructor; [simpl; apply query_ok; auto|]. apply IH; auto.
    - constructor; [simpl; apply preds_cover; auto|]. apply IH; auto.
    - constructor; [simpl; apply count_ok; auto|]. apply IH; auto.
    - constructor; [simpl; auto|]. apply IH; auto.
      + apply merge_ok; auto. intros a Ha x Hx. apply HU; [apply Hoa; auto|].
        apply in_app_or in Hx. destruct Hx; [apply Hoa; auto|auto].
      + apply s_merge_incl; auto.
  Qed.
End Lifting.
