(* The simple store's shard (a map from Atom.Hash() to the atom) acts as a set
   as long as no stored atom shares its hash with a different argument atom. *)
From Coq Require Import List ZArith Bool Lia Permutation.
From MV Require Import Store.AMap Store.SetSpec Store.Generic Store.Simple Store.AMapProofs Store.GenericProofs.
Import ListNotations.
Open Scope Z_scope.

Lemma put_none_app {V} k (v : V) m : zget k m = None -> zput k v m = m ++ [(k, v)].
Proof.
  unfold zget, zput. induction m as [|[k2 v2] m IH]; simpl; auto.
  destruct (k =? k2); [discriminate|]. intros H. rewrite IH; auto.
Qed.
Lemma in_del {V} k (m : list (Z * V)) h x :
  NoDup (keys m) -> (In (h, x) (zdel k m) <-> In (h, x) m /\ h <> k).
Proof.
  unfold zdel. induction m as [|[k2 v2] m IH]; simpl; [tauto|]. intros Hnd. inversion Hnd; subst.
  destruct (k =? k2) eqn:E.
  - apply Z.eqb_eq in E; subst k2. split.
    + intros H. split; auto. intros ->. apply H1. change k with (fst (k, x)). apply in_map; auto.
    + intros [[H|H] Hn]; auto. inversion H; subst. congruence.
  - apply Z.eqb_neq in E. simpl. rewrite IH; auto. split.
    + intros [H|[H Hn]]; auto. inversion H; subst. split; auto.
    + intros [[H|H] Hn]; auto.
Qed.

Section SimpleShard.
  Variable hash : atom -> Z.

  Definition s_elems (t : simple_shard) : list atom := vals t.
  Definition s_WF (p : pred) (t : simple_shard) : Prop :=
    NoDup (keys t) /\ forall h a, In (h, a) t -> h = hash a /\ pred_of a = p.
  Definition s_ok2 (a x : atom) : Prop := hash x = hash a -> x = a.

  Lemma in_vals (t : simple_shard) a : In a (vals t) <-> exists h, In (h, a) t.
  Proof.
    unfold vals. rewrite in_map_iff. split.
    - intros [[h b] [E H]]. simpl in E; subst. eauto.
    - intros [h H]. exists (h, a). auto.
  Qed.
  Lemma wf_in_vals p t a : s_WF p t -> (In a (vals t) <-> zget (hash a) t = Some a).
  Proof.
    intros [Hnd Hpl]. rewrite in_vals. split.
    - intros [h H]. destruct (Hpl _ _ H) as [-> _]. apply in_get; auto. apply zeqb_spec.
    - intros H. exists (hash a). eapply get_in; eauto. apply zeqb_spec.
  Qed.
  Lemma wf_vals_nodup p t : s_WF p t -> NoDup (vals t).
  Proof.
    intros [Hnd Hpl]. induction t as [|[h a] t IH]; simpl; [constructor|].
    inversion Hnd; subst. constructor.
    - rewrite in_vals. intros [h' H]. destruct (Hpl h' a (or_intror H)) as [-> _].
      destruct (Hpl h a (or_introl eq_refl)) as [-> _]. apply H1.
      change (hash a) with (fst (hash a, a)). apply in_map; auto.
    - apply IH; auto. intros h' b H. apply Hpl. right; auto.
  Qed.
  Lemma get_hit p t a b : s_WF p t -> okc s_ok2 a (s_elems t) -> zget (hash a) t = Some b -> b = a.
  Proof.
    intros Hwf Hok Hg. assert (Hin : In (hash a, b) t) by (eapply get_in; eauto; apply zeqb_spec).
    destruct Hwf as [_ Hpl]. destruct (Hpl _ _ Hin) as [Hh _].
    apply Hok; auto. unfold s_elems. apply in_vals. eauto.
  Qed.

  Lemma simple_shard_ok : shard_ok (simple_impl hash) s_elems s_WF s_ok2.
  Proof.
    constructor.
    - intros p t a [_ Hpl] Hin. apply in_vals in Hin. destruct Hin as [h H]. apply (Hpl _ _ H).
    - intros p t Hwf. eapply wf_vals_nodup; eauto.
    - intros a _. simpl. split.
      + split; [repeat constructor; simpl; tauto|]. intros h b [H|[]]. inversion H; subst; auto.
      + intros x. unfold s_elems; simpl. intuition.
    - intros t a Hwf _ Hok. simpl. destruct (zget (hash a) t) eqn:Hg; simpl.
      + assert (a0 = a) by (eapply get_hit; eauto). subst a0.
        assert (Hin : In a (s_elems t)) by (apply (wf_in_vals _ _ _ Hwf); auto).
        split; auto. split; [rewrite (proj2 (s_mem_in _ _) Hin); reflexivity|].
        intros x. split; auto. intros [->|H]; auto.
      + assert (Hnin : ~ In a (s_elems t)).
        { unfold s_elems. rewrite (wf_in_vals _ _ _ Hwf). congruence. }
        rewrite (proj2 (s_mem_false _ _) Hnin). rewrite put_none_app; auto.
        destruct Hwf as [Hnd Hpl]. split; [|split; auto].
        * split.
          -- unfold keys. rewrite map_app. simpl. apply Permutation_NoDup with (l := hash a :: map fst t).
             ++ apply Permutation_cons_append.
             ++ constructor; auto. eapply get_none_notin; eauto. apply zeqb_spec.
          -- intros h b Hin. apply in_app_or in Hin. destruct Hin as [Hin|[Hin|[]]]; auto.
             inversion Hin; subst; auto.
        * intros x. unfold s_elems, vals. rewrite map_app, in_app_iff. simpl. intuition.
    - intros t a Hwf _ Hok. simpl. destruct (zget (hash a) t) eqn:Hg; simpl.
      + assert (a0 = a) by (eapply get_hit; eauto). subst a0.
        assert (Hin : In a (s_elems t)) by (apply (wf_in_vals _ _ _ Hwf); auto).
        rewrite (proj2 (s_mem_in _ _) Hin). destruct Hwf as [Hnd Hpl]. split; [|split; auto].
        * split; [apply nodup_del; auto|]. intros h b H. apply in_del in H; auto. apply Hpl; tauto.
        * intros x. unfold s_elems. rewrite !in_vals. split.
          -- intros [h H]. apply in_del in H; auto. destruct H as [H Hn]. split; eauto.
             intros ->. destruct (Hpl _ _ H) as [-> _]. congruence.
          -- intros [Hn [h H]]. exists h. apply in_del; auto. split; auto.
             destruct (Hpl _ _ H) as [-> _]. intros E. apply Hn. apply Hok; auto.
             unfold s_elems. apply in_vals; eauto.
      + assert (Hnin : ~ In a (s_elems t)).
        { unfold s_elems. rewrite (wf_in_vals _ _ _ Hwf). congruence. }
        rewrite (proj2 (s_mem_false _ _) Hnin). split; auto. split; auto.
        intros x. split; [intros H; split; auto; intros ->; auto | tauto].
    - intros t a Hwf _ Hok. simpl. destruct (zget (hash a) t) eqn:Hg; simpl; symmetry.
      + assert (a0 = a) by (eapply get_hit; eauto). subst a0.
        apply s_mem_in. apply (wf_in_vals _ _ _ Hwf); auto.
      + apply s_mem_false. unfold s_elems. rewrite (wf_in_vals _ _ _ Hwf). congruence.
    - intros p t pat _ _ _. simpl. apply Permutation_refl.
    - intros p t _ _. simpl. unfold s_elems, vals. rewrite map_length. reflexivity.
    - intros p t _. simpl. destruct t; [reflexivity|discriminate].
  Qed.
End SimpleShard.
