(* Assembly of the C06 results from the lifting, the shard proofs and the
   wrapper lemmas; Props/C06.v restates them with `exact`. *)
From Coq Require Import List ZArith Bool Lia Permutation.
From MV Require Import Store.AMap Store.SetSpec Store.Generic Store.Simple Store.Indexed Store.MultiIndexed
  Store.MultiIndexedArray Store.Wrappers Store.AMapProofs Store.GenericProofs Store.SimpleProofs Store.WrappersProofs.
Import ListNotations.
Open Scope Z_scope.

Definition collision_free (hash : atom -> Z) (h : list op) : Prop :=
  forall a b, In a (history_atoms h) -> In b (history_atoms h) -> hash a = hash b -> a = b.

Lemma simple_refines (hash : atom -> Z) (h : list op) :
  collision_free hash h ->
  Forall2 out_covers (run (g_step (simple_impl hash)) g_empty h) (run s_step [] h).
Proof.
  intros Hcf.
  apply (refines_set_on (simple_impl hash) (s_elems) (s_WF hash) (s_ok2 hash) (simple_shard_ok hash) (history_atoms h)).
  - intros a b Ha Hb E. apply Hcf; auto.
  - apply R_empty.
  - intros x [].
  - apply incl_refl.
Qed.

Lemma simple_collision (hash : atom -> Z) (a b : atom) :
  a <> b -> hash a = hash b -> pred_of a = pred_of b ->
  ~ Forall2 out_covers (run (g_step (simple_impl hash)) g_empty [Add a; Add b]) (run s_step [] [Add a; Add b]).
Proof.
  intros Hab Hh Hp H. simpl in H. unfold g_add, g_add_raw in H. simpl in H.
  rewrite <- Hp in H. simpl in H. rewrite pred_eqb_refl in H. simpl in H.
  unfold zget in H. simpl in H. rewrite Hh, Z.eqb_refl in H. simpl in H.
  unfold s_add, s_mem in H. simpl in H.
  destruct (atom_eqb b a) eqn:E.
  - apply atom_eqb_spec in E. congruence.
  - simpl in H. inversion H as [|? ? ? ? _ H2]; subst. inversion H2 as [|? ? ? ? H3 _]; subst.
    simpl in H3. discriminate.
Qed.

(* boolean comparison of outputs, for finite sweeps *)
Fixpoint rm1 {A} (e : A -> A -> bool) (x : A) (l : list A) : option (list A) :=
  match l with
  | [] => None
  | y :: l' => if e x y then Some l' else match rm1 e x l' with Some r => Some (y :: r) | None => None end
  end.
Fixpoint permb {A} (e : A -> A -> bool) (a b : list A) : bool :=
  match a with
  | [] => match b with [] => true | _ => false end
  | x :: a' => match rm1 e x b with Some b' => permb e a' b' | None => false end
  end.
Definition out_coversb (x y : out) : bool :=
  match x, y with
  | OB b, OB b' => Bool.eqb b b'
  | OL l, OL l' => permb atom_eqb l l'
  | OP l, OP l' => forallb (fun p => existsb (pred_eqb p) l) l'
  | ON n, ON n' => n =? n'
  | OU, OU => true
  | _, _ => false
  end.
Fixpoint all2 {A B} (f : A -> B -> bool) (x : list A) (y : list B) : bool :=
  match x, y with
  | [], [] => true
  | a :: x', b :: y' => f a b && all2 f x' y'
  | _, _ => false
  end.

(* a small universe in which everything collides or not, as the tables say *)
Definition u_atoms : list atom := [(0, [0; 1]); (0, [1; 1]); (0, [1; 0])].
Definition u_ops : list op :=
  flat_map (fun a => [Add a; Remove a; Contains a]) u_atoms ++
  [Query (0, [None; None]); Query (0, [Some 1; None]); Query (0, [None; Some 1]); Query (0, [Some 1; Some 1]);
   Count; Preds; Merge [(0, [1; 1]); (0, [0; 1])]].
Definition u_hists : list (list op) :=
  let one := map (fun o => [o]) u_ops in
  let two := flat_map (fun o => map (cons o) one) u_ops in
  let three := flat_map (fun o => map (cons o) two) u_ops in
  one ++ two ++ three.
Definition tbl (v : list Z) (k : Z) : Z := nth (Z.to_nat k) v 0.
Definition atom_ix (a : atom) : Z :=
  if atom_eqb a (0, [0; 1]) then 0 else if atom_eqb a (0, [1; 1]) then 1 else 2.
Definition u_hashes : list (list Z) := [[0;0;0]; [0;0;1]; [0;1;0]; [1;0;0]; [0;1;2]].
Definition u_chashes : list (list Z) := [[0;0]; [0;1]].
Definition array_agrees (hv cv : list Z) (h : list op) : bool :=
  all2 out_coversb (run (g_step (array_impl (fun a => tbl hv (atom_ix a)) (tbl cv))) g_empty h) (run s_step [] h).

Lemma array_small_sweep :
  forallb (fun hv => forallb (fun cv => forallb (array_agrees hv cv) u_hists) u_chashes) u_hashes = true.
Proof. vm_compute. reflexivity. Qed.

Lemma array_small hv cv h :
  In hv u_hashes -> In cv u_chashes -> In h u_hists -> array_agrees hv cv h = true.
Proof.
  intros H1 H2 H3. pose proof array_small_sweep as S.
  rewrite forallb_forall in S. specialize (S hv H1).
  rewrite forallb_forall in S. specialize (S cv H2).
  rewrite forallb_forall in S. exact (S h H3).
Qed.

(* ---- witnesses of the repaired and the recorded defects, on the models *)
Definition pa : atom := (0, [7]).
Lemma tee_add_prefix_witness :
  snd (tee_add_prefix set_ops (view set_ops [pa]) pa []) = true /\ snd (s_add pa ([pa] ++ [])) = false.
Proof. vm_compute. auto. Qed.
Lemma tee_preds_prefix_witness :
  tee_preds_prefix set_ops (view set_ops [(1, [7])]) [(1, [7; 7])] = [(1, 2)] /\
  s_preds ([(1, [7])] ++ [(1, [7; 7])]) = [(1, 1); (1, 2)].
Proof. vm_compute. auto. Qed.
Lemma tee_merge_dup_witness :
  o_query (tee_set [pa]) (0, [None]) (o_merge (tee_set [pa]) [pa] []) = [pa; pa] /\
  s_query (0, [None]) (s_merge [pa] ([pa] ++ [])) = [pa].
Proof. vm_compute. auto. Qed.
Lemma merged_merge_dup_witness :
  o_query (merged_set [[pa]]) (0, [None]) (o_merge (merged_set [[pa]]) [pa] []) = [pa; pa] /\
  s_query (0, [None]) (s_merge [pa] (concat [[pa]] ++ [])) = [pa].
Proof. vm_compute. auto. Qed.
Definition h0 (a : atom) : Z := fst a * 1000 + fold_right Z.add 0 (snd a).
Lemma listpreds_after_remove_witness :
  run (g_step (indexed_impl h0 (fun c => c))) g_empty [Add pa; Remove pa; Preds] = [OB true; OB true; OP [(0, 1)]] /\
  run (g_step (array_impl h0 (fun c => c))) g_empty [Add pa; Remove pa; Preds] = [OB true; OB true; OP [(0, 1)]] /\
  run (g_step (simple_impl h0)) g_empty [Add pa; Remove pa; Preds] = [OB true; OB true; OP []] /\
  run s_step [] [Add pa; Remove pa; Preds] = [OB true; OB true; OP []].
Proof. vm_compute. auto. Qed.
