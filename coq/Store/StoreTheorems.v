(* Assembly of the C06 results from the lifting, the shard proofs and the
   wrapper lemmas; Props/C06.v restates them with `exact`. *)
From Coq Require Import List ZArith Bool Lia Permutation.
From MV Require Import Store.AMap Store.SetSpec Store.Generic Store.Simple Store.Indexed Store.MultiIndexed
  Store.MultiIndexedArray Store.Wrappers Store.AMapProofs Store.GenericProofs Store.SimpleProofs Store.WrappersProofs Store.NestedProofs Store.ArrayProofs
  Store.IndexedProofs Store.MultiProofs Store.ComposeProofs Store.ListPredsProofs.
Import ListNotations.
Open Scope Z_scope.

Definition collision_free (hash : atom -> Z) (h : list op) : Prop :=
  forall a b, In a (history_atoms h) -> In b (history_atoms h) -> hash a = hash b -> a = b.

Lemma simple_refines (hash : atom -> Z) (h : list op) :
  collision_free hash h ->
  Forall2 out_covers (run (g_step (simple_impl hash)) g_empty h) (run s_step [] h).
Proof.
  intros Hcf.
  apply (refines_set_on (simple_impl hash) (s_elems) (s_WF hash) (s_ok2 hash) (simple_shard_ok hash) (history_atoms h)).
  - intros a b Ha Hb E. apply Hcf; auto.
  - apply R_empty.
  - intros x [].
  - apply incl_refl.
Qed.

Lemma simple_refines_exactly (hash : atom -> Z) (h : list op) :
  collision_free hash h ->
  Forall2 out_equiv (run (g_step (simple_impl hash)) g_empty h) (run s_step [] h).
Proof.
  intros Hcf.
  apply (refines_set_exactly (simple_impl hash) s_elems (s_WF hash) (s_ok2 hash) (simple_shard_ok hash)
           (simple_drop_exact hash) (history_atoms h)).
  - intros a b Ha Hb E. apply Hcf; auto.
  - apply R_empty.
  - apply NE_empty.
  - intros x [].
  - apply incl_refl.
Qed.

Lemma array_refines (hash : atom -> Z) (chash : Z -> Z) (h : list op) :
  Forall2 out_covers (run (g_step (array_impl hash chash)) g_empty h) (run s_step [] h).
Proof.
  apply (refines_set_on (array_impl hash chash) (a_elems) (a_WF hash chash) (fun _ _ => True)
           (array_shard_ok hash chash) (history_atoms h)).
  - intros; exact I.
  - apply R_empty.
  - intros x [].
  - apply incl_refl.
Qed.

Lemma indexed_refines (hash : atom -> Z) (chash : Z -> Z) (h : list op) :
  collision_free hash h ->
  Forall2 out_covers (run (g_step (indexed_impl hash chash)) g_empty h) (run s_step [] h).
Proof.
  intros Hcf.
  apply (refines_set_on (indexed_impl hash chash) (i_elems) (i_WF hash chash) (s_ok2 hash)
           (indexed_shard_ok hash chash) (history_atoms h)).
  - intros a b Ha Hb E. apply Hcf; auto.
  - apply R_empty.
  - intros x [].
  - apply incl_refl.
Qed.

Lemma multi_refines (hash : atom -> Z) (chash : Z -> Z) (h : list op) :
  collision_free hash h ->
  Forall2 out_covers (run (g_step (multi_impl hash chash)) g_empty h) (run s_step [] h).
Proof.
  intros Hcf.
  apply (refines_set_on (multi_impl hash chash) (m_elems) (m_WF hash chash) (s_ok2 hash)
           (multi_shard_ok hash chash) (history_atoms h)).
  - intros a b Ha Hb E. apply Hcf; auto.
  - apply R_empty.
  - intros x [].
  - apply incl_refl.
Qed.

Lemma simple_collision (hash : atom -> Z) (a b : atom) :
  a <> b -> hash a = hash b -> pred_of a = pred_of b ->
  ~ Forall2 out_covers (run (g_step (simple_impl hash)) g_empty [Add a; Add b]) (run s_step [] [Add a; Add b]).
Proof.
  intros Hab Hh Hp H. simpl in H. unfold g_add, g_add_raw in H. simpl in H.
  rewrite <- Hp in H. simpl in H. rewrite pred_eqb_refl in H. simpl in H.
  unfold zget in H. simpl in H. rewrite Hh, Z.eqb_refl in H. simpl in H.
  unfold s_add, s_mem in H. simpl in H.
  destruct (atom_eqb b a) eqn:E.
  - apply atom_eqb_spec in E. congruence.
  - simpl in H. inversion H as [|? ? ? ? _ H2]; subst. inversion H2 as [|? ? ? ? H3 _]; subst.
    simpl in H3. discriminate.
Qed.

(* ---- wrappers over stores that refine sets *)
(* the documented domain of a wrapper whose read-only part holds B: Remove only
   removes from the write store, a Merge brings no atom of B (finding N7) *)
Definition wrapper_domain (B : sset) (o : op) : Prop :=
  match o with Remove a => ~ In a B | Merge l => forall x, In x l -> ~ In x B | _ => True end.

Lemma tee_run {S SB} (Out : store_ops S) (WB : store_ops SB) RelO DO RelB DB (U : atom -> Prop) :
  set_like Out RelO DO -> set_like WB RelB DB -> reads_in U DB ->
  forall stB B o O, RelB stB B -> RelO o O -> NoDup (B ++ O) ->
  forall h, Forall (fun x => DO x /\ (forall a, In a (op_atoms x) -> U a /\ DO (Contains a)) /\ wrapper_domain B x) h ->
  Forall2 out_covers (run (o_step (tee_ops Out (view WB stB))) o h) (run s_step (B ++ O) h).
Proof.
  intros HO HB Hr stB B o O HRB HRO Hnd h Hh.
  apply (sim_run _ _ _ (tee_sim Out RelO DO U B HO (view WB stB) (view_refines WB RelB DB U stB B HB Hr HRB))).
  - exists O. destruct (nodup_app_inv _ _ Hnd) as [H1 [H2 H3]]. split; auto. split; auto. split; auto.
    intros x. rewrite in_app_iff. tauto.
  - exact Hh.
Qed.

Lemma merged_run {S} (Out : store_ops S) RelO DO (U : atom -> Prop) reads Bs :
  set_like Out RelO DO -> Forall2 (ro_refines U) reads Bs ->
  forall o O, RelO o O -> NoDup (concat Bs ++ O) ->
  forall h, Forall (fun x => DO x /\ (forall a, In a (op_atoms x) -> U a /\ DO (Contains a)) /\ wrapper_domain (concat Bs) x) h ->
  Forall2 out_covers (run (o_step (merged_ops Out reads)) o h) (run s_step (concat Bs ++ O) h).
Proof.
  intros HO HBs o O HRO Hnd h Hh. destruct (nodup_app_inv _ _ Hnd) as [H1 [H2 H3]].
  apply (sim_run _ _ _ (merged_sim Out RelO DO U (concat Bs) HO reads Bs HBs eq_refl H1)).
  - exists O. split; auto. split; auto. split; auto. intros x. rewrite in_app_iff. tauto.
  - exact Hh.
Qed.

Lemma hist_dom (U : atom -> Prop) h : (forall a, In a (history_atoms h) -> U a) -> Forall (in_dom U) h.
Proof.
  intros H. apply Forall_forall. intros o Ho a Ha. apply H. unfold history_atoms. apply in_flat_map. eauto.
Qed.
Lemma history_atoms_app h h' : history_atoms (h ++ h') = history_atoms h ++ history_atoms h'.
Proof. unfold history_atoms. apply flat_map_app. Qed.
Lemma reads_in_dom (U : atom -> Prop) : reads_in U (in_dom U).
Proof.
  split; [intros a Ha x [<-|[]]; exact Ha|]. split; [intros q x []|]. split; intros x [].
Qed.
Lemma wrap_dom_hist (U : atom -> Prop) B h :
  (forall a, In a (history_atoms h) -> U a) -> Forall (wrapper_domain B) h ->
  Forall (fun x => in_dom U x /\ (forall a, In a (op_atoms x) -> U a /\ in_dom U (Contains a)) /\ wrapper_domain B x) h.
Proof.
  intros HU Hd. pose proof (hist_dom U h HU) as Hh. rewrite Forall_forall in *.
  intros o Ho. split; [apply Hh; auto|]. split; [|apply Hd; auto].
  intros a Ha. split; [apply (Hh o Ho a Ha)|]. intros x [<-|[]]. apply (Hh o Ho a Ha).
Qed.

(* the in-memory store of any kind after a history, as a read-only component *)
Lemma inmemory_after {T} (I : shard_impl T) e w k (U : atom -> Prop) :
  shard_ok I e w k -> (forall a b, U a -> U b -> k a b) ->
  forall hB, (forall a, In a (history_atoms hB) -> U a) ->
  base_rel I e w U (final (g_step I) g_empty hB) (final s_step [] hB).
Proof.
  intros SO HU hB HB. rewrite (final_ext _ _ (g_step_o_step I)).
  apply (sim_final _ _ _ (base_sim I e w k U SO HU)); [apply base_rel_empty|apply hist_dom; auto].
Qed.

Lemma tee_inmemory {TB TO} (IB : shard_impl TB) (IO : shard_impl TO) eB wB kB eO wO kO :
  shard_ok IB eB wB kB -> shard_ok IO eO wO kO ->
  forall hB h : list op,
    (forall a b, In a (history_atoms (hB ++ h)) -> In b (history_atoms (hB ++ h)) -> kB a b /\ kO a b) ->
    Forall (wrapper_domain (final s_step [] hB)) h ->
    Forall2 out_covers
      (run (o_step (tee_ops (g_ops IO) (view (g_ops IB) (final (g_step IB) g_empty hB)))) g_empty h)
      (run s_step (final s_step [] hB) h).
Proof.
  intros SB SO hB h Hk Hd. set (U := fun a => In a (history_atoms (hB ++ h))).
  assert (HUB : forall a, In a (history_atoms hB) -> U a).
  { intros a Ha. unfold U. rewrite history_atoms_app. apply in_or_app; auto. }
  assert (HUh : forall a, In a (history_atoms h) -> U a).
  { intros a Ha. unfold U. rewrite history_atoms_app. apply in_or_app; auto. }
  pose proof (inmemory_after IB eB wB kB U SB (fun a b Ha Hb => proj1 (Hk a b Ha Hb)) hB HUB) as HRB.
  pose proof (tee_run (g_ops IO) (g_ops IB) _ _ _ _ U
                (base_sim IO eO wO kO U SO (fun a b Ha Hb => proj2 (Hk a b Ha Hb)))
                (base_sim IB eB wB kB U SB (fun a b Ha Hb => proj1 (Hk a b Ha Hb)))
                (reads_in_dom U) _ _ g_empty [] HRB (base_rel_empty IO eO wO U)) as H.
  rewrite app_nil_r in H. apply H.
  - exact (r_nodup _ _ _ _ _ (proj1 HRB)).
  - apply wrap_dom_hist; auto.
Qed.

(* read-only in-memory stores of one kind, each built by its own history *)
Lemma merged_inmemory {TB TW} (IB : shard_impl TB) (IW : shard_impl TW) eB wB kB eW wW kW :
  shard_ok IB eB wB kB -> shard_ok IW eW wW kW ->
  forall (hBs : list (list op)) (h : list op),
    (forall a b, In a (history_atoms (concat hBs ++ h)) -> In b (history_atoms (concat hBs ++ h)) -> kB a b /\ kW a b) ->
    NoDup (concat (map (final s_step []) hBs)) ->
    Forall (wrapper_domain (concat (map (final s_step []) hBs))) h ->
    Forall2 out_covers
      (run (o_step (merged_ops (g_ops IW) (map (fun hB => view (g_ops IB) (final (g_step IB) g_empty hB)) hBs))) g_empty h)
      (run s_step (concat (map (final s_step []) hBs)) h).
Proof.
  intros SB SW hBs h Hk Hnd Hd. set (U := fun a => In a (history_atoms (concat hBs ++ h))).
  assert (HUh : forall a, In a (history_atoms h) -> U a).
  { intros a Ha. unfold U. rewrite history_atoms_app. apply in_or_app; auto. }
  assert (HUB : forall hB, In hB hBs -> forall a, In a (history_atoms hB) -> U a).
  { intros hB Hin a Ha. unfold U. rewrite history_atoms_app. apply in_or_app; left.
    unfold history_atoms in *. apply in_flat_map in Ha. destruct Ha as [o [Ho Ha]].
    apply in_flat_map. exists o. split; auto. apply in_concat. eauto. }
  assert (HF0 : forall l, (forall hB, In hB l -> forall a, In a (history_atoms hB) -> U a) ->
                Forall2 (ro_refines U) (map (fun hB => view (g_ops IB) (final (g_step IB) g_empty hB)) l)
                        (map (final s_step []) l)).
  { induction l as [|hB l IH]; intros Hl; simpl; constructor.
    - apply (view_refines (g_ops IB) _ _ U _ _
               (base_sim IB eB wB kB U SB (fun a b Ha Hb => proj1 (Hk a b Ha Hb))) (reads_in_dom U)).
      apply (inmemory_after IB eB wB kB U SB (fun a b Ha Hb => proj1 (Hk a b Ha Hb))). apply Hl. left; auto.
    - apply IH. intros hB' Hin. apply Hl. right; auto. }
  pose proof (HF0 hBs HUB) as HF.
  pose proof (merged_run (g_ops IW) _ _ U _ _
                (base_sim IW eW wW kW U SW (fun a b Ha Hb => proj2 (Hk a b Ha Hb))) HF
                g_empty [] (base_rel_empty IW eW wW U)) as H.
  rewrite app_nil_r in H. apply H; auto. apply wrap_dom_hist; auto.
Qed.

(* NewTeeingStore(base): the output store is a fresh array store *)
Lemma tee_over_array (hash : atom -> Z) (chash : Z -> Z) (hB h : list op) :
  Forall (wrapper_domain (final s_step [] hB)) h ->
  Forall2 out_covers
    (run (o_step (tee_ops (g_ops (array_impl hash chash))
                          (view (g_ops (array_impl hash chash)) (final (g_step (array_impl hash chash)) g_empty hB)))) g_empty h)
    (run s_step (final s_step [] hB) h).
Proof.
  intros Hd. apply (tee_inmemory _ _ _ _ _ _ _ _ (array_shard_ok hash chash) (array_shard_ok hash chash)); auto.
Qed.
Lemma tee_over_simple (hash : atom -> Z) (chash : Z -> Z) (hB h : list op) :
  collision_free hash (hB ++ h) ->
  Forall (wrapper_domain (final s_step [] hB)) h ->
  Forall2 out_covers
    (run (o_step (tee_ops (g_ops (array_impl hash chash))
                          (view (g_ops (simple_impl hash)) (final (g_step (simple_impl hash)) g_empty hB)))) g_empty h)
    (run s_step (final s_step [] hB) h).
Proof.
  intros Hcf Hd. apply (tee_inmemory _ _ _ _ _ _ _ _ (simple_shard_ok hash) (array_shard_ok hash chash)); auto.
  intros a b Ha Hb. split; auto. intros E. apply Hcf; auto.
Qed.

(* boolean comparison of outputs, for finite sweeps *)
Fixpoint rm1 {A} (e : A -> A -> bool) (x : A) (l : list A) : option (list A) :=
  match l with
  | [] => None
  | y :: l' => if e x y then Some l' else match rm1 e x l' with Some r => Some (y :: r) | None => None end
  end.
Fixpoint permb {A} (e : A -> A -> bool) (a b : list A) : bool :=
  match a with
  | [] => match b with [] => true | _ => false end
  | x :: a' => match rm1 e x b with Some b' => permb e a' b' | None => false end
  end.
Definition out_coversb (x y : out) : bool :=
  match x, y with
  | OB b, OB b' => Bool.eqb b b'
  | OL l, OL l' => permb atom_eqb l l'
  | OP l, OP l' => forallb (fun p => existsb (pred_eqb p) l) l'
  | ON n, ON n' => n =? n'
  | OU, OU => true
  | _, _ => false
  end.
Fixpoint all2 {A B} (f : A -> B -> bool) (x : list A) (y : list B) : bool :=
  match x, y with
  | [], [] => true
  | a :: x', b :: y' => f a b && all2 f x' y'
  | _, _ => false
  end.

(* a small universe in which everything collides or not, as the tables say *)
Definition u_atoms : list atom := [(0, [0; 1]); (0, [1; 1]); (0, [1; 0])].
Definition u_ops : list op :=
  flat_map (fun a => [Add a; Remove a; Contains a]) u_atoms ++
  [Query (0, [None; None]); Query (0, [Some 1; None]); Query (0, [None; Some 1]); Query (0, [Some 1; Some 1]);
   Count; Preds; Merge [(0, [1; 1]); (0, [0; 1])]].
Definition u_hists : list (list op) :=
  let one := map (fun o => [o]) u_ops in
  let two := flat_map (fun o => map (cons o) one) u_ops in
  let three := flat_map (fun o => map (cons o) two) u_ops in
  one ++ two ++ three.
Definition tbl (v : list Z) (k : Z) : Z := nth (Z.to_nat k) v 0.
Definition atom_ix (a : atom) : Z :=
  if atom_eqb a (0, [0; 1]) then 0 else if atom_eqb a (0, [1; 1]) then 1 else 2.
Definition u_hashes : list (list Z) := [[0;0;0]; [0;0;1]; [0;1;0]; [1;0;0]; [0;1;2]].
Definition u_chashes : list (list Z) := [[0;0]; [0;1]].
Definition array_agrees (hv cv : list Z) (h : list op) : bool :=
  all2 out_coversb (run (g_step (array_impl (fun a => tbl hv (atom_ix a)) (tbl cv))) g_empty h) (run s_step [] h).

Lemma array_small_sweep :
  forallb (fun hv => forallb (fun cv => forallb (array_agrees hv cv) u_hists) u_chashes) u_hashes = true.
Proof. vm_compute. reflexivity. Qed.

Lemma array_small hv cv h :
  In hv u_hashes -> In cv u_chashes -> In h u_hists -> array_agrees hv cv h = true.
Proof.
  intros H1 H2 H3. pose proof array_small_sweep as S.
  rewrite forallb_forall in S. specialize (S hv H1).
  rewrite forallb_forall in S. specialize (S cv H2).
  rewrite forallb_forall in S. exact (S h H3).
Qed.

(* ---- witnesses of the repaired and the recorded defects, on the models *)
Definition pa : atom := (0, [7]).
Lemma tee_add_prefix_witness :
  snd (tee_add_prefix set_ops (view set_ops [pa]) pa []) = true /\ snd (s_add pa ([pa] ++ [])) = false.
Proof. vm_compute. auto. Qed.
Lemma tee_preds_prefix_witness :
  tee_preds_prefix set_ops (view set_ops [(1, [7])]) [(1, [7; 7])] = [(1, 2)] /\
  s_preds ([(1, [7])] ++ [(1, [7; 7])]) = [(1, 1); (1, 2)].
Proof. vm_compute. auto. Qed.
Lemma tee_merge_dup_witness :
  o_query (tee_set [pa]) (0, [None]) (o_merge (tee_set [pa]) [pa] []) = [pa; pa] /\
  s_query (0, [None]) (s_merge [pa] ([pa] ++ [])) = [pa].
Proof. vm_compute. auto. Qed.
Lemma merged_merge_dup_witness :
  o_query (merged_set [[pa]]) (0, [None]) (o_merge (merged_set [[pa]]) [pa] []) = [pa; pa] /\
  s_query (0, [None]) (s_merge [pa] (concat [[pa]] ++ [])) = [pa].
Proof. vm_compute. auto. Qed.
Definition h0 (a : atom) : Z := fst a * 1000 + fold_right Z.add 0 (snd a).
Lemma listpreds_after_remove_witness :
  run (g_step (indexed_impl h0 (fun c => c))) g_empty [Add pa; Remove pa; Preds] = [OB true; OB true; OP [(0, 1)]] /\
  run (g_step (array_impl h0 (fun c => c))) g_empty [Add pa; Remove pa; Preds] = [OB true; OB true; OP [(0, 1)]] /\
  run (g_step (simple_impl h0)) g_empty [Add pa; Remove pa; Preds] = [OB true; OB true; OP []] /\
  run s_step [] [Add pa; Remove pa; Preds] = [OB true; OB true; OP []].
Proof. vm_compute. auto. Qed.
