(* The wrappers over components that behave as sets: as long as the components
   are disjoint, a teeing / merged store is the set of the union. *)
From Coq Require Import List ZArith Bool Lia Permutation.
From MV Require Import Store.AMap Store.SetSpec Store.Wrappers Store.AMapProofs Store.GenericProofs.
Import ListNotations.
Open Scope Z_scope.

Lemma s_mem_app a x y : s_mem a (x ++ y) = s_mem a x || s_mem a y.
Proof. unfold s_mem. apply existsb_app. Qed.

Definition tee_set (B : sset) : store_ops sset := tee_ops set_ops (view set_ops B).
Definition merged_set (Bs : list sset) : store_ops sset := merged_ops set_ops (map (view set_ops) Bs).

Section TeeSet.
  Variables (B O : sset).
  Hypothesis Hnd : NoDup (B ++ O).

  Lemma tee_add_ok a :
    snd (o_add (tee_set B) a O) = snd (s_add a (B ++ O)) /\
    NoDup (B ++ fst (o_add (tee_set B) a O)) /\
    forall x, In x (B ++ fst (o_add (tee_set B) a O)) <-> In x (fst (s_add a (B ++ O))).
  Proof.
    simpl. unfold tee_add. simpl. unfold s_add. rewrite s_mem_app.
    destruct (s_mem a B) eqn:EB; simpl; [split; [reflexivity|split; [exact Hnd|tauto]]|].
    destruct (s_mem a O) eqn:EO; simpl; [split; [reflexivity|split; [exact Hnd|tauto]]|].
    apply s_mem_false in EB. apply s_mem_false in EO. split; auto. split.
    - apply Permutation_NoDup with (l := a :: B ++ O).
      + apply Permutation_middle.
      + constructor; auto. rewrite in_app_iff. tauto.
    - intros x. change (In x (B ++ a :: O) <-> In x (a :: B ++ O)).
      split; apply Permutation_in; [symmetry|]; apply Permutation_middle.
  Qed.

  Lemma tee_remove_ok a : ~ In a B ->
    snd (o_remove (tee_set B) a O) = snd (s_remove a (B ++ O)) /\
    B ++ fst (o_remove (tee_set B) a O) = fst (s_remove a (B ++ O)).
  Proof.
    intros HB. simpl. unfold tee_remove. simpl. unfold s_remove. rewrite s_mem_app.
    rewrite (proj2 (s_mem_false a B) HB). simpl.
    destruct (s_mem a O); simpl; auto. split; auto.
    rewrite filter_app. f_equal. symmetry.
    clear Hnd. induction B as [|b B' IH]; simpl; auto.
    destruct (atom_eqb a b) eqn:E.
    - apply atom_eqb_spec in E. subst. exfalso. apply HB. left; auto.
    - simpl. f_equal. apply IH. intros H. apply HB. right; auto.
  Qed.

  Lemma tee_contains_ok a : o_contains (tee_set B) a O = s_mem a (B ++ O).
  Proof. simpl. unfold tee_contains. simpl. rewrite s_mem_app. reflexivity. Qed.

  Lemma tee_query_ok q : o_query (tee_set B) q O = s_query q (B ++ O).
  Proof. simpl. unfold tee_query, s_query. simpl. rewrite filter_app. reflexivity. Qed.

  Lemma tee_count_ok : o_count (tee_set B) O = s_count (B ++ O).
  Proof. simpl. unfold tee_count, s_count. simpl. unfold s_count. rewrite app_length, Nat2Z.inj_add. reflexivity. Qed.

  Lemma tee_preds_ok : Permutation (o_preds (tee_set B) O) (s_preds (B ++ O)).
  Proof.
    simpl. unfold tee_preds, s_preds. simpl.
    apply NoDup_Permutation; try apply (dedup_nodup pred_eqb pred_eqb_spec).
    intros p. rewrite !(dedup_in pred_eqb pred_eqb_spec). unfold s_preds.
    rewrite in_app_iff, !(dedup_in pred_eqb pred_eqb_spec), map_app, in_app_iff. tauto.
  Qed.
End TeeSet.

Lemma reads_mem Bs a : existsb (fun r => r_contains r a) (map (view set_ops) Bs) = s_mem a (concat Bs).
Proof. induction Bs as [|b Bs' IH]; simpl; auto. rewrite s_mem_app. f_equal. apply IH. Qed.
Lemma reads_query Bs q : flat_map (fun r => r_query r q) (map (view set_ops) Bs) = filter (pat_matches q) (concat Bs).
Proof. induction Bs as [|b Bs' IH]; simpl; auto. rewrite filter_app. f_equal. apply IH. Qed.
Lemma reads_count Bs : fold_right (fun r c => Wrappers.r_count r + c) 0 (map (view set_ops) Bs) = Z.of_nat (length (concat Bs)).
Proof.
  induction Bs as [|b Bs' IH]; simpl; auto. rewrite app_length, Nat2Z.inj_add, <- IH. reflexivity.
Qed.

Section MergedSet.
  Variables (Bs : list sset) (W : sset).
  Hypothesis Hnd : NoDup (concat Bs ++ W).


  Lemma merged_add_ok a :
    snd (o_add (merged_set Bs) a W) = snd (s_add a (concat Bs ++ W)) /\
    NoDup (concat Bs ++ fst (o_add (merged_set Bs) a W)) /\
    forall x, In x (concat Bs ++ fst (o_add (merged_set Bs) a W)) <-> In x (fst (s_add a (concat Bs ++ W))).
  Proof.
    simpl. unfold merged_add, merged_contains. rewrite reads_mem. simpl. unfold s_add.
    rewrite s_mem_app. destruct (s_mem a (concat Bs)) eqn:EB; simpl; [split; [reflexivity|split; [exact Hnd|tauto]]|].
    destruct (s_mem a W) eqn:EO; simpl; [split; [reflexivity|split; [exact Hnd|tauto]]|].
    apply s_mem_false in EB. apply s_mem_false in EO. split; auto. split.
    - apply Permutation_NoDup with (l := a :: concat Bs ++ W).
      + apply Permutation_middle.
      + constructor; auto. rewrite in_app_iff. tauto.
    - intros x. change (In x (concat Bs ++ a :: W) <-> In x (a :: concat Bs ++ W)).
      split; apply Permutation_in; [symmetry|]; apply Permutation_middle.
  Qed.

  Lemma merged_contains_ok a : o_contains (merged_set Bs) a W = s_mem a (concat Bs ++ W).
  Proof. simpl. unfold merged_contains. rewrite reads_mem. simpl. rewrite s_mem_app. reflexivity. Qed.

  Lemma merged_query_ok q : o_query (merged_set Bs) q W = s_query q (concat Bs ++ W).
  Proof.
    simpl. unfold merged_query, s_query. simpl. rewrite filter_app. f_equal. apply reads_query.
  Qed.

  Lemma merged_count_ok : o_count (merged_set Bs) W = s_count (concat Bs ++ W).
  Proof.
    simpl. unfold merged_count, s_count. simpl. unfold s_count. rewrite app_length, Nat2Z.inj_add. f_equal.
    apply reads_count.
  Qed.
End MergedSet.
