(* Lemmas about the association-list maps and the structural equalities. *)
From Coq Require Import List ZArith Bool Lia Permutation.
From MV Require Import Store.AMap Store.SetSpec.
Import ListNotations.
Open Scope Z_scope.

Section AMapFacts.
  Context {K V : Type} (keqb : K -> K -> bool).
  Hypothesis keqb_spec : forall a b, keqb a b = true <-> a = b.

  Lemma keqb_refl k : keqb k k = true.
  Proof. apply keqb_spec; reflexivity. Qed.
  Lemma keqb_neq a b : a <> b -> keqb a b = false.
  Proof. intros Hn. destruct (keqb a b) eqn:E; auto. apply keqb_spec in E. contradiction. Qed.

  Lemma get_put_same k v (m : list (K * V)) : get keqb k (put keqb k v m) = Some v.
  Proof.
    induction m as [|[k' v'] m IH]; simpl.
    - rewrite keqb_refl; reflexivity.
    - destruct (keqb k k') eqn:E; simpl.
      + rewrite keqb_refl; reflexivity.
      + rewrite E. exact IH.
  Qed.
  Lemma get_put_other k k' v (m : list (K * V)) : k' <> k -> get keqb k' (put keqb k v m) = get keqb k' m.
  Proof.
    intros Hn. induction m as [|[k2 v2] m IH]; simpl.
    - rewrite keqb_neq; auto.
    - destruct (keqb k k2) eqn:E; simpl.
      + apply keqb_spec in E; subst k2. rewrite keqb_neq; auto.
      + destruct (keqb k' k2); auto.
  Qed.
  Lemma get_del_other k k' (m : list (K * V)) : k' <> k -> get keqb k' (del keqb k m) = get keqb k' m.
  Proof.
    intros Hn. induction m as [|[k2 v2] m IH]; simpl; auto.
    destruct (keqb k k2) eqn:E; simpl.
    - apply keqb_spec in E; subst k2. rewrite keqb_neq; auto.
    - destruct (keqb k' k2); auto.
  Qed.
  Lemma get_in k v (m : list (K * V)) : get keqb k m = Some v -> In (k, v) m.
  Proof.
    induction m as [|[k2 v2] m IH]; simpl; [discriminate|].
    destruct (keqb k k2) eqn:E; intros H.
    - apply keqb_spec in E; subst. inversion H; auto.
    - auto.
  Qed.
  Lemma get_none_notin k (m : list (K * V)) : get keqb k m = None -> ~ In k (keys m).
  Proof.
    induction m as [|[k2 v2] m IH]; simpl; auto.
    destruct (keqb k k2) eqn:E; [discriminate|]. intros H [H1|H1].
    - subst. rewrite keqb_refl in E. discriminate.
    - exact (IH H H1).
  Qed.
  Lemma in_get k v (m : list (K * V)) : NoDup (keys m) -> In (k, v) m -> get keqb k m = Some v.
  Proof.
    induction m as [|[k2 v2] m IH]; simpl; [tauto|].
    intros Hnd [H|H].
    - inversion H; subst. rewrite keqb_refl; reflexivity.
    - inversion Hnd; subst. destruct (keqb k k2) eqn:E.
      + apply keqb_spec in E; subst. exfalso. apply H2. change k2 with (fst (k2, v)). apply in_map; exact H.
      + auto.
  Qed.
  Lemma get_del_same k (m : list (K * V)) : NoDup (keys m) -> get keqb k (del keqb k m) = None.
  Proof.
    induction m as [|[k2 v2] m IH]; simpl; auto. intros Hnd. inversion Hnd; subst.
    destruct (keqb k k2) eqn:E; simpl.
    - apply keqb_spec in E; subst.
      destruct (get keqb k2 m) eqn:G; auto. apply get_in in G. exfalso. apply H1.
      change k2 with (fst (k2, v)). apply in_map; exact G.
    - rewrite E. auto.
  Qed.
  Lemma keys_put k v (m : list (K * V)) :
    keys (put keqb k v m) = match get keqb k m with Some _ => keys m | None => keys m ++ [k] end.
  Proof.
    induction m as [|[k2 v2] m IH]; simpl; auto.
    destruct (keqb k k2) eqn:E; simpl.
    - apply keqb_spec in E; subst; reflexivity.
    - rewrite IH. destruct (get keqb k m); reflexivity.
  Qed.
  Lemma nodup_put k v (m : list (K * V)) : NoDup (keys m) -> NoDup (keys (put keqb k v m)).
  Proof.
    intros Hnd. rewrite keys_put. destruct (get keqb k m) eqn:G; auto.
    apply get_none_notin in G.
    apply Permutation_NoDup with (l := k :: keys m).
    - apply Permutation_cons_append.
    - constructor; auto.
  Qed.
  Lemma keys_del_incl k (m : list (K * V)) x : In x (keys (del keqb k m)) -> In x (keys m).
  Proof.
    induction m as [|[k2 v2] m IH]; simpl; auto.
    destruct (keqb k k2); simpl; tauto.
  Qed.
  Lemma nodup_del k (m : list (K * V)) : NoDup (keys m) -> NoDup (keys (del keqb k m)).
  Proof.
    induction m as [|[k2 v2] m IH]; simpl; auto. intros Hnd; inversion Hnd; subst.
    destruct (keqb k k2); simpl; auto. constructor; auto.
    intros Hin. apply H1. eapply keys_del_incl; eauto.
  Qed.
  Lemma in_keys_get k (m : list (K * V)) : In k (keys m) -> exists v, get keqb k m = Some v.
  Proof.
    induction m as [|[k2 v2] m IH]; simpl; [tauto|].
    intros [H|H].
    - subst. rewrite keqb_refl. eauto.
    - destruct (keqb k k2); eauto.
  Qed.
  Lemma get_some_in_keys k v (m : list (K * V)) : get keqb k m = Some v -> In k (keys m).
  Proof. intros H. apply get_in in H. change k with (fst (k, v)). apply in_map; exact H. Qed.

  (* sums over a map change locally *)
  Variable f : V -> Z.
  Definition msum (m : list (K * V)) : Z := fold_right (fun kv c => f (snd kv) + c) 0 m.
  Lemma msum_put k v (m : list (K * V)) :
    msum (put keqb k v m) = msum m + f v - match get keqb k m with Some v0 => f v0 | None => 0 end.
  Proof.
    unfold msum. induction m as [|[k2 v2] m IH]; simpl; [lia|].
    destruct (keqb k k2) eqn:E; simpl; [lia|]. rewrite IH. lia.
  Qed.
  Lemma msum_del k (m : list (K * V)) :
    msum (del keqb k m) = msum m - match get keqb k m with Some v0 => f v0 | None => 0 end.
  Proof.
    unfold msum. induction m as [|[k2 v2] m IH]; simpl; [lia|].
    destruct (keqb k k2) eqn:E; simpl; [lia|]. rewrite IH. lia.
  Qed.
End AMapFacts.

Lemma list_eqb_spec (x y : list Z) : list_eqb Z.eqb x y = true <-> x = y.
Proof.
  revert y; induction x as [|a x IH]; destruct y as [|b y]; simpl; try (split; [discriminate|discriminate]).
  - tauto.
  - rewrite andb_true_iff, Z.eqb_eq, IH. split; [intros [-> ->]; auto | intros H; inversion H; auto].
Qed.
Lemma atom_eqb_spec (a b : atom) : atom_eqb a b = true <-> a = b.
Proof.
  destruct a as [s x], b as [s' y]; unfold atom_eqb; simpl.
  rewrite andb_true_iff, Z.eqb_eq, list_eqb_spec. split; [intros [-> ->]; auto | intros H; inversion H; auto].
Qed.
Lemma pred_eqb_spec (p q : pred) : pred_eqb p q = true <-> p = q.
Proof.
  destruct p as [s x], q as [s' y]; unfold pred_eqb; simpl.
  rewrite andb_true_iff, !Z.eqb_eq. split; [intros [-> ->]; auto | intros H; inversion H; auto].
Qed.
Lemma zeqb_spec (a b : Z) : Z.eqb a b = true <-> a = b.
Proof. apply Z.eqb_eq. Qed.

Lemma s_mem_in a s : s_mem a s = true <-> In a s.
Proof.
  unfold s_mem. rewrite existsb_exists. split.
  - intros [x [Hin He]]. apply atom_eqb_spec in He. subst; auto.
  - intros H. exists a. split; auto. apply atom_eqb_spec; auto.
Qed.
Lemma s_mem_false a s : s_mem a s = false <-> ~ In a s.
Proof. rewrite <- s_mem_in. destruct (s_mem a s); split; congruence. Qed.

Lemma dedup_in {A} (e : A -> A -> bool) (He : forall a b, e a b = true <-> a = b) l x :
  In x (dedup e l) <-> In x l.
Proof.
  induction l as [|y l IH]; simpl; [tauto|].
  destruct (existsb (e y) l) eqn:E.
  - rewrite IH. split; auto. intros [H|H]; auto. subst.
    apply existsb_exists in E. destruct E as [z [Hz Hez]]. apply He in Hez. subst; auto.
  - simpl. rewrite IH. tauto.
Qed.
Lemma dedup_nodup {A} (e : A -> A -> bool) (He : forall a b, e a b = true <-> a = b) l : NoDup (dedup e l).
Proof.
  induction l as [|y l IH]; simpl; [constructor|].
  destruct (existsb (e y) l) eqn:E; auto.
  constructor; auto. rewrite dedup_in by auto. intros Hin.
  assert (existsb (e y) l = true) by (apply existsb_exists; exists y; split; auto; apply He; auto).
  congruence.
Qed.
