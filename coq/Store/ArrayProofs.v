(* The shard of the MultiIndexedArrayInMemoryStore acts as a set, for every
   pair of hash functions: atoms are compared inside the innermost slice.
   Invariant: every argument position holds a well-formed index, and all
   positions hold the same atoms. *)
From Coq Require Import List ZArith Bool Lia Permutation.
From MV Require Import Store.AMap Store.SetSpec Store.Generic Store.MultiIndexed Store.MultiIndexedArray
  Store.AMapProofs Store.GenericProofs Store.NestedProofs.
Import ListNotations.
Open Scope Z_scope.

Definition aid (l : list atom) : list atom := l.

Lemma rf_in a l x : NoDup l -> (In x (remove_first a l) <-> x <> a /\ In x l).
Proof.
  induction l as [|y l IH]; simpl; [tauto|]. intros Hnd. apply NoDup_cons_iff in Hnd. destruct Hnd as [Hy Hnd].
  destruct (atom_eqb a y) eqn:E.
  - apply atom_eqb_spec in E; subst y. split.
    + intros H. split; auto. intros ->. contradiction.
    + intros [Hn [H|H]]; [congruence|auto].
  - assert (Hay : y <> a).
    { intros ->. rewrite (proj2 (atom_eqb_spec a a) eq_refl) in E. discriminate. }
    simpl. rewrite IH by auto. split.
    + intros [<-|[H1 H2]]; auto.
    + intros [H1 [H2|H2]]; auto.
Qed.
Lemma rf_nodup a l : NoDup l -> NoDup (remove_first a l).
Proof.
  induction l as [|y l IH]; simpl; auto. intros Hnd. apply NoDup_cons_iff in Hnd. destruct Hnd as [Hy Hnd].
  destruct (atom_eqb a y); auto. constructor; auto. rewrite rf_in by auto. tauto.
Qed.

Lemma fold_keep (m0 : bool) (ics : list (Z * Z)) : forall b,
  fold_left (fun b (_ : Z * Z) => if m0 then b else true) ics b =
  if m0 then b else match ics with [] => b | _ => true end.
Proof.
  destruct m0; induction ics as [|ic ics IH]; intros b; simpl; auto.
  rewrite IH. destruct ics; reflexivity.
Qed.
Lemma fold_set (m0 : bool) (ics : list (Z * Z)) : forall b,
  fold_left (fun b (_ : Z * Z) => if m0 then true else b) ics b =
  if m0 then match ics with [] => b | _ => true end else b.
Proof.
  destruct m0; induction ics as [|ic ics IH]; intros b; simpl; auto.
  rewrite IH. destruct ics; reflexivity.
Qed.

Section ArrayShard.
  Variable hash : atom -> Z.
  Variable chash : Z -> Z.

  Definition a_WF3 (p : pred) (t : array_shard) : Prop := WF3 aid p hash chash t.
  Definition a_elems (t : array_shard) : list atom := pel aid 0 t.
  Definition a_WF (p : pred) (t : array_shard) : Prop :=
    a_WF3 p t /\ forall i, 0 <= i < snd p -> forall x, In x (pel aid i t) <-> In x (pel aid 0 t).

  Lemma array_add_at_eq a t added i c :
    array_add_at hash chash a (t, added) (i, c) =
    let l := b2 aid (pos i t) (chash c) (hash a) in
    if existsb (atom_eqb a) l then (t, added)
    else (zput i (zput (chash c) (zput (hash a) (l ++ [a]) (dflt (zget (chash c) (pos i t)))) (pos i t)) t, true).
  Proof.
    unfold array_add_at, b2, kb, pos, aid.
    destruct (zget i t) as [params|]; [|reflexivity]. cbn [dflt].
    destruct (zget (chash c) params) as [atoms|]; [|reflexivity]. cbn [dflt].
    destruct (zget (hash a) atoms); reflexivity.
  Qed.
  Lemma array_remove_at_eq a t removed i c :
    array_remove_at hash chash a (t, removed) (i, c) =
    let l := b2 aid (pos i t) (chash c) (hash a) in
    if existsb (atom_eqb a) l
    then (zput i (zput (chash c) (zput (hash a) (remove_first a l) (dflt (zget (chash c) (pos i t)))) (pos i t)) t, true)
    else (t, removed).
  Proof.
    unfold array_remove_at, b2, kb, pos, aid.
    destruct (zget i t) as [params|]; [|reflexivity]. cbn [dflt].
    destruct (zget (chash c) params) as [atoms|]; [|reflexivity]. cbn [dflt].
    destruct (zget (hash a) atoms); reflexivity.
  Qed.

  (* the bucket of an atom holds exactly the stored atoms with its two keys *)
  Lemma bucket_in p t i a x :
    a_WF3 p t ->
    (In x (b2 aid (pos i t) (chash (argz i a)) (hash a)) <->
     In x (pel aid i t) /\ key_i chash i x = chash (argz i a) /\ hash x = hash a).
  Proof.
    intros Hwf. pose proof (WF3_pos aid p hash chash t i Hwf) as H2. split.
    - intros Hx. split; [eapply b2_el2; eauto|]. destruct (b2_sound _ _ _ _ _ _ _ _ H2 Hx) as [E1 [E2 _]]. auto.
    - intros [Hx [E1 E2]]. apply (el2_in _ _ _ _ _ _ H2) in Hx. rewrite E1, E2 in Hx. exact Hx.
  Qed.
  Lemma bucket_mem p t i a :
    a_WF3 p t -> existsb (atom_eqb a) (b2 aid (pos i t) (chash (argz i a)) (hash a)) = s_mem a (pel aid i t).
  Proof.
    intros Hwf. change (s_mem a (b2 aid (pos i t) (chash (argz i a)) (hash a)) = s_mem a (pel aid i t)).
    apply s_mem_iff. rewrite (bucket_in p t i a a Hwf). unfold key_i. tauto.
  Qed.

  (* replacing the bucket of atom a at position i by l' *)
  Lemma bucket_put p t i a l' :
    a_WF3 p t -> NoDup l' ->
    (forall x, In x l' -> key_i chash i x = chash (argz i a) /\ hash x = hash a /\ pred_of x = p) ->
    let t' := zput i (zput (chash (argz i a)) (zput (hash a) l' (dflt (zget (chash (argz i a)) (pos i t)))) (pos i t)) t in
    a_WF3 p t' /\ (forall j, j <> i -> pos j t' = pos j t) /\
    forall x, In x (pel aid i t') <->
      (key_i chash i x = chash (argz i a) /\ hash x = hash a /\ In x l') \/
      (~ (key_i chash i x = chash (argz i a) /\ hash x = hash a) /\ In x (pel aid i t)).
  Proof.
    intros Hwf Hnd Hl'. pose proof (WF3_pos aid p hash chash t i Hwf) as H2.
    destruct (put2 aid p hash (key_i chash i) (pos i t) (chash (argz i a)) (hash a) l' H2) as [HP Hb].
    { split; auto. intros x Hx. apply Hl'; auto. }
    { intros x Hx. destruct (Hl' x Hx) as [E1 [E2 _]]; auto. }
    cbv zeta. split; [apply WF3_put; auto|]. split; [intros j Hj; apply pos_put_other; auto|].
    intros x. unfold pel. rewrite pos_put_same.
    eapply (el2_upd aid p hash (key_i chash i)); [exact H2|exact HP|exact Hb].
  Qed.

  Lemma arr_add_round p a : pred_of a = p -> forall t b i, a_WF3 p t ->
    a_WF3 p (fst (array_add_at hash chash a (t, b) (i, argz i a))) /\
    (forall j, j <> i -> pos j (fst (array_add_at hash chash a (t, b) (i, argz i a))) = pos j t) /\
    (forall x, In x (pel aid i (fst (array_add_at hash chash a (t, b) (i, argz i a)))) <->
               (fun x P => x = a \/ P) x (In x (pel aid i t))) /\
    snd (array_add_at hash chash a (t, b) (i, argz i a)) = (fun m b : bool => if m then b else true) (s_mem a (pel aid i t)) b.
  Proof.
    intros Hp t b i Hwf. rewrite array_add_at_eq. cbv zeta beta.
    rewrite (bucket_mem p t i a Hwf). destruct (s_mem a (pel aid i t)) eqn:E; cbn [fst snd].
    - apply s_mem_in in E. split; auto. split; auto. split; auto.
      intros x. split; auto. intros [->|H]; auto.
    - apply s_mem_false in E. pose proof (WF3_pos aid p hash chash t i Hwf) as H2.
      assert (Hnl : ~ In a (b2 aid (pos i t) (chash (argz i a)) (hash a))).
      { intros H. apply E. apply (bucket_in p t i a a Hwf) in H. tauto. }
      destruct (bucket_put p t i a (b2 aid (pos i t) (chash (argz i a)) (hash a) ++ [a]) Hwf) as [W [Hpos Hel]].
      { apply nodup_app; [eapply b2_nodup; eauto|repeat constructor; simpl; tauto|].
        intros x Hx [<-|[]]. contradiction. }
      { intros x Hx. apply in_app_or in Hx. destruct Hx as [Hx|[<-|[]]].
        - apply (b2_sound _ _ _ _ _ _ _ _ H2 Hx).
        - unfold key_i. auto. }
      split; auto. split; auto. split; auto.
      intros x. rewrite Hel, in_app_iff, (bucket_in p t i a x Hwf). simpl. split.
      + intros [[E1 [E2 [[Hx _]|[Hx|[]]]]]|[_ Hx]]; [right; exact Hx|left; symmetry; exact Hx|right; exact Hx].
      + intros [->|Hx].
        * left. unfold key_i. tauto.
        * destruct (Z.eq_dec (key_i chash i x) (chash (argz i a))) as [E1|E1];
            [destruct (Z.eq_dec (hash x) (hash a)) as [E2|E2]|]; tauto.
  Qed.

  Lemma arr_remove_round p a : forall t b i, a_WF3 p t ->
    a_WF3 p (fst (array_remove_at hash chash a (t, b) (i, argz i a))) /\
    (forall j, j <> i -> pos j (fst (array_remove_at hash chash a (t, b) (i, argz i a))) = pos j t) /\
    (forall x, In x (pel aid i (fst (array_remove_at hash chash a (t, b) (i, argz i a)))) <->
               (fun x P => x <> a /\ P) x (In x (pel aid i t))) /\
    snd (array_remove_at hash chash a (t, b) (i, argz i a)) = (fun m b : bool => if m then true else b) (s_mem a (pel aid i t)) b.
  Proof.
    intros t b i Hwf. rewrite array_remove_at_eq. cbv zeta beta.
    rewrite (bucket_mem p t i a Hwf). destruct (s_mem a (pel aid i t)) eqn:E; cbn [fst snd].
    - apply s_mem_in in E. pose proof (WF3_pos aid p hash chash t i Hwf) as H2.
      pose proof (b2_nodup aid p hash (key_i chash i) (pos i t) (chash (argz i a)) (hash a) H2) as Hnd.
      destruct (bucket_put p t i a (remove_first a (b2 aid (pos i t) (chash (argz i a)) (hash a))) Hwf) as [W [Hpos Hel]].
      { apply rf_nodup; auto. }
      { intros x Hx. apply rf_in in Hx; auto. destruct Hx as [_ Hx]. apply (b2_sound _ _ _ _ _ _ _ _ H2 Hx). }
      split; auto. split; auto. split; auto.
      intros x. rewrite Hel, rf_in, (bucket_in p t i a x Hwf) by auto. split.
      + intros [[E1 [E2 [Hn [Hx _]]]]|[Hn Hx]]; [tauto|]. split; auto. intros ->. apply Hn. unfold key_i. tauto.
      + intros [Hn Hx].
        destruct (Z.eq_dec (key_i chash i x) (chash (argz i a))) as [E1|E1];
          [destruct (Z.eq_dec (hash x) (hash a)) as [E2|E2]|]; tauto.
    - apply s_mem_false in E. split; auto. split; auto. split; auto.
      intros x. split; [|tauto]. intros H. split; auto. intros ->. contradiction.
  Qed.

  Lemma arity_pos p a : pred_of a = p -> (snd p =? 0) = false -> 0 < snd p /\ snd p = arity a /\ iargs a <> [].
  Proof.
    intros <- H. apply Z.eqb_neq in H. unfold pred_of, arity, iargs in *. simpl in *.
    destruct (snd a); simpl in *; [lia|]. split; [lia|]. split; [reflexivity|discriminate].
  Qed.
  Lemma iargs_fst a i : In i (map fst (iargs a)) <-> 0 <= i < arity a.
  Proof. unfold iargs, arity. rewrite number_fst. lia. Qed.

  Lemma arr_add_all p a t :
    pred_of a = p -> (snd p =? 0) = false -> a_WF p t ->
    a_WF p (fst (fold_left (array_add_at hash chash a) (iargs a) (t, false))) /\
    snd (fold_left (array_add_at hash chash a) (iargs a) (t, false)) = negb (s_mem a (a_elems t)) /\
    forall x, In x (a_elems (fst (fold_left (array_add_at hash chash a) (iargs a) (t, false)))) <-> x = a \/ In x (a_elems t).
  Proof.
    intros Hp Hz [Hwf Hall]. destruct (arity_pos p a Hp Hz) as [Hpos [Har Hne]].
    destruct (rounds_ok aid p hash chash a (array_add_at hash chash a) _ _ (fun _ _ => True)
                (fun t b i H _ => arr_add_round p a Hp t b i H)
                (iargs a) t false Hwf (number_nodup _ _) (fun i c H => proj2 (iargs_spec a i c H)) (fun _ _ => I))
      as [W [Hin [_ Hb]]].
    assert (H0 : In 0 (map fst (iargs a))) by (apply iargs_fst; lia).
    split; [split; auto|split].
    - intros i Hi x. rewrite (Hin i) by (apply iargs_fst; lia). rewrite (Hin 0 H0). rewrite (Hall i Hi x). tauto.
    - etransitivity; [exact Hb|]. rewrite fold_left_ext_in with (f' := fun b _ => if s_mem a (a_elems t) then b else true).
      + rewrite fold_keep. destruct (s_mem a (a_elems t)); [reflexivity|]. destruct (iargs a); [congruence|reflexivity].
      + intros b [i c] Hi. cbn [fst]. apply iargs_spec in Hi. rewrite (s_mem_iff a _ (a_elems t)); auto.
        apply Hall. lia.
    - intros x. apply (Hin 0 H0).
  Qed.

  Lemma arr_remove_all p a t :
    pred_of a = p -> (snd p =? 0) = false -> a_WF p t ->
    a_WF p (fst (fold_left (array_remove_at hash chash a) (iargs a) (t, false))) /\
    snd (fold_left (array_remove_at hash chash a) (iargs a) (t, false)) = s_mem a (a_elems t) /\
    forall x, In x (a_elems (fst (fold_left (array_remove_at hash chash a) (iargs a) (t, false)))) <-> x <> a /\ In x (a_elems t).
  Proof.
    intros Hp Hz [Hwf Hall]. destruct (arity_pos p a Hp Hz) as [Hpos [Har Hne]].
    destruct (rounds_ok aid p hash chash a (array_remove_at hash chash a) _ _ (fun _ _ => True)
                (fun t b i H _ => arr_remove_round p a t b i H)
                (iargs a) t false Hwf (number_nodup _ _) (fun i c H => proj2 (iargs_spec a i c H)) (fun _ _ => I))
      as [W [Hin [_ Hb]]].
    assert (H0 : In 0 (map fst (iargs a))) by (apply iargs_fst; lia).
    split; [split; auto|split].
    - intros i Hi x. rewrite (Hin i) by (apply iargs_fst; lia). rewrite (Hin 0 H0). rewrite (Hall i Hi x). tauto.
    - etransitivity; [exact Hb|]. rewrite fold_left_ext_in with (f' := fun b _ => if s_mem a (a_elems t) then true else b).
      + rewrite fold_set. destruct (s_mem a (a_elems t)); [|reflexivity]. destruct (iargs a); [congruence|reflexivity].
      + intros b [i c] Hi. cbn [fst]. apply iargs_spec in Hi. rewrite (s_mem_iff a _ (a_elems t)); auto.
        apply Hall. lia.
    - intros x. apply (Hin 0 H0).
  Qed.

  Lemma a_WF_nil p : a_WF p [].
  Proof. split; [apply WF3_nil|]. intros i _ x. unfold pel, pos; simpl. tauto. Qed.

  Lemma array_new_eq a : forall ics t b,
    NoDup (map fst ics) -> (forall i c, In (i, c) ics -> zget i t = None) ->
    fold_left (fun t ic => zput (fst ic) [(chash (snd ic), [(hash a, [a])])] t) ics t =
    fst (fold_left (array_add_at hash chash a) ics (t, b)).
  Proof.
    induction ics as [|[i c] ics IH]; intros t b Hnd Hn; [reflexivity|].
    cbn [map fst] in Hnd. apply NoDup_cons_iff in Hnd. destruct Hnd as [Hi Hnd].
    cbn [fold_left fst snd].
    replace (array_add_at hash chash a (t, b) (i, c)) with (zput i [(chash c, [(hash a, [a])])] t, true).
    2:{ unfold array_add_at. rewrite (Hn i c (or_introl eq_refl)). reflexivity. }
    apply IH; auto. intros j c' Hj. rewrite zgo; [apply (Hn j c'); right; auto|].
    intros ->. apply Hi. change i with (fst (i, c')). apply in_map; auto.
  Qed.

  Lemma array_query_eq pat t :
    sh_query (array_impl hash chash) pat t =
    match first_const 0 pat with
    | Some (i, c) => filter (fun f => matches pat (snd f)) (kelems aid (dflt (zget (chash c) (pos i t))))
    | None => filter (fun f => matches pat (snd f)) (pel aid 0 t)
    end.
  Proof.
    cbn [sh_query array_impl]. destruct (first_const 0 pat) as [[i c]|]; unfold pel, el2, pos, kelems, aid.
    - destruct (zget i t) as [params|]; [|reflexivity]. cbn [dflt].
      destruct (zget (chash c) params); reflexivity.
    - destruct (zget 0 t); reflexivity.
  Qed.

  Lemma array_contains_eq a t :
    sh_contains (array_impl hash chash) a t = existsb (atom_eqb a) (b2 aid (pos 0 t) (chash (argz 0 a)) (hash a)).
  Proof.
    cbn [sh_contains array_impl]. rewrite hd_argz. unfold b2, kb, pos, aid.
    destruct (zget 0 t) as [params|]; [|reflexivity]. cbn [dflt].
    destruct (zget (chash (argz 0 a)) params) as [atoms|]; [|reflexivity]. cbn [dflt].
    destruct (zget (hash a) atoms); reflexivity.
  Qed.

  Lemma array_pconst p : pconst (array_impl hash chash) p = (snd p =? 0).
  Proof. reflexivity. Qed.

  Lemma array_shard_ok : shard_ok (array_impl hash chash) a_elems a_WF (fun _ _ => True).
  Proof.
    constructor.
    - intros p t a [Hwf _] Hin. eapply el2_pred; [apply (WF3_pos aid p hash chash t 0 Hwf)|exact Hin].
    - intros p t [Hwf _]. eapply el2_nodup. apply (WF3_pos aid p hash chash t 0 Hwf).
    - intros a Hz. rewrite array_pconst in Hz.
      cbn [sh_new array_impl]. unfold array_new.
      rewrite (array_new_eq a (iargs a) [] false (number_nodup _ _) (fun _ _ _ => eq_refl)).
      destruct (arr_add_all (pred_of a) a [] eq_refl Hz (a_WF_nil _)) as [W [_ Hel]].
      split; auto. intros x. rewrite Hel. unfold a_elems, pel, pos; simpl. tauto.
    - intros t a Hwf Hz _. rewrite array_pconst in Hz. cbn [sh_add array_impl].
      destruct (arr_add_all (pred_of a) a t eq_refl Hz Hwf) as [W [Hb Hel]]. auto.
    - intros t a Hwf Hz _. rewrite array_pconst in Hz. cbn [sh_remove array_impl].
      destruct (arr_remove_all (pred_of a) a t eq_refl Hz Hwf) as [W [Hb Hel]]. auto.
    - intros t a [Hwf _] _ _. rewrite array_contains_eq. apply (bucket_mem (pred_of a) t 0 a Hwf).
    - intros p t pat [Hwf Hall] Hz Hlen. rewrite array_pconst in Hz. rewrite array_query_eq.
      destruct (first_const 0 pat) as [[i c]|] eqn:Hfc; [|apply Permutation_refl].
      pose proof (first_const_range _ _ _ _ Hfc) as Hr.
      pose proof (WF3_pos aid p hash chash t i Hwf) as H2.
      apply NoDup_Permutation.
      + apply NoDup_filter. eapply el1_nodup. eapply WF1_sub; eauto.
      + apply NoDup_filter. eapply el2_nodup. apply (WF3_pos aid p hash chash t 0 Hwf).
      + intros x. rewrite !filter_In. rewrite (sub_in aid p hash (key_i chash i) (pos i t) (chash c) x H2).
        fold (pel aid i t). unfold a_elems. rewrite (Hall i) by lia. split; [tauto|].
        intros [Hx Hm]. split; auto. split; auto.
        pose proof (first_const_matches _ _ _ _ _ Hfc Hm) as E. unfold key_i, argz.
        replace (i - 0) with i in E by lia. rewrite E. reflexivity.
    - intros p t _ Hc. discriminate.
    - intros p t _ Hc. discriminate.
  Qed.
End ArrayShard.
