(* Go maps as association lists (model file: definitions only).
   A Go `map[K]V` is a list of (key, value) pairs with pairwise distinct keys;
   `get` is `m[k]` with the ok flag, `put` is `m[k] = v`, `del` is `delete(m, k)`.
   Iteration (`for k, v := range m`) walks the list; Go's iteration order is
   unspecified, so every observable built from an iteration is compared as a
   multiset (Props/C06.v states permutations, Run/C06.v compares sorted). *)
From Coq Require Import List ZArith Bool.
Import ListNotations.

Section AMap.
  Context {K V : Type} (keqb : K -> K -> bool).

  Fixpoint get (k : K) (m : list (K * V)) : option V :=
    match m with
    | [] => None
    | (k', v) :: m' => if keqb k k' then Some v else get k m'
    end.

  Fixpoint put (k : K) (v : V) (m : list (K * V)) : list (K * V) :=
    match m with
    | [] => [(k, v)]
    | (k', v') :: m' => if keqb k k' then (k, v) :: m' else (k', v') :: put k v m'
    end.

  Fixpoint del (k : K) (m : list (K * V)) : list (K * V) :=
    match m with
    | [] => []
    | (k', v') :: m' => if keqb k k' then m' else (k', v') :: del k m'
    end.
End AMap.

Definition keys {K V} (m : list (K * V)) : list K := map fst m.
Definition vals {K V} (m : list (K * V)) : list V := map snd m.
Definition is_some {A} (o : option A) : bool := match o with Some _ => true | None => false end.
