(* Nested hash maps as partitions of a set of atoms. Used by the indexed store
   (argument hash -> atom hash -> atom), the multi-indexed store (position ->
   argument hash -> atom hash -> atom) and the array store (the same with a
   slice of atoms as innermost value). Everything is reduced to the "bucket"
   function of a nested map: the atoms found under a pair of keys. *)
From Coq Require Import List ZArith Bool Lia Permutation.
From MV Require Import Store.AMap Store.SetSpec Store.Generic Store.MultiIndexed Store.AMapProofs Store.GenericProofs.
Import ListNotations.
Open Scope Z_scope.

Definition dflt {A} (o : option (list A)) : list A := match o with Some l => l | None => [] end.

Lemma zgs {V} k (v : V) m : zget k (zput k v m) = Some v.
Proof. apply get_put_same. apply zeqb_spec. Qed.
Lemma zgo {V} k k' (v : V) m : k' <> k -> zget k' (zput k v m) = zget k' m.
Proof. apply get_put_other. apply zeqb_spec. Qed.
Lemma zgd_same {V} k (m : list (Z * V)) : NoDup (keys m) -> zget k (zdel k m) = None.
Proof. apply get_del_same. apply zeqb_spec. Qed.
Lemma zgd_other {V} k k' (m : list (Z * V)) : k' <> k -> zget k' (zdel k m) = zget k' m.
Proof. apply get_del_other. apply zeqb_spec. Qed.
Lemma znd_put {V} k (v : V) m : NoDup (keys m) -> NoDup (keys (zput k v m)).
Proof. apply nodup_put. apply zeqb_spec. Qed.
Lemma znd_del {V} k (m : list (Z * V)) : NoDup (keys m) -> NoDup (keys (zdel k m)).
Proof. apply nodup_del. Qed.
Lemma zin_get {V} k (v : V) m : NoDup (keys m) -> In (k, v) m -> zget k m = Some v.
Proof. apply in_get. apply zeqb_spec. Qed.
Lemma zget_in {V} k (v : V) m : zget k m = Some v -> In (k, v) m.
Proof. apply get_in. apply zeqb_spec. Qed.
Lemma zin_put {V} k (v : V) k0 v0 m : In (k, v) (zput k0 v0 m) -> (k = k0 /\ v = v0) \/ In (k, v) m.
Proof.
  unfold zput. induction m as [|[k2 v2] m IH]; simpl.
  - intros [H|[]]. inversion H; auto.
  - destruct (k0 =? k2); simpl.
    + intros [H|H]; [inversion H; auto|auto].
    + intros [H|H]; [auto|]. destruct (IH H); auto.
Qed.
Lemma zin_del {V} k (v : V) k0 m : In (k, v) (zdel k0 m) -> In (k, v) m.
Proof.
  unfold zdel. induction m as [|[k2 v2] m IH]; simpl; auto.
  destruct (k0 =? k2); simpl; auto. intros [H|H]; auto.
Qed.

Lemma nodup_app {A} (l l' : list A) :
  NoDup l -> NoDup l' -> (forall x, In x l -> ~ In x l') -> NoDup (l ++ l').
Proof.
  induction l as [|a l IH]; simpl; auto. intros H1 H2 H3. inversion H1; subst. constructor.
  - rewrite in_app_iff. intros [H|H]; [auto|apply (H3 a); auto].
  - apply IH; auto.
Qed.

(* ---- one level: a map from a key of the atom to a container of atoms *)
Section Keyed.
  Context {C : Type}.
  Variable celems : C -> list atom.
  Variable key : atom -> Z.
  Variable CWF : C -> Prop.

  Definition kelems (m : list (Z * C)) : list atom := flat_map (fun kv => celems (snd kv)) m.
  Definition KWF (m : list (Z * C)) : Prop :=
    NoDup (keys m) /\ forall k c, In (k, c) m -> CWF c /\ forall x, In x (celems c) -> key x = k.
  Definition kb (m : list (Z * C)) (k : Z) : list atom :=
    match zget k m with Some c => celems c | None => [] end.

  Lemma KWF_nil : KWF [].
  Proof. split; [constructor|intros k c []]. Qed.

  Lemma kelems_in m x : KWF m -> (In x (kelems m) <-> In x (kb m (key x))).
  Proof.
    intros [Hnd Hk]. unfold kelems, kb. rewrite in_flat_map. split.
    - intros [[k c] [Hin Hx]]. simpl in Hx. destruct (Hk _ _ Hin) as [_ Hkey].
      rewrite (Hkey x Hx). rewrite (zin_get _ _ _ Hnd Hin). exact Hx.
    - destruct (zget (key x) m) as [c|] eqn:G; [|intros []].
      intros Hx. exists (key x, c). split; auto. apply zget_in; auto.
  Qed.
  Lemma kb_sound m k x : KWF m -> In x (kb m k) -> key x = k.
  Proof.
    intros [Hnd Hk]. unfold kb. destruct (zget k m) as [c|] eqn:G; [|intros []].
    apply zget_in in G. intros Hx. apply (Hk _ _ G); auto.
  Qed.
  Lemma kb_in m k x : KWF m -> In x (kb m k) -> In x (kelems m).
  Proof. intros Hwf Hx. apply kelems_in; auto. rewrite (kb_sound m k x Hwf Hx). exact Hx. Qed.
  Lemma KWF_get m k c : KWF m -> zget k m = Some c -> CWF c /\ forall x, In x (celems c) -> key x = k.
  Proof. intros [Hnd Hk] G. apply Hk. apply zget_in; auto. Qed.

  Lemma kelems_nodup m : (forall c, CWF c -> NoDup (celems c)) -> KWF m -> NoDup (kelems m).
  Proof.
    intros Hc [Hnd Hk]. unfold kelems. induction m as [|[k c] m IH]; simpl; [constructor|].
    inversion Hnd; subst. apply nodup_app.
    - apply Hc. apply (Hk k c). left; auto.
    - apply IH; auto. intros k' c' H. apply Hk. right; auto.
    - intros x Hx Hx'. apply in_flat_map in Hx'. destruct Hx' as [[k' c'] [Hin Hx']]. simpl in Hx'.
      assert (E1 : key x = k) by (apply (Hk k c); [left; auto|auto]).
      assert (E2 : key x = k') by (apply (Hk k' c'); [right; auto|auto]).
      apply H1. rewrite <- E1, E2. change k' with (fst (k', c')). apply in_map; auto.
  Qed.

  Lemma KWF_put m k c : KWF m -> CWF c -> (forall x, In x (celems c) -> key x = k) -> KWF (zput k c m).
  Proof.
    intros [Hnd Hk] Hc Hx. split; [apply znd_put; auto|].
    intros k' c' Hin. apply zin_put in Hin. destruct Hin as [[-> ->]|Hin]; auto.
  Qed.
  Lemma KWF_del m k : KWF m -> KWF (zdel k m).
  Proof.
    intros [Hnd Hk]. split; [apply znd_del; auto|]. intros k' c' Hin. apply Hk. eapply zin_del; eauto.
  Qed.
  Lemma kb_put m k c k' : kb (zput k c m) k' = if k' =? k then celems c else kb m k'.
  Proof.
    unfold kb. destruct (k' =? k) eqn:E.
    - apply Z.eqb_eq in E; subst. rewrite zgs. reflexivity.
    - apply Z.eqb_neq in E. rewrite zgo; auto.
  Qed.
  Lemma kb_del m k k' : NoDup (keys m) -> kb (zdel k m) k' = if k' =? k then [] else kb m k'.
  Proof.
    intros Hnd. unfold kb. destruct (k' =? k) eqn:E.
    - apply Z.eqb_eq in E; subst. rewrite zgd_same; auto.
    - apply Z.eqb_neq in E. rewrite zgd_other; auto.
  Qed.
End Keyed.

(* ---- two levels: argument hash -> atom hash -> container *)
Section Idx.
  Context {C : Type}.
  Variable celems : C -> list atom.
  Variable p : pred.
  Variable hash : atom -> Z.
  Variable key : atom -> Z.

  Definition leafWF (c : C) : Prop := NoDup (celems c) /\ forall x, In x (celems c) -> pred_of x = p.
  Definition WF1 (atoms : list (Z * C)) : Prop := KWF celems hash leafWF atoms.
  Definition WF2 (params : list (Z * list (Z * C))) : Prop := KWF (kelems celems) key WF1 params.
  Definition el2 (params : list (Z * list (Z * C))) : list atom := kelems (kelems celems) params.
  Definition b2 (params : list (Z * list (Z * C))) (ck h : Z) : list atom := kb celems (dflt (zget ck params)) h.

  Lemma WF2_nil : WF2 [].
  Proof. apply KWF_nil. Qed.
  Lemma WF1_sub params ck : WF2 params -> WF1 (dflt (zget ck params)).
  Proof.
    intros H. destruct (zget ck params) as [atoms|] eqn:G; simpl; [|apply KWF_nil].
    apply (KWF_get _ _ _ _ _ _ H G).
  Qed.
  Lemma sub_key params ck x : WF2 params -> In x (kelems celems (dflt (zget ck params))) -> key x = ck.
  Proof.
    intros H. destruct (zget ck params) as [atoms|] eqn:G; simpl; [|intros []].
    apply (KWF_get _ _ _ _ _ _ H G).
  Qed.

  Lemma sub_in params ck x :
    WF2 params -> (In x (kelems celems (dflt (zget ck params))) <-> In x (el2 params) /\ key x = ck).
  Proof.
    intros H. split.
    - intros Hx. pose proof (sub_key params ck x H Hx) as E. split; auto.
      unfold el2. apply (kelems_in _ _ _ _ _ H). rewrite E. unfold kb.
      destruct (zget ck params); [exact Hx|destruct Hx].
    - intros [Hx E]. unfold el2 in Hx. apply (kelems_in _ _ _ _ _ H) in Hx. rewrite E in Hx. unfold kb in Hx.
      destruct (zget ck params); [exact Hx|destruct Hx].
  Qed.
  Lemma el2_in params x : WF2 params -> (In x (el2 params) <-> In x (b2 params (key x) (hash x))).
  Proof.
    intros H. unfold el2. rewrite (kelems_in _ _ _ _ _ H). unfold b2.
    pose proof (WF1_sub params (key x) H) as H1. unfold kb at 1.
    destruct (zget (key x) params) as [atoms|]; simpl in *.
    - apply kelems_in with (CWF := leafWF); auto.
    - unfold kb; simpl. tauto.
  Qed.
  Lemma b2_sound params ck h x : WF2 params -> In x (b2 params ck h) -> key x = ck /\ hash x = h /\ pred_of x = p.
  Proof.
    intros H Hx. unfold b2 in Hx. pose proof (WF1_sub params ck H) as H1.
    split; [|split].
    - apply (sub_key params ck x H). eapply kb_in; eauto.
    - eapply kb_sound; eauto.
    - unfold kb in Hx. destruct (zget h (dflt (zget ck params))) as [c|] eqn:G; [|destruct Hx].
      destruct (KWF_get _ _ _ _ _ _ H1 G) as [[_ Hp] _]. auto.
  Qed.
  Lemma b2_nodup params ck h : WF2 params -> NoDup (b2 params ck h).
  Proof.
    intros H. unfold b2, kb. pose proof (WF1_sub params ck H) as H1.
    destruct (zget h (dflt (zget ck params))) as [c|] eqn:G; [|constructor].
    destruct (KWF_get _ _ _ _ _ _ H1 G) as [[Hn _] _]. auto.
  Qed.
  Lemma el1_nodup atoms : WF1 atoms -> NoDup (kelems celems atoms).
  Proof. apply kelems_nodup. intros c [Hn _]; auto. Qed.
  Lemma el2_nodup params : WF2 params -> NoDup (el2 params).
  Proof. apply kelems_nodup. apply el1_nodup. Qed.
  Lemma el2_pred params x : WF2 params -> In x (el2 params) -> pred_of x = p.
  Proof. intros H Hx. apply (el2_in params x H) in Hx. eapply b2_sound; eauto. Qed.
  Lemma b2_el2 params ck h x : WF2 params -> In x (b2 params ck h) -> In x (el2 params).
  Proof.
    intros H Hx. destruct (b2_sound _ _ _ _ H Hx) as [E1 [E2 _]]. apply el2_in; auto. rewrite E1, E2; auto.
  Qed.

  (* replacing the container under the keys (ck, h) *)
  Lemma put2 params ck h c' :
    WF2 params -> leafWF c' -> (forall x, In x (celems c') -> key x = ck /\ hash x = h) ->
    WF2 (zput ck (zput h c' (dflt (zget ck params))) params) /\
    forall ck' h', b2 (zput ck (zput h c' (dflt (zget ck params))) params) ck' h' =
                   if (ck' =? ck) && (h' =? h) then celems c' else b2 params ck' h'.
  Proof.
    intros H Hc Hx. pose proof (WF1_sub params ck H) as H1.
    assert (H1' : WF1 (zput h c' (dflt (zget ck params)))).
    { apply KWF_put; auto. intros x Hi. apply Hx; auto. }
    split.
    - apply KWF_put; auto. intros x Hi.
      apply (kelems_in _ _ _ _ _ H1') in Hi. rewrite kb_put in Hi.
      destruct (hash x =? h); [apply Hx; auto|].
      apply (sub_key params ck x H). eapply kb_in; eauto.
    - intros ck' h'. unfold b2. destruct (ck' =? ck) eqn:E; simpl.
      + apply Z.eqb_eq in E; subst ck'. rewrite zgs. simpl. apply kb_put.
      + apply Z.eqb_neq in E. rewrite zgo; auto.
  Qed.
  (* deleting the container under the keys (ck, h) *)
  Lemma del2 params ck h :
    WF2 params ->
    WF2 (zput ck (zdel h (dflt (zget ck params))) params) /\
    forall ck' h', b2 (zput ck (zdel h (dflt (zget ck params))) params) ck' h' =
                   if (ck' =? ck) && (h' =? h) then [] else b2 params ck' h'.
  Proof.
    intros H. pose proof (WF1_sub params ck H) as H1.
    assert (H1' : WF1 (zdel h (dflt (zget ck params)))) by (apply KWF_del; auto).
    split.
    - apply KWF_put; auto. intros x Hi.
      apply (kelems_in _ _ _ _ _ H1') in Hi. rewrite kb_del in Hi by apply H1.
      destruct (hash x =? h); [destruct Hi|].
      apply (sub_key params ck x H). eapply kb_in; eauto.
    - intros ck' h'. unfold b2. destruct (ck' =? ck) eqn:E; simpl.
      + apply Z.eqb_eq in E; subst ck'. rewrite zgs. simpl. apply kb_del. apply H1.
      + apply Z.eqb_neq in E. rewrite zgo; auto.
  Qed.

  (* membership after a change of one bucket *)
  Lemma el2_upd params params' ck h l' x :
    WF2 params -> WF2 params' ->
    (forall ck' h', b2 params' ck' h' = if (ck' =? ck) && (h' =? h) then l' else b2 params ck' h') ->
    (In x (el2 params') <-> (key x = ck /\ hash x = h /\ In x l') \/ (~ (key x = ck /\ hash x = h) /\ In x (el2 params))).
  Proof.
    intros H H' Hb. rewrite (el2_in params' x H'), (el2_in params x H), Hb.
    destruct (Z.eqb_spec (key x) ck) as [E1|E1]; destruct (Z.eqb_spec (hash x) h) as [E2|E2]; simpl; tauto.
  Qed.
End Idx.

(* ---- three levels: argument position -> the two-level index of that position *)
Definition argz (i : Z) (x : atom) : Z := nth (Z.to_nat i) (snd x) 0.

Lemma number_spec l : forall s i c, In (i, c) (number s l) ->
  s <= i < s + Z.of_nat (length l) /\ c = nth (Z.to_nat (i - s)) l 0.
Proof.
  induction l as [|c0 l IH]; intros s i c; simpl; [intros []|].
  intros [H|H].
  - inversion H; subst. replace (i - i) with 0 by lia. simpl. split; [lia|reflexivity].
  - destruct (IH _ _ _ H) as [Hr Hc]. split; [lia|].
    replace (Z.to_nat (i - s)) with (Datatypes.S (Z.to_nat (i - (s + 1)))) by lia. exact Hc.
Qed.
Lemma number_fst l : forall s i, In i (map fst (number s l)) <-> s <= i < s + Z.of_nat (length l).
Proof.
  induction l as [|c0 l IH]; intros s i; simpl; [lia|].
  rewrite IH. lia.
Qed.
Lemma number_nodup l : forall s, NoDup (map fst (number s l)).
Proof.
  induction l as [|c0 l IH]; intros s; simpl; constructor; auto.
  rewrite number_fst. lia.
Qed.
Lemma iargs_spec a i c : In (i, c) (iargs a) -> 0 <= i < arity a /\ c = argz i a.
Proof.
  intros H. apply number_spec in H. unfold arity, argz. replace (i - 0) with i in H by lia. simpl in H. exact H.
Qed.
Lemma hd_argz a : hd 0 (snd a) = argz 0 a.
Proof. unfold argz. destruct (snd a); reflexivity. Qed.

Lemma first_const_range pat : forall s i c, first_const s pat = Some (i, c) -> s <= i < s + Z.of_nat (length pat).
Proof.
  induction pat as [|[c0|] pat IH]; intros s i c; simpl; [discriminate| |].
  - intros H. inversion H; subst. lia.
  - intros H. apply IH in H. lia.
Qed.
Lemma first_const_matches pat : forall s i c args,
  first_const s pat = Some (i, c) -> matches pat args = true -> nth (Z.to_nat (i - s)) args 0 = c.
Proof.
  induction pat as [|[c0|] pat IH]; intros s i c args; simpl; [discriminate| |].
  - intros H. inversion H; subst. replace (i - i) with 0 by lia. destruct args as [|x args]; [discriminate|].
    rewrite andb_true_iff, Z.eqb_eq. simpl. intros [E _]; auto.
  - intros H. pose proof (first_const_range _ _ _ _ H) as Hr. destruct args as [|x args]; [discriminate|].
    intros Hm. replace (Z.to_nat (i - s)) with (Datatypes.S (Z.to_nat (i - (s + 1)))) by lia.
    simpl. eapply IH; eauto.
Qed.

Section Pos.
  Context {C : Type}.
  Variable celems : C -> list atom.
  Variable p : pred.
  Variable hash : atom -> Z.
  Variable chash : Z -> Z.

  Definition key_i (i : Z) (x : atom) : Z := chash (argz i x).
  Definition WF3 (t : list (Z * list (Z * list (Z * C)))) : Prop :=
    NoDup (keys t) /\ forall i params, In (i, params) t -> WF2 celems p hash (key_i i) params.
  Definition pos (i : Z) (t : list (Z * list (Z * list (Z * C)))) := dflt (zget i t).
  Definition pel (i : Z) (t : list (Z * list (Z * list (Z * C)))) : list atom := el2 celems (pos i t).

  Lemma WF3_nil : WF3 [].
  Proof. split; [constructor|intros i params []]. Qed.
  Lemma WF3_pos t i : WF3 t -> WF2 celems p hash (key_i i) (pos i t).
  Proof.
    intros [Hnd H]. unfold pos. destruct (zget i t) as [params|] eqn:G; simpl; [|apply WF2_nil].
    apply H. apply zget_in; auto.
  Qed.
  Lemma WF3_put t i P : WF3 t -> WF2 celems p hash (key_i i) P -> WF3 (zput i P t).
  Proof.
    intros [Hnd H] HP. split; [apply znd_put; auto|].
    intros j params Hin. apply zin_put in Hin. destruct Hin as [[-> ->]|Hin]; auto.
  Qed.
  Lemma pos_put_same t i P : pos i (zput i P t) = P.
  Proof. unfold pos. rewrite zgs. reflexivity. Qed.
  Lemma pos_put_other t i j P : j <> i -> pos j (zput i P t) = pos j t.
  Proof. intros Hn. unfold pos. rewrite zgo; auto. Qed.
End Pos.

Lemma fold_left_ext_in {A B} (f f' : A -> B -> A) l : forall a,
  (forall a x, In x l -> f a x = f' a x) -> fold_left f l a = fold_left f' l a.
Proof.
  induction l as [|x l IH]; intros a H; simpl; auto.
  rewrite (H a x (or_introl eq_refl)). apply IH. intros; apply H; right; auto.
Qed.
Lemma s_mem_iff a l l' : (In a l <-> In a l') -> s_mem a l = s_mem a l'.
Proof.
  intros H. destruct (s_mem a l') eqn:E.
  - apply s_mem_in. apply H. apply s_mem_in; auto.
  - apply s_mem_false. rewrite H. apply s_mem_false; auto.
Qed.

(* a loop over the argument positions of an atom, every round of which changes
   the index of its own position only *)
Section Rounds.
  Context {C : Type}.
  Variable celems : C -> list atom.
  Variable p : pred.
  Variable hash : atom -> Z.
  Variable chash : Z -> Z.
  Variable a : atom.
  Variable f : list (Z * list (Z * list (Z * C))) * bool -> Z * Z -> list (Z * list (Z * list (Z * C))) * bool.
  Variable Q : atom -> Prop -> Prop.
  Variable g : bool -> bool -> bool.
  Variable Pre : Z -> list (Z * list (Z * C)) -> Prop.   (* a round's own precondition on the index of its position *)
  Hypothesis Hround : forall t b i, WF3 celems p hash chash t -> Pre i (pos i t) ->
    WF3 celems p hash chash (fst (f (t, b) (i, argz i a))) /\
    (forall j, j <> i -> pos j (fst (f (t, b) (i, argz i a))) = pos j t) /\
    (forall x, In x (pel celems i (fst (f (t, b) (i, argz i a)))) <-> Q x (In x (pel celems i t))) /\
    snd (f (t, b) (i, argz i a)) = g (s_mem a (pel celems i t)) b.

  Lemma rounds_ok ics : forall t b,
    WF3 celems p hash chash t -> NoDup (map fst ics) -> (forall i c, In (i, c) ics -> c = argz i a) ->
    (forall i, In i (map fst ics) -> Pre i (pos i t)) ->
    WF3 celems p hash chash (fst (fold_left f ics (t, b))) /\
    (forall i, In i (map fst ics) ->
       forall x, In x (pel celems i (fst (fold_left f ics (t, b)))) <-> Q x (In x (pel celems i t))) /\
    (forall j, ~ In j (map fst ics) -> pos j (fst (fold_left f ics (t, b))) = pos j t) /\
    snd (fold_left f ics (t, b)) = fold_left (fun b ic => g (s_mem a (pel celems (fst ic) t)) b) ics b.
  Proof.
    induction ics as [|[i c] ics IH]; intros t b Hwf Hnd Hc HPre.
    - simpl. split; auto. split; [intros i []|]. split; auto.
    - assert (c = argz i a) by (apply Hc; left; auto). subst c.
      destruct (Hround t b i Hwf (HPre i (or_introl eq_refl))) as [H1 [H2 [H3 H4]]].
      cbn [fold_left map fst]. destruct (f (t, b) (i, argz i a)) as [t1 b1]. cbn [fst snd] in *.
      cbn [map fst] in Hnd. apply NoDup_cons_iff in Hnd. destruct Hnd as [Hni Hnd'].
      assert (HPre' : forall j, In j (map fst ics) -> Pre j (pos j t1)).
      { intros j Hj. rewrite H2; [apply HPre; right; auto|]. intros ->. contradiction. }
      destruct (IH t1 b1 H1 Hnd' (fun j c H => Hc j c (or_intror H)) HPre') as [I1 [I2 [I3 I4]]].
      split; auto. split; [|split].
      + intros j [<-|Hj] x.
        * unfold pel. rewrite I3 by auto. apply H3.
        * rewrite (I2 j Hj x). unfold pel. rewrite H2; [tauto|]. intros ->. contradiction.
      + intros j Hj. rewrite I3 by (intros Hj'; apply Hj; right; auto). apply H2. intros ->. apply Hj; left; auto.
      + rewrite I4, H4. apply fold_left_ext_in. intros b0 [j c] Hin. cbn [fst]. unfold pel. rewrite H2; auto.
        intros ->. apply Hni. change i with (fst (i, c)). apply in_map; auto.
  Qed.
End Rounds.
