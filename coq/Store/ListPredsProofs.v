(* ListPredicates is exact (not only a superset of the set's predicates) for a
   store that deletes a shard as soon as it is empty: the simple store. Extra
   invariant on top of the refinement relation R: no shard is empty. *)
From Coq Require Import List ZArith Bool Lia Permutation.
From MV Require Import Store.AMap Store.SetSpec Store.Generic Store.Simple Store.AMapProofs Store.GenericProofs
  Store.SimpleProofs Store.NestedProofs.
Import ListNotations.
Open Scope Z_scope.

Section Exact.
  Context {T : Type} (I : shard_impl T).
  Variable elems : T -> list atom.
  Variable WF : pred -> T -> Prop.
  Variable ok2 : atom -> atom -> Prop.
  Hypothesis SO : shard_ok I elems WF ok2.
  Hypothesis drop_exact : forall p t, WF p t -> elems t = [] -> sh_drop_empty I t = true.

  Definition NE (st : gstore T) : Prop := forall p t, pget p (shards st) = Some t -> elems t <> [].

  Lemma NE_empty : NE g_empty.
  Proof. intros p t H. discriminate. Qed.

  Lemma NE_put st p t' c k :
    NE st -> elems t' <> [] -> NE {| constants := c; shards := pput p t' (shards st); count := k |}.
  Proof.
    intros HNE Hne q t0 Hq. simpl in Hq. destruct (pred_eqb q p) eqn:E.
    - apply pred_eqb_spec in E; subst q. rewrite pgs in Hq. injection Hq as <-. exact Hne.
    - rewrite pgo in Hq; [exact (HNE q t0 Hq)|]. intros ->. rewrite pred_eqb_refl in E. discriminate.
  Qed.
  Lemma NE_same st c k : NE st -> NE {| constants := c; shards := shards st; count := k |}.
  Proof. intros HNE q t0 Hq. exact (HNE q t0 Hq). Qed.

  Lemma add_NE st s a : R I elems WF st s -> okc ok2 a s -> NE st -> NE (fst (g_add I a st)).
  Proof.
    intros HR Hok HNE. unfold g_add, g_add_raw. rewrite is_const_pconst.
    destruct (pconst I (pred_of a)) eqn:Hp.
    - destruct (pget (pred_of a) (constants st)); simpl; [exact HNE|apply NE_same; exact HNE].
    - destruct (pget (pred_of a) (shards st)) eqn:Hg.
      + destruct (r_shard _ _ _ _ _ HR _ _ Hg) as [_ Hwf].
        assert (Hokt : okc ok2 a (elems t)).
        { intros x Hx. apply Hok. eapply elems_sub; eauto. }
        destruct (so_add _ _ _ _ SO t a Hwf Hp Hokt) as [_ [_ Hel]].
        destruct (sh_add I a t) as [t' b]; simpl in *.
        assert (Hne : elems t' <> []).
        { intros Hnil. assert (Hin : In a (elems t')) by (apply Hel; left; auto). rewrite Hnil in Hin. exact Hin. }
        destruct b; simpl; apply NE_put; auto.
      + simpl. apply NE_put; auto. destruct (so_new _ _ _ _ SO a Hp) as [_ Hel].
        intros Hnil. assert (Hin : In a (elems (sh_new I a))) by (apply Hel; auto). rewrite Hnil in Hin. exact Hin.
  Qed.

  Lemma remove_NE st s a : R I elems WF st s -> okc ok2 a s -> NE st -> NE (fst (g_remove I a st)).
  Proof.
    intros HR Hok HNE. unfold g_remove, g_remove_raw. rewrite is_const_pconst.
    destruct (pconst I (pred_of a)) eqn:Hp.
    - destruct (pget (pred_of a) (constants st)); simpl; [apply NE_same; exact HNE|exact HNE].
    - destruct (pget (pred_of a) (shards st)) eqn:Hg; [|simpl; exact HNE].
      destruct (r_shard _ _ _ _ _ HR _ _ Hg) as [_ Hwf].
      assert (Hokt : okc ok2 a (elems t)).
      { intros x Hx. apply Hok. eapply elems_sub; eauto. }
      destruct (so_remove _ _ _ _ SO t a Hwf Hp Hokt) as [Hwf' [Hb Hel]].
      destruct (sh_remove I a t) as [t' b]; simpl in *. subst b.
      destruct (s_mem a (elems t)) eqn:E; simpl.
      + destruct (sh_drop_empty I t') eqn:Hd; simpl.
        * intros q t0 Hq. simpl in Hq. destruct (pred_eqb q (pred_of a)) eqn:Eq.
          -- apply pred_eqb_spec in Eq; subst q. rewrite pgd_same in Hq; [discriminate|exact (r_sk _ _ _ _ _ HR)].
          -- rewrite pgd_other in Hq; [exact (HNE q t0 Hq)|]. intros ->. rewrite pred_eqb_refl in Eq. discriminate.
        * apply NE_put; auto. intros Hnil. rewrite (drop_exact _ _ Hwf' Hnil) in Hd. discriminate.
      + apply NE_put; auto. apply s_mem_false in E. intros Hnil.
        pose proof (HNE _ _ Hg) as Hne. destruct (elems t) as [|x l] eqn:Et; [congruence|].
        assert (Hx : In x (elems t')).
        { apply Hel. split; [intros ->; apply E; left; auto|left; auto]. }
        rewrite Hnil in Hx. exact Hx.
  Qed.

  Lemma merge_NE l : forall st s, R I elems WF st s -> (forall a, In a l -> okc ok2 a (l ++ s)) -> NE st ->
    NE (g_merge I l st).
  Proof.
    unfold g_merge. induction l as [|a l IH]; intros st s HR Hok HNE; simpl; auto.
    assert (Hoa : okc ok2 a s) by (intros x Hx; apply (Hok a); [left; auto|right; apply in_or_app; auto]).
    destruct (add_ok I elems WF ok2 SO st s a HR Hoa) as [HR' _].
    apply (IH _ _ HR'); [|eapply add_NE; eauto].
    intros b Hb x Hx. apply (Hok b); [right; auto|].
    apply in_app_or in Hx. destruct Hx as [Hx|Hx]; [right; apply in_or_app; auto|].
    unfold s_add in Hx. destruct (s_mem a s); simpl in Hx.
    - right. apply in_or_app; auto.
    - destruct Hx as [<-|Hx]; [left; auto|right; apply in_or_app; auto].
  Qed.

  Lemma preds_exact st s : R I elems WF st s -> NE st -> Permutation (g_preds st) (s_preds s).
  Proof.
    intros HR HNE. unfold g_preds. apply NoDup_Permutation.
    - apply nodup_app; [exact (r_ck _ _ _ _ _ HR)|exact (r_sk _ _ _ _ _ HR)|].
      intros p H1 H2.
      destruct (in_keys_get pred_eqb pred_eqb_spec _ _ H1) as [a Ha].
      destruct (in_keys_get pred_eqb pred_eqb_spec _ _ H2) as [t Ht].
      destruct (r_const _ _ _ _ _ HR _ _ Ha) as [Hc _]. destruct (r_shard _ _ _ _ _ HR _ _ Ht) as [Hc' _]. congruence.
    - apply (dedup_nodup pred_eqb pred_eqb_spec).
    - intros p. split; [|apply (preds_cover I elems WF st s HR)].
      intros Hp. unfold s_preds. rewrite (dedup_in pred_eqb pred_eqb_spec). apply in_map_iff.
      apply in_app_or in Hp. destruct Hp as [Hp|Hp].
      + destruct (in_keys_get pred_eqb pred_eqb_spec _ _ Hp) as [a Ha].
        destruct (r_const _ _ _ _ _ HR _ _ Ha) as [Hc Hae]. exists a.
        assert (Hpa : pred_of a = p).
        { subst a. unfold pconst in Hc. apply andb_true_iff in Hc. destruct Hc as [_ Hc]. apply Z.eqb_eq in Hc.
          destruct p as [sy ar]. simpl in *. subst ar. reflexivity. }
        split; auto. apply (r_mem _ _ _ _ _ HR). unfold Mem. rewrite Hpa, Hc. unfold pget. rewrite Ha. discriminate.
      + destruct (in_keys_get pred_eqb pred_eqb_spec _ _ Hp) as [t Ht].
        pose proof (HNE _ _ Ht) as Hne. destruct (elems t) as [|x l] eqn:Et; [congruence|].
        assert (Hx : In x (elems t)) by (rewrite Et; left; auto).
        destruct (r_shard _ _ _ _ _ HR _ _ Ht) as [_ Hwf]. exists x.
        split; [eapply so_pred; eauto|eapply elems_sub; eauto].
  Qed.

  Theorem refines_set_exactly (U : list atom) :
    (forall a b, In a U -> In b U -> ok2 a b) ->
    forall h st s, R I elems WF st s -> NE st -> incl s U -> incl (history_atoms h) U ->
      Forall2 out_equiv (run (g_step I) st h) (run s_step s h).
  Proof.
    intros HU. induction h as [|o h IH]; intros st s HR HNE Hs Hh; simpl; [constructor|].
    assert (Hh' : incl (history_atoms h) U).
    { intros x Hx. apply Hh. unfold history_atoms. simpl. apply in_or_app; right; exact Hx. }
    assert (Hoa : forall a, In a (op_atoms o) -> In a U).
    { intros a Ha. apply Hh. unfold history_atoms. simpl. apply in_or_app; left; exact Ha. }
    assert (Hokc : forall a, In a (op_atoms o) -> okc ok2 a s).
    { intros a Ha x Hx. apply HU; auto. }
    destruct o as [a|a|a|q| | |l]; simpl.
    - destruct (add_ok I elems WF ok2 SO st s a HR (Hokc a (or_introl eq_refl))) as [HR' Hb].
      pose proof (add_NE st s a HR (Hokc a (or_introl eq_refl)) HNE) as HNE'.
      destruct (g_add I a st) as [st' b]; destruct (s_add a s) as [s' b'] eqn:Es; simpl in *.
      constructor; [exact Hb|]. apply IH; auto.
      unfold s_add in Es. destruct (s_mem a s); inversion Es; subst; auto.
      intros x [<-|Hx]; auto; try (apply Hoa; left; reflexivity).
    - destruct (remove_ok I elems WF ok2 SO st s a HR (Hokc a (or_introl eq_refl))) as [HR' Hb].
      pose proof (remove_NE st s a HR (Hokc a (or_introl eq_refl)) HNE) as HNE'.
      destruct (g_remove I a st) as [st' b]; destruct (s_remove a s) as [s' b'] eqn:Es; simpl in *.
      constructor; [exact Hb|]. apply IH; auto.
      unfold s_remove in Es. destruct (s_mem a s); inversion Es; subst; auto.
      intros x Hx. apply filter_In in Hx. apply Hs; tauto.
    - constructor; [simpl; apply (contains_ok I elems WF ok2 SO); auto; apply Hokc; left; auto|]. apply IH; auto.
    - constructor; [simpl; apply (query_ok I elems WF ok2 SO); auto|]. apply IH; auto.
    - constructor; [simpl; apply preds_exact; auto|]. apply IH; auto.
    - constructor; [simpl; apply (count_ok I elems WF ok2 SO); auto|]. apply IH; auto.
    - assert (Hm : forall a, In a l -> okc ok2 a (l ++ s)).
      { intros a Ha x Hx. apply HU; [apply Hoa; auto|].
        apply in_app_or in Hx. destruct Hx; [apply Hoa; auto|auto]. }
      constructor; [simpl; auto|]. apply IH; auto.
      + apply (merge_ok I elems WF ok2 SO); auto.
      + eapply merge_NE; eauto.
      + apply (s_merge_incl l); auto.
  Qed.
End Exact.

Lemma simple_drop_exact hash p t : s_WF hash p t -> s_elems t = [] -> sh_drop_empty (simple_impl hash) t = true.
Proof. intros _. unfold s_elems, vals. destruct t; [reflexivity|discriminate]. Qed.
