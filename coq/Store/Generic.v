(* factstore.InMemoryStore[T] (factstore.go:87-98): `constants` maps a
   zero-arity predicate to its one atom, `shardsByPredicate` maps a predicate to
   a shard of type T. The four in-memory stores differ in T and in the shard
   operations; what they share (dispatch on arity, creation of the shard on the
   first Add of a predicate, Merge, ListPredicates) is written once here.
   Model file: definitions only. *)
From Coq Require Import List ZArith Bool.
From MV Require Export Store.AMap Store.SetSpec.
Import ListNotations.
Open Scope Z_scope.

Record shard_impl (T : Type) := {
  use_constants : bool;             (* false only for SimpleInMemoryStore *)
  cached_count : bool;              (* true only for MultiIndexedArrayInMemoryStore (field count) *)
  sh_new : atom -> T;               (* the shard built when the predicate has none yet *)
  sh_add : atom -> T -> T * bool;
  sh_remove : atom -> T -> T * bool;
  sh_drop_empty : T -> bool;        (* Simple.Remove deletes a shard that became empty *)
  sh_contains : atom -> T -> bool;
  sh_query : list (option Z) -> T -> list atom;
  sh_count : T -> Z;
}.
Arguments use_constants {T}. Arguments cached_count {T}. Arguments sh_new {T}.
Arguments sh_add {T}. Arguments sh_remove {T}. Arguments sh_drop_empty {T}.
Arguments sh_contains {T}. Arguments sh_query {T}. Arguments sh_count {T}.

Record gstore (T : Type) := { constants : list (pred * atom); shards : list (pred * T); count : Z }.
Arguments constants {T}. Arguments shards {T}. Arguments count {T}.

Definition pget {V} := @get pred V pred_eqb.
Definition pput {V} := @put pred V pred_eqb.
Definition pdel {V} := @del pred V pred_eqb.
Definition zget {V} := @get Z V Z.eqb.
Definition zput {V} := @put Z V Z.eqb.
Definition zdel {V} := @del Z V Z.eqb.

Section Generic.
  Context {T : Type} (I : shard_impl T).

  Definition g_empty : gstore T := {| constants := []; shards := []; count := 0 |}.
  Definition is_const (a : atom) : bool := use_constants I && (arity a =? 0).

  (* Add / addAtom. The count field is written by the array store only (it is
     the only one that has it); keeping it in every model is harmless because
     only the array store's EstimateFactCount reads it. *)
  Definition g_add_raw (a : atom) (st : gstore T) : gstore T * bool :=
    let p := pred_of a in
    if is_const a then
      match pget p (constants st) with
      | Some _ => (st, false)
      | None => ({| constants := pput p a (constants st); shards := shards st; count := count st |}, true)
      end
    else
      match pget p (shards st) with
      | None => ({| constants := constants st; shards := pput p (sh_new I a) (shards st); count := count st |}, true)
      | Some t => let '(t', b) := sh_add I a t in
                  ({| constants := constants st; shards := pput p t' (shards st); count := count st |}, b)
      end.
  Definition g_add (a : atom) (st : gstore T) : gstore T * bool :=
    let '(st', b) := g_add_raw a st in
    (if b then {| constants := constants st'; shards := shards st'; count := count st' + 1 |} else st', b).

  Definition g_remove_raw (a : atom) (st : gstore T) : gstore T * bool :=
    let p := pred_of a in
    if is_const a then
      match pget p (constants st) with
      | Some _ => ({| constants := pdel p (constants st); shards := shards st; count := count st |}, true)
      | None => (st, false)
      end
    else
      match pget p (shards st) with
      | None => (st, false)
      | Some t => let '(t', b) := sh_remove I a t in
                  ({| constants := constants st;
                      shards := if b && sh_drop_empty I t' then pdel p (shards st) else pput p t' (shards st);
                      count := count st |}, b)
      end.
  Definition g_remove (a : atom) (st : gstore T) : gstore T * bool :=
    let '(st', b) := g_remove_raw a st in
    (if b then {| constants := constants st'; shards := shards st'; count := count st' - 1 |} else st', b).

  Definition g_contains (a : atom) (st : gstore T) : bool :=
    let p := pred_of a in
    if is_const a then is_some (pget p (constants st))
    else match pget p (shards st) with None => false | Some t => sh_contains I a t end.

  (* GetFacts: a zero-arity query returns the stored constant atom *)
  Definition g_query (q : pattern) (st : gstore T) : list atom :=
    let p := ppred_of q in
    if use_constants I && (snd p =? 0) then
      match pget p (constants st) with Some a => [a] | None => [] end
    else match pget p (shards st) with None => [] | Some t => sh_query I (snd q) t end.

  Definition g_preds (st : gstore T) : list pred := keys (constants st) ++ keys (shards st).

  Definition g_count (st : gstore T) : Z :=
    if cached_count I then count st
    else Z.of_nat (length (constants st)) + fold_right (fun kv c => sh_count I (snd kv) + c) 0 (shards st).

  (* Merge(other): other's facts streamed predicate by predicate, each Added *)
  Definition g_merge (l : list atom) (st : gstore T) : gstore T := fold_left (fun st a => fst (g_add a st)) l st.

  (* what a Merge *from* this store streams: ListPredicates x GetFacts(NewQuery(pred)) *)
  Definition g_all (st : gstore T) : list atom := flat_map (fun p => g_query (new_query p) st) (g_preds st).

  Definition g_step (st : gstore T) (o : op) : gstore T * out :=
    match o with
    | Add a => let '(s', b) := g_add a st in (s', OB b)
    | Remove a => let '(s', b) := g_remove a st in (s', OB b)
    | Contains a => (st, OB (g_contains a st))
    | Query q => (st, OL (g_query q st))
    | Preds => (st, OP (g_preds st))
    | Count => (st, ON (g_count st))
    | Merge l => (g_merge l st, OU)
    end.
End Generic.
