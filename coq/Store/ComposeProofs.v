(* Composition: "behaves as a set" as a simulation between a store (any
   store_ops) and the set machine, closed under the teeing and the merged
   wrapper. The in-memory stores are simulations by the lifting of
   GenericProofs.v; a wrapper over simulations is a simulation of the union. *)
From Coq Require Import List ZArith Bool Lia Permutation.
From MV Require Import Store.AMap Store.SetSpec Store.Generic Store.Wrappers Store.AMapProofs Store.GenericProofs
  Store.WrappersProofs Store.NestedProofs.
Import ListNotations.
Open Scope Z_scope.

(* one operation of a history on any store given by its operations *)
Definition o_step {S} (W : store_ops S) (st : S) (o : op) : S * out :=
  match o with
  | Add a => let '(s', b) := o_add W a st in (s', OB b)
  | Remove a => let '(s', b) := o_remove W a st in (s', OB b)
  | Contains a => (st, OB (o_contains W a st))
  | Query q => (st, OL (o_query W q st))
  | Preds => (st, OP (o_preds W st))
  | Count => (st, ON (o_count W st))
  | Merge l => (o_merge W l st, OU)
  end.
(* the state after a history *)
Definition final {S} (step : S -> op -> S * out) (st : S) (h : list op) : S :=
  fold_left (fun st o => fst (step st o)) h st.

Lemma g_step_o_step {T} (I : shard_impl T) st o : g_step I st o = o_step (g_ops I) st o.
Proof. destruct o; reflexivity. Qed.
Lemma s_step_o_step s o : s_step s o = o_step set_ops s o.
Proof. destruct o; reflexivity. Qed.
Lemma run_ext {S} (f g : S -> op -> S * out) : (forall st o, f st o = g st o) -> forall h st, run f st h = run g st h.
Proof. intros E. induction h as [|o h IH]; intros st; simpl; auto. rewrite E. destruct (g st o). rewrite IH. reflexivity. Qed.
Lemma final_ext {S} (f g : S -> op -> S * out) : (forall st o, f st o = g st o) -> forall h st, final f st h = final g st h.
Proof. intros E. unfold final. induction h as [|o h IH]; intros st; simpl; auto. rewrite E. apply IH. Qed.

(* ---- facts about the set machine *)
Lemma s_add_spec a s : NoDup s ->
  NoDup (fst (s_add a s)) /\ snd (s_add a s) = negb (s_mem a s) /\ forall x, In x (fst (s_add a s)) <-> x = a \/ In x s.
Proof.
  intros Hnd. unfold s_add. destruct (s_mem a s) eqn:E; simpl.
  - apply s_mem_in in E. split; auto. split; auto. intros x. split; auto. intros [->|H]; auto.
  - apply s_mem_false in E. split; [constructor; auto|]. split; auto. intros x. split; intros [H|H]; auto.
Qed.
Lemma s_remove_spec a s : NoDup s ->
  NoDup (fst (s_remove a s)) /\ snd (s_remove a s) = s_mem a s /\ forall x, In x (fst (s_remove a s)) <-> x <> a /\ In x s.
Proof.
  intros Hnd. unfold s_remove. destruct (s_mem a s) eqn:E; simpl.
  - split; [apply NoDup_filter; auto|]. split; auto. apply filter_neq_in.
  - apply s_mem_false in E. split; auto. split; auto. intros x. split; [|tauto].
    intros H. split; auto. intros ->. contradiction.
Qed.
Lemma s_merge_spec l : forall s, NoDup s ->
  NoDup (s_merge l s) /\ forall x, In x (s_merge l s) <-> In x l \/ In x s.
Proof.
  unfold s_merge. induction l as [|a l IH]; intros s Hnd; simpl; [split; auto; tauto|].
  destruct (s_add_spec a s Hnd) as [H1 [_ H3]]. destruct (IH _ H1) as [I1 I2]. split; auto.
  intros x. rewrite I2, H3. split; [intros [H|[->|H]]; auto | intros [[->|H]|H]; auto].
Qed.
Lemma s_preds_in s p : In p (s_preds s) <-> exists x, In x s /\ pred_of x = p.
Proof.
  unfold s_preds. rewrite (dedup_in pred_eqb pred_eqb_spec), in_map_iff. split; intros [x [H1 H2]]; exists x; auto.
Qed.
Lemma nodup_app_inv {A} (l l' : list A) : NoDup (l ++ l') -> NoDup l /\ NoDup l' /\ forall x, In x l -> ~ In x l'.
Proof.
  induction l as [|a l IH]; simpl; intros H.
  - split; [constructor|]. split; auto.
  - apply NoDup_cons_iff in H. destruct H as [Ha H]. destruct (IH H) as [H1 [H2 H3]].
    rewrite in_app_iff in Ha. split; [constructor; tauto|]. split; auto.
    intros x [<-|Hx]; [tauto|auto].
Qed.

(* ---- a store that simulates the set machine on the operations in D *)
Record set_like {S} (W : store_ops S) (Rel : S -> sset -> Prop) (D : op -> Prop) : Prop := {
  sl_nodup : forall st s, Rel st s -> NoDup s;
  sl_add : forall st s a, Rel st s -> D (Add a) ->
    Rel (fst (o_add W a st)) (fst (s_add a s)) /\ snd (o_add W a st) = snd (s_add a s);
  sl_remove : forall st s a, Rel st s -> D (Remove a) ->
    Rel (fst (o_remove W a st)) (fst (s_remove a s)) /\ snd (o_remove W a st) = snd (s_remove a s);
  sl_contains : forall st s a, Rel st s -> D (Contains a) -> o_contains W a st = s_mem a s;
  sl_query : forall st s q, Rel st s -> D (Query q) -> Permutation (o_query W q st) (s_query q s);
  sl_preds : forall st s, Rel st s -> D Preds -> incl (s_preds s) (o_preds W st);
  sl_count : forall st s, Rel st s -> D Count -> o_count W st = s_count s;
  sl_merge : forall st s l, Rel st s -> D (Merge l) -> Rel (o_merge W l st) (s_merge l s);
}.

Section Sim.
  Context {S : Type} (W : store_ops S) (Rel : S -> sset -> Prop) (D : op -> Prop).
  Hypothesis SL : set_like W Rel D.

  Lemma sl_step st s o : Rel st s -> D o ->
    Rel (fst (o_step W st o)) (fst (s_step s o)) /\ out_covers (snd (o_step W st o)) (snd (s_step s o)).
  Proof.
    intros HR HD. destruct o as [a|a|a|q| | |l]; simpl.
    - destruct (sl_add W Rel D SL st s a HR HD) as [H1 H2].
      destruct (o_add W a st); destruct (s_add a s); simpl in *; auto.
    - destruct (sl_remove W Rel D SL st s a HR HD) as [H1 H2].
      destruct (o_remove W a st); destruct (s_remove a s); simpl in *; auto.
    - split; auto. simpl. eapply sl_contains; eauto.
    - split; auto. simpl. eapply sl_query; eauto.
    - split; auto. simpl. eapply sl_preds; eauto.
    - split; auto. simpl. eapply sl_count; eauto.
    - split; simpl; auto. eapply sl_merge; eauto.
  Qed.

  Theorem sim_run : forall h st s, Rel st s -> Forall D h ->
    Forall2 out_covers (run (o_step W) st h) (run s_step s h).
  Proof.
    induction h as [|o h IH]; intros st s HR HD; simpl; [constructor|].
    apply Forall_cons_iff in HD. destruct HD as [Ho HD].
    destruct (sl_step st s o HR Ho) as [HR' Hout].
    destruct (o_step W st o) as [st' r]; destruct (s_step s o) as [s' r']; simpl in *.
    constructor; auto.
  Qed.
  Theorem sim_final : forall h st s, Rel st s -> Forall D h -> Rel (final (o_step W) st h) (final s_step s h).
  Proof.
    unfold final. induction h as [|o h IH]; intros st s HR HD; simpl; auto.
    apply Forall_cons_iff in HD. destruct HD as [Ho HD].
    destruct (sl_step st s o HR Ho) as [HR' _]. apply IH; auto.
  Qed.
End Sim.

(* every in-memory store whose shard operations act as set operations *)
Section BaseSim.
  Context {T : Type} (I : shard_impl T).
  Variable elems : T -> list atom.
  Variable WF : pred -> T -> Prop.
  Variable ok2 : atom -> atom -> Prop.
  Variable U : atom -> Prop.
  Hypothesis SO : shard_ok I elems WF ok2.
  Hypothesis HU : forall a b, U a -> U b -> ok2 a b.

  Definition base_rel (st : gstore T) (s : sset) : Prop := R I elems WF st s /\ forall x, In x s -> U x.
  Definition in_dom (o : op) : Prop := forall a, In a (op_atoms o) -> U a.

  Lemma base_sim : set_like (g_ops I) base_rel in_dom.
  Proof.
    assert (Hokc : forall a s, U a -> (forall x, In x s -> U x) -> okc ok2 a s).
    { intros a s Ha Hs x Hx. apply HU; auto. }
    constructor.
    - intros st s [HR _]. exact (r_nodup _ _ _ _ _ HR).
    - intros st s a [HR Hs] HD. assert (Ha : U a) by (apply HD; left; auto).
      destruct (add_ok I elems WF ok2 SO st s a HR (Hokc a s Ha Hs)) as [HR' Hb]. split; auto. split; auto.
      intros x Hx. destruct (s_add_spec a s (r_nodup _ _ _ _ _ HR)) as [_ [_ Hin]].
      apply Hin in Hx. destruct Hx as [->|Hx]; auto.
    - intros st s a [HR Hs] HD. assert (Ha : U a) by (apply HD; left; auto).
      destruct (remove_ok I elems WF ok2 SO st s a HR (Hokc a s Ha Hs)) as [HR' Hb]. split; auto. split; auto.
      intros x Hx. destruct (s_remove_spec a s (r_nodup _ _ _ _ _ HR)) as [_ [_ Hin]].
      apply Hin in Hx. apply Hs; tauto.
    - intros st s a [HR Hs] HD. assert (Ha : U a) by (apply HD; left; auto).
      apply (contains_ok I elems WF ok2 SO); auto.
    - intros st s q [HR Hs] _. apply (query_ok I elems WF ok2 SO); auto.
    - intros st s [HR Hs] _. apply (preds_cover I elems WF); auto.
    - intros st s [HR Hs] _. apply (count_ok I elems WF ok2 SO); auto.
    - intros st s l [HR Hs] HD. split.
      + apply (merge_ok I elems WF ok2 SO); auto. intros a Ha x Hx. apply HU; [apply HD; auto|].
        apply in_app_or in Hx. destruct Hx; [apply HD; auto|auto].
      + intros x Hx. apply (s_merge_spec l s (r_nodup _ _ _ _ _ HR)) in Hx. destruct Hx; [apply HD; auto|auto].
  Qed.
  Lemma base_rel_empty : base_rel g_empty [].
  Proof. split; [apply R_empty|intros x []]. Qed.
End BaseSim.

(* ---- read-only components *)
Definition ro_refines (U : atom -> Prop) (r : ro) (B : sset) : Prop :=
  NoDup B /\ (forall a, U a -> r_contains r a = s_mem a B) /\
  (forall q, Permutation (r_query r q) (s_query q B)) /\
  incl (s_preds B) (r_preds r) /\ Wrappers.r_count r = s_count B.

Definition reads_in (U : atom -> Prop) (D : op -> Prop) : Prop :=
  (forall a, U a -> D (Contains a)) /\ (forall q, D (Query q)) /\ D Preds /\ D Count.

Lemma view_refines {S} (W : store_ops S) Rel D U st s :
  set_like W Rel D -> reads_in U D -> Rel st s -> ro_refines U (view W st) s.
Proof.
  intros SL [D1 [D2 [D3 D4]]] HR. split; [eapply sl_nodup; eauto|]. split; [|split; [|split]]; simpl.
  - intros a Ha. eapply sl_contains; eauto.
  - intros q. eapply sl_query; eauto.
  - eapply sl_preds; eauto.
  - eapply sl_count; eauto.
Qed.

Definition ro_union (reads : list ro) : ro :=
  {| r_contains := fun a => existsb (fun r => r_contains r a) reads;
     r_query := fun q => flat_map (fun r => r_query r q) reads;
     r_preds := flat_map r_preds reads;
     Wrappers.r_count := fold_right (fun r c => Wrappers.r_count r + c) 0 reads |}.

Lemma ro_union_refines U reads Bs :
  Forall2 (ro_refines U) reads Bs -> NoDup (concat Bs) -> ro_refines U (ro_union reads) (concat Bs).
Proof.
  induction 1 as [|r B reads Bs [_ [H1 [H2 [H3 H4]]]] HF IH]; intros Hnd.
  - split; [constructor|]. split; [reflexivity|]. split; [intros q; apply Permutation_refl|].
    split; [intros p []|reflexivity].
  - simpl in Hnd. destruct (IH (proj1 (proj2 (nodup_app_inv _ _ Hnd)))) as [_ [I1 [I2 [I3 I4]]]].
    split; [exact Hnd|]. split; [|split; [|split]]; simpl.
    + intros a Ha. pose proof (I1 a Ha) as I1a. simpl in I1a. rewrite s_mem_app, H1, I1a by auto. reflexivity.
    + intros q. unfold s_query. rewrite filter_app. apply Permutation_app; [apply H2|apply I2].
    + intros p Hp. apply s_preds_in in Hp. destruct Hp as [x [Hx <-]]. apply in_or_app.
      apply in_app_or in Hx. destruct Hx as [Hx|Hx].
      * left. apply H3. apply s_preds_in. eauto.
      * right. apply I3. apply s_preds_in. eauto.
    + unfold s_count in *. rewrite app_length, Nat2Z.inj_add, H4. simpl in I4. rewrite I4. reflexivity.
Qed.

(* ---- the wrappers: a write store and a read-only part holding the set B *)
Section WrapSim.
  Context {S : Type} (Out : store_ops S) (RelO : S -> sset -> Prop) (DO : op -> Prop).
  Variable U : atom -> Prop.
  Variable B : sset.
  Hypothesis HO : set_like Out RelO DO.

  (* the visible set s is the disjoint union of B and the write store's set *)
  Definition wrap_rel (o : S) (s : sset) : Prop :=
    exists O, RelO o O /\ NoDup s /\ (forall x, In x B -> ~ In x O) /\ forall x, In x s <-> In x B \/ In x O.
  (* documented domain: Remove only removes from the write store; a Merge does
     not bring atoms the read-only part holds (finding N7) *)
  Definition wrap_dom (o : op) : Prop :=
    DO o /\ (forall a, In a (op_atoms o) -> U a /\ DO (Contains a)) /\
    match o with Remove a => ~ In a B | Merge l => forall x, In x l -> ~ In x B | _ => True end.

  Lemma wrap_mem o s a : wrap_rel o s -> exists O, RelO o O /\ s_mem a s = s_mem a B || s_mem a O.
  Proof.
    intros [O [HR [_ [_ Hin]]]]. exists O. split; auto. rewrite <- s_mem_app. apply s_mem_iff.
    rewrite Hin, in_app_iff. tauto.
  Qed.

  Section Tee.
    Variable base : ro.
    Hypothesis HB : ro_refines U base B.

    Lemma tee_sim : set_like (tee_ops Out base) wrap_rel wrap_dom.
    Proof.
      destruct HB as [HBn [HBc [HBq [HBp HBk]]]].
      constructor.
      - intros o s [O [_ [Hnd _]]]. exact Hnd.
      - (* Add *)
        intros o s a [O [HR [Hnd [Hdis Hin]]]] [HD [HUa _]]. simpl. unfold tee_add.
        assert (Hm : s_mem a s = s_mem a B || s_mem a O).
        { rewrite <- s_mem_app. apply s_mem_iff. rewrite Hin, in_app_iff. tauto. }
        rewrite (HBc a (proj1 (HUa a (or_introl eq_refl)))).
        destruct (s_add_spec a s Hnd) as [A1 [A2 A3]].
        destruct (s_mem a B) eqn:EB; simpl.
        + unfold s_add. rewrite Hm. simpl. split; auto. exists O. auto.
        + destruct (sl_add Out RelO DO HO o O a HR HD) as [HR' Hb].
          destruct (s_add_spec a O (sl_nodup Out RelO DO HO _ _ HR)) as [O1 [O2 O3]].
          split.
          * exists (fst (s_add a O)). split; auto. split; auto. apply s_mem_false in EB. split.
            -- intros x Hx Hx'. apply O3 in Hx'. destruct Hx' as [->|Hx']; [contradiction|]. exact (Hdis x Hx Hx').
            -- intros x. rewrite A3, O3, Hin. tauto.
          * rewrite Hb, O2, A2, Hm. reflexivity.
      - (* Remove *)
        intros o s a [O [HR [Hnd [Hdis Hin]]]] [HD [HUa HaB]]. simpl. unfold tee_remove.
        destruct (sl_remove Out RelO DO HO o O a HR HD) as [HR' Hb].
        destruct (s_remove_spec a O (sl_nodup Out RelO DO HO _ _ HR)) as [O1 [O2 O3]].
        destruct (s_remove_spec a s Hnd) as [A1 [A2 A3]].
        split.
        + exists (fst (s_remove a O)). split; auto. split; auto. split.
          * intros x Hx Hx'. apply O3 in Hx'. exact (Hdis x Hx (proj2 Hx')).
          * intros x. rewrite A3, O3, Hin. split; [tauto|]. intros [H|H]; [|tauto].
            split; auto. intros ->. contradiction.
        + rewrite Hb, O2, A2. symmetry. rewrite <- (orb_false_l (s_mem a O)).
          rewrite <- (proj2 (s_mem_false a B) HaB). rewrite <- s_mem_app. apply s_mem_iff.
          rewrite Hin, in_app_iff. tauto.
      - (* Contains *)
        intros o s a [O [HR [Hnd [Hdis Hin]]]] [HD [HUa _]]. simpl. unfold tee_contains.
        rewrite (HBc a (proj1 (HUa a (or_introl eq_refl)))), (sl_contains Out RelO DO HO o O a HR HD).
        rewrite <- s_mem_app. symmetry. apply s_mem_iff. rewrite Hin, in_app_iff. tauto.
      - (* Query *)
        intros o s q [O [HR [Hnd [Hdis Hin]]]] [HD _]. simpl. unfold tee_query.
        apply Permutation_trans with (s_query q B ++ s_query q O).
        + apply Permutation_app; [apply HBq|apply (sl_query Out RelO DO HO o O q HR HD)].
        + unfold s_query. rewrite <- filter_app. apply NoDup_Permutation.
          * apply NoDup_filter. apply nodup_app; auto. eapply sl_nodup; eauto.
          * apply NoDup_filter; auto.
          * intros x. rewrite !filter_In, Hin, in_app_iff. tauto.
      - (* Preds *)
        intros o s [O [HR [Hnd [Hdis Hin]]]] [HD _]. simpl. unfold tee_preds.
        intros p Hp. apply (dedup_in pred_eqb pred_eqb_spec). apply in_or_app.
        apply s_preds_in in Hp. destruct Hp as [x [Hx <-]]. apply Hin in Hx. destruct Hx as [Hx|Hx].
        + left. apply HBp. apply s_preds_in. eauto.
        + right. apply (sl_preds Out RelO DO HO o O HR HD). apply s_preds_in. eauto.
      - (* Count *)
        intros o s [O [HR [Hnd [Hdis Hin]]]] [HD _]. simpl. unfold tee_count.
        rewrite HBk, (sl_count Out RelO DO HO o O HR HD). unfold s_count.
        rewrite <- Nat2Z.inj_add, <- app_length. f_equal. apply Permutation_length.
        apply NoDup_Permutation; auto.
        * apply nodup_app; auto. eapply sl_nodup; eauto.
        * intros x. rewrite Hin, in_app_iff. tauto.
      - (* Merge *)
        intros o s l [O [HR [Hnd [Hdis Hin]]]] [HD [_ HlB]]. simpl. unfold tee_merge.
        pose proof (sl_merge Out RelO DO HO o O l HR HD) as HR'.
        destruct (s_merge_spec l O (sl_nodup Out RelO DO HO _ _ HR)) as [O1 O2].
        destruct (s_merge_spec l s Hnd) as [A1 A2].
        exists (s_merge l O). split; auto. split; auto. split.
        + intros x Hx Hx'. apply O2 in Hx'. destruct Hx' as [Hx'|Hx']; [exact (HlB x Hx' Hx)|exact (Hdis x Hx Hx')].
        + intros x. rewrite A2, O2, Hin. tauto.
    Qed.
  End Tee.

  Section Merged.
    Variables (reads : list ro) (Bs : list sset).
    Hypothesis HBs : Forall2 (ro_refines U) reads Bs.
    Hypothesis HBe : B = concat Bs.
    Hypothesis HBn : NoDup B.

    Lemma merged_sim : set_like (merged_ops Out reads) wrap_rel wrap_dom.
    Proof.
      assert (HB : ro_refines U (ro_union reads) B).
      { rewrite HBe. apply ro_union_refines; auto. rewrite <- HBe; auto. }
      pose proof (tee_sim (ro_union reads) HB) as TS.
      constructor.
      - exact (sl_nodup _ _ _ TS).
      - (* Add: MergedStore asks every component first *)
        intros o s a [O [HR [Hnd [Hdis Hin]]]] [HD [HUa _]]. simpl. unfold merged_add, merged_contains.
        assert (Hm : s_mem a s = s_mem a B || s_mem a O).
        { rewrite <- s_mem_app. apply s_mem_iff. rewrite Hin, in_app_iff. tauto. }
        destruct HB as [_ [HBc _]]. simpl in HBc.
        rewrite (HBc a (proj1 (HUa a (or_introl eq_refl)))).
        rewrite (sl_contains Out RelO DO HO o O a HR (proj2 (HUa a (or_introl eq_refl)))).
        destruct (s_add_spec a s Hnd) as [A1 [A2 A3]].
        destruct (s_mem a B || s_mem a O) eqn:E; simpl.
        + unfold s_add. rewrite Hm. simpl. split; auto. exists O. auto.
        + apply orb_false_iff in E. destruct E as [EB EO].
          destruct (sl_add Out RelO DO HO o O a HR HD) as [HR' Hb].
          destruct (s_add_spec a O (sl_nodup Out RelO DO HO _ _ HR)) as [O1 [O2 O3]].
          split.
          * exists (fst (s_add a O)). split; auto. split; auto. apply s_mem_false in EB. split.
            -- intros x Hx Hx'. apply O3 in Hx'. destruct Hx' as [->|Hx']; [contradiction|]. exact (Hdis x Hx Hx').
            -- intros x. rewrite A3, O3, Hin. tauto.
          * rewrite Hb, O2, A2, Hm, EO. reflexivity.
      - exact (sl_remove _ _ _ TS).
      - exact (sl_contains _ _ _ TS).
      - exact (sl_query _ _ _ TS).
      - exact (sl_preds _ _ _ TS).
      - exact (sl_count _ _ _ TS).
      - exact (sl_merge _ _ _ TS).
    Qed.
  End Merged.
End WrapSim.
