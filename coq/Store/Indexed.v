(* IndexedInMemoryStore (factstore.go:386-541): per predicate a map from the
   hash of the first argument to a map from Atom.Hash() to the atom; zero-arity
   atoms live in `constants`. Remove never deletes an emptied inner map or the
   shard (finding N8). Model file: definitions only. *)
From Coq Require Import List ZArith Bool.
From MV Require Export Store.Generic.
Import ListNotations.
Open Scope Z_scope.

Section Indexed.
  Variable hash : atom -> Z.     (* Atom.Hash() *)
  Variable chash : Z -> Z.       (* Constant.Hash() of the constant with that id *)

  Definition arg0 (a : atom) : Z := chash (hd 0 (snd a)).
  Definition indexed_shard := list (Z * list (Z * atom)).

  Definition indexed_impl : shard_impl indexed_shard := {|
    use_constants := true;
    cached_count := false;
    (* Add :446-451 *)
    sh_new := fun a => [(arg0 a, [(hash a, a)])];
    (* Add :452-462 *)
    sh_add := fun a t =>
      match zget (arg0 a) t with
      | None => (zput (arg0 a) [(hash a, a)] t, true)
      | Some atoms => match zget (hash a) atoms with
                      | None => (zput (arg0 a) (zput (hash a) a atoms) t, true)
                      | Some _ => (t, false)
                      end
      end;
    (* Remove :474-488 *)
    sh_remove := fun a t =>
      match zget (arg0 a) t with
      | None => (t, false)
      | Some atoms => match zget (hash a) atoms with
                      | Some _ => (zput (arg0 a) (zdel (hash a) atoms) t, true)
                      | None => (t, false)
                      end
      end;
    sh_drop_empty := fun _ => false;
    (* Contains :497-507 *)
    sh_contains := fun a t =>
      match zget (arg0 a) t with
      | None => false
      | Some atoms => is_some (zget (hash a) atoms)
      end;
    (* GetFacts :421-432, getFactsOfFirstVariable :400-411 *)
    sh_query := fun pat t =>
      match pat with
      | Some c :: _ => match zget (chash c) t with
                       | None => []
                       | Some atoms => filter (fun f => matches pat (snd f)) (vals atoms)
                       end
      | _ => filter (fun f => matches (tl pat) (tl (snd f))) (flat_map (fun kv => vals (snd kv)) t)
      end;
    (* EstimateFactCount :513-517 *)
    sh_count := fun t => fold_right (fun kv c => Z.of_nat (length (snd kv)) + c) 0 t;
  |}.

  Definition indexed_store := gstore indexed_shard.
End Indexed.
