(* MergedStore (factstore.go:207-300) and TeeingStore (:305-374), generic over
   their components. A component that the wrapper only reads is a record of its
   observations (`ro`); the component that receives the writes is a state with
   operations (`store_ops`). ConcurrentFactStore (:959-1019) forwards every call
   under a lock: sequentially it is its base store, so it has no model of its own.
   Model file: definitions only. *)
From Coq Require Import List ZArith Bool.
From MV Require Export Store.SetSpec.
Import ListNotations.
Open Scope Z_scope.

Record ro := {
  r_contains : atom -> bool;
  r_query : pattern -> list atom;
  r_preds : list pred;
  r_count : Z;
}.

Record store_ops (S : Type) := {
  o_add : atom -> S -> S * bool;
  o_remove : atom -> S -> S * bool;
  o_contains : atom -> S -> bool;
  o_query : pattern -> S -> list atom;
  o_preds : S -> list pred;
  o_count : S -> Z;
  o_merge : list atom -> S -> S;
}.
Arguments o_add {S}. Arguments o_remove {S}. Arguments o_contains {S}. Arguments o_query {S}.
Arguments o_preds {S}. Arguments o_count {S}. Arguments o_merge {S}.

Definition view {S} (W : store_ops S) (st : S) : ro :=
  {| r_contains := fun a => o_contains W a st; r_query := fun q => o_query W q st;
     r_preds := o_preds W st; r_count := o_count W st |}.

Definition set_ops : store_ops sset :=
  {| o_add := s_add; o_remove := s_remove; o_contains := s_mem; o_query := s_query;
     o_preds := s_preds; o_count := s_count; o_merge := s_merge |}.

Section Merged.
  Context {S : Type} (W : store_ops S) (reads : list ro).

  (* Contains :235-242 *)
  Definition merged_contains (a : atom) (w : S) : bool :=
    existsb (fun r => r_contains r a) reads || o_contains W a w.
  (* Add :219-224 *)
  Definition merged_add (a : atom) (w : S) : S * bool :=
    if merged_contains a w then (w, false) else o_add W a w.
  (* Remove :227-232 (write store supports removal) *)
  Definition merged_remove (a : atom) (w : S) : S * bool := o_remove W a w.
  (* GetFacts :245-255 *)
  Definition merged_query (q : pattern) (w : S) : list atom :=
    flat_map (fun r => r_query r q) reads ++ o_query W q w.
  (* EstimateFactCount :259-265 *)
  Definition merged_count (w : S) : Z :=
    fold_right (fun r c => r_count r + c) 0 reads + o_count W w.
  (* ListPredicates :268-283: a Go map keyed by PredicateSym (symbol and arity) *)
  Definition merged_preds (w : S) : list pred :=
    dedup pred_eqb (flat_map r_preds reads ++ o_preds W w).
  (* Merge :286-288 forwards to the write store (finding N7: atoms that a read
     store already has are added again) *)
  Definition merged_merge (l : list atom) (w : S) : S := o_merge W l w.

  Definition merged_ops : store_ops S :=
    {| o_add := merged_add; o_remove := merged_remove; o_contains := merged_contains;
       o_query := merged_query; o_preds := merged_preds; o_count := merged_count;
       o_merge := merged_merge |}.
End Merged.

Section Teeing.
  Context {S : Type} (Out : store_ops S) (base : ro).

  (* Add :317-322 after fix F10: an atom of the base is not new.
     (before the fix the first branch returned true) *)
  Definition tee_add (a : atom) (o : S) : S * bool :=
    if r_contains base a then (o, false) else o_add Out a o.
  Definition tee_add_prefix (a : atom) (o : S) : S * bool :=
    if r_contains base a then (o, true) else o_add Out a o.
  (* Remove :325-327 *)
  Definition tee_remove (a : atom) (o : S) : S * bool := o_remove Out a o.
  (* Contains :330-332 *)
  Definition tee_contains (a : atom) (o : S) : bool := r_contains base a || o_contains Out a o.
  (* GetFacts :335-343 *)
  Definition tee_query (q : pattern) (o : S) : list atom := r_query base q ++ o_query Out q o.
  (* Merge :346-348 (finding N7) *)
  Definition tee_merge (l : list atom) (o : S) : S := o_merge Out l o.
  (* ListPredicates :351-364 after fix N6: keyed by PredicateSym.
     Before the fix the Go map was keyed by the symbol alone, a later entry
     overwriting an earlier one with the same symbol. *)
  Definition tee_preds (o : S) : list pred := dedup pred_eqb (r_preds base ++ o_preds Out o).
  Definition tee_preds_prefix (o : S) : list pred :=
    dedup (fun p q => fst p =? fst q) (r_preds base ++ o_preds Out o).
  (* EstimateFactCount :367-369 *)
  Definition tee_count (o : S) : Z := r_count base + o_count Out o.

  Definition tee_ops : store_ops S :=
    {| o_add := tee_add; o_remove := tee_remove; o_contains := tee_contains;
       o_query := tee_query; o_preds := tee_preds; o_count := tee_count; o_merge := tee_merge |}.
End Teeing.

(* an in-memory store as store_ops *)
From MV Require Import Store.Generic.
Definition g_ops {T} (I : shard_impl T) : store_ops (gstore T) :=
  {| o_add := g_add I; o_remove := g_remove I; o_contains := g_contains I; o_query := g_query I;
     o_preds := g_preds; o_count := g_count I; o_merge := g_merge I |}.
