(* SimpleInMemoryStore (factstore.go:100-205): per predicate a Go map from
   Atom.Hash() to the atom. Nothing ever compares atoms: the hash is the key.
   Model file: definitions only. *)
From Coq Require Import List ZArith Bool.
From MV Require Export Store.Generic.
Import ListNotations.
Open Scope Z_scope.

Section Simple.
  Variable hash : atom -> Z.     (* Atom.Hash(), an arbitrary function here *)

  Definition simple_shard := list (Z * atom).

  Definition simple_impl : shard_impl simple_shard := {|
    use_constants := false;
    cached_count := false;
    (* Add :168  s.shardsByPredicate[a.Predicate] = map[uint64]ast.Atom{key: a} *)
    sh_new := fun a => [(hash a, a)];
    (* Add :161-166 *)
    sh_add := fun a t => match zget (hash a) t with
                         | Some _ => (t, false)
                         | None => (zput (hash a) a t, true)
                         end;
    (* Remove :173-185 *)
    sh_remove := fun a t => match zget (hash a) t with
                            | Some _ => (zdel (hash a) t, true)
                            | None => (t, false)
                            end;
    sh_drop_empty := fun t => match t with [] => true | _ => false end;
    (* Contains :188-195 *)
    sh_contains := fun a t => is_some (zget (hash a) t);
    (* GetFacts :138-147 *)
    sh_query := fun pat t => filter (fun f => matches pat (snd f)) (vals t);
    (* EstimateFactCount :150-156 *)
    sh_count := fun t => Z.of_nat (length t);
  |}.

  Definition simple_store := gstore simple_shard.
End Simple.
