(* C06 specification: a fact store is a mathematical set of ground atoms
   compared structurally. Model file: definitions only.

   Atoms are abstract: a predicate symbol id, and a list of constant ids. Two
   constants have the same id iff they are structurally equal (the checker
   assigns ids by structure; the Go side's Equals is tested against it). The
   predicate of an atom is (symbol, arity) as in ast.PredicateSym. *)
From Coq Require Import List ZArith Bool.
Import ListNotations.
Open Scope Z_scope.

Definition atom := (Z * list Z)%type.
Definition pred := (Z * Z)%type.
Definition pattern := (Z * list (option Z))%type.   (* None = a variable *)

Definition pred_of (a : atom) : pred := (fst a, Z.of_nat (length (snd a))).
Definition ppred_of (q : pattern) : pred := (fst q, Z.of_nat (length (snd q))).
Definition arity (a : atom) : Z := Z.of_nat (length (snd a)).

Fixpoint list_eqb {A} (e : A -> A -> bool) (x y : list A) : bool :=
  match x, y with
  | [], [] => true
  | a :: x', b :: y' => e a b && list_eqb e x' y'
  | _, _ => false
  end.
Definition atom_eqb (a b : atom) : bool := (fst a =? fst b) && list_eqb Z.eqb (snd a) (snd b).
Definition pred_eqb (p q : pred) : bool := (fst p =? fst q) && (snd p =? snd q).

(* factstore.Matches (factstore.go:377): every constant of the pattern equals
   the argument at its position; variables match anything (also repeated ones). *)
Fixpoint matches (pat : list (option Z)) (args : list Z) : bool :=
  match pat, args with
  | [], _ => true
  | Some c :: pat', x :: args' => (c =? x) && matches pat' args'
  | None :: pat', _ :: args' => matches pat' args'
  | _ :: _, [] => false
  end.
Definition pat_matches (q : pattern) (a : atom) : bool :=
  pred_eqb (ppred_of q) (pred_of a) && matches (snd q) (snd a).
(* ast.NewQuery: all arguments are variables *)
Definition new_query (p : pred) : pattern := (fst p, repeat None (Z.to_nat (snd p))).

(* ---- the set machine *)
Definition sset := list atom.     (* duplicate-free by construction *)
Definition s_mem (a : atom) (s : sset) : bool := existsb (atom_eqb a) s.
Definition s_add (a : atom) (s : sset) : sset * bool := if s_mem a s then (s, false) else (a :: s, true).
Definition s_remove (a : atom) (s : sset) : sset * bool :=
  if s_mem a s then (filter (fun x => negb (atom_eqb a x)) s, true) else (s, false).
Definition s_query (q : pattern) (s : sset) : list atom := filter (pat_matches q) s.
Fixpoint dedup {A} (e : A -> A -> bool) (l : list A) : list A :=
  match l with
  | [] => []
  | x :: l' => if existsb (e x) l' then dedup e l' else x :: dedup e l'
  end.
Definition s_preds (s : sset) : list pred := dedup pred_eqb (map pred_of s).
Definition s_count (s : sset) : Z := Z.of_nat (length s).
Definition s_merge (l : list atom) (s : sset) : sset := fold_left (fun s a => fst (s_add a s)) l s.

(* ---- operation histories on one store and their outputs *)
Inductive op :=
| Add (a : atom) | Remove (a : atom) | Contains (a : atom) | Query (q : pattern)
| Preds | Count | Merge (l : list atom).   (* l = the stream of facts the other store yields *)
Inductive out := OB (b : bool) | OL (l : list atom) | OP (l : list pred) | ON (n : Z) | OU.

Definition s_step (s : sset) (o : op) : sset * out :=
  match o with
  | Add a => let '(s', b) := s_add a s in (s', OB b)
  | Remove a => let '(s', b) := s_remove a s in (s', OB b)
  | Contains a => (s, OB (s_mem a s))
  | Query q => (s, OL (s_query q s))
  | Preds => (s, OP (s_preds s))
  | Count => (s, ON (s_count s))
  | Merge l => (s_merge l s, OU)
  end.

Fixpoint run {S} (step : S -> op -> S * out) (st : S) (h : list op) : list out :=
  match h with
  | [] => []
  | o :: h' => let '(st', r) := step st o in r :: run step st' h'
  end.

Definition op_atoms (o : op) : list atom :=
  match o with
  | Add a | Remove a | Contains a => [a]
  | Merge l => l
  | _ => []
  end.
Definition history_atoms (h : list op) : list atom := flat_map op_atoms h.
