(* MultiIndexedArrayInMemoryStore (factstore.go:726-951): as the multi-indexed
   store, but the innermost value is a slice of atoms that share one Atom.Hash()
   and Add/Remove/Contains compare atoms with Equals inside that slice. The
   number of facts is cached in the field `count`. This is the engine's delta
   store and the Out store of every TeeingStore. Model file: definitions only. *)
From Coq Require Import List ZArith Bool.
From MV Require Export Store.Generic Store.MultiIndexed.
Import ListNotations.
Open Scope Z_scope.

Section Array.
  Variable hash : atom -> Z.
  Variable chash : Z -> Z.

  Definition array_shard := list (Z * list (Z * list (Z * list atom))).

  (* addAtom :816-824 *)
  Definition array_new (a : atom) : array_shard :=
    fold_left (fun t ic => zput (fst ic) [(chash (snd ic), [(hash a, [a])])] t) (iargs a) [].

  (* addAtom :828-858, one round of the loop *)
  Definition array_add_at (a : atom) (st : array_shard * bool) (ic : Z * Z) : array_shard * bool :=
    let '(t, added) := st in
    let '(i, c) := ic in
    match zget i t with
    | None => (zput i [(chash c, [(hash a, [a])])] t, true)
    | Some params =>
      match zget (chash c) params with
      | None => (zput i (zput (chash c) [(hash a, [a])] params) t, true)
      | Some atoms =>
        match zget (hash a) atoms with
        | None => (zput i (zput (chash c) (zput (hash a) [a] atoms) params) t, true)
        | Some l => if existsb (atom_eqb a) l then (t, added)      (* continue nextArg *)
                    else (zput i (zput (chash c) (zput (hash a) (l ++ [a]) atoms) params) t, true)
        end
      end
    end.

  (* removeAtom :887-893: delete the first equal atom of the slice *)
  Fixpoint remove_first (a : atom) (l : list atom) : list atom :=
    match l with
    | [] => []
    | x :: l' => if atom_eqb a x then l' else x :: remove_first a l'
    end.

  (* removeAtom :876-895, one round (a missing index or bucket is skipped) *)
  Definition array_remove_at (a : atom) (st : array_shard * bool) (ic : Z * Z) : array_shard * bool :=
    let '(t, removed) := st in
    let '(i, c) := ic in
    match zget i t with
    | None => (t, removed)
    | Some params =>
      match zget (chash c) params with
      | None => (t, removed)
      | Some atoms =>
        match zget (hash a) atoms with
        | None => (t, removed)
        | Some l => if existsb (atom_eqb a) l
                    then (zput i (zput (chash c) (zput (hash a) (remove_first a l) atoms) params) t, true)
                    else (t, removed)
        end
      end
    end.

  Definition array_impl : shard_impl array_shard := {|
    use_constants := true;
    cached_count := true;
    sh_new := array_new;
    sh_add := fun a t => fold_left (array_add_at a) (iargs a) (t, false);
    sh_remove := fun a t => fold_left (array_remove_at a) (iargs a) (t, false);
    sh_drop_empty := fun _ => false;
    (* Contains :905-923 *)
    sh_contains := fun a t =>
      match zget 0 t with
      | None => false
      | Some params => match zget (chash (hd 0 (snd a))) params with
                       | None => false
                       | Some atoms => match zget (hash a) atoms with
                                       | None => false
                                       | Some l => existsb (atom_eqb a) l
                                       end
                       end
      end;
    (* GetFacts :767-783, getFactsOfFirstVariable :744-757 *)
    sh_query := fun pat t =>
      match first_const 0 pat with
      | Some (i, c) =>
        match zget i t with
        | None => []
        | Some params => match zget (chash c) params with
                         | None => []
                         | Some atoms => filter (fun f => matches pat (snd f)) (flat_map snd atoms)
                         end
        end
      | None =>
        match zget 0 t with
        | None => []
        | Some params => filter (fun f => matches pat (snd f)) (flat_map (fun kv => flat_map snd (snd kv)) params)
        end
      end;
    (* not used: EstimateFactCount :927 returns the cached field *)
    sh_count := fun _ => 0;
  |}.

  Definition array_store := gstore array_shard.
End Array.
