(* The shard of the MultiIndexedInMemoryStore (position -> argument hash ->
   atom hash -> atom) acts as a set while no stored atom shares its hash with a
   different argument atom. Invariant: every position holds a well-formed index
   and all positions hold the same atoms. *)
From Coq Require Import List ZArith Bool Lia Permutation.
From MV Require Import Store.AMap Store.SetSpec Store.Generic Store.MultiIndexed
  Store.AMapProofs Store.GenericProofs Store.SimpleProofs Store.NestedProofs Store.ArrayProofs Store.IndexedProofs.
Import ListNotations.
Open Scope Z_scope.

Section MultiShard.
  Variable hash : atom -> Z.
  Variable chash : Z -> Z.

  Definition m_WF3 (p : pred) (t : multi_shard) : Prop := WF3 asing p hash chash t.
  Definition m_elems (t : multi_shard) : list atom := pel asing 0 t.
  Definition m_WF (p : pred) (t : multi_shard) : Prop :=
    m_WF3 p t /\ forall i, 0 <= i < snd p -> forall x, In x (pel asing i t) <-> In x (pel asing 0 t).
  (* no stored atom of the index has the hash of a without being a *)
  Definition m_pre (a : atom) (_ : Z) (P : list (Z * list (Z * atom))) : Prop :=
    forall x, In x (el2 asing P) -> hash x = hash a -> x = a.

  Lemma multi_add_at_eq a t added i c :
    multi_add_at hash chash a (t, added) (i, c) =
    match b2 asing (pos i t) (chash c) (hash a) with
    | [] => (zput i (zput (chash c) (zput (hash a) a (dflt (zget (chash c) (pos i t)))) (pos i t)) t, true)
    | _ => (t, added)
    end.
  Proof.
    unfold multi_add_at, b2, kb, pos, asing.
    destruct (zget i t) as [params|]; [|reflexivity]. cbn [dflt].
    destruct (zget (chash c) params) as [atoms|]; [|reflexivity]. cbn [dflt].
    destruct (zget (hash a) atoms); reflexivity.
  Qed.

  (* one round of Remove when nothing is missing on the way *)
  Definition m_rm (a : atom) (st : multi_shard * bool) (ic : Z * Z) : multi_shard * bool :=
    match b2 asing (pos (fst ic) (fst st)) (chash (snd ic)) (hash a) with
    | [] => st
    | _ => (zput (fst ic) (zput (chash (snd ic)) (zdel (hash a) (dflt (zget (chash (snd ic)) (pos (fst ic) (fst st)))))
                             (pos (fst ic) (fst st))) (fst st), true)
    end.

  Lemma loop_step a i c rest t b :
    b2 asing (pos i t) (chash c) (hash a) <> [] ->
    multi_remove_loop hash chash a ((i, c) :: rest) t b =
    multi_remove_loop hash chash a rest (fst (m_rm a (t, b) (i, c))) (snd (m_rm a (t, b) (i, c))).
  Proof.
    cbn [multi_remove_loop]. unfold m_rm, b2, kb, pos, asing. cbn [fst snd].
    destruct (zget i t) as [params|]; [|intros H; exfalso; apply H; reflexivity]. cbn [dflt].
    destruct (zget (chash c) params) as [atoms|]; [|intros H; exfalso; apply H; reflexivity]. cbn [dflt].
    destruct (zget (hash a) atoms); [reflexivity|intros H; exfalso; apply H; reflexivity].
  Qed.
  Lemma m_rm_pos a t b i c j : j <> i -> pos j (fst (m_rm a (t, b) (i, c))) = pos j t.
  Proof.
    intros Hn. unfold m_rm. cbn [fst snd]. destruct (b2 asing (pos i t) (chash c) (hash a)); cbn [fst]; [reflexivity|].
    apply pos_put_other; auto.
  Qed.
  Lemma loop_present a : forall ics t b,
    NoDup (map fst ics) -> (forall i c, In (i, c) ics -> b2 asing (pos i t) (chash c) (hash a) <> []) ->
    multi_remove_loop hash chash a ics t b = fold_left (m_rm a) ics (t, b).
  Proof.
    induction ics as [|[i c] ics IH]; intros t b Hnd H; [reflexivity|].
    cbn [map fst] in Hnd. apply NoDup_cons_iff in Hnd. destruct Hnd as [Hi Hnd].
    rewrite loop_step by (apply H; left; auto). cbn [fold_left].
    rewrite IH; auto.
    - rewrite <- surjective_pairing. reflexivity.
    - intros j c' Hj. rewrite m_rm_pos; [apply H; right; auto|].
      intros ->. apply Hi. change i with (fst (i, c')). apply in_map; auto.
  Qed.
  Lemma loop_absent a : forall ics t b,
    (forall i c, In (i, c) ics -> b2 asing (pos i t) (chash c) (hash a) = []) ->
    fst (multi_remove_loop hash chash a ics t b) = t /\
    (snd (multi_remove_loop hash chash a ics t b) = b \/ snd (multi_remove_loop hash chash a ics t b) = false).
  Proof.
    induction ics as [|[i c] ics IH]; intros t b H; [simpl; auto|].
    pose proof (H i c (or_introl eq_refl)) as Hb. revert Hb.
    cbn [multi_remove_loop]. unfold b2, kb, pos, asing.
    destruct (zget i t) as [params|]; [|simpl; auto]. cbn [dflt].
    destruct (zget (chash c) params) as [atoms|]; [|simpl; auto]. cbn [dflt].
    destruct (zget (hash a) atoms); [discriminate|]. intros _.
    apply IH. intros j c' Hj. apply H. right; auto.
  Qed.

  Lemma m_add_round p a : pred_of a = p -> forall t b i, m_WF3 p t -> m_pre a i (pos i t) ->
    m_WF3 p (fst (multi_add_at hash chash a (t, b) (i, argz i a))) /\
    (forall j, j <> i -> pos j (fst (multi_add_at hash chash a (t, b) (i, argz i a))) = pos j t) /\
    (forall x, In x (pel asing i (fst (multi_add_at hash chash a (t, b) (i, argz i a)))) <->
               (fun x P => x = a \/ P) x (In x (pel asing i t))) /\
    snd (multi_add_at hash chash a (t, b) (i, argz i a)) = (fun m b : bool => if m then b else true) (s_mem a (pel asing i t)) b.
  Proof.
    intros Hp t b i Hwf Hpre. rewrite multi_add_at_eq. cbv beta.
    pose proof (WF3_pos asing p hash chash t i Hwf) as H2.
    change (chash (argz i a)) with (key_i chash i a).
    rewrite (leaf_bucket p hash (key_i chash i) a (pos i t) H2 Hpre). fold (pel asing i t).
    destruct (s_mem a (pel asing i t)) eqn:E; cbn [fst snd].
    - apply s_mem_in in E. split; auto. split; auto. split; auto.
      intros x. split; auto. intros [->|H]; auto.
    - destruct (leaf_add p hash (key_i chash i) a (pos i t) H2 Hpre Hp) as [W Hel].
      split; [apply WF3_put; auto|]. split; [intros j Hj; apply pos_put_other; auto|]. split; auto.
      intros x. unfold pel. rewrite pos_put_same. apply Hel.
  Qed.

  Lemma m_rm_round p a : forall t b i, m_WF3 p t -> m_pre a i (pos i t) ->
    m_WF3 p (fst (m_rm a (t, b) (i, argz i a))) /\
    (forall j, j <> i -> pos j (fst (m_rm a (t, b) (i, argz i a))) = pos j t) /\
    (forall x, In x (pel asing i (fst (m_rm a (t, b) (i, argz i a)))) <->
               (fun x P => x <> a /\ P) x (In x (pel asing i t))) /\
    snd (m_rm a (t, b) (i, argz i a)) = (fun m b : bool => if m then true else b) (s_mem a (pel asing i t)) b.
  Proof.
    intros t b i Hwf Hpre. unfold m_rm. cbn [fst snd]. cbv beta.
    pose proof (WF3_pos asing p hash chash t i Hwf) as H2.
    change (chash (argz i a)) with (key_i chash i a).
    rewrite (leaf_bucket p hash (key_i chash i) a (pos i t) H2 Hpre). fold (pel asing i t).
    destruct (s_mem a (pel asing i t)) eqn:E; cbn [fst snd].
    - destruct (leaf_del p hash (key_i chash i) a (pos i t) H2 Hpre) as [W Hel].
      split; [apply WF3_put; auto|]. split; [intros j Hj; apply pos_put_other; auto|]. split; auto.
      intros x. unfold pel. rewrite pos_put_same. apply Hel.
    - apply s_mem_false in E. split; auto. split; auto. split; auto.
      intros x. split; [|tauto]. intros H. split; auto. intros ->. contradiction.
  Qed.

  Lemma m_pre_all p a t : m_WF p t -> okc (s_ok2 hash) a (m_elems t) ->
    forall i, 0 <= i < snd p -> m_pre a i (pos i t).
  Proof. intros [_ Hall] Hok i Hi x Hx E. apply (Hok x); auto. apply (Hall i Hi x). exact Hx. Qed.

  Lemma m_add_all p a t :
    pred_of a = p -> (snd p =? 0) = false -> m_WF p t -> okc (s_ok2 hash) a (m_elems t) ->
    m_WF p (fst (fold_left (multi_add_at hash chash a) (iargs a) (t, false))) /\
    snd (fold_left (multi_add_at hash chash a) (iargs a) (t, false)) = negb (s_mem a (m_elems t)) /\
    forall x, In x (m_elems (fst (fold_left (multi_add_at hash chash a) (iargs a) (t, false)))) <-> x = a \/ In x (m_elems t).
  Proof.
    intros Hp Hz Hm Hok. pose proof (m_pre_all p a t Hm Hok) as Hpre. destruct Hm as [Hwf Hall].
    destruct (arity_pos p a Hp Hz) as [Hpos [Har Hne]].
    destruct (rounds_ok asing p hash chash a (multi_add_at hash chash a) _ _ (m_pre a) (m_add_round p a Hp)
                (iargs a) t false Hwf (number_nodup _ _) (fun i c H => proj2 (iargs_spec a i c H)))
      as [W [Hin [_ Hb]]].
    { intros i Hi. apply Hpre. apply iargs_fst in Hi. lia. }
    assert (H0 : In 0 (map fst (iargs a))) by (apply iargs_fst; lia).
    split; [split; auto|split].
    - intros i Hi x. rewrite (Hin i) by (apply iargs_fst; lia). rewrite (Hin 0 H0). rewrite (Hall i Hi x). tauto.
    - etransitivity; [exact Hb|]. rewrite fold_left_ext_in with (f' := fun b _ => if s_mem a (m_elems t) then b else true).
      + rewrite fold_keep. destruct (s_mem a (m_elems t)); [reflexivity|]. destruct (iargs a); [congruence|reflexivity].
      + intros b [i c] Hi. cbn [fst]. apply iargs_spec in Hi. rewrite (s_mem_iff a _ (m_elems t)); auto.
        apply Hall. lia.
    - intros x. apply (Hin 0 H0).
  Qed.

  Lemma m_remove_all p a t :
    pred_of a = p -> (snd p =? 0) = false -> m_WF p t -> okc (s_ok2 hash) a (m_elems t) ->
    m_WF p (fst (multi_remove_loop hash chash a (iargs a) t false)) /\
    snd (multi_remove_loop hash chash a (iargs a) t false) = s_mem a (m_elems t) /\
    forall x, In x (m_elems (fst (multi_remove_loop hash chash a (iargs a) t false))) <-> x <> a /\ In x (m_elems t).
  Proof.
    intros Hp Hz Hm Hok. pose proof (m_pre_all p a t Hm Hok) as Hpre. pose proof Hm as [Hwf Hall].
    destruct (arity_pos p a Hp Hz) as [Hpos [Har Hne]].
    assert (Hbk : forall i c, In (i, c) (iargs a) ->
              b2 asing (pos i t) (chash c) (hash a) = if s_mem a (m_elems t) then [a] else []).
    { intros i c Hi. apply iargs_spec in Hi. destruct Hi as [Hi ->].
      change (chash (argz i a)) with (key_i chash i a).
      rewrite (leaf_bucket p hash (key_i chash i) a (pos i t) (WF3_pos asing p hash chash t i Hwf) (Hpre i ltac:(lia))).
      fold (pel asing i t). rewrite (s_mem_iff a _ (m_elems t)); auto. apply Hall. lia. }
    destruct (s_mem a (m_elems t)) eqn:E.
    - rewrite loop_present; [|apply number_nodup|intros i c Hi; rewrite (Hbk i c Hi); discriminate].
      destruct (rounds_ok asing p hash chash a (m_rm a) _ _ (m_pre a) (m_rm_round p a)
                  (iargs a) t false Hwf (number_nodup _ _) (fun i c H => proj2 (iargs_spec a i c H)))
        as [W [Hin [_ Hb]]].
      { intros i Hi. apply Hpre. apply iargs_fst in Hi. lia. }
      assert (H0 : In 0 (map fst (iargs a))) by (apply iargs_fst; lia).
      split; [split; auto|split].
      + intros i Hi x. rewrite (Hin i) by (apply iargs_fst; lia). rewrite (Hin 0 H0). rewrite (Hall i Hi x). tauto.
      + etransitivity; [exact Hb|]. rewrite fold_left_ext_in with (f' := fun b _ => if s_mem a (m_elems t) then true else b).
        * rewrite fold_set, E. destruct (iargs a); [congruence|reflexivity].
        * intros b [i c] Hi. cbn [fst]. apply iargs_spec in Hi. rewrite (s_mem_iff a _ (m_elems t)); auto.
          apply Hall. lia.
      + intros x. apply (Hin 0 H0).
    - destruct (loop_absent a (iargs a) t false Hbk) as [Ht Hs]. rewrite Ht.
      split; auto. split; [destruct Hs; auto|].
      apply s_mem_false in E. intros x. split; [|tauto]. intros H. split; auto. intros ->. contradiction.
  Qed.

  Lemma m_WF_nil p : m_WF p [].
  Proof. split; [apply WF3_nil|]. intros i _ x. unfold pel, pos; simpl. tauto. Qed.

  Lemma multi_new_eq a : forall ics t b,
    NoDup (map fst ics) -> (forall i c, In (i, c) ics -> zget i t = None) ->
    fold_left (fun t ic => zput (fst ic) [(chash (snd ic), [(hash a, a)])] t) ics t =
    fst (fold_left (multi_add_at hash chash a) ics (t, b)).
  Proof.
    induction ics as [|[i c] ics IH]; intros t b Hnd Hn; [reflexivity|].
    cbn [map fst] in Hnd. apply NoDup_cons_iff in Hnd. destruct Hnd as [Hi Hnd].
    cbn [fold_left fst snd].
    replace (multi_add_at hash chash a (t, b) (i, c)) with (zput i [(chash c, [(hash a, a)])] t, true).
    2:{ unfold multi_add_at. rewrite (Hn i c (or_introl eq_refl)). reflexivity. }
    apply IH; auto. intros j c' Hj. rewrite zgo; [apply (Hn j c'); right; auto|].
    intros ->. apply Hi. change i with (fst (i, c')). apply in_map; auto.
  Qed.

  Lemma multi_contains_eq a t :
    sh_contains (multi_impl hash chash) a t =
    match b2 asing (pos 0 t) (chash (argz 0 a)) (hash a) with [] => false | _ => true end.
  Proof.
    cbn [sh_contains multi_impl]. rewrite hd_argz. unfold b2, kb, pos, asing.
    destruct (zget 0 t) as [params|]; [|reflexivity]. cbn [dflt].
    destruct (zget (chash (argz 0 a)) params) as [atoms|]; [|reflexivity]. cbn [dflt].
    destruct (zget (hash a) atoms); reflexivity.
  Qed.

  Lemma multi_query_eq pat t :
    sh_query (multi_impl hash chash) pat t =
    match first_const 0 pat with
    | Some (i, c) => filter (fun f : atom => matches pat (snd f)) (kelems asing (dflt (zget (chash c) (pos i t))))
    | None => filter (fun f : atom => matches (tl pat) (tl (snd f))) (pel asing 0 t)
    end.
  Proof.
    cbn [sh_query multi_impl]. destruct (first_const 0 pat) as [[i c]|]; unfold pel, pos.
    - destruct (zget i t) as [params|]; [|reflexivity]. cbn [dflt].
      destruct (zget (chash c) params); [|reflexivity]. cbn [dflt]. rewrite kelems_asing. reflexivity.
    - destruct (zget 0 t); [|reflexivity]. cbn [dflt]. rewrite el2_asing. reflexivity.
  Qed.

  Lemma multi_pconst p : pconst (multi_impl hash chash) p = (snd p =? 0).
  Proof. reflexivity. Qed.

  Lemma multi_shard_ok : shard_ok (multi_impl hash chash) m_elems m_WF (s_ok2 hash).
  Proof.
    constructor.
    - intros p t a [Hwf _] Hin. eapply el2_pred; [apply (WF3_pos asing p hash chash t 0 Hwf)|exact Hin].
    - intros p t [Hwf _]. eapply el2_nodup. apply (WF3_pos asing p hash chash t 0 Hwf).
    - intros a Hz. rewrite multi_pconst in Hz.
      cbn [sh_new multi_impl]. unfold multi_new.
      rewrite (multi_new_eq a (iargs a) [] false (number_nodup _ _) (fun _ _ _ => eq_refl)).
      destruct (m_add_all (pred_of a) a [] eq_refl Hz (m_WF_nil _)) as [W [_ Hel]].
      { intros x []. }
      split; auto. intros x. rewrite Hel. unfold m_elems, pel, pos; simpl. tauto.
    - intros t a Hwf Hz Hok. rewrite multi_pconst in Hz. cbn [sh_add multi_impl].
      destruct (m_add_all (pred_of a) a t eq_refl Hz Hwf Hok) as [W [Hb Hel]]. auto.
    - intros t a Hwf Hz Hok. rewrite multi_pconst in Hz. cbn [sh_remove multi_impl].
      destruct (m_remove_all (pred_of a) a t eq_refl Hz Hwf Hok) as [W [Hb Hel]]. auto.
    - intros t a Hwf Hz Hok. rewrite multi_pconst in Hz. rewrite multi_contains_eq.
      destruct (arity_pos _ a eq_refl Hz) as [Hpos _].
      pose proof (m_pre_all _ a t Hwf Hok 0 ltac:(lia)) as Hpre. destruct Hwf as [Hwf _].
      change (chash (argz 0 a)) with (key_i chash 0 a).
      rewrite (leaf_bucket _ hash (key_i chash 0) a (pos 0 t) (WF3_pos asing _ hash chash t 0 Hwf) Hpre).
      fold (pel asing 0 t). fold (m_elems t). destruct (s_mem a (m_elems t)); reflexivity.
    - intros p t pat [Hwf Hall] Hz Hlen. rewrite multi_pconst in Hz. rewrite multi_query_eq.
      destruct (first_const 0 pat) as [[i c]|] eqn:Hfc.
      + pose proof (first_const_range _ _ _ _ Hfc) as Hr.
        pose proof (WF3_pos asing p hash chash t i Hwf) as H2.
        apply NoDup_Permutation.
        * apply NoDup_filter. eapply el1_nodup. eapply WF1_sub; eauto.
        * apply NoDup_filter. eapply el2_nodup. apply (WF3_pos asing p hash chash t 0 Hwf).
        * intros x. rewrite !filter_In. rewrite (sub_in asing p hash (key_i chash i) (pos i t) (chash c) x H2).
          fold (pel asing i t). unfold m_elems. rewrite (Hall i) by lia. split; [tauto|].
          intros [Hx Hm]. split; auto. split; auto.
          pose proof (first_const_matches _ _ _ _ _ Hfc Hm) as E. unfold key_i, argz.
          replace (i - 0) with i in E by lia. rewrite E. reflexivity.
      + unfold m_elems. destruct pat as [|[c|] pat'].
        * simpl in Hlen. rewrite <- Hlen in Hz. discriminate.
        * discriminate.
        * cbn [tl].
          rewrite (filter_ext_in (fun f : atom => matches pat' (tl (snd f))) (fun f : atom => matches (None :: pat') (snd f))).
          -- apply Permutation_refl.
          -- intros x Hx.
             destruct (args_nonempty p x Hz (el2_pred _ _ _ _ _ _ (WF3_pos asing p hash chash t 0 Hwf) Hx)) as [y [ys E]].
             rewrite E. reflexivity.
    - intros p t [Hwf _] _. cbn [sh_count multi_impl]. unfold m_elems, pel, pos.
      destruct (zget 0 t); [|reflexivity]. cbn [dflt]. apply el2_asing_length.
    - intros p t _ Hc. discriminate.
  Qed.
End MultiShard.
