(* Hash-keyed innermost maps (atom hash -> atom: the indexed and multi-indexed
   stores) and the shard of the IndexedInMemoryStore. Nothing compares atoms, so
   the shard acts as a set only while no stored atom shares its hash with a
   different argument atom (side condition s_ok2 of the simple store). *)
From Coq Require Import List ZArith Bool Lia Permutation.
From MV Require Import Store.AMap Store.SetSpec Store.Generic Store.MultiIndexed Store.Indexed
  Store.AMapProofs Store.GenericProofs Store.SimpleProofs Store.NestedProofs.
Import ListNotations.
Open Scope Z_scope.

Definition asing (x : atom) : list atom := [x].

Lemma kelems_asing (m : list (Z * atom)) : kelems asing m = vals m.
Proof. unfold kelems, vals, asing. induction m as [|kv m IH]; simpl; [reflexivity|]. rewrite IH; reflexivity. Qed.
Lemma el2_asing (t : list (Z * list (Z * atom))) : el2 asing t = flat_map (fun kv => vals (snd kv)) t.
Proof. unfold el2. unfold kelems at 1. apply flat_map_ext. intros kv. apply kelems_asing. Qed.
Lemma el2_asing_length (t : list (Z * list (Z * atom))) :
  fold_right (fun kv c => Z.of_nat (length (snd kv)) + c) 0 t = Z.of_nat (length (el2 asing t)).
Proof.
  rewrite el2_asing. induction t as [|kv t IH]; simpl; [reflexivity|].
  rewrite app_length, Nat2Z.inj_add, IH. unfold vals. rewrite map_length. reflexivity.
Qed.

Section Leaf.
  Variable p : pred.
  Variable hash : atom -> Z.
  Variable key : atom -> Z.
  Variable a : atom.
  Variable params : list (Z * list (Z * atom)).
  Hypothesis Hwf : WF2 asing p hash key params.
  Hypothesis Hok : forall x, In x (el2 asing params) -> hash x = hash a -> x = a.

  Lemma leaf_bucket :
    b2 asing params (key a) (hash a) = if s_mem a (el2 asing params) then [a] else [].
  Proof.
    destruct (s_mem a (el2 asing params)) eqn:E.
    - apply s_mem_in in E. apply (el2_in _ _ _ _ _ _ Hwf) in E. revert E. unfold b2, kb.
      destruct (zget (hash a) (dflt (zget (key a) params))) as [c|] eqn:G; [|intros []].
      unfold asing. intros [->|[]]. reflexivity.
    - apply s_mem_false in E. destruct (b2 asing params (key a) (hash a)) as [|c l] eqn:G; [reflexivity|].
      exfalso. apply E. assert (Hc : In c (b2 asing params (key a) (hash a))) by (rewrite G; left; auto).
      destruct (b2_sound _ _ _ _ _ _ _ _ Hwf Hc) as [_ [E2 _]].
      rewrite <- (Hok c (b2_el2 _ _ _ _ _ _ _ _ Hwf Hc) E2). eapply b2_el2; eauto.
  Qed.

  Lemma leaf_add : pred_of a = p ->
    WF2 asing p hash key (zput (key a) (zput (hash a) a (dflt (zget (key a) params))) params) /\
    forall x, In x (el2 asing (zput (key a) (zput (hash a) a (dflt (zget (key a) params))) params)) <->
              x = a \/ In x (el2 asing params).
  Proof.
    intros Hp. destruct (put2 asing p hash key params (key a) (hash a) a Hwf) as [HP Hb].
    { split; [repeat constructor; simpl; tauto|]. intros x [<-|[]]. exact Hp. }
    { intros x [<-|[]]. auto. }
    split; auto. intros x.
    rewrite (el2_upd asing p hash key params _ (key a) (hash a) (asing a) x Hwf HP Hb). unfold asing. simpl. split.
    - intros [[_ [_ [H|[]]]]|[_ H]]; auto.
    - intros [->|H]; [left; auto|].
      destruct (Z.eq_dec (key x) (key a)) as [E1|E1]; [destruct (Z.eq_dec (hash x) (hash a)) as [E2|E2]|];
        [left|right; tauto|right; tauto].
      rewrite (Hok x H E2). auto.
  Qed.

  Lemma leaf_del :
    WF2 asing p hash key (zput (key a) (zdel (hash a) (dflt (zget (key a) params))) params) /\
    forall x, In x (el2 asing (zput (key a) (zdel (hash a) (dflt (zget (key a) params))) params)) <->
              x <> a /\ In x (el2 asing params).
  Proof.
    destruct (del2 asing p hash key params (key a) (hash a) Hwf) as [HP Hb].
    split; auto. intros x.
    rewrite (el2_upd asing p hash key params _ (key a) (hash a) [] x Hwf HP Hb). simpl. split.
    - intros [[_ [_ []]]|[Hn H]]. split; auto. intros ->. tauto.
    - intros [Hn H]. right. split; auto. intros [E1 E2]. apply Hn. apply Hok; auto.
  Qed.
End Leaf.

Section IndexedShard.
  Variable hash : atom -> Z.
  Variable chash : Z -> Z.

  Definition i_elems (t : indexed_shard) : list atom := el2 asing t.
  Definition i_WF (p : pred) (t : indexed_shard) : Prop := WF2 asing p hash (arg0 chash) t.

  Lemma indexed_add_eq a t :
    sh_add (indexed_impl hash chash) a t =
    match b2 asing t (arg0 chash a) (hash a) with
    | [] => (zput (arg0 chash a) (zput (hash a) a (dflt (zget (arg0 chash a) t))) t, true)
    | _ => (t, false)
    end.
  Proof.
    cbn [sh_add indexed_impl]. unfold b2, kb, asing.
    destruct (zget (arg0 chash a) t) as [atoms|]; [|reflexivity]. cbn [dflt].
    destruct (zget (hash a) atoms); reflexivity.
  Qed.
  Lemma indexed_remove_eq a t :
    sh_remove (indexed_impl hash chash) a t =
    match b2 asing t (arg0 chash a) (hash a) with
    | [] => (t, false)
    | _ => (zput (arg0 chash a) (zdel (hash a) (dflt (zget (arg0 chash a) t))) t, true)
    end.
  Proof.
    cbn [sh_remove indexed_impl]. unfold b2, kb, asing.
    destruct (zget (arg0 chash a) t) as [atoms|]; [|reflexivity]. cbn [dflt].
    destruct (zget (hash a) atoms); reflexivity.
  Qed.
  Lemma indexed_contains_eq a t :
    sh_contains (indexed_impl hash chash) a t =
    match b2 asing t (arg0 chash a) (hash a) with [] => false | _ => true end.
  Proof.
    cbn [sh_contains indexed_impl]. unfold b2, kb, asing.
    destruct (zget (arg0 chash a) t) as [atoms|]; [|reflexivity]. cbn [dflt].
    destruct (zget (hash a) atoms); reflexivity.
  Qed.

  Lemma okc_leaf a t : okc (s_ok2 hash) a (i_elems t) -> forall x, In x (el2 asing t) -> hash x = hash a -> x = a.
  Proof. intros H x Hx E. apply (H x Hx E). Qed.

  Lemma indexed_pconst p : pconst (indexed_impl hash chash) p = (snd p =? 0).
  Proof. reflexivity. Qed.

  Lemma args_nonempty p x : (snd p =? 0) = false -> pred_of x = p -> exists y ys, snd x = y :: ys.
  Proof.
    intros Hz <-. apply Z.eqb_neq in Hz. unfold pred_of in Hz. simpl in Hz.
    destruct (snd x) as [|y ys]; [simpl in Hz; lia|eauto].
  Qed.

  Lemma indexed_shard_ok : shard_ok (indexed_impl hash chash) i_elems i_WF (s_ok2 hash).
  Proof.
    constructor.
    - intros p t a Hwf Hin. eapply el2_pred; eauto.
    - intros p t Hwf. eapply el2_nodup; eauto.
    - intros a Hz.
      change (sh_new (indexed_impl hash chash) a)
        with (zput (arg0 chash a) (zput (hash a) a (dflt (zget (arg0 chash a) (@nil (Z * list (Z * atom)))))) []).
      destruct (leaf_add (pred_of a) hash (arg0 chash) a [] (WF2_nil _ _ _ _) (fun x H => False_ind _ H) eq_refl) as [W Hel].
      split; auto. intros x. unfold i_elems. rewrite Hel. simpl. tauto.
    - intros t a Hwf Hz Hokc. rewrite indexed_add_eq.
      rewrite (leaf_bucket _ _ _ a t Hwf (okc_leaf a t Hokc)). unfold i_elems.
      destruct (s_mem a (el2 asing t)) eqn:E; cbn [fst snd negb].
      + apply s_mem_in in E. split; auto. split; auto. intros x. split; auto. intros [->|H]; auto.
      + destruct (leaf_add _ _ _ a t Hwf (okc_leaf a t Hokc) eq_refl) as [W Hel]. auto.
    - intros t a Hwf Hz Hokc. rewrite indexed_remove_eq.
      rewrite (leaf_bucket _ _ _ a t Hwf (okc_leaf a t Hokc)). unfold i_elems.
      destruct (s_mem a (el2 asing t)) eqn:E; cbn [fst snd].
      + destruct (leaf_del _ _ _ a t Hwf (okc_leaf a t Hokc)) as [W Hel]. auto.
      + apply s_mem_false in E. split; auto. split; auto. intros x. split; [|tauto].
        intros H. split; auto. intros ->. contradiction.
    - intros t a Hwf Hz Hokc. rewrite indexed_contains_eq.
      rewrite (leaf_bucket _ _ _ a t Hwf (okc_leaf a t Hokc)). unfold i_elems.
      destruct (s_mem a (el2 asing t)); reflexivity.
    - intros p t pat Hwf Hz Hlen. rewrite indexed_pconst in Hz. unfold i_elems.
      destruct pat as [|[c|] pat'].
      + simpl in Hlen. rewrite <- Hlen in Hz. discriminate.
      + assert (Hq : sh_query (indexed_impl hash chash) (Some c :: pat') t =
                     filter (fun f : atom => matches (Some c :: pat') (snd f)) (kelems asing (dflt (zget (chash c) t)))).
        { cbn [sh_query indexed_impl]. destruct (zget (chash c) t) as [atoms|]; [|reflexivity].
          cbn [dflt]. rewrite kelems_asing. reflexivity. }
        rewrite Hq.
        apply NoDup_Permutation.
        * apply NoDup_filter. eapply el1_nodup. eapply WF1_sub; eauto.
        * apply NoDup_filter. eapply el2_nodup; eauto.
        * intros x. rewrite !filter_In. rewrite (sub_in asing p hash (arg0 chash) t (chash c) x Hwf).
          split; [tauto|]. intros [Hx Hm]. split; auto. split; auto.
          unfold arg0. simpl in Hm. destruct (snd x) as [|y ys]; [discriminate|].
          apply andb_true_iff in Hm. destruct Hm as [Hm _]. apply Z.eqb_eq in Hm. simpl. rewrite Hm. reflexivity.
      + cbn [sh_query indexed_impl]. rewrite <- el2_asing. cbn [tl].
        rewrite (filter_ext_in (fun f : atom => matches pat' (tl (snd f))) (fun f : atom => matches (None :: pat') (snd f))).
        * apply Permutation_refl.
        * intros x Hx. destruct (args_nonempty p x Hz (el2_pred _ _ _ _ _ _ Hwf Hx)) as [y [ys E]].
          rewrite E. reflexivity.
    - intros p t Hwf _. cbn [sh_count indexed_impl]. apply el2_asing_length.
    - intros p t _ Hc. discriminate.
  Qed.
End IndexedShard.
