(* MultiIndexedInMemoryStore (factstore.go:543-724): per predicate, per argument
   position, a map from the hash of that argument to a map from Atom.Hash() to
   the atom. Model file: definitions only. *)
From Coq Require Import List ZArith Bool.
From MV Require Export Store.Generic.
Import ListNotations.
Open Scope Z_scope.

(* the arguments of an atom with their positions: for i := 0; i < Arity; i++ *)
Fixpoint number (i : Z) (l : list Z) : list (Z * Z) :=
  match l with [] => [] | c :: l' => (i, c) :: number (i + 1) l' end.
Definition iargs (a : atom) : list (Z * Z) := number 0 (snd a).
(* the first non-variable parameter of a query: position and constant *)
Fixpoint first_const (i : Z) (pat : list (option Z)) : option (Z * Z) :=
  match pat with
  | [] => None
  | Some c :: _ => Some (i, c)
  | None :: pat' => first_const (i + 1) pat'
  end.

Section Multi.
  Variable hash : atom -> Z.
  Variable chash : Z -> Z.

  Definition multi_shard := list (Z * list (Z * list (Z * atom))).

  (* Add :608-613 *)
  Definition multi_new (a : atom) : multi_shard :=
    fold_left (fun t ic => zput (fst ic) [(chash (snd ic), [(hash a, a)])] t) (iargs a) [].

  (* Add :616-634, one round of the loop *)
  Definition multi_add_at (a : atom) (st : multi_shard * bool) (ic : Z * Z) : multi_shard * bool :=
    let '(t, added) := st in
    let '(i, c) := ic in
    match zget i t with
    | None => (zput i [(chash c, [(hash a, a)])] t, true)
    | Some params =>
      match zget (chash c) params with
      | None => (zput i (zput (chash c) [(hash a, a)] params) t, true)
      | Some atoms =>
        match zget (hash a) atoms with
        | None => (zput i (zput (chash c) (zput (hash a) a atoms) params) t, true)
        | Some _ => (t, added)
        end
      end
    end.

  (* Remove :651-667: a missing index or argument bucket returns false at once,
     whatever was deleted in earlier rounds *)
  Fixpoint multi_remove_loop (a : atom) (ics : list (Z * Z)) (t : multi_shard) (removed : bool) : multi_shard * bool :=
    match ics with
    | [] => (t, removed)
    | (i, c) :: rest =>
      match zget i t with
      | None => (t, false)
      | Some params =>
        match zget (chash c) params with
        | None => (t, false)
        | Some atoms =>
          match zget (hash a) atoms with
          | Some _ => multi_remove_loop a rest (zput i (zput (chash c) (zdel (hash a) atoms) params) t) true
          | None => multi_remove_loop a rest t removed
          end
        end
      end
    end.

  Definition multi_impl : shard_impl multi_shard := {|
    use_constants := true;
    cached_count := false;
    sh_new := multi_new;
    sh_add := fun a t => fold_left (multi_add_at a) (iargs a) (t, false);
    sh_remove := fun a t => multi_remove_loop a (iargs a) t false;
    sh_drop_empty := fun _ => false;
    (* Contains :676-690: index 0 only *)
    sh_contains := fun a t =>
      match zget 0 t with
      | None => false
      | Some params => match zget (chash (hd 0 (snd a))) params with
                       | None => false
                       | Some atoms => is_some (zget (hash a) atoms)
                       end
      end;
    (* GetFacts :578-592, getFactsOfFirstVariable :557-568 *)
    sh_query := fun pat t =>
      match first_const 0 pat with
      | Some (i, c) =>
        match zget i t with
        | None => []
        | Some params => match zget (chash c) params with
                         | None => []
                         | Some atoms => filter (fun f => matches pat (snd f)) (vals atoms)
                         end
        end
      | None =>
        match zget 0 t with
        | None => []
        | Some params => filter (fun f => matches (tl pat) (tl (snd f))) (flat_map (fun kv => vals (snd kv)) params)
        end
      end;
    (* EstimateFactCount :696-700 *)
    sh_count := fun t => match zget 0 t with
                         | None => 0
                         | Some params => fold_right (fun kv c => Z.of_nat (length (snd kv)) + c) 0 params
                         end;
  |}.

  Definition multi_store := gstore multi_shard.
End Multi.
