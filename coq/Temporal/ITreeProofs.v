(* Proofs about the interval tree model: insertion keeps the multiset of
   intervals and the search invariant through every rotation; the pruned point
   and range searches return exactly the matching elements, in order. *)
From Coq Require Import List ZArith Lia Bool Permutation.
From MV Require Import Temporal.ITree.
Import ListNotations.
Open Scope Z_scope.

Fixpoint all (P : iv -> Prop) t := match t with Leaf => True | Node l i _ _ r => all P l /\ P i /\ all P r end.
(* weak search order by start key (duplicates of a key may sit on either side
   after rotations) + cached maximum end is exact *)
Fixpoint inv t := match t with
  | Leaf => True
  | Node l i mx _ r => inv l /\ inv r /\ all (fun j => ks j <= ks i) l /\ all (fun j => ks i <= ks j) r
      /\ mx = maxend_opt r (maxend_opt l (ke i)) end.

Lemma bound_eqb_eq a b : bound_eqb a b = true <-> a = b.
Proof. destruct a, b; simpl; try (split; congruence). rewrite Z.eqb_eq. split; congruence. Qed.
Lemma iv_eqb_eq a b : iv_eqb a b = true <-> a = b.
Proof. destruct a, b; unfold iv_eqb; simpl. rewrite andb_true_iff, !bound_eqb_eq. split; [intros []|intros [=]]; subst; auto. Qed.

Lemma all_impl (P Q : iv -> Prop) t : (forall x, P x -> Q x) -> all P t -> all Q t.
Proof. induction t; simpl; intuition. Qed.
Lemma all_In (P : iv -> Prop) t : all P t <-> (forall x, In x (elements t) -> P x).
Proof.
  induction t as [|l IHl j mx h r IHr]; simpl; [tauto|].
  rewrite IHl, IHr. split.
  - intros (A & B & D) x Hx. apply in_app_or in Hx. destruct Hx as [Hx|[<-|Hx]]; auto.
  - intros H. repeat split; intros; apply H; apply in_or_app; simpl; auto.
Qed.

Lemma elements_mk l i r : elements (mk l i r) = elements l ++ i :: elements r. Proof. reflexivity. Qed.
Lemma all_mk (P : iv -> Prop) l i r : all P (mk l i r) <-> all P l /\ P i /\ all P r. Proof. reflexivity. Qed.

Lemma elements_rot_right t : elements (rot_right t) = elements t.
Proof. destruct t as [|[|xl xi ? ? xr] yi ? ? yr]; simpl; auto. rewrite <- app_assoc. reflexivity. Qed.
Lemma elements_rot_left t : elements (rot_left t) = elements t.
Proof. destruct t as [|xl xi ? ? [|yl yi ? ? yr]]; simpl; auto. rewrite <- app_assoc. reflexivity. Qed.

Lemma elements_rebalance t : elements (rebalance t) = elements t.
Proof.
  destruct t as [|l i mx h r]; [reflexivity|].
  unfold rebalance.
  repeat match goal with |- context [if ?c then _ else _] => destruct c end;
  rewrite ?elements_rot_right, ?elements_rot_left, ?elements_mk, ?elements_rot_left, ?elements_rot_right; reflexivity.
Qed.

Arguments rebalance : simpl never.
Arguments rot_left : simpl never.
Arguments rot_right : simpl never.
Arguments mk : simpl never.

Lemma insert_elements t i : Permutation (elements (insert t i)) (i :: elements t).
Proof.
  induction t as [|l IHl j mx h r IHr]; simpl; auto.
  destruct (ks i <? ks j); rewrite elements_rebalance; simpl.
  - rewrite IHl. reflexivity.
  - rewrite IHr. symmetry.
    replace (elements l ++ j :: i :: elements r) with ((elements l ++ [j]) ++ i :: elements r)
      by (rewrite <- app_assoc; reflexivity).
    apply Permutation_cons_app. rewrite <- app_assoc. reflexivity.
Qed.

Lemma inv_mk l i r : inv l -> inv r -> all (fun j => ks j <= ks i) l -> all (fun j => ks i <= ks j) r -> inv (mk l i r).
Proof. simpl; intuition. Qed.

Lemma all_rot_right (P : iv -> Prop) t : all P (rot_right t) <-> all P t.
Proof. destruct t as [|[|xl xi ? ? xr] yi ? ? yr]; simpl; tauto. Qed.
Lemma all_rot_left (P : iv -> Prop) t : all P (rot_left t) <-> all P t.
Proof. destruct t as [|xl xi ? ? [|yl yi ? ? yr]]; simpl; tauto. Qed.

Lemma inv_rot_right t : inv t -> inv (rot_right t).
Proof.
  destruct t as [|[|xl xi xm xh xr] yi ym yh yr]; auto.
  unfold rot_right. cbn [inv all]. unfold mk. cbn [inv all elements].
  intros ((Hxl & Hxr & Hxl' & Hxr' & _) & Hyr & (Hl1 & Hl2 & Hl3) & Hr & _).
  repeat split; auto.
  eapply all_impl; [|exact Hr]. cbn; intros; lia.
Qed.
Lemma inv_rot_left t : inv t -> inv (rot_left t).
Proof.
  destruct t as [|xl xi xm xh [|yl yi ym yh yr]]; auto.
  unfold rot_left. cbn [inv all]. unfold mk. cbn [inv all elements].
  intros (Hxl & (Hyl & Hyr & Hyl' & Hyr' & _) & Hl & (Hr1 & Hr2 & Hr3) & _).
  repeat split; auto.
  eapply all_impl; [|exact Hl]. cbn; intros; lia.
Qed.

Lemma inv_rebalance t :
  match t with Leaf => True | Node l i _ _ r => inv l /\ inv r /\ all (fun j => ks j <= ks i) l /\ all (fun j => ks i <= ks j) r end ->
  inv (rebalance t).
Proof.
  destruct t as [|l i mx h r]; [auto|]. intros (Hl & Hr & Hal & Har).
  unfold rebalance.
  repeat match goal with |- context [if ?c then _ else _] => destruct c end.
  - apply inv_rot_right. apply inv_mk; auto using inv_rot_left. apply all_rot_left; auto.
  - apply inv_rot_right. apply inv_mk; auto.
  - apply inv_rot_left. apply inv_mk; auto using inv_rot_right. apply all_rot_right; auto.
  - apply inv_rot_left. apply inv_mk; auto.
  - apply inv_mk; auto.
Qed.

Lemma all_rebalance (P : iv -> Prop) t : all P (rebalance t) <-> all P t.
Proof.
  destruct t as [|l i mx h r]; [reflexivity|]. unfold rebalance.
  repeat match goal with |- context [if ?c then _ else _] => destruct c end;
  rewrite ?all_rot_right, ?all_rot_left, ?all_mk, ?all_rot_left, ?all_rot_right; reflexivity.
Qed.

Lemma all_insert (P : iv -> Prop) t i : all P (insert t i) <-> P i /\ all P t.
Proof.
  induction t as [|l IHl j mx h r IHr]; simpl; [tauto|].
  destruct (ks i <? ks j); rewrite all_rebalance; simpl; rewrite ?IHl, ?IHr; tauto.
Qed.

Lemma insert_inv t i : inv t -> inv (insert t i).
Proof.
  induction t as [|l IHl j mx h r IHr]; simpl.
  - intros _. repeat split; auto.
  - intros (Hl & Hr & Hal & Har & Hmx).
    destruct (Z.ltb_spec (ks i) (ks j)); apply inv_rebalance; repeat split; auto.
    + apply all_insert. split; [lia|auto].
    + apply all_insert. split; [lia|auto].
Qed.

(* ---- the cached maximum bounds every end in the subtree *)
Lemma maxend_opt_ge t d : d <= maxend_opt t d.
Proof. destruct t; simpl; lia. Qed.
Lemma all_le_mono t (a b : Z) : a <= b -> all (fun j => ke j <= a) t -> all (fun j => ke j <= b) t.
Proof. intros; eapply all_impl; [|eassumption]. cbn; intros; lia. Qed.

Lemma maxend_all t d : inv t -> all (fun j => ke j <= maxend_opt t d) t.
Proof.
  revert d. induction t as [|l IHl j mx h r IHr]; intros d; [simpl; auto|].
  intros (Hl & Hr & _ & _ & Hmx). cbn [maxend_opt all].
  pose proof (IHl (ke j) Hl) as A. pose proof (IHr (maxend_opt l (ke j)) Hr) as B.
  pose proof (maxend_opt_ge l (ke j)). pose proof (maxend_opt_ge r (maxend_opt l (ke j))).
  rewrite Hmx. repeat split.
  - eapply all_le_mono; [|exact A]. lia.
  - lia.
  - eapply all_le_mono; [|exact B]. lia.
Qed.

Lemma maxend_bound l j mx h r : inv (Node l j mx h r) -> all (fun i => ke i <= mx) (Node l j mx h r).
Proof.
  intros H. pose proof (maxend_all _ mx H) as A. cbn [maxend_opt] in A.
  eapply all_le_mono; [|exact A]. lia.
Qed.

Lemma filter_nil_all (f : iv -> bool) t : all (fun j => f j = false) t -> filter f (elements t) = [].
Proof.
  induction t as [|l IHl j mx h r IHr]; simpl; auto.
  intros (Hl & Hj & Hr). rewrite filter_app. simpl. rewrite IHl, IHr, Hj by auto. reflexivity.
Qed.

Theorem qpoint_exact t x : inv t -> qpoint t x = filter (fun i => contains i x) (elements t).
Proof.
  induction t as [|l IHl j mx h r IHr]; [reflexivity|].
  intros Hinv. pose proof (maxend_bound _ _ _ _ _ Hinv) as Hb.
  pose proof Hinv as (Hl & Hr & Hal & Har & Hmx).
  cbn [qpoint].
  destruct (Z.ltb_spec mx x).
  - symmetry. apply filter_nil_all. eapply all_impl; [|exact Hb].
    cbn. intros i Hi. unfold contains. apply andb_false_iff. right. lia.
  - cbn [elements]. rewrite filter_app. cbn [filter]. rewrite IHl by auto. f_equal.
    destruct (contains j x) eqn:Hc; cbn [app]; f_equal;
    (destruct (Z.leb_spec (ks j) x); [apply IHr; auto | symmetry; apply filter_nil_all;
      eapply all_impl; [|exact Har]; cbn; intros i Hi; unfold contains; apply andb_false_iff; left; lia]).
Qed.

Theorem qrange_exact t s e : inv t -> qrange t s e = filter (fun i => overlaps i s e) (elements t).
Proof.
  induction t as [|l IHl j mx h r IHr]; [reflexivity|].
  intros Hinv. pose proof (maxend_bound _ _ _ _ _ Hinv) as Hb.
  pose proof Hinv as (Hl & Hr & Hal & Har & Hmx).
  cbn [qrange].
  destruct (Z.ltb_spec mx s).
  - symmetry. apply filter_nil_all. eapply all_impl; [|exact Hb].
    cbn. intros i Hi. unfold overlaps. apply andb_false_iff. right. lia.
  - cbn [elements]. rewrite filter_app. cbn [filter]. rewrite IHl by auto. f_equal.
    destruct (overlaps j s e) eqn:Hc; cbn [app]; f_equal;
    (destruct (Z.leb_spec (ks j) e); [apply IHr; auto | symmetry; apply filter_nil_all;
      eapply all_impl; [|exact Har]; cbn; intros i Hi; unfold overlaps; apply andb_false_iff; left; lia]).
Qed.

(* ---- exact-duplicate search *)
Lemma find_exact_none (t : tree) i : all (fun j => ks j <> ks i) t -> existsb (iv_eqb i) (elements t) = false.
Proof.
  intros H. rewrite all_In in H. apply not_true_is_false. intros E.
  apply existsb_exists in E. destruct E as (x & Hx & Ex). apply iv_eqb_eq in Ex. subst x.
  exact (H i Hx eq_refl).
Qed.

Theorem find_exact_spec t i : inv t -> find_exact t i = existsb (iv_eqb i) (elements t).
Proof.
  induction t as [|l IHl j mx h r IHr]; [reflexivity|].
  intros (Hl & Hr & Hal & Har & _). cbn [find_exact elements].
  rewrite existsb_app. cbn [existsb].
  destruct (iv_eqb j i) eqn:Eji.
  - apply iv_eqb_eq in Eji. subst j.
    assert (iv_eqb i i = true) as -> by (apply iv_eqb_eq; reflexivity).
    rewrite orb_true_r. reflexivity.
  - assert (iv_eqb i j = false) as ->.
    { apply not_true_is_false. intros E. apply iv_eqb_eq in E. subst. 
      assert (iv_eqb j j = true) by (apply iv_eqb_eq; reflexivity). congruence. }
    cbn [orb]. rewrite <- IHl, <- IHr by auto.
    destruct (Z.ltb_spec (ks i) (ks j)).
    + rewrite (IHr Hr). rewrite (find_exact_none r i), orb_false_r; auto.
      eapply all_impl; [|exact Har]. cbn; intros; lia.
    + destruct (find_exact r i); [rewrite orb_true_r; reflexivity|]. rewrite orb_false_r.
      destruct (Z.eqb_spec (ks i) (ks j)); [reflexivity|].
      rewrite (IHl Hl). symmetry. apply find_exact_none.
      eapply all_impl; [|exact Hal]. cbn; intros; lia.
Qed.

(* ---- the IntervalTree object: invariant, size, no duplicates *)
Definition it_inv (t : itree) := inv (fst t) /\ snd t = Z.of_nat (length (elements (fst t))) /\ NoDup (elements (fst t)).

Lemma it_empty_inv : it_inv it_empty.
Proof. repeat split; simpl; auto. constructor. Qed.

Lemma existsb_iv_In i l : existsb (iv_eqb i) l = true <-> In i l.
Proof.
  rewrite existsb_exists. split.
  - intros (x & Hx & E). apply iv_eqb_eq in E. subst; auto.
  - intros H. exists i. split; auto. apply iv_eqb_eq; reflexivity.
Qed.

Lemma it_insert_spec t i : it_inv t ->
  let '(t', b) := it_insert t i in
  it_inv t' /\ b = negb (existsb (iv_eqb i) (elements (fst t))) /\
  (if b then Permutation (elements (fst t')) (i :: elements (fst t)) else t' = t).
Proof.
  intros (Hi & Hs & Hn). unfold it_insert. rewrite (find_exact_spec _ _ Hi).
  destruct (existsb (iv_eqb i) (elements (fst t))) eqn:E.
  - repeat split; auto.
  - pose proof (insert_elements (fst t) i) as P.
    repeat split; cbn [fst snd]; auto using insert_inv.
    + rewrite (Permutation_length P). cbn [length]. lia.
    + eapply Permutation_NoDup; [symmetry; exact P|]. constructor; auto.
      intros Hin. apply existsb_iv_In in Hin. congruence.
Qed.
