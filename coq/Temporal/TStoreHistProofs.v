(* Histories that interleave Add and Coalesce on the temporal store model:
   the store invariant holds in every reachable state, coalescing never changes
   the set of instants at which an atom holds (compared with the same history
   without the Coalesce calls, no per-atom limit), and right after Coalesce(p)
   the finite intervals of every atom of predicate p are pairwise at distance
   >= 2. Definitions of the history machine live here (not in TStore.v): they
   only compose ts_add and ts_coalesce. *)
From Coq Require Import List ZArith Lia Bool Permutation Sorted.
From MV Require Import Temporal.ITree Temporal.ITreeProofs Temporal.TStore Temporal.CoalesceProofs
  Temporal.TStoreProofs Temporal.Semantics.
Import ListNotations.
Open Scope Z_scope.

Inductive op := OpAdd (a : atom) (i : iv) | OpCoalesce (p : Z).
Definition step_op (s : tstore) (o : op) : tstore :=
  match o with OpAdd a i => fst (ts_add s a i) | OpCoalesce p => ts_coalesce s p end.
Definition run_ops (lim : Z) (ops : list op) : tstore := fold_left step_op ops (ts_empty lim).
Definition is_add (o : op) : bool := match o with OpAdd _ _ => true | OpCoalesce _ => false end.
Definition drop_coalesce (ops : list op) : list op := filter is_add ops.
(* every finite interval handed to Add starts within int64 (validity is checked by Add itself) *)
Definition ops_in_range (ops : list op) :=
  forall a i, In (OpAdd a i) ops -> is_concrete i = true -> minInt64 <= ks i <= maxInt64.
(* atom a holds at instant t in store s *)
Definition holds_in (s : tstore) (a : atom) (t : Z) := exists i, In (a, i) (abs s) /\ contains i t = true.
(* every stored finite interval is valid and starts within int64 *)
Definition store_dom (s : tstore) :=
  forall a i, In (a, i) (abs s) -> is_concrete i = true -> ks i <= ke i /\ minInt64 <= ks i /\ ks i <= maxInt64.

(* ---- ts_coalesce as a map over the entries *)
Definition co_cond (p : Z) (e : atom * itree) : bool := (fst (fst e) =? p) && (1 <? snd (snd e)).
Definition co_entry (p : Z) (e : atom * itree) : atom * itree :=
  if co_cond p e then (fst e, it_rebuild (coalesce_intervals (elements (fst (snd e))))) else e.
Definition co_delta (p : Z) (e : atom * itree) : Z :=
  if co_cond p e
  then Z.of_nat (length (elements (fst (snd e)))) - Z.of_nat (length (coalesce_intervals (elements (fst (snd e)))))
  else 0.
Fixpoint sum_delta (p : Z) (es : list (atom * itree)) : Z :=
  match es with [] => 0 | e :: es' => co_delta p e + sum_delta p es' end.

Definition co_step (p : Z) (acc : list (atom * itree) * Z) (e : atom * itree) :=
  let '(a, t) := e in
  if (fst a =? p) && (1 <? snd t) then
    let ivs := elements (fst t) in
    let co := coalesce_intervals ivs in
    (fst acc ++ [(a, it_rebuild co)], snd acc - (Z.of_nat (length ivs) - Z.of_nat (length co)))
  else (fst acc ++ [e], snd acc).

Lemma ts_coalesce_unfold s p : ts_coalesce s p =
  let '(es, c) := fold_left (co_step p) (entries s) ([], count s) in
  {| entries := es; count := c; limit := limit s |}.
Proof. reflexivity. Qed.

Lemma co_step_eq p acc e : co_step p acc e = (fst acc ++ [co_entry p e], snd acc - co_delta p e).
Proof.
  destruct e as [a t]. unfold co_step, co_entry, co_delta, co_cond. cbn [fst snd].
  destruct ((fst a =? p) && (1 <? snd t)); [reflexivity|]. f_equal. lia.
Qed.

Lemma co_fold p es : forall acc,
  fold_left (co_step p) es acc = (fst acc ++ map (co_entry p) es, snd acc - sum_delta p es).
Proof.
  induction es as [|e es IH]; intros acc; cbn [fold_left map sum_delta].
  - rewrite app_nil_r, Z.sub_0_r. destruct acc; reflexivity.
  - rewrite IH, co_step_eq. cbn [fst snd]. rewrite <- app_assoc. cbn [app]. f_equal. lia.
Qed.

Lemma ts_coalesce_eq s p : ts_coalesce s p =
  {| entries := map (co_entry p) (entries s); count := count s - sum_delta p (entries s); limit := limit s |}.
Proof. rewrite ts_coalesce_unfold, co_fold. reflexivity. Qed.

(* ---- the coalesced list has no duplicates and stays in the domain *)
Lemma nodup_app {A} (a b : list A) : NoDup a -> NoDup b -> (forall x, In x a -> In x b -> False) -> NoDup (a ++ b).
Proof.
  intros Ha Hb Hd. induction Ha as [|x a Hx Ha IH]; simpl; auto. constructor.
  - rewrite in_app_iff. intros [H|H]; [auto|]. apply (Hd x); simpl; auto.
  - apply IH. intros y Hy. apply Hd. simpl; auto.
Qed.

Lemma nodup_filter {A} (f : A -> bool) l : NoDup l -> NoDup (filter f l).
Proof.
  induction 1 as [|x l Hx Hl IH]; simpl; [constructor|]. destruct (f x); auto.
  constructor; auto. intros H. apply filter_In in H. tauto.
Qed.

Lemma gap_sorted_nodup m : StronglySorted gap m -> Forall (fun p => fst p <= snd p) m -> NoDup m.
Proof.
  induction 1 as [|p m S IH F]; intros V; constructor; inversion V as [|? ? Hp Hm]; subst.
  - intros Hin. rewrite Forall_forall in F. specialize (F p Hin). unfold gap in F. lia.
  - apply IH. auto.
Qed.

Lemma nodup_map_of_se m : NoDup m -> NoDup (map of_se m).
Proof.
  induction 1 as [|p m Hn Hd IH]; simpl; constructor; auto.
  intros Hin. apply in_map_iff in Hin. destruct Hin as (q & E & Hq).
  assert (q = p) by (destruct p, q; unfold of_se in E; cbn [fst snd] in E; congruence).
  subst. auto.
Qed.

Lemma merge_range (lo hi : Z) rest : forall cur,
  Forall (fun p => lo <= fst p <= hi) (cur :: rest) -> Forall (fun p => lo <= fst p <= hi) (merge cur rest).
Proof.
  induction rest as [|x rest IH]; intros cur F; [rewrite merge_nil; auto|].
  rewrite merge_cons. inversion F as [|? ? Hc F']; subst. inversion F' as [|? ? Hx F'']; subst.
  destruct (adjacent cur x).
  - apply IH. constructor; auto.
  - constructor; auto.
Qed.

Lemma concrete_of_se p : is_concrete (of_se p) = true.
Proof. reflexivity. Qed.

Lemma coalesce_nodup_dom l : dom_ok l -> NoDup l -> NoDup (coalesce_intervals l) /\ dom_ok (coalesce_intervals l).
Proof.
  intros Hd Hn. unfold coalesce_intervals, coalesce_intervals_with. fold merge.
  destruct l as [|a [|b l']]; [auto|auto|]. remember (a :: b :: l') as l eqn:Hl. clear Hl.
  assert (Hno : NoDup (filter (fun i => negb (is_concrete i)) l)) by (apply nodup_filter; auto).
  assert (Hco : NoDup (filter is_concrete l)) by (apply nodup_filter; auto).
  assert (Hdo : dom_ok (filter (fun i => negb (is_concrete i)) l)).
  { intros i Hi. apply filter_In in Hi. apply Hd. tauto. }
  assert (Hdc : dom_ok (filter is_concrete l)).
  { intros i Hi. apply filter_In in Hi. apply Hd. tauto. }
  destruct (sort_by_start (map se (filter is_concrete l))) as [|c rest] eqn:Es; [auto|].
  destruct rest as [|d rest].
  - split.
    + apply nodup_app; auto. intros x H1 H2. apply filter_In in H1, H2.
      destruct H1 as [_ H1], H2 as [_ H2]. rewrite H1 in H2. discriminate.
    + intros i Hi. apply in_app_or in Hi. destruct Hi; [apply Hdc|apply Hdo]; auto.
  - destruct (sort_by_start_spec (map se (filter is_concrete l))) as [S P]. rewrite Es in S.
    destruct (sorted_okp l _ _ Hd Es) as [Hc Hok]. pose proof Hc as [Hcv [Hclo Hchi]].
    destruct (merge_gaps _ _ S Hclo Hcv Hok) as [G V].
    assert (R : Forall (fun p => minInt64 <= fst p <= maxInt64) (merge c (d :: rest))).
    { apply merge_range. eapply Forall_impl; [|exact (Forall_cons c Hc Hok)].
      intros q (_ & H1 & H2). lia. }
    split.
    + apply nodup_app; auto.
      * apply nodup_map_of_se. apply gap_sorted_nodup; auto.
      * intros x H1 H2. apply in_map_iff in H1. destruct H1 as (q & <- & _).
        apply filter_In in H2. destruct H2 as [_ H2]. rewrite concrete_of_se in H2. discriminate.
    + intros i Hi. apply in_app_or in Hi. destruct Hi as [Hi|Hi]; [|apply Hdo; auto].
      apply in_map_iff in Hi. destruct Hi as (q & <- & Hq). intros _.
      rewrite Forall_forall in V, R. specialize (V q Hq). specialize (R q Hq).
      unfold ks, ke, of_se. cbn [fst snd]. lia.
Qed.

(* ---- Rebuild of a duplicate-free list inserts every interval *)
Lemma rebuild_nodup_perm l : forall t, it_inv t -> NoDup l -> (forall i, In i l -> ~ In i (elements (fst t))) ->
  Permutation (elements (fst (fold_left (fun t i => fst (it_insert t i)) l t))) (l ++ elements (fst t)).
Proof.
  induction l as [|x l IH]; intros t Ht Hn Hd; cbn [fold_left]; [reflexivity|].
  inversion Hn as [|? ? Hx Hl]; subst.
  pose proof (it_insert_spec t x Ht) as R. destruct (it_insert t x) as [t1 b]. destruct R as (Ht1 & Hb & Hp).
  cbn [fst].
  assert (Eb : b = true).
  { rewrite Hb. apply negb_true_iff. destruct (existsb (iv_eqb x) (elements (fst t))) eqn:E; auto.
    apply existsb_iv_In in E. exfalso. apply (Hd x); simpl; auto. }
  rewrite Eb in Hp. clear Hb Eb.
  rewrite (IH t1 Ht1 Hl).
  - rewrite Hp. cbn [app]. symmetry. apply Permutation_middle.
  - intros i Hi Hin. apply (Permutation_in _ Hp) in Hin. destruct Hin as [<-|Hin]; [auto|].
    apply (Hd i); simpl; auto.
Qed.

Lemma it_rebuild_perm l : NoDup l -> Permutation (elements (fst (it_rebuild l))) l.
Proof.
  intros Hn. unfold it_rebuild. rewrite (rebuild_nodup_perm l it_empty it_empty_inv Hn).
  - simpl. rewrite app_nil_r. reflexivity.
  - simpl. auto.
Qed.
Lemma it_rebuild_inv l : it_inv (it_rebuild l).
Proof. exact (proj1 (rebuild_spec l it_empty it_empty_inv)). Qed.
Lemma it_rebuild_In l i : In i (elements (fst (it_rebuild l))) <-> In i l.
Proof.
  destruct (rebuild_spec l it_empty it_empty_inv) as (_ & E). unfold it_rebuild. rewrite E. simpl. tauto.
Qed.

(* ---- one entry *)
Definition entry_ok (e : atom * itree) := it_inv (snd e) /\ dom_ok (elements (fst (snd e))).

Lemma co_entry_spec p e : entry_ok e ->
  fst (co_entry p e) = fst e /\ entry_ok (co_entry p e) /\
  Z.of_nat (length (elements (fst (snd (co_entry p e))))) = Z.of_nat (length (elements (fst (snd e)))) - co_delta p e /\
  (forall t, covered_iv (elements (fst (snd (co_entry p e)))) t <-> covered_iv (elements (fst (snd e))) t).
Proof.
  intros [Hi Hd]. unfold co_entry, co_delta. destruct (co_cond p e).
  - cbn [fst snd]. destruct (coalesce_nodup_dom _ Hd (proj2 (proj2 Hi))) as [Hn Hd'].
    split; [reflexivity|]. split; [|split].
    + split; cbn [fst snd]; [apply it_rebuild_inv|].
      intros i Hin Hc. apply (proj1 (it_rebuild_In _ _)) in Hin. apply (Hd' i Hin Hc).
    + rewrite (Permutation_length (it_rebuild_perm _ Hn)). lia.
    + intros t. apply coalesce_tree_pointset; auto.
  - split; [reflexivity|]. split; [split; auto|]. split; [lia|tauto].
Qed.

(* ---- the content of a store through its entries *)
Lemma In_abs_entries a i es : In (a, i) (abs_entries es) <-> exists tr, In (a, tr) es /\ In i (elements (fst tr)).
Proof.
  unfold abs_entries. rewrite in_flat_map. split.
  - intros ([b u] & Hin & Ht). cbn [fst snd] in Ht. unfold tag in Ht. apply in_map_iff in Ht.
    destruct Ht as (j & E & Hj). injection E as E1 E2. subst. exists u. auto.
  - intros (tr & Hin & Hi). exists (a, tr). split; auto. cbn [fst snd]. unfold tag. apply in_map. auto.
Qed.

Lemma contains_iff i t : contains i t = true <-> ks i <= t <= ke i.
Proof. unfold contains. rewrite andb_true_iff, !Z.leb_le. tauto. Qed.

Lemma holds_entries s a t : holds_in s a t <-> exists tr, In (a, tr) (entries s) /\ covered_iv (elements (fst tr)) t.
Proof.
  unfold holds_in, abs, covered_iv. split.
  - intros (i & Hi & Hc). apply In_abs_entries in Hi. destruct Hi as (tr & Hin & Hi).
    exists tr. split; auto. exists i. split; auto. apply contains_iff; auto.
  - intros (tr & Hin & i & Hi & Hc). exists i. split; [apply In_abs_entries; exists tr; auto|apply contains_iff; auto].
Qed.

Lemma entries_ok s : store_inv s -> store_dom s -> Forall entry_ok (entries s).
Proof.
  intros (_ & Hi & _) Hd. apply Forall_forall. intros [a tr] Hin. split.
  - rewrite Forall_forall in Hi. apply (Hi _ Hin).
  - cbn [fst snd]. intros i Hi' Hc. apply (Hd a i); auto. apply In_abs_entries. exists tr. auto.
Qed.
Lemma dom_of_entries s : Forall entry_ok (entries s) -> store_dom s.
Proof.
  intros F a i Hin Hc. apply In_abs_entries in Hin. destruct Hin as (tr & Hin & Hi).
  rewrite Forall_forall in F. destruct (F _ Hin) as [_ Hd]. apply (Hd i); auto.
Qed.

Lemma length_abs_cons e es :
  Z.of_nat (length (abs_entries (e :: es))) = Z.of_nat (length (elements (fst (snd e)))) + Z.of_nat (length (abs_entries es)).
Proof. unfold abs_entries. cbn [flat_map]. rewrite app_length. unfold tag. rewrite map_length. lia. Qed.

Lemma co_entries_spec p es : Forall entry_ok es ->
  keys (map (co_entry p) es) = keys es /\ Forall entry_ok (map (co_entry p) es) /\
  Z.of_nat (length (abs_entries (map (co_entry p) es))) = Z.of_nat (length (abs_entries es)) - sum_delta p es.
Proof.
  induction 1 as [|e es He Hes (IH1 & IH2 & IH3)]; cbn [map sum_delta]; [repeat split; auto; simpl; lia|].
  destruct (co_entry_spec p e He) as (E1 & E2 & E3 & _).
  split; [unfold keys in *; cbn [map]; congruence|]. split; [constructor; auto|].
  rewrite !length_abs_cons. lia.
Qed.

(* ---- Coalesce keeps the invariant and the instants *)
Lemma ts_coalesce_inv s p : store_inv s -> store_dom s ->
  store_inv (ts_coalesce s p) /\ store_dom (ts_coalesce s p) /\ limit (ts_coalesce s p) = limit s.
Proof.
  intros Hs Hd. pose proof (entries_ok s Hs Hd) as F. destruct Hs as (Hk & Hi & Hc).
  destruct (co_entries_spec p _ F) as (K & F' & L). rewrite ts_coalesce_eq.
  split; [|split; [apply dom_of_entries; exact F'|reflexivity]].
  split; [|split]; cbn [entries count].
  - rewrite K. auto.
  - eapply Forall_impl; [|exact F']. intros e [H _]; auto.
  - unfold abs; cbn [entries]. rewrite L, Hc. reflexivity.
Qed.

Lemma holds_coalesce s p a t : store_inv s -> store_dom s ->
  (holds_in (ts_coalesce s p) a t <-> holds_in s a t).
Proof.
  intros Hs Hd. pose proof (entries_ok s Hs Hd) as F. rewrite Forall_forall in F.
  rewrite !holds_entries, ts_coalesce_eq. cbn [entries]. split.
  - intros (tr' & Hin & Hc). apply in_map_iff in Hin. destruct Hin as ([a0 tr0] & E & Hin0).
    destruct (co_entry_spec p _ (F _ Hin0)) as (E1 & _ & _ & C). rewrite E in E1, C. cbn [fst snd] in E1, C.
    subst a0. exists tr0. split; auto. apply C; auto.
  - intros (tr0 & Hin & Hc). destruct (co_entry_spec p _ (F _ Hin)) as (E1 & _ & _ & C).
    exists (snd (co_entry p (a, tr0))). split; [|apply C; auto].
    apply in_map_iff. exists (a, tr0). split; auto. rewrite (surjective_pairing (co_entry p (a, tr0))), E1. reflexivity.
Qed.

(* ---- Add keeps the invariant *)
Lemma spec_add_in S lim a i x : In x (fst (spec_add S lim a i)) -> In x S \/ (x = (a, i) /\ valid_iv i = true).
Proof.
  unfold spec_add. destruct (valid_iv i); cbn [negb]; [|auto].
  destruct ((0 <? lim) && (lim <=? count_atom a S)); [auto|].
  destruct (existsb (pair_eqb (a, i)) S); cbn [fst]; [auto|]. intros [<-|H]; auto.
Qed.
Lemma valid_concrete i : valid_iv i = true -> is_concrete i = true -> ks i <= ke i.
Proof. destruct i as [[s| |] [e| |]]; simpl; try discriminate. intros H _. apply Z.leb_le; auto. Qed.

Lemma ts_add_inv s a i : store_inv s -> store_dom s -> (is_concrete i = true -> minInt64 <= ks i <= maxInt64) ->
  store_inv (fst (ts_add s a i)) /\ store_dom (fst (ts_add s a i)) /\ limit (fst (ts_add s a i)) = limit s.
Proof.
  intros Hs Hd Hr. pose proof (ts_add_refines s a i Hs) as R. destruct (ts_add s a i) as [s' r].
  destruct R as (Hs' & Hl & _ & P). cbn [fst]. split; [auto|split; auto].
  intros b j Hin Hc. apply (Permutation_in _ P) in Hin. apply spec_add_in in Hin.
  destruct Hin as [Hin|[E V]]; [apply (Hd b j); auto|]. injection E as -> ->.
  split; [apply valid_concrete; auto|]. specialize (Hr Hc). lia.
Qed.

Definition reach_inv (lim : Z) (s : tstore) := store_inv s /\ store_dom s /\ limit s = lim.

Lemma ops_in_range_tail o ops : ops_in_range (o :: ops) -> ops_in_range ops.
Proof. intros H a i Hin. apply (H a i). simpl; auto. Qed.

Lemma step_op_inv lim s o : reach_inv lim s ->
  (forall a i, o = OpAdd a i -> is_concrete i = true -> minInt64 <= ks i <= maxInt64) -> reach_inv lim (step_op s o).
Proof.
  intros (Hs & Hd & Hl) Hr. destruct o as [a i|p]; cbn [step_op].
  - destruct (ts_add_inv s a i Hs Hd (Hr a i eq_refl)) as (H1 & H2 & H3). split; [exact H1|split; [exact H2|congruence]].
  - destruct (ts_coalesce_inv s p Hs Hd) as (H1 & H2 & H3). split; [exact H1|split; [exact H2|congruence]].
Qed.

Lemma fold_ops_inv lim ops : forall s, reach_inv lim s -> ops_in_range ops -> reach_inv lim (fold_left step_op ops s).
Proof.
  induction ops as [|o ops IH]; intros s Hs Hr; cbn [fold_left]; auto.
  apply IH; [|eapply ops_in_range_tail; eauto]. apply step_op_inv; auto.
  intros a i -> Hc. apply (Hr a i); simpl; auto.
Qed.

Lemma empty_reach_inv lim : reach_inv lim (ts_empty lim).
Proof.
  split; [|split; [|reflexivity]].
  - repeat split; simpl; constructor.
  - intros a i [].
Qed.

Theorem run_ops_inv lim ops : ops_in_range ops ->
  store_inv (run_ops lim ops) /\ store_dom (run_ops lim ops) /\ limit (run_ops lim ops) = lim.
Proof. intros Hr. apply fold_ops_inv; auto. apply empty_reach_inv. Qed.

Theorem mixed_history_inv lim ops : ops_in_range ops -> store_inv (run_ops lim ops).
Proof. intros Hr. apply (run_ops_inv lim ops Hr). Qed.

Lemma drop_coalesce_in_range ops : ops_in_range ops -> ops_in_range (drop_coalesce ops).
Proof. intros H a i Hin. apply (H a i). unfold drop_coalesce in Hin. apply filter_In in Hin. tauto. Qed.

(* ---- the instants: with a limit, as long as no Add is refused by the limit in either run *)
Fixpoint no_limit_refusal (s : tstore) (ops : list op) : Prop :=
  match ops with
  | [] => True
  | o :: ops' =>
      match o with OpAdd a i => snd (ts_add s a i) <> 3 | OpCoalesce _ => True end /\
      no_limit_refusal (step_op s o) ops'
  end.

Lemma spec_add_norefusal_in S lim a i x : snd (spec_add S lim a i) <> 3 ->
  (In x (fst (spec_add S lim a i)) <-> In x S \/ (valid_iv i = true /\ x = (a, i))).
Proof.
  unfold spec_add. destruct (valid_iv i); cbn [negb fst snd].
  - destruct ((0 <? lim) && (lim <=? count_atom a S)); cbn [fst snd]; [congruence|]. intros _.
    destruct (existsb (pair_eqb (a, i)) S) eqn:Ex; cbn [fst].
    + apply existsb_pair_In in Ex. split; [auto|]. intros [H|[_ ->]]; auto.
    + simpl. split; [intros [<-|H]; auto|intros [H|[_ ->]]; auto].
  - intros _. split; [auto|]. intros [H|[H _]]; [auto|discriminate].
Qed.

Lemma holds_add_norefusal s a i b t : store_inv s -> snd (ts_add s a i) <> 3 ->
  (holds_in (fst (ts_add s a i)) b t <-> holds_in s b t \/ (valid_iv i = true /\ b = a /\ contains i t = true)).
Proof.
  intros Hs. pose proof (ts_add_refines s a i Hs) as R. destruct (ts_add s a i) as [s' r].
  destruct R as (_ & _ & Er & P). cbn [fst snd]. rewrite Er. intros Hn. unfold holds_in. split.
  - intros (j & Hj & Hc). apply (Permutation_in _ P) in Hj. apply spec_add_norefusal_in in Hj; auto.
    destruct Hj as [Hj|[V E]]; [left; exists j; auto|]. injection E as -> ->. right. auto.
  - intros [(j & Hj & Hc)|(V & -> & Hc)].
    + exists j. split; auto. apply (Permutation_in _ (Permutation_sym P)). apply spec_add_norefusal_in; auto.
    + exists i. split; auto. apply (Permutation_in _ (Permutation_sym P)). apply spec_add_norefusal_in; auto.
Qed.

Lemma fold_ops_pointset_norefusal lim ops : forall s1 s2, reach_inv lim s1 -> reach_inv lim s2 -> ops_in_range ops ->
  no_limit_refusal s1 ops -> no_limit_refusal s2 (drop_coalesce ops) ->
  (forall a t, holds_in s1 a t <-> holds_in s2 a t) ->
  forall a t, holds_in (fold_left step_op ops s1) a t <-> holds_in (fold_left step_op (drop_coalesce ops) s2) a t.
Proof.
  induction ops as [|o ops IH]; intros s1 s2 H1 H2 Hr N1 N2 Heq; cbn [fold_left drop_coalesce filter]; [auto|].
  pose proof (ops_in_range_tail _ _ Hr) as Hr'.
  assert (Hro : forall a i, o = OpAdd a i -> is_concrete i = true -> minInt64 <= ks i <= maxInt64).
  { intros a i -> Hc. apply (Hr a i); simpl; auto. }
  pose proof (step_op_inv lim s1 o H1 Hro) as H1'.
  destruct o as [b i|p]; cbn [is_add fold_left]; cbn [no_limit_refusal drop_coalesce filter is_add] in N1, N2.
  - pose proof (step_op_inv lim s2 (OpAdd b i) H2 Hro) as H2'. destruct N1 as [R1 N1], N2 as [R2 N2].
    apply IH; auto. intros a t. cbn [step_op].
    destruct H1 as (I1 & _ & L1), H2 as (I2 & _ & L2).
    rewrite (holds_add_norefusal s1), (holds_add_norefusal s2) by auto. rewrite Heq. tauto.
  - destruct N1 as [_ N1]. apply IH; auto. intros a t. cbn [step_op].
    destruct H1 as (I1 & D1 & _). rewrite holds_coalesce; auto.
Qed.

Theorem coalesce_ops_pointset_norefusal_lemma lim ops a t : ops_in_range ops ->
  no_limit_refusal (ts_empty lim) ops -> no_limit_refusal (ts_empty lim) (drop_coalesce ops) ->
  (holds_in (run_ops lim ops) a t <-> holds_in (run_ops lim (drop_coalesce ops)) a t).
Proof.
  intros Hr N1 N2. unfold run_ops. apply (fold_ops_pointset_norefusal lim ops); auto using empty_reach_inv. tauto.
Qed.

(* without a limit no Add is ever refused by it *)
Lemma ts_add_nolimit s a i : limit s <= 0 -> snd (ts_add s a i) <> 3.
Proof.
  intros Hl. unfold ts_add. destruct (negb (valid_iv i)); cbn [snd]; [discriminate|].
  assert (E : (0 <? limit s) = false) by (apply Z.ltb_ge; lia). rewrite E. cbn [andb].
  destruct (it_insert _ i) as [t' []]; cbn [snd]; discriminate.
Qed.
Lemma step_op_limit s o : limit (step_op s o) = limit s.
Proof.
  destruct o as [a i|p]; cbn [step_op].
  - unfold ts_add. destruct (negb (valid_iv i)); [reflexivity|]. destruct (_ && _); [reflexivity|].
    destruct (it_insert _ i) as [t' []]; reflexivity.
  - rewrite ts_coalesce_eq. reflexivity.
Qed.
Lemma nolimit_norefusal ops : forall s, limit s <= 0 -> no_limit_refusal s ops.
Proof.
  induction ops as [|o ops IH]; intros s Hl; cbn [no_limit_refusal]; auto. split.
  - destruct o; auto. apply ts_add_nolimit; auto.
  - apply IH. rewrite step_op_limit. auto.
Qed.

Theorem coalesce_ops_pointset_lemma lim ops a t : lim <= 0 -> ops_in_range ops ->
  (holds_in (run_ops lim ops) a t <-> holds_in (run_ops lim (drop_coalesce ops)) a t).
Proof.
  intros Hl Hr. apply coalesce_ops_pointset_norefusal_lemma; auto; apply nolimit_norefusal; simpl; auto.
Qed.

(* ---- the history without Coalesce is a history of the Add-only machine of TStoreProofs *)
Definition adds_of (ops : list op) : list (atom * iv) :=
  flat_map (fun o => match o with OpAdd a i => [(a, i)] | OpCoalesce _ => [] end) ops.

Lemma run_ops_drop_coalesce lim ops : run_ops lim (drop_coalesce ops) = run_adds lim (adds_of ops).
Proof.
  unfold run_ops, run_adds. generalize (ts_empty lim).
  induction ops as [|[a i|p] ops IH]; intros s; cbn [drop_coalesce filter is_add adds_of flat_map app fold_left]; auto.
Qed.

Theorem mixed_history_set_machine_lemma lim ops a t : lim <= 0 -> ops_in_range ops ->
  (holds_in (run_ops lim ops) a t <-> exists i, In (a, i) (spec_run lim (adds_of ops)) /\ contains i t = true).
Proof.
  intros Hl Hr. rewrite (coalesce_ops_pointset_lemma lim ops a t Hl Hr), run_ops_drop_coalesce.
  destruct (tstore_refines lim (adds_of ops)) as (_ & _ & P). unfold holds_in.
  split; intros (i & Hi & Hc); exists i; split; auto.
  - apply (Permutation_in _ P); auto.
  - apply (Permutation_in _ (Permutation_sym P)); auto.
Qed.

(* ---- right after Coalesce(p): finite intervals of an atom of p are separated *)
Lemma in_two_split {A} (x y : A) l : In x l -> In y l -> x <> y ->
  exists l1 l2 l3, l = l1 ++ x :: l2 ++ y :: l3 \/ l = l1 ++ y :: l2 ++ x :: l3.
Proof.
  intros Hx Hy Hn. apply in_split in Hx. destruct Hx as (l1 & l2 & ->).
  apply in_app_or in Hy. destruct Hy as [Hy|[Hy|Hy]]; [|congruence|].
  - apply in_split in Hy. destruct Hy as (m1 & m2 & ->). exists m1, m2, l2. right.
    rewrite <- app_assoc. reflexivity.
  - apply in_split in Hy. destruct Hy as (m1 & m2 & ->). exists l1, m1, m2. left. reflexivity.
Qed.

Lemma in_entries_unique a t1 t2 es : NoDup (keys es) -> In (a, t1) es -> In (a, t2) es -> t1 = t2.
Proof.
  induction es as [|[b u] es IH]; simpl; [tauto|]. intros Hn. inversion Hn as [|? ? Hb Hn']; subst.
  assert (K : forall t', In (a, t') es -> In a (keys es)) by (intros t' H; apply in_map_iff; exists (a, t'); auto).
  intros [E1|H1] [E2|H2].
  - congruence.
  - injection E1 as -> ->. exfalso. apply Hb. eapply K; eauto.
  - injection E2 as -> ->. exfalso. apply Hb. eapply K; eauto.
  - auto.
Qed.

Lemma length_le_one {A} (l : list A) x y : (length l <= 1)%nat -> In x l -> In y l -> x = y.
Proof. destruct l as [|z [|w l]]; simpl; intros H; try lia; intuition congruence. Qed.

Theorem coalesce_step_separated s p a i j : store_inv s -> store_dom s -> fst a = p ->
  In (a, i) (abs (ts_coalesce s p)) -> In (a, j) (abs (ts_coalesce s p)) ->
  is_concrete i = true -> is_concrete j = true -> i <> j -> ke i + 1 < ks j \/ ke j + 1 < ks i.
Proof.
  intros Hs Hd Hp Hi Hj Ci Cj Hne. pose proof (entries_ok s Hs Hd) as F. rewrite Forall_forall in F.
  destruct (ts_coalesce_inv s p Hs Hd) as ((Hk' & _ & _) & _ & _).
  unfold abs in Hi, Hj. apply In_abs_entries in Hi, Hj. destruct Hi as (ti & Hti & Hi), Hj as (tj & Htj & Hj).
  assert (tj = ti) by (eapply in_entries_unique; eauto). subst tj. clear Htj Hk'.
  rewrite ts_coalesce_eq in Hti. cbn [entries] in Hti. apply in_map_iff in Hti.
  destruct Hti as ([a0 t0] & E & Hin0). destruct (F _ Hin0) as [(Hinv & Hsz & Hnd) Hdom]. cbn [fst snd] in *.
  unfold co_entry, co_cond in E. cbn [fst snd] in E.
  destruct (Z.ltb_spec 1 (snd t0)) as [Hlen|Hlen].
  - assert (E' : a0 = a /\ ti = it_rebuild (coalesce_intervals (elements (fst t0)))).
    { destruct (fst a0 =? p) eqn:Ep; cbn [andb] in E; injection E as E1 E2; subst; auto.
      apply Z.eqb_neq in Ep. congruence. }
    destruct E' as [-> ->]. apply (proj1 (it_rebuild_In _ _)) in Hi. apply (proj1 (it_rebuild_In _ _)) in Hj.
    assert (Hi' : In i (filter is_concrete (coalesce_intervals (elements (fst t0))))) by (apply filter_In; auto).
    assert (Hj' : In j (filter is_concrete (coalesce_intervals (elements (fst t0))))) by (apply filter_In; auto).
    destruct (in_two_split i j _ Hi' Hj' Hne) as (l1 & l2 & l3 & [El|El]).
    + left. eapply (coalesce_separated_lemma _ Hdom); eauto. lia.
    + right. eapply (coalesce_separated_lemma _ Hdom); eauto. lia.
  - rewrite andb_false_r in E. injection E as -> ->. exfalso. apply Hne.
    apply (length_le_one (elements (fst ti))); auto. lia.
Qed.

Theorem coalesced_state_separated_lemma lim ops p a i j : ops_in_range ops -> fst a = p ->
  In (a, i) (abs (run_ops lim (ops ++ [OpCoalesce p]))) -> In (a, j) (abs (run_ops lim (ops ++ [OpCoalesce p]))) ->
  is_concrete i = true -> is_concrete j = true -> i <> j -> ke i + 1 < ks j \/ ke j + 1 < ks i.
Proof.
  intros Hr. unfold run_ops. rewrite fold_left_app. cbn [fold_left step_op]. fold (run_ops lim ops).
  destruct (run_ops_inv lim ops Hr) as (Hs & Hd & _). apply coalesce_step_separated; auto.
Qed.

(* ---- the query theorems apply to every reachable state of a mixed history *)
Theorem mixed_history_point_query lim ops q t : ops_in_range ops ->
  ts_facts_at (run_ops lim ops) q t =
  filter (fun x : atom * iv => matches q (fst x) && contains (snd x) t) (abs (run_ops lim ops)).
Proof. intros Hr. apply facts_at_exact. apply mixed_history_inv; auto. Qed.
Theorem mixed_history_range_query lim ops q i : ops_in_range ops ->
  ts_facts_during (run_ops lim ops) q i =
  filter (fun x : atom * iv => matches q (fst x) && overlaps (snd x) (ks i) (ke i)) (abs (run_ops lim ops)).
Proof. intros Hr. apply facts_during_exact. apply mixed_history_inv; auto. Qed.
Theorem mixed_history_scan lim ops q : ops_in_range ops ->
  ts_all_facts (run_ops lim ops) q = filter (fun x : atom * iv => matches q (fst x) && true) (abs (run_ops lim ops)).
Proof. intros Hr. apply all_facts_exact. apply mixed_history_inv; auto. Qed.

(* ---- pointwise reading: every stored interval is one ast.NewInterval can produce *)
Definition ops_wf (ops : list op) := forall a i, In (OpAdd a i) ops -> wf_iv i.
Definition store_wf (s : tstore) := forall a i, In (a, i) (abs s) -> wf_iv i.

Lemma coalesce_in l i : In i (coalesce_intervals l) -> In i l \/ is_concrete i = true.
Proof.
  unfold coalesce_intervals, coalesce_intervals_with. fold merge.
  destruct l as [|a [|b l']]; [auto|auto|]. remember (a :: b :: l') as l eqn:Hl. clear Hl.
  destruct (sort_by_start (map se (filter is_concrete l))) as [|c [|d rest]].
  - intros H. apply filter_In in H. tauto.
  - intros H. apply in_app_or in H. destruct H as [H|H]; apply filter_In in H; tauto.
  - intros H. apply in_app_or in H. destruct H as [H|H].
    + apply in_map_iff in H. destruct H as (q & <- & _). right. reflexivity.
    + apply filter_In in H. tauto.
Qed.
Lemma concrete_wf i : is_concrete i = true -> wf_iv i.
Proof. destruct i as [[s| |] [e| |]]; simpl; try discriminate. intros _. split; discriminate. Qed.

Lemma ts_coalesce_wf s p : store_wf s -> store_wf (ts_coalesce s p).
Proof.
  intros Hw a i Hin. unfold abs in Hin. rewrite ts_coalesce_eq in Hin. cbn [entries] in Hin.
  apply In_abs_entries in Hin. destruct Hin as (tr & Hin & Hi). apply in_map_iff in Hin.
  destruct Hin as ([a0 t0] & E & Hin0). unfold co_entry in E. destruct (co_cond p (a0, t0)); cbn [fst snd] in E.
  - injection E as -> <-. apply (proj1 (it_rebuild_In _ _)) in Hi. apply coalesce_in in Hi.
    destruct Hi as [Hi|Hi]; [|apply concrete_wf; auto].
    apply (Hw a i). apply In_abs_entries. exists t0. auto.
  - injection E as -> ->. apply (Hw a i). apply In_abs_entries. exists tr. auto.
Qed.

Lemma ts_add_wf s a i : store_inv s -> store_wf s -> wf_iv i -> store_wf (fst (ts_add s a i)).
Proof.
  intros Hs Hw Hi. pose proof (ts_add_refines s a i Hs) as R. destruct (ts_add s a i) as [s' r].
  destruct R as (_ & _ & _ & P). cbn [fst]. intros b j Hin. apply (Permutation_in _ P) in Hin.
  apply spec_add_in in Hin. destruct Hin as [Hin|[E _]]; [apply (Hw b j); auto|]. injection E as -> ->. auto.
Qed.

Lemma fold_ops_wf lim ops : forall s, reach_inv lim s -> store_wf s -> ops_in_range ops -> ops_wf ops ->
  store_wf (fold_left step_op ops s).
Proof.
  induction ops as [|o ops IH]; intros s Hs Hw Hr Hf; cbn [fold_left]; auto.
  assert (Hro : forall a i, o = OpAdd a i -> is_concrete i = true -> minInt64 <= ks i <= maxInt64).
  { intros a i -> Hc. apply (Hr a i); simpl; auto. }
  apply IH.
  - apply step_op_inv; auto.
  - destruct o as [a i|p]; cbn [step_op].
    + apply ts_add_wf; auto; [apply Hs|]. apply (Hf a i). simpl; auto.
    + apply ts_coalesce_wf; auto.
  - eapply ops_in_range_tail; eauto.
  - intros a i Hin. apply (Hf a i). simpl; auto.
Qed.

Theorem run_ops_wf lim ops : ops_in_range ops -> ops_wf ops -> store_wf (run_ops lim ops).
Proof. intros Hr Hf. apply (fold_ops_wf lim); auto using empty_reach_inv. intros a i []. Qed.

Theorem mixed_history_point_query_pointwise_lemma lim ops q t a i :
  ops_in_range ops -> ops_wf ops -> minInt64 <= t <= maxInt64 ->
  (In (a, i) (ts_facts_at (run_ops lim ops) q t) <->
   In (a, i) (abs (run_ops lim ops)) /\ matches q a = true /\ holds_at i t).
Proof.
  intros Hr Hf Ht. rewrite (mixed_history_point_query lim ops q t Hr), filter_In. cbn [fst snd].
  rewrite andb_true_iff. split.
  - intros (Hin & Hm & Hc). split; [auto|split; [auto|]].
    apply (contains_holds_at i t); auto. apply (run_ops_wf lim ops Hr Hf a i Hin).
  - intros (Hin & Hm & Hh). split; [auto|split; [auto|]].
    apply (contains_holds_at i t); auto. apply (run_ops_wf lim ops Hr Hf a i Hin).
Qed.
