(* Store-level refinement: for every insertion history the temporal store
   model answers point, range and scan queries by filtering the set of accepted
   (atom, interval) pairs; Add follows the set semantics with validity,
   duplicate and per-atom limit rules; the pair count is exact. *)
From Coq Require Import List ZArith Lia Bool Permutation.
From MV Require Import Temporal.ITree Temporal.ITreeProofs Temporal.TStore Temporal.CoalesceProofs.
Import ListNotations.
Open Scope Z_scope.

Lemma list_eqb_eq a b : list_eqb a b = true <-> a = b.
Proof.
  revert b. induction a as [|x a IH]; destruct b as [|y b]; simpl; try (split; congruence).
  rewrite andb_true_iff, Z.eqb_eq, IH. split; [intros []; subst; auto|intros [=]; auto].
Qed.
Lemma atom_eqb_eq a b : atom_eqb a b = true <-> a = b.
Proof.
  destruct a, b. unfold atom_eqb. simpl. rewrite andb_true_iff, Z.eqb_eq, list_eqb_eq.
  split; [intros []; subst; auto|intros [=]; auto].
Qed.
Lemma atom_eqb_refl a : atom_eqb a a = true. Proof. apply atom_eqb_eq; reflexivity. Qed.
Lemma atom_eqb_neq a b : atom_eqb a b = false <-> a <> b.
Proof. rewrite <- atom_eqb_eq. destruct (atom_eqb a b); split; congruence. Qed.

(* the abstract content of a store: all stored pairs *)
Definition abs_entries (es : list (atom * itree)) : list (atom * iv) :=
  flat_map (fun e : atom * itree => tag (fst e) (elements (fst (snd e)))) es.
Definition abs (s : tstore) := abs_entries (entries s).
Definition keys (es : list (atom * itree)) := map fst es.
Definition store_inv (s : tstore) :=
  NoDup (keys (entries s)) /\ Forall (fun e : atom * itree => it_inv (snd e)) (entries s) /\
  count s = Z.of_nat (length (abs s)).

(* ---- queries are filters over the content *)
Lemma filter_tag (P : atom * iv -> bool) a l : filter P (tag a l) = tag a (filter (fun i => P (a, i)) l).
Proof. unfold tag. induction l as [|i l IH]; simpl; auto. destruct (P (a, i)); simpl; rewrite IH; auto. Qed.

Lemma for_matching_filter q s (f : tree -> list iv) (P : iv -> bool) :
  Forall (fun e : atom * itree => f (fst (snd e)) = filter P (elements (fst (snd e)))) (entries s) ->
  for_matching q s f = filter (fun x : atom * iv => matches q (fst x) && P (snd x)) (abs s).
Proof.
  unfold for_matching, abs, abs_entries. induction (entries s) as [|[a t] es IH]; intros H; [reflexivity|].
  inversion H as [|? ? Ha Hes]; subst. cbn [flat_map fst snd] in *. rewrite filter_app, <- IH by auto. f_equal.
  rewrite filter_tag. cbn [fst snd]. destruct (matches q a); cbn [andb].
  - rewrite Ha. reflexivity.
  - clear. induction (elements (fst t)); simpl; auto.
Qed.

Theorem facts_at_exact s q t : store_inv s ->
  ts_facts_at s q t = filter (fun x : atom * iv => matches q (fst x) && contains (snd x) t) (abs s).
Proof.
  intros (_ & Hi & _). unfold ts_facts_at. apply (for_matching_filter q s _ (fun i => contains i t)).
  eapply Forall_impl; [|exact Hi].
  intros [a tr] (H & _). cbn [fst snd] in *. apply qpoint_exact; auto.
Qed.
Theorem facts_during_exact s q i : store_inv s ->
  ts_facts_during s q i = filter (fun x : atom * iv => matches q (fst x) && overlaps (snd x) (ks i) (ke i)) (abs s).
Proof.
  intros (_ & Hi & _). unfold ts_facts_during. apply (for_matching_filter q s _ (fun j => overlaps j (ks i) (ke i))).
  eapply Forall_impl; [|exact Hi].
  intros [a tr] (H & _). cbn [fst snd] in *. apply qrange_exact; auto.
Qed.
Theorem all_facts_exact s q : store_inv s ->
  ts_all_facts s q = filter (fun x : atom * iv => matches q (fst x) && true) (abs s).
Proof.
  intros (_ & Hi & _). unfold ts_all_facts. apply (for_matching_filter q s _ (fun _ => true)).
  eapply Forall_impl; [|exact Hi].
  intros [a tr] _. cbn [fst snd]. clear. induction (elements (fst tr)); simpl; auto. f_equal; auto.
Qed.

(* ---- association list facts *)
Lemma lookup_None a es : lookup a es = None <-> ~ In a (keys es).
Proof.
  induction es as [|[b t] es IH]; simpl; [tauto|].
  destruct (atom_eqb a b) eqn:E.
  - apply atom_eqb_eq in E. subst. split; [discriminate|]. intros H; exfalso; apply H; auto.
  - apply atom_eqb_neq in E. rewrite IH. split; [intros H [->|H']; auto|intros H H'; apply H; auto].
Qed.
Lemma keys_update a t es : keys (update a t es) = if existsb (atom_eqb a) (keys es) then keys es else keys es ++ [a].
Proof.
  induction es as [|[b u] es IH]; simpl; auto. destruct (atom_eqb a b) eqn:E; simpl; auto.
  rewrite IH. destruct (existsb (atom_eqb a) (keys es)); auto.
Qed.
Lemma existsb_keys a es : existsb (atom_eqb a) (keys es) = true <-> In a (keys es).
Proof.
  rewrite existsb_exists. split; [intros (x & Hx & E); apply atom_eqb_eq in E; subst; auto|].
  intros H; exists a; split; auto using atom_eqb_refl.
Qed.
Lemma nodup_keys_update a t es : NoDup (keys es) -> NoDup (keys (update a t es)).
Proof.
  intros H. rewrite keys_update. destruct (existsb (atom_eqb a) (keys es)) eqn:E; auto.
  assert (Hn : ~ In a (keys es)) by (intros Hin; apply existsb_keys in Hin; congruence).
  clear E. induction (keys es) as [|k ks0 IHk]; simpl; [constructor; auto; constructor|].
  inversion H; subst. constructor.
  - rewrite in_app_iff. simpl. intros [?|[?|[]]]; [auto|subst; apply Hn; simpl; auto].
  - apply IHk; auto. intros Hin; apply Hn; simpl; auto.
Qed.
Lemma forall_update (P : atom * itree -> Prop) a t es :
  Forall P es -> (forall b, a = b -> P (b, t)) -> Forall P (update a t es).
Proof.
  intros H Ht. induction es as [|[b u] es IH]; simpl.
  - constructor; auto.
  - inversion H; subst. destruct (atom_eqb a b) eqn:E; constructor; auto.
    apply Ht. apply atom_eqb_eq; auto.
Qed.
Lemma lookup_inv es a t : Forall (fun e : atom * itree => it_inv (snd e)) es -> lookup a es = Some t -> it_inv t.
Proof.
  induction es as [|[b u] es IH]; simpl; [discriminate|]. intros H. inversion H; subst.
  destruct (atom_eqb a b); [intros [= <-]; auto|auto].
Qed.

Definition cur_tree a es := match lookup a es with Some t => t | None => it_empty end.

Lemma abs_update_same a es : abs_entries (update a (cur_tree a es) es) = abs_entries es.
Proof.
  unfold cur_tree. induction es as [|[b u] es IH]; simpl; auto.
  destruct (atom_eqb a b) eqn:E; simpl; auto. f_equal. exact IH.
Qed.
Lemma abs_update_perm a es t' i :
  Permutation (elements (fst t')) (i :: elements (fst (cur_tree a es))) ->
  Permutation (abs_entries (update a t' es)) ((a, i) :: abs_entries es).
Proof.
  unfold cur_tree. induction es as [|[b u] es IH]; simpl; intros P.
  - rewrite app_nil_r. unfold tag. rewrite P. reflexivity.
  - destruct (atom_eqb a b) eqn:E; simpl.
    + apply atom_eqb_eq in E. subst b. unfold tag at 1. rewrite P. reflexivity.
    + rewrite (IH P). symmetry. apply Permutation_middle.
Qed.

(* number of stored intervals of one atom *)
Definition count_atom (a : atom) (S : list (atom * iv)) : Z :=
  Z.of_nat (length (filter (fun x => atom_eqb a (fst x)) S)).

Lemma filter_tag_other a b l : atom_eqb a b = false -> filter (fun x : atom * iv => atom_eqb a (fst x)) (tag b l) = [].
Proof. intros E. induction l; simpl; auto. rewrite E; auto. Qed.
Lemma filter_tag_self a l : filter (fun x : atom * iv => atom_eqb a (fst x)) (tag a l) = tag a l.
Proof. induction l; simpl; auto. rewrite atom_eqb_refl. f_equal; auto. Qed.
Lemma filter_abs_notin a es : ~ In a (keys es) -> filter (fun x : atom * iv => atom_eqb a (fst x)) (abs_entries es) = [].
Proof.
  induction es as [|[b u] es IH]; simpl; auto. intros H. rewrite filter_app, IH by tauto.
  rewrite filter_tag_other; auto. apply atom_eqb_neq. intros ->. apply H; auto.
Qed.
Lemma count_atom_tree a es : NoDup (keys es) ->
  count_atom a (abs_entries es) = Z.of_nat (length (elements (fst (cur_tree a es)))).
Proof.
  unfold count_atom, cur_tree. induction es as [|[b u] es IH]; simpl; auto. intros H. inversion H; subst.
  rewrite filter_app. destruct (atom_eqb a b) eqn:E.
  - apply atom_eqb_eq in E. subst b. rewrite filter_tag_self, filter_abs_notin, app_nil_r by auto.
    unfold tag. rewrite map_length. reflexivity.
  - rewrite filter_tag_other by auto. simpl. auto.
Qed.
Lemma In_abs_tree a i es : NoDup (keys es) -> (In (a, i) (abs_entries es) <-> In i (elements (fst (cur_tree a es)))).
Proof.
  unfold cur_tree. induction es as [|[b u] es IH]; simpl; [tauto|]. intros H. inversion H; subst.
  rewrite in_app_iff. destruct (atom_eqb a b) eqn:E.
  - apply atom_eqb_eq in E. subst b. split.
    + intros [Hi|Hi]; [unfold tag in Hi; apply in_map_iff in Hi; destruct Hi as (j & [= <-] & Hj); auto|].
      exfalso. unfold abs_entries in Hi. apply in_flat_map in Hi. destruct Hi as ([c w] & Hc & Hi).
      unfold tag in Hi. apply in_map_iff in Hi. destruct Hi as (j & [= <- <-] & _).
      match goal with Hn : ~ In _ (keys es) |- _ => apply Hn end. apply in_map_iff. exists (c, w); auto.
    + intros Hi. left. unfold tag. apply in_map. auto.
  - rewrite <- IH by auto. split; [intros [Hi|Hi]; auto|auto].
    unfold tag in Hi. apply in_map_iff in Hi. destruct Hi as (j & [= <- <-] & _).
    rewrite atom_eqb_refl in E. discriminate.
Qed.

(* ---- Add against the set specification *)
Definition pair_eqb (x y : atom * iv) := atom_eqb (fst x) (fst y) && iv_eqb (snd x) (snd y).
Definition spec_add (S : list (atom * iv)) (lim : Z) (a : atom) (i : iv) : list (atom * iv) * Z :=
  if negb (valid_iv i) then (S, 2)
  else if (0 <? lim) && (lim <=? count_atom a S) then (S, 3)
  else if existsb (pair_eqb (a, i)) S then (S, 1)
  else ((a, i) :: S, 0).

Lemma existsb_pair_In x S : existsb (pair_eqb x) S = true <-> In x S.
Proof.
  rewrite existsb_exists. split.
  - intros (y & Hy & E). unfold pair_eqb in E. apply andb_true_iff in E. destruct E as [E1 E2].
    apply atom_eqb_eq in E1. apply iv_eqb_eq in E2. destruct x, y; simpl in *; subst; auto.
  - intros H. exists x. split; auto. unfold pair_eqb. rewrite atom_eqb_refl. simpl. apply iv_eqb_eq; auto.
Qed.

Theorem ts_add_refines s a i : store_inv s ->
  let '(s', r) := ts_add s a i in
  store_inv s' /\ limit s' = limit s /\
  r = snd (spec_add (abs s) (limit s) a i) /\
  Permutation (abs s') (fst (spec_add (abs s) (limit s) a i)).
Proof.
  intros (Hk & Hi & Hc). unfold ts_add, spec_add.
  destruct (valid_iv i); cbn [negb]; [|repeat split; auto].
  fold (cur_tree a (entries s)).
  assert (Hct : it_inv (cur_tree a (entries s))).
  { unfold cur_tree. destruct (lookup a (entries s)) eqn:E; [eapply lookup_inv; eauto|apply it_empty_inv]. }
  assert (Hsz : snd (cur_tree a (entries s)) = count_atom a (abs s)).
  { unfold abs. rewrite count_atom_tree by auto. apply Hct. }
  rewrite Hsz.
  assert (Hsame : store_inv {| entries := update a (cur_tree a (entries s)) (entries s); count := count s; limit := limit s |}).
  { repeat split; cbn [entries count limit].
    - apply nodup_keys_update; auto.
    - apply forall_update; auto.
    - unfold abs; cbn [entries]. rewrite abs_update_same. exact Hc. }
  destruct ((0 <? limit s) && (limit s <=? count_atom a (abs s))).
  { repeat split; try apply Hsame. unfold abs; cbn [entries fst]. rewrite abs_update_same. reflexivity. }
  pose proof (it_insert_spec (cur_tree a (entries s)) i Hct) as Hins.
  destruct (it_insert (cur_tree a (entries s)) i) as [t' added]. destruct Hins as (Ht' & Hadd & Hperm).
  assert (Hex : existsb (pair_eqb (a, i)) (abs s) = existsb (iv_eqb i) (elements (fst (cur_tree a (entries s))))).
  { apply eq_true_iff_eq. rewrite existsb_pair_In, existsb_iv_In. apply In_abs_tree; auto. }
  rewrite Hex. rewrite Hadd. destruct (existsb (iv_eqb i) (elements (fst (cur_tree a (entries s))))); cbn [negb fst snd].
  - repeat split; try apply Hsame. unfold abs; cbn [entries]. rewrite abs_update_same. reflexivity.
  - rewrite Hadd in Hperm. cbn [negb] in Hperm.
    assert (P : Permutation (abs_entries (update a t' (entries s))) ((a, i) :: abs s)) by (apply abs_update_perm; auto).
    repeat split; cbn [entries count limit]; auto.
    + apply nodup_keys_update; auto.
    + apply forall_update; auto.
    + unfold abs at 1; cbn [entries]. rewrite (Permutation_length P). cbn [length]. rewrite Hc. lia.
Qed.

(* ---- whole histories *)
Definition run_adds (lim : Z) (h : list (atom * iv)) : tstore :=
  fold_left (fun s x => fst (ts_add s (fst x) (snd x))) h (ts_empty lim).
Definition spec_run (lim : Z) (h : list (atom * iv)) : list (atom * iv) :=
  fold_left (fun S x => fst (spec_add S lim (fst x) (snd x))) h [].

Lemma count_atom_perm a S S' : Permutation S S' -> count_atom a S = count_atom a S'.
Proof.
  intros P. unfold count_atom. f_equal. induction P; simpl; auto; try congruence.
  - destruct (atom_eqb a (fst x)); simpl; auto.
  - destruct (atom_eqb a (fst x)), (atom_eqb a (fst y)); simpl; auto.
Qed.
Lemma existsb_perm {A} (f : A -> bool) S S' : Permutation S S' -> existsb f S = existsb f S'.
Proof.
  intros P. induction P as [|x l l' P IH|x y l|l l' l'' P1 IH1 P2 IH2]; simpl;
    [reflexivity|rewrite IH; reflexivity|destruct (f x), (f y); reflexivity|congruence].
Qed.
Lemma spec_add_perm S S' lim a i : Permutation S S' ->
  snd (spec_add S lim a i) = snd (spec_add S' lim a i) /\
  Permutation (fst (spec_add S lim a i)) (fst (spec_add S' lim a i)).
Proof.
  intros P. unfold spec_add. rewrite (count_atom_perm a _ _ P), (existsb_perm _ _ _ P).
  destruct (negb (valid_iv i)); [auto|]. destruct (_ && _); [auto|]. destruct (existsb _ S'); simpl; auto.
Qed.

Theorem tstore_refines lim h :
  let s := run_adds lim h in
  store_inv s /\ limit s = lim /\ Permutation (abs s) (spec_run lim h).
Proof.
  unfold run_adds, spec_run.
  assert (G : forall h s S, store_inv s -> limit s = lim -> Permutation (abs s) S ->
    let s' := fold_left (fun s x => fst (ts_add s (fst x) (snd x))) h s in
    store_inv s' /\ limit s' = lim /\
    Permutation (abs s') (fold_left (fun S x => fst (spec_add S lim (fst x) (snd x))) h S)).
  { clear h. induction h as [|x h IH]; intros s S Hs Hl P; cbn [fold_left]; [auto|].
    pose proof (ts_add_refines s (fst x) (snd x) Hs) as R.
    destruct (ts_add s (fst x) (snd x)) as [s1 r]. destruct R as (Hs1 & Hl1 & _ & P1). cbn [fst].
    apply IH; auto; [congruence|]. rewrite P1, Hl. apply spec_add_perm; auto. }
  apply G; [|reflexivity|reflexivity].
  repeat split; simpl; constructor.
Qed.

(* every result of Add along a history is the set machine's *)
Theorem add_result_refines lim h a i :
  snd (ts_add (run_adds lim h) a i) = snd (spec_add (spec_run lim h) lim a i).
Proof.
  destruct (tstore_refines lim h) as (Hs & Hl & P).
  pose proof (ts_add_refines _ a i Hs) as R. destruct (ts_add (run_adds lim h) a i) as [s' r].
  destruct R as (_ & _ & -> & _). cbn [snd]. rewrite Hl. apply spec_add_perm; auto.
Qed.

(* ---- rebuild after coalescing keeps exactly the given intervals *)
Lemma rebuild_spec l : forall t, it_inv t ->
  let t' := fold_left (fun t i => fst (it_insert t i)) l t in
  it_inv t' /\ forall i, In i (elements (fst t')) <-> In i l \/ In i (elements (fst t)).
Proof.
  induction l as [|x l IH]; intros t Ht; cbn [fold_left]; [split; [auto|intros; simpl; tauto]|].
  pose proof (it_insert_spec t x Ht) as R. destruct (it_insert t x) as [t1 b]. destruct R as (Ht1 & Hb & Hp).
  cbn [fst]. destruct (IH t1 Ht1) as (I & E). split; auto. intros i. rewrite E. cbn [In].
  destruct b.
  - split; [intros [H|H]; auto; apply (Permutation_in _ Hp) in H; destruct H; auto|].
    intros [[<-|H]|H]; auto; right; apply (Permutation_in _ (Permutation_sym Hp)); simpl; auto.
  - subst t1. symmetry in Hb. apply negb_false_iff in Hb. apply existsb_iv_In in Hb.
    split; [tauto|]. intros [[<-|H]|H]; auto.
Qed.

Theorem coalesce_tree_pointset t tt : it_inv t -> dom_ok (elements (fst t)) ->
  (covered_iv (elements (fst (it_rebuild (coalesce_intervals (elements (fst t)))))) tt <-> covered_iv (elements (fst t)) tt).
Proof.
  intros Ht Hd. rewrite <- (coalesce_pointset_lemma _ tt Hd).
  destruct (rebuild_spec (coalesce_intervals (elements (fst t))) it_empty it_empty_inv) as (_ & E).
  unfold it_rebuild, covered_iv. split; intros (i & Hi & Hc); exists i; split; auto; apply E in Hi || apply E; simpl in *; tauto.
Qed.
