(* The sentinels MinInt64/MaxInt64 used as keys for unbounded ends are adequate:
   on int64 instants, key comparison coincides with the pointwise meaning of a
   closed interval whose ends may be infinite. *)
From Coq Require Import List ZArith Lia Bool.
From MV Require Import Temporal.ITree.
Open Scope Z_scope.

Definition after_start (b : bound) (t : Z) : Prop := match b with Ts s => s <= t | NegInf => True | PosInf => False end.
Definition before_end (b : bound) (t : Z) : Prop := match b with Ts e => t <= e | PosInf => True | NegInf => False end.
Definition holds_at (i : iv) (t : Z) : Prop := after_start (fst i) t /\ before_end (snd i) t.
(* what ast.NewInterval can produce: start is a timestamp or -inf, end a timestamp or +inf *)
Definition wf_iv (i : iv) : Prop := fst i <> PosInf /\ snd i <> NegInf.

Lemma contains_holds_at i t : wf_iv i -> minInt64 <= t <= maxInt64 -> (contains i t = true <-> holds_at i t).
Proof.
  destruct i as [[s| |] [e| |]]; unfold wf_iv, contains, holds_at, ks, ke; cbn [fst snd after_start before_end];
    intros [H1 H2] Ht; try congruence; rewrite andb_true_iff, !Z.leb_le; lia.
Qed.
