(* Model of engine/temporal.go: temporal operators, interval annotations and
   head-interval resolution, evaluated against a temporal store given by its
   specification (the list of stored (atom, interval) pairs; Props/C13.v ties
   the interval-tree store to that list: GetFactsDuring = filter overlaps,
   GetAllFacts = all pairs). Executable definitions only; proofs are in
   OperatorsProofs.v. Times are Unix nanoseconds (int64). *)
From Coq Require Import List ZArith Bool.
From MV Require Import Temporal.ITree.
Import ListNotations.
Open Scope Z_scope.

(* ---- terms, atoms, substitutions *)
Inductive cst := CName (z : Z) | CNum (z : Z) | CTime (z : Z).
Inductive term := TVar (v : Z) | TCst (c : cst) | TWild.
Definition tatom := (Z * list cst)%type.          (* predicate id, ground arguments *)
Definition fact := (tatom * iv)%type.             (* one stored pair *)
Definition subst := list (Z * cst).

(* ast.Constant.Equals: the type tag and the payload *)
Definition cst_eqb (a b : cst) : bool :=
  match a, b with
  | CName x, CName y => x =? y
  | CNum x, CNum y => x =? y
  | CTime x, CTime y => x =? y
  | _, _ => false
  end.

Fixpoint lookup_var (v : Z) (s : subst) : option cst :=
  match s with
  | [] => None
  | (w, c) :: s' => if v =? w then Some c else lookup_var v s'
  end.

(* unionfind.UnifyTermsExtend of one variable with one constant *)
Definition unify_var (v : Z) (c : cst) (s : subst) : option subst :=
  match lookup_var v s with
  | Some c0 => if cst_eqb c0 c then Some s else None
  | None => Some ((v, c) :: s)
  end.

(* functional.EvalAtom followed by unionfind.UnifyTermsExtend(atom.Args,
   fact.Args, subst): the wildcard is skipped, constants must be equal, a
   variable is looked up or bound *)
Fixpoint unify (ts : list term) (cs : list cst) (s : subst) {struct ts} : option subst :=
  match ts, cs with
  | [], [] => Some s
  | t :: ts', c :: cs' =>
      match t with
      | TWild => unify ts' cs' s
      | TCst c0 => if cst_eqb c0 c then unify ts' cs' s else None
      | TVar v => match unify_var v c s with Some s' => unify ts' cs' s' | None => None end
      end
  | _, _ => None
  end.

(* ---- bounds as they occur in programs (ast.TemporalBound) *)
Inductive pbound :=
| BTs (z : Z) | BVar (v : Z) | BNegInf | BPosInf | BNow | BDur (d : Z).
Definition pinterval := (pbound * pbound)%type.

Definition wrap64 (z : Z) : Z := (z + 2 ^ 63) mod 2 ^ 64 - 2 ^ 63.

(* ast.NewInterval (ast/temporal.go:330): silently repairs wrong infinities *)
Definition new_pinterval (s e : pbound) : pinterval :=
  ((match s with BPosInf => BNegInf | _ => s end),
   (match e with BNegInf => BPosInf | _ => e end)).

(* factstore.GetStartTime / GetEndTime on an arbitrary bound (default 0) *)
Definition get_start (i : pinterval) : Z :=
  match fst i with BTs z => z | BNegInf => minInt64 | BPosInf => maxInt64 | _ => 0 end.
Definition get_end (i : pinterval) : Z :=
  match snd i with BTs z => z | BPosInf => maxInt64 | BNegInf => minInt64 | _ => 0 end.

(* resolveBound (engine/temporal.go:265). time.Time.Add is exact, UnixNano
   wraps; -duration wraps at MinInt64. *)
Definition resolve_bound (now : Z) (is_past : bool) (b : pbound) : pbound :=
  match b with
  | BDur d => BTs (wrap64 (now + (if is_past then wrap64 (- d) else d)))
  | BNow => BTs now
  | _ => b
  end.

(* resolveOperatorInterval (:247): past operators swap the two bounds *)
Definition resolve_past (now : Z) (w : pinterval) : pinterval :=
  new_pinterval (resolve_bound now true (snd w)) (resolve_bound now true (fst w)).
(* resolveFutureOperatorInterval (:420) *)
Definition resolve_future (now : Z) (w : pinterval) : pinterval :=
  new_pinterval (resolve_bound now false (fst w)) (resolve_bound now false (snd w)).

(* intervalContains (:299): a = a stored interval, b = the query interval *)
Definition interval_contains (a : iv) (b : pinterval) : bool :=
  (match fst a with
   | Ts sa => match fst b with
              | BTs sb => sa <=? sb
              | BNegInf => false
              | _ => true
              end
   | _ => true
   end) &&
  (match snd a with
   | Ts ea => match snd b with
              | BTs eb => eb <=? ea
              | BPosInf => false
              | _ => true
              end
   | _ => true
   end).

(* ast.Interval.Contains(t) (ast/temporal.go:387) on a stored interval *)
Definition iv_contains_time (i : iv) (t : Z) : bool :=
  (match fst i with Ts s => s <=? t | NegInf => true | PosInf => false end) &&
  (match snd i with Ts e => t <=? e | PosInf => true | NegInf => false end).

(* ---- head / annotation resolution: ResolveHeadTime (:497) with
   resolveBoundWithSubst (:519). None = an error is returned. *)
Definition resolve_bound_subst (now : Z) (s : subst) (b : pbound) : option pbound :=
  match b with
  | BTs z => Some (BTs z)
  | BVar v => match lookup_var v s with
              | Some (CNum n) => Some (BTs n)
              | Some (CTime n) => Some (BTs n)
              | _ => None
              end
  | BNegInf => Some BNegInf
  | BPosInf => Some BPosInf
  | BNow => Some (BTs now)
  | BDur _ => None
  end.

Definition resolve_head_time (now : Z) (s : subst) (h : pinterval) : option pinterval :=
  match resolve_bound_subst now s (fst h), resolve_bound_subst now s (snd h) with
  | Some a, Some b => Some (new_pinterval a b)
  | _, _ => None
  end.

(* a resolved interval contains timestamps and infinities only *)
Definition to_bound (b : pbound) : bound :=
  match b with BTs z => Ts z | BNegInf => NegInf | BPosInf => PosInf | _ => Ts 0 end.
Definition to_iv (i : pinterval) : iv := (to_bound (fst i), to_bound (snd i)).

(* ---- bindIntervalVariables (:437): a failing unification is ignored *)
Definition bind_one (b : pbound) (nano : Z) (s : subst) : subst :=
  match b with
  | BVar v => match unify_var v (CTime nano) s with Some s' => s' | None => s end
  | _ => s
  end.
Definition bind_interval (q : pinterval) (f : iv) (s : subst) : subst :=
  bind_one (snd q) (ke f) (bind_one (fst q) (ks f) s).
Definition bind_ann (ann : option pinterval) (f : iv) (s : subst) : subst :=
  match ann with Some q => bind_interval q f s | None => s end.

(* ---- the store specification and its three queries *)
Definition of_pred (p : Z) (St : list fact) : list fact :=
  filter (fun f : fact => fst (fst f) =? p) St.
(* GetFactsDuring: IntervalTree.QueryRange(GetStartTime q, GetEndTime q) *)
Definition facts_during (St : list fact) (p : Z) (q : pinterval) : list fact :=
  filter (fun f : fact => overlaps (snd f) (get_start q) (get_end q)) (of_pred p St).

(* facts that unify, each with the extended substitution *)
Definition unifying (ts : list term) (s : subst) (l : list fact) : list (fact * subst) :=
  flat_map (fun f : fact => match unify ts (snd (fst f)) s with Some s' => [(f, s')] | None => [] end) l.

(* ---- the four operators. Each is split in two steps: the facts that pass
   (with the substitution after unification), then the annotation binding. *)
Definition diamond_facts (St : list fact) (q : pinterval) (p : Z) (ts : list term) (s : subst) :=
  unifying ts s (facts_during St p q).
Definition box_facts (St : list fact) (q : pinterval) (p : Z) (ts : list term) (s : subst) :=
  filter (fun fs : fact * subst => interval_contains (snd (fst fs)) q) (unifying ts s (of_pred p St)).

Definition finish (ann : option pinterval) (l : list (fact * subst)) : list subst :=
  map (fun fs : fact * subst => bind_ann ann (snd (fst fs)) (snd fs)) l.

(* evalDiamondMinus (:161) / evalBoxMinus (:203) / evalDiamondPlus (:336) / evalBoxPlus (:377) *)
Definition eval_diamond_minus now St w p ts ann s := finish ann (diamond_facts St (resolve_past now w) p ts s).
Definition eval_box_minus now St w p ts ann s := finish ann (box_facts St (resolve_past now w) p ts s).
Definition eval_diamond_plus now St w p ts ann s := finish ann (diamond_facts St (resolve_future now w) p ts s).
Definition eval_box_plus now St w p ts ann s := finish ann (box_facts St (resolve_future now w) p ts s).

(* evalTemporalAtomWithoutOperator (:84) *)
Definition plain_facts (now : Z) (St : list fact) (p : Z) (ts : list term) (ann : option pinterval) (s : subst)
  : list (fact * subst) :=
  match ann with
  | None => unifying ts s (filter (fun f : fact => iv_contains_time (snd f) now) (of_pred p St))
  | Some a =>
      match resolve_head_time now s a with
      | Some q => unifying ts s (filter (fun f : fact => interval_contains (snd f) q) (facts_during St p q))
      | None => unifying ts s (of_pred p St)
      end
  end.
Definition eval_plain now St p ts ann s := finish ann (plain_facts now St p ts ann s).

(* ---- literals, rules *)
Inductive opkind := DiamondMinus | BoxMinus | DiamondPlus | BoxPlus.
Record tlit := { t_op : option (opkind * pinterval); t_pred : Z; t_args : list term; t_ann : option pinterval }.
Record rule := { r_pred : Z; r_args : list term; r_time : option pinterval; r_prem : list tlit }.

(* EvalTemporalLiteral (:47) *)
Definition eval_tlit (now : Z) (St : list fact) (l : tlit) (s : subst) : list subst :=
  match t_op l with
  | None => eval_plain now St (t_pred l) (t_args l) (t_ann l) s
  | Some (DiamondMinus, w) => eval_diamond_minus now St w (t_pred l) (t_args l) (t_ann l) s
  | Some (BoxMinus, w) => eval_box_minus now St w (t_pred l) (t_args l) (t_ann l) s
  | Some (DiamondPlus, w) => eval_diamond_plus now St w (t_pred l) (t_args l) (t_ann l) s
  | Some (BoxPlus, w) => eval_box_plus now St w (t_pred l) (t_args l) (t_ann l) s
  end.

(* the premise loop of oneStepEvalClause (engine/seminaivebottomup.go:736) *)
Fixpoint solve (now : Z) (St : list fact) (prems : list tlit) (sols : list subst) : list subst :=
  match prems with
  | [] => sols
  | l :: prems' => solve now St prems' (flat_map (eval_tlit now St l) sols)
  end.

Fixpoint inst_args (ts : list term) (s : subst) : option (list cst) :=
  match ts with
  | [] => Some []
  | t :: ts' =>
      match (match t with TCst c => Some c | TVar v => lookup_var v s | TWild => None end), inst_args ts' s with
      | Some c, Some cs => Some (c :: cs)
      | _, _ => None
      end
  end.

(* a derived fact: the instantiated head and its resolved interval (None = the
   head has no annotation: a plain fact) *)
Definition derived := (tatom * option iv)%type.

(* outcome of the head part of oneStepEvalClause for one solution:
   inl d = derived fact, inr code = failure (1 = head interval not
   resolvable: Go returns an error; 2 = head not ground) *)
Definition derive_one (now : Z) (r : rule) (s : subst) : derived + Z :=
  match inst_args (r_args r) s with
  | None => inr 2
  | Some cs =>
      match r_time r with
      | None => inl ((r_pred r, cs), None)
      | Some h => match resolve_head_time now s h with
                  | Some q => inl ((r_pred r, cs), Some (to_iv q))
                  | None => inr 1
                  end
      end
  end.

Fixpoint derive_all (now : Z) (r : rule) (sols : list subst) : list derived + Z :=
  match sols with
  | [] => inl []
  | s :: sols' =>
      match derive_one now r s, derive_all now r sols' with
      | inl d, inl ds => inl (d :: ds)
      | inr c, _ => inr c
      | _, inr c => inr c
      end
  end.

Definition eval_rule (now : Z) (St : list fact) (r : rule) : list derived + Z :=
  derive_all now r (solve now St (r_prem r) [[]]).

(* ---- whole programs: the rules are monotone in the store, the engine's
   semi-naive rounds (with HeadTime kept on delta rules) and the naive
   iteration below reach the same least fixed point. State = temporal pairs
   and plain atoms. TemporalStore.Add refuses exact duplicates and intervals
   with start > end (an error that aborts the evaluation: code 3). *)
Fixpoint clist_eqb (a b : list cst) : bool :=
  match a, b with
  | [], [] => true
  | x :: a', y :: b' => cst_eqb x y && clist_eqb a' b'
  | _, _ => false
  end.
Definition tatom_eqb (a b : tatom) : bool := (fst a =? fst b) && clist_eqb (snd a) (snd b).
Definition fact_eqb (a b : fact) : bool := tatom_eqb (fst a) (fst b) && iv_eqb (snd a) (snd b).
Definition valid_iv (i : iv) : bool := match i with (Ts s, Ts e) => s <=? e | _ => true end.

Definition state := (list fact * list tatom)%type.

Fixpoint add_derived (st : state) (ds : list derived) : state * bool * Z :=   (* state, changed, error code *)
  match ds with
  | [] => (st, false, 0)
  | (a, Some i) :: ds' =>
      if negb (valid_iv i) then (st, false, 3) else
      if existsb (fact_eqb (a, i)) (fst st) then add_derived st ds'
      else let '(st', _, e) := add_derived (fst st ++ [(a, i)], snd st) ds' in (st', true, e)
  | (a, None) :: ds' =>
      if existsb (tatom_eqb a) (snd st) then add_derived st ds'
      else let '(st', _, e) := add_derived (fst st, snd st ++ [a]) ds' in (st', true, e)
  end.

Fixpoint round (now : Z) (rules : list rule) (st : state) : state * bool * Z :=
  match rules with
  | [] => (st, false, 0)
  | r :: rules' =>
      match eval_rule now (fst st) r with
      | inr c => (st, false, c)
      | inl ds =>
          let '(st1, ch1, e1) := add_derived st ds in
          if negb (e1 =? 0) then (st1, ch1, e1) else
          let '(st2, ch2, e2) := round now rules' st1 in (st2, ch1 || ch2, e2)
      end
  end.

(* error code 9 = out of fuel (excluded by the callers: fuel exceeds the
   number of possible facts of the tiny universes used) *)
Fixpoint iterate (fuel : nat) (now : Z) (rules : list rule) (st : state) : state * Z :=
  match fuel with
  | O => (st, 9)
  | Datatypes.S fuel' =>
      let '(st', ch, e) := round now rules st in
      if negb (e =? 0) then (st', e) else
      if ch then iterate fuel' now rules st' else (st', 0)
  end.

Definition eval_program (fuel : nat) (now : Z) (edb : list fact) (rules : list rule) : state * Z :=
  iterate fuel now rules (edb, []).
