(* coalesceIntervals (factstore/temporal.go:328): the set of instants is
   unchanged and the finite intervals of the result are pairwise at distance
   >= 2, for every input whose finite intervals are valid and start within
   int64 (MinInt64 included since fix N13: `Start-1` is only computed when it
   cannot wrap; the test before the fix is refuted below). *)
From Coq Require Import List ZArith Lia Bool Permutation Sorted.
From MV Require Import Temporal.ITree Temporal.TStore.
Import ListNotations.
Open Scope Z_scope.

Definition covered (l : list (Z * Z)) (t : Z) := exists p, In p l /\ fst p <= t <= snd p.
Definition covered_iv (l : list iv) (t : Z) := exists i, In i l /\ ks i <= t <= ke i.
Definition le_start (a b : Z * Z) := fst a <= fst b.
Definition int64 (z : Z) := minInt64 <= z <= maxInt64.

Lemma wrap64_id z : int64 z -> wrap64 z = z.
Proof. unfold int64, wrap64, minInt64, maxInt64. intros H. rewrite Z.mod_small; lia. Qed.

(* ---- sorting *)
Lemma ins_sorted_perm x l : Permutation (ins_sorted x l) (x :: l).
Proof.
  induction l as [|y l IH]; simpl; auto. destruct (fst x <? fst y); auto.
  rewrite IH. apply perm_swap.
Qed.
Lemma ins_sorted_sorted x l : StronglySorted le_start l -> StronglySorted le_start (ins_sorted x l).
Proof.
  induction l as [|y l IH]; simpl; intros H.
  - repeat constructor.
  - inversion H as [|? ? Hs Hf]; subst. destruct (Z.ltb_spec (fst x) (fst y)).
    + constructor; auto. constructor; [unfold le_start; lia|].
      eapply Forall_impl; [|exact Hf]. unfold le_start; intros; lia.
    + constructor; auto.
      eapply Permutation_Forall; [symmetry; apply ins_sorted_perm|].
      constructor; [unfold le_start; lia|auto].
Qed.
Lemma sort_aux_spec l acc : StronglySorted le_start acc ->
  StronglySorted le_start (fold_left (fun a x => ins_sorted x a) l acc) /\
  Permutation (fold_left (fun a x => ins_sorted x a) l acc) (l ++ acc).
Proof.
  revert acc. induction l as [|x l IH]; simpl; intros acc H; [auto|].
  destruct (IH (ins_sorted x acc) (ins_sorted_sorted _ _ H)) as [S P]. split; auto.
  rewrite P, ins_sorted_perm. symmetry. apply Permutation_middle.
Qed.
Lemma sort_by_start_spec l : StronglySorted le_start (sort_by_start l) /\ Permutation (sort_by_start l) l.
Proof.
  destruct (sort_aux_spec l [] (SSorted_nil _)) as [S P]. split; auto.
  unfold sort_by_start. rewrite P, app_nil_r. reflexivity.
Qed.

(* ---- the merge loop on any sorted input *)
Definition okp (p : Z * Z) := fst p <= snd p /\ minInt64 <= fst p /\ fst p <= maxInt64.

(* the repaired test never wraps: with a valid `cur` that starts within int64
   it is the mathematical `x starts at most one past the end of cur` *)
Lemma adjacent_spec cur x : minInt64 <= fst cur -> fst cur <= snd cur -> fst x <= maxInt64 ->
  adjacent cur x = (fst x - 1 <=? snd cur).
Proof.
  intros Hlo Hv Hhi. unfold adjacent.
  destruct (Z.leb_spec (fst x) (snd cur)) as [H|H]; cbn [orb].
  - symmetry. apply Z.leb_le. lia.
  - rewrite wrap64_id by (unfold int64, minInt64, maxInt64 in *; lia).
    destruct (Z.eqb_spec (fst x - 1) (snd cur)); symmetry; [apply Z.leb_le|apply Z.leb_gt]; lia.
Qed.

Lemma merge_cons cur x rest : merge cur (x :: rest) =
  if adjacent cur x then merge (fst cur, Z.max (snd cur) (snd x)) rest else cur :: merge x rest.
Proof. reflexivity. Qed.
Lemma merge_nil cur : merge cur [] = [cur].
Proof. reflexivity. Qed.

Lemma merge_cover rest : forall cur t,
  StronglySorted le_start (cur :: rest) -> minInt64 <= fst cur -> fst cur <= snd cur -> Forall okp rest ->
  (covered (merge cur rest) t <-> covered (cur :: rest) t).
Proof.
  induction rest as [|x rest IH]; intros cur t Hs Hlo Hc Hok; [reflexivity|].
  inversion Hs as [|? ? Hs' Hf]; subst. inversion Hf as [|? ? Hx Hf']; subst.
  inversion Hs' as [|? ? Hs'' Hfx]; subst.
  inversion Hok as [|? ? [Hxv [Hxlo Hxhi]] Hok']; subst.
  rewrite merge_cons, (adjacent_spec cur x Hlo Hc Hxhi).
  unfold le_start in Hx.
  destruct (Z.leb_spec (fst x - 1) (snd cur)).
  - assert (S2 : StronglySorted le_start ((fst cur, Z.max (snd cur) (snd x)) :: rest)).
    { constructor; auto. }
    assert (V2 : fst (fst cur, Z.max (snd cur) (snd x)) <= snd (fst cur, Z.max (snd cur) (snd x))) by (cbn [fst snd]; lia).
    rewrite (IH _ t S2 Hlo V2 Hok').
    unfold covered. split.
    + intros (p & [<-|Hp] & Ht); cbn [fst snd] in *.
      * destruct (Z_le_gt_dec t (snd cur)).
        -- exists cur. simpl; split; auto; lia.
        -- exists x. simpl; split; auto; lia.
      * exists p. simpl; auto.
    + intros (p & [<-|[<-|Hp]] & Ht).
      * exists (fst cur, Z.max (snd cur) (snd x)). simpl; split; auto; lia.
      * exists (fst cur, Z.max (snd cur) (snd x)). simpl; split; auto; lia.
      * exists p. simpl; auto.
  - unfold covered. split.
    + intros (p & [<-|Hp] & Ht).
      * exists cur; simpl; auto.
      * assert (covered (merge x rest) t) as Hc' by (exists p; auto).
        apply IH in Hc'; auto. destruct Hc' as (q & Hq & Hqt). exists q; simpl; auto.
    + intros (p & [<-|Hp] & Ht).
      * exists cur; simpl; auto.
      * assert (covered (x :: rest) t) as Hc' by (exists p; auto).
        apply IH in Hc'; auto. destruct Hc' as (q & Hq & Hqt). exists q; simpl; auto.
Qed.

Lemma merge_starts rest : forall cur, StronglySorted le_start (cur :: rest) ->
  Forall (fun p => fst cur <= fst p) (merge cur rest).
Proof.
  induction rest as [|x rest IH]; intros cur Hs; [rewrite merge_nil; repeat constructor; lia|].
  inversion Hs as [|? ? Hs' Hf]; subst. inversion Hf as [|? ? Hx Hf']; subst.
  inversion Hs' as [|? ? Hs'' Hfx]; subst. unfold le_start in Hx.
  rewrite merge_cons. destruct (adjacent cur x).
  - apply (IH (fst cur, Z.max (snd cur) (snd x))). constructor; auto.
  - constructor; [lia|]. eapply Forall_impl; [|apply IH; auto]. cbn; intros; lia.
Qed.

Definition gap (a b : Z * Z) := snd a + 1 < fst b.

Lemma merge_gaps rest : forall cur,
  StronglySorted le_start (cur :: rest) -> minInt64 <= fst cur -> fst cur <= snd cur -> Forall okp rest ->
  StronglySorted gap (merge cur rest) /\ Forall (fun p => fst p <= snd p) (merge cur rest).
Proof.
  induction rest as [|x rest IH]; intros cur Hs Hlo Hc Hok.
  - rewrite merge_nil. split; repeat constructor; auto.
  - inversion Hs as [|? ? Hs' Hf]; subst. inversion Hf as [|? ? Hx Hf']; subst.
    inversion Hs' as [|? ? Hs'' Hfx]; subst.
    inversion Hok as [|? ? [Hxv [Hxlo Hxhi]] Hok']; subst.
    rewrite merge_cons, (adjacent_spec cur x Hlo Hc Hxhi).
    unfold le_start in Hx.
    destruct (Z.leb_spec (fst x - 1) (snd cur)).
    + apply IH; auto; [|cbn [fst snd]; lia].
      constructor; auto.
    + destruct (IH x Hs' Hxlo Hxv Hok') as [G V]. split; [|constructor; auto].
      constructor; auto. eapply Forall_impl; [|apply merge_starts; exact Hs'].
      unfold gap; cbn; intros; lia.
Qed.

(* ---- coalesce_intervals *)
Definition dom_ok (l : list iv) :=
  forall i, In i l -> is_concrete i = true -> ks i <= ke i /\ minInt64 <= ks i /\ ks i <= maxInt64.

Lemma is_concrete_se i : is_concrete i = true -> of_se (se i) = i.
Proof. destruct i as [[s| |] [e| |]]; simpl; try discriminate. reflexivity. Qed.

Lemma covered_iv_app a b t : covered_iv (a ++ b) t <-> covered_iv a t \/ covered_iv b t.
Proof.
  unfold covered_iv. split.
  - intros (i & Hi & Ht). apply in_app_or in Hi. destruct Hi; [left|right]; exists i; auto.
  - intros [(i & Hi & Ht)|(i & Hi & Ht)]; exists i; split; auto; apply in_or_app; auto.
Qed.
Lemma covered_split (l : list iv) t :
  covered_iv l t <-> covered_iv (filter is_concrete l) t \/ covered_iv (filter (fun i => negb (is_concrete i)) l) t.
Proof.
  unfold covered_iv. split.
  - intros (i & Hi & Ht). destruct (is_concrete i) eqn:E; [left|right]; exists i; split; auto;
    apply filter_In; rewrite ?E; auto.
  - intros [(i & Hi & Ht)|(i & Hi & Ht)]; apply filter_In in Hi; exists i; tauto.
Qed.
Lemma covered_map_of_se l t : covered_iv (map of_se l) t <-> covered l t.
Proof.
  unfold covered_iv, covered. split.
  - intros (i & Hi & Ht). apply in_map_iff in Hi. destruct Hi as (p & <- & Hp). exists p. auto.
  - intros (p & Hp & Ht). exists (of_se p). split; [apply in_map; auto|auto].
Qed.
Lemma covered_map_se l t : covered (map se l) t <-> covered_iv l t.
Proof.
  unfold covered_iv, covered. split.
  - intros (p & Hp & Ht). apply in_map_iff in Hp. destruct Hp as (i & <- & Hi). exists i. auto.
  - intros (i & Hi & Ht). exists (se i). split; [apply in_map; auto|auto].
Qed.
Lemma covered_perm a b t : Permutation a b -> covered a t -> covered b t.
Proof. intros P (p & Hp & Ht). exists p. split; auto. eapply Permutation_in; eauto. Qed.

Lemma sorted_okp l c rest : dom_ok l -> sort_by_start (map se (filter is_concrete l)) = c :: rest ->
  okp c /\ Forall okp rest.
Proof.
  intros Hd E. destruct (sort_by_start_spec (map se (filter is_concrete l))) as [_ P]. rewrite E in P.
  assert (Forall okp (c :: rest)) as F.
  { eapply Permutation_Forall; [symmetry; exact P|]. apply Forall_forall. intros p Hp.
    apply in_map_iff in Hp. destruct Hp as (i & <- & Hi). apply filter_In in Hi. destruct Hi as [Hi Hc].
    exact (Hd i Hi Hc). }
  inversion F; auto.
Qed.

Theorem coalesce_pointset_lemma l t : dom_ok l -> (covered_iv (coalesce_intervals l) t <-> covered_iv l t).
Proof.
  intros Hd. unfold coalesce_intervals, coalesce_intervals_with. fold merge.
  destruct l as [|a [|b l']]; [reflexivity|reflexivity|]. remember (a :: b :: l') as l eqn:Hl. clear Hl.
  rewrite (covered_split l t).
  destruct (sort_by_start (map se (filter is_concrete l))) as [|c rest] eqn:E.
  - destruct (sort_by_start_spec (map se (filter is_concrete l))) as [_ P]. rewrite E in P.
    apply Permutation_nil in P. apply map_eq_nil in P. rewrite P.
    split; [auto|]. intros [(i & [] & _)|H]; auto.
  - destruct rest as [|d rest]; [rewrite covered_iv_app; reflexivity|].
    destruct (sort_by_start_spec (map se (filter is_concrete l))) as [S P]. rewrite E in S, P.
    destruct (sorted_okp l _ _ Hd E) as [[Hcv [Hclo _]] Hok].
    rewrite covered_iv_app, covered_map_of_se, (merge_cover _ _ _ S Hclo Hcv Hok).
    rewrite <- (covered_map_se (filter is_concrete l) t).
    split; (intros [H|H]; [left|right; auto]).
    + exact (covered_perm _ _ t P H).
    + exact (covered_perm _ _ t (Permutation_sym P) H).
Qed.

Lemma filter_length_le {A} (f : A -> bool) l : (length (filter f l) <= length l)%nat.
Proof. induction l as [|a l IH]; simpl; auto. destruct (f a); simpl; lia. Qed.
Lemma filter_conc_other l : filter is_concrete (filter (fun i => negb (is_concrete i)) l) = [].
Proof. induction l as [|i l IH]; simpl; auto. destruct (is_concrete i) eqn:E; simpl; auto. rewrite E; auto. Qed.

Theorem coalesce_separated_lemma l : dom_ok l ->
  forall l1 x l2 y l3, filter is_concrete (coalesce_intervals l) = l1 ++ x :: l2 ++ y :: l3 ->
  2 <= Z.of_nat (length l) -> ke x + 1 < ks y.
Proof.
  intros Hd l1 x l2 y l3 E Hlen. unfold coalesce_intervals, coalesce_intervals_with in E. fold merge in E.
  destruct l as [|a [|b l']]; [simpl in Hlen; lia|simpl in Hlen; lia|]. clear Hlen. remember (a :: b :: l') as l eqn:Hl. clear Hl.
  pose proof (filter_conc_other l) as Hno.
  destruct (sort_by_start (map se (filter is_concrete l))) as [|c rest] eqn:Es.
  - rewrite Hno in E. destruct l1; discriminate.
  - destruct rest as [|d rest].
    + rewrite filter_app, Hno, app_nil_r in E.
      destruct (sort_by_start_spec (map se (filter is_concrete l))) as [_ P]. rewrite Es in P.
      apply Permutation_length in P. rewrite map_length in P. cbn [length] in P.
      pose proof (filter_length_le is_concrete (filter is_concrete l)) as H.
      apply (f_equal (@length iv)) in E. rewrite app_length in E. cbn [length] in E.
      rewrite app_length in E. cbn [length] in E. lia.
    + destruct (sort_by_start_spec (map se (filter is_concrete l))) as [S P]. rewrite Es in S.
      destruct (sorted_okp l _ _ Hd Es) as [[Hcv [Hclo _]] Hok].
      destruct (merge_gaps _ _ S Hclo Hcv Hok) as [G _].
      rewrite filter_app, Hno, app_nil_r in E.
      assert (Hall : forall m, filter is_concrete (map of_se m) = map of_se m).
      { induction m; simpl; auto. f_equal; auto. }
      rewrite Hall in E.
      remember (merge c (d :: rest)) as m. clear - G E.
      revert l1 E. induction G as [|p m G IH F]; intros l1 E; [destruct l1; discriminate|].
      destruct l1 as [|z l1]; simpl in E; injection E as E1 E2.
      * subst x. rewrite Forall_forall in F.
        assert (In y (map of_se m)) as Hy by (rewrite E2; apply in_or_app; right; simpl; auto).
        apply in_map_iff in Hy. destruct Hy as (q & <- & Hq). specialize (F q Hq). unfold gap in F. exact F.
      * eapply IH; eauto.
Qed.

(* N13: before the fix the adjacency test wrapped at MinInt64 and two
   overlapping intervals that both start at MinInt64 stayed apart *)
Lemma coalesce_minint_refuted_lemma :
  coalesce_intervals_prefix [(Ts minInt64, Ts 5); (Ts minInt64, Ts 9)] = [(Ts minInt64, Ts 5); (Ts minInt64, Ts 9)].
Proof. vm_compute. reflexivity. Qed.

(* the pre-fix loop agrees with the repaired one on every pair that starts after MinInt64 *)
Lemma adjacent_prefix_agrees_lemma cur x : minInt64 <= fst cur -> fst cur <= snd cur ->
  minInt64 < fst x -> fst x <= maxInt64 -> adjacent_prefix cur x = adjacent cur x.
Proof.
  intros Hlo Hv Hxlo Hxhi. rewrite (adjacent_spec cur x Hlo Hv Hxhi). unfold adjacent_prefix.
  rewrite wrap64_id by (unfold int64, minInt64, maxInt64 in *; lia). reflexivity.
Qed.

(* after the fix the witness is merged *)
Lemma coalesce_minint_merged_lemma :
  coalesce_intervals [(Ts minInt64, Ts 5); (Ts minInt64, Ts 9)] = [(Ts minInt64, Ts 9)].
Proof. vm_compute. reflexivity. Qed.
