(* Proofs about Operators.v: the operators coincide with the pointwise meaning
   of the stored intervals, annotations enumerate the stored intervals, head
   intervals are the resolved ones. *)
From Coq Require Import List ZArith Bool Lia.
From MV Require Import Temporal.ITree Temporal.Operators.
Import ListNotations.
Open Scope Z_scope.

(* ---- specification vocabulary *)
Definition in64 (z : Z) : Prop := minInt64 <= z <= maxInt64.
(* the stored interval i holds at the (int64) instant t; an unbounded start /
   end is the least / greatest int64 instant *)
Definition holds (i : iv) (t : Z) : Prop := ks i <= t <= ke i.
(* what ast.NewInterval and TemporalStore.Add guarantee of a stored interval *)
Definition proper (i : iv) : Prop :=
  fst i <> PosInf /\ snd i <> NegInf /\ ks i <= ke i /\ in64 (ks i) /\ in64 (ke i).
Definition store_valid (St : list fact) : Prop := forall f, In f St -> proper (snd f).
(* intervals of one atom are pairwise neither overlapping nor adjacent *)
Definition coalesced (St : list fact) : Prop :=
  forall a i j, In (a, i) St -> In (a, j) St -> i = j \/ ke i + 1 < ks j \/ ke j + 1 < ks i.
(* the atom holds at instant t in the store *)
Definition atom_holds (St : list fact) (a : tatom) (t : Z) : Prop := exists i, In (a, i) St /\ holds i t.

(* ---- arithmetic of the wrap *)
Lemma wrap64_id : forall z, in64 z -> wrap64 z = z.
Proof.
  intros z [H1 H2]. unfold wrap64, minInt64, maxInt64 in *.
  rewrite Z.mod_small; lia.
Qed.

Lemma in64_neg : forall d, 0 <= d -> in64 d -> in64 (- d).
Proof. unfold in64, minInt64, maxInt64. intros. lia. Qed.

Lemma resolve_past_dur : forall now d1 d2,
  0 <= d1 <= d2 -> in64 now -> in64 d2 -> minInt64 <= now - d2 ->
  resolve_past now (BDur d1, BDur d2) = (BTs (now - d2), BTs (now - d1)).
Proof.
  intros now d1 d2 Hd Hn Hd2 Hlo. unfold resolve_past, resolve_bound, new_pinterval. cbn [fst snd].
  assert (in64 d1) by (unfold in64, minInt64, maxInt64 in *; lia).
  rewrite (wrap64_id (- d2)) by (apply in64_neg; [lia | assumption]).
  rewrite (wrap64_id (- d1)) by (apply in64_neg; [lia | assumption]).
  rewrite !wrap64_id by (unfold in64, minInt64, maxInt64 in *; lia).
  f_equal; f_equal; lia.
Qed.

Lemma resolve_future_dur : forall now d1 d2,
  0 <= d1 <= d2 -> in64 now -> now + d2 <= maxInt64 ->
  resolve_future now (BDur d1, BDur d2) = (BTs (now + d1), BTs (now + d2)).
Proof.
  intros now d1 d2 Hd Hn Hhi. unfold resolve_future, resolve_bound, new_pinterval. cbn [fst snd].
  rewrite !wrap64_id by (unfold in64, minInt64, maxInt64 in *; lia). reflexivity.
Qed.

(* ---- membership in the query results *)
Lemma in_of_pred : forall p St f, In f (of_pred p St) <-> In f St /\ fst (fst f) = p.
Proof. intros. unfold of_pred. rewrite filter_In, Z.eqb_eq. tauto. Qed.

Lemma in_unifying : forall ts s l f s',
  In (f, s') (unifying ts s l) <-> In f l /\ unify ts (snd (fst f)) s = Some s'.
Proof.
  intros. unfold unifying. rewrite in_flat_map. split.
  - intros [g [Hg Hin]]. destruct (unify ts (snd (fst g)) s) eqn:E; cbn in Hin; [|tauto].
    destruct Hin as [Heq|[]]. inversion Heq; subst. tauto.
  - intros [Hf Hu]. exists f. split; [assumption|]. rewrite Hu. left. reflexivity.
Qed.

Lemma overlaps_window : forall i lo hi, ks i <= ke i -> lo <= hi ->
  (overlaps i lo hi = true <-> exists t, lo <= t <= hi /\ holds i t).
Proof.
  intros i lo hi Hv Hw. unfold overlaps, holds. rewrite andb_true_iff, !Z.leb_le. split.
  - intros [Ha Hb]. exists (Z.max lo (ks i)). lia.
  - intros [t Ht]. lia.
Qed.

Lemma contains_window : forall i lo hi, proper i -> in64 lo -> in64 hi ->
  (interval_contains i (BTs lo, BTs hi) = true <-> ks i <= lo /\ hi <= ke i).
Proof.
  intros [a b] lo hi (Hs & He & Hv & Hks & Hke) Hlo Hhi. unfold interval_contains, ks, ke in *. cbn [fst snd] in *.
  rewrite andb_true_iff. unfold in64 in *.
  destruct a as [sa| |], b as [eb| |]; try congruence; rewrite ?Z.leb_le; intuition lia.
Qed.

(* ---- diamond: some instant of the window *)
Lemma diamond_exact : forall St lo hi p ts s f s',
  store_valid St -> lo <= hi ->
  (In (f, s') (diamond_facts St (BTs lo, BTs hi) p ts s) <->
   In f St /\ fst (fst f) = p /\ unify ts (snd (fst f)) s = Some s' /\
   exists t, lo <= t <= hi /\ holds (snd f) t).
Proof.
  intros St lo hi p ts s f s' Hv Hw. unfold diamond_facts, facts_during.
  rewrite in_unifying, filter_In, in_of_pred. cbn [get_start get_end fst snd].
  split.
  - intros [[[Hin Hp] Ho] Hu]. repeat split; try assumption.
    apply overlaps_window in Ho; try assumption. apply Hv in Hin. unfold proper in Hin. tauto.
  - intros (Hin & Hp & Hu & Ht). repeat split; try assumption.
    apply overlaps_window; try assumption. apply Hv in Hin. unfold proper in Hin. tauto.
Qed.

Lemma diamond_minus_exact : forall now d1 d2 St p ts s f s',
  0 <= d1 <= d2 -> in64 now -> in64 d2 -> minInt64 <= now - d2 -> store_valid St ->
  (In (f, s') (diamond_facts St (resolve_past now (BDur d1, BDur d2)) p ts s) <->
   In f St /\ fst (fst f) = p /\ unify ts (snd (fst f)) s = Some s' /\
   exists t, now - d2 <= t <= now - d1 /\ holds (snd f) t).
Proof.
  intros. rewrite resolve_past_dur by assumption. apply diamond_exact; [assumption | lia].
Qed.

Lemma diamond_plus_exact : forall now d1 d2 St p ts s f s',
  0 <= d1 <= d2 -> in64 now -> now + d2 <= maxInt64 -> store_valid St ->
  (In (f, s') (diamond_facts St (resolve_future now (BDur d1, BDur d2)) p ts s) <->
   In f St /\ fst (fst f) = p /\ unify ts (snd (fst f)) s = Some s' /\
   exists t, now + d1 <= t <= now + d2 /\ holds (snd f) t).
Proof.
  intros. rewrite resolve_future_dur by assumption. apply diamond_exact; [assumption | lia].
Qed.

(* ---- box: every instant of the window, on a coalesced store *)
Lemma box_exact : forall St lo hi p ts s a s',
  store_valid St -> coalesced St -> lo <= hi -> in64 lo -> in64 hi ->
  ((exists i, In (((p, a), i), s') (box_facts St (BTs lo, BTs hi) p ts s)) <->
   unify ts a s = Some s' /\ forall t, lo <= t <= hi -> atom_holds St (p, a) t).
Proof.
  intros St lo hi p ts s a s' Hv Hc Hw Hlo Hhi. unfold box_facts. split.
  - intros [i Hin]. rewrite filter_In, in_unifying, in_of_pred in Hin. cbn [fst snd] in Hin.
    destruct Hin as [[[Hin _] Hu] Hcont]. split; [assumption|].
    apply contains_window in Hcont; [|apply (Hv _ Hin)|assumption|assumption].
    intros t Ht. exists i. split; [assumption|]. unfold holds. lia.
  - intros [Hu Hall].
    destruct (Hall lo ltac:(lia)) as [i0 [Hin0 Hh0]]. unfold holds in Hh0.
    assert (Hke : hi <= ke i0).
    { destruct (Z_le_gt_dec hi (ke i0)) as [|Hgt]; [assumption|exfalso].
      destruct (Hall (ke i0 + 1) ltac:(lia)) as [i1 [Hin1 Hh1]]. unfold holds in Hh1.
      destruct (Hc _ _ _ Hin0 Hin1) as [Heq|[Hd|Hd]]; [subst i1|..]; lia. }
    exists i0. rewrite filter_In, in_unifying, in_of_pred. cbn [fst snd].
    repeat split; try assumption.
    apply contains_window; [apply (Hv _ Hin0)|assumption|assumption|lia].
Qed.

Lemma box_minus_exact : forall now d1 d2 St p ts s a s',
  0 <= d1 <= d2 -> in64 now -> in64 d2 -> minInt64 <= now - d2 -> store_valid St -> coalesced St ->
  ((exists i, In (((p, a), i), s') (box_facts St (resolve_past now (BDur d1, BDur d2)) p ts s)) <->
   unify ts a s = Some s' /\ forall t, now - d2 <= t <= now - d1 -> atom_holds St (p, a) t).
Proof.
  intros. rewrite resolve_past_dur by assumption.
  apply box_exact; try assumption; unfold in64, minInt64, maxInt64 in *; lia.
Qed.

Lemma box_plus_exact : forall now d1 d2 St p ts s a s',
  0 <= d1 <= d2 -> in64 now -> now + d2 <= maxInt64 -> store_valid St -> coalesced St ->
  ((exists i, In (((p, a), i), s') (box_facts St (resolve_future now (BDur d1, BDur d2)) p ts s)) <->
   unify ts a s = Some s' /\ forall t, now + d1 <= t <= now + d2 -> atom_holds St (p, a) t).
Proof.
  intros. rewrite resolve_future_dur by assumption.
  apply box_exact; try assumption; unfold in64, minInt64, maxInt64 in *; lia.
Qed.

(* the solutions an operator literal returns are the facts above, each with the
   annotation variables bound *)
Lemma operator_solutions : forall now St l s w k s'',
  t_op l = Some (k, w) ->
  (In s'' (eval_tlit now St l s) <->
   exists f s', s'' = bind_ann (t_ann l) (snd f) s' /\
     In (f, s') (match k with
                 | DiamondMinus => diamond_facts St (resolve_past now w) (t_pred l) (t_args l) s
                 | BoxMinus => box_facts St (resolve_past now w) (t_pred l) (t_args l) s
                 | DiamondPlus => diamond_facts St (resolve_future now w) (t_pred l) (t_args l) s
                 | BoxPlus => box_facts St (resolve_future now w) (t_pred l) (t_args l) s
                 end)).
Proof.
  intros now St l s w k s'' Hop. unfold eval_tlit. rewrite Hop.
  destruct k; unfold eval_diamond_minus, eval_box_minus, eval_diamond_plus, eval_box_plus, finish;
    rewrite in_map_iff; split.
  all: try (intros [[f s'] [Heq Hin]]; exists f, s'; cbn [fst snd] in *; split; [symmetry; exact Heq | exact Hin]).
  all: intros [f [s' [Heq Hin]]]; exists (f, s'); cbn [fst snd]; split; [symmetry; exact Heq | exact Hin].
Qed.

(* ---- annotations with fresh variables enumerate the stored intervals *)
Lemma unify_var_fresh : forall v w c s s',
  unify_var w c s = Some s' -> v <> w -> lookup_var v s = None -> lookup_var v s' = None.
Proof.
  intros v w c s s' Hu Hne Hl. unfold unify_var in Hu.
  destruct (lookup_var w s) as [c0|].
  - destruct (cst_eqb c0 c); inversion Hu; subst; assumption.
  - inversion Hu; subst. cbn. destruct (Z.eqb_spec v w); [contradiction|assumption].
Qed.

Lemma unify_fresh : forall ts cs s s' v,
  unify ts cs s = Some s' -> ~ In (TVar v) ts -> lookup_var v s = None -> lookup_var v s' = None.
Proof.
  induction ts as [|t ts IH]; intros cs s s' v Hu Hni Hl.
  - destruct cs; cbn in Hu; inversion Hu; subst; assumption.
  - destruct cs as [|c cs]; cbn in Hu; [discriminate|].
    assert (Hni' : ~ In (TVar v) ts) by (intro; apply Hni; right; assumption).
    destruct t as [w|c0|].
    + destruct (unify_var w c s) as [s1|] eqn:E; [|discriminate].
      apply (IH cs s1 s' v Hu Hni').
      apply (unify_var_fresh v w c s s1 E); [|assumption].
      intro; subst. apply Hni. left. reflexivity.
    + destruct (cst_eqb c0 c); [|discriminate]. apply (IH cs s s' v Hu Hni' Hl).
    + apply (IH cs s s' v Hu Hni' Hl).
Qed.

Lemma annotation_enumerates : forall now St p ts vs ve s s'',
  vs <> ve -> lookup_var vs s = None -> lookup_var ve s = None ->
  ~ In (TVar vs) ts -> ~ In (TVar ve) ts ->
  (In s'' (eval_plain now St p ts (Some (BVar vs, BVar ve)) s) <->
   exists f s', In f St /\ fst (fst f) = p /\ unify ts (snd (fst f)) s = Some s' /\
     s'' = (ve, CTime (ke (snd f))) :: (vs, CTime (ks (snd f))) :: s').
Proof.
  intros now St p ts vs ve s s'' Hne Hls Hle Hnis Hnie.
  unfold eval_plain, plain_facts, finish, resolve_head_time, resolve_bound_subst. cbn [fst snd].
  rewrite Hls. rewrite in_map_iff.
  assert (Hbind : forall (f : fact) (s' : subst), unify ts (snd (fst f)) s = Some s' ->
            bind_ann (Some (BVar vs, BVar ve)) (snd f) s' =
            (ve, CTime (ke (snd f))) :: (vs, CTime (ks (snd f))) :: s').
  { intros f s' Hu. unfold bind_ann, bind_interval, bind_one, unify_var. cbn [fst snd].
    rewrite (unify_fresh _ _ _ _ vs Hu Hnis Hls). cbn [lookup_var].
    destruct (Z.eqb_spec ve vs) as [Heq|_]; [congruence|].
    rewrite (unify_fresh _ _ _ _ ve Hu Hnie Hle). reflexivity. }
  split.
  - intros [[f s'] [Heq Hin]]. cbn [fst snd] in Heq. apply in_unifying in Hin. destruct Hin as [Hin Hu].
    apply in_of_pred in Hin. exists f, s'. rewrite (Hbind f s' Hu) in Heq. intuition.
  - intros [f [s' (Hin & Hp & Hu & Heq)]]. exists (f, s'). cbn [fst snd]. split.
    + rewrite (Hbind f s' Hu). symmetry. assumption.
    + apply in_unifying. split; [apply in_of_pred; tauto | assumption].
Qed.

(* ---- head intervals *)
(* the value of one bound of a head annotation under a solution *)
Definition bound_value (now : Z) (s : subst) (b : pbound) : option bound :=
  match b with
  | BTs z => Some (Ts z)
  | BNow => Some (Ts now)
  | BVar v => match lookup_var v s with
              | Some (CTime z) => Some (Ts z)
              | Some (CNum z) => Some (Ts z)
              | _ => None
              end
  | BNegInf => Some NegInf
  | BPosInf => Some PosInf
  | BDur _ => None
  end.
(* ast.NewInterval on a stored interval *)
Definition norm_iv (i : iv) : iv :=
  ((match fst i with PosInf => NegInf | b => b end), (match snd i with NegInf => PosInf | b => b end)).

Lemma resolve_bound_value : forall now s b v,
  bound_value now s b = Some v -> exists b', resolve_bound_subst now s b = Some b' /\ to_bound b' = v /\
    (v = PosInf <-> b' = BPosInf) /\ (v = NegInf <-> b' = BNegInf).
Proof.
  intros now s b v H. destruct b as [z|w| | | |d]; cbn in *.
  - inversion H; subst. exists (BTs z). repeat split; intros; congruence.
  - destruct (lookup_var w s) as [[n|n|n]|]; cbn in *; try discriminate; inversion H; subst;
      exists (BTs n); cbn; repeat split; intros; try congruence.
  - inversion H; subst. exists BNegInf. repeat split; intros; congruence.
  - inversion H; subst. exists BPosInf. repeat split; intros; congruence.
  - inversion H; subst. exists (BTs now). repeat split; intros; congruence.
  - discriminate.
Qed.

Lemma head_time_exact : forall now r s cs h bs be,
  r_time r = Some h -> inst_args (r_args r) s = Some cs ->
  bound_value now s (fst h) = Some bs -> bound_value now s (snd h) = Some be ->
  derive_one now r s = inl ((r_pred r, cs), Some (norm_iv (bs, be))).
Proof.
  intros now r s cs h bs be Hh Hargs Hs He. unfold derive_one. rewrite Hargs, Hh.
  destruct (resolve_bound_value _ _ _ _ Hs) as [b1 (R1 & T1 & P1 & N1)].
  destruct (resolve_bound_value _ _ _ _ He) as [b2 (R2 & T2 & P2 & N2)].
  unfold resolve_head_time. rewrite R1, R2. unfold to_iv, new_pinterval, norm_iv. cbn [fst snd].
  subst bs be. destruct b1, b2; reflexivity.
Qed.

(* a head annotation that cannot be resolved is an error, never a fact *)
Lemma head_time_unresolved : forall now r s cs h,
  r_time r = Some h -> inst_args (r_args r) s = Some cs ->
  (bound_value now s (fst h) = None \/ bound_value now s (snd h) = None) ->
  derive_one now r s = inr 1.
Proof.
  intros now r s cs h Hh Hargs Hn. unfold derive_one. rewrite Hargs, Hh. unfold resolve_head_time.
  assert (Hnone : forall b, bound_value now s b = None -> resolve_bound_subst now s b = None).
  { intros b Hb. destruct b as [z|w| | | |d]; cbn in *; try discriminate; try reflexivity.
    destruct (lookup_var w s) as [[n|n|n]|]; try discriminate; reflexivity. }
  destruct Hn as [Hn|Hn]; rewrite (Hnone _ Hn); [reflexivity|].
  destruct (resolve_bound_subst now s (fst h)); reflexivity.
Qed.
