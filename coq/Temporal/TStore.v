(* Model of factstore/temporal.go: TemporalStore (one interval tree per atom),
   Add with validity and per-atom limit checks, the three queries, ContainsAt,
   the pair count, and Coalesce / coalesceIntervals with Go's wrapping int64
   arithmetic (after fix N13; the test before the fix is kept as
   adjacent_prefix / merge_prefix). Executable definitions only. Atoms carry constant identifiers;
   the hash keying of the Go maps is abstracted (see DESIGN, finding F8). *)
From Coq Require Import List ZArith Bool.
From MV Require Import Temporal.ITree.
Import ListNotations.
Open Scope Z_scope.

Definition atom := (Z * list Z)%type.              (* predicate id, constant ids *)
Definition pattern := (Z * list (option Z))%type.  (* None = a variable *)

Fixpoint list_eqb (a b : list Z) : bool :=
  match a, b with
  | [], [] => true
  | x :: a', y :: b' => (x =? y) && list_eqb a' b'
  | _, _ => false
  end.
Definition atom_eqb (a b : atom) : bool := (fst a =? fst b) && list_eqb (snd a) (snd b).

(* factstore.Matches: only constants of the pattern are compared; the predicate
   was selected by the caller *)
Fixpoint args_match (p : list (option Z)) (a : list Z) : bool :=
  match p, a with
  | Some c :: p', x :: a' => (c =? x) && args_match p' a'
  | None :: p', _ :: a' => args_match p' a'
  | [], _ => true
  | _ :: _, [] => false     (* Go would index out of range; never generated: arities agree *)
  end.
Definition matches (q : pattern) (a : atom) : bool := (fst q =? fst a) && args_match (snd q) (snd a).

Record tstore := { entries : list (atom * itree); count : Z; limit : Z }.
Definition ts_empty (lim : Z) : tstore := {| entries := []; count := 0; limit := lim |}.

Fixpoint lookup (a : atom) (es : list (atom * itree)) : option itree :=
  match es with
  | [] => None
  | (b, t) :: es' => if atom_eqb a b then Some t else lookup a es'
  end.
Fixpoint update (a : atom) (t : itree) (es : list (atom * itree)) : list (atom * itree) :=
  match es with
  | [] => [(a, t)]
  | (b, u) :: es' => if atom_eqb a b then (b, t) :: es' else (b, u) :: update a t es'
  end.

Definition valid_iv (i : iv) : bool :=
  match i with (Ts s, Ts e) => s <=? e | _ => true end.

(* result of Add: 0 = (true,nil)  1 = (false,nil) duplicate
                  2 = error invalid interval   3 = error interval limit *)
Definition ts_add (s : tstore) (a : atom) (i : iv) : tstore * Z :=
  if negb (valid_iv i) then (s, 2) else
  let t := match lookup a (entries s) with Some t => t | None => it_empty end in
  let s1 := {| entries := update a t (entries s); count := count s; limit := limit s |} in
  if (0 <? limit s) && (limit s <=? snd t) then (s1, 3) else
  let '(t', added) := it_insert t i in
  if added then ({| entries := update a t' (entries s); count := count s + 1; limit := limit s |}, 0)
  else (s1, 1).

Definition tag (a : atom) (l : list iv) : list (atom * iv) := map (pair a) l.
Definition for_matching (q : pattern) (s : tstore) (f : tree -> list iv) : list (atom * iv) :=
  flat_map (fun e : atom * itree => if matches q (fst e) then tag (fst e) (f (fst (snd e))) else []) (entries s).

Definition ts_facts_at (s : tstore) (q : pattern) (t : Z) := for_matching q s (fun tr => qpoint tr t).
Definition ts_facts_during (s : tstore) (q : pattern) (i : iv) := for_matching q s (fun tr => qrange tr (ks i) (ke i)).
Definition ts_all_facts (s : tstore) (q : pattern) := for_matching q s elements.
Definition ts_contains_at (s : tstore) (a : atom) (t : Z) : bool :=
  match lookup a (entries s) with Some tr => negb (match qpoint (fst tr) t with [] => true | _ => false end) | None => false end.
Fixpoint dedup (l : list Z) : list Z :=
  match l with [] => [] | x :: l' => if existsb (Z.eqb x) l' then dedup l' else x :: dedup l' end.
Definition ts_preds (s : tstore) : list Z := dedup (map (fun e : atom * itree => fst (fst e)) (entries s)).

(* ---- coalescing *)
Definition wrap64 (z : Z) : Z := (z + 2 ^ 63) mod 2 ^ 64 - 2 ^ 63.

Definition is_concrete (i : iv) : bool := match i with (Ts _, Ts _) => true | _ => false end.
Definition se (i : iv) : Z * Z := (ks i, ke i).
Definition of_se (p : Z * Z) : iv := (Ts (fst p), Ts (snd p)).

(* stable insertion sort by start, standing for sort.Slice; the theorems hold
   for every sorted permutation, so the choice of algorithm is immaterial *)
Fixpoint ins_sorted (x : Z * Z) (l : list (Z * Z)) :=
  match l with
  | [] => [x]
  | y :: l' => if fst x <? fst y then x :: l else y :: ins_sorted x l'
  end.
Definition sort_by_start (l : list (Z * Z)) := fold_left (fun acc x => ins_sorted x acc) l [].

(* the merge loop of coalesceIntervals, `cur` being result[len(result)-1]; `adj`
   is the overlap-or-adjacent test of temporal.go:364 *)
Section MergeLoop.
  Variable adj : Z * Z -> Z * Z -> bool.      (* adj cur x *)
  Fixpoint merge_with (cur : Z * Z) (rest : list (Z * Z)) : list (Z * Z) :=
    match rest with
    | [] => [cur]
    | x :: rest' =>
        if adj cur x
        then merge_with (fst cur, Z.max (snd cur) (snd x)) rest'
        else cur :: merge_with x rest'
    end.

  Definition coalesce_intervals_with (l : list iv) : list iv :=
    match l with
    | [] | [_] => l
    | _ =>
      let concrete := filter is_concrete l in
      let other := filter (fun i => negb (is_concrete i)) l in
      match sort_by_start (map se concrete) with
      | [] => other
      | [c] => concrete ++ other
      | c :: rest => map of_se (merge_with c rest) ++ other
      end
    end.
End MergeLoop.

(* `curr.Start <= last.End || curr.Start-1 == last.End` (after fix N13): the
   subtraction is Go's wrapping int64 subtraction; it is only reached when
   curr.Start > last.End *)
Definition adjacent (cur x : Z * Z) : bool :=
  (fst x <=? snd cur) || (wrap64 (fst x - 1) =? snd cur).
Definition merge := merge_with adjacent.
Definition coalesce_intervals := coalesce_intervals_with adjacent.

(* before fix N13: `last.End >= curr.Start-1`, where Start-1 wraps at MinInt64 *)
Definition adjacent_prefix (cur x : Z * Z) : bool := wrap64 (fst x - 1) <=? snd cur.
Definition merge_prefix := merge_with adjacent_prefix.
Definition coalesce_intervals_prefix := coalesce_intervals_with adjacent_prefix.

Definition ts_coalesce (s : tstore) (p : Z) : tstore :=
  let step (acc : list (atom * itree) * Z) (e : atom * itree) :=
    let '(a, t) := e in
    if (fst a =? p) && (1 <? snd t) then
      let ivs := elements (fst t) in
      let co := coalesce_intervals ivs in
      (fst acc ++ [(a, it_rebuild co)], snd acc - (Z.of_nat (length ivs) - Z.of_nat (length co)))
    else (fst acc ++ [e], snd acc) in
  let '(es, c) := fold_left step (entries s) ([], count s) in
  {| entries := es; count := c; limit := limit s |}.
