(* Model of factstore/interval_tree.go: AVL tree keyed by interval start with
   the maximum end of every subtree cached in the node (treeNode.maxEnd).
   Executable definitions only; proofs are in ITreeProofs.v. *)
From Coq Require Import List ZArith Bool.
Import ListNotations.
Open Scope Z_scope.

(* ast.TemporalBound restricted to what ast.NewInterval can put in a stored
   interval: a timestamp (Unix nanoseconds, int64) or an infinity. *)
Inductive bound := Ts (z : Z) | NegInf | PosInf.
Definition iv := (bound * bound)%type.

Definition minInt64 : Z := - 2 ^ 63.
Definition maxInt64 : Z := 2 ^ 63 - 1.

(* GetStartTime / GetEndTime (interval_tree.go:352, :367) *)
Definition ks (i : iv) : Z :=
  match fst i with Ts z => z | NegInf => minInt64 | PosInf => maxInt64 end.
Definition ke (i : iv) : Z :=
  match snd i with Ts z => z | PosInf => maxInt64 | NegInf => minInt64 end.

(* TemporalBound.Equals / Interval.Equals (ast/temporal.go:299, :376) *)
Definition bound_eqb (a b : bound) : bool :=
  match a, b with
  | Ts x, Ts y => x =? y
  | NegInf, NegInf => true
  | PosInf, PosInf => true
  | _, _ => false
  end.
Definition iv_eqb (a b : iv) : bool := bound_eqb (fst a) (fst b) && bound_eqb (snd a) (snd b).

Inductive tree := Leaf | Node (l : tree) (i : iv) (mx : Z) (h : Z) (r : tree).

Definition height t := match t with Leaf => 0 | Node _ _ _ h _ => h end.
Definition maxend_opt t (d : Z) := match t with Leaf => d | Node _ _ mx _ _ => Z.max d mx end.
(* updateHeight followed by updateMaxEnd on a node with the given children *)
Definition mk (l : tree) (i : iv) (r : tree) : tree :=
  Node l i (maxend_opt r (maxend_opt l (ke i))) (1 + Z.max (height l) (height r)) r.
Definition bal t := match t with Leaf => 0 | Node l _ _ _ r => height l - height r end.

Definition rot_right t := match t with
  | Node (Node xl xi _ _ xr) yi _ _ yr => mk xl xi (mk xr yi yr)
  | _ => t end.
Definition rot_left t := match t with
  | Node xl xi _ _ (Node yl yi _ _ yr) => mk (mk xl xi yl) yi yr
  | _ => t end.

(* rebalance (interval_tree.go:311) *)
Definition rebalance t := match t with
  | Leaf => Leaf
  | Node l i _ _ r =>
    let n := mk l i r in
    let b := bal n in
    if 1 <? b then
      (if bal l <? 0 then rot_right (mk (rot_left l) i r) else rot_right n)
    else if b <? -1 then
      (if 0 <? bal r then rot_left (mk l i (rot_right r)) else rot_left n)
    else n end.

(* insert (interval_tree.go:60) *)
Fixpoint insert (t : tree) (i : iv) : tree :=
  match t with
  | Leaf => Node Leaf i (ke i) 1 Leaf
  | Node l j mx h r =>
      if ks i <? ks j then rebalance (Node (insert l i) j (Z.max mx (ke i)) h r)
      else rebalance (Node l j (Z.max mx (ke i)) h (insert r i))
  end.

(* inOrder (interval_tree.go:205) *)
Fixpoint elements t := match t with Leaf => [] | Node l i _ _ r => elements l ++ i :: elements r end.

(* findExact (interval_tree.go:91) *)
Fixpoint find_exact (t : tree) (i : iv) : bool :=
  match t with
  | Leaf => false
  | Node l j _ _ r =>
      if iv_eqb j i then true
      else if ks i <? ks j then find_exact l i
      else if find_exact r i then true
      else if ks i =? ks j then find_exact l i
      else false
  end.

(* containsTimestamp / queryPoint (interval_tree.go:381, :122) *)
Definition contains (i : iv) (x : Z) := (ks i <=? x) && (x <=? ke i).
Fixpoint qpoint (t : tree) (x : Z) : list iv :=
  match t with
  | Leaf => []
  | Node l i mx _ r =>
      if mx <? x then [] else
      qpoint l x ++ (if contains i x then [i] else []) ++ (if ks i <=? x then qpoint r x else [])
  end.

(* queryRange (interval_tree.go:163) *)
Definition overlaps (i : iv) (s e : Z) := (ks i <=? e) && (s <=? ke i).
Fixpoint qrange (t : tree) (s e : Z) : list iv :=
  match t with
  | Leaf => []
  | Node l i mx _ r =>
      if mx <? s then [] else
      qrange l s e ++ (if overlaps i s e then [i] else []) ++ (if ks i <=? e then qrange r s e else [])
  end.

(* IntervalTree = root + size; Insert refuses exact duplicates *)
Definition itree := (tree * Z)%type.
Definition it_empty : itree := (Leaf, 0).
Definition it_insert (t : itree) (i : iv) : itree * bool :=
  if find_exact (fst t) i then (t, false) else ((insert (fst t) i, snd t + 1), true).
(* Rebuild: Clear, then Insert each *)
Definition it_rebuild (l : list iv) : itree :=
  fold_left (fun t i => fst (it_insert t i)) l it_empty.
