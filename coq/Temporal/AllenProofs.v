(* Proofs about the interval relations of Allen.v: each relation equals its
   documented definition (readthedocs/temporal.md) on closed intervals with
   timestamp bounds; converse pairs and symmetry hold for all intervals. *)
From Coq Require Import List ZArith Bool Lia.
From MV Require Import Temporal.ITree Temporal.Allen.
Import ListNotations.
Open Scope Z_scope.

Definition closed (s e : Z) : iv := (Ts s, Ts e).
(* the instants of a closed interval *)
Definition inside (s e t : Z) : Prop := s <= t <= e.

Lemma before_def : forall s1 e1 s2 e2, allen_before (closed s1 e1) (closed s2 e2) = true <-> e1 < s2.
Proof. intros. unfold allen_before, closed. cbn. apply Z.ltb_lt. Qed.

Lemma after_def : forall s1 e1 s2 e2, allen_after (closed s1 e1) (closed s2 e2) = true <-> e2 < s1.
Proof. intros. unfold allen_after, allen_before, closed. cbn. apply Z.ltb_lt. Qed.

Lemma meets_def : forall s1 e1 s2 e2, allen_meets (closed s1 e1) (closed s2 e2) = true <-> e1 = s2.
Proof. intros. unfold allen_meets, closed. cbn. apply Z.eqb_eq. Qed.

Lemma overlaps_def : forall s1 e1 s2 e2, s1 <= e1 -> s2 <= e2 ->
  (allen_overlaps (closed s1 e1) (closed s2 e2) = true <-> exists t, inside s1 e1 t /\ inside s2 e2 t).
Proof.
  intros s1 e1 s2 e2 H1 H2. unfold allen_overlaps, closed, inside. cbn.
  rewrite andb_true_iff, !negb_true_iff, !Z.ltb_ge. split.
  - intros [Ha Hb]. exists (Z.max s1 s2). lia.
  - intros [t Ht]. lia.
Qed.

Lemma during_def : forall s1 e1 s2 e2, s1 <= e1 ->
  (allen_during (closed s1 e1) (closed s2 e2) = true <-> forall t, inside s1 e1 t -> inside s2 e2 t).
Proof.
  intros s1 e1 s2 e2 H1. unfold allen_during, closed, inside. cbn.
  rewrite andb_true_iff, !Z.leb_le. split.
  - intros [Ha Hb] t Ht. lia.
  - intros H. pose proof (H s1). pose proof (H e1). lia.
Qed.

Lemma contains_def : forall s1 e1 s2 e2, s2 <= e2 ->
  (allen_contains (closed s1 e1) (closed s2 e2) = true <-> forall t, inside s2 e2 t -> inside s1 e1 t).
Proof. intros. unfold allen_contains. apply during_def. assumption. Qed.

Lemma starts_def : forall s1 e1 s2 e2, allen_starts (closed s1 e1) (closed s2 e2) = true <-> s1 = s2.
Proof. intros. unfold allen_starts, closed. cbn. apply Z.eqb_eq. Qed.

Lemma finishes_def : forall s1 e1 s2 e2, allen_finishes (closed s1 e1) (closed s2 e2) = true <-> e1 = e2.
Proof. intros. unfold allen_finishes, closed. cbn. apply Z.eqb_eq. Qed.

Lemma equals_def : forall s1 e1 s2 e2, allen_equals (closed s1 e1) (closed s2 e2) = true <-> s1 = s2 /\ e1 = e2.
Proof.
  intros. unfold allen_equals, iv_eqb, closed. cbn. rewrite andb_true_iff, !Z.eqb_eq. tauto.
Qed.

(* converse pairs, for all intervals (unbounded ones included) *)
Lemma converse : forall a b : iv,
  allen_after a b = allen_before b a /\ allen_contains a b = allen_during b a.
Proof. intros. split; reflexivity. Qed.

Lemma bound_eqb_sym : forall a b, bound_eqb a b = bound_eqb b a.
Proof. intros [x| |] [y| |]; cbn; try reflexivity. apply Z.eqb_sym. Qed.

Lemma symmetric : forall a b : iv,
  allen_overlaps a b = allen_overlaps b a /\ allen_equals a b = allen_equals b a /\
  allen_starts a b = allen_starts b a /\ allen_finishes a b = allen_finishes b a.
Proof.
  intros [a1 a2] [b1 b2]. repeat split.
  - unfold allen_overlaps. apply andb_comm.
  - unfold allen_equals, iv_eqb. cbn. rewrite (bound_eqb_sym a1 b1), (bound_eqb_sym a2 b2). reflexivity.
  - unfold allen_starts. cbn. destruct a1, b1; try reflexivity. apply Z.eqb_sym.
  - unfold allen_finishes. cbn. destruct a2, b2; try reflexivity. apply Z.eqb_sym.
Qed.

(* before and after exclude each other and overlap on proper intervals:
   exactly one of before / overlaps / after holds *)
Lemma trichotomy : forall s1 e1 s2 e2, s1 <= e1 -> s2 <= e2 ->
  let a := closed s1 e1 in let b := closed s2 e2 in
  (allen_before a b = true /\ allen_overlaps a b = false /\ allen_after a b = false) \/
  (allen_before a b = false /\ allen_overlaps a b = true /\ allen_after a b = false) \/
  (allen_before a b = false /\ allen_overlaps a b = false /\ allen_after a b = true).
Proof.
  intros s1 e1 s2 e2 H1 H2. cbn. unfold allen_before, allen_after, allen_overlaps, closed. cbn.
  destruct (Z.ltb_spec e1 s2), (Z.ltb_spec e2 s1); cbn; try lia; tauto.
Qed.
