(* Model of the interval-relation predicates of builtin/temporal.go:106-194
   (and ast.Interval.Overlaps / Equals, ast/temporal.go:420, :376) on
   intervals whose bounds are timestamps or infinities. Through
   builtin.Decide only timestamp bounds can occur (getIntervalValue builds the
   interval from a pair of numbers or, after fix N3, of times); the unbounded
   branches are mirrored as well. Executable definitions only. *)
From Coq Require Import List ZArith Bool.
From MV Require Import Temporal.ITree.
Import ListNotations.
Open Scope Z_scope.

(* intervalBefore (:108) *)
Definition allen_before (t1 t2 : iv) : bool :=
  match snd t1, fst t2 with Ts e1, Ts s2 => e1 <? s2 | _, _ => false end.
(* intervalAfter (:116) *)
Definition allen_after (t1 t2 : iv) : bool := allen_before t2 t1.
(* intervalMeets (:121) *)
Definition allen_meets (t1 t2 : iv) : bool :=
  match snd t1, fst t2 with Ts e1, Ts s2 => e1 =? s2 | _, _ => false end.
(* intervalOverlaps (:129) = ast.Interval.Overlaps *)
Definition allen_overlaps (t1 t2 : iv) : bool :=
  negb (match snd t1, fst t2 with Ts e, Ts s => e <? s | _, _ => false end) &&
  negb (match snd t2, fst t1 with Ts e, Ts s => e <? s | _, _ => false end).
(* intervalDuring (:134) *)
Definition allen_during (t1 t2 : iv) : bool :=
  match t1 with
  | (Ts s1, Ts e1) =>
      match t2 with
      | (Ts s2, Ts e2) => (s2 <=? s1) && (e1 <=? e2)
      | (NegInf, PosInf) => true
      | (NegInf, Ts e2) => e1 <=? e2
      | (Ts s2, PosInf) => s2 <=? s1
      | _ => false
      end
  | _ => false
  end.
(* intervalContains (:161) *)
Definition allen_contains (t1 t2 : iv) : bool := allen_during t2 t1.
(* intervalStarts (:166) *)
Definition allen_starts (t1 t2 : iv) : bool :=
  match fst t1, fst t2 with
  | Ts s1, Ts s2 => s1 =? s2
  | NegInf, NegInf => true
  | PosInf, PosInf => true
  | _, _ => false
  end.
(* intervalFinishes (:180) *)
Definition allen_finishes (t1 t2 : iv) : bool :=
  match snd t1, snd t2 with
  | Ts e1, Ts e2 => e1 =? e2
  | NegInf, NegInf => true
  | PosInf, PosInf => true
  | _, _ => false
  end.
(* intervalEquals (:194) = ast.Interval.Equals *)
Definition allen_equals (t1 t2 : iv) : bool := iv_eqb t1 t2.

(* dispatch of DecideTemporalPredicate (:27); relation ids 0..8 in the order
   of the switch *)
Definition allen (rel : Z) (t1 t2 : iv) : bool :=
  if rel =? 0 then allen_before t1 t2 else
  if rel =? 1 then allen_after t1 t2 else
  if rel =? 2 then allen_meets t1 t2 else
  if rel =? 3 then allen_overlaps t1 t2 else
  if rel =? 4 then allen_during t1 t2 else
  if rel =? 5 then allen_contains t1 t2 else
  if rel =? 6 then allen_starts t1 t2 else
  if rel =? 7 then allen_finishes t1 t2 else
  allen_equals t1 t2.
