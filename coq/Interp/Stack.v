(* Executable model of the interactive interpreter's state machine
   (interpreter/interpreter.go, after fixes N2, N5, N30 and N32).

   What is modelled: the stack of source fragments (i.src + i.sourceFragments, two
   parallel slices since fix N30: the same pathset can be on the stack twice),
   the known-predicate table (i.knownPredicates), the interactive buffer
   (i.buffer) and the layered stores.  i.simpleStore and i.temporalStore are
   pushed and popped in lock step (pushSourceFragment :411 layers a teeing
   store over each, popSourceFragment :445 restores both checkpoints), so one
   list of layers stands for the pair; facts are opaque.

   What is NOT modelled: parsing, analysis and evaluation.  They are the
   Section variables [parse], [analyse], [eval]: arbitrary deterministic
   functions.  [eval p visible] is what engine.EvalProgramWithStats writes
   through the top teeing layer when it can read [visible]; the bool says
   whether it returned without error.

   No proofs in this file. *)
From Coq Require Import List ZArith Bool.
Import ListNotations.
Open Scope Z_scope.

Definition pred := Z.
Definition declid := Z.               (* identity of a declaration (bounds, descriptors ...) *)
Definition fact := (Z * Z)%type.      (* predicate, opaque identity of the atom (and interval) *)
Definition chunk := Z.                (* one clauseText handed to Define *)
Definition path := Z.                 (* one pathset string handed to Load *)

(* What a fragment was made from: a pathset, or the whole interactive buffer. *)
Inductive src := SFile (p : path) | SInter (b : list chunk).

(* knownPredicates : map[PredicateSym]Decl, kept sorted by predicate so that equal
   maps are equal lists. *)
Definition ktab := list (pred * declid).
Fixpoint k_set (p : pred) (d : declid) (k : ktab) : ktab :=
  match k with
  | [] => [(p, d)]
  | (q, e) :: k' => if p <? q then (p, d) :: k
                    else if p =? q then (p, d) :: k'
                    else (q, e) :: k_set p d k'
  end.
(* pushSourceFragment: for _, decl := range programInfo.Decls { known[pred] = *decl } *)
Definition k_add (ds : list (pred * declid)) (k : ktab) : ktab :=
  fold_left (fun k pd => k_set (fst pd) (snd pd) k) ds k.
Definition k_mem (p : pred) (k : ktab) : bool := existsb (fun qe => fst qe =? p) k.
(* pre-fix popSourceFragment: for _, decl := range f.program.Decls { delete(known, pred) } *)
Definition k_del (ds : list (pred * declid)) (k : ktab) : ktab :=
  filter (fun qe => negb (existsb (fun pd => fst pd =? fst qe) ds)) k.

Inductive result := ROk | RParse | RAnalysis | REval | RUnknown.
Definition result_code (r : result) : Z :=
  match r with ROk => 0 | RParse => 1 | RAnalysis => 2 | REval => 3 | RUnknown => 4 end.
Definition is_ok (r : result) : bool := match r with ROk => true | _ => false end.
(* whether a Define / Load left its fragment pushed: only when it succeeded (since fix N32 a
   Load whose evaluation fails pops its fragment again, as Define does since N5) *)
Definition pushed (r : result) : bool := match r with ROk => true | _ => false end.
(* before N32 a Load left its fragment pushed when analysis succeeded, even if evaluation then failed *)
Definition pushed_old (r : result) : bool := match r with ROk | REval => true | _ => false end.

Inductive cmd := CDefine (t : chunk) | CLoad (p : path) | CPop | CQuery (q : pred).

Section Interp.
  Variable prog : Type.                                 (* *analysis.ProgramInfo *)
  Variable p_decls : prog -> list (pred * declid).      (* ProgramInfo.Decls: ALL predicates, old and new *)
  Variable parse : src -> bool.                         (* parse.Unit on the file(s) / on the buffer *)
  Variable analyse : src -> ktab -> option prog.        (* analysis.AnalyzeOneUnit / AnalyzeAndCheckBounds *)
  Variable eval : prog -> list fact -> list fact * bool.

  (* type sourceFragment :37 (units+pathset = f_src), with knownCheckpoint of fix N2 *)
  Record frag := { f_src : src; f_prog : prog; f_store_cp : list (list fact); f_known_cp : ktab }.

  (* type Interpreter :45. [store]: teeing layers, top first; the last one is the base store of New. *)
  Record state := { frags : list frag; known : ktab; store : list (list fact); buffer : list chunk }.

  (* New :68 *)
  Definition init : state := {| frags := []; known := []; store := [[]]; buffer := [] |}.

  Definition is_inter (f : frag) : bool := match f_src f with SInter _ => true | SFile _ => false end.

  (* hasInteractiveDefs :463 *)
  Definition has_interactive (s : state) : bool :=
    match frags s with f :: _ => is_inter f | [] => false end.

  Definition set_buffer (b : list chunk) (s : state) : state :=
    {| frags := frags s; known := known s; store := store s; buffer := b |}.

  (* popSourceFragment :445 (fixed, N2): restore the three checkpoints *)
  Definition pop_frag (s : state) : state :=
    match frags s with
    | [] => s
    | f :: r => {| frags := r; known := f_known_cp f; store := f_store_cp f; buffer := buffer s |}
    end.

  (* resetInteractiveDefs :468 *)
  Definition reset_interactive (b : list chunk) (s : state) : state :=
    set_buffer b (if has_interactive s then pop_frag s else s).

  (* pushSourceFragment :411 *)
  Definition push (sr : src) (p : prog) (s : state) : state :=
    {| frags := {| f_src := sr; f_prog := p; f_store_cp := store s; f_known_cp := known s |} :: frags s;
       known := k_add (p_decls p) (known s);
       store := [] :: store s;
       buffer := buffer s |}.

  (* every write of the engine goes through TeeingStore.Add / TeeingTemporalStore.Add: top layer only *)
  Definition add_top (fs : list fact) (s : state) : state :=
    {| frags := frags s; known := known s;
       store := match store s with l :: r => (l ++ fs) :: r | [] => [fs] end;
       buffer := buffer s |}.

  Definition visible (s : state) : list fact := concat (store s).

  (* evalProgram :422 *)
  Definition eval_program (p : prog) (s : state) : state * bool :=
    let '(fs, ok) := eval p (visible s) in (add_top fs s, ok).

  (* saveInteractiveDefs (fix N5): the closure puts buffer, interactive fragment, known
     table and stores back. [saved] is the state when the closure was made, [cur] the
     state when it is called. *)
  Definition restore (saved cur : state) : state :=
    match frags saved with
    | f :: _ => if is_inter f
                then {| frags := f :: frags cur; known := known saved; store := store saved; buffer := buffer saved |}
                else set_buffer (buffer saved) cur
    | [] => set_buffer (buffer saved) cur
    end.

  (* Define :287 (fixed, N5) *)
  Definition define (t : chunk) (s : state) : state * result :=
    let b := buffer s ++ [t] in
    if negb (parse (SInter b)) then (s, RParse) else
    let s1 := reset_interactive b s in
    match analyse (SInter b) (known s1) with
    | None => (restore s s1, RAnalysis)
    | Some p =>
        let '(s3, ok) := eval_program p (push (SInter b) p s1) in
        if ok then (s3, ROk) else (restore s (pop_frag s3), REval)
    end.

  (* Load :183 + pushLoadedFragment :207 (fixed, N32). The interactive definitions are dropped
     first, whatever happens next; a fragment whose evaluation fails is popped again. *)
  Definition load (p : path) (s : state) : state * result :=
    let s1 := reset_interactive [] s in
    if negb (parse (SFile p)) then (s1, RParse) else
    match analyse (SFile p) (known s1) with
    | None => (s1, RAnalysis)
    | Some pr =>
        let '(s3, ok) := eval_program pr (push (SFile p) pr s1) in
        if ok then (s3, ROk) else (pop_frag s3, REval)
    end.

  (* Pop :319 *)
  Definition pop (s : state) : state :=
    match frags s with
    | [] => s
    | _ => if has_interactive s then reset_interactive [] s else pop_frag s
    end.

  (* ParseQuery :214 on a predicate name, then Query :238 *)
  Definition query (s : state) (q : pred) : option (list fact) :=
    if k_mem q (known s) then Some (filter (fun f => fst f =? q) (visible s)) else None.

  Definition step (s : state) (c : cmd) : state * result :=
    match c with
    | CDefine t => define t s
    | CLoad p => load p s
    | CPop => (pop s, ROk)
    | CQuery q => (s, if k_mem q (known s) then ROk else RUnknown)
    end.

  Fixpoint run_from (s : state) (cs : list cmd) : state :=
    match cs with [] => s | c :: r => run_from (fst (step s c)) r end.
  Definition run (cs : list cmd) : state := run_from init cs.

  Fixpoint results_from (s : state) (cs : list cmd) : list result :=
    match cs with [] => [] | c :: r => snd (step s c) :: results_from (fst (step s c)) r end.

  (* ---- the live commands of a history (most recent first while computing) ---- *)
  Definition is_define (c : cmd) : bool := match c with CDefine _ => true | _ => false end.
  Fixpoint strip_defs (l : list cmd) : list cmd :=
    match l with c :: r => if is_define c then strip_defs r else l | [] => [] end.

  (* [s] is the state in which [c] is executed. All interactive definitions form ONE
     fragment: a successful define joins it, a Load (successful or not) or a Pop ends it;
     a successful Load is live until a Pop without interactive definitions removes the last
     loaded fragment. *)
  Definition live_step (s : state) (c : cmd) (l : list cmd) : list cmd :=
    match c with
    | CDefine _ => if is_ok (snd (step s c)) then c :: l else l
    | CLoad _ => if pushed (snd (step s c)) then c :: strip_defs l else strip_defs l
    | CPop => if has_interactive s then strip_defs l else tl l
    | CQuery _ => l
    end.
  Fixpoint live_from (s : state) (l : list cmd) (cs : list cmd) : list cmd :=
    match cs with [] => l | c :: r => live_from (fst (step s c)) (live_step s c l) r end.
  Definition live (cs : list cmd) : list cmd := rev (live_from init [] cs).

  (* ---- behaviour of the tree before the fixes, for the refutation witnesses ---- *)
  (* popSourceFragment before N2: delete every predicate of the fragment's Decls *)
  Definition pop_frag_old (s : state) : state :=
    match frags s with
    | [] => s
    | f :: r => {| frags := r; known := k_del (p_decls (f_prog f)) (known s); store := f_store_cp f; buffer := buffer s |}
    end.
  Definition reset_interactive_old (b : list chunk) (s : state) : state :=
    set_buffer b (if has_interactive s then pop_frag_old s else s).
  (* Define before N5: nothing is put back *)
  Definition define_old (popf : state -> state) (t : chunk) (s : state) : state * result :=
    let b := buffer s ++ [t] in
    if negb (parse (SInter b)) then (s, RParse) else
    let s1 := set_buffer b (if has_interactive s then popf s else s) in
    match analyse (SInter b) (known s1) with
    | None => (s1, RAnalysis)
    | Some p =>
        let '(s3, ok) := eval_program p (push (SInter b) p s1) in
        (s3, if ok then ROk else REval)
    end.
  (* Load before N32 (fixN32 = false): the fragment stays pushed when evaluation fails *)
  Definition load_old (popf : state -> state) (fixN32 : bool) (p : path) (s : state) : state * result :=
    let s1 := set_buffer [] (if has_interactive s then popf s else s) in
    if negb (parse (SFile p)) then (s1, RParse) else
    match analyse (SFile p) (known s1) with
    | None => (s1, RAnalysis)
    | Some pr =>
        let '(s3, ok) := eval_program pr (push (SFile p) pr s1) in
        if ok then (s3, ROk) else (if fixN32 then popf s3 else s3, REval)
    end.
  Definition pop_old (popf : state -> state) (s : state) : state :=
    match frags s with
    | [] => s
    | _ => if has_interactive s then set_buffer [] (popf s) else popf s
    end.
  (* fixN2 = false: old pop; fixN5 = false: old define; fixN32 = false: old load *)
  Definition step_var (fixN2 fixN5 fixN32 : bool) (s : state) (c : cmd) : state * result :=
    let popf := if fixN2 then pop_frag else pop_frag_old in
    match c with
    | CDefine t => if fixN5 then define t s else define_old popf t s
    | CLoad p => load_old popf fixN32 p s
    | CPop => (pop_old popf s, ROk)
    | CQuery q => (s, if k_mem q (known s) then ROk else RUnknown)
    end.
  Fixpoint run_var (fixN2 fixN5 fixN32 : bool) (s : state) (cs : list cmd) : state :=
    match cs with [] => s | c :: r => run_var fixN2 fixN5 fixN32 (fst (step_var fixN2 fixN5 fixN32 s c)) r end.

  (* Before N30 i.sourceFragments was a map keyed by pathset beside the stack i.src. A push
     stored map[pathset] = fragment (overwriting an entry of the same pathset), a pop looked
     the top pathset of i.src up, deleted the entry and dereferenced what it had found. The
     entry found, if any, is the fragment pushed last under that pathset, which is the top of
     the stack; so the old code behaves like the fixed one except that a pop whose pathset
     has no entry any more panics. [keys] = the pathsets that have an entry; None = panic.
     (The interactive fragment has the fixed key "interactive-buffer" and is never on the
     stack twice: Define pops it before it pushes the next one.) *)
  Definition key_mem (p : path) (keys : list path) : bool := existsb (Z.eqb p) keys.
  Definition key_del (p : path) (keys : list path) : list path := filter (fun q => negb (p =? q)) keys.
  Definition step_keyed (sk : state * list path) (c : cmd) : option (state * list path) :=
    let '(s, keys) := sk in
    match c with
    | CLoad p => Some (fst (step s c),
                       match snd (step s c) with
                       | ROk => p :: key_del p keys
                       | REval => key_del p keys      (* pushed, then popped again: the entry is deleted *)
                       | _ => keys
                       end)
    | CPop =>
        match frags s with
        | [] => Some (s, keys)
        | f :: _ =>
            match f_src f with
            | SInter _ => Some (pop s, keys)
            | SFile p => if key_mem p keys then Some (pop s, key_del p keys) else None
            end
        end
    | _ => Some (fst (step s c), keys)
    end.
  Fixpoint run_keyed (sk : state * list path) (cs : list cmd) : option (state * list path) :=
    match cs with
    | [] => Some sk
    | c :: r => match step_keyed sk c with Some sk' => run_keyed sk' r | None => None end
    end.
End Interp.

Arguments init {prog}.
Arguments frags {prog}. Arguments known {prog}. Arguments store {prog}. Arguments buffer {prog}.
Arguments f_src {prog}. Arguments f_prog {prog}. Arguments f_store_cp {prog}. Arguments f_known_cp {prog}.
Arguments has_interactive {prog}. Arguments is_inter {prog}. Arguments set_buffer {prog}.
Arguments pop_frag {prog}. Arguments reset_interactive {prog}. Arguments add_top {prog}.
Arguments visible {prog}. Arguments restore {prog}. Arguments pop {prog}. Arguments query {prog}.
