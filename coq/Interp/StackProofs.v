(* Proofs about the interpreter model Interp/Stack.v. *)
From Coq Require Import List ZArith Bool Lia.
From MV Require Import Interp.Stack.
Import ListNotations.
Open Scope Z_scope.

Section Proofs.
  Variable prog : Type.
  Variable p_decls : prog -> list (pred * declid).
  Variable parse : src -> bool.
  Variable analyse : src -> ktab -> option prog.
  Variable eval : prog -> list fact -> list fact * bool.

  Notation state := (state prog).
  Notation push := (push prog p_decls).
  Notation eval_program := (eval_program prog eval).
  Notation define := (define prog p_decls parse analyse eval).
  Notation load := (load prog p_decls parse analyse eval).
  Notation step := (step prog p_decls parse analyse eval).
  Notation run_from := (run_from prog p_decls parse analyse eval).
  Notation run := (run prog p_decls parse analyse eval).
  Notation results_from := (results_from prog p_decls parse analyse eval).
  Notation live_step := (live_step prog p_decls parse analyse eval).
  Notation live_from := (live_from prog p_decls parse analyse eval).
  Notation live := (live prog p_decls parse analyse eval).

  (* ---------------------------------------------------------------- basics *)
  Lemma state_eta : forall s : state,
    {| frags := frags s; known := known s; store := store s; buffer := buffer s |} = s.
  Proof. destruct s; reflexivity. Qed.

  Lemma set_buffer_same : forall s : state, set_buffer (buffer s) s = s.
  Proof. destruct s; reflexivity. Qed.

  Lemma set_buffer_twice : forall b c (s : state), set_buffer b (set_buffer c s) = set_buffer b s.
  Proof. reflexivity. Qed.

  (* popping what was just pushed (and filled) gives back the state before the push *)
  Lemma pop_push : forall sr p fs (s : state), pop_frag (add_top fs (push sr p s)) = s.
  Proof. intros. destruct s; reflexivity. Qed.

  Lemma eval_program_shape : forall p (s : state),
    exists fs ok, eval_program p s = (add_top fs s, ok).
  Proof. intros. unfold Stack.eval_program. destruct (eval p (visible s)) as [fs ok]. eauto. Qed.

  Lemma has_interactive_push : forall sr p fs (s : state),
    has_interactive (add_top fs (push sr p s)) = match sr with SInter _ => true | SFile _ => false end.
  Proof. reflexivity. Qed.

  (* the closure of saveInteractiveDefs undoes resetInteractiveDefs exactly *)
  Lemma restore_reset : forall b (s : state), restore s (reset_interactive b s) = s.
  Proof.
    intros b s. unfold restore, reset_interactive, has_interactive, pop_frag.
    destruct s as [fr k st bu]; simpl. destruct fr as [|f r]; simpl; [reflexivity|].
    destruct (is_inter f); reflexivity.
  Qed.

  (* ------------------------------------------ a rejected define is a no-op *)
  Lemma define_cases : forall t (s : state),
    (define t s = (s, RParse)) \/ (define t s = (s, RAnalysis)) \/ (define t s = (s, REval)) \/
    (exists p fs, define t s =
       (add_top fs (push (SInter (buffer s ++ [t])) p (reset_interactive (buffer s ++ [t]) s)), ROk)).
  Proof.
    intros t s. unfold Stack.define.
    destruct (parse (SInter (buffer s ++ [t]))); cbn [negb]; [|left; reflexivity].
    set (b := buffer s ++ [t]).
    destruct (analyse (SInter b) (known (reset_interactive b s))) as [p|].
    - destruct (eval_program_shape p (push (SInter b) p (reset_interactive b s))) as [fs [ok E]].
      rewrite E. destruct ok.
      + right; right; right. eauto.
      + right; right; left. rewrite pop_push, restore_reset. reflexivity.
    - right; left. rewrite restore_reset. reflexivity.
  Qed.

  Lemma rejected_define_noop_l : forall t (s : state), snd (define t s) <> ROk -> fst (define t s) = s.
  Proof.
    intros t s H. destruct (define_cases t s) as [E|[E|[E|[p [fs E]]]]]; rewrite E in *; simpl in *; try reflexivity.
    congruence.
  Qed.

  Lemma define_ok_shape : forall t (s s' : state), define t s = (s', ROk) ->
    exists p fs, s' = add_top fs (push (SInter (buffer s ++ [t])) p (reset_interactive (buffer s ++ [t]) s)).
  Proof.
    intros t s s' H. destruct (define_cases t s) as [E|[E|[E|[p [fs E]]]]]; rewrite E in H; inversion H; eauto.
  Qed.

  (* ------------------------------------------------------- well-formedness *)
  (* only the top fragment can be the interactive one; without it the buffer is empty *)
  Definition wf (s : state) : Prop :=
    forallb (fun f => negb (is_inter f)) (tl (frags s)) = true /\
    (has_interactive s = false -> buffer s = []).

  Lemma reset_no_interactive : forall b (s : state), wf s -> has_interactive (reset_interactive b s) = false.
  Proof.
    intros b s [W _]. unfold reset_interactive, has_interactive, pop_frag.
    destruct s as [fr k st bu]; simpl in *. destruct fr as [|f r]; simpl in *; [reflexivity|].
    destruct (is_inter f) eqn:E; simpl; [|exact E].
    destruct r as [|g r']; simpl in *; [reflexivity|].
    apply andb_true_iff in W. destruct W as [W _]. now apply negb_true_iff in W.
  Qed.

  Lemma reset_frags_files : forall b (s : state), wf s ->
    forallb (fun f => negb (is_inter f)) (frags (reset_interactive b s)) = true.
  Proof.
    intros b s [W _]. unfold reset_interactive, has_interactive, pop_frag.
    destruct s as [fr k st bu]; simpl in *. destruct fr as [|f r]; simpl in *; [reflexivity|].
    destruct (is_inter f) eqn:E; simpl; [exact W|]. rewrite E. simpl. exact W.
  Qed.

  Lemma reset_idem : forall b c (s : state), wf s ->
    reset_interactive b (reset_interactive c s) = reset_interactive b s.
  Proof.
    intros b c s W. unfold reset_interactive at 1. rewrite (reset_no_interactive c s W).
    unfold reset_interactive. reflexivity.
  Qed.

  Lemma reset_noop : forall (s : state), wf s -> has_interactive s = false -> reset_interactive [] s = s.
  Proof.
    intros s [_ W] H. unfold reset_interactive. rewrite H. rewrite <- (W H). apply set_buffer_same.
  Qed.

  Lemma wf_init : wf (@init prog).
  Proof. split; reflexivity. Qed.

  Lemma wf_reset_nil : forall (s : state), wf s -> wf (reset_interactive [] s).
  Proof.
    intros s W. split.
    - pose proof (reset_frags_files [] s W) as F. destruct (frags (reset_interactive [] s)); simpl in *; [reflexivity|].
      apply andb_true_iff in F. tauto.
    - intros _. reflexivity.
  Qed.

  Lemma wf_push_reset : forall sr p fs b (s : state), wf s ->
    (match sr with SFile _ => b = [] | SInter _ => True end) ->
    wf (add_top fs (push sr p (reset_interactive b s))).
  Proof.
    intros sr p fs b s W Hb. split.
    - simpl. apply (reset_frags_files b s W).
    - rewrite has_interactive_push. destruct sr; [|discriminate]. intros _. simpl. exact Hb.
  Qed.

  Lemma load_cases : forall p (s : state),
    (exists r, load p s = (reset_interactive [] s, r) /\ pushed r = false) \/
    (exists pr fs r, load p s = (add_top fs (push (SFile p) pr (reset_interactive [] s)), r) /\ pushed r = true).
  Proof.
    intros p s. unfold Stack.load.
    destruct (parse (SFile p)); cbn [negb]; [|left; eauto].
    destruct (analyse (SFile p) (known (reset_interactive [] s))) as [pr|]; [|left; eauto].
    destruct (eval_program_shape pr (push (SFile p) pr (reset_interactive [] s))) as [fs [ok E]].
    rewrite E. destruct ok.
    - right. exists pr, fs, ROk. split; reflexivity.
    - left. exists REval. rewrite pop_push. split; reflexivity.
  Qed.

  (* a rejected load (missing file / parse error, analysis, evaluation) pushes nothing: all
     that is left of it is that the interactive definitions were dropped first *)
  Lemma rejected_load_l : forall p (s : state), snd (load p s) <> ROk -> fst (load p s) = reset_interactive [] s.
  Proof.
    intros p s H. destruct (load_cases p s) as [[r [E _]]|[pr [fs [r [E Hr]]]]]; rewrite E in *; simpl in *.
    - reflexivity.
    - destruct r; simpl in Hr; try discriminate. congruence.
  Qed.

  Lemma load_reset : forall p (s : state), wf s -> load p (reset_interactive [] s) = load p s.
  Proof. intros p s W. unfold Stack.load. rewrite (reset_idem [] [] s W). reflexivity. Qed.

  Lemma pop_cases : forall (s : state),
    pop s = if has_interactive s then reset_interactive [] s else pop_frag s.
  Proof.
    intros s. unfold pop. destruct s as [fr k st bu]. destruct fr; reflexivity.
  Qed.

  Lemma wf_pop_frag : forall (s : state), wf s -> has_interactive s = false -> wf (pop_frag s).
  Proof.
    intros s [W B] H. unfold pop_frag. destruct s as [fr k st bu]; simpl in *.
    destruct fr as [|f r]; simpl in *; [split; auto|].
    split; simpl.
    - destruct r; simpl in *; [reflexivity|]. apply andb_true_iff in W. tauto.
    - intros _. apply B. exact H.
  Qed.

  Lemma wf_step : forall (s : state) c, wf s -> wf (fst (step s c)).
  Proof.
    intros s c W. destruct c as [t|p| |q]; simpl.
    - destruct (define_cases t s) as [E|[E|[E|[p [fs E]]]]]; rewrite E; simpl; auto.
      apply wf_push_reset; auto.
    - destruct (load_cases p s) as [[r [E _]]|[pr [fs [r [E _]]]]]; rewrite E; simpl.
      + apply wf_reset_nil; auto.
      + apply wf_push_reset; auto.
    - rewrite pop_cases. destruct (has_interactive s) eqn:H.
      + apply wf_reset_nil; auto.
      + apply wf_pop_frag; auto.
    - destruct (k_mem q (known s)); exact W.
  Qed.

  Lemma wf_run_from : forall cs (s : state), wf s -> wf (run_from s cs).
  Proof. induction cs as [|c r IH]; intros s W; simpl; auto. apply IH. apply wf_step; auto. Qed.

  (* ----------------------------------------- pop undoes the matching push *)
  Lemma define_ok_base : forall t (s s' : state), define t s = (s', ROk) ->
    has_interactive s' = true /\ reset_interactive [] s' = reset_interactive [] s.
  Proof.
    intros t s s' H. destruct (define_ok_shape t s s' H) as [p [fs E]]. subst s'. split; [reflexivity|].
    unfold reset_interactive at 1. rewrite has_interactive_push, pop_push. reflexivity.
  Qed.

  Lemma load_pushed_base : forall p (s s' : state) r, wf s -> load p s = (s', r) -> pushed r = true ->
    has_interactive s' = false /\ buffer s' = [] /\ frags s' <> [] /\ pop_frag s' = reset_interactive [] s.
  Proof.
    intros p s s' r W H Hr. destruct (load_cases p s) as [[r' [E Hr']]|[pr [fs [r' [E _]]]]]; rewrite E in H; inversion H; subst.
    - congruence.
    - rewrite pop_push. repeat split; try reflexivity. simpl. discriminate.
  Qed.

  (* ------------------------------------------------------ the live commands *)
  Lemma run_from_app : forall a b (s : state), run_from s (a ++ b) = run_from (run_from s a) b.
  Proof. induction a as [|c a IH]; intros; simpl; auto. Qed.

  (* [Replay s l]: the list [l] (most recent first) consists of definitions and loads
     that all take effect when replayed on a fresh interpreter, and that replay ends in [s] *)
  Inductive Replay : state -> list cmd -> Prop :=
  | Replay_nil : Replay init []
  | Replay_load : forall s l p s' r, Replay s l -> has_interactive s = false ->
      load p s = (s', r) -> pushed r = true -> Replay s' (CLoad p :: l)
  | Replay_def : forall s l t s', Replay s l -> define t s = (s', ROk) -> Replay s' (CDefine t :: l).

  Lemma Replay_run : forall s l, Replay s l -> run (rev l) = s.
  Proof.
    induction 1 as [|s l p s' r R IH Hi Hl Hp|s l t s' R IH Hd]; [reflexivity| |].
    - simpl. unfold Stack.run in *. rewrite run_from_app, IH. simpl. rewrite Hl. reflexivity.
    - simpl. unfold Stack.run in *. rewrite run_from_app, IH. simpl. rewrite Hd. reflexivity.
  Qed.

  Lemma Replay_wf : forall s l, Replay s l -> wf s.
  Proof.
    induction 1 as [|s l p s' r R IH Hi Hl Hp|s l t s' R IH Hd]; [apply wf_init| |].
    - replace s' with (fst (step s (CLoad p))) by (simpl; rewrite Hl; reflexivity). apply wf_step; auto.
    - replace s' with (fst (step s (CDefine t))) by (simpl; rewrite Hd; reflexivity). apply wf_step; auto.
  Qed.

  Lemma Replay_results : forall s l, Replay s l ->
    Forall (fun r => pushed r = true) (results_from init (rev l)).
  Proof.
    assert (RA : forall a b (s : state), results_from s (a ++ b) = results_from s a ++ results_from (run_from s a) b).
    { induction a as [|c a IH]; intros; simpl; auto. rewrite IH. reflexivity. }
    induction 1 as [|s l p s' r R IH Hi Hl Hp|s l t s' R IH Hd]; [constructor| |].
    - simpl. rewrite RA. apply Forall_app. split; auto.
      pose proof (Replay_run _ _ R) as E. unfold Stack.run in E. rewrite E. simpl. rewrite Hl. simpl. auto.
    - simpl. rewrite RA. apply Forall_app. split; auto.
      pose proof (Replay_run _ _ R) as E. unfold Stack.run in E. rewrite E. simpl. rewrite Hd. simpl. auto.
  Qed.

  Lemma Replay_head : forall s l, Replay s l ->
    match l with
    | [] => frags s = []
    | c :: _ => frags s <> [] /\ has_interactive s = is_define c
    end.
  Proof.
    induction 1 as [|s l p s' r R IH Hi Hl Hp|s l t s' R IH Hd]; [reflexivity| |].
    - destruct (load_pushed_base p s s' r (Replay_wf _ _ R) Hl Hp) as [A [_ [B _]]]. split; auto.
    - destruct (define_ok_shape t s s' Hd) as [pr [fs E]]. subst s'. split; [simpl; discriminate|reflexivity].
  Qed.

  (* dropping the interactive definitions of a replay *)
  Lemma Replay_strip : forall s l, Replay s l -> Replay (reset_interactive [] s) (strip_defs l).
  Proof.
    induction 1 as [|s l p s' r R IH Hi Hl Hp|s l t s' R IH Hd].
    - simpl. rewrite reset_noop; [constructor|apply wf_init|reflexivity].
    - simpl. destruct (load_pushed_base p s s' r (Replay_wf _ _ R) Hl Hp) as [A [B _]].
      assert (W : wf s') by (apply (Replay_wf s' (CLoad p :: l)); econstructor; eauto).
      rewrite reset_noop; auto. econstructor; eauto.
    - simpl. destruct (define_ok_base t s s' Hd) as [_ E]. rewrite E. exact IH.
  Qed.

  (* popping the last loaded fragment of a replay *)
  Lemma Replay_pop_load : forall s p l, Replay s (CLoad p :: l) -> Replay (pop_frag s) l.
  Proof.
    intros s p l R. inversion R as [|s0 l0 p0 s' r R0 Hi Hl Hp|]; subst.
    destruct (load_pushed_base p s0 s r (Replay_wf _ _ R0) Hl Hp) as [_ [_ [_ E]]].
    rewrite E, reset_noop; auto. apply (Replay_wf _ _ R0).
  Qed.

  Lemma Replay_step : forall s l c, Replay s l -> Replay (fst (step s c)) (live_step s c l).
  Proof.
    intros s l c R. pose proof (Replay_wf _ _ R) as W. destruct c as [t|p| |q].
    - unfold Stack.live_step. simpl. destruct (define t s) as [s' r] eqn:E. simpl.
      destruct r; simpl; try (pose proof (rejected_define_noop_l t s) as N; rewrite E in N; simpl in N;
                              rewrite N by discriminate; exact R).
      econstructor; eauto.
    - unfold Stack.live_step. simpl.
      pose proof (Replay_strip _ _ R) as RS.
      destruct (load_cases p s) as [[r [E Hr]]|[pr [fs [r [E Hr]]]]]; rewrite E; simpl; rewrite Hr.
      + exact RS.
      + eapply Replay_load; [exact RS|apply reset_no_interactive; auto| |exact Hr].
        rewrite load_reset; auto.
    - unfold Stack.live_step. simpl. rewrite pop_cases. destruct (has_interactive s) eqn:H.
      + apply Replay_strip; auto.
      + pose proof (Replay_head _ _ R) as Hd. destruct l as [|c l']; simpl.
        * unfold pop_frag. rewrite Hd. exact R.
        * destruct Hd as [_ Hd]. rewrite H in Hd. destruct c; try discriminate; try (inversion R; fail).
          eapply Replay_pop_load; eauto.
    - simpl. destruct (k_mem q (known s)); exact R.
  Qed.

  Lemma Replay_live_from : forall cs s l, Replay s l -> Replay (run_from s cs) (live_from s l cs).
  Proof.
    induction cs as [|c cs IH]; intros s l R; simpl; auto. apply IH. apply Replay_step; auto.
  Qed.

  Lemma Replay_live : forall cs, Replay (run cs) (rev (live cs)).
  Proof.
    intros cs. unfold Stack.live. rewrite rev_involutive. apply Replay_live_from. constructor.
  Qed.

  (* the main theorem: the interpreter after any history is in the state of a fresh
     interpreter after the live commands *)
  Lemma run_live : forall cs, run cs = run (live cs).
  Proof.
    intros cs. pose proof (Replay_run _ _ (Replay_live cs)) as E. rewrite rev_involutive in E. auto.
  Qed.

  Lemma live_results : forall cs, Forall (fun r => pushed r = true) (results_from init (live cs)).
  Proof.
    intros cs. pose proof (Replay_results _ _ (Replay_live cs)) as E. rewrite rev_involutive in E. auto.
  Qed.

  Lemma live_only_defs_loads : forall cs c, In c (live cs) -> match c with CDefine _ | CLoad _ => True | _ => False end.
  Proof.
    intros cs c H. apply in_rev in H.
    assert (G : forall s l, Replay s l -> In c l -> match c with CDefine _ | CLoad _ => True | _ => False end).
    { induction 1 as [|s0 l0 p0 s1 r0 R0 IH0 Hi0 Hl0 Hp0|s0 l0 t0 s1 R0 IH0 Hd0]; simpl; intros HI.
      - contradiction.
      - destruct HI as [HE|HI]; [subst c; exact I|]. apply IH0. exact HI.
      - destruct HI as [HE|HI]; [subst c; exact I|]. apply IH0. exact HI. }
    apply (G _ _ (Replay_live_from cs init [] Replay_nil) H).
  Qed.

  Lemma stack_refines_replay_l : forall cs q, query (run cs) q = query (run (live cs)) q.
  Proof. intros. rewrite <- run_live. reflexivity. Qed.

  (* live is a fixed point: replaying the live commands keeps all of them *)
  Lemma live_step_Replay : forall s l c s', Replay s l ->
    match c with
    | CDefine t => define t s = (s', ROk)
    | CLoad p => has_interactive s = false /\ exists r, load p s = (s', r) /\ pushed r = true
    | _ => False
    end -> live_step s c l = c :: l.
  Proof.
    intros s l c s' R H. destruct c as [t|p| |q]; try contradiction.
    - unfold Stack.live_step. simpl. rewrite H. reflexivity.
    - destruct H as [Hi [r [Hl Hp]]]. unfold Stack.live_step. simpl. rewrite Hl. simpl. rewrite Hp.
      f_equal. pose proof (Replay_head _ _ R) as Hd. destruct l as [|c l']; [reflexivity|].
      destruct Hd as [_ Hd]. rewrite Hi in Hd. simpl. rewrite <- Hd. reflexivity.
  Qed.

  Lemma live_idempotent_l : forall cs, live (live cs) = live cs.
  Proof.
    intros cs. pose proof (Replay_live cs) as R. unfold Stack.live at 1.
    rewrite <- (rev_involutive (live cs)) at 2. f_equal.
    remember (rev (live cs)) as l eqn:El. rewrite <- (rev_involutive (live cs)), <- El.
    clear El. remember (run cs) as s eqn:Es. clear Es cs.
    assert (G : forall s l, Replay s l -> live_from init [] (rev l) = l /\ run_from init (rev l) = s).
    { clear. induction 1 as [|s l p s' r R [IH1 IH2] Hi Hl Hp|s l t s' R [IH1 IH2] Hd].
      - split; reflexivity.
      - assert (LA : forall a b s0 l0, live_from s0 l0 (a ++ b) = live_from (run_from s0 a) (live_from s0 l0 a) b).
        { induction a as [|c a IHa]; intros; simpl; auto. }
        simpl. rewrite LA, run_from_app, IH1, IH2. split.
        + change (live_step s (CLoad p) l = CLoad p :: l).
          apply (live_step_Replay s l (CLoad p) s' R). split; eauto.
        + simpl. rewrite Hl. reflexivity.
      - assert (LA : forall a b s0 l0, live_from s0 l0 (a ++ b) = live_from (run_from s0 a) (live_from s0 l0 a) b).
        { induction a as [|c a IHa]; intros; simpl; auto. }
        simpl. rewrite LA, run_from_app, IH1, IH2. split.
        + change (live_step s (CDefine t) l = CDefine t :: l).
          apply (live_step_Replay s l (CDefine t) s' R). exact Hd.
        + simpl. rewrite Hd. reflexivity. }
    apply (G s l R).
  Qed.

  (* ---------------------------------------------- pop is exact (corollaries) *)
  Lemma pop_after_load : forall cs p, has_interactive (run cs) = false ->
    pushed (snd (load p (run cs))) = true -> pop (fst (load p (run cs))) = run cs.
  Proof.
    intros cs p Hi Hp. pose proof (Replay_wf _ _ (Replay_live cs)) as W.
    destruct (load p (run cs)) as [s' r] eqn:E. simpl in *.
    destruct (load_pushed_base p (run cs) s' r W E Hp) as [A [_ [_ B]]].
    rewrite pop_cases, A, B. apply reset_noop; auto.
  Qed.

  Lemma pop_after_define : forall cs t, has_interactive (run cs) = false ->
    snd (define t (run cs)) = ROk -> pop (fst (define t (run cs))) = run cs.
  Proof.
    intros cs t Hi Hp. pose proof (Replay_wf _ _ (Replay_live cs)) as W.
    destruct (define t (run cs)) as [s' r] eqn:E. simpl in *. subst r.
    destruct (define_ok_base t (run cs) s' E) as [A B].
    rewrite pop_cases, A, B. apply reset_noop; auto.
  Qed.

  (* a rejected load in a reachable state without interactive definitions changes nothing *)
  Lemma rejected_load_noop_l : forall cs p, has_interactive (run cs) = false ->
    snd (load p (run cs)) <> ROk -> fst (load p (run cs)) = run cs.
  Proof.
    intros cs p Hi H. pose proof (Replay_wf _ _ (Replay_live cs)) as W.
    rewrite rejected_load_l by exact H. apply reset_noop; auto.
  Qed.

  (* in general a pop after a successful define drops ALL interactive definitions *)
  Lemma pop_after_define_gen : forall (s : state) t, snd (define t s) = ROk ->
    pop (fst (define t s)) = reset_interactive [] s.
  Proof.
    intros s t Hp. destruct (define t s) as [s' r] eqn:E. simpl in *. subst r.
    destruct (define_ok_base t s s' E) as [A B]. rewrite pop_cases, A, B. reflexivity.
  Qed.

  (* -------------------- checkpoints are exactly the layers below: nothing was written there *)
  Fixpoint layered (fr : list (frag prog)) (st : list (list fact)) : Prop :=
    match fr with
    | [] => st = [[]]
    | f :: r => exists top, st = top :: f_store_cp f /\ layered r (f_store_cp f)
    end.

  Lemma layered_reset : forall b (s : state), layered (frags s) (store s) ->
    layered (frags (reset_interactive b s)) (store (reset_interactive b s)).
  Proof.
    intros b s L. unfold reset_interactive, has_interactive, pop_frag. destruct s as [fr k st bu]; simpl in *.
    destruct fr as [|f r]; simpl in *; auto. destruct (is_inter f); simpl; auto.
    destruct L as [top [_ L]]. exact L.
  Qed.

  Lemma layered_push : forall sr p fs (s : state), layered (frags s) (store s) ->
    layered (frags (add_top fs (push sr p s))) (store (add_top fs (push sr p s))).
  Proof. intros. simpl. eexists. split; [reflexivity|assumption]. Qed.

  Lemma layered_step : forall (s : state) c, layered (frags s) (store s) ->
    layered (frags (fst (step s c))) (store (fst (step s c))).
  Proof.
    intros s c L. destruct c as [t|p| |q]; simpl.
    - destruct (define_cases t s) as [E|[E|[E|[p [fs E]]]]]; rewrite E; simpl fst; auto.
      apply layered_push. apply layered_reset. exact L.
    - destruct (load_cases p s) as [[r [E _]]|[pr [fs [r [E _]]]]]; rewrite E; simpl fst.
      + apply layered_reset; auto.
      + apply layered_push. apply layered_reset. exact L.
    - rewrite pop_cases. destruct (has_interactive s).
      + apply layered_reset; auto.
      + unfold pop_frag. destruct s as [fr k st bu]; simpl in *. destruct fr as [|f r]; simpl in *; auto.
        destruct L as [top [_ L]]. exact L.
    - destruct (k_mem q (known s)); exact L.
  Qed.

  Lemma layered_run : forall cs, layered (frags (run cs)) (store (run cs)).
  Proof.
    intros cs. unfold Stack.run.
    assert (G : forall cs (s : state), layered (frags s) (store s) -> layered (frags (run_from s cs)) (store (run_from s cs))).
    { induction cs0 as [|c r IH]; intros s L; simpl; auto. apply IH. apply layered_step. exact L. }
    apply G. reflexivity.
  Qed.

  (* one command never changes anything below the layer it works on *)
  Lemma lower_layers_untouched : forall (s : state) c, layered (frags s) (store s) ->
    has_interactive s = false -> (match c with CPop => False | _ => True end) ->
    exists top, store (fst (step s c)) = top :: tl (store (fst (step s c))) /\
                (tl (store (fst (step s c))) = store s \/ store (fst (step s c)) = store s).
  Proof.
    intros s c L Hi Hc.
    assert (RS : forall b, store (reset_interactive b s) = store s).
    { intros b. unfold reset_interactive. rewrite Hi. reflexivity. }
    assert (NE : exists top r, store s = top :: r).
    { destruct s as [fr k st bu]; simpl in *. destruct fr; simpl in L.
      - subst. eauto. - destruct L as [top [E _]]. eauto. }
    destruct NE as [top0 [r0 E0]].
    destruct c as [t|p| |q]; simpl; try contradiction.
    - destruct (define_cases t s) as [E|[E|[E|[p [fs E]]]]]; rewrite E; simpl fst;
        try (exists top0; rewrite E0; simpl; split; [reflexivity|right; reflexivity]).
      unfold add_top, Stack.push. cbn [store tl]. rewrite RS. eexists. split; [reflexivity|left; reflexivity].
    - destruct (load_cases p s) as [[r [E _]]|[pr [fs [r [E _]]]]]; rewrite E; simpl fst.
      + rewrite RS. exists top0. rewrite E0. simpl. split; [reflexivity|right; reflexivity].
      + unfold add_top, Stack.push. cbn [store tl]. rewrite RS. eexists. split; [reflexivity|left; reflexivity].
    - destruct (k_mem q (known s)); simpl; exists top0; rewrite E0; simpl; split; auto.
  Qed.
End Proofs.
