(* The interpreter model instantiated with finite tables for parse / analyse /
   eval.  The tables are what was observed on the Go side (correspondence
   runner) or small hand-written ones (examples, refutation witnesses).
   A key that is not in a table gives the failing default, so a model that
   asks something the implementation never asked disagrees visibly.
   No proofs in this file. *)
From Coq Require Import List ZArith Bool.
From MV Require Export Interp.Stack.
Import ListNotations.
Open Scope Z_scope.

Fixpoint list_eqb {A} (eqb : A -> A -> bool) (a b : list A) : bool :=
  match a, b with
  | [], [] => true
  | x :: a', y :: b' => eqb x y && list_eqb eqb a' b'
  | _, _ => false
  end.
Fixpoint remove1 {A} (eqb : A -> A -> bool) (x : A) (l : list A) : option (list A) :=
  match l with
  | [] => None
  | y :: l' => if eqb x y then Some l' else
               match remove1 eqb x l' with Some r => Some (y :: r) | None => None end
  end.
Fixpoint perm_eqb {A} (eqb : A -> A -> bool) (a b : list A) : bool :=
  match a with
  | [] => match b with [] => true | _ => false end
  | x :: a' => match remove1 eqb x b with Some b' => perm_eqb eqb a' b' | None => false end
  end.

Definition pair_eqb (x y : Z * Z) : bool := (fst x =? fst y) && (snd x =? snd y).
Definition src_eqb (a b : src) : bool :=
  match a, b with
  | SFile p, SFile q => p =? q
  | SInter x, SInter y => list_eqb Z.eqb x y
  | _, _ => false
  end.

(* a program is identified by a number; its Decls come with it *)
Definition tprog := (Z * list (pred * declid))%type.

Record tables := {
  t_parse : list (src * bool);
  t_analyse : list ((src * ktab) * option tprog);
  t_eval : list ((Z * list fact) * (list fact * bool)) }.

Fixpoint lookup {K V} (eqb : K -> K -> bool) (k : K) (t : list (K * V)) : option V :=
  match t with [] => None | (k', v) :: r => if eqb k k' then Some v else lookup eqb k r end.

Definition tb_parse (T : tables) (s : src) : bool :=
  match lookup src_eqb s (t_parse T) with Some b => b | None => false end.
Definition tb_analyse (T : tables) (s : src) (k : ktab) : option tprog :=
  match lookup (fun a b => src_eqb (fst a) (fst b) && list_eqb pair_eqb (snd a) (snd b)) (s, k) (t_analyse T) with
  | Some r => r | None => None end.
(* the facts a program can read are a set: compared up to order *)
Definition tb_eval (T : tables) (p : tprog) (vis : list fact) : list fact * bool :=
  match lookup (fun a b => (fst a =? fst b) && perm_eqb pair_eqb (snd a) (snd b)) (fst p, vis) (t_eval T) with
  | Some r => r | None => ([], false) end.

Definition tstate := state tprog.
Definition t_step (T : tables) : tstate -> cmd -> tstate * result :=
  step tprog snd (tb_parse T) (tb_analyse T) (tb_eval T).
Definition t_run (T : tables) : list cmd -> tstate :=
  run tprog snd (tb_parse T) (tb_analyse T) (tb_eval T).
Definition t_live (T : tables) : list cmd -> list cmd :=
  live tprog snd (tb_parse T) (tb_analyse T) (tb_eval T).
Definition t_step_var (T : tables) (fixN2 fixN5 fixN32 : bool) : tstate -> cmd -> tstate * result :=
  step_var tprog snd (tb_parse T) (tb_analyse T) (tb_eval T) fixN2 fixN5 fixN32.
Definition t_run_var (T : tables) (fixN2 fixN5 fixN32 : bool) : list cmd -> tstate :=
  run_var tprog snd (tb_parse T) (tb_analyse T) (tb_eval T) fixN2 fixN5 fixN32 init.
(* the tree before N30 (sourceFragments keyed by pathset); None = nil dereference in Pop *)
Definition t_run_keyed (T : tables) (cs : list cmd) : option (tstate * list path) :=
  run_keyed tprog snd (tb_parse T) (tb_analyse T) (tb_eval T) (init, []) cs.
