(* C06 - every fact store behaves as a set of ground atoms.
   Property theorems only; each is closed by an exact reference to a lemma.
   `run step st h` is the list of outputs of the history h; `out_covers x y`
   says: booleans and counts are equal, result lists are permutations of each
   other, and a predicate listing x lists at least the predicates of y. *)
From Coq Require Import List ZArith Bool Permutation.
From MV Require Import Store.AMap Store.SetSpec Store.Generic Store.Simple Store.Indexed Store.MultiIndexed Store.MultiIndexedArray
  Store.Wrappers Store.GenericProofs Store.SimpleProofs Store.ArrayProofs Store.IndexedProofs Store.MultiProofs Store.WrappersProofs Store.StoreTheorems.
Import ListNotations.
Open Scope Z_scope.

(* Lifting, used for every in-memory store kind: if the shard operations act on
   the shard's element list as the set operations do (record shard_ok, whose
   side condition ok2 relates an argument atom to the stored atoms), then the
   store - constants, shards by predicate, cached count, Merge - answers every
   history as the set machine does, whenever all atoms of the history satisfy
   the side condition pairwise. *)
Theorem inmemory_store_refines_set_if_its_shards_do :
  forall (T : Type) (I : shard_impl T) (elems : T -> list atom) (WF : pred -> T -> Prop)
         (ok2 : atom -> atom -> Prop),
    shard_ok I elems WF ok2 ->
    forall h : list op,
      (forall a b, In a (history_atoms h) -> In b (history_atoms h) -> ok2 a b) ->
      Forall2 out_covers (run (g_step I) g_empty h) (run s_step [] h).
Proof.
  intros T I elems WF ok2 SO h Hok.
  exact (refines_set_on I elems WF ok2 SO (history_atoms h) Hok h g_empty [] (R_empty I elems WF)
           (fun x (H : In x []) => match H with end) (incl_refl _)).
Qed.
Print Assumptions inmemory_store_refines_set_if_its_shards_do.
(* its hypothesis is met by the simple store's shard, for every hash function *)
Example shard_ok_satisfiable : forall hash, shard_ok (simple_impl hash) s_elems (s_WF hash) (s_ok2 hash).
Proof. exact simple_shard_ok. Qed.

(* SimpleInMemoryStore, for ALL hash functions and ALL histories in which no two
   distinct atoms have equal hashes. Full statement intended: the same with
   out_equiv in place of out_covers, i.e. ListPredicates lists exactly the set's
   predicates (the simple store deletes emptied shards); the proved part leaves
   that clause as "lists at least". *)
Theorem simple_refines_set_partial :
  forall (hash : atom -> Z) (h : list op),
    (forall a b, In a (history_atoms h) -> In b (history_atoms h) -> hash a = hash b -> a = b) ->
    Forall2 out_covers (run (g_step (simple_impl hash)) g_empty h) (run s_step [] h).
Proof. exact simple_refines. Qed.
Print Assumptions simple_refines_set_partial.
Example collision_free_satisfiable :
  let hash := fun a : atom => fst a * 1000 + fold_right Z.add 0 (snd a) in
  let h := [Add (0, [1]); Add (0, [2]); Remove (0, [1]); Query (0, [None]); Merge [(1, [1; 2]); (0, [2])]] in
  forall a b, In a (history_atoms h) -> In b (history_atoms h) -> hash a = hash b -> a = b.
Proof.
  intros hash h a b Ha Hb. simpl in Ha, Hb.
  repeat (destruct Ha as [<-|Ha]; [|]); try contradiction;
  repeat (destruct Hb as [<-|Hb]; [|]); try contradiction; vm_compute; congruence.
Qed.

(* IndexedInMemoryStore and MultiIndexedInMemoryStore: keyed by Atom.Hash() like
   the simple store (nothing compares atoms), so for ALL atom-hash and
   constant-hash functions and ALL histories in which no two distinct atoms
   have equal atom hashes. Collisions of the constant hashes (the argument
   index) are harmless. ListPredicates is "lists at least" (finding N8: these
   stores keep emptied shards, see listpreds_after_remove_refuted). *)
Theorem indexed_refines_set :
  forall (hash : atom -> Z) (chash : Z -> Z) (h : list op),
    (forall a b, In a (history_atoms h) -> In b (history_atoms h) -> hash a = hash b -> a = b) ->
    Forall2 out_covers (run (g_step (indexed_impl hash chash)) g_empty h) (run s_step [] h).
Proof. exact indexed_refines. Qed.
Print Assumptions indexed_refines_set.
Theorem multi_refines_set :
  forall (hash : atom -> Z) (chash : Z -> Z) (h : list op),
    (forall a b, In a (history_atoms h) -> In b (history_atoms h) -> hash a = hash b -> a = b) ->
    Forall2 out_covers (run (g_step (multi_impl hash chash)) g_empty h) (run s_step [] h).
Proof. exact multi_refines. Qed.
Print Assumptions multi_refines_set.
(* the hypothesis is collision_free_satisfiable above, with a constant-hash
   function that collides everywhere *)
Example indexed_multi_hypothesis_satisfiable :
  let hash := fun a : atom => fst a * 1000 + fold_right Z.add 0 (snd a) in
  let h := [Add (0, [1]); Add (0, [2]); Remove (0, [1]); Query (0, [None]); Merge [(1, [1; 2]); (0, [2])]] in
  Forall2 out_covers (run (g_step (multi_impl hash (fun _ => 0))) g_empty h) (run s_step [] h) /\
  Forall2 out_covers (run (g_step (indexed_impl hash (fun _ => 0))) g_empty h) (run s_step [] h).
Proof.
  intros hash h. split; [apply multi_refines|apply indexed_refines]; exact collision_free_satisfiable.
Qed.

(* F8: whenever two distinct atoms of one predicate have equal hashes - whatever
   the hash function - the simple store is not a set: the second Add reports
   "already there". *)
Theorem simple_collision_refuted :
  forall (hash : atom -> Z) (a b : atom),
    a <> b -> hash a = hash b -> pred_of a = pred_of b ->
    ~ Forall2 out_covers (run (g_step (simple_impl hash)) g_empty [Add a; Add b]) (run s_step [] [Add a; Add b]).
Proof. exact simple_collision. Qed.
Print Assumptions simple_collision_refuted.

(* MultiIndexedArrayInMemoryStore (the engine's delta store and the output store
   of every TeeingStore): for ALL atom-hash and constant-hash functions and ALL
   histories the store answers as the set machine. No condition on the hash
   functions: the store compares atoms inside a hash bucket. (ListPredicates is
   "lists at least": the store keeps emptied shards, finding N8, see
   listpreds_after_remove_refuted.) *)
Theorem array_refines_set :
  forall (hash : atom -> Z) (chash : Z -> Z) (h : list op),
    Forall2 out_covers (run (g_step (array_impl hash chash)) g_empty h) (run s_step [] h).
Proof. exact array_refines. Qed.
Print Assumptions array_refines_set.
(* the array shard meets the hypothesis of the lifting with the trivial side condition *)
Example array_shard_ok_holds :
  forall hash chash, shard_ok (array_impl hash chash) (a_elems) (a_WF hash chash) (fun _ _ => True).
Proof. exact array_shard_ok. Qed.
(* a test of the model, not a theorem: the same statement evaluated on a finite
   domain that forces every collision pattern - the three atoms p(0,1), p(1,1),
   p(1,0), atom hashes all equal / two equal / all different, constant hashes
   equal / different, every history of up to 3 operations out of 16. *)
Example array_collision_sweep :
  forall hv cv h, In hv u_hashes -> In cv u_chashes -> In h u_hists ->
    all2 out_coversb (run (g_step (array_impl (fun a => tbl hv (atom_ix a)) (tbl cv))) g_empty h)
                     (run s_step [] h) = true.
Proof. exact array_small. Qed.

(* N8 (listpreds_partial): an in-memory store in the refinement relation R with
   the set s (R is what every operation preserves, see the lifting) lists at
   least the predicates of s ... *)
Theorem listpreds_partial :
  forall (T : Type) (I : shard_impl T) (elems : T -> list atom) (WF : pred -> T -> Prop)
         (st : gstore T) (s : sset),
    R I elems WF st s -> incl (s_preds s) (g_preds st).
Proof. intros T I elems WF st s. exact (preds_cover I elems WF st s). Qed.
Print Assumptions listpreds_partial.
(* ... and the indexed and array stores list more: a predicate emptied by Remove
   stays listed (the simple store and the set do not list it). *)
Theorem listpreds_after_remove_refuted :
  run (g_step (indexed_impl h0 (fun c => c))) g_empty [Add pa; Remove pa; Preds] = [OB true; OB true; OP [(0, 1)]] /\
  run (g_step (array_impl h0 (fun c => c))) g_empty [Add pa; Remove pa; Preds] = [OB true; OB true; OP [(0, 1)]] /\
  run (g_step (simple_impl h0)) g_empty [Add pa; Remove pa; Preds] = [OB true; OB true; OP []] /\
  run s_step [] [Add pa; Remove pa; Preds] = [OB true; OB true; OP []].
Proof. exact listpreds_after_remove_witness. Qed.
Print Assumptions listpreds_after_remove_refuted.

(* TeeingStore over a base holding the set B and an output store holding O,
   B and O disjoint: every operation answers as the set B ++ O does, and Add
   keeps them disjoint. tee_add is the behaviour after fix F10, the predicate
   listing the behaviour after fix N6. *)
Theorem tee_add :
  forall (B O : sset), NoDup (B ++ O) -> forall a : atom,
    snd (o_add (tee_set B) a O) = snd (s_add a (B ++ O)) /\
    NoDup (B ++ fst (o_add (tee_set B) a O)) /\
    forall x, In x (B ++ fst (o_add (tee_set B) a O)) <-> In x (fst (s_add a (B ++ O))).
Proof. exact tee_add_ok. Qed.
Print Assumptions tee_add.
Example tee_disjoint_satisfiable : NoDup ([(0, [1]); (1, [])] ++ [(0, [2])]).
Proof. repeat constructor; simpl; intuition congruence. Qed.

Theorem tee_reads :
  forall (B O : sset),
    (forall a, o_contains (tee_set B) a O = s_mem a (B ++ O)) /\
    (forall q, o_query (tee_set B) q O = s_query q (B ++ O)) /\
    o_count (tee_set B) O = s_count (B ++ O) /\
    Permutation (o_preds (tee_set B) O) (s_preds (B ++ O)).
Proof.
  intros B O. exact (conj (tee_contains_ok B O) (conj (tee_query_ok B O) (conj (tee_count_ok B O) (tee_preds_ok B O)))).
Qed.
Print Assumptions tee_reads.

Theorem tee_remove_of_output_atom :
  forall (B O : sset) (a : atom), ~ In a B ->
    snd (o_remove (tee_set B) a O) = snd (s_remove a (B ++ O)) /\
    B ++ fst (o_remove (tee_set B) a O) = fst (s_remove a (B ++ O)).
Proof. exact tee_remove_ok. Qed.
Print Assumptions tee_remove_of_output_atom.

(* MergedStore over read stores holding the sets Bs and a write store holding W *)
Theorem merged_add :
  forall (Bs : list sset) (W : sset), NoDup (concat Bs ++ W) -> forall a : atom,
    snd (o_add (merged_set Bs) a W) = snd (s_add a (concat Bs ++ W)) /\
    NoDup (concat Bs ++ fst (o_add (merged_set Bs) a W)) /\
    forall x, In x (concat Bs ++ fst (o_add (merged_set Bs) a W)) <-> In x (fst (s_add a (concat Bs ++ W))).
Proof. exact merged_add_ok. Qed.
Print Assumptions merged_add.

Theorem merged_reads :
  forall (Bs : list sset) (W : sset),
    (forall a, o_contains (merged_set Bs) a W = s_mem a (concat Bs ++ W)) /\
    (forall q, o_query (merged_set Bs) q W = s_query q (concat Bs ++ W)) /\
    o_count (merged_set Bs) W = s_count (concat Bs ++ W).
Proof.
  intros Bs W. exact (conj (merged_contains_ok Bs W) (conj (merged_query_ok Bs W) (merged_count_ok Bs W))).
Qed.
Print Assumptions merged_reads.

(* F10 before the fix: Add of an atom of the base reported "new" *)
Theorem tee_add_prefix_refuted :
  snd (tee_add_prefix set_ops (view set_ops [pa]) pa []) = true /\ snd (s_add pa ([pa] ++ [])) = false.
Proof. exact tee_add_prefix_witness. Qed.
Print Assumptions tee_add_prefix_refuted.
(* N6 before the fix: q/1 in the base and q/2 in the output collapse to one entry *)
Theorem tee_listpreds_prefix_refuted :
  tee_preds_prefix set_ops (view set_ops [(1, [7])]) [(1, [7; 7])] = [(1, 2)] /\
  s_preds ([(1, [7])] ++ [(1, [7; 7])]) = [(1, 1); (1, 2)].
Proof. exact tee_preds_prefix_witness. Qed.
Print Assumptions tee_listpreds_prefix_refuted.
(* N7 (known): Merge into a wrapper copies an atom its read-only part holds *)
Theorem tee_merge_dup_refuted :
  o_query (tee_set [pa]) (0, [None]) (o_merge (tee_set [pa]) [pa] []) = [pa; pa] /\
  s_query (0, [None]) (s_merge [pa] ([pa] ++ [])) = [pa].
Proof. exact tee_merge_dup_witness. Qed.
Print Assumptions tee_merge_dup_refuted.
Theorem merged_merge_dup_refuted :
  o_query (merged_set [[pa]]) (0, [None]) (o_merge (merged_set [[pa]]) [pa] []) = [pa; pa] /\
  s_query (0, [None]) (s_merge [pa] (concat [[pa]] ++ [])) = [pa].
Proof. exact merged_merge_dup_witness. Qed.
Print Assumptions merged_merge_dup_refuted.
