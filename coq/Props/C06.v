(* C06 - every fact store behaves as a set of ground atoms.
   Property theorems only; each is closed by an exact reference to a lemma.
   `run step st h` is the list of outputs of the history h; `out_covers x y`
   says: booleans and counts are equal, result lists are permutations of each
   other, and a predicate listing x lists at least the predicates of y. *)
From Coq Require Import List ZArith Bool Permutation.
From MV Require Import Store.AMap Store.SetSpec Store.Generic Store.Simple Store.Indexed Store.MultiIndexed Store.MultiIndexedArray
  Store.Wrappers Store.GenericProofs Store.SimpleProofs Store.ArrayProofs Store.IndexedProofs Store.MultiProofs Store.WrappersProofs Store.ComposeProofs Store.ListPredsProofs Store.StoreTheorems.
Import ListNotations.
Open Scope Z_scope.

(* Lifting, used for every in-memory store kind: if the shard operations act on
   the shard's element list as the set operations do (record shard_ok, whose
   side condition ok2 relates an argument atom to the stored atoms), then the
   store - constants, shards by predicate, cached count, Merge - answers every
   history as the set machine does, whenever all atoms of the history satisfy
   the side condition pairwise. *)
Theorem inmemory_store_refines_set_if_its_shards_do :
  forall (T : Type) (I : shard_impl T) (elems : T -> list atom) (WF : pred -> T -> Prop)
         (ok2 : atom -> atom -> Prop),
    shard_ok I elems WF ok2 ->
    forall h : list op,
      (forall a b, In a (history_atoms h) -> In b (history_atoms h) -> ok2 a b) ->
      Forall2 out_covers (run (g_step I) g_empty h) (run s_step [] h).
Proof.
  intros T I elems WF ok2 SO h Hok.
  exact (refines_set_on I elems WF ok2 SO (history_atoms h) Hok h g_empty [] (R_empty I elems WF)
           (fun x (H : In x []) => match H with end) (incl_refl _)).
Qed.
Print Assumptions inmemory_store_refines_set_if_its_shards_do.
(* its hypothesis is met by the simple store's shard, for every hash function *)
Example shard_ok_satisfiable : forall hash, shard_ok (simple_impl hash) s_elems (s_WF hash) (s_ok2 hash).
Proof. exact simple_shard_ok. Qed.

(* SimpleInMemoryStore, for ALL hash functions and ALL histories in which no two
   distinct atoms have equal hashes: every output equals the set machine's
   (out_equiv: booleans and counts equal, query results and predicate listings
   permutations of each other - ListPredicates lists exactly the set's
   predicates, because the simple store deletes emptied shards). *)
Theorem simple_refines_set :
  forall (hash : atom -> Z) (h : list op),
    (forall a b, In a (history_atoms h) -> In b (history_atoms h) -> hash a = hash b -> a = b) ->
    Forall2 out_equiv (run (g_step (simple_impl hash)) g_empty h) (run s_step [] h).
Proof. exact simple_refines_exactly. Qed.
Print Assumptions simple_refines_set.
Example collision_free_satisfiable :
  let hash := fun a : atom => fst a * 1000 + fold_right Z.add 0 (snd a) in
  let h := [Add (0, [1]); Add (0, [2]); Remove (0, [1]); Query (0, [None]); Merge [(1, [1; 2]); (0, [2])]] in
  forall a b, In a (history_atoms h) -> In b (history_atoms h) -> hash a = hash b -> a = b.
Proof.
  intros hash h a b Ha Hb. simpl in Ha, Hb.
  repeat (destruct Ha as [<-|Ha]; [|]); try contradiction;
  repeat (destruct Hb as [<-|Hb]; [|]); try contradiction; vm_compute; congruence.
Qed.

(* IndexedInMemoryStore and MultiIndexedInMemoryStore: keyed by Atom.Hash() like
   the simple store (nothing compares atoms), so for ALL atom-hash and
   constant-hash functions and ALL histories in which no two distinct atoms
   have equal atom hashes. Collisions of the constant hashes (the argument
   index) are harmless. ListPredicates is "lists at least" (finding N8: these
   stores keep emptied shards, see listpreds_after_remove_refuted). *)
Theorem indexed_refines_set :
  forall (hash : atom -> Z) (chash : Z -> Z) (h : list op),
    (forall a b, In a (history_atoms h) -> In b (history_atoms h) -> hash a = hash b -> a = b) ->
    Forall2 out_covers (run (g_step (indexed_impl hash chash)) g_empty h) (run s_step [] h).
Proof. exact indexed_refines. Qed.
Print Assumptions indexed_refines_set.
Theorem multi_refines_set :
  forall (hash : atom -> Z) (chash : Z -> Z) (h : list op),
    (forall a b, In a (history_atoms h) -> In b (history_atoms h) -> hash a = hash b -> a = b) ->
    Forall2 out_covers (run (g_step (multi_impl hash chash)) g_empty h) (run s_step [] h).
Proof. exact multi_refines. Qed.
Print Assumptions multi_refines_set.
(* the hypothesis is collision_free_satisfiable above, with a constant-hash
   function that collides everywhere *)
Example indexed_multi_hypothesis_satisfiable :
  let hash := fun a : atom => fst a * 1000 + fold_right Z.add 0 (snd a) in
  let h := [Add (0, [1]); Add (0, [2]); Remove (0, [1]); Query (0, [None]); Merge [(1, [1; 2]); (0, [2])]] in
  Forall2 out_covers (run (g_step (multi_impl hash (fun _ => 0))) g_empty h) (run s_step [] h) /\
  Forall2 out_covers (run (g_step (indexed_impl hash (fun _ => 0))) g_empty h) (run s_step [] h).
Proof.
  intros hash h. split; [apply multi_refines|apply indexed_refines]; exact collision_free_satisfiable.
Qed.

(* F8: whenever two distinct atoms of one predicate have equal hashes - whatever
   the hash function - the simple store is not a set: the second Add reports
   "already there". *)
Theorem simple_collision_refuted :
  forall (hash : atom -> Z) (a b : atom),
    a <> b -> hash a = hash b -> pred_of a = pred_of b ->
    ~ Forall2 out_covers (run (g_step (simple_impl hash)) g_empty [Add a; Add b]) (run s_step [] [Add a; Add b]).
Proof. exact simple_collision. Qed.
Print Assumptions simple_collision_refuted.

(* MultiIndexedArrayInMemoryStore (the engine's delta store and the output store
   of every TeeingStore): for ALL atom-hash and constant-hash functions and ALL
   histories the store answers as the set machine. No condition on the hash
   functions: the store compares atoms inside a hash bucket. (ListPredicates is
   "lists at least": the store keeps emptied shards, finding N8, see
   listpreds_after_remove_refuted.) *)
Theorem array_refines_set :
  forall (hash : atom -> Z) (chash : Z -> Z) (h : list op),
    Forall2 out_covers (run (g_step (array_impl hash chash)) g_empty h) (run s_step [] h).
Proof. exact array_refines. Qed.
Print Assumptions array_refines_set.
(* the array shard meets the hypothesis of the lifting with the trivial side condition *)
Example array_shard_ok_holds :
  forall hash chash, shard_ok (array_impl hash chash) (a_elems) (a_WF hash chash) (fun _ _ => True).
Proof. exact array_shard_ok. Qed.
(* a test of the model, not a theorem: the same statement evaluated on a finite
   domain that forces every collision pattern - the three atoms p(0,1), p(1,1),
   p(1,0), atom hashes all equal / two equal / all different, constant hashes
   equal / different, every history of up to 3 operations out of 16. *)
Example array_collision_sweep :
  forall hv cv h, In hv u_hashes -> In cv u_chashes -> In h u_hists ->
    all2 out_coversb (run (g_step (array_impl (fun a => tbl hv (atom_ix a)) (tbl cv))) g_empty h)
                     (run s_step [] h) = true.
Proof. exact array_small. Qed.

(* N8 (listpreds_partial): an in-memory store in the refinement relation R with
   the set s (R is what every operation preserves, see the lifting) lists at
   least the predicates of s ... *)
Theorem listpreds_partial :
  forall (T : Type) (I : shard_impl T) (elems : T -> list atom) (WF : pred -> T -> Prop)
         (st : gstore T) (s : sset),
    R I elems WF st s -> incl (s_preds s) (g_preds st).
Proof. intros T I elems WF st s. exact (preds_cover I elems WF st s). Qed.
Print Assumptions listpreds_partial.
(* ... and the indexed and array stores list more: a predicate emptied by Remove
   stays listed (the simple store and the set do not list it). *)
Theorem listpreds_after_remove_refuted :
  run (g_step (indexed_impl h0 (fun c => c))) g_empty [Add pa; Remove pa; Preds] = [OB true; OB true; OP [(0, 1)]] /\
  run (g_step (array_impl h0 (fun c => c))) g_empty [Add pa; Remove pa; Preds] = [OB true; OB true; OP [(0, 1)]] /\
  run (g_step (simple_impl h0)) g_empty [Add pa; Remove pa; Preds] = [OB true; OB true; OP []] /\
  run s_step [] [Add pa; Remove pa; Preds] = [OB true; OB true; OP []].
Proof. exact listpreds_after_remove_witness. Qed.
Print Assumptions listpreds_after_remove_refuted.

(* TeeingStore over a base holding the set B and an output store holding O,
   B and O disjoint: every operation answers as the set B ++ O does, and Add
   keeps them disjoint. tee_add is the behaviour after fix F10, the predicate
   listing the behaviour after fix N6. *)
Theorem tee_add :
  forall (B O : sset), NoDup (B ++ O) -> forall a : atom,
    snd (o_add (tee_set B) a O) = snd (s_add a (B ++ O)) /\
    NoDup (B ++ fst (o_add (tee_set B) a O)) /\
    forall x, In x (B ++ fst (o_add (tee_set B) a O)) <-> In x (fst (s_add a (B ++ O))).
Proof. exact tee_add_ok. Qed.
Print Assumptions tee_add.
Example tee_disjoint_satisfiable : NoDup ([(0, [1]); (1, [])] ++ [(0, [2])]).
Proof. repeat constructor; simpl; intuition congruence. Qed.

Theorem tee_reads :
  forall (B O : sset),
    (forall a, o_contains (tee_set B) a O = s_mem a (B ++ O)) /\
    (forall q, o_query (tee_set B) q O = s_query q (B ++ O)) /\
    o_count (tee_set B) O = s_count (B ++ O) /\
    Permutation (o_preds (tee_set B) O) (s_preds (B ++ O)).
Proof.
  intros B O. exact (conj (tee_contains_ok B O) (conj (tee_query_ok B O) (conj (tee_count_ok B O) (tee_preds_ok B O)))).
Qed.
Print Assumptions tee_reads.

Theorem tee_remove_of_output_atom :
  forall (B O : sset) (a : atom), ~ In a B ->
    snd (o_remove (tee_set B) a O) = snd (s_remove a (B ++ O)) /\
    B ++ fst (o_remove (tee_set B) a O) = fst (s_remove a (B ++ O)).
Proof. exact tee_remove_ok. Qed.
Print Assumptions tee_remove_of_output_atom.

(* MergedStore over read stores holding the sets Bs and a write store holding W *)
Theorem merged_add :
  forall (Bs : list sset) (W : sset), NoDup (concat Bs ++ W) -> forall a : atom,
    snd (o_add (merged_set Bs) a W) = snd (s_add a (concat Bs ++ W)) /\
    NoDup (concat Bs ++ fst (o_add (merged_set Bs) a W)) /\
    forall x, In x (concat Bs ++ fst (o_add (merged_set Bs) a W)) <-> In x (fst (s_add a (concat Bs ++ W))).
Proof. exact merged_add_ok. Qed.
Print Assumptions merged_add.

Theorem merged_reads :
  forall (Bs : list sset) (W : sset),
    (forall a, o_contains (merged_set Bs) a W = s_mem a (concat Bs ++ W)) /\
    (forall q, o_query (merged_set Bs) q W = s_query q (concat Bs ++ W)) /\
    o_count (merged_set Bs) W = s_count (concat Bs ++ W).
Proof.
  intros Bs W. exact (conj (merged_contains_ok Bs W) (conj (merged_query_ok Bs W) (merged_count_ok Bs W))).
Qed.
Print Assumptions merged_reads.

(* ---- Composition of the wrappers with stores that refine sets.
   o_step W st o is one operation of a history on the store given by its
   operations W (g_step I = o_step (g_ops I)); final step st h is the state
   after the history h. set_like W Rel D says: W simulates the set machine on
   the operations in D, with Rel relating store states to sets (every
   in-memory store whose shards act as sets is set_like: base_sim; a teeing /
   merged store over set_like components is set_like again: tee_sim,
   merged_sim, so the wrappers nest). The wrappers' documented domain: Remove
   only removes from the write store; a Merge brings no atom the read-only part
   holds (N7, see tee_merge_dup_refuted). *)
Theorem teeing_store_over_set_like_stores_refines_set :
  forall (S SB : Type) (Out : store_ops S) (WB : store_ops SB)
         (RelO : S -> sset -> Prop) (DO : op -> Prop) (RelB : SB -> sset -> Prop) (DB : op -> Prop) (U : atom -> Prop),
    set_like Out RelO DO -> set_like WB RelB DB ->
    ((forall a, U a -> DB (Contains a)) /\ (forall q, DB (Query q)) /\ DB Preds /\ DB Count) ->
    forall (stB : SB) (B : sset) (o : S) (O : sset), RelB stB B -> RelO o O -> NoDup (B ++ O) ->
    forall h : list op,
      Forall (fun x => DO x /\ (forall a, In a (op_atoms x) -> U a /\ DO (Contains a)) /\
                       match x with Remove a => ~ In a B | Merge l => forall y, In y l -> ~ In y B | _ => True end) h ->
      Forall2 out_covers (run (o_step (tee_ops Out (view WB stB))) o h) (run s_step (B ++ O) h).
Proof. exact @tee_run. Qed.
Print Assumptions teeing_store_over_set_like_stores_refines_set.

Theorem merged_store_over_set_like_stores_refines_set :
  forall (S : Type) (Out : store_ops S) (RelO : S -> sset -> Prop) (DO : op -> Prop) (U : atom -> Prop)
         (reads : list ro) (Bs : list sset),
    set_like Out RelO DO ->
    Forall2 (fun r B => NoDup B /\ (forall a, U a -> r_contains r a = s_mem a B) /\
                        (forall q, Permutation (r_query r q) (s_query q B)) /\
                        incl (s_preds B) (r_preds r) /\ Wrappers.r_count r = s_count B) reads Bs ->
    forall (o : S) (O : sset), RelO o O -> NoDup (concat Bs ++ O) ->
    forall h : list op,
      Forall (fun x => DO x /\ (forall a, In a (op_atoms x) -> U a /\ DO (Contains a)) /\
                       match x with Remove a => ~ In a (concat Bs) | Merge l => forall y, In y l -> ~ In y (concat Bs)
                                  | _ => True end) h ->
      Forall2 out_covers (run (o_step (merged_ops Out reads)) o h) (run s_step (concat Bs ++ O) h).
Proof. exact @merged_run. Qed.
Print Assumptions merged_store_over_set_like_stores_refines_set.
(* the hypotheses are met by every in-memory store (any universe U of pairwise
   compatible atoms), hence by the four kinds *)
Example set_like_satisfiable :
  forall hash chash,
    set_like (g_ops (array_impl hash chash)) (base_rel (array_impl hash chash) a_elems (a_WF hash chash) (fun _ => True))
             (in_dom (fun _ => True)) /\
    base_rel (array_impl hash chash) a_elems (a_WF hash chash) (fun _ => True) g_empty [].
Proof.
  intros hash chash. split; [|apply base_rel_empty].
  exact (base_sim (array_impl hash chash) a_elems (a_WF hash chash) (fun _ _ => True) (fun _ => True)
           (array_shard_ok hash chash) (fun _ _ _ _ => I)).
Qed.

(* TeeingStore whose base is an in-memory store of any kind IB filled by ANY
   history hB, and whose output store is a fresh in-memory store of any kind IO:
   on every history h in the documented domain it answers as the set that hB
   built, extended by h. kB, kO are the side conditions of the two kinds. *)
Theorem teeing_store_over_inmemory_stores_refines_set :
  forall (TB TO : Type) (IB : shard_impl TB) (IO : shard_impl TO)
         (eB : TB -> list atom) (wB : pred -> TB -> Prop) (kB : atom -> atom -> Prop)
         (eO : TO -> list atom) (wO : pred -> TO -> Prop) (kO : atom -> atom -> Prop),
    shard_ok IB eB wB kB -> shard_ok IO eO wO kO ->
    forall hB h : list op,
      (forall a b, In a (history_atoms (hB ++ h)) -> In b (history_atoms (hB ++ h)) -> kB a b /\ kO a b) ->
      Forall (fun x => match x with Remove a => ~ In a (final s_step [] hB)
                                  | Merge l => forall y, In y l -> ~ In y (final s_step [] hB) | _ => True end) h ->
      Forall2 out_covers
        (run (o_step (tee_ops (g_ops IO) (view (g_ops IB) (final (g_step IB) g_empty hB)))) g_empty h)
        (run s_step (final s_step [] hB) h).
Proof. exact @tee_inmemory. Qed.
Print Assumptions teeing_store_over_inmemory_stores_refines_set.

(* NewTeeingStore(base) makes the output store an array store. Over an array
   base: no condition on the hash functions at all. *)
Theorem teeing_store_over_array_store_refines_set :
  forall (hash : atom -> Z) (chash : Z -> Z) (hB h : list op),
    Forall (fun x => match x with Remove a => ~ In a (final s_step [] hB)
                                | Merge l => forall y, In y l -> ~ In y (final s_step [] hB) | _ => True end) h ->
    Forall2 out_covers
      (run (o_step (tee_ops (g_ops (array_impl hash chash))
                            (view (g_ops (array_impl hash chash)) (final (g_step (array_impl hash chash)) g_empty hB)))) g_empty h)
      (run s_step (final s_step [] hB) h).
Proof. exact tee_over_array. Qed.
Print Assumptions teeing_store_over_array_store_refines_set.
(* Over a simple base (the interpreter's tee): no two distinct hash-equal atoms. *)
Theorem teeing_store_over_simple_store_refines_set :
  forall (hash : atom -> Z) (chash : Z -> Z) (hB h : list op),
    (forall a b, In a (history_atoms (hB ++ h)) -> In b (history_atoms (hB ++ h)) -> hash a = hash b -> a = b) ->
    Forall (fun x => match x with Remove a => ~ In a (final s_step [] hB)
                                | Merge l => forall y, In y l -> ~ In y (final s_step [] hB) | _ => True end) h ->
    Forall2 out_covers
      (run (o_step (tee_ops (g_ops (array_impl hash chash))
                            (view (g_ops (simple_impl hash)) (final (g_step (simple_impl hash)) g_empty hB)))) g_empty h)
      (run s_step (final s_step [] hB) h).
Proof. exact tee_over_simple. Qed.
Print Assumptions teeing_store_over_simple_store_refines_set.
Example wrapper_domain_satisfiable :
  let hB := [Add (0, [1]); Add (1, [])] in
  let h := [Add (0, [2]); Add (0, [1]); Remove (0, [2]); Contains (0, [1]); Query (0, [None]); Preds; Count;
            Merge [(0, [3]); (2, [1; 2])]; Remove (0, [3])] in
  Forall (fun x => match x with Remove a => ~ In a (final s_step [] hB)
                              | Merge l => forall y, In y l -> ~ In y (final s_step [] hB) | _ => True end) h.
Proof.
  intros hB h. unfold h. repeat constructor; vm_compute; intuition congruence.
Qed.

(* MergedStore over read-only in-memory stores of a kind IB, each filled by its
   own history (pairwise disjoint contents: the documented domain), and a fresh
   write store of a kind IW. *)
Theorem merged_store_over_inmemory_stores_refines_set :
  forall (TB TW : Type) (IB : shard_impl TB) (IW : shard_impl TW)
         (eB : TB -> list atom) (wB : pred -> TB -> Prop) (kB : atom -> atom -> Prop)
         (eW : TW -> list atom) (wW : pred -> TW -> Prop) (kW : atom -> atom -> Prop),
    shard_ok IB eB wB kB -> shard_ok IW eW wW kW ->
    forall (hBs : list (list op)) (h : list op),
      (forall a b, In a (history_atoms (concat hBs ++ h)) -> In b (history_atoms (concat hBs ++ h)) -> kB a b /\ kW a b) ->
      NoDup (concat (map (final s_step []) hBs)) ->
      Forall (fun x => match x with Remove a => ~ In a (concat (map (final s_step []) hBs))
                                  | Merge l => forall y, In y l -> ~ In y (concat (map (final s_step []) hBs))
                                  | _ => True end) h ->
      Forall2 out_covers
        (run (o_step (merged_ops (g_ops IW) (map (fun hB => view (g_ops IB) (final (g_step IB) g_empty hB)) hBs))) g_empty h)
        (run s_step (concat (map (final s_step []) hBs)) h).
Proof. exact @merged_inmemory. Qed.
Print Assumptions merged_store_over_inmemory_stores_refines_set.
Example merged_components_disjoint_satisfiable :
  NoDup (concat (map (final s_step []) [[Add (0, [1]); Add (1, [])]; [Add (0, [2]); Add (0, [3]); Remove (0, [3])]])).
Proof. vm_compute. repeat constructor; simpl; intuition congruence. Qed.

(* F10 before the fix: Add of an atom of the base reported "new" *)
Theorem tee_add_prefix_refuted :
  snd (tee_add_prefix set_ops (view set_ops [pa]) pa []) = true /\ snd (s_add pa ([pa] ++ [])) = false.
Proof. exact tee_add_prefix_witness. Qed.
Print Assumptions tee_add_prefix_refuted.
(* N6 before the fix: q/1 in the base and q/2 in the output collapse to one entry *)
Theorem tee_listpreds_prefix_refuted :
  tee_preds_prefix set_ops (view set_ops [(1, [7])]) [(1, [7; 7])] = [(1, 2)] /\
  s_preds ([(1, [7])] ++ [(1, [7; 7])]) = [(1, 1); (1, 2)].
Proof. exact tee_preds_prefix_witness. Qed.
Print Assumptions tee_listpreds_prefix_refuted.
(* N7 (known): Merge into a wrapper copies an atom its read-only part holds *)
Theorem tee_merge_dup_refuted :
  o_query (tee_set [pa]) (0, [None]) (o_merge (tee_set [pa]) [pa] []) = [pa; pa] /\
  s_query (0, [None]) (s_merge [pa] ([pa] ++ [])) = [pa].
Proof. exact tee_merge_dup_witness. Qed.
Print Assumptions tee_merge_dup_refuted.
Theorem merged_merge_dup_refuted :
  o_query (merged_set [[pa]]) (0, [None]) (o_merge (merged_set [[pa]]) [pa] []) = [pa; pa] /\
  s_query (0, [None]) (s_merge [pa] (concat [[pa]] ++ [])) = [pa].
Proof. exact merged_merge_dup_witness. Qed.
Print Assumptions merged_merge_dup_refuted.
