(* C17 - a fact limit turns divergence into an error, never a silent partial result.
   (theorems under construction) *)
From Coq Require Import List ZArith.
From MV Require Import Datalog.Syntax Datalog.Interp Datalog.Solve Datalog.SemiNaive Datalog.Strata Datalog.Limit.
Import ListNotations.
