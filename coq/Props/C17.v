(* C17 - a fact limit turns divergence into an error, never a silent partial result.
   Property theorems only; each is closed by an exact reference to a lemma of
   Datalog/{LimitProofs,LimitLfp}.v. The model: Datalog/Limit.v = the C01 semi-naive
   model (engine.eval after fix F1) plus the four places where
   engine/seminaivebottomup.go compares with createdFactLimit / totalFactLimit.
   Quantified over every program, stratum list (any order of strata, of rules and of
   delta rules), caller's store, initial facts, limit and fuel. *)
From Coq Require Import List ZArith Arith.
From MV Require Import Datalog.Syntax Datalog.Interp Datalog.Solve Datalog.SemiNaive Datalog.Strata
     Datalog.Lfp Datalog.Limit Datalog.LimitProofs Datalog.LimitLfp Datalog.LimitConfig.
Import ListNotations.
Local Open Scope nat_scope.

(* ---- 1. a return without error is a return of the unlimited engine with the same store
   (no hypothesis on the program at all: pure simulation, same fuel) *)
Theorem limit_ok_simulates :
  forall (fuel L : nat) (P : list clause) (layers : list (list Z)) (store init S : list fact),
    eval_program_lim fuel L P layers store init = LOk S ->
    eval_program fuel P layers store init = Ok S.
Proof. exact eval_program_lim_ok. Qed.
Print Assumptions limit_ok_simulates.

(* ... hence, for a valid stratification, exactly the stratified least model over the
   base facts (with C01's theorem StrataProofs.eval_program_exact) *)
Theorem limit_ok_complete :
  forall (fuel L : nat) (P : list clause) (layers : list (list Z)) (store init S : list fact),
    valid_stratification P layers ->
    eval_program_lim fuel L P layers store init = LOk S ->
    forall f, In f S <-> slfp P layers (fun g => In g (add_all store init)) f.
Proof. exact eval_program_lim_complete. Qed.
Print Assumptions limit_ok_complete.

(* ---- 2. at every return, with or without error, the store holds at most
   |E| + (R + 2) * L facts: E = caller's facts + initial facts, R = the largest number
   of rules in one stratum (the first round of a stratum is only checked per rule) *)
Theorem limit_bound :
  forall (fuel L : nat) (P : list clause) (layers : list (list Z)) (store init S : list fact),
    1 <= L ->
    store_of (eval_program_lim fuel L P layers store init) = Some S ->
    length S <= length (add_all store init)
                + (max_rules (map (fun ps => mk_stratum P ps ps) layers) + 2) * L.
Proof. exact eval_program_lim_bound. Qed.
Print Assumptions limit_bound.

(* the same with the program size: no predicate listed twice in a layer *)
Theorem limit_bound_program :
  forall (fuel L : nat) (P : list clause) (layers : list (list Z)) (store init S : list fact),
    1 <= L -> Forall (@NoDup Z) layers ->
    store_of (eval_program_lim fuel L P layers store init) = Some S ->
    length S <= length (add_all store init) + (length P + 2) * L.
Proof. exact eval_program_lim_bound_P. Qed.
Print Assumptions limit_bound_program.

(* ---- 3. |store| + L + 1 rounds per stratum are never used up: every round that is not
   the last adds a fact the store did not have and leaves the store <= |store| + L *)
Theorem limit_terminates :
  forall (fuel L : nat) (P : list clause) (layers : list (list Z)) (store init : list fact),
    length store + L + 1 <= fuel ->
    eval_program_lim fuel L P layers store init <> LFuel.
Proof. exact eval_program_lim_fuel. Qed.
Print Assumptions limit_terminates.

(* ---- the property in one statement *)
Theorem limit_complete_or_error :
  forall (fuel L : nat) (P : list clause) (layers : list (list Z)) (store init : list fact),
    valid_stratification P layers -> 1 <= L -> length store + L + 1 <= fuel ->
    exists S,
      length S <= length (add_all store init) + (length P + 2) * L /\
      ((eval_program_lim fuel L P layers store init = LOk S /\
        forall f, In f S <-> slfp P layers (fun g => In g (add_all store init)) f)
       \/ eval_program_lim fuel L P layers store init = LLimit S
       \/ eval_program_lim fuel L P layers store init = LEval S).
Proof. exact eval_program_lim_total. Qed.
Print Assumptions limit_complete_or_error.

(* ================================================================ non-vacuity *)
Open Scope Z_scope.
(* p0(Y) :- p0(X), Y = fn:plus(X, 1).   diverges from p0(1) *)
Definition counter : clause :=
  mkClause (mkAtom 0 [TVar 2]) [PAtom (mkAtom 0 [TVar 1]); PEq (TVar 2) (TApp FPlus [TVar 1; TConst (CNum 1)])] [].
(* p0(Y) :- p0(X), X < 3, Y = fn:plus(X, 1).   finite: p0(0..3) *)
Definition bounded : clause :=
  mkClause (mkAtom 0 [TVar 2])
           [PAtom (mkAtom 0 [TVar 1]); PCmp Lt (TVar 1) (TConst (CNum 3));
            PEq (TVar 2) (TApp FPlus [TVar 1; TConst (CNum 1)])] [].

Lemma one_layer_valid (c : clause) :
  apred (chead c) = 0 -> pos_preds (cbody c) = [0] -> neg_preds (cbody c) = [] ->
  valid_stratification [c] [[0]].
Proof.
  intros Hh Hp Hn. split; [repeat constructor; simpl; tauto|].
  intros c' [<-|[]]. exists 0%nat. rewrite Hh, Hp, Hn. split; [reflexivity|]. split.
  - intros q [<-|[]]. simpl. constructor.
  - intros q [].
Qed.

(* hypotheses of limit_ok_complete / limit_ok_simulates: a valid stratification and an
   LOk outcome with four facts, under a limit that is exactly large enough *)
Example limit_ok_nonvacuous :
  valid_stratification [bounded] [[0]] /\
  eval_program_lim 9%nat 4%nat [bounded] [[0]] [] [(0, [CNum 0])]
  = LOk [(0, [CNum 0]); (0, [CNum 1]); (0, [CNum 2]); (0, [CNum 3])].
Proof. split; [apply one_layer_valid; reflexivity | vm_compute; reflexivity]. Qed.

(* ... and one fact less of limit turns the same program into an error, not into a
   shorter Ok result *)
Example limit_one_less_is_error :
  eval_program_lim 9%nat 3%nat [bounded] [[0]] [] [(0, [CNum 0])]
  = LLimit [(0, [CNum 0]); (0, [CNum 1]); (0, [CNum 2]); (0, [CNum 3])].
Proof. vm_compute; reflexivity. Qed.

(* hypotheses of limit_bound / limit_terminates on a program with an infinite least
   model: limit 5, fuel 0 + 5 + 1: the outcome is a limit error holding 6 facts
   (bound: 1 + (1 + 2) * 5 = 16), while the unlimited model uses up the same fuel *)
Example limit_diverging_nonvacuous :
  valid_stratification [counter] [[0]] /\
  (exists S, eval_program_lim 6%nat 5%nat [counter] [[0]] [] [(0, [CNum 1])] = LLimit S /\ length S = 6%nat) /\
  eval_program 6%nat [counter] [[0]] [] [(0, [CNum 1])] = OutOfFuel.
Proof.
  split; [apply one_layer_valid; reflexivity|]. split; [|vm_compute; reflexivity].
  eexists. split; vm_compute; reflexivity.
Qed.

(* ================================================================ refutations *)
(* The rule factor in the bound is real: the first round of a stratum has no check on
   the delta store (only the per-join check), so three rules of one stratum that each
   produce L = 4 facts put 12 facts into the store before the first total-size check.
   "store at return <= |E| + 2L + 1" (the bound first guessed in DESIGN section 5) fails:
   E = 2, L = 4, return with 14 facts > 11. *)
Definition prod (k : Z) : clause :=
  mkClause (mkAtom 1 [TVar 1; TVar 2; TConst (CNum k)])
           [PAtom (mkAtom 0 [TVar 1]); PAtom (mkAtom 0 [TVar 2])] [].

Theorem limit_bound_without_rule_factor_refuted :
  ~ (forall (fuel L : nat) (P : list clause) (layers : list (list Z)) (store init S : list fact),
       (1 <= L)%nat ->
       store_of (eval_program_lim fuel L P layers store init) = Some S ->
       (length S <= length (add_all store init) + 2 * L + 1)%nat).
Proof.
  intros H.
  specialize (H 9%nat 4%nat [prod 1; prod 2; prod 3] [[1]] [(0, [CNum 1]); (0, [CNum 2])] []).
  vm_compute in H. specialize (H _ (le_S _ _ (le_S _ _ (le_S _ _ (le_n 1)))) eq_refl).
  repeat (apply le_S_n in H). inversion H.
Qed.
Print Assumptions limit_bound_without_rule_factor_refuted.

(* The limit does not only count facts created by rules: totalFactLimit is taken from the
   caller's store BEFORE the facts of the program text are added (:222 vs :268), so the
   same finite program with the same limit succeeds when its 3 base facts come from the
   caller and stops with an error when they are written in the program. An error, not a
   partial Ok - the property holds - but "L >= number of derived facts suffices" is false. *)
Definition copy : clause :=
  mkClause (mkAtom 1 [TVar 2]) [PAtom (mkAtom 0 [TVar 1]); PEq (TVar 2) (TApp FPlus [TVar 1; TConst (CNum 100)])] [].
Definition base3 : list fact := [(0, [CNum 1]); (0, [CNum 2]); (0, [CNum 3])].

Theorem limit_counts_program_facts_refuted :
  ~ (forall (fuel L : nat) (P : list clause) (layers : list (list Z)) (store init S : list fact),
       eval_program_lim fuel L P layers store init = LOk S ->
       exists S', eval_program_lim fuel L P layers [] (store ++ init) = LOk S').
Proof.
  intros H.
  assert (E : eval_program_lim 9%nat 3%nat [copy] [[1]] base3 []
              = LOk [(0, [CNum 1]); (0, [CNum 2]); (0, [CNum 3]);
                     (1, [CNum 101]); (1, [CNum 102]); (1, [CNum 103])]) by (vm_compute; reflexivity).
  destruct (H _ _ _ _ _ _ _ E) as (S' & HS'). vm_compute in HS'. discriminate HS'.
Qed.
Print Assumptions limit_counts_program_facts_refuted.

(* The total-size check (S) on the ORDINARY store is what stops a slow recursion (one new
   fact per round: the per-join check (J) and the delta check (D) never see more than one
   fact). Witness p0(1). p0(Y) :- p0(X), Y = fn:plus(X,1). with L = 3: the model returns a
   limit error with 4 facts within limit_fuel rounds (bound 1 + (1+2)*3 = 10), the same
   loop without (S) - totalFactLimit = 0, which is what seeded change C17-3 left behind
   when a temporal store is configured - is still running after 50 rounds with 52 facts.
   "Configuring a temporal store does not change how the ordinary store is limited" is
   therefore part of the correspondence (checks/c17.py runs every limited evaluation with
   and without WithTemporalStore against this one model). *)
Theorem limit_without_store_check_refuted :
  (exists S, eval_program_lim (limit_fuel 3 0) 3%nat [counter] [[0]] [] [(0, [CNum 1])] = LLimit S /\
             length S = 4%nat /\ (length S <= limit_bound_fn 3 1 1)%nat) /\
  (exists S, eval_stratum_noS 50%nat 3%nat (rules_of [counter] [0]) (delta_rules [counter] [0] [0]) [(0, [CNum 1])]
             = TRunning S /\ length S = 52%nat /\ (limit_bound_fn 3 1 1 < length S)%nat).
Proof.
  split.
  - eexists. split; [vm_compute; reflexivity|]. split; [vm_compute; reflexivity|].
    apply Nat.leb_le. vm_compute. reflexivity.
  - eexists. split; [vm_compute; reflexivity|]. split; [vm_compute; reflexivity|].
    apply Nat.ltb_lt. vm_compute. reflexivity.
Qed.
Print Assumptions limit_without_store_check_refuted.
