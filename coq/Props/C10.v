(* C10 - no input text can crash the front end (the part a Gallina model carries:
   the byte-level decoders).  Property theorems only; each is closed by an exact
   reference to a lemma.  The parser runtime, visitor, analysis and engine are
   NOT covered by these theorems (they are exercised by the fuzz loop of
   checks/c10.py, which is a search, not a proof). *)
From Coq Require Import List ZArith Bool.
From MV Require Import Front.Unescape Front.UnescapeProofs Front.SimpleColumn Front.SimpleColumnProofs.
Import ListNotations.
Open Scope Z_scope.

(* ast.Unescape after fix N12a: for ALL byte strings and both modes the outcome
   is a value or an error - never an index/slice panic, never out of fuel. *)
Theorem unescape_total : forall (s : list Z) (isBytes : bool),
  (exists v, unescape true s isBytes = Val v) \/ unescape true s isBytes = Err.
Proof. exact unescape_total_lemma. Qed.
Print Assumptions unescape_total.

(* unescapeCharPrefix on any non-empty string: an error, or a value whose tail is strictly shorter
   (so the loop of Unescape terminates) *)
Theorem unescape_char_prefix_progress : forall (s : list Z) (isBytes : bool), s <> [] ->
  ucp true s isBytes = Err \/
  exists c enc t, ucp true s isBytes = Val (c, enc, t) /\ (length t < length s)%nat.
Proof. exact ucp_ok. Qed.
Print Assumptions unescape_char_prefix_progress.
Example unescape_char_prefix_progress_nonvacuous :
  [92; 117; 123; 101; 57; 125; 65] <> [] /\
  ucp true [92; 117; 123; 101; 57; 125; 65] false = Val (233, true, [65]).
Proof. split; [discriminate|vm_compute; reflexivity]. Qed.

(* a non-trivial value: "a\u{e9}\x41\n" followed by CR LF decodes to a, U+00E9 (2 bytes), A, LF, LF *)
Example unescape_value :
  unescape true [97; 92; 117; 123; 101; 57; 125; 92; 120; 52; 49; 92; 110; 13; 10] false
  = Val [97; 195; 169; 65; 10; 10].
Proof. vm_compute. reflexivity. Qed.

(* the code before N12a: `\u`, `\u{`, `\u{12` and seven hex digits at the end of input panic *)
Theorem unescape_prefix_refuted :
  unescape false [92; 117] false = Panic /\
  unescape false [92; 117; 123] false = Panic /\
  unescape false [92; 117; 123; 49; 50] false = Panic /\
  unescape false [92; 117; 123; 49; 50; 51; 52; 53; 54; 55] true = Panic.
Proof. exact unescape_prefix_refuted_lemma. Qed.
Print Assumptions unescape_prefix_refuted.

(* SimpleColumn.ReadInto after fixes N12b and N20: for EVERY behaviour of the
   library functions (Atoi, Sscanf, PredicateName, decoding of a body line) and
   EVERY list of lines the outcome is nil or an error class - never an index
   panic, never makeslice, never an allocation driven by the header alone. *)
Theorem sc_read_total : forall (L : lib) (ls : list bytes),
  snd (read_into fixed L ls) = ROk tt \/ exists e, snd (read_into fixed L ls) = RErr e.
Proof. exact sc_read_total_lemma. Qed.
Print Assumptions sc_read_total.

(* the same for every byte string split the way bufio.ScanLines splits it *)
Theorem sc_read_bytes_total : forall (L : lib) (s : bytes),
  snd (read_into fixed L (split_lines s)) = ROk tt \/ exists e, snd (read_into fixed L (split_lines s)) = RErr e.
Proof. intros L s. exact (sc_read_total_lemma L (split_lines s)). Qed.
Print Assumptions sc_read_bytes_total.

(* a non-trivial successful read: "1\np 1 2\n7\n8\n" stores p(7), p(8) *)
Example sc_read_value :
  read_into fixed demo_lib (split_lines [49; 10; 112; 32; 49; 32; 50; 10; 55; 10; 56; 10])
  = ([([112], 1, [[55]]); ([112], 1, [[56]])], ROk tt).
Proof. vm_compute. reflexivity. Qed.

(* the code before the fixes: empty body line -> text[0] panics; negative count -> makeslice panics;
   count 2^32 -> 2^32 rows requested for a 17-byte file (N20, still there with N12b alone);
   the repaired reader answers each with an error *)
Theorem sc_read_prefix_refuted :
  snd (read_into original demo_lib [[49]; [112; 32; 49; 32; 50]; [55]; []]) = RPanic /\
  snd (read_into original demo_lib [[49]; [112; 32; 49; 32; 45; 49]]) = RPanic /\
  snd (read_into only_n12 demo_lib [[49]; [112; 32; 49; 32; 52; 50; 57; 52; 57; 54; 55; 50; 57; 54]]) = ROom /\
  snd (read_into fixed demo_lib [[49]; [112; 32; 49; 32; 50]; [55]; []]) = RErr 1 /\
  snd (read_into fixed demo_lib [[49]; [112; 32; 49; 32; 45; 49]]) = RErr 3 /\
  snd (read_into fixed demo_lib [[49]; [112; 32; 49; 32; 52; 50; 57; 52; 57; 54; 55; 50; 57; 54]]) = RErr 1.
Proof. exact sc_read_prefix_refuted_lemma. Qed.
Print Assumptions sc_read_prefix_refuted.

(* Not proved here (DESIGN section 5 names it): desugar_rows_total - the bound rows indexed by
   arity in symbols/decldesugar.go:127-172 are not modelled; that code is reached only through
   parser-produced declarations and is exercised by the fuzz loop. *)
