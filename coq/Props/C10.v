(* C10 - no input text can crash the front end (the part a Gallina model carries:
   the byte-level decoders).  Property theorems only; each is closed by an exact
   reference to a lemma.  The parser runtime, visitor, analysis and engine are
   NOT covered by these theorems (they are exercised by the fuzz loop of
   checks/c10.py, which is a search, not a proof). *)
From Coq Require Import List ZArith Bool.
From MV Require Import Front.Unescape Front.UnescapeProofs Front.SimpleColumn Front.SimpleColumnProofs.
Import ListNotations.
Open Scope Z_scope.

(* ast.Unescape after fix N12a: for ALL byte strings and both modes the outcome
   is a value or an error - never an index/slice panic, never out of fuel. *)
Theorem unescape_total : forall (s : list Z) (isBytes : bool),
  (exists v, unescape true s isBytes = Val v) \/ unescape true s isBytes = Err.
Proof. exact unescape_total_lemma. Qed.
Print Assumptions unescape_total.

(* unescapeCharPrefix on any non-empty string: an error, or a value whose tail is strictly shorter
   (so the loop of Unescape terminates) *)
Theorem unescape_char_prefix_progress : forall (s : list Z) (isBytes : bool), s <> [] ->
  ucp true s isBytes = Err \/
  exists c enc t, ucp true s isBytes = Val (c, enc, t) /\ (length t < length s)%nat.
Proof. exact ucp_ok. Qed.
Print Assumptions unescape_char_prefix_progress.
Example unescape_char_prefix_progress_nonvacuous :
  [92; 117; 123; 101; 57; 125; 65] <> [] /\
  ucp true [92; 117; 123; 101; 57; 125; 65] false = Val (233, true, [65]).
Proof. split; [discriminate|vm_compute; reflexivity]. Qed.

(* a non-trivial value: "a\u{e9}\x41\n" followed by CR LF decodes to a, U+00E9 (2 bytes), A, LF, LF *)
Example unescape_value :
  unescape true [97; 92; 117; 123; 101; 57; 125; 92; 120; 52; 49; 92; 110; 13; 10] false
  = Val [97; 195; 169; 65; 10; 10].
Proof. vm_compute. reflexivity. Qed.

(* the code before N12a: `\u`, `\u{`, `\u{12` and seven hex digits at the end of input panic *)
Theorem unescape_prefix_refuted :
  unescape false [92; 117] false = Panic /\
  unescape false [92; 117; 123] false = Panic /\
  unescape false [92; 117; 123; 49; 50] false = Panic /\
  unescape false [92; 117; 123; 49; 50; 51; 52; 53; 54; 55] true = Panic.
Proof. exact unescape_prefix_refuted_lemma. Qed.
Print Assumptions unescape_prefix_refuted.

(* SimpleColumn.ReadInto after fixes N12b and N20: for EVERY behaviour of the
   library functions (Atoi, Sscanf, PredicateName, decoding of a body line) and
   EVERY list of lines the outcome is nil or an error class - never an index
   panic, never makeslice, never an allocation driven by the header alone. *)
Theorem sc_read_total : forall (L : lib) (ls : list bytes),
  snd (read_into fixed L ls) = ROk tt \/ exists e, snd (read_into fixed L ls) = RErr e.
Proof. exact sc_read_total_lemma. Qed.
Print Assumptions sc_read_total.

(* the same for every byte string split the way bufio.ScanLines splits it *)
Theorem sc_read_bytes_total : forall (L : lib) (s : bytes),
  snd (read_into fixed L (split_lines s)) = ROk tt \/ exists e, snd (read_into fixed L (split_lines s)) = RErr e.
Proof. intros L s. exact (sc_read_total_lemma L (split_lines s)). Qed.
Print Assumptions sc_read_bytes_total.

(* a non-trivial successful read: "1\np 1 2\n7\n8\n" stores p(7), p(8) *)
Example sc_read_value :
  read_into fixed demo_lib (split_lines [49; 10; 112; 32; 49; 32; 50; 10; 55; 10; 56; 10])
  = ([([112], 1, [[55]]); ([112], 1, [[56]])], ROk tt).
Proof. vm_compute. reflexivity. Qed.

(* the code before the fixes: empty body line -> text[0] panics; negative count -> makeslice panics;
   count 2^32 -> 2^32 rows requested for a 17-byte file (N20, still there with N12b alone);
   the repaired reader answers each with an error *)
Theorem sc_read_prefix_refuted :
  snd (read_into original demo_lib [[49]; [112; 32; 49; 32; 50]; [55]; []]) = RPanic /\
  snd (read_into original demo_lib [[49]; [112; 32; 49; 32; 45; 49]]) = RPanic /\
  snd (read_into only_n12 demo_lib [[49]; [112; 32; 49; 32; 52; 50; 57; 52; 57; 54; 55; 50; 57; 54]]) = ROom /\
  snd (read_into fixed demo_lib [[49]; [112; 32; 49; 32; 50]; [55]; []]) = RErr 1 /\
  snd (read_into fixed demo_lib [[49]; [112; 32; 49; 32; 45; 49]]) = RErr 3 /\
  snd (read_into fixed demo_lib [[49]; [112; 32; 49; 32; 52; 50; 57; 52; 57; 54; 55; 50; 57; 54]]) = RErr 1.
Proof. exact sc_read_prefix_refuted_lemma. Qed.
Print Assumptions sc_read_prefix_refuted.

(* ---- bound rows of a declaration (added when the check was strengthened after seeding).
   Model Front/DeclRows.v: the row test of analysis.CheckDecl and the arity-indexed row loop of
   symbols.desugarOneDecl (symbols/decldesugar.go:113-172); the recursive call for a reference to
   a unary predicate enters as the class of the cell, the theorems hold for every class. *)
From MV Require Import Front.DeclRows Front.DeclRowsProofs.
Close Scope Z_scope.

(* desugar_rows_total: for EVERY arity, every list of bound rows none of which is longer than the
   arity, every class of every entry and either value of the desugared() marker, desugarOneDecl
   ends in a value or an error - it never indexes past the arity-sized slice. *)
Theorem desugar_rows_total : forall (desugared : bool) (ar : nat) (rows : list (list cellk)),
  (forall r, In r rows -> length r <= ar) -> desugar_rows desugared ar rows <> DPanic.
Proof. exact desugar_rows_total_lemma. Qed.
Print Assumptions desugar_rows_total.

Example desugar_rows_total_value :
  (forall r, In r [[CW; CRefOk; CRefSv]; [CW; CW; CW]] -> length r <= 3) /\
  desugar_rows false 3 [[CW; CRefOk; CRefSv]; [CW; CW; CW]] = DErr /\
  desugar_rows false 3 [[CW; CRefOk; CW]; [CW; CW; CW]] = DOk.
Proof.
  split; [intros r [<-|[<-|[]]]; cbn; repeat constructor | split; vm_compute; reflexivity].
Qed.

(* the pipeline of analysis.Analyze on one declaration - CheckDecl, then CheckAndDesugar - for ALL
   declarations (any descriptors, any rows): a value or an error, never a panic. CheckDecl's row
   test is what makes the hypothesis of desugar_rows_total true. *)
Theorem front_decl_total : forall (synthetic desugared : bool) (ar : nat) (rows : list (list cellk)),
  front_decl synthetic desugared ar rows <> DPanic.
Proof. exact front_decl_total_lemma. Qed.
Print Assumptions front_decl_total.

(* the hypothesis is needed: a row of well-formed bounds longer than the arity indexes past the slice *)
Theorem desugar_rows_long_row_panics : forall (ar k : nat),
  ar < k -> desugar_rows false ar [repeat CW k] = DPanic.
Proof. exact desugar_rows_long_panics_lemma. Qed.
Print Assumptions desugar_rows_long_row_panics.

(* a checker that leaves before the row test for declarations carrying synthetic() (seeded change
   C10-2) lets `Decl foo(X) descr [synthetic()] bound [/number, /string].` through to the panic *)
Theorem front_decl_skip_synthetic_refuted :
  check_rows_with true true 1 [[CW; CW]] = true /\
  front_decl_with true true false 1 [[CW; CW]] = DPanic /\
  front_decl true false 1 [[CW; CW]] = DErr.
Proof. vm_compute. repeat split. Qed.
Print Assumptions front_decl_skip_synthetic_refuted.

(* typeBoundForPredicate reads Bounds[i].Bounds[0] of a unary declaration: total once CheckDecl
   has accepted the rows of that declaration *)
Theorem type_bound_total : forall (synthetic : bool) (rows : list (list cellk)),
  check_rows synthetic 1 rows = true -> type_bound rows = DOk.
Proof. exact type_bound_total_lemma. Qed.
Print Assumptions type_bound_total.

Example type_bound_total_value : check_rows false 1 [[CW]; [CW]] = true /\ type_bound [[CW]; []] = DPanic.
Proof. vm_compute. split; reflexivity. Qed.
