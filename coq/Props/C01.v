(* C01 - evaluation yields exactly the stratified least model.
   Property theorems only; each is closed by an exact reference to a lemma of
   Datalog/{SemiNaiveProofs,StrataProofs}.v. The model: Datalog/{Syntax,Interp,Solve,
   SemiNaive,Strata}.v (engine.eval after fix F1); the specification: Datalog/Lfp.v. *)
From Coq Require Import List ZArith.
From MV Require Import Datalog.Syntax Datalog.Interp Datalog.Solve Datalog.SemiNaive Datalog.Strata
     Datalog.Lfp Datalog.SolveProofs Datalog.SemiNaiveProofs Datalog.StrataProofs.
Import ListNotations.
Open Scope Z_scope.

(* ---- one stratum. R = the rules in first-round order (any order), drules = the delta
   rules in evaluation order (any order, duplicates allowed) - every clause of R, every
   body position with a positive atom of a predicate derived by R has one; St0 = the
   store the stratum starts from (base facts and completed lower strata); any fuel.
   Hypothesis 1: no rule of R negates a predicate that R derives. *)

Theorem seminaive_sound :
  forall (R : list clause) (drules : list (clause * nat)) (St0 : list fact) (fuel : nat) (Res : list fact),
    (forall c q, In c R -> In q (neg_preds (cbody c)) -> ~ In q (heads R)) ->
    (forall c i, In (c, i) drules -> In c R) ->
    (forall c i a, In c R -> nth_error (cbody c) i = Some (PAtom a) -> In (apred a) (heads R) -> In (c, i) drules) ->
    eval_stratum fuel R drules St0 = Ok Res ->
    forall f, In f Res -> lfp R (fun g => In g St0) f.
Proof.
  intros R drules St0 fuel Res H1 H2 H3 He f.
  apply (eval_stratum_exact R drules St0 H1 (conj H2 H3) fuel Res He f).
Qed.
Print Assumptions seminaive_sound.

Theorem seminaive_complete :
  forall (R : list clause) (drules : list (clause * nat)) (St0 : list fact) (fuel : nat) (Res : list fact),
    (forall c q, In c R -> In q (neg_preds (cbody c)) -> ~ In q (heads R)) ->
    (forall c i, In (c, i) drules -> In c R) ->
    (forall c i a, In c R -> nth_error (cbody c) i = Some (PAtom a) -> In (apred a) (heads R) -> In (c, i) drules) ->
    eval_stratum fuel R drules St0 = Ok Res ->
    forall f, lfp R (fun g => In g St0) f -> In f Res.
Proof.
  intros R drules St0 fuel Res H1 H2 H3 He f.
  apply (eval_stratum_exact R drules St0 H1 (conj H2 H3) fuel Res He f).
Qed.
Print Assumptions seminaive_complete.

(* the delta rules engine.eval builds (makeDeltaRules, in the order dps of the Go map
   iteration) satisfy the two hypotheses about drules, for every order *)
Theorem delta_rules_sufficient :
  forall (P : list clause) (ps dps : list Z),
    (forall p, In p ps <-> In p dps) ->
    (forall c i, In (c, i) (delta_rules P ps dps) -> In c (rules_of P ps)) /\
    (forall c i a, In c (rules_of P ps) -> nth_error (cbody c) i = Some (PAtom a) ->
                   In (apred a) (heads (rules_of P ps)) -> In (c, i) (delta_rules P ps dps)).
Proof. exact delta_rules_ok. Qed.
Print Assumptions delta_rules_sufficient.

(* ---- the whole program: for every valid stratification, every caller's store, every
   set of initial facts, every fuel: a finished evaluation holds exactly the stratified
   least model over the base facts. *)
Theorem strata_exact :
  forall (fuel : nat) (P : list clause) (layers : list (list Z)) (store init Res : list fact),
    valid_stratification P layers ->
    eval_program fuel P layers store init = Ok Res ->
    forall f, In f Res <-> slfp P layers (fun g => In g (add_all store init)) f.
Proof. exact eval_program_exact. Qed.
Print Assumptions strata_exact.

(* the only part of validity the proof needs: no layer negates a predicate it derives *)
Theorem strata_exact_weak :
  forall (fuel : nat) (P : list clause) (layers : list (list Z)) (store init Res : list fact),
    (forall ps, In ps layers -> forall c q, In c (layer_rules P ps) -> In q (neg_preds (cbody c)) ->
                ~ In q (heads (layer_rules P ps))) ->
    eval_program fuel P layers store init = Ok Res ->
    forall f, In f Res <-> slfp P layers (fun g => In g (add_all store init)) f.
Proof. exact eval_program_exact_weak. Qed.
Print Assumptions strata_exact_weak.

(* ---- "least model" is not just a name: lfp is a model (contains the base, closed under
   every rule instance whose positive premises are in it) and lies inside every model *)
Theorem lfp_model : forall (R : list clause) (B : factset),
    (forall f, B f -> lfp R B f) /\
    (forall I c f, (forall g, In g I -> lfp R B g) -> In c R -> derives B I c f -> lfp R B f).
Proof. exact lfp_is_model. Qed.
Print Assumptions lfp_model.

Theorem lfp_least : forall (R : list clause) (B M : factset),
    (forall f, B f -> M f) ->
    (forall I c f, (forall g, In g I -> M g) -> In c R -> derives B I c f -> M f) ->
    forall f, lfp R B f -> M f.
Proof. intros R B M H1 H2. exact (SemiNaiveProofs.lfp_least R B M (conj H1 H2)). Qed.
Print Assumptions lfp_least.

(* ---- finding F1: witness
     base(1). next(1,2). p(X):-base(X). a(X):-p(X). b(X):-p(X). p(Y):-a(X),b(X),next(X,Y).
   predicates base=0 next=1 p=2 a=3 b=4 *)
Definition w_X := TVar 1.
Definition w_Y := TVar 2.
Definition w_rules : list clause :=
  [ mkClause (mkAtom 2 [w_X]) [PAtom (mkAtom 0 [w_X])] [];
    mkClause (mkAtom 3 [w_X]) [PAtom (mkAtom 2 [w_X])] [];
    mkClause (mkAtom 4 [w_X]) [PAtom (mkAtom 2 [w_X])] [];
    mkClause (mkAtom 2 [w_Y]) [PAtom (mkAtom 3 [w_X]); PAtom (mkAtom 4 [w_X]); PAtom (mkAtom 1 [w_X; w_Y])] [] ].
Definition w_edb : list fact := [ (0, [CNum 1]); (1, [CNum 1; CNum 2]) ].
Definition w_layer : list Z := [2; 3; 4].
Definition w_p2 : fact := (2, [CNum 2]).

(* the model of the fixed loop derives p(2), a(2), b(2) *)
Example seminaive_witness_fixed :
  eval_stratum 10 (rules_of w_rules w_layer) (delta_rules w_rules w_layer w_layer) w_edb
  = Ok [ (0, [CNum 1]); (1, [CNum 1; CNum 2]); (2, [CNum 1]); (3, [CNum 1]); (4, [CNum 1]);
         (2, [CNum 2]); (3, [CNum 2]); (4, [CNum 2]) ].
Proof. vm_compute. reflexivity. Qed.

(* non-vacuity of the hypotheses of seminaive_sound / seminaive_complete: the witness *)
Example seminaive_hypotheses_satisfiable :
  (forall c q, In c (rules_of w_rules w_layer) -> In q (neg_preds (cbody c)) -> ~ In q (heads (rules_of w_rules w_layer))) /\
  (forall c i, In (c, i) (delta_rules w_rules w_layer w_layer) -> In c (rules_of w_rules w_layer)) /\
  (forall c i a, In c (rules_of w_rules w_layer) -> nth_error (cbody c) i = Some (PAtom a) ->
                 In (apred a) (heads (rules_of w_rules w_layer)) -> In (c, i) (delta_rules w_rules w_layer w_layer)).
Proof.
  split.
  - intros c q Hc Hq. vm_compute in Hc.
    repeat (destruct Hc as [<-|Hc]; [vm_compute in Hq; destruct Hq|]). destruct Hc.
  - apply delta_rules_ok. intros; tauto.
Qed.

(* the loop with the statement order it had before the fix (mergeDelta merges the
   previous delta, then the new delta is assigned) finishes without p(2), which belongs
   to the least model *)
Theorem seminaive_F1_refuted :
  exists Res, eval_stratum_prefix 10 (rules_of w_rules w_layer) (delta_rules w_rules w_layer w_layer) w_edb = Ok Res /\
              ~ In w_p2 Res /\
              lfp (rules_of w_rules w_layer) (fun g => In g w_edb) w_p2.
Proof.
  eexists. split; [vm_compute; reflexivity|]. split.
  - intros H. vm_compute in H. repeat (destruct H as [H|H]; [discriminate H|]). destruct H.
  - destruct seminaive_hypotheses_satisfiable as (H1 & H2 & H3).
    apply (seminaive_sound _ _ _ _ _ H1 H2 H3 seminaive_witness_fixed). vm_compute. auto 10.
Qed.
Print Assumptions seminaive_F1_refuted.

(* non-vacuity of strata_exact: two layers with negation of the lower one
     e=10 d=11 t=12 s=13:  t(X) :- e(X).  s(X) :- d(X), !t(X). *)
Definition n_prog : list clause :=
  [ mkClause (mkAtom 12 [w_X]) [PAtom (mkAtom 10 [w_X])] [];
    mkClause (mkAtom 13 [w_X]) [PAtom (mkAtom 11 [w_X]); PNeg (mkAtom 12 [w_X])] [] ].
Definition n_layers : list (list Z) := [[12]; [13]].

Example strata_hypotheses_satisfiable :
  valid_stratification n_prog n_layers /\
  eval_program 10 n_prog n_layers [(10, [CNum 1])] [(11, [CNum 1]); (11, [CNum 2])]
  = Ok [ (10, [CNum 1]); (11, [CNum 1]); (11, [CNum 2]); (12, [CNum 1]); (13, [CNum 2]) ].
Proof.
  split; [|vm_compute; reflexivity]. split.
  - vm_compute. repeat constructor; simpl; intuition discriminate.
  - intros c [<-|[<-|[]]].
    + exists 0%nat. vm_compute. repeat split; intros q Hq; repeat (destruct Hq as [<-|Hq]; [auto with arith|]); try destruct Hq.
    + exists 1%nat. vm_compute. repeat split; intros q Hq; repeat (destruct Hq as [<-|Hq]; [auto with arith|]); try destruct Hq.
Qed.
