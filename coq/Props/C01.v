(* C01 - evaluation yields exactly the stratified least model.
   Property theorems only; each is closed by an exact reference to a lemma of
   Datalog/{SemiNaiveProofs,StrataProofs}.v. The model: Datalog/{Syntax,Interp,Solve,
   SemiNaive,Strata}.v (engine.eval after fix F1); the specification: Datalog/Lfp.v. *)
From Coq Require Import List ZArith.
From MV Require Import Datalog.Syntax Datalog.Interp Datalog.Solve Datalog.SemiNaive Datalog.Strata
     Datalog.Lfp Datalog.SolveProofs Datalog.SemiNaiveProofs Datalog.StrataProofs.
Import ListNotations.
Open Scope Z_scope.

(* ---- one stratum. R = the rules in first-round order (any order), drules = the delta
   rules in evaluation order (any order, duplicates allowed) - every clause of R, every
   body position with a positive atom of a predicate derived by R has one; St0 = the
   store the stratum starts from (base facts and completed lower strata); any fuel.
   Hypothesis 1: no rule of R negates a predicate that R derives. *)

Theorem seminaive_sound :
  forall (R : list clause) (drules : list (clause * nat)) (St0 : list fact) (fuel : nat) (Res : list fact),
    (forall c q, In c R -> In q (neg_preds (cbody c)) -> ~ In q (heads R)) ->
    (forall c i, In (c, i) drules -> In c R) ->
    (forall c i a, In c R -> nth_error (cbody c) i = Some (PAtom a) -> In (apred a) (heads R) -> In (c, i) drules) ->
    eval_stratum fuel R drules St0 = Ok Res ->
    forall f, In f Res -> lfp R (fun g => In g St0) f.
Proof.
  intros R drules St0 fuel Res H1 H2 H3 He f.
  apply (eval_stratum_exact R drules St0 H1 (conj H2 H3) fuel Res He f).
Qed.
Print Assumptions seminaive_sound.

Theorem seminaive_complete :
  forall (R : list clause) (drules : list (clause * nat)) (St0 : list fact) (fuel : nat) (Res : list fact),
    (forall c q, In c R -> In q (neg_preds (cbody c)) -> ~ In q (heads R)) ->
    (forall c i, In (c, i) drules -> In c R) ->
    (forall c i a, In c R -> nth_error (cbody c) i = Some (PAtom a) -> In (apred a) (heads R) -> In (c, i) drules) ->
    eval_stratum fuel R drules St0 = Ok Res ->
    forall f, lfp R (fun g => In g St0) f -> In f Res.
Proof.
  intros R drules St0 fuel Res H1 H2 H3 He f.
  apply (eval_stratum_exact R drules St0 H1 (conj H2 H3) fuel Res He f).
Qed.
Print Assumptions seminaive_complete.

(* the delta rules engine.eval builds (makeDeltaRules, in the order dps of the Go map
   iteration) satisfy the two hypotheses about drules, for every order *)
Theorem delta_rules_sufficient :
  forall (P : list clause) (ps dps : list Z),
    (forall p, In p ps <-> In p dps) ->
    (forall c i, In (c, i) (delta_rules P ps dps) -> In c (rules_of P ps)) /\
    (forall c i a, In c (rules_of P ps) -> nth_error (cbody c) i = Some (PAtom a) ->
                   In (apred a) (heads (rules_of P ps)) -> In (c, i) (delta_rules P ps dps)).
Proof. exact delta_rules_ok. Qed.
Print Assumptions delta_rules_sufficient.

(* ---- the whole program: for every valid stratification, every caller's store, every
   set of initial facts, every fuel: a finished evaluation holds exactly the stratified
   least model over the base facts. *)
Theorem strata_exact :
  forall (fuel : nat) (P : list clause) (layers : list (list Z)) (store init Res : list fact),
    valid_stratification P layers ->
    eval_program fuel P layers store init = Ok Res ->
    forall f, In f Res <-> slfp P layers (fun g => In g (add_all store init)) f.
Proof. exact eval_program_exact. Qed.
Print Assumptions strata_exact.

(* the only part of validity the proof needs: no layer negates a predicate it derives *)
Theorem strata_exact_weak :
  forall (fuel : nat) (P : list clause) (layers : list (list Z)) (store init Res : list fact),
    (forall ps, In ps layers -> forall c q, In c (layer_rules P ps) -> In q (neg_preds (cbody c)) ->
                ~ In q (heads (layer_rules P ps))) ->
    eval_program fuel P layers store init = Ok Res ->
    forall f, In f Res <-> slfp P layers (fun g => In g (add_all store init)) f.
Proof. exact eval_program_exact_weak. Qed.
Print Assumptions strata_exact_weak.

(* ---- "least model" is not just a name: lfp is a model (contains the base, closed under
   every rule instance whose positive premises are in it) and lies inside every model *)
Theorem lfp_model : forall (R : list clause) (B : factset),
    (forall f, B f -> lfp R B f) /\
    (forall I c f, (forall g, In g I -> lfp R B g) -> In c R -> derives B I c f -> lfp R B f).
Proof. exact lfp_is_model. Qed.
Print Assumptions lfp_model.

Theorem lfp_least : forall (R : list clause) (B M : factset),
    (forall f, B f -> M f) ->
    (forall I c f, (forall g, In g I -> M g) -> In c R -> derives B I c f -> M f) ->
    forall f, lfp R B f -> M f.
Proof. intros R B M H1 H2. exact (SemiNaiveProofs.lfp_least R B M (conj H1 H2)). Qed.
Print Assumptions lfp_least.

(* ---- finding F1: witness
     base(1). next(1,2). p(X):-base(X). a(X):-p(X). b(X):-p(X). p(Y):-a(X),b(X),next(X,Y).
   predicates base=0 next=1 p=2 a=3 b=4 *)
Definition w_X := TVar 1.
Definition w_Y := TVar 2.
Definition w_rules : list clause :=
  [ mkClause (mkAtom 2 [w_X]) [PAtom (mkAtom 0 [w_X])] [];
    mkClause (mkAtom 3 [w_X]) [PAtom (mkAtom 2 [w_X])] [];
    mkClause (mkAtom 4 [w_X]) [PAtom (mkAtom 2 [w_X])] [];
    mkClause (mkAtom 2 [w_Y]) [PAtom (mkAtom 3 [w_X]); PAtom (mkAtom 4 [w_X]); PAtom (mkAtom 1 [w_X; w_Y])] [] ].
Definition w_edb : list fact := [ (0, [CNum 1]); (1, [CNum 1; CNum 2]) ].
Definition w_layer : list Z := [2; 3; 4].
Definition w_p2 : fact := (2, [CNum 2]).

(* the model of the fixed loop derives p(2), a(2), b(2) *)
Example seminaive_witness_fixed :
  eval_stratum 10 (rules_of w_rules w_layer) (delta_rules w_rules w_layer w_layer) w_edb
  = Ok [ (0, [CNum 1]); (1, [CNum 1; CNum 2]); (2, [CNum 1]); (3, [CNum 1]); (4, [CNum 1]);
         (2, [CNum 2]); (3, [CNum 2]); (4, [CNum 2]) ].
Proof. vm_compute. reflexivity. Qed.

(* non-vacuity of the hypotheses of seminaive_sound / seminaive_complete: the witness *)
Example seminaive_hypotheses_satisfiable :
  (forall c q, In c (rules_of w_rules w_layer) -> In q (neg_preds (cbody c)) -> ~ In q (heads (rules_of w_rules w_layer))) /\
  (forall c i, In (c, i) (delta_rules w_rules w_layer w_layer) -> In c (rules_of w_rules w_layer)) /\
  (forall c i a, In c (rules_of w_rules w_layer) -> nth_error (cbody c) i = Some (PAtom a) ->
                 In (apred a) (heads (rules_of w_rules w_layer)) -> In (c, i) (delta_rules w_rules w_layer w_layer)).
Proof.
  split.
  - intros c q Hc Hq. vm_compute in Hc.
    repeat (destruct Hc as [<-|Hc]; [vm_compute in Hq; destruct Hq|]). destruct Hc.
  - apply delta_rules_ok. intros; tauto.
Qed.

(* the loop with the statement order it had before the fix (mergeDelta merges the
   previous delta, then the new delta is assigned) finishes without p(2), which belongs
   to the least model *)
Theorem seminaive_F1_refuted :
  exists Res, eval_stratum_prefix 10 (rules_of w_rules w_layer) (delta_rules w_rules w_layer w_layer) w_edb = Ok Res /\
              ~ In w_p2 Res /\
              lfp (rules_of w_rules w_layer) (fun g => In g w_edb) w_p2.
Proof.
  eexists. split; [vm_compute; reflexivity|]. split.
  - intros H. vm_compute in H. repeat (destruct H as [H|H]; [discriminate H|]). destruct H.
  - destruct seminaive_hypotheses_satisfiable as (H1 & H2 & H3).
    apply (seminaive_sound _ _ _ _ _ H1 H2 H3 seminaive_witness_fixed). vm_compute. auto 10.
Qed.
Print Assumptions seminaive_F1_refuted.

(* non-vacuity of strata_exact: two layers with negation of the lower one
     e=10 d=11 t=12 s=13:  t(X) :- e(X).  s(X) :- d(X), !t(X). *)
Definition n_prog : list clause :=
  [ mkClause (mkAtom 12 [w_X]) [PAtom (mkAtom 10 [w_X])] [];
    mkClause (mkAtom 13 [w_X]) [PAtom (mkAtom 11 [w_X]); PNeg (mkAtom 12 [w_X])] [] ].
Definition n_layers : list (list Z) := [[12]; [13]].

Example strata_hypotheses_satisfiable :
  valid_stratification n_prog n_layers /\
  eval_program 10 n_prog n_layers [(10, [CNum 1])] [(11, [CNum 1]); (11, [CNum 2])]
  = Ok [ (10, [CNum 1]); (11, [CNum 1]); (11, [CNum 2]); (12, [CNum 1]); (13, [CNum 2]) ].
Proof.
  split; [|vm_compute; reflexivity]. split.
  - vm_compute. repeat constructor; simpl; intuition discriminate.
  - intros c [<-|[<-|[]]].
    + exists 0%nat. vm_compute. repeat split; intros q Hq; repeat (destruct Hq as [<-|Hq]; [auto with arith|]); try destruct Hq.
    + exists 1%nat. vm_compute. repeat split; intros q Hq; repeat (destruct Hq as [<-|Hq]; [auto with arith|]); try destruct Hq.
Qed.

(* ================= alias-aware model (Datalog/SolveUF.v): substitutions are union-finds in
   which a variable may be aliased to another variable (X = Y with both sides unbound), as
   in unionfind/unionfind.go; Solve.v treats that situation as an error. Proofs:
   Datalog/SolveUFProofs.v. *)
From MV Require Import Datalog.SolveUF Datalog.SolveUFProofs.

(* ---- (a) conservativity: wherever the alias-free evaluator Solve.v answers, the
   union-find evaluator (strict = false: the Go code) gives the same answer - the same
   solutions (read as union-finds without aliases), the same facts, the same program
   outcome. Solve.v answers None only at a Go error or at an aliasing equality. *)
Theorem solve_uf_conservative :
  forall (Sneg : list fact) (sel : nat -> list fact) (k : nat) (body : list premise) (sols R : list subst),
    Forall (fun s => NoDup (map fst s)) sols ->
    solve Sneg sel k body sols = Some R ->
    solve_uf false Sneg sel k body (map (map (fun vc => (fst vc, VConst (snd vc)))) sols)
    = Some (map (map (fun vc => (fst vc, VConst (snd vc)))) R).
Proof. intros Sneg sel k body sols R Hs H. exact (proj1 (solve_inj Sneg sel body k sols R Hs H)). Qed.
Print Assumptions solve_uf_conservative.

Theorem eval_clause_uf_conservative :
  forall (Sneg : list fact) (sel : nat -> list fact) (c : clause) (fs : list fact),
    eval_clause Sneg sel c = Some fs -> eval_clause_uf false Sneg sel c = Some fs.
Proof. exact eval_clause_inj. Qed.
Print Assumptions eval_clause_uf_conservative.

Theorem eval_program_uf_conservative :
  forall (fuel : nat) (P : list clause) (layers : list (list Z)) (store init : list fact) (o : outcome (list fact)),
    eval_program fuel P layers store init = o -> o <> EvalError ->
    eval_program_uf false fuel P layers store init = o.
Proof. exact SolveUFProofs.eval_program_uf_conservative. Qed.
Print Assumptions eval_program_uf_conservative.

(* hence strata_exact transfers: a finished run of the union-find model on a program on
   which the alias-free model reports no error holds exactly the stratified least model *)
Theorem strata_exact_uf :
  forall (fuel : nat) (P : list clause) (layers : list (list Z)) (store init Res : list fact),
    valid_stratification P layers ->
    eval_program fuel P layers store init <> EvalError ->
    eval_program_uf false fuel P layers store init = Ok Res ->
    forall f, In f Res <-> slfp P layers (fun g => In g (add_all store init)) f.
Proof. exact eval_program_uf_exact. Qed.
Print Assumptions strata_exact_uf.

(* ---- (c) every solution gives a constant to every variable that is an argument of a
   positive atom, or one side of an equality whose other side is a constant or a function
   application, or aliased - through any chain of variable = variable equalities of the
   body, in either orientation, wherever they stand - to such a variable (must_bound).
   uwf = the substitutions the evaluator builds (SolveUFProofs.uwf; the start [[]] is one). *)
Theorem solve_uf_resolved :
  forall (strict : bool) (Sneg : list fact) (sel : nat -> list fact) (k : nat) (body : list premise)
         (sols R : list usubst) (t : usubst),
    Forall uwf sols ->
    solve_uf strict Sneg sel k body sols = Some R -> In t R ->
    forall v, must_bound body v -> exists c, resolve t v = VConst c.
Proof. intros. eapply solve_uf_resolved_all; eauto. Qed.
Print Assumptions solve_uf_resolved.

(* the evaluator looks variables up with the one-pass [resolve]; on every substitution it
   produces that is what unionfind.find computes by following the parent chain (ufind:
   the Go loop with fuel = number of bindings) *)
Theorem resolve_is_find :
  forall (strict : bool) (Sneg : list fact) (sel : nat -> list fact) (k : nat) (body : list premise)
         (sols R : list usubst) (t : usubst),
    Forall uwf sols ->
    solve_uf strict Sneg sel k body sols = Some R -> In t R ->
    forall v, ufind t v = resolve t v.
Proof.
  intros strict Sneg sel k body sols R t Hs H Ht. apply ufind_resolve.
  exact (proj1 (solve_uf_props strict Sneg sel body k sols R Hs H t Ht)).
Qed.
Print Assumptions resolve_is_find.

(* ---- (b) order independence. A run of the strict evaluator (an error where a negated
   atom or a "!=" meets an unbound variable; otherwise the Go code: strict_run_is_go_run)
   derives exactly the head instances under the valuations that satisfy every premise
   (gsat: ground evaluation of each premise by itself, no substitution, no order) -
   provided no variable standing as an argument in the body is defined by the transform
   (analysis rejects such a clause). Therefore two clauses with the same declarative reading
   derive the same facts whatever the order of their premises and the placement of their
   equalities. *)
Theorem uf_join_is_declarative :
  forall (Sneg : list fact) (sel : nat -> list fact) (c : clause) (fs : list fact),
    (forall v, In v (bvars (cbody c)) -> ~ In v (map fst (clet c))) ->
    eval_clause_uf true Sneg sel c = Some fs ->
    forall f, In f fs <-> exists rho, gsat Sneg sel 0 rho (cbody c) /\ ghead rho c = Some f.
Proof. exact eval_clause_uf_declarative. Qed.
Print Assumptions uf_join_is_declarative.

Theorem strict_run_is_go_run :
  forall (Sneg : list fact) (sel : nat -> list fact) (c : clause) (fs : list fact),
    eval_clause_uf true Sneg sel c = Some fs -> eval_clause_uf false Sneg sel c = Some fs.
Proof. exact eval_clause_uf_strict_lax. Qed.
Print Assumptions strict_run_is_go_run.

(* the step of the alias stream (checks/datalog_common.py alias_step), read backwards: c is
   any clause that contains the equality W = V or V = W anywhere in its body; replacing W
   by V everywhere (head, body, transform; the equality becomes V = V and stays where it
   is, so body positions and delta rules are the same) gives the clause with one alias
   less. Both derive the same facts, from the same stores, for every delta position.
   alias_step's chains and trees of fresh variables are eliminated leaf by leaf. *)
Theorem alias_elimination_sound :
  forall (Sneg : list fact) (sel : nat -> list fact) (c : clause) (W V : Z) (fs' fs : list fact),
    W <> V ->
    In (PEq (TVar W) (TVar V)) (cbody c) \/ In (PEq (TVar V) (TVar W)) (cbody c) ->
    (forall v, In v (bvars (cbody c)) -> ~ In v (map fst (clet c))) ->
    eval_clause_uf true Sneg sel c = Some fs' ->
    eval_clause_uf true Sneg sel (sub_clause W V c) = Some fs ->
    forall f, In f fs' <-> In f fs.
Proof. exact alias_elimination. Qed.
Print Assumptions alias_elimination_sound.

(* ---- examples. The C01-3 witness shape
     p1(V1,V3) :- V4 = V2, p0(V1,V2) |> let V3 = fn:minus(V4,1).
   V4 is aliased to V2 while both are unbound, reaches its constant through the chain
   V4 -> V2 -> constant and is read by the transform only. *)
Definition a_clause : clause :=
  mkClause (mkAtom 1 [TVar 1; TVar 3]) [PEq (TVar 4) (TVar 2); PAtom (mkAtom 0 [TVar 1; TVar 2])]
           [(3, TApp FMinus [TVar 4; TConst (CNum 1)])].
Definition a_store : list fact := [(0, [CNum 7; CNum 10]); (0, [CNum 8; CNum 20])].

(* the hypotheses of alias_elimination_sound are satisfiable, both clauses derive the two facts;
   Solve.v stops at the aliasing equality *)
Example alias_hypotheses_satisfiable :
  4 <> 2 /\ In (PEq (TVar 4) (TVar 2)) (cbody a_clause) /\
  (forall v, In v (bvars (cbody a_clause)) -> ~ In v (map fst (clet a_clause))) /\
  eval_clause_uf true a_store (fun _ => a_store) a_clause = Some [(1, [CNum 7; CNum 9]); (1, [CNum 8; CNum 19])] /\
  eval_clause_uf true a_store (fun _ => a_store) (sub_clause 4 2 a_clause) = Some [(1, [CNum 7; CNum 9]); (1, [CNum 8; CNum 19])] /\
  eval_clause a_store (fun _ => a_store) a_clause = None.
Proof.
  split; [discriminate|]. split; [left; reflexivity|]. split; [|repeat split; vm_compute; reflexivity].
  intros v Hv. vm_compute in Hv. intros Hl. vm_compute in Hl.
  destruct Hl as [<-|[]]. repeat (destruct Hv as [Hv|Hv]; [discriminate Hv|]). destruct Hv.
Qed.

(* V4 must be bound: it is aliased to V2, an argument of the positive atom *)
Example must_bound_example : must_bound (cbody a_clause) 4.
Proof. apply (mb_alias_l _ 4 2); [left; reflexivity|]. apply (mb_atom _ (mkAtom 0 [TVar 1; TVar 2])); simpl; auto. Qed.

(* conservativity is not vacuous: Solve.v answers on the clause without the alias *)
Example conservative_hypothesis_satisfiable :
  eval_clause a_store (fun _ => a_store) (sub_clause 4 2 a_clause) = Some [(1, [CNum 7; CNum 9]); (1, [CNum 8; CNum 19])].
Proof. vm_compute. reflexivity. Qed.

(* without strictness the elimination is false (the N19 reading of "!="):
     p1(V1) :- p0(V1, V5), V2 != 3, V5 = V2.     V2 unbound at "!=": no solution in Go
     p1(V1) :- p0(V1, V2), V2 != 3, V2 = V2.     two solutions
   the strict evaluator reports the first clause (the analysis rejects it, fix N19) *)
Definition n_clause : clause :=
  mkClause (mkAtom 1 [TVar 1]) [PAtom (mkAtom 0 [TVar 1; TVar 5]); PIneq (TVar 2) (TConst (CNum 3)); PEq (TVar 5) (TVar 2)] [].
Theorem alias_elimination_lax_refuted :
  eval_clause_uf false a_store (fun _ => a_store) n_clause = Some [] /\
  eval_clause_uf false a_store (fun _ => a_store) (sub_clause 5 2 n_clause) = Some [(1, [CNum 7]); (1, [CNum 8])] /\
  eval_clause_uf true a_store (fun _ => a_store) n_clause = None.
Proof. repeat split; vm_compute; reflexivity. Qed.
Print Assumptions alias_elimination_lax_refuted.

(* ================= wildcards inside negated atoms (Datalog/WildNeg.v; added after seeded change
   C01-6). The wildcard is not a term of the model: every "_" is encoded as a variable of its own
   that nothing binds. "Negated atoms being judged against completely evaluated lower strata" then
   reads: under the substitution s reached so far, !a holds iff NO valuation rho of the variables
   that agrees with s turns a into a fact of N (= the completed lower strata in lfp / slfp, so
   strata_exact is about exactly this reading); bound variables are fixed by s, every other
   variable - every "_" - ranges over all constants. *)
From MV Require Import Datalog.WildNeg.

Theorem neg_wildcard_reading : forall (N : factset) (I : list fact) (a : atom) (s : subst) (pvs : list value),
  eval_args s (aargs a) = Some pvs ->
  (holds N I (PNeg a) s s <->
   forall rho : Z -> const, (forall v c, lookup v s = Some c -> rho v = c) ->
     ~ N (apred a, map (fun pv => match pv with VConst c => c | VVar v => rho v end) pvs)).
Proof. exact neg_wild_existential. Qed.
Print Assumptions neg_wildcard_reading.

(* the evaluator (engine.oneStepEvalPremise on a negated atom, premiseNegAtom): the substitution is
   kept iff no instance is stored, dropped iff one is *)
Theorem neg_wildcard_step : forall (Sneg Spos : list fact) (a : atom) (s : subst) (pvs : list value),
  eval_args s (aargs a) = Some pvs ->
  (step Sneg Spos (PNeg a) s = Some [s] <->
     forall rho : Z -> const, (forall v c, lookup v s = Some c -> rho v = c) ->
       ~ In (apred a, map (fun pv => match pv with VConst c => c | VVar v => rho v end) pvs) Sneg) /\
  (step Sneg Spos (PNeg a) s = Some [] <->
     exists rho : Z -> const, (forall v c, lookup v s = Some c -> rho v = c) /\
       In (apred a, map (fun pv => match pv with VConst c => c | VVar v => rho v end) pvs) Sneg).
Proof. exact step_neg_wild. Qed.
Print Assumptions neg_wildcard_step.

(* !r(X, _) with X bound to c: "there is no fact r(c, anything)" *)
Theorem neg_wildcard_bound_column : forall (N : factset) (I : list fact) (r x w : Z) (s : subst) (c : const),
  lookup x s = Some c -> lookup w s = None ->
  (holds N I (PNeg (mkAtom r [TVar x; TVar w])) s s <-> forall d, ~ N (r, [c; d])).
Proof. exact neg_bound_wild. Qed.
Print Assumptions neg_wildcard_bound_column.

(* !r(_, _): two wildcards are two variables, read independently: "r has no fact" *)
Theorem neg_wildcards_independent : forall (N : factset) (I : list fact) (r w1 w2 : Z) (s : subst),
  lookup w1 s = None -> lookup w2 s = None -> w1 <> w2 ->
  (holds N I (PNeg (mkAtom r [TVar w1; TVar w2])) s s <-> forall d1 d2, ~ N (r, [d1; d2])).
Proof. exact neg_two_wild. Qed.
Print Assumptions neg_wildcards_independent.

(* hypotheses satisfiable, both outcomes occur: store {p4(1,2)}, !p4(V1, _) under V1 := 1 / V1 := 3 *)
Example neg_wildcard_hypotheses_satisfiable :
  eval_args [(1, CNum 1)] (aargs (mkAtom 4 [TVar 1; TVar 1001])) = Some [VConst (CNum 1); VVar 1001] /\
  step [(4, [CNum 1; CNum 2])] [] (PNeg (mkAtom 4 [TVar 1; TVar 1001])) [(1, CNum 1)] = Some [] /\
  step [(4, [CNum 1; CNum 2])] [] (PNeg (mkAtom 4 [TVar 1; TVar 1001])) [(1, CNum 3)] = Some [[(1, CNum 3)]].
Proof. repeat split; vm_compute; reflexivity. Qed.

(* ================= the static version of (a) (Datalog/SolveUFStaticProofs.v). no_alias_body B body
   is a syntactic test: every premise "X = Y" between two variables has X = Y literally, or a
   side in B' = the variables certainly bound at that point (binds_after: B, the variables
   standing as whole arguments of an earlier positive atom, a variable equated earlier with
   a term that is not a variable, or with a variable that was certainly bound). On such a
   body no equality is evaluated with both sides unbound, and the two evaluators have the
   SAME outcome: the same solutions, or both report an error. *)
From MV Require Import Datalog.SolveUFStaticProofs.

Theorem solve_uf_static_agree :
  forall (Sneg : list fact) (sel : nat -> list fact) (body : list premise) (B : list Z) (k : nat) (sols : list subst),
    no_alias_body B body = true ->
    Forall (fun s => NoDup (map fst s)) sols ->
    Forall (fun s => forall v, In v B -> lookup v s <> None) sols ->
    solve_uf false Sneg sel k body (map (map (fun vc => (fst vc, VConst (snd vc)))) sols)
    = option_map (map (map (fun vc => (fst vc, VConst (snd vc))))) (solve Sneg sel k body sols).
Proof. exact solve_uf_static. Qed.
Print Assumptions solve_uf_static_agree.

(* the direction that conservativity lacks: Solve.v errs only where the Go-shaped evaluator errs *)
Theorem solve_errs_only_where_uf_errs :
  forall (Sneg : list fact) (sel : nat -> list fact) (body : list premise) (B : list Z) (k : nat) (sols : list subst),
    no_alias_body B body = true ->
    Forall (fun s => NoDup (map fst s)) sols ->
    Forall (fun s => forall v, In v B -> lookup v s <> None) sols ->
    solve Sneg sel k body sols = None ->
    solve_uf false Sneg sel k body (map (map (fun vc => (fst vc, VConst (snd vc)))) sols) = None.
Proof. exact solve_none_uf_none. Qed.
Print Assumptions solve_errs_only_where_uf_errs.

Theorem eval_clause_uf_static_agree :
  forall (Sneg : list fact) (sel : nat -> list fact) (c : clause),
    no_alias_body [] (cbody c) = true ->
    eval_clause_uf false Sneg sel c = eval_clause Sneg sel c.
Proof. exact eval_clause_uf_static. Qed.
Print Assumptions eval_clause_uf_static_agree.

(* programs all of whose clauses pass the test: same outcome of the whole evaluation -
   Ok with the same store, EvalError, or OutOfFuel *)
Theorem eval_program_uf_static_agree :
  forall (fuel : nat) (P : list clause) (layers : list (list Z)) (store init : list fact),
    forallb (fun c => no_alias_body [] (cbody c)) P = true ->
    eval_program_uf false fuel P layers store init = eval_program fuel P layers store init.
Proof. exact eval_program_uf_static. Qed.
Print Assumptions eval_program_uf_static_agree.

(* strata_exact for the union-find model with no hypothesis about a run of the old model *)
Theorem strata_exact_uf_static :
  forall (fuel : nat) (P : list clause) (layers : list (list Z)) (store init Res : list fact),
    valid_stratification P layers ->
    forallb (fun c => no_alias_body [] (cbody c)) P = true ->
    eval_program_uf false fuel P layers store init = Ok Res ->
    forall f, In f Res <-> slfp P layers (fun g => In g (add_all store init)) f.
Proof. exact eval_program_uf_exact_static. Qed.
Print Assumptions strata_exact_uf_static.

(* non-vacuity: n_prog with a bound alias,  s(X) :- d(X), Y = X, !t(Y).  The clause passes the
   test (X is an argument of d), the union-find run finishes; the C01-3 witness a_clause
   (V4 = V2 in front of the atom that binds V2) does not pass, its alias-free form does *)
Definition st_prog : list clause :=
  [ mkClause (mkAtom 12 [w_X]) [PAtom (mkAtom 10 [w_X])] [];
    mkClause (mkAtom 13 [w_X]) [PAtom (mkAtom 11 [w_X]); PEq w_Y w_X; PNeg (mkAtom 12 [w_Y])] [] ].

Example static_hypotheses_satisfiable :
  valid_stratification st_prog n_layers /\
  forallb (fun c => no_alias_body [] (cbody c)) st_prog = true /\
  eval_program_uf false 10 st_prog n_layers [(10, [CNum 1])] [(11, [CNum 1]); (11, [CNum 2])]
  = Ok [ (10, [CNum 1]); (11, [CNum 1]); (11, [CNum 2]); (12, [CNum 1]); (13, [CNum 2]) ] /\
  no_alias_body [] (cbody a_clause) = false /\
  no_alias_body [] (cbody (sub_clause 4 2 a_clause)) = true.
Proof.
  split; [|repeat split; vm_compute; reflexivity]. split.
  - vm_compute. repeat constructor; simpl; intuition discriminate.
  - intros c [<-|[<-|[]]].
    + exists 0%nat. vm_compute. repeat split; intros q Hq; repeat (destruct Hq as [<-|Hq]; [auto with arith|]); try destruct Hq.
    + exists 1%nat. vm_compute. repeat split; intros q Hq; repeat (destruct Hq as [<-|Hq]; [auto with arith|]); try destruct Hq.
Qed.

(* ---- the end of the alias-elimination story. A premise V = V is a no-op of the union-find
   evaluator wherever it stands (both sides evaluate to the root of V's class; strict or
   not), so it can be removed; the premises behind it move one position to the front and
   read the stores of their old positions (sel_skip n sel j = sel j for j < n, sel (j+1)
   otherwise - for the delta rules: the delta position moves with its atom). *)
Theorem eq_refl_premise_removable :
  forall (strict : bool) (Sneg : list fact) (sel : nat -> list fact) (h : atom) (b1 b2 : list premise)
         (lets : list (Z * term)) (v : Z),
    eval_clause_uf strict Sneg sel (mkClause h (b1 ++ PEq (TVar v) (TVar v) :: b2) lets) =
    eval_clause_uf strict Sneg (fun j => if (j <? length b1)%nat then sel j else sel (S j)) (mkClause h (b1 ++ b2) lets).
Proof. exact eval_clause_uf_eq_refl_removable. Qed.
Print Assumptions eq_refl_premise_removable.

(* alias_elimination_sound with the leftover equality removed: the clause with the aliasing
   equality e (W = V or V = W) at body position |b1| derives the same facts as the clause
   without e in which W is replaced by V everywhere *)
Theorem alias_elimination_removed_sound :
  forall (Sneg : list fact) (sel : nat -> list fact) (h : atom) (b1 b2 : list premise) (lets : list (Z * term))
         (e : premise) (W V : Z) (fs' fs : list fact),
    W <> V -> e = PEq (TVar W) (TVar V) \/ e = PEq (TVar V) (TVar W) ->
    (forall v, In v (bvars (b1 ++ e :: b2)) -> ~ In v (map fst lets)) ->
    eval_clause_uf true Sneg sel (mkClause h (b1 ++ e :: b2) lets) = Some fs' ->
    eval_clause_uf true Sneg (fun j => if (j <? length b1)%nat then sel j else sel (S j))
                   (sub_clause W V (mkClause h (b1 ++ b2) lets)) = Some fs ->
    forall f, In f fs' <-> In f fs.
Proof. exact alias_elimination_removed. Qed.
Print Assumptions alias_elimination_removed_sound.

(* a_clause = (b1 = []) ++ (V4 = V2) :: [p0(V1,V2)]: the hypotheses are satisfiable, and the clause
   without the premise, p1(V1,V3) :- p0(V1,V2) |> let V3 = fn:minus(V2,1), derives the two facts *)
Example alias_removed_hypotheses_satisfiable :
  a_clause = mkClause (chead a_clause) ([] ++ PEq (TVar 4) (TVar 2) :: [PAtom (mkAtom 0 [TVar 1; TVar 2])]) (clet a_clause) /\
  eval_clause_uf true a_store (fun j => if (j <? length (@nil premise))%nat then a_store else a_store)
                 (sub_clause 4 2 (mkClause (chead a_clause) ([] ++ [PAtom (mkAtom 0 [TVar 1; TVar 2])]) (clet a_clause)))
  = Some [(1, [CNum 7; CNum 9]); (1, [CNum 8; CNum 19])] /\
  eval_clause_uf true a_store (fun _ => a_store) (mkClause (mkAtom 1 [TVar 1]) [PAtom (mkAtom 0 [TVar 1; TVar 2]); PEq (TVar 5) (TVar 5)] [])
  = eval_clause_uf true a_store (fun _ => a_store) (mkClause (mkAtom 1 [TVar 1]) [PAtom (mkAtom 0 [TVar 1; TVar 2])] []).
Proof. repeat split; vm_compute; reflexivity. Qed.

(* ---- the test is implied by C04's: a clause that CheckRule accepts (Analysis/RuleCheck.check,
   the model of analysis.CheckRule) and that is alias_free there (every variable = variable
   equality has a side CheckRule counts as bound at that point) passes the test after
   ReplaceWildcards - the form in which the engine model evaluates it. So strata_exact holds
   for the union-find model on every program of checked, alias_free clauses. *)
From MV Require Analysis.RuleCheck.

Theorem checked_alias_free_is_static :
  forall cr : clause,
    RuleCheck.check cr = true -> RuleCheck.alias_free cr = true ->
    no_alias_body [] (cbody (RuleCheck.replace_wildcards cr)) = true.
Proof. exact checked_alias_free_static. Qed.
Print Assumptions checked_alias_free_is_static.

Theorem strata_exact_uf_checked :
  forall (fuel : nat) (Pr : list clause) (layers : list (list Z)) (store init Res : list fact),
    (forall cr, In cr Pr -> RuleCheck.check cr = true /\ RuleCheck.alias_free cr = true) ->
    valid_stratification (map RuleCheck.replace_wildcards Pr) layers ->
    eval_program_uf false fuel (map RuleCheck.replace_wildcards Pr) layers store init = Ok Res ->
    forall f, In f Res <-> slfp (map RuleCheck.replace_wildcards Pr) layers (fun g => In g (add_all store init)) f.
Proof. exact eval_program_uf_exact_checked. Qed.
Print Assumptions strata_exact_uf_checked.

(* st_prog is such a program (it has no wildcard: ReplaceWildcards leaves it as it is) *)
Example checked_hypotheses_satisfiable :
  (forall cr, In cr st_prog -> RuleCheck.check cr = true /\ RuleCheck.alias_free cr = true) /\
  map RuleCheck.replace_wildcards st_prog = st_prog.
Proof.
  split; [|vm_compute; reflexivity].
  intros cr [<-|[<-|[]]]; split; vm_compute; reflexivity.
Qed.
