(* C12 - type conformance is sound for membership; bounds are bounds.
   Property theorems only; each is closed by an exact reference to a lemma of
   Types/TypesProofs.v or (witnesses) by computation.

   Reading guide (model: Types/Types.v).  has_type = TypeHandle.HasType;
   set_conforms m = SetConforms, type_conforms m = TypeConforms,
   upper_bound / lower_bound = UpperBound / LowerBound, where the mode m is
     Legacy  the code before fixes F7a, F7e,
     Fixed   the code as it is now (what every run compares with the Go code),
     Strict  Fixed with: map pairs need equal key types, struct pairs the same
             duplicate-free field set, a tagged union on the right is expanded
             precisely.
   A result None is "model out of fuel"; the theorems of the first three parts
   are about Some-results, the correspondence run rejects None.  The last part
   (fuel sufficiency) proves that in the modes Fixed and Strict None never
   occurs and restates the theorems without the Some-hypotheses.  The soundness theorems hold for ALL
   types and constants in mode Strict, and in mode Fixed on the fragment where
   both modes give the same answer (written out in each statement); outside
   that fragment the code is unsound: the `_refuted` witnesses. *)
From Coq Require Import List BinInt String Ascii.
From MV Require Import Types.Types Types.TypesProofs Types.FuelProofs.
Import ListNotations.
Open Scope Z_scope.

Definition s (x : string) : str := List.map (fun a => Z.of_nat (nat_of_ascii a)) (list_ascii_of_string x).
Definition n (x : string) : ty := TConst (s x).

(* ---------------------------------------------------------------- conformance *)
Theorem conforms_sound_strict : forall S T c,
  set_conforms Strict S T = Some true -> has_type S c = true -> has_type T c = true.
Proof. exact set_conforms_strict_sound. Qed.
Print Assumptions conforms_sound_strict.

Theorem type_conforms_sound_strict : forall S T c,
  type_conforms Strict S T = Some true -> has_type S c = true -> has_type T c = true.
Proof. exact type_conforms_strict_sound. Qed.
Print Assumptions type_conforms_sound_strict.

(* the implemented judgement, on the fragment `nice` *)
Theorem conforms_sound : forall S T c,
  set_conforms Fixed S T = set_conforms Strict S T ->
  set_conforms Fixed S T = Some true -> has_type S c = true -> has_type T c = true.
Proof. exact set_conforms_nice_sound. Qed.
Print Assumptions conforms_sound.

(* hypotheses are satisfiable by non-trivial values: a list of a name prefix
   type, a struct pair with the same fields in another order, a tagged union *)
Example conforms_sound_nonvacuous_list :
  let S := TList (n "/a/b") in let T := TList (TUnion [n "/number"; n "/a"]) in
  let c := CListCons (CName (s "/a/b/c")) CListNil in
  set_conforms Fixed S T = set_conforms Strict S T /\ set_conforms Fixed S T = Some false /\
  set_conforms Fixed (TUnion [S; n "/number"]) (TUnion [TList (n "/a"); n "/number"]) = Some true /\
  set_conforms Strict (TUnion [S; n "/number"]) (TUnion [TList (n "/a"); n "/number"]) = Some true /\
  has_type S c = true /\ has_type (TList (n "/a")) c = true.
Proof. vm_compute. repeat split. Qed.

Example conforms_sound_nonvacuous_struct :
  let S := TStruct [(s "/f", n "/a/b"); (s "/g", TSingleton (CName (s "/x")))] [] in
  let T := TStruct [(s "/g", n "/name")] [(s "/f", n "/a")] in
  let c := CStructCons (CName (s "/g")) (CName (s "/x")) (CStructCons (CName (s "/f")) (CName (s "/a/b/c")) CStructNil) in
  set_conforms Fixed S T = set_conforms Strict S T /\ set_conforms Fixed S T = Some true /\
  has_type S c = true /\ has_type T c = true.
Proof. vm_compute. repeat split. Qed.

Example conforms_sound_nonvacuous_tagged :
  let S := TTagged (s "/kind") [(s "/a", TStruct [(s "/x", n "/number")] [])] in
  let T := TUnion [TStruct [(s "/kind", n "/name"); (s "/x", n "/any")] []; n "/string"] in
  let c := CStructCons (CName (s "/kind")) (CName (s "/a")) (CStructCons (CName (s "/x")) (CNum 1) CStructNil) in
  set_conforms Fixed S T = set_conforms Strict S T /\ set_conforms Fixed S T = Some true /\
  has_type S c = true /\ has_type T c = true.
Proof. vm_compute. repeat split. Qed.

(* --------------------------------------------------------------------- bounds *)
(* srt stands for sort.Slice by Hash(): any function that keeps the elements *)
Theorem upper_bound_sound_strict : forall srt ts U,
  (forall l x, In x (srt l) <-> In x l) ->
  upper_bound (set_conforms Strict) srt ts = Some U ->
  forall t c, In t ts -> has_type t c = true -> has_type U c = true.
Proof. exact upper_bound_strict_sound. Qed.
Print Assumptions upper_bound_sound_strict.

Theorem upper_bound_only_members_strict : forall srt ts U,
  (forall l x, In x (srt l) <-> In x l) ->
  upper_bound (set_conforms Strict) srt ts = Some U ->
  forall c, has_type U c = true -> exists t, In t ts /\ has_type t c = true.
Proof. exact upper_bound_strict_tight. Qed.
Print Assumptions upper_bound_only_members_strict.

Theorem lower_bound_sound_strict : forall srt ts L,
  (forall l x, In x (srt l) <-> In x l) ->
  lower_bound (set_conforms Strict) srt ts = Some L ->
  forall t c, In t ts -> has_type L c = true -> has_type t c = true.
Proof. exact lower_bound_strict_sound. Qed.
Print Assumptions lower_bound_sound_strict.

(* the implemented bounds, on the fragment where they agree with the strict ones *)
Theorem upper_bound_sound : forall srt ts U,
  (forall l x, In x (srt l) <-> In x l) ->
  upper_bound (set_conforms Fixed) srt ts = upper_bound (set_conforms Strict) srt ts ->
  upper_bound (set_conforms Fixed) srt ts = Some U ->
  forall t c, In t ts -> has_type t c = true -> has_type U c = true.
Proof. intros srt ts U Hs Hn H. rewrite Hn in H. exact (upper_bound_strict_sound srt ts U Hs H). Qed.
Print Assumptions upper_bound_sound.

Theorem lower_bound_sound : forall srt ts L,
  (forall l x, In x (srt l) <-> In x l) ->
  lower_bound (set_conforms Fixed) srt ts = lower_bound (set_conforms Strict) srt ts ->
  lower_bound (set_conforms Fixed) srt ts = Some L ->
  forall t c, In t ts -> has_type L c = true -> has_type t c = true.
Proof. intros srt ts L Hs Hn H. rewrite Hn in H. exact (lower_bound_strict_sound srt ts L Hs H). Qed.
Print Assumptions lower_bound_sound.

(* the order used by the correspondence run is such a function *)
Theorem rank_sort_keeps_elements : forall rank l x, In x (rank_srt rank l) <-> In x l.
Proof. exact rank_srt_in. Qed.
Print Assumptions rank_sort_keeps_elements.

Example bounds_nonvacuous :
  let ts := [TUnion [n "/a/b"; n "/number"]; TList (n "/a"); n "/a"] in
  upper_bound (set_conforms Fixed) id_srt ts = upper_bound (set_conforms Strict) id_srt ts /\
  upper_bound (set_conforms Fixed) id_srt ts = Some (TUnion [n "/a"; n "/number"; TList (n "/a")]) /\
  let ls := [TUnion [n "/a/b"; n "/number"; TList (n "/a/b")]; TUnion [n "/a"; TList (n "/a")]] in
  lower_bound (set_conforms Fixed) id_srt ls = lower_bound (set_conforms Strict) id_srt ls /\
  lower_bound (set_conforms Fixed) id_srt ls = Some (TUnion [n "/a/b"; TList (n "/a/b")]) /\
  has_type (TUnion [n "/a/b"; TList (n "/a/b")]) (CName (s "/a/b/c")) = true.
Proof. vm_compute. repeat split. Qed.

(* ------------------------------------------------- refutations (the findings) *)
(* F7a, before the fix: bare string prefix, and every base type is a name *)
Theorem conforms_prefix_refuted :
  set_conforms Legacy (n "/ab") (n "/a") = Some true /\
  has_type (n "/ab") (CName (s "/ab/c")) = true /\ has_type (n "/a") (CName (s "/ab/c")) = false /\
  set_conforms Legacy (n "/number") (n "/name") = Some true /\
  set_conforms Legacy (n "/any") (n "/a") = Some true /\
  set_conforms Legacy (TList (n "/any")) (TList (n "/name")) = Some true /\
  upper_bound (set_conforms Legacy) id_srt [n "/name"; n "/number"] = Some (n "/name") /\
  has_type (n "/number") (CNum 1) = true /\ has_type (n "/name") (CNum 1) = false /\
  (* after the fix *)
  set_conforms Fixed (n "/ab") (n "/a") = Some false /\ set_conforms Fixed (n "/number") (n "/name") = Some false /\
  set_conforms Fixed (n "/any") (n "/a") = Some false /\ set_conforms Fixed (n "/a/b") (n "/a") = Some true /\
  upper_bound (set_conforms Fixed) id_srt [n "/name"; n "/number"] = Some (TUnion [n "/name"; n "/number"]).
Proof. vm_compute. repeat split. Qed.
Print Assumptions conforms_prefix_refuted.

(* F7b (known): map keys are contravariant in conformance, covariant in membership *)
Theorem conforms_map_refuted :
  let S := TMap (n "/any") (n "/number") in let T := TMap (n "/string") (n "/number") in
  let c := CMapCons (CNum 1) (CNum 1) CMapNil in
  set_conforms Fixed S T = Some true /\ has_type S c = true /\ has_type T c = false /\
  set_conforms Strict S T = Some false /\
  lower_bound (set_conforms Fixed) id_srt [S; T] = Some S.
Proof. vm_compute. repeat split. Qed.
Print Assumptions conforms_map_refuted.

(* F7c (known): width subtyping of structs, but membership wants exactly the declared fields *)
Theorem conforms_struct_refuted :
  let S := TStruct [(s "/f", n "/any")] [] in
  let T := TStruct [(s "/f", n "/any")] [(s "/g", n "/number")] in
  let c := CStructCons (CName (s "/f")) (CNum 1) CStructNil in
  set_conforms Fixed S T = Some true /\ has_type S c = true /\ has_type T c = false /\
  set_conforms Strict S T = Some false.
Proof. vm_compute. repeat split. Qed.
Print Assumptions conforms_struct_refuted.

(* F7d, before the fix: /bot conforms to everything but had members *)
Theorem bot_member_refuted :
  set_conforms Legacy (n "/bot") (n "/number") = Some true /\
  has_base_type_legacy (s "/bot") (CName (s "/bot/x")) = true /\
  has_base_type_legacy (s "/bytes") (CBytes (s "x")) = false /\
  (forall c, has_type (n "/bot") c = false) /\ has_type (n "/bytes") (CBytes (s "x")) = true.
Proof. vm_compute. repeat split. Qed.
Print Assumptions bot_member_refuted.

(* F7e, before the fix: tuples of different lengths (None = the Go code panics) *)
Theorem tuple_length_refuted :
  let T3 := TTuple [n "/any"; n "/any"; n "/number"] in
  let T4 := TTuple [n "/any"; n "/any"; n "/number"; n "/any"] in
  let c := CPair (CNum 1) (CPair (CNum 2) (CNum 3)) in
  set_conforms Legacy T3 T4 = Some true /\ has_type T3 c = true /\ has_type T4 c = false /\
  set_conforms Legacy T4 T3 = None /\
  set_conforms Fixed T3 T4 = Some false /\ set_conforms Fixed T4 T3 = Some false.
Proof. vm_compute. repeat split. Qed.
Print Assumptions tuple_length_refuted.

(* F7f (known): a tagged union on the right is expanded with /name for the tag field *)
Theorem conforms_tagged_refuted :
  let S := TStruct [(s "/kind", n "/name"); (s "/x", n "/number")] [] in
  let T := TTagged (s "/kind") [(s "/a", TStruct [(s "/x", n "/number")] [])] in
  let c := CStructCons (CName (s "/kind")) (CName (s "/zzz")) (CStructCons (CName (s "/x")) (CNum 1) CStructNil) in
  set_conforms Fixed S T = Some true /\ has_type S c = true /\ has_type T c = false /\
  set_conforms Strict S T = Some false.
Proof. vm_compute. repeat split. Qed.
Print Assumptions conforms_tagged_refuted.

(* ------------------------------------------------------------ fuel sufficiency *)
(* sc / tc = SetConforms / TypeConforms on k units of fuel; set_conforms m S T =
   sc m (fuel_for S T) S T with fuel_for S T = 2 * (ty_size S + ty_size T) + 8,
   likewise type_conforms / tc.  All statements are for EVERY value of the model
   type `ty` (no well-formedness hypothesis).  Mode Legacy is excluded where
   totality is claimed: there None is also the index-out-of-range panic of the
   pre-F7e tuple rule (tuple_length_refuted above). *)

(* more fuel never changes an answer *)
Theorem conforms_fuel_monotone : forall m k k' S T b,
  (k <= k')%nat -> sc m k S T = Some b -> sc m k' S T = Some b.
Proof. exact sc_mono. Qed.
Print Assumptions conforms_fuel_monotone.

Theorem type_conforms_fuel_monotone : forall m k k' S T b,
  (k <= k')%nat -> tc m k S T = Some b -> tc m k' S T = Some b.
Proof. exact tc_mono. Qed.
Print Assumptions type_conforms_fuel_monotone.

(* the fuel the model uses suffices: the judgements always answer *)
Theorem conforms_total : forall m S T,
  m <> Legacy -> exists b, set_conforms m S T = Some b.
Proof. exact set_conforms_total. Qed.
Print Assumptions conforms_total.

Theorem tconforms_total : forall m S T,
  m <> Legacy -> exists b, type_conforms m S T = Some b.
Proof. exact type_conforms_total. Qed.
Print Assumptions tconforms_total.

(* ... and with any larger fuel they give the same answer.  This one holds in
   every mode: a None of set_conforms Legacy is the panic, not the fuel *)
Theorem conforms_fuel_independent : forall m k S T,
  (fuel_for S T <= k)%nat -> sc m k S T = set_conforms m S T.
Proof. exact sc_fuel_independent_all. Qed.
Print Assumptions conforms_fuel_independent.

Theorem type_conforms_fuel_independent : forall m k S T,
  (fuel_for S T <= k)%nat -> tc m k S T = type_conforms m S T.
Proof. exact tc_fuel_independent_all. Qed.
Print Assumptions type_conforms_fuel_independent.

(* the bounds always answer (for every sort function, also one that loses elements) *)
Theorem upper_bound_answers : forall m srt ts,
  m <> Legacy -> exists U, upper_bound (set_conforms m) srt ts = Some U.
Proof. exact upper_bound_total. Qed.
Print Assumptions upper_bound_answers.

Theorem lower_bound_answers : forall m srt ts,
  m <> Legacy -> exists L, lower_bound (set_conforms m) srt ts = Some L.
Proof. exact lower_bound_total. Qed.
Print Assumptions lower_bound_answers.

(* the hypotheses are satisfiable and not idle: too little fuel does give None,
   fuel_for is above the threshold, Legacy has a None that no fuel removes *)
Example fuel_nonvacuous :
  let S := TTagged (s "/kind") [(s "/a", TStruct [(s "/x", TList (n "/number"))] [])] in
  let T := TUnion [TStruct [(s "/kind", n "/name"); (s "/x", TList (n "/any"))] []; n "/string"] in
  Fixed <> Legacy /\ Strict <> Legacy /\
  sc Fixed 6 S T = None /\ sc Fixed 7 S T = Some true /\ fuel_for S T = 36%nat /\
  set_conforms Fixed S T = Some true /\ sc Fixed 1000 S T = Some true /\
  tc Fixed 2 (TList (TList (n "/a/b"))) (TList (TList (n "/a"))) = None /\
  tc Fixed 3 (TList (TList (n "/a/b"))) (TList (TList (n "/a"))) = Some true /\
  sc Legacy 1000 (TTuple [n "/any"; n "/any"; n "/number"; n "/any"]) (TTuple [n "/any"; n "/any"; n "/number"]) = None.
Proof. vm_compute. repeat split; discriminate. Qed.

(* the soundness theorems without the "= Some .." hypotheses: the judgement
   always answers, and an affirmative answer is sound *)
Theorem conforms_sound_strict_total : forall S T,
  set_conforms Strict S T = Some false \/
  (set_conforms Strict S T = Some true /\ forall c, has_type S c = true -> has_type T c = true).
Proof. exact set_conforms_strict_decides. Qed.
Print Assumptions conforms_sound_strict_total.

Theorem type_conforms_sound_strict_total : forall S T,
  type_conforms Strict S T = Some false \/
  (type_conforms Strict S T = Some true /\ forall c, has_type S c = true -> has_type T c = true).
Proof. exact type_conforms_strict_decides. Qed.
Print Assumptions type_conforms_sound_strict_total.

Theorem conforms_sound_total : forall S T,
  set_conforms Fixed S T = set_conforms Strict S T ->
  set_conforms Fixed S T = Some false \/
  (set_conforms Fixed S T = Some true /\ forall c, has_type S c = true -> has_type T c = true).
Proof. exact set_conforms_nice_decides. Qed.
Print Assumptions conforms_sound_total.

(* the bounds exist and are bounds (upper: also no larger than the union of the arguments) *)
Theorem upper_bound_sound_strict_total : forall srt ts,
  (forall l x, In x (srt l) <-> In x l) ->
  exists U, upper_bound (set_conforms Strict) srt ts = Some U /\
            (forall t c, In t ts -> has_type t c = true -> has_type U c = true) /\
            (forall c, has_type U c = true -> exists t, In t ts /\ has_type t c = true).
Proof. exact upper_bound_strict_total_sound. Qed.
Print Assumptions upper_bound_sound_strict_total.

Theorem lower_bound_sound_strict_total : forall srt ts,
  (forall l x, In x (srt l) <-> In x l) ->
  exists L, lower_bound (set_conforms Strict) srt ts = Some L /\
            forall t c, In t ts -> has_type L c = true -> has_type t c = true.
Proof. exact lower_bound_strict_total_sound. Qed.
Print Assumptions lower_bound_sound_strict_total.

Theorem upper_bound_sound_total : forall srt ts,
  (forall l x, In x (srt l) <-> In x l) ->
  upper_bound (set_conforms Fixed) srt ts = upper_bound (set_conforms Strict) srt ts ->
  exists U, upper_bound (set_conforms Fixed) srt ts = Some U /\
            forall t c, In t ts -> has_type t c = true -> has_type U c = true.
Proof. exact upper_bound_fixed_total_sound. Qed.
Print Assumptions upper_bound_sound_total.

Theorem lower_bound_sound_total : forall srt ts,
  (forall l x, In x (srt l) <-> In x l) ->
  lower_bound (set_conforms Fixed) srt ts = lower_bound (set_conforms Strict) srt ts ->
  exists L, lower_bound (set_conforms Fixed) srt ts = Some L /\
            forall t c, In t ts -> has_type L c = true -> has_type t c = true.
Proof. exact lower_bound_fixed_total_sound. Qed.
Print Assumptions lower_bound_sound_total.

(* both disjuncts of the total statements occur *)
Example total_nonvacuous :
  set_conforms Strict (TList (n "/a/b")) (TList (n "/a")) = Some true /\
  set_conforms Strict (TList (n "/a")) (TList (n "/a/b")) = Some false /\
  has_type (TList (n "/a")) (CListCons (CName (s "/a/c")) CListNil) = true /\
  has_type (TList (n "/a/b")) (CListCons (CName (s "/a/c")) CListNil) = false.
Proof. vm_compute. repeat split. Qed.
