(* C16 - interactive definitions and pop compose like a stack.
   Property theorems only; each is closed by an exact reference to a lemma of
   Interp/StackProofs.v.  The model (Interp/Stack.v) is interpreter.go after the
   fixes N2, N5, N30 and N32; parsing, analysis and evaluation are ARBITRARY functions
   (all theorems quantify over them), so nothing here depends on the engine.

   Reading guide: [run cs] is the interpreter state after the command history
   [cs] starting from interpreter.New; [live cs] are the commands of [cs] that
   are still live, in order: a define that succeeded joins the ONE interactive
   fragment, a load (successful or not) or a pop ends the interactive fragment,
   a load that succeeded is live until a pop without interactive definitions
   removes it; the same pathset may be live several times ([pushed r] holds for
   [r = ROk] only). *)
From Coq Require Import List ZArith Bool.
From MV Require Import Interp.Stack Interp.StackProofs Interp.StackTables.
Import ListNotations.
Open Scope Z_scope.

(* ------------------------------------------------------------ the property *)
(* After every command history the interpreter is in exactly the state of a fresh
   interpreter that executed only the live commands (fragments, known predicates,
   every store layer, buffer) ... *)
Theorem state_equals_replay :
  forall (prog : Type) (p_decls : prog -> list (pred * declid)) (parse : src -> bool)
         (analyse : src -> ktab -> option prog) (eval : prog -> list fact -> list fact * bool)
         (cs : list cmd),
    run prog p_decls parse analyse eval cs
    = run prog p_decls parse analyse eval (live prog p_decls parse analyse eval cs).
Proof. exact run_live. Qed.
Print Assumptions state_equals_replay.

(* ... hence every query answers exactly as that fresh interpreter *)
Theorem stack_refines_replay :
  forall (prog : Type) (p_decls : prog -> list (pred * declid)) (parse : src -> bool)
         (analyse : src -> ktab -> option prog) (eval : prog -> list fact -> list fact * bool)
         (cs : list cmd) (q : pred),
    query (run prog p_decls parse analyse eval cs) q
    = query (run prog p_decls parse analyse eval (live prog p_decls parse analyse eval cs)) q.
Proof. exact stack_refines_replay_l. Qed.
Print Assumptions stack_refines_replay.

(* the live commands are definitions and loads only, and in the fresh replay every one
   of them takes effect (its fragment is pushed): nothing in [live cs] is dead weight *)
Theorem live_commands_take_effect :
  forall (prog : Type) (p_decls : prog -> list (pred * declid)) (parse : src -> bool)
         (analyse : src -> ktab -> option prog) (eval : prog -> list fact -> list fact * bool)
         (cs : list cmd),
    Forall (fun r => pushed r = true)
           (results_from prog p_decls parse analyse eval init (live prog p_decls parse analyse eval cs)).
Proof. exact live_results. Qed.
Print Assumptions live_commands_take_effect.

Theorem live_commands_are_definitions_and_loads :
  forall (prog : Type) (p_decls : prog -> list (pred * declid)) (parse : src -> bool)
         (analyse : src -> ktab -> option prog) (eval : prog -> list fact -> list fact * bool)
         (cs : list cmd) (c : cmd),
    In c (live prog p_decls parse analyse eval cs) ->
    match c with CDefine _ | CLoad _ => True | _ => False end.
Proof. exact live_only_defs_loads. Qed.
Print Assumptions live_commands_are_definitions_and_loads.

Theorem live_idempotent :
  forall (prog : Type) (p_decls : prog -> list (pred * declid)) (parse : src -> bool)
         (analyse : src -> ktab -> option prog) (eval : prog -> list fact -> list fact * bool)
         (cs : list cmd),
    live prog p_decls parse analyse eval (live prog p_decls parse analyse eval cs)
    = live prog p_decls parse analyse eval cs.
Proof. exact live_idempotent_l. Qed.
Print Assumptions live_idempotent.

(* a definition that is rejected (at parsing, analysis or evaluation) leaves the state
   unchanged - in ANY state, reachable or not *)
Theorem rejected_define_noop :
  forall (prog : Type) (p_decls : prog -> list (pred * declid)) (parse : src -> bool)
         (analyse : src -> ktab -> option prog) (eval : prog -> list fact -> list fact * bool)
         (t : chunk) (s : state prog),
    snd (define prog p_decls parse analyse eval t s) <> ROk ->
    fst (define prog p_decls parse analyse eval t s) = s.
Proof. exact rejected_define_noop_l. Qed.
Print Assumptions rejected_define_noop.

(* a load that is rejected (missing file or parse error, analysis, evaluation) pushes
   nothing - in ANY state; what remains of it is that Load drops the interactive definitions
   first ("::load <path>  pops interactive buffer and loads source file", interpreter.go) *)
Theorem rejected_load_drops_only_interactive :
  forall (prog : Type) (p_decls : prog -> list (pred * declid)) (parse : src -> bool)
         (analyse : src -> ktab -> option prog) (eval : prog -> list fact -> list fact * bool)
         (p : path) (s : state prog),
    snd (load prog p_decls parse analyse eval p s) <> ROk ->
    fst (load prog p_decls parse analyse eval p s) = reset_interactive [] s.
Proof. exact rejected_load_l. Qed.
Print Assumptions rejected_load_drops_only_interactive.

(* hence after any history that left no interactive definitions a rejected load leaves the
   whole state unchanged *)
Theorem rejected_load_noop :
  forall (prog : Type) (p_decls : prog -> list (pred * declid)) (parse : src -> bool)
         (analyse : src -> ktab -> option prog) (eval : prog -> list fact -> list fact * bool)
         (cs : list cmd) (p : path),
    has_interactive (run prog p_decls parse analyse eval cs) = false ->
    snd (load prog p_decls parse analyse eval p (run prog p_decls parse analyse eval cs)) <> ROk ->
    fst (load prog p_decls parse analyse eval p (run prog p_decls parse analyse eval cs))
    = run prog p_decls parse analyse eval cs.
Proof. exact rejected_load_noop_l. Qed.
Print Assumptions rejected_load_noop.

(* pop is exact: after a load / a first define that took effect, pop gives back the very
   state before it (for every pathset, also one that is already on the stack) *)
Theorem pop_exact_after_load :
  forall (prog : Type) (p_decls : prog -> list (pred * declid)) (parse : src -> bool)
         (analyse : src -> ktab -> option prog) (eval : prog -> list fact -> list fact * bool)
         (cs : list cmd) (p : path),
    has_interactive (run prog p_decls parse analyse eval cs) = false ->
    pushed (snd (load prog p_decls parse analyse eval p (run prog p_decls parse analyse eval cs))) = true ->
    pop (fst (load prog p_decls parse analyse eval p (run prog p_decls parse analyse eval cs)))
    = run prog p_decls parse analyse eval cs.
Proof. exact pop_after_load. Qed.
Print Assumptions pop_exact_after_load.

Theorem pop_exact_after_define :
  forall (prog : Type) (p_decls : prog -> list (pred * declid)) (parse : src -> bool)
         (analyse : src -> ktab -> option prog) (eval : prog -> list fact -> list fact * bool)
         (cs : list cmd) (t : chunk),
    has_interactive (run prog p_decls parse analyse eval cs) = false ->
    snd (define prog p_decls parse analyse eval t (run prog p_decls parse analyse eval cs)) = ROk ->
    pop (fst (define prog p_decls parse analyse eval t (run prog p_decls parse analyse eval cs)))
    = run prog p_decls parse analyse eval cs.
Proof. exact pop_after_define. Qed.
Print Assumptions pop_exact_after_define.

(* all interactive definitions are one fragment: a pop after any successful define goes
   back to the state under the interactive fragment, however many defines there were *)
Theorem pop_drops_the_whole_interactive_fragment :
  forall (prog : Type) (p_decls : prog -> list (pred * declid)) (parse : src -> bool)
         (analyse : src -> ktab -> option prog) (eval : prog -> list fact -> list fact * bool)
         (s : state prog) (t : chunk),
    snd (define prog p_decls parse analyse eval t s) = ROk ->
    pop (fst (define prog p_decls parse analyse eval t s)) = reset_interactive [] s.
Proof. exact pop_after_define_gen. Qed.
Print Assumptions pop_drops_the_whole_interactive_fragment.

(* pushes never write below the top layer: in every reachable state the checkpoint of each
   fragment is literally the list of layers below it, and the base store is still empty
   ([layered] is defined in Interp/StackProofs.v by recursion on the fragment stack) *)
Theorem checkpoints_are_the_lower_layers :
  forall (prog : Type) (p_decls : prog -> list (pred * declid)) (parse : src -> bool)
         (analyse : src -> ktab -> option prog) (eval : prog -> list fact -> list fact * bool)
         (cs : list cmd),
    layered prog (frags (run prog p_decls parse analyse eval cs)) (store (run prog p_decls parse analyse eval cs)).
Proof. exact layered_run. Qed.
Print Assumptions checkpoints_are_the_lower_layers.

(* a define / load / query on a state without interactive definitions leaves every
   existing layer as it is: either a new layer is put on top, or the store is unchanged *)
Theorem pushes_write_top_only :
  forall (prog : Type) (p_decls : prog -> list (pred * declid)) (parse : src -> bool)
         (analyse : src -> ktab -> option prog) (eval : prog -> list fact -> list fact * bool)
         (s : state prog) (c : cmd),
    layered prog (frags s) (store s) -> has_interactive s = false ->
    match c with CPop => False | _ => True end ->
    exists top,
      store (fst (step prog p_decls parse analyse eval s c))
      = top :: tl (store (fst (step prog p_decls parse analyse eval s c))) /\
      (tl (store (fst (step prog p_decls parse analyse eval s c))) = store s \/
       store (fst (step prog p_decls parse analyse eval s c)) = store s).
Proof. exact lower_layers_untouched. Qed.
Print Assumptions pushes_write_top_only.

(* -------------------------------------------- non-vacuity and the witnesses *)
(* predicates a=1 b=2 c=3 d=4 e=5 u=6; files a.mg=1 ("a(10).") b.mg=2 ("b(X) :- a(X).")
   e.mg=3 (no clause) div.mg=4 ("e(50). u(Y) :- a(X), Y = fn:div(X, 0)."); chunks
   1 = "c(30)."  2 = a rule rejected by analysis  3 = "d(40)." *)
Definition ex_tables : tables := {|
  t_parse := [(SFile 1, true); (SFile 2, true); (SFile 3, true); (SFile 4, true); (SInter [1], true); (SInter [1; 2], true);
              (SInter [1; 3], true); (SInter [1; 2; 3], true); (SInter [3], true)];
  t_analyse := [((SFile 1, []), Some (1, [(1, 1)]));
                ((SFile 2, [(1, 1)]), Some (2, [(1, 1); (2, 2)]));   (* Decls: ALL predicates *)
                ((SInter [1], []), Some (3, [(3, 3)]));
                ((SInter [1; 2], []), None);
                ((SInter [1; 2; 3], []), None);
                ((SInter [1; 3], []), Some (4, [(3, 4); (4, 4)]));
                ((SInter [1], [(1, 1)]), Some (5, [(1, 1); (3, 3)]));
                ((SFile 3, []), Some (6, []));                        (* adds no predicate: loads any number of times *)
                ((SFile 4, [(1, 1)]), Some (7, [(1, 1); (5, 7); (6, 7)]))];
  t_eval := [((1, []), ([(1, 10)], true));
             ((2, [(1, 10)]), ([(2, 20)], true));
             ((3, []), ([(3, 30)], true));
             ((4, []), ([(3, 30); (4, 40)], true));
             ((5, [(1, 10)]), ([(3, 30)], true));
             ((6, []), ([], true));
             ((7, [(1, 10)]), ([(5, 50)], false))] |}.              (* e(50) is derived, then the division fails *)

(* the history of finding N2 on the fixed model: pop removes b and keeps a; b.mg loads again *)
Example pop_keeps_lower_fragments :
  query (t_run ex_tables [CLoad 1; CLoad 2; CPop]) 1 = Some [(1, 10)] /\
  query (t_run ex_tables [CLoad 1; CLoad 2; CPop]) 2 = None /\
  t_live ex_tables [CLoad 1; CLoad 2; CPop; CLoad 2] = [CLoad 1; CLoad 2] /\
  query (t_run ex_tables [CLoad 1; CLoad 2; CPop; CLoad 2]) 2 = Some [(2, 20)].
Proof. vm_compute. repeat split. Qed.

(* hypotheses of rejected_define_noop are met: chunk 2 is rejected after chunk 1, the state
   stays, and the next define succeeds *)
Example rejected_define_example :
  snd (t_step ex_tables (t_run ex_tables [CDefine 1]) (CDefine 2)) = RAnalysis /\
  t_run ex_tables [CDefine 1; CDefine 2] = t_run ex_tables [CDefine 1] /\
  query (t_run ex_tables [CDefine 1; CDefine 2; CDefine 3]) 3 = Some [(3, 30)] /\
  query (t_run ex_tables [CDefine 1; CDefine 2; CDefine 3]) 4 = Some [(4, 40)] /\
  t_live ex_tables [CDefine 1; CDefine 2; CDefine 3] = [CDefine 1; CDefine 3].
Proof. vm_compute. repeat split. Qed.

(* hypotheses of the pop theorems are met; a load ends the interactive fragment *)
Example pop_exact_example :
  has_interactive (t_run ex_tables [CLoad 1]) = false /\
  pushed (snd (t_step ex_tables (t_run ex_tables [CLoad 1]) (CLoad 2))) = true /\
  snd (t_step ex_tables (t_run ex_tables [CLoad 1]) (CDefine 1)) = ROk /\
  t_run ex_tables [CLoad 1; CDefine 1; CPop] = t_run ex_tables [CLoad 1] /\
  t_live ex_tables [CDefine 1; CDefine 3; CLoad 1; CDefine 1; CPop] = [CLoad 1] /\
  layered tprog (frags (t_run ex_tables [CLoad 1; CLoad 2])) (store (t_run ex_tables [CLoad 1; CLoad 2])) /\
  store (t_run ex_tables [CLoad 1; CLoad 2]) = [[(2, 20)]; [(1, 10)]; []].
Proof. vm_compute. repeat split; repeat eexists. Qed.

(* hypotheses of the rejected_load theorems are met: over a.mg the file div.mg passes
   analysis and fails in evaluation; nothing of it stays *)
Example rejected_load_example :
  has_interactive (t_run ex_tables [CLoad 1]) = false /\
  snd (t_step ex_tables (t_run ex_tables [CLoad 1]) (CLoad 4)) = REval /\
  t_run ex_tables [CLoad 1; CLoad 4] = t_run ex_tables [CLoad 1] /\
  t_live ex_tables [CLoad 1; CLoad 4] = [CLoad 1] /\
  query (t_run ex_tables [CLoad 1; CLoad 4]) 5 = None /\
  t_run ex_tables [CLoad 1; CLoad 4; CPop] = init.
Proof. vm_compute. repeat split. Qed.

(* the same pathset twice: two stack entries that pop one at a time (history of finding N30) *)
Example same_pathset_twice_example :
  t_live ex_tables [CLoad 3; CLoad 3] = [CLoad 3; CLoad 3] /\
  length (frags (t_run ex_tables [CLoad 3; CLoad 3])) = 2%nat /\
  t_run ex_tables [CLoad 3; CLoad 3; CPop] = t_run ex_tables [CLoad 3] /\
  t_live ex_tables [CLoad 3; CLoad 3; CPop] = [CLoad 3] /\
  t_run ex_tables [CLoad 3; CLoad 3; CPop; CPop] = init /\
  t_live ex_tables [CLoad 3; CLoad 3; CPop; CPop] = [].
Proof. vm_compute. repeat split. Qed.

(* ---------------------------- the behaviour before the fixes violates the property *)
(* N2: popSourceFragment deleted every predicate of the popped fragment's Decls - which
   holds ALL known predicates: after load a; load b; pop the predicate a is unknown (its
   facts are still in the store), while a fresh interpreter after the live commands
   [load a] answers a(10); and b.mg cannot be loaded again *)
Theorem pop_forgets_refuted :
  let old := t_run_var ex_tables false true true in
  query (old [CLoad 1; CLoad 2; CPop]) 1 = None /\
  visible (old [CLoad 1; CLoad 2; CPop]) = [(1, 10)] /\
  t_live ex_tables [CLoad 1; CLoad 2; CPop] = [CLoad 1] /\
  query (t_run ex_tables (t_live ex_tables [CLoad 1; CLoad 2; CPop])) 1 = Some [(1, 10)] /\
  snd (t_step_var ex_tables false true true (old [CLoad 1; CLoad 2; CPop]) (CLoad 2)) = RAnalysis.
Proof. vm_compute. repeat split. Qed.
Print Assumptions pop_forgets_refuted.

(* N5: Define popped the interactive fragment and stored the new buffer before analysis:
   after the rejected chunk 2 the fact c(30) is gone and every later define fails,
   although the rejected define should have been a no-op *)
Theorem failed_define_refuted :
  let old := t_run_var ex_tables true false true in
  snd (t_step_var ex_tables true false true (old [CDefine 1]) (CDefine 2)) = RAnalysis /\
  query (old [CDefine 1]) 3 = Some [(3, 30)] /\
  query (old [CDefine 1; CDefine 2]) 3 = None /\
  buffer (old [CDefine 1; CDefine 2]) = [1; 2] /\
  snd (t_step_var ex_tables true false true (old [CDefine 1; CDefine 2]) (CDefine 3)) = RAnalysis /\
  snd (t_step ex_tables (t_run ex_tables [CDefine 1; CDefine 2]) (CDefine 3)) = ROk.
Proof. vm_compute. repeat split. Qed.
Print Assumptions failed_define_refuted.

(* N32: a Load whose evaluation failed kept its fragment: after load a; load div the
   predicate e is known and answers the fact derived before the error, and the next pop
   removes the rejected file instead of a.mg - while a fresh interpreter after the live
   commands [load a] does not know e, and pop empties it *)
Theorem failed_load_refuted :
  let old := t_run_var ex_tables true true false in
  snd (t_step_var ex_tables true true false (old [CLoad 1]) (CLoad 4)) = REval /\
  query (old [CLoad 1; CLoad 4]) 5 = Some [(5, 50)] /\
  query (old [CLoad 1; CLoad 4; CPop]) 1 = Some [(1, 10)] /\
  t_live ex_tables [CLoad 1; CLoad 4] = [CLoad 1] /\
  query (t_run ex_tables (t_live ex_tables [CLoad 1; CLoad 4])) 5 = None /\
  query (t_run ex_tables [CLoad 1; CLoad 4; CPop]) 1 = None.
Proof. vm_compute. repeat split. Qed.
Print Assumptions failed_load_refuted.

(* N30: with sourceFragments keyed by pathset (Stack.step_keyed; None = nil dereference)
   the second load of e.mg overwrites the entry of the first, the first pop deletes it and
   the second pop finds no fragment, while the live commands after the first pop are
   [load e] and a fresh interpreter pops that without complaint *)
Theorem double_load_refuted :
  t_run_keyed ex_tables [CLoad 3; CLoad 3; CPop] = Some (t_run ex_tables [CLoad 3], []) /\
  t_run_keyed ex_tables [CLoad 3; CLoad 3; CPop; CPop] = None /\
  t_live ex_tables [CLoad 3; CLoad 3; CPop] = [CLoad 3] /\
  t_run_keyed ex_tables [CLoad 3; CPop] = Some (init, []) /\
  t_run ex_tables [CLoad 3; CLoad 3; CPop; CPop] = init.
Proof. vm_compute. repeat split. Qed.
Print Assumptions double_load_refuted.
