(* C02 - each aggregating rule reduces exactly its own body's solution set. (under construction) *)
From Coq Require Import List ZArith.
From MV Require Import Datalog.Syntax Datalog.Rewrite Datalog.Transform.
Import ListNotations.
Open Scope Z_scope.

Theorem fresh_names_refuted :
  fresh_id (id_of_name [114; 49]) 1 = fresh_id (id_of_name [114]) 11.
Proof. vm_compute. reflexivity. Qed.
Print Assumptions fresh_names_refuted.
