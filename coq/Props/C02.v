(* C02 - each aggregating rule reduces exactly its own body's solution set.

   Model: Datalog/Rewrite.v (rewrite.Rewrite, name generator), Datalog/Transform.v (evalDo,
   reducers, do-transforms applied after the stratum's fixpoint) on top of the C01 engine
   model. Proofs: Datalog/TransformProofs.v, Datalog/RewriteProofs.v.

   How the statements add up to the property. A rule with a do-transform is evaluated as
   eval_do head d rows (Transform.apply_do), where rows are the stored facts of the rule's
   single body atom. do_groups_exact / do_groups_facts / do_empty: for EVERY row list the
   emitted facts are exactly one per distinct key among the rows, each with every
   let-statement's reducer applied to exactly the rows carrying that key, nothing for no
   rows. For a multi-premise rule the body atom is the internal relation created by
   Rewrite; rewrite_shape says its defining clause has the rule's own body, and
   isolated_relation says that a relation defined by one clause only, absent from the
   incoming store, whose body reads completed relations, holds after the stratum's fixpoint
   exactly that clause's body solutions over the completed lower strata - for every program,
   store, rule order and fuel. rewrite_isolated discharges its uniqueness hypothesis for the
   rewritten stratum: when the generated names are pairwise distinct and no user predicate
   ends in __tmp, the internal relation of the split rule at ANY position holds exactly that
   rule's own body solutions, and the transformed rule reads exactly that relation
   (rewrite_heads: the heads of the rewritten plain clauses are the user's plus the generated
   names, each once). fresh_names_collide_iff says exactly when two generated names coincide
   (one symbol is the other followed by digits w and the counters' decimals differ by the
   prefix w); fresh_names_distinct / fresh_names_stratum_distinct: they never do when no
   head symbol ends in a digit (rewrite_isolated_nodigit); fresh_names_distinct_same_symbol:
   nor for one symbol; fresh_names_refuted / name_collision_refuted (finding F2b) show that
   they do otherwise, rewrite_F2_refuted shows the pre-fix counter gave two rules of one head
   the same name, rewrite_F2c_refuted shows the pre-fix single-atom test fed non-solutions
   into the groups. *)
From Coq Require Import List ZArith Bool Permutation.
From MV Require Import Datalog.Syntax Datalog.Interp Datalog.Solve Datalog.SolveProofs Datalog.SemiNaive
     Datalog.SemiNaiveProofs Datalog.Lfp Datalog.Rewrite Datalog.Transform
     Datalog.TransformProofs Datalog.RewriteProofs.
From MV Require Run.C02.
Import ListNotations.
Open Scope Z_scope.

(* ---- grouping and reducing *)

(* evalDo = one fact per distinct key, computed from exactly the rows with that key; an
   unbound key variable is an error of both sides *)
Theorem do_groups_exact : forall (head : atom) (d : dotrans) (rows : list subst),
  eval_do head d rows =
  match map_opt (key_of (d_keys d)) rows with
  | None => None
  | Some ks =>
      map_opt (fun k => eval_group head d
                          (k, filter (fun row => match key_of (d_keys d) row with
                                                 | Some k' => key_eqb k k'
                                                 | None => false
                                                 end) rows))
              (nodup_keys ks)
  end.
Proof. exact eval_do_spec. Qed.
Print Assumptions do_groups_exact.

(* membership form: a fact is emitted iff it is the head computed for the key of some row,
   from the rows of that key - and for nothing else *)
Theorem do_groups_facts : forall (head : atom) (d : dotrans) (rows : list subst) (fs : list fact),
  eval_do head d rows = Some fs ->
  forall f, In f fs <->
    exists row k, In row rows /\ key_of (d_keys d) row = Some k /\
      eval_group head d (k, filter (fun row' => match key_of (d_keys d) row' with
                                                | Some k' => key_eqb k k'
                                                | None => false
                                                end) rows) = Some f.
Proof. exact eval_do_facts. Qed.
Print Assumptions do_groups_facts.

(* the rows of a group are exactly the rows with its key *)
Theorem group_rows_exact_key : forall (keys : list Z) (k : list const) (rows : list subst) (row : subst),
  In row (rows_with_key keys k rows) <-> In row rows /\ key_of keys row = Some k.
Proof. exact rows_with_key_in. Qed.
Print Assumptions group_rows_exact_key.

(* an empty body yields no fact *)
Theorem do_empty : forall (head : atom) (d : dotrans), eval_do head d [] = Some [].
Proof. exact eval_do_nil. Qed.
Print Assumptions do_empty.

Example do_groups_example :
  eval_do (mkAtom 7 [TVar 1; TVar 3; TVar 4])
          (mkDo [1] [DReduce 3 RSum [TVar 2]; DReduce 4 RCount []])
          [[(1, CNum 1); (2, CNum 10)]; [(1, CNum 2); (2, CNum 5)]; [(1, CNum 1); (2, CNum 7)]]
  = Some [(7, [CNum 1; CNum 17; CNum 2]); (7, [CNum 2; CNum 5; CNum 1])].
Proof. vm_compute. reflexivity. Qed.

(* ---- the internal relation of a split rule *)

(* every plain clause of the rewritten stratum is an original plain clause or the internal
   clause of a split aggregating rule: head = the generated name over the chosen column
   order, body = that rule's own body, no transform *)
Theorem rewrite_shape : forall (ord : list Z -> list Z) (rs : list rule) (c : clause),
  In c (plain_clauses (rewrite ord rs)) ->
  (exists r, In r rs /\ r_do r = None /\ c = r_clause r) \/
  (exists r m d, In r rs /\ r_do r = Some d /\ 0 <= m /\
     single_atom_premise true (r_wild r) (cbody (r_clause r)) = false /\
     c = mkClause (mkAtom (fresh_id (r_head r) (m + 1))
                          (map TVar (ord (body_cols (r_wild r) (cbody (r_clause r))))))
                  (cbody (r_clause r)) []).
Proof. intros ord rs c H. exact (rewrite_go_in_tmp true true ord rs 0 c H). Qed.
Print Assumptions rewrite_shape.

(* a relation that exactly one clause c of the stratum defines, that the incoming store
   does not mention and whose body reads only relations the stratum does not derive, holds
   after the stratum's evaluation exactly c's body solutions over the incoming (completed)
   store: for all rules, delta-rule lists, stores, fuel. *)
Theorem isolated_relation :
  forall (R : list clause) (drules : list (clause * nat)) (St0 : list fact) (c : clause)
         (fuel : nat) (Res : list fact),
  neg_ok R -> drules_ok R drules -> In c R ->
  (forall c', In c' R -> apred (chead c') = apred (chead c) -> c' = c) ->
  (forall f, In f St0 -> fst f <> apred (chead c)) ->
  (forall q, In q (pos_preds (cbody c)) -> ~ In q (heads R)) ->
  eval_stratum fuel R drules St0 = Ok Res ->
  forall f, fst f = apred (chead c) ->
    (In f Res <-> exists t, sat (inset St0) (fun _ => St0) 0 (cbody c) [] t /\ emit_head c t = Some f).
Proof.
  intros R drules St0 c fuel Res Hn Hd Hc Hu Hf Hl He f Hp.
  exact (isolated_relation_exact R drules St0 Hn Hd c Hc Hu Hf Hl fuel Res He f Hp).
Qed.
Print Assumptions isolated_relation.

(* the heads of the plain clauses of a rewritten stratum are, as a multiset, the heads of the
   user's plain clauses plus the generated names (one clause per generation); the rules that
   keep a do-transform keep their heads, in order *)
Theorem rewrite_heads : forall (ord : list Z -> list Z) (rs : list rule),
  Permutation (heads (plain_clauses (rewrite ord rs)))
              (heads (plain_clauses rs) ++ fresh_ids true true 0 rs) /\
  map r_head (filter (fun r => negb (is_plain r)) (rewrite ord rs)) =
  map r_head (filter (fun r => negb (is_plain r)) rs).
Proof.
  intros ord rs. split.
  - exact (rewrite_go_heads_perm true ord rs 0).
  - exact (rewrite_go_do_heads true true ord rs 0).
Qed.
Print Assumptions rewrite_heads.

(* THE ISOLATION THEOREM. A stratum rs = pre ++ r :: post whose rule r (at any position) is
   split: r has a do-transform d and a body that is not a single simple atom. k = the value
   of the name generator's counter at r = 1 + the number of rules split before it. If
     - the names generated for the stratum are pairwise distinct,
     - no rule head of the stratum is an internal name (ends in __tmp),
     - no fact of the incoming store has an internal name,
     - the atoms of r's body name no internal predicate and no predicate that a plain rule
       of the stratum defines (aggregation reads completed relations),
   and the stratum satisfies the two side conditions of the C01 fixpoint theorem, then
     (1) the internal clause  tmp_k(cols) :- body(r)  is in the rewritten stratum,
     (2) so is the transformed rule  head(r) :- tmp_k(cols) |> d,
     (3) no other plain clause of the rewritten stratum has that head predicate, and
     (4) after the stratum's fixpoint the facts of tmp_k are EXACTLY the instances of cols
         under the solutions of r's own body over the incoming store.
   For every column order, rule list, position, store, delta-rule list and fuel. *)
Theorem rewrite_isolated :
  forall (ord : list Z -> list Z) (pre : list rule) (r : rule) (post : list rule) (d : dotrans)
         (drules : list (clause * nat)) (St0 : list fact) (fuel : nat) (Res : list fact),
  let rs := pre ++ r :: post in
  let R := plain_clauses (rewrite ord rs) in
  let k := Z.of_nat (length (fresh_ids true true 0 pre)) + 1 in
  let c := mkClause (mkAtom (fresh_id (r_head r) k)
                            (map TVar (ord (body_cols (r_wild r) (cbody (r_clause r))))))
                    (cbody (r_clause r)) [] in
  r_do r = Some d -> single_atom_premise true (r_wild r) (cbody (r_clause r)) = false ->
  NoDup (fresh_ids true true 0 rs) ->
  (forall r', In r' rs -> 1 <= r_head r' /\ is_internal (r_head r') = false) ->
  (forall f, In f St0 -> is_internal (fst f) = false) ->
  (forall q, In q (pos_preds (cbody (r_clause r))) ->
             is_internal q = false /\ (forall r', In r' rs -> r_do r' = None -> r_head r' <> q)) ->
  neg_ok R -> drules_ok R drules ->
  eval_stratum fuel R drules St0 = Ok Res ->
  In c R /\
  In (mkRule (mkClause (chead (r_clause r)) [PAtom (chead c)] []) (Some d) []) (rewrite ord rs) /\
  (forall c', In c' R -> apred (chead c') = fresh_id (r_head r) k -> c' = c) /\
  (forall f, fst f = fresh_id (r_head r) k ->
     (In f Res <-> exists t, sat (inset St0) (fun _ => St0) 0 (cbody (r_clause r)) [] t /\
                             emit_head c t = Some f)).
Proof. exact rewrite_isolated_internal. Qed.
Print Assumptions rewrite_isolated.

(* the same under weaker hypotheses, usable for a later stratum whose incoming store already
   holds internal relations of earlier strata: only the names generated for THIS stratum
   must be avoided by user heads, stored facts and body atoms; for either setting of the
   single-atom test *)
Theorem rewrite_isolated_names :
  forall (strict : bool) (ord : list Z -> list Z) (pre : list rule) (r : rule) (post : list rule)
         (d : dotrans) (drules : list (clause * nat)) (St0 : list fact) (fuel : nat) (Res : list fact),
  let rs := pre ++ r :: post in
  let R := plain_clauses (rewrite_go true strict ord 0 rs) in
  let k := Z.of_nat (length (fresh_ids true strict 0 pre)) + 1 in
  let c := mkClause (mkAtom (fresh_id (r_head r) k)
                            (map TVar (ord (body_cols (r_wild r) (cbody (r_clause r))))))
                    (cbody (r_clause r)) [] in
  r_do r = Some d -> single_atom_premise strict (r_wild r) (cbody (r_clause r)) = false ->
  NoDup (fresh_ids true strict 0 rs) ->
  (forall r', In r' rs -> r_do r' = None -> ~ In (r_head r') (fresh_ids true strict 0 rs)) ->
  (forall f, In f St0 -> fst f <> fresh_id (r_head r) k) ->
  (forall q, In q (pos_preds (cbody (r_clause r))) ->
             ~ In q (fresh_ids true strict 0 rs) /\
             (forall r', In r' rs -> r_do r' = None -> r_head r' <> q)) ->
  neg_ok R -> drules_ok R drules ->
  eval_stratum fuel R drules St0 = Ok Res ->
  In c R /\
  In (mkRule (mkClause (chead (r_clause r)) [PAtom (chead c)] []) (Some d) [])
     (rewrite_go true strict ord 0 rs) /\
  (forall c', In c' R -> apred (chead c') = fresh_id (r_head r) k -> c' = c) /\
  (forall f, fst f = fresh_id (r_head r) k ->
     (In f Res <-> exists t, sat (inset St0) (fun _ => St0) 0 (cbody (r_clause r)) [] t /\
                             emit_head c t = Some f)).
Proof. exact RewriteProofs.rewrite_isolated_names. Qed.
Print Assumptions rewrite_isolated_names.

(* rewrite_isolated with "pairwise distinct names" replaced by the syntactic condition that
   guarantees it: no head symbol of the stratum ends in a decimal digit *)
Theorem rewrite_isolated_nodigit :
  forall (ord : list Z -> list Z) (pre : list rule) (r : rule) (post : list rule) (d : dotrans)
         (drules : list (clause * nat)) (St0 : list fact) (fuel : nat) (Res : list fact),
  let rs := pre ++ r :: post in
  let R := plain_clauses (rewrite ord rs) in
  let k := Z.of_nat (length (fresh_ids true true 0 pre)) + 1 in
  let c := mkClause (mkAtom (fresh_id (r_head r) k)
                            (map TVar (ord (body_cols (r_wild r) (cbody (r_clause r))))))
                    (cbody (r_clause r)) [] in
  r_do r = Some d -> single_atom_premise true (r_wild r) (cbody (r_clause r)) = false ->
  (forall r', In r' rs -> ~ (48 <= r_head r' mod 256 <= 57)) ->
  (forall r', In r' rs -> 1 <= r_head r' /\ is_internal (r_head r') = false) ->
  (forall f, In f St0 -> is_internal (fst f) = false) ->
  (forall q, In q (pos_preds (cbody (r_clause r))) ->
             is_internal q = false /\ (forall r', In r' rs -> r_do r' = None -> r_head r' <> q)) ->
  neg_ok R -> drules_ok R drules ->
  eval_stratum fuel R drules St0 = Ok Res ->
  In c R /\
  In (mkRule (mkClause (chead (r_clause r)) [PAtom (chead c)] []) (Some d) []) (rewrite ord rs) /\
  (forall c', In c' R -> apred (chead c') = fresh_id (r_head r) k -> c' = c) /\
  (forall f, fst f = fresh_id (r_head r) k ->
     (In f Res <-> exists t, sat (inset St0) (fun _ => St0) 0 (cbody (r_clause r)) [] t /\
                             emit_head c t = Some f)).
Proof. exact RewriteProofs.rewrite_isolated_nodigit. Qed.
Print Assumptions rewrite_isolated_nodigit.

(* non-vacuity: two aggregating rules of ONE head (p2 = 94258 over p0 = 94256 and over
   p1 = 94257, the F2 witness program; "p2" ends in a digit, so this instance needs the
   NoDup form). All hypotheses of rewrite_isolated hold for the second rule (pre = [first
   rule], k = 2), and its internal relation p22__tmp is non-empty and holds the solutions of
   the second body only: (1,5) from p1, not (1,1) from p0. *)
Definition iso_rule (h e : Z) : rule :=
  mkRule (mkClause (mkAtom h [TVar 1; TVar 3])
                   [PAtom (mkAtom e [TVar 1; TVar 2]); PCmp Lt (TVar 2) (TConst (CNum 100))] [])
         (Some (mkDo [1] [DReduce 3 RSum [TVar 2]])) [].
Definition iso_rs : list rule := [iso_rule 94258 94256; iso_rule 94258 94257].
Definition iso_store : list fact :=
  [(94256, [CNum 1; CNum 1]); (94256, [CNum 1; CNum 3]);
   (94257, [CNum 1; CNum 5]); (94257, [CNum 1; CNum 50]); (94257, [CNum 1; CNum 15])].

Example rewrite_isolated_example :
  let r := iso_rule 94258 94257 in
  let R := plain_clauses (rewrite (fun l => l) iso_rs) in
  iso_rs = [iso_rule 94258 94256] ++ r :: [] /\
  Z.of_nat (length (fresh_ids true true 0 [iso_rule 94258 94256])) + 1 = 2 /\
  single_atom_premise true (r_wild r) (cbody (r_clause r)) = false /\
  NoDup (fresh_ids true true 0 iso_rs) /\
  (forall r', In r' iso_rs -> 1 <= r_head r' /\ is_internal (r_head r') = false) /\
  (forall f, In f iso_store -> is_internal (fst f) = false) /\
  (forall q, In q (pos_preds (cbody (r_clause r))) ->
             is_internal q = false /\ (forall r', In r' iso_rs -> r_do r' = None -> r_head r' <> q)) /\
  neg_ok R /\ drules_ok R [] /\
  exists Res, eval_stratum 20 R [] iso_store = Ok Res /\
              In (fresh_id 94258 2, [CNum 1; CNum 5]) Res /\
              ~ In (fresh_id 94258 2, [CNum 1; CNum 1]) Res.
Proof.
  cbv zeta. split; [reflexivity|]. split; [reflexivity|]. split; [reflexivity|].
  split; [vm_compute; repeat constructor; simpl; intuition discriminate|].
  split; [intros r' [<-|[<-|[]]]; vm_compute; (split; [discriminate|reflexivity])|].
  split; [intros f Hf; vm_compute in Hf;
          repeat (destruct Hf as [<-|Hf]; [reflexivity|]); destruct Hf|].
  split; [intros q [<-|[]]; (split; [reflexivity|]);
          intros r' [<-|[<-|[]]] Hd; discriminate Hd|].
  split; [intros c q Hc Hq; vm_compute in Hc;
          repeat (destruct Hc as [<-|Hc]; [vm_compute in Hq; destruct Hq|]); destruct Hc|].
  split.
  - split; [intros c i []|]. intros c i a Hc Hn Hh. exfalso. vm_compute in Hc.
    destruct Hc as [<-|[<-|[]]];
      (destruct i as [|[|[|i]]]; vm_compute in Hn; try discriminate Hn;
       injection Hn as <-; vm_compute in Hh; intuition discriminate).
  - eexists. split; [vm_compute; reflexivity|]. split; [vm_compute; tauto|].
    vm_compute. intros H. repeat (destruct H as [H|H]; [discriminate H|]). exact H.
Qed.

(* ---- names *)

(* EXACTLY when two generated names coincide: one head symbol is the other followed by a
   string w of decimal digits, and the decimal of the other counter is w followed by the
   decimal of this counter (h = push_bytes h' w reads "h is h' with the bytes w appended").
   No hypothesis on symbols or counters. *)
Theorem fresh_names_collide_iff : forall (h1 h2 n1 n2 : Z),
  fresh_id h1 n1 = fresh_id h2 n2 <->
  exists w, Forall (fun b => 48 <= b <= 57) w /\
    ((h1 = push_bytes h2 w /\ dec_bytes n2 = w ++ dec_bytes n1) \/
     (h2 = push_bytes h1 w /\ dec_bytes n1 = w ++ dec_bytes n2)).
Proof. exact fresh_id_eq_iff. Qed.
Print Assumptions fresh_names_collide_iff.

(* consequently: over ALL head symbols that do not end in a decimal digit (last byte of the
   name outside '0'..'9'), the generated name determines the symbol and the counter *)
Theorem fresh_names_distinct : forall (h1 h2 n1 n2 : Z),
  ~ (48 <= h1 mod 256 <= 57) -> ~ (48 <= h2 mod 256 <= 57) -> 0 <= n1 -> 0 <= n2 ->
  fresh_id h1 n1 = fresh_id h2 n2 -> h1 = h2 /\ n1 = n2.
Proof. exact fresh_id_inj_nodigit. Qed.
Print Assumptions fresh_names_distinct.

(* the last byte of the id is the last byte of the name *)
Theorem id_last_byte : forall (s : list Z) (b : Z), 0 <= b < 256 ->
  (48 <= id_of_name (s ++ [b]) mod 256 <= 57 <-> 48 <= b <= 57).
Proof. exact id_of_name_ends. Qed.
Print Assumptions id_last_byte.

(* the names generated by one call of Rewrite for a stratum none of whose head symbols ends
   in a digit are pairwise distinct, from any non-negative counter start *)
Theorem fresh_names_stratum_distinct : forall (strict : bool) (rs : list rule) (n : Z),
  0 <= n -> (forall r, In r rs -> ~ (48 <= r_head r mod 256 <= 57)) ->
  NoDup (fresh_ids true strict n rs).
Proof. exact fresh_ids_nodup. Qed.
Print Assumptions fresh_names_stratum_distinct.

(* "agg" and "ag" + 'h': symbols without a final digit, four generated names, all distinct *)
Example fresh_names_stratum_distinct_example :
  let rs := [iso_rule (id_of_name [97; 103; 103]) 94256; iso_rule (id_of_name [97; 103; 104]) 94256;
             iso_rule (id_of_name [97; 103; 103]) 94257; iso_rule (id_of_name [97; 103; 104]) 94257] in
  (forall r, In r rs -> ~ (48 <= r_head r mod 256 <= 57)) /\
  length (fresh_ids true true 0 rs) = 4%nat.
Proof.
  cbv zeta. split; [|reflexivity].
  intros r Hr. repeat (destruct Hr as [<-|Hr]; [vm_compute; intros [H1 H2]; apply H2; reflexivity|]). destruct Hr.
Qed.

(* names generated for ONE head symbol (any symbol, also one ending in a digit) with
   different counters are distinct; over all head symbols this is false without the digit
   condition, see fresh_names_refuted *)
Theorem fresh_names_distinct_same_symbol : forall (sym n m : Z),
  1 <= sym -> 0 <= n -> 0 <= m -> n <> m -> fresh_id sym n <> fresh_id sym m.
Proof. intros sym n m Hs Hn Hm Hne He. apply Hne. exact (fresh_id_counter_inj sym n m Hs Hn Hm He). Qed.
Print Assumptions fresh_names_distinct_same_symbol.

Example fresh_names_distinct_example : fresh_id (id_of_name [114]) 1 <> fresh_id (id_of_name [114]) 2.
Proof. vm_compute. discriminate. Qed.

(* a generated name ends in __tmp *)
Theorem fresh_names_internal : forall (sym n : Z), 1 <= sym -> is_internal (fresh_id sym n) = true.
Proof. exact fresh_id_internal. Qed.
Print Assumptions fresh_names_internal.

(* finding F2b: "r1" + 1 and "r" + 11 are the same name r11__tmp *)
Theorem fresh_names_refuted :
  id_of_name [114; 49] <> id_of_name [114] /\
  fresh_id (id_of_name [114; 49]) 1 = fresh_id (id_of_name [114]) 11.
Proof. split; [vm_compute; discriminate | vm_compute; reflexivity]. Qed.
Print Assumptions fresh_names_refuted.

(* ---- witnesses (predicates: p0 = 94256, p1 = 94257, p2 = 94258, p3 = 94259, p11 = 24129841) *)
Definition sum_rule (h e : Z) : rule :=
  mkRule (mkClause (mkAtom h [TVar 1; TVar 3])
                   [PAtom (mkAtom e [TVar 1; TVar 2]); PCmp Lt (TVar 2) (TConst (CNum 100))] [])
         (Some (mkDo [1] [DReduce 3 RSum [TVar 2]])) [].

(* p2(K,S) :- p0(K,V), V < 100 |> sum.   p2(K,S) :- p1(K,V), V < 100 |> sum. *)
Definition w_f2 : Run.C02.case :=
  Run.C02.mkCase [sum_rule 94258 94256; sum_rule 94258 94257] [[94258]] []
    [(94256, [CNum 1; CNum 1]); (94256, [CNum 1; CNum 3]);
     (94257, [CNum 1; CNum 5]); (94257, [CNum 1; CNum 50]); (94257, [CNum 1; CNum 15])]
    20 [] Run.C02.OLimit.

(* before fix F2 both rules of one head got the internal name p21__tmp, the groups of each
   rule held the solutions of both (p2(1,74)), and the observer - the independent fold over
   each rule's own body - rejects that result; with the advancing counter the names differ
   and the result is p2(1,4), p2(1,70) *)
Theorem rewrite_F2_refuted :
  fresh_ids false true 0 (Run.C02.c_prog w_f2) = [fresh_id 94258 1; fresh_id 94258 1] /\
  (exists M, Run.C02.run_model_F2 w_f2 = Ok M /\ In (94258, [CNum 1; CNum 74]) M /\
             Run.C02.observe w_f2 (Run.C02.visible M) = Some false) /\
  (exists M, Run.C02.run_model w_f2 = Ok M /\ In (94258, [CNum 1; CNum 4]) M /\ In (94258, [CNum 1; CNum 70]) M /\
             Run.C02.observe w_f2 (Run.C02.visible M) = Some true).
Proof.
  split; [vm_compute; reflexivity|]. split.
  - eexists. split; [vm_compute; reflexivity|]. split; [vm_compute; tauto | vm_compute; reflexivity].
  - eexists. split; [vm_compute; reflexivity|]. split; [vm_compute; tauto|].
    split; [vm_compute; tauto | vm_compute; reflexivity].
Qed.
Print Assumptions rewrite_F2_refuted.

(* p1(K,C) :- p0(K,K) |> count. Before fix F2c the rule was not split and every p0 fact
   became a row: p1(3,1) for the non-solution p0(3,1), p1(1,2) counting p0(1,2) *)
Definition w_f2c : Run.C02.case :=
  Run.C02.mkCase
    [mkRule (mkClause (mkAtom 94257 [TVar 1; TVar 2]) [PAtom (mkAtom 94256 [TVar 1; TVar 1])] [])
            (Some (mkDo [1] [DReduce 2 RCount []])) []]
    [[94257]] []
    [(94256, [CNum 1; CNum 1]); (94256, [CNum 1; CNum 2]); (94256, [CNum 2; CNum 2]); (94256, [CNum 3; CNum 1])]
    20 [] Run.C02.OLimit.

Theorem rewrite_F2c_refuted :
  (exists M, Run.C02.run_model_F2c w_f2c = Ok M /\ In (94257, [CNum 3; CNum 1]) M /\
             Run.C02.observe w_f2c (Run.C02.visible M) = Some false) /\
  (exists M, Run.C02.run_model w_f2c = Ok M /\ ~ In (94257, [CNum 3; CNum 1]) M /\
             Run.C02.observe w_f2c (Run.C02.visible M) = Some true).
Proof.
  split.
  - eexists. split; [vm_compute; reflexivity|]. split; [vm_compute; tauto | vm_compute; reflexivity].
  - eexists. split; [vm_compute; reflexivity|]. split; [|vm_compute; reflexivity].
    vm_compute. intros H. repeat (destruct H as [H|H]; [discriminate H|]). exact H.
Qed.
Print Assumptions rewrite_F2c_refuted.

(* finding F2b on the model of the CURRENT code: p11 has one split rule (counter 1), p1 has
   eleven (counters 1..11); the eleventh shares the name p111__tmp with p11's. The
   hypotheses of isolated_relation fail (the incoming store of the second stratum already
   holds facts of that name) and the observer rejects the model's own result. *)
Definition cnt_rule (i : Z) : rule :=
  mkRule (mkClause (mkAtom 94257 [TVar 1; TVar 3])
                   [PAtom (mkAtom 94258 [TVar 1; TVar 2]); PCmp Gt (TVar 2) (TConst (CNum i))] [])
         (Some (mkDo [1] [DReduce 3 RCount []])) [].

Definition w_f2b : Run.C02.case :=
  Run.C02.mkCase
    (mkRule (mkClause (mkAtom 24129841 [TVar 1; TVar 3])
                      [PAtom (mkAtom 94258 [TVar 1; TVar 2]); PAtom (mkAtom 94259 [TVar 1])] [])
            (Some (mkDo [1] [DReduce 3 RSum [TVar 2]])) []
     :: map cnt_rule [0; 1; 2; 3; 4; 5; 6; 7; 8; 9; 10])
    [[94257]; [24129841]] []
    [(94258, [CNum 1; CNum 20]); (94258, [CNum 1; CNum 30]); (94258, [CNum 2; CNum 5]); (94259, [CNum 2])]
    20 [] Run.C02.OLimit.

Theorem name_collision_refuted :
  fresh_id 94257 11 = fresh_id 24129841 1 /\
  Run.C02.self_check w_f2b = 2.
Proof. split; vm_compute; reflexivity. Qed.
Print Assumptions name_collision_refuted.

(* ---- "computed over the completed fixpoint of everything the body depends on"
   (strengthened after seeding, notes/C02.md). Evaluation by strata gives that guarantee
   only if every body predicate of an aggregating rule is complete - strictly lower in the
   evaluation order - before the rule's head, while a plain positive dependency may stay
   level. When an aggregation (or negation) edge lies on a dependency cycle
   (agg_in_cycle, the reachability form of the component test of analysis.Stratify) NO
   assignment of levels does that, for any program: such a program has to be refused, and
   an evaluation of it cannot have aggregated over a completed relation. The check
   (runner c02cyc, Run.C02.judge_cyc) takes agg_in_cycle as the verdict's premise. *)
From Coq Require Import Lia.
From MV Require Import Datalog.AggCycle Datalog.AggCycleProofs.

Theorem agg_cycle_not_stratifiable :
  forall (P : list rule) (lvl : Z -> Z),
    agg_in_cycle P = true ->
    (forall h p s, In (h, p, s) (dep_edges P) -> lvl p <= lvl h) ->
    (forall h p, In (h, p, true) (dep_edges P) -> lvl p < lvl h) ->
    False.
Proof.
  intros P lvl Hc Hmono Hstrict.
  apply (strict_in_cycle_no_levels (dep_edges P) lvl Hc).
  - intros [[h p] s] Hin. exact (Hmono h p s Hin).
  - intros [[h p] s] Hin Hs. cbn in Hs. subst s. exact (Hstrict h p Hin).
Qed.
Print Assumptions agg_cycle_not_stratifiable.

(* the hypotheses are satisfiable one by one: cnt(N) :- q(X) |> do group_by(), N = count();
   q(Y) :- cnt(N), Y = N + 100; q(X) :- base(X)  (ids: cnt 1, q 2, base 3) has the cycle;
   without the rule q :- cnt it has none and lvl = id with cnt above q is a level
   assignment. *)
Definition cyc_cnt : rule :=
  mkRule (mkClause (mkAtom 1 [TVar 1]) [PAtom (mkAtom 2 [TVar 2])] []) (Some (mkDo [] [DReduce 1 RCount []])) [].
Definition cyc_q_base : rule := plain (mkClause (mkAtom 2 [TVar 1]) [PAtom (mkAtom 3 [TVar 1])] []).
Definition cyc_q_cnt : rule :=
  plain (mkClause (mkAtom 2 [TVar 2]) [PAtom (mkAtom 1 [TVar 1]); PEq (TVar 2) (TApp FPlus [TVar 1; TConst (CNum 100)])] []).

Example agg_cycle_example :
  agg_in_cycle [cyc_q_base; cyc_q_cnt; cyc_cnt] = true /\
  agg_in_cycle [cyc_q_base; cyc_cnt] = false /\
  (let lvl := fun p => if p =? 1 then 2 else if p =? 2 then 1 else 0 in
   (forall h p s, In (h, p, s) (dep_edges [cyc_q_base; cyc_cnt]) -> lvl p <= lvl h) /\
   (forall h p, In (h, p, true) (dep_edges [cyc_q_base; cyc_cnt]) -> lvl p < lvl h)).
Proof.
  split; [vm_compute; reflexivity|]. split; [vm_compute; reflexivity|].
  split.
  - intros h p s Hin. cbn in Hin. destruct Hin as [H | [H | []]]; inversion H; subst; cbn; lia.
  - intros h p Hin. cbn in Hin. destruct Hin as [H | [H | []]]; inversion H; subst; cbn; lia.
Qed.

(* ---- built-in predicate atoms that bind variables (strengthened after seeding, round 2,
   notes/C02.md). :match_pair :match_cons :list:member :match_field :match_entry bind the
   variables at their output places; a built-in goal is an atom (ast.Atom with a predicate
   symbol that IsBuiltin(); in the model a PAtom with the built-in's id,
   Datalog/AggBuiltin.v), so everything above applies to such bodies unchanged:
   rewrite_shape / rewrite_isolated say the internal relation holds the cols-instances of
   the body's solutions. What "its own body's solution set" additionally needs is that the
   columns (getVars, rewrite/rewrite.go:118 = body_cols) lose nothing the transform reads:
   tmp_columns_keep_atom_vars - every variable of a positive body atom, built-in or not,
   that is not a wildcard is a column; tmp_row_keeps_transform_inputs - hence the row the
   transform reads gives every such variable, and every group key made of such variables,
   the value the body solution gives it (for EVERY substitution, body, wildcard set).
   getvars_skip_builtin_refuted: the variant of getVars that skips built-in atoms
   (seeded/C04-5) loses them - the group key H of `p(H,C) :- q(L), :match_cons(L,H,T) |> do
   fn:group_by(H), let C = fn:count()` has no value in the rows (Go: panic in evalDo) and
   `fn:sum(E)` over `q(L), :list:member(E,L)` sums nothing.
   The built-in relations the correspondence check (Run.C02.judge_bi) evaluates bodies
   against are the documented ones restricted to the constants at hand:
   match_pair_relation ... match_entry_relation, struct_field_functional. *)
From MV Require Import Datalog.AggBuiltin Datalog.AggBuiltinProofs.

Theorem tmp_columns_keep_atom_vars :
  forall (wild : list Z) (b : list premise) (v : Z),
    In v (atom_vars b) -> ~ In v wild -> In v (body_cols wild b).
Proof. exact body_cols_keeps_atom_vars. Qed.
Print Assumptions tmp_columns_keep_atom_vars.

Theorem tmp_row_keeps_transform_inputs :
  forall (wild : list Z) (b : list premise) (s : subst),
    (forall v, In v (atom_vars b) -> ~ In v wild ->
       lookup v (Run.C02.project (body_cols wild b) s) = lookup v s) /\
    (forall keys, (forall k, In k keys -> In k (atom_vars b) /\ ~ In k wild) ->
       key_of keys (Run.C02.project (body_cols wild b) s) = key_of keys s).
Proof.
  intros wild b s. split.
  - intros v Hv Hw. apply lookup_project_in. apply body_cols_keeps_atom_vars; assumption.
  - intros keys H. apply key_of_project. intros k Hk. destruct (H k Hk) as [H1 H2].
    apply body_cols_keeps_atom_vars; assumption.
Qed.
Print Assumptions tmp_row_keeps_transform_inputs.

(* q = 10, p = 11, s = 12; L = 1, H = 2, T = 3, C = 4, E = 5 *)
Definition gv_lst (l : list Z) : const := list_of_consts (map CNum l).
Definition gv_facts : list fact := [(10, [gv_lst [1; 2]]); (10, [gv_lst [3]]); (10, [gv_lst [1]])].
Definition gv_cons_body : list premise :=
  [PAtom (mkAtom 10 [TVar 1]); PAtom (mkAtom bi_cons_id [TVar 1; TVar 2; TVar 3])].
Definition gv_member_body : list premise :=
  [PAtom (mkAtom 10 [TVar 1]); PAtom (mkAtom bi_member_id [TVar 5; TVar 1])].
(* the transform applied to the rows of the internal relation with the given columns *)
Definition gv_run (cols : list Z) (b : list premise) (head : atom) (d : dotrans) : option (list fact) :=
  let G := with_builtins [] gv_facts in
  match solve G (sel_all G) 0 b [[]] with
  | Some sols => spec_do head d (Run.C02.dedup_rows (map (Run.C02.project cols) sols))
  | None => None
  end.

Example tmp_row_keeps_transform_inputs_example :
  In 2 (atom_vars gv_cons_body) /\ ~ In 2 ([] : list Z) /\
  body_cols [] gv_cons_body = [1; 2; 3] /\ body_cols_skip [] gv_cons_body = [1].
Proof. split; [cbn; tauto|]. split; [intros []|]. split; vm_compute; reflexivity. Qed.

Theorem getvars_skip_builtin_refuted :
  gv_run (body_cols [] gv_cons_body) gv_cons_body (mkAtom 11 [TVar 2; TVar 4]) (mkDo [2] [DReduce 4 RCount []])
    = Some [(11, [CNum 1; CNum 2]); (11, [CNum 3; CNum 1])] /\
  gv_run (body_cols_skip [] gv_cons_body) gv_cons_body (mkAtom 11 [TVar 2; TVar 4]) (mkDo [2] [DReduce 4 RCount []])
    = None /\
  gv_run (body_cols [] gv_member_body) gv_member_body (mkAtom 12 [TVar 4]) (mkDo [] [DReduce 4 RSum [TVar 5]])
    = Some [(12, [CNum 7])] /\
  gv_run (body_cols_skip [] gv_member_body) gv_member_body (mkAtom 12 [TVar 4]) (mkDo [] [DReduce 4 RSum [TVar 5]])
    = Some [(12, [CNum 0])].
Proof. repeat split; vm_compute; reflexivity. Qed.
Print Assumptions getvars_skip_builtin_refuted.

Theorem match_pair_relation : forall (D : list const) (p a b : const),
  In (bi_pair_id, [p; a; b]) (bi_facts D) <-> In p D /\ p = CPair a b /\ is_opaque p = false.
Proof. exact bi_facts_pair_spec. Qed.
Print Assumptions match_pair_relation.

Theorem match_cons_relation : forall (D : list const) (l h t : const),
  In (bi_cons_id, [l; h; t]) (bi_facts D) <-> In l D /\ l = CCons h t.
Proof. exact bi_facts_cons_spec. Qed.
Print Assumptions match_cons_relation.

Theorem list_member_relation : forall (D : list const) (x l : const),
  In (bi_member_id, [x; l]) (bi_facts D) <->
  In l D /\ l <> CNil /\ exists xs, list_elems l = Some xs /\ In x xs.
Proof. exact bi_facts_member_spec. Qed.
Print Assumptions list_member_relation.

Theorem match_nil_relation : forall (D : list const) (l : const),
  In (bi_nil_id, [l]) (bi_facts D) <-> In l D /\ l = CNil.
Proof. exact bi_facts_nil_spec. Qed.
Print Assumptions match_nil_relation.

Theorem match_field_relation : forall (D : list const) (s k v : const),
  In (bi_field_id, [s; k; v]) (bi_facts D) <->
  In s D /\ exists body es, s = CPair (CName struct_tag) body /\ list_elems body = Some es /\
                            In (k, v) (first_entries [] es).
Proof. exact bi_facts_field_spec. Qed.
Print Assumptions match_field_relation.

Theorem match_entry_relation : forall (D : list const) (m k v : const),
  In (bi_entry_id, [m; k; v]) (bi_facts D) <->
  In m D /\ exists body es, m = CPair (CName map_tag) body /\ list_elems body = Some es /\
                            In (k, v) (first_entries [] es).
Proof. exact bi_facts_entry_spec. Qed.
Print Assumptions match_entry_relation.

(* one value per label: the first entry carrying it, and it is an entry of the body *)
Theorem struct_field_functional : forall (es : list const) (k v1 v2 : const),
  In (k, v1) (first_entries [] es) -> In (k, v2) (first_entries [] es) ->
  v1 = v2 /\ In (CPair k v1) es.
Proof.
  intros es k v1 v2 H1 H2. split.
  - exact (first_entries_functional es [] k v1 v2 H1 H2).
  - exact (proj1 (first_entries_in es [] k v1 H1)).
Qed.
Print Assumptions struct_field_functional.

Example builtin_relations_example :
  let D := domain [] [(10, [CPair (CName [47; 97]) (gv_lst [4; 5])])] in
  In (bi_pair_id, [CPair (CName [47; 97]) (gv_lst [4; 5]); CName [47; 97]; gv_lst [4; 5]]) (bi_facts D) /\
  In (bi_cons_id, [gv_lst [4; 5]; CNum 4; gv_lst [5]]) (bi_facts D) /\
  In (bi_member_id, [CNum 5; gv_lst [4; 5]]) (bi_facts D) /\
  In (bi_nil_id, [CNil]) (bi_facts D).
Proof. vm_compute. tauto. Qed.
