(* C02 - each aggregating rule reduces exactly its own body's solution set.

   Model: Datalog/Rewrite.v (rewrite.Rewrite, name generator), Datalog/Transform.v (evalDo,
   reducers, do-transforms applied after the stratum's fixpoint) on top of the C01 engine
   model. Proofs: Datalog/TransformProofs.v, Datalog/RewriteProofs.v.

   How the statements add up to the property. A rule with a do-transform is evaluated as
   eval_do head d rows (Transform.apply_do), where rows are the stored facts of the rule's
   single body atom. do_groups_exact / do_groups_facts / do_empty: for EVERY row list the
   emitted facts are exactly one per distinct key among the rows, each with every
   let-statement's reducer applied to exactly the rows carrying that key, nothing for no
   rows. For a multi-premise rule the body atom is the internal relation created by
   Rewrite; rewrite_shape says its defining clause has the rule's own body, and
   isolated_relation says that a relation defined by one clause only, absent from the
   incoming store, whose body reads completed relations, holds after the stratum's fixpoint
   exactly that clause's body solutions over the completed lower strata - for every program,
   store, rule order and fuel. Its hypotheses are what "generated names are pairwise distinct
   and no user predicate ends in __tmp" buys; fresh_names_distinct_partial proves the
   distinctness for one head symbol, fresh_names_refuted / name_collision_refuted (finding
   F2b) show it fails across head symbols, rewrite_F2_refuted shows the pre-fix counter
   violated it for two rules of one head, rewrite_F2c_refuted shows the pre-fix single-atom
   test fed non-solutions into the groups. *)
From Coq Require Import List ZArith Bool.
From MV Require Import Datalog.Syntax Datalog.Interp Datalog.Solve Datalog.SolveProofs Datalog.SemiNaive
     Datalog.SemiNaiveProofs Datalog.Lfp Datalog.Rewrite Datalog.Transform
     Datalog.TransformProofs Datalog.RewriteProofs.
From MV Require Run.C02.
Import ListNotations.
Open Scope Z_scope.

(* ---- grouping and reducing *)

(* evalDo = one fact per distinct key, computed from exactly the rows with that key; an
   unbound key variable is an error of both sides *)
Theorem do_groups_exact : forall (head : atom) (d : dotrans) (rows : list subst),
  eval_do head d rows =
  match map_opt (key_of (d_keys d)) rows with
  | None => None
  | Some ks =>
      map_opt (fun k => eval_group head d
                          (k, filter (fun row => match key_of (d_keys d) row with
                                                 | Some k' => key_eqb k k'
                                                 | None => false
                                                 end) rows))
              (nodup_keys ks)
  end.
Proof. exact eval_do_spec. Qed.
Print Assumptions do_groups_exact.

(* membership form: a fact is emitted iff it is the head computed for the key of some row,
   from the rows of that key - and for nothing else *)
Theorem do_groups_facts : forall (head : atom) (d : dotrans) (rows : list subst) (fs : list fact),
  eval_do head d rows = Some fs ->
  forall f, In f fs <->
    exists row k, In row rows /\ key_of (d_keys d) row = Some k /\
      eval_group head d (k, filter (fun row' => match key_of (d_keys d) row' with
                                                | Some k' => key_eqb k k'
                                                | None => false
                                                end) rows) = Some f.
Proof. exact eval_do_facts. Qed.
Print Assumptions do_groups_facts.

(* the rows of a group are exactly the rows with its key *)
Theorem group_rows_exact_key : forall (keys : list Z) (k : list const) (rows : list subst) (row : subst),
  In row (rows_with_key keys k rows) <-> In row rows /\ key_of keys row = Some k.
Proof. exact rows_with_key_in. Qed.
Print Assumptions group_rows_exact_key.

(* an empty body yields no fact *)
Theorem do_empty : forall (head : atom) (d : dotrans), eval_do head d [] = Some [].
Proof. exact eval_do_nil. Qed.
Print Assumptions do_empty.

Example do_groups_example :
  eval_do (mkAtom 7 [TVar 1; TVar 3; TVar 4])
          (mkDo [1] [DReduce 3 RSum [TVar 2]; DReduce 4 RCount []])
          [[(1, CNum 1); (2, CNum 10)]; [(1, CNum 2); (2, CNum 5)]; [(1, CNum 1); (2, CNum 7)]]
  = Some [(7, [CNum 1; CNum 17; CNum 2]); (7, [CNum 2; CNum 5; CNum 1])].
Proof. vm_compute. reflexivity. Qed.

(* ---- the internal relation of a split rule *)

(* every plain clause of the rewritten stratum is an original plain clause or the internal
   clause of a split aggregating rule: head = the generated name over the chosen column
   order, body = that rule's own body, no transform *)
Theorem rewrite_shape : forall (ord : list Z -> list Z) (rs : list rule) (c : clause),
  In c (plain_clauses (rewrite ord rs)) ->
  (exists r, In r rs /\ r_do r = None /\ c = r_clause r) \/
  (exists r m d, In r rs /\ r_do r = Some d /\ 0 <= m /\
     single_atom_premise true (r_wild r) (cbody (r_clause r)) = false /\
     c = mkClause (mkAtom (fresh_id (r_head r) (m + 1))
                          (map TVar (ord (body_cols (r_wild r) (cbody (r_clause r))))))
                  (cbody (r_clause r)) []).
Proof. intros ord rs c H. exact (rewrite_go_in_tmp true true ord rs 0 c H). Qed.
Print Assumptions rewrite_shape.

(* a relation that exactly one clause c of the stratum defines, that the incoming store
   does not mention and whose body reads only relations the stratum does not derive, holds
   after the stratum's evaluation exactly c's body solutions over the incoming (completed)
   store: for all rules, delta-rule lists, stores, fuel. *)
Theorem isolated_relation :
  forall (R : list clause) (drules : list (clause * nat)) (St0 : list fact) (c : clause)
         (fuel : nat) (Res : list fact),
  neg_ok R -> drules_ok R drules -> In c R ->
  (forall c', In c' R -> apred (chead c') = apred (chead c) -> c' = c) ->
  (forall f, In f St0 -> fst f <> apred (chead c)) ->
  (forall q, In q (pos_preds (cbody c)) -> ~ In q (heads R)) ->
  eval_stratum fuel R drules St0 = Ok Res ->
  forall f, fst f = apred (chead c) ->
    (In f Res <-> exists t, sat (inset St0) (fun _ => St0) 0 (cbody c) [] t /\ emit_head c t = Some f).
Proof.
  intros R drules St0 c fuel Res Hn Hd Hc Hu Hf Hl He f Hp.
  exact (isolated_relation_exact R drules St0 Hn Hd c Hc Hu Hf Hl fuel Res He f Hp).
Qed.
Print Assumptions isolated_relation.

(* rewrite_isolated_partial = isolated_relation read on R := plain_clauses (rewrite ord rs)
   and c := the internal clause of a split rule (rewrite_shape). Full statement of the plan:
     NoDup (fresh_ids true true 0 rs) -> (forall r, In r rs -> is_internal (r_head r) = false) ->
     (forall f, In f St0 -> is_internal (fst f) = false) -> ... ->
     In f Res <-> f is a body solution of rule i      for the internal relation of rule i.
   Not finished: deriving the uniqueness hypothesis (the 4th above) from NoDup of the
   generated names needs the position of every generated name in the rewritten list; the
   theorem below takes uniqueness of the internal name as its hypothesis instead. *)
Theorem rewrite_isolated_partial :
  forall (ord : list Z -> list Z) (rs : list rule) (drules : list (clause * nat)) (St0 : list fact)
         (r : rule) (m : Z) (fuel : nat) (Res : list fact),
  let R := plain_clauses (rewrite ord rs) in
  let c := mkClause (mkAtom (fresh_id (r_head r) (m + 1))
                            (map TVar (ord (body_cols (r_wild r) (cbody (r_clause r))))))
                    (cbody (r_clause r)) [] in
  neg_ok R -> drules_ok R drules -> In c R ->
  (forall c', In c' R -> apred (chead c') = fresh_id (r_head r) (m + 1) -> c' = c) ->
  (forall f, In f St0 -> fst f <> fresh_id (r_head r) (m + 1)) ->
  (forall q, In q (pos_preds (cbody (r_clause r))) -> ~ In q (heads R)) ->
  eval_stratum fuel R drules St0 = Ok Res ->
  forall f, fst f = fresh_id (r_head r) (m + 1) ->
    (In f Res <-> exists t, sat (inset St0) (fun _ => St0) 0 (cbody (r_clause r)) [] t /\ emit_head c t = Some f).
Proof.
  intros ord rs drules St0 r m fuel Res R c Hn Hd Hc Hu Hf Hl He f Hp.
  exact (isolated_relation_exact R drules St0 Hn Hd c Hc Hu Hf Hl fuel Res He f Hp).
Qed.
Print Assumptions rewrite_isolated_partial.

(* ---- names *)

(* names generated for one head symbol are pairwise distinct (full plan: pairwise distinct
   over ALL head symbols of a unit - false, see fresh_names_refuted) *)
Theorem fresh_names_distinct_partial : forall (sym n m : Z),
  1 <= sym -> 0 <= n -> 0 <= m -> n <> m -> fresh_id sym n <> fresh_id sym m.
Proof. intros sym n m Hs Hn Hm Hne He. apply Hne. exact (fresh_id_counter_inj sym n m Hs Hn Hm He). Qed.
Print Assumptions fresh_names_distinct_partial.

Example fresh_names_distinct_example : fresh_id (id_of_name [114]) 1 <> fresh_id (id_of_name [114]) 2.
Proof. vm_compute. discriminate. Qed.

(* a generated name ends in __tmp *)
Theorem fresh_names_internal : forall (sym n : Z), 1 <= sym -> is_internal (fresh_id sym n) = true.
Proof. exact fresh_id_internal. Qed.
Print Assumptions fresh_names_internal.

(* finding F2b: "r1" + 1 and "r" + 11 are the same name r11__tmp *)
Theorem fresh_names_refuted :
  id_of_name [114; 49] <> id_of_name [114] /\
  fresh_id (id_of_name [114; 49]) 1 = fresh_id (id_of_name [114]) 11.
Proof. split; [vm_compute; discriminate | vm_compute; reflexivity]. Qed.
Print Assumptions fresh_names_refuted.

(* ---- witnesses (predicates: p0 = 94256, p1 = 94257, p2 = 94258, p3 = 94259, p11 = 24129841) *)
Definition sum_rule (h e : Z) : rule :=
  mkRule (mkClause (mkAtom h [TVar 1; TVar 3])
                   [PAtom (mkAtom e [TVar 1; TVar 2]); PCmp Lt (TVar 2) (TConst (CNum 100))] [])
         (Some (mkDo [1] [DReduce 3 RSum [TVar 2]])) [].

(* p2(K,S) :- p0(K,V), V < 100 |> sum.   p2(K,S) :- p1(K,V), V < 100 |> sum. *)
Definition w_f2 : Run.C02.case :=
  Run.C02.mkCase [sum_rule 94258 94256; sum_rule 94258 94257] [[94258]] []
    [(94256, [CNum 1; CNum 1]); (94256, [CNum 1; CNum 3]);
     (94257, [CNum 1; CNum 5]); (94257, [CNum 1; CNum 50]); (94257, [CNum 1; CNum 15])]
    20 [] Run.C02.OLimit.

(* before fix F2 both rules of one head got the internal name p21__tmp, the groups of each
   rule held the solutions of both (p2(1,74)), and the observer - the independent fold over
   each rule's own body - rejects that result; with the advancing counter the names differ
   and the result is p2(1,4), p2(1,70) *)
Theorem rewrite_F2_refuted :
  fresh_ids false true 0 (Run.C02.c_prog w_f2) = [fresh_id 94258 1; fresh_id 94258 1] /\
  (exists M, Run.C02.run_model_F2 w_f2 = Ok M /\ In (94258, [CNum 1; CNum 74]) M /\
             Run.C02.observe w_f2 (Run.C02.visible M) = Some false) /\
  (exists M, Run.C02.run_model w_f2 = Ok M /\ In (94258, [CNum 1; CNum 4]) M /\ In (94258, [CNum 1; CNum 70]) M /\
             Run.C02.observe w_f2 (Run.C02.visible M) = Some true).
Proof.
  split; [vm_compute; reflexivity|]. split.
  - eexists. split; [vm_compute; reflexivity|]. split; [vm_compute; tauto | vm_compute; reflexivity].
  - eexists. split; [vm_compute; reflexivity|]. split; [vm_compute; tauto|].
    split; [vm_compute; tauto | vm_compute; reflexivity].
Qed.
Print Assumptions rewrite_F2_refuted.

(* p1(K,C) :- p0(K,K) |> count. Before fix F2c the rule was not split and every p0 fact
   became a row: p1(3,1) for the non-solution p0(3,1), p1(1,2) counting p0(1,2) *)
Definition w_f2c : Run.C02.case :=
  Run.C02.mkCase
    [mkRule (mkClause (mkAtom 94257 [TVar 1; TVar 2]) [PAtom (mkAtom 94256 [TVar 1; TVar 1])] [])
            (Some (mkDo [1] [DReduce 2 RCount []])) []]
    [[94257]] []
    [(94256, [CNum 1; CNum 1]); (94256, [CNum 1; CNum 2]); (94256, [CNum 2; CNum 2]); (94256, [CNum 3; CNum 1])]
    20 [] Run.C02.OLimit.

Theorem rewrite_F2c_refuted :
  (exists M, Run.C02.run_model_F2c w_f2c = Ok M /\ In (94257, [CNum 3; CNum 1]) M /\
             Run.C02.observe w_f2c (Run.C02.visible M) = Some false) /\
  (exists M, Run.C02.run_model w_f2c = Ok M /\ ~ In (94257, [CNum 3; CNum 1]) M /\
             Run.C02.observe w_f2c (Run.C02.visible M) = Some true).
Proof.
  split.
  - eexists. split; [vm_compute; reflexivity|]. split; [vm_compute; tauto | vm_compute; reflexivity].
  - eexists. split; [vm_compute; reflexivity|]. split; [|vm_compute; reflexivity].
    vm_compute. intros H. repeat (destruct H as [H|H]; [discriminate H|]). exact H.
Qed.
Print Assumptions rewrite_F2c_refuted.

(* finding F2b on the model of the CURRENT code: p11 has one split rule (counter 1), p1 has
   eleven (counters 1..11); the eleventh shares the name p111__tmp with p11's. The
   hypotheses of isolated_relation fail (the incoming store of the second stratum already
   holds facts of that name) and the observer rejects the model's own result. *)
Definition cnt_rule (i : Z) : rule :=
  mkRule (mkClause (mkAtom 94257 [TVar 1; TVar 3])
                   [PAtom (mkAtom 94258 [TVar 1; TVar 2]); PCmp Gt (TVar 2) (TConst (CNum i))] [])
         (Some (mkDo [1] [DReduce 3 RCount []])) [].

Definition w_f2b : Run.C02.case :=
  Run.C02.mkCase
    (mkRule (mkClause (mkAtom 24129841 [TVar 1; TVar 3])
                      [PAtom (mkAtom 94258 [TVar 1; TVar 2]); PAtom (mkAtom 94259 [TVar 1])] [])
            (Some (mkDo [1] [DReduce 3 RSum [TVar 2]])) []
     :: map cnt_rule [0; 1; 2; 3; 4; 5; 6; 7; 8; 9; 10])
    [[94257]; [24129841]] []
    [(94258, [CNum 1; CNum 20]); (94258, [CNum 1; CNum 30]); (94258, [CNum 2; CNum 5]); (94259, [CNum 2])]
    20 [] Run.C02.OLimit.

Theorem name_collision_refuted :
  fresh_id 94257 11 = fresh_id 24129841 1 /\
  Run.C02.self_check w_f2b = 2.
Proof. split; vm_compute; reflexivity. Qed.
Print Assumptions name_collision_refuted.
