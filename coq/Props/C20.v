(* C20 - the naive and semi-naive evaluators compute the same facts.
   Property theorems only; each is closed by an exact reference to a lemma of
   Datalog/NaiveProofs.v (which builds on C01's SemiNaiveProofs / StrataProofs).
   The models: Datalog/Naive.v (engine.EvalProgramNaive after fix F11) and
   Datalog/{SemiNaive,Strata}.v (engine.EvalProgram after fix F1) over the shared
   Datalog/{Syntax,Interp,Solve}.v; the specification: Datalog/Lfp.v. *)
From Coq Require Import List ZArith.
From MV Require Import Datalog.Syntax Datalog.Interp Datalog.Solve Datalog.SemiNaive Datalog.Strata
     Datalog.Lfp Datalog.Naive Datalog.SolveProofs Datalog.SemiNaiveProofs Datalog.StrataProofs
     Datalog.NaiveProofs Run.C20 Datalog.NaiveJudgeProofs.
Import ListNotations.
Open Scope Z_scope.

(* ---- one stratum. R = the rules of the stratum, rules = the list the loop iterates
   over (any order, any multiplicity, the same clauses as R); St0 = the store the stratum
   starts from; any fuel. Hypotheses: no rule negates a predicate that R derives; no rule
   carries a transform. A finished run holds exactly the least model of R over St0. *)
Theorem naive_stratum_exact :
  forall (R rules : list clause) (St0 : list fact) (fuel : nat) (Res : list fact),
    (forall c q, In c R -> In q (neg_preds (cbody c)) -> ~ In q (heads R)) ->
    (forall c, In c R -> clet c = []) ->
    (forall c, In c rules <-> In c R) ->
    nloop fuel rules St0 = Ok Res ->
    forall f, In f Res <-> lfp R (fun g => In g St0) f.
Proof.
  intros R rules St0 fuel Res H1 H2 H3 He.
  exact (nloop_exact R St0 H1 H2 fuel rules Res H3 He).
Qed.
Print Assumptions naive_stratum_exact.

(* ---- the whole program: for every transform-free program, every valid stratification,
   every caller's store, every set of initial facts, every fuel: a finished naive
   evaluation holds exactly the stratified least model over the base facts. *)
Theorem naive_exact :
  forall (fuel : nat) (P : list clause) (layers : list (list Z)) (store init Res : list fact),
    (forall c, In c P -> clet c = []) ->
    valid_stratification P layers ->
    naive_program fuel P layers store init = Ok Res ->
    forall f, In f Res <-> slfp P layers (fun g => In g (add_all store init)) f.
Proof. exact naive_program_exact. Qed.
Print Assumptions naive_exact.

(* the only part of validity the proof needs: no layer negates a predicate it derives *)
Theorem naive_exact_weak :
  forall (fuel : nat) (P : list clause) (layers : list (list Z)) (store init Res : list fact),
    (forall c, In c P -> clet c = []) ->
    (forall ps, In ps layers -> forall c q, In c (layer_rules P ps) -> In q (neg_preds (cbody c)) ->
                ~ In q (heads (layer_rules P ps))) ->
    naive_program fuel P layers store init = Ok Res ->
    forall f, In f Res <-> slfp P layers (fun g => In g (add_all store init)) f.
Proof. exact naive_program_exact_weak. Qed.
Print Assumptions naive_exact_weak.

(* ---- THE PROPERTY: started from equal stores on a transform-free program with a valid
   stratification, whenever both evaluators finish (each with whatever round budget),
   they finish with equal fact sets. An evaluation error of the semi-naive engine
   (result EvalError) means the program is not accepted by both. *)
Theorem naive_eq_seminaive :
  forall (fuel1 fuel2 : nat) (P : list clause) (layers : list (list Z)) (store init Rn Rs : list fact),
    (forall c, In c P -> clet c = []) ->
    valid_stratification P layers ->
    naive_program fuel1 P layers store init = Ok Rn ->
    eval_program fuel2 P layers store init = Ok Rs ->
    forall f, In f Rn <-> In f Rs.
Proof.
  intros fuel1 fuel2 P layers store init Rn Rs Hf Hv.
  apply naive_eq_seminaive_weak; [exact Hf | apply valid_neg_ok; exact Hv].
Qed.
Print Assumptions naive_eq_seminaive.

Theorem naive_eq_seminaive_weak :
  forall (fuel1 fuel2 : nat) (P : list clause) (layers : list (list Z)) (store init Rn Rs : list fact),
    (forall c, In c P -> clet c = []) ->
    (forall ps, In ps layers -> forall c q, In c (layer_rules P ps) -> In q (neg_preds (cbody c)) ->
                ~ In q (heads (layer_rules P ps))) ->
    naive_program fuel1 P layers store init = Ok Rn ->
    eval_program fuel2 P layers store init = Ok Rs ->
    forall f, In f Rn <-> In f Rs.
Proof. exact NaiveProofs.naive_eq_seminaive_weak. Qed.
Print Assumptions naive_eq_seminaive_weak.

(* the naive engine has no error outcome (errors of premises and heads are dropped),
   and a finished run is not changed by a larger round budget *)
Theorem naive_never_errors :
  forall (fuel : nat) (P : list clause) (layers : list (list Z)) (store init : list fact),
    naive_program fuel P layers store init <> EvalError.
Proof. intros. unfold naive_program. apply naive_strata_no_error. Qed.
Print Assumptions naive_never_errors.

Theorem naive_round_budget_irrelevant :
  forall (fuel m : nat) (rules : list clause) (St Res : list fact),
    nloop fuel rules St = Ok Res -> nloop (fuel + m) rules St = Ok Res.
Proof. intros. apply nloop_fuel_mono. assumption. Qed.
Print Assumptions naive_round_budget_irrelevant.

(* ---- the verdict of the correspondence runner (Run/C20.v): when both Go engines
   finished and judge answers 0, the two observed fact sets are equal as sets (the
   property holds on this input) and each equals what its model computes. *)
Theorem judge_zero_sound :
  forall (c : case) (gn gs : list fact),
    c_naive c = OFacts gn -> c_semi c = OFacts gs -> judge c = 0 ->
    (forall f, In f gn <-> In f gs) /\
    exists mn ms,
      naive_program (Z.to_nat (c_fuel c)) (c_prog c) (c_layers c) (c_store c) (c_init c) = Ok mn /\
      eval_program (Z.to_nat (c_fuel c)) (c_prog c) (c_layers c) (c_store c) (c_init c) = Ok ms /\
      (forall f, In f mn <-> In f gn) /\ (forall f, In f ms <-> In f gs).
Proof. exact judge_zero. Qed.
Print Assumptions judge_zero_sound.

(* ---- non-vacuity: recursion, a same-round join, negation of the lower layer, an
   equality with a function application, a function application in a head.
     e=0 s=1 t=2 a=3 b=4 u=5 v=6
     t(X) :- e(X).   a(X) :- t(X).   b(X) :- t(X).   t(Y) :- a(X), b(X), s(X,Y).
     u(Y) :- s(X,_), Y = fn:plus(X,10), !t(X).       v(fn:mult(X,2)) :- u(X), X != 12. *)
Definition w_X := TVar 1.
Definition w_Y := TVar 2.
Definition w_prog : list clause :=
  [ mkClause (mkAtom 2 [w_X]) [PAtom (mkAtom 0 [w_X])] [];
    mkClause (mkAtom 3 [w_X]) [PAtom (mkAtom 2 [w_X])] [];
    mkClause (mkAtom 4 [w_X]) [PAtom (mkAtom 2 [w_X])] [];
    mkClause (mkAtom 2 [w_Y]) [PAtom (mkAtom 3 [w_X]); PAtom (mkAtom 4 [w_X]); PAtom (mkAtom 1 [w_X; w_Y])] [];
    mkClause (mkAtom 5 [w_Y]) [PAtom (mkAtom 1 [w_X; TVar 1001]); PEq w_Y (TApp FPlus [w_X; TConst (CNum 10)]);
                               PNeg (mkAtom 2 [w_X])] [];
    mkClause (mkAtom 6 [TApp FMult [w_X; TConst (CNum 2)]]) [PAtom (mkAtom 5 [w_X]); PIneq w_X (TConst (CNum 12))] [] ].
Definition w_layers : list (list Z) := [[2; 3; 4]; [5]; [6]].
Definition w_store : list fact := [ (0, [CNum 1]) ].
Definition w_init : list fact := [ (1, [CNum 1; CNum 2]); (1, [CNum 2; CNum 3]); (1, [CNum 4; CNum 5]); (1, [CNum 5; CNum 1]) ].
Definition w_result : list fact :=
  [ (0, [CNum 1]); (1, [CNum 1; CNum 2]); (1, [CNum 2; CNum 3]); (1, [CNum 4; CNum 5]); (1, [CNum 5; CNum 1]);
    (2, [CNum 1]); (3, [CNum 1]); (4, [CNum 1]); (2, [CNum 2]); (3, [CNum 2]); (4, [CNum 2]);
    (2, [CNum 3]); (3, [CNum 3]); (4, [CNum 3]);
    (5, [CNum 14]); (5, [CNum 15]); (6, [CNum 28]); (6, [CNum 30]) ].

Example hypotheses_satisfiable :
  (forall c, In c w_prog -> clet c = []) /\
  valid_stratification w_prog w_layers /\
  naive_program 10 w_prog w_layers w_store w_init = Ok w_result /\
  eval_program 10 w_prog w_layers w_store w_init = Ok w_result.
Proof.
  split; [|split; [|split]].
  - intros c Hc. vm_compute in Hc. repeat (destruct Hc as [<-|Hc]; [reflexivity|]). destruct Hc.
  - split.
    + vm_compute. repeat constructor; simpl; intuition discriminate.
    + intros c Hc. vm_compute in Hc.
      repeat (destruct Hc as [<-|Hc];
              [ first [ exists 0%nat; vm_compute; repeat split; intros q Hq;
                        repeat (destruct Hq as [<-|Hq]; [auto with arith|]); (try destruct Hq); fail
                      | exists 1%nat; vm_compute; repeat split; intros q Hq;
                        repeat (destruct Hq as [<-|Hq]; [auto with arith|]); (try destruct Hq); fail
                      | exists 2%nat; vm_compute; repeat split; intros q Hq;
                        repeat (destruct Hq as [<-|Hq]; [auto with arith|]); (try destruct Hq); fail ] |]).
      destruct Hc.
  - vm_compute. reflexivity.
  - vm_compute. reflexivity.
Qed.

(* ---- finding F11 (negation): witness  q=0 r=1 p=2
     q(1). q(2). r(2).  p(X) :- q(X), !r(X).
   The naive engine as it was before the fix finishes without p(1); p(1) is in the
   least model, and the semi-naive model finishes with it. *)
Definition f_prog : list clause :=
  [ mkClause (mkAtom 2 [w_X]) [PAtom (mkAtom 0 [w_X]); PNeg (mkAtom 1 [w_X])] [] ].
Definition f_layers : list (list Z) := [[2]].
Definition f_init : list fact := [ (0, [CNum 1]); (0, [CNum 2]); (1, [CNum 2]) ].
Definition f_p1 : fact := (2, [CNum 1]).

Example f_valid : (forall c, In c f_prog -> clet c = []) /\ valid_stratification f_prog f_layers.
Proof.
  split.
  - intros c [<-|[]]. reflexivity.
  - split.
    + vm_compute. repeat constructor; simpl; intuition discriminate.
    + intros c [<-|[]]. exists 0%nat. vm_compute. repeat split; intros q Hq;
        repeat (destruct Hq as [<-|Hq]; [auto with arith|]); try destruct Hq.
Qed.

Example naive_fixed_on_witness :
  naive_program 10 f_prog f_layers [] f_init = Ok (f_init ++ [f_p1]).
Proof. vm_compute. reflexivity. Qed.

Theorem naive_neg_refuted :
  exists Rpre Rs,
    naive_program_prefix 10 f_prog f_layers [] f_init = Ok Rpre /\
    eval_program 10 f_prog f_layers [] f_init = Ok Rs /\
    ~ In f_p1 Rpre /\ In f_p1 Rs /\
    slfp f_prog f_layers (fun g => In g (add_all [] f_init)) f_p1.
Proof.
  eexists. eexists. split; [vm_compute; reflexivity|]. split; [vm_compute; reflexivity|].
  split; [|split].
  - intros H. vm_compute in H. repeat (destruct H as [H|H]; [discriminate H|]). destruct H.
  - vm_compute. auto 10.
  - destruct f_valid as [Hf Hv].
    apply (naive_exact 10 f_prog f_layers [] f_init _ Hf Hv naive_fixed_on_witness).
    vm_compute. auto 10.
Qed.
Print Assumptions naive_neg_refuted.

(* ---- non-linear recursion needs one delta rule per OCCURRENCE (seeded change C20-1).
   Witness  start=0 step=1 link=2 reach=3:
     start(1). step(1,2). step(3,4). link(1,2,3).
     reach(X) :- start(X).  reach(Y) :- reach(X), step(X,Y).
     reach(Y) :- reach(X), reach(Z), link(X,Z,Y).
   reach(2) is derived one round after reach(1): the instance X=1, Z=2 of the third rule
   has its newest fact at the SECOND occurrence of reach. A semi-naive loop whose delta
   rules cover only the first occurrence of each body predicate (Run.C20.delta_rules_once)
   finishes without reach(3); the naive model and the semi-naive model (one delta rule per
   occurrence, Strata.delta_positions) both finish with it. *)
Definition d_Z := TVar 3.
Definition d_prog : list clause :=
  [ mkClause (mkAtom 3 [w_X]) [PAtom (mkAtom 0 [w_X])] [];
    mkClause (mkAtom 3 [w_Y]) [PAtom (mkAtom 3 [w_X]); PAtom (mkAtom 1 [w_X; w_Y])] [];
    mkClause (mkAtom 3 [w_Y]) [PAtom (mkAtom 3 [w_X]); PAtom (mkAtom 3 [d_Z]); PAtom (mkAtom 2 [w_X; d_Z; w_Y])] [] ].
Definition d_layers : list (list Z) := [[3]].
Definition d_init : list fact :=
  [ (0, [CNum 1]); (1, [CNum 1; CNum 2]); (1, [CNum 3; CNum 4]); (2, [CNum 1; CNum 2; CNum 3]) ].
Definition d_r3 : fact := (3, [CNum 3]).

Theorem one_delta_rule_per_predicate_refuted :
  exists Ronce Rn Rs,
    eval_program_once 10 d_prog d_layers [] d_init = Ok Ronce /\
    naive_program 10 d_prog d_layers [] d_init = Ok Rn /\
    eval_program 10 d_prog d_layers [] d_init = Ok Rs /\
    ~ In d_r3 Ronce /\ In d_r3 Rn /\ In d_r3 Rs.
Proof.
  eexists. eexists. eexists.
  split; [vm_compute; reflexivity|]. split; [vm_compute; reflexivity|]. split; [vm_compute; reflexivity|].
  split; [|split].
  - intros H. vm_compute in H. repeat (destruct H as [H|H]; [discriminate H|]). destruct H.
  - vm_compute. auto 20.
  - vm_compute. auto 20.
Qed.
Print Assumptions one_delta_rule_per_predicate_refuted.

(* ---- a negated atom that keeps a wildcard is decided by UNIFICATION, not by membership
   (seeded change C20-5). Witness  node=0 path=1 sink=2; the wildcard is a variable of its
   own (TVar 99) that nothing binds:
     node(1). node(2). node(3). path(1,2). path(2,3).   sink(X) :- node(X), !path(X, _).
   Both models finish with sink(3) and without sink(1); by naive_exact sink(1) is not in the
   stratified least model (an engine that looks path(1,_) up by membership derives it). *)
Definition wn_prog : list clause :=
  [ mkClause (mkAtom 2 [w_X]) [PAtom (mkAtom 0 [w_X]); PNeg (mkAtom 1 [w_X; TVar 99])] [] ].
Definition wn_layers : list (list Z) := [[2]].
Definition wn_init : list fact :=
  [ (0, [CNum 1]); (0, [CNum 2]); (0, [CNum 3]); (1, [CNum 1; CNum 2]); (1, [CNum 2; CNum 3]) ].
Definition wn_s1 : fact := (2, [CNum 1]).
Definition wn_s3 : fact := (2, [CNum 3]).

Example wn_valid : (forall c, In c wn_prog -> clet c = []) /\ valid_stratification wn_prog wn_layers.
Proof.
  split.
  - intros c [<-|[]]. reflexivity.
  - split.
    + vm_compute. repeat constructor; simpl; intuition discriminate.
    + intros c [<-|[]]. exists 0%nat. vm_compute. repeat split; intros q Hq;
        repeat (destruct Hq as [<-|Hq]; [auto with arith|]); try destruct Hq.
Qed.

Example naive_on_wildcard_witness :
  naive_program 10 wn_prog wn_layers [] wn_init = Ok (wn_init ++ [wn_s3]).
Proof. vm_compute. reflexivity. Qed.

Theorem neg_wildcard_decided_by_unification :
  exists Rn Rs,
    naive_program 10 wn_prog wn_layers [] wn_init = Ok Rn /\
    eval_program 10 wn_prog wn_layers [] wn_init = Ok Rs /\
    In wn_s3 Rn /\ In wn_s3 Rs /\ ~ In wn_s1 Rn /\ ~ In wn_s1 Rs /\
    ~ slfp wn_prog wn_layers (fun g => In g (add_all [] wn_init)) wn_s1.
Proof.
  eexists. eexists. split; [exact naive_on_wildcard_witness|]. split; [vm_compute; reflexivity|].
  assert (Hn : ~ In wn_s1 (wn_init ++ [wn_s3])).
  { intros H. vm_compute in H. repeat (destruct H as [H|H]; [discriminate H|]). destruct H. }
  split; [vm_compute; auto 20|]. split; [vm_compute; auto 20|]. split; [exact Hn|]. split.
  - intros H. vm_compute in H. repeat (destruct H as [H|H]; [discriminate H|]). destruct H.
  - intros H. apply Hn. destruct wn_valid as [Hf Hv].
    apply (naive_exact 10 wn_prog wn_layers [] wn_init _ Hf Hv naive_on_wildcard_witness). exact H.
Qed.
Print Assumptions neg_wildcard_decided_by_unification.
