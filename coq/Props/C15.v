(* C15 - property theorems (placeholder while the proofs are being written) *)
From Coq Require Import List ZArith Bool.
From MV Require Import Datalog.Syntax Datalog.Solve Datalog.SemiNaive Prov.ProofTree Prov.Explain.
Import ListNotations.
Open Scope Z_scope.
