(* C15 - every explanation is a checkable derivation and every derived fact has one.
   Property theorems only; proofs in Prov/ProofTreeProofs.v, Prov/ExplainProofs.v,
   Prov/ExistsProofs.v, Prov/NegGroundProofs.v and Prov/ProofIdProofs.v.

   Objects (no proofs in the model files):
   - Prov/ProofTree.v: proof trees (pnode) as provenance.ProofNode reports them, and the
     observer check_proof P base St goal n that the correspondence check runs on every
     proof the Go code returns;
   - Prov/ProofTreeProofs.v: `valid`, the declarative reading of "valid derivation";
   - Prov/Explain.v: the reference explainer explain_ref (bottom-up, rank = round of
     first derivation);
   - Prov/ProofId.v: the content-addressed identifiers (not run against the Go code). *)
From Coq Require Import List ZArith Bool Lia.
From MV Require Import Datalog.Syntax Datalog.Interp Datalog.Solve Datalog.SolveProofs Datalog.SemiNaive
  Datalog.Lfp Datalog.Strata Datalog.StrataProofs Prov.ProofTree Prov.ProofTreeProofs Prov.Explain
  Prov.ExplainProofs Prov.ExistsProofs Prov.NegGroundProofs Prov.ProofId Prov.ProofIdProofs.
From MV Require Run.C15.
Import ListNotations.
Open Scope Z_scope.

(* ---- 1. the observer is exact: it accepts a tree iff the tree is a valid derivation
   of the goal. `valid P base St anc n` (Prov/ProofTreeProofs.v) says, by induction on
   the tree: a leaf is a base fact that the store holds; an absence leaf is a fact the
   store does not hold; a derived node names a transform-free rule of P, is not flagged
   partial, its premise nodes are - in body order - proofs of facts matched by the
   positive atoms and absence leaves of exactly the ground negated atoms, equalities and
   inequalities evaluate to true, all under one substitution that extends the reported
   bindings (body_ok), the rule's head under that substitution is the node's fact, and
   every premise is valid with the node's fact added to the ancestors; no node's fact
   occurs among its ancestors `anc`. A let-row node is the same for a rule with a
   let-transform (no bindings reported, negated atoms checked without a leaf). *)
Theorem check_proof_exact : forall (P : list clause) (base St : list fact) (goal : fact) (n : pnode),
  check_proof P base St goal n = true <->
  (is_pos (node_kind n) = true /\ node_fact n = goal /\ valid P base St [] n).
Proof. exact check_proof_exact_lemma. Qed.
Print Assumptions check_proof_exact.

(* the rule-application part on its own: check_body computes the substitution of body_ok *)
Theorem check_body_exact : forall (St : list fact) (negleaf : bool) (body : list premise) (s : subst)
    (hs : list (pkind * fact)) (t : subst),
  check_body St negleaf body s hs = Some t <-> body_ok St negleaf body s hs t.
Proof. exact check_body_spec. Qed.
Print Assumptions check_body_exact.

(* ---- 2. every proof the reference explainer returns is accepted, for every program,
   base, store and fuel (in particular no fact is its own ancestor in it) *)
Theorem explain_ref_sound : forall (P : list clause) (base St : list fact) (fuel : nat) (tbl : table)
    (f : fact) (n : pnode),
  explain_ref_fuel fuel P base St = Some tbl -> find_proof tbl f = Some n ->
  check_proof P base St f n = true.
Proof. exact explain_ref_fuel_sound. Qed.
Print Assumptions explain_ref_sound.

Theorem explain_ref_default_sound : forall (P : list clause) (base St : list fact) (f : fact) (n : pnode),
  find_proof (explain_ref P base St) f = Some n -> check_proof P base St f n = true.
Proof. exact explain_ref_sound_lemma. Qed.
Print Assumptions explain_ref_default_sound.

(* ---- 3. proof_exists: every fact of the evaluated store has an accepted proof, and
   explain_ref returns one.
   Program class (the only hypotheses besides the stratification): every clause of P is
   transform-free (clet c = [], no let- and no do-transform), has no built-in comparison
   atom (no_cmp: the premise kinds covered are positive atoms, negated atoms, equalities
   `=` and inequalities `!=`; :lt :le :gt :ge are outside, finding N17), and its negated
   atoms are ground when the left-to-right join reaches them (neg_ground_from, the safety
   condition of the analysis; a decidable syntactic sufficient condition is neg_bound_b,
   see proof_exists_decidable below).
   `layers` is a valid stratification of P in C01's sense (Datalog/Lfp.v), St holds
   exactly the stratified least model over the base facts. Then for every fact f of St
   the table of explain_ref (fuel length St + 1, the default) has a node n, check_proof
   accepts n as a proof of f - by check_proof_exact: n is a valid derivation, no fact its
   own ancestor - and n concludes f.
   Both steps that were hypotheses of the earlier proof_exists_partial are discharged in
   Prov/ExistsProofs.v: (a) strat_ok - the store judges a layer's negated atoms like the
   completed lower strata - follows from valid_stratification and St = slfp
   (strat_ok_valid); (b) the fuel length St + 1 suffices (explain_ref_fuel_suffices). *)
Theorem proof_exists : forall (P : list clause) (layers : list (list Z)) (base St : list fact),
  (forall c, In c P -> clet c = [] /\ no_cmp (cbody c) /\ neg_ground_from (cbody c) []) ->
  valid_stratification P layers ->
  (forall f, In f St <-> slfp P layers (fun g => In g base) f) ->
  forall f, In f St ->
  exists n, find_proof (explain_ref P base St) f = Some n /\
            check_proof P base St f n = true /\ node_fact n = f.
Proof. exact proof_exists_lemma. Qed.
Print Assumptions proof_exists.

(* the same for the store that C01's engine model returns (by C01's strata_exact it holds
   exactly the stratified least model over store + initial facts): any fuel, any caller's
   store, any initial facts *)
Theorem proof_exists_eval : forall (fuel : nat) (P : list clause) (layers : list (list Z))
    (store init St : list fact),
  (forall c, In c P -> clet c = [] /\ no_cmp (cbody c) /\ neg_ground_from (cbody c) []) ->
  valid_stratification P layers ->
  eval_program fuel P layers store init = Ok St ->
  forall f, In f St ->
  exists n, find_proof (explain_ref P (add_all store init) St) f = Some n /\
            check_proof P (add_all store init) St f n = true /\ node_fact n = f.
Proof. exact proof_exists_eval_lemma. Qed.
Print Assumptions proof_exists_eval.

(* the program class as a boolean test: prog_fine_b P = every clause has no transform, no
   comparison atom, and every variable that is an argument of a negated atom is an
   argument of an earlier positive atom or one side of an earlier equality whose other
   side is not a variable (neg_bound_b, Prov/NegGroundProofs.v) *)
Theorem proof_exists_decidable : forall (fuel : nat) (P : list clause) (layers : list (list Z))
    (store init St : list fact),
  prog_fine_b P = true ->
  valid_stratification P layers ->
  eval_program fuel P layers store init = Ok St ->
  forall f, In f St ->
  exists n, find_proof (explain_ref P (add_all store init) St) f = Some n /\
            check_proof P (add_all store init) St f n = true /\ node_fact n = f.
Proof.
  intros fuel P layers store init St H. apply proof_exists_eval_lemma. apply prog_fine_b_sound. exact H.
Qed.
Print Assumptions proof_exists_decidable.

Theorem neg_bound_ground : forall (body : list premise),
  neg_bound_b [] body = true -> neg_ground_from body [].
Proof. intros body H. apply (neg_bound_sound body [] [] H). intros v []. Qed.
Print Assumptions neg_bound_ground.

(* ---- the two steps on their own.
   (a) a valid stratification whose model the store holds gives strat_ok: per layer, the
   store judges the negated atoms of the layer's rules like the completed lower strata *)
Theorem strat_ok_from_valid : forall (P : list clause) (layers : list (list Z)) (base St : list fact),
  (forall c, In c P -> clet c = [] /\ no_cmp (cbody c) /\ neg_ground_from (cbody c) []) ->
  valid_stratification P layers ->
  (forall f, In f St <-> slfp P layers (fun g => In g base) f) ->
  strat_ok P St (fun g => In g base) layers.
Proof. exact strat_ok_valid. Qed.
Print Assumptions strat_ok_from_valid.

(* (b) the default fuel suffices for every program (with or without transforms,
   comparison atoms: those offer no candidates) and every base, as soon as the store is
   closed under the rules with negation judged against the store itself: the table never
   holds a fact outside St nor a fact twice, every round that does not stop lengthens it *)
Theorem explain_ref_fuel_suffices : forall (P : list clause) (base St : list fact),
  (forall I c f, incl I St -> In c P -> derives (fun g => In g St) I c f -> In f St) ->
  exists tbl, explain_ref_fuel (S (length St)) P base St = Some tbl.
Proof. exact explain_ref_fuel_total. Qed.
Print Assumptions explain_ref_fuel_suffices.

(* the stratified least model is such a store *)
Theorem slfp_store_closed : forall (P : list clause) (layers : list (list Z)) (B : factset) (St : list fact),
  valid_stratification P layers -> (forall f, In f St <-> slfp P layers B f) ->
  forall I c f, incl I St -> In c P -> derives (fun g => In g St) I c f -> In f St.
Proof. exact store_closed_of_slfp. Qed.
Print Assumptions slfp_store_closed.

(* ---- the general completeness lemma the above instantiate (formerly
   proof_exists_partial): any fuel that returned a table, any store with strat_ok *)
Theorem explain_ref_complete : forall (P : list clause) (layers : list (list Z)) (base St : list fact)
    (fuel : nat) (tbl : table),
  explain_ref_fuel fuel P base St = Some tbl ->
  (forall f, In f base -> In f St) ->
  strat_ok P St (fun f => In f base) layers ->
  forall f, slfp P layers (fun g => In g base) f ->
  exists n, find_proof tbl f = Some n /\ check_proof P base St f n = true.
Proof. intros P layers base St fuel tbl. exact (explain_ref_fuel_complete P base St fuel layers tbl). Qed.
Print Assumptions explain_ref_complete.

(* one stratum, without the explainer: a table closed under the rules (no candidate
   with a new fact) holds every fact of the least model over a base it holds *)
Theorem saturated_table_complete : forall (P : list clause) (St : list fact) (tbl : table)
    (R : list clause) (B : factset),
  (forall e, In e (candidates St tbl 0 P) -> In (fst e) (keys tbl)) ->
  (forall c, In c R -> In c P /\ clause_fine St B c) ->
  (forall f, B f -> In f (keys tbl)) ->
  forall f, lfp R B f -> In f (keys tbl).
Proof. exact saturated_closed. Qed.
Print Assumptions saturated_table_complete.

(* ---- the hypotheses are satisfiable by a program with negation:
   p2(X) :- p0(X), !p1(X).   base p0(1) p0(2) p1(2);  store = base + p2(1) *)
Definition ex_rule : clause :=
  mkClause (mkAtom 2 [TVar 1]) [PAtom (mkAtom 0 [TVar 1]); PNeg (mkAtom 1 [TVar 1])] [].
Definition ex_base : list fact := [(0, [CNum 1]); (0, [CNum 2]); (1, [CNum 2])].
Definition ex_store : list fact := ex_base ++ [(2, [CNum 1])].

Example ex_neg_ground : neg_ground_from (cbody ex_rule) [].
Proof.
  intros I k pre a post u pvs E Hs He. simpl in E.
  destruct pre as [|p0 [|p1 pre]]; simpl in E.
  - discriminate.
  - injection E as <- <- <-.
    inversion Hs as [|k0 p b s0 u0 t0 Hh Hr]; subst. inversion Hr; subst.
    apply holds_atom_inv in Hh as (pvs0 & f & He0 & _ & Hm).
    simpl in He0. injection He0 as <-.
    destruct f as [fp [|c [|c2 cs]]]; unfold match_fact in Hm; simpl in Hm;
      destruct (fp =? 0); try discriminate.
    injection Hm as <-. simpl in He. injection He as <-. exists [c]. reflexivity.
  - injection E as _ _ E. destruct pre; discriminate.
Qed.

Example ex_strat_ok : strat_ok [ex_rule] ex_store (fun f => In f ex_base) [[2]].
Proof.
  simpl. split; [|exact I]. intros c [<-|[]].
  split; [reflexivity|]. split; [intros op l r [H|[H|[]]]; discriminate|].
  split; [exact ex_neg_ground|].
  intros a f [H|[H|[]]] Hf; try discriminate. injection H as <-. simpl in Hf.
  unfold ex_store, ex_base. simpl. destruct f as [fp fa]. simpl in Hf. subst fp.
  split.
  - intros [H|[H|[H|[H|[]]]]]; try discriminate; auto.
  - intros [H|[H|[H|[]]]]; auto.
Qed.

Example ex_proof_exists :
  match explain_ref_fuel 5 [ex_rule] ex_base ex_store with
  | Some tbl => match find_proof tbl (2, [CNum 1]) with
                | Some n => check_proof [ex_rule] ex_base ex_store (2, [CNum 1]) n
                | None => false
                end
  | None => false
  end = true.
Proof. vm_compute. reflexivity. Qed.

(* ---- the hypotheses of proof_exists / proof_exists_eval / proof_exists_decidable are
   satisfiable by a two-layer program that negates a DERIVED predicate and joins through
   a binding equality:
     p2(X) :- p0(X).                            layer [2]
     p3(X) :- p1(X), Y = fn:plus(X,1), !p2(Y).  layer [3]
   store p0(1) (caller), initial facts p1(0) p1(1); the engine model returns the base
   facts, p2(1) and p3(1) (p3(0) is blocked by p2(1)) *)
Definition ex2_prog : list clause :=
  [ mkClause (mkAtom 2 [TVar 1]) [PAtom (mkAtom 0 [TVar 1])] [];
    mkClause (mkAtom 3 [TVar 1])
      [PAtom (mkAtom 1 [TVar 1]); PEq (TVar 2) (TApp FPlus [TVar 1; TConst (CNum 1)]); PNeg (mkAtom 2 [TVar 2])] [] ].
Definition ex2_layers : list (list Z) := [[2]; [3]].
Definition ex2_store : list fact := [(0, [CNum 1]); (1, [CNum 0]); (1, [CNum 1]); (2, [CNum 1]); (3, [CNum 1])].

Example ex2_class : prog_fine_b ex2_prog = true.
Proof. vm_compute. reflexivity. Qed.

Example ex2_class_semantic :
  forall c, In c ex2_prog -> clet c = [] /\ no_cmp (cbody c) /\ neg_ground_from (cbody c) [].
Proof. exact (prog_fine_b_sound ex2_prog ex2_class). Qed.

Example ex2_valid : valid_stratification ex2_prog ex2_layers.
Proof.
  split.
  - vm_compute. repeat constructor; simpl; intuition discriminate.
  - intros c [<-|[<-|[]]].
    + exists 0%nat. vm_compute. repeat split; intros q Hq; repeat (destruct Hq as [<-|Hq]; [auto with arith|]); try destruct Hq.
    + exists 1%nat. vm_compute. repeat split; intros q Hq; repeat (destruct Hq as [<-|Hq]; [auto with arith|]); try destruct Hq.
Qed.

Example ex2_eval :
  eval_program 10 ex2_prog ex2_layers [(0, [CNum 1])] [(1, [CNum 0]); (1, [CNum 1])] = Ok ex2_store.
Proof. vm_compute. reflexivity. Qed.

(* ... and the conclusion, computed: every fact of that store gets an accepted proof *)
Example ex2_all_proved :
  forallb (fun f => match find_proof (explain_ref ex2_prog (add_all [(0, [CNum 1])] [(1, [CNum 0]); (1, [CNum 1])]) ex2_store) f with
                    | Some n => check_proof ex2_prog (add_all [(0, [CNum 1])] [(1, [CNum 0]); (1, [CNum 1])]) ex2_store f n
                    | None => false
                    end) ex2_store = true.
Proof. vm_compute. reflexivity. Qed.

(* the hypothesis of explain_ref_fuel_suffices / the conclusion of slfp_store_closed for it *)
Example ex2_closed :
  forall I c f, incl I ex2_store -> In c ex2_prog -> derives (fun g => In g ex2_store) I c f -> In f ex2_store.
Proof.
  apply (store_closed_of_slfp ex2_prog ex2_layers
           (fun g => In g (add_all [(0, [CNum 1])] [(1, [CNum 0]); (1, [CNum 1])])) ex2_store ex2_valid).
  exact (eval_program_exact _ _ _ _ _ _ ex2_valid ex2_eval).
Qed.

(* the class is not "everything": a negated atom over a variable nothing binds fails the
   test (p2(X) :- p0(X), !p1(Y).) *)
Example unbound_negation_rejected :
  prog_fine_b [mkClause (mkAtom 2 [TVar 1]) [PAtom (mkAtom 0 [TVar 1]); PNeg (mkAtom 1 [TVar 2])] []] = false.
Proof. vm_compute. reflexivity. Qed.

(* ---- witnesses of the defects fixed in provenance/provenance.go: what the pre-fix
   code returned is rejected by the judge of the correspondence (code 3 = a complete
   proof is owed, none returned), and the specification side does have a proof. *)

(* F9: a :- b. a :- base. b :- a. g :- a, b.  (p0 = base, p1 = a, p2 = b, p3 = g) *)
Definition f9_prog : list clause :=
  [mkClause (mkAtom 1 [TVar 1]) [PAtom (mkAtom 2 [TVar 1])] [];
   mkClause (mkAtom 1 [TVar 1]) [PAtom (mkAtom 0 [TVar 1])] [];
   mkClause (mkAtom 2 [TVar 1]) [PAtom (mkAtom 1 [TVar 1])] [];
   mkClause (mkAtom 3 [TVar 1]) [PAtom (mkAtom 1 [TVar 1]); PAtom (mkAtom 2 [TVar 1])] []].
Definition f9_base : list fact := [(0, [CNum 1])].
Definition f9_store : list fact := [(0, [CNum 1]); (1, [CNum 1]); (2, [CNum 1]); (3, [CNum 1])].

Theorem f9_no_proof_refuted :
  Run.C15.judge (Run.C15.mkCase f9_prog f9_base f9_store true
                   [Run.C15.mkGoal (3, [CNum 1]) true []]) = 13.
Proof. vm_compute. reflexivity. Qed.
Print Assumptions f9_no_proof_refuted.

Example f9_has_proof :
  match find_proof (explain_ref f9_prog f9_base f9_store) (3, [CNum 1]) with
  | Some n => check_proof f9_prog f9_base f9_store (3, [CNum 1]) n
  | None => false
  end = true.
Proof. vm_compute. reflexivity. Qed.

(* F9b: p1(1). p0(2). p1(X) :- p0(X).  - the initial fact p1(1) is proved by a leaf *)
Theorem f9b_no_proof_refuted :
  Run.C15.judge (Run.C15.mkCase [mkClause (mkAtom 1 [TVar 1]) [PAtom (mkAtom 0 [TVar 1])] []]
                   [(1, [CNum 1]); (0, [CNum 2])] [(1, [CNum 1]); (0, [CNum 2]); (1, [CNum 2])] true
                   [Run.C15.mkGoal (1, [CNum 1]) true []]) = 13.
Proof. vm_compute. reflexivity. Qed.
Print Assumptions f9b_no_proof_refuted.

Example f9b_leaf_accepted :
  check_proof [mkClause (mkAtom 1 [TVar 1]) [PAtom (mkAtom 0 [TVar 1])] []]
    [(1, [CNum 1]); (0, [CNum 2])] [(1, [CNum 1]); (0, [CNum 2]); (1, [CNum 2])] (1, [CNum 1])
    (PLeaf (1, [CNum 1])) = true.
Proof. vm_compute. reflexivity. Qed.

(* N16: p2(X) :- p0(X), Z = fn:plus(X,1), p1(Z).  - the proof the fixed explainer returns
   (bindings X = 1, Z = 2) is accepted; so is the same proof with Z not reported *)
Definition n16_prog : list clause :=
  [mkClause (mkAtom 2 [TVar 1])
     [PAtom (mkAtom 0 [TVar 1]); PEq (TVar 2) (TApp FPlus [TVar 1; TConst (CNum 1)]); PAtom (mkAtom 1 [TVar 2])] []].
Definition n16_store : list fact := [(0, [CNum 1]); (1, [CNum 2]); (2, [CNum 1])].

Theorem n16_no_proof_refuted :
  Run.C15.judge (Run.C15.mkCase n16_prog [(0, [CNum 1]); (1, [CNum 2])] n16_store true
                   [Run.C15.mkGoal (2, [CNum 1]) true []]) = 13.
Proof. vm_compute. reflexivity. Qed.
Print Assumptions n16_no_proof_refuted.

Example n16_proof_accepted :
  check_proof n16_prog [(0, [CNum 1]); (1, [CNum 2])] n16_store (2, [CNum 1])
    (PDerived 0 [(1, CNum 1); (2, CNum 2)] (2, [CNum 1]) false [PLeaf (0, [CNum 1]); PLeaf (1, [CNum 2])]) = true /\
  check_proof n16_prog [(0, [CNum 1]); (1, [CNum 2])] n16_store (2, [CNum 1])
    (PDerived 0 [(1, CNum 1)] (2, [CNum 1]) false [PLeaf (0, [CNum 1]); PLeaf (1, [CNum 2])]) = true.
Proof. vm_compute. split; reflexivity. Qed.

(* a cyclic "proof" (a(1) from b(1) from a(1)) and a proof with a wrong binding are rejected *)
Example cyclic_proof_rejected :
  check_proof f9_prog f9_base f9_store (1, [CNum 1])
    (PDerived 0 [(1, CNum 1)] (1, [CNum 1]) false
       [PDerived 2 [(1, CNum 1)] (2, [CNum 1]) false
          [PDerived 1 [(1, CNum 1)] (1, [CNum 1]) false [PLeaf (0, [CNum 1])]]]) = false.
Proof. vm_compute. reflexivity. Qed.

Example wrong_binding_rejected :
  check_proof f9_prog f9_base f9_store (1, [CNum 1])
    (PDerived 1 [(1, CNum 2)] (1, [CNum 1]) false [PLeaf (0, [CNum 1])]) = false.
Proof. vm_compute. reflexivity. Qed.

(* ---- 4. identifiers (Prov/ProofId.v: node_id H show rid, for every hash H, fact
   printing show and rule identifier rid). The identifier of a rule node is a function of
   the rule, the fact and the identifiers of the sub-proofs: bindings, the Partial flag
   and everything of the sub-proofs beyond their identifiers do not enter. *)
Theorem proof_id_functional : forall (H : list Z -> list Z) (show : fact -> list Z) (rid : nat -> list Z)
    (ri : nat) (f : fact) (bs bs' : subst) (pa pa' : bool) (prems prems' : list pnode),
  map (node_id H show rid) prems = map (node_id H show rid) prems' ->
  node_id H show rid (PDerived ri bs f pa prems) = node_id H show rid (PDerived ri bs' f pa' prems').
Proof. exact node_id_local. Qed.
Print Assumptions proof_id_functional.

(* hence of the content of the whole tree (erase = the tree without bindings and flags;
   this is the "content" the correspondence check groups the Go identifiers by) *)
Theorem proof_id_content : forall (H : list Z -> list Z) (show : fact -> list Z) (rid : nat -> list Z)
    (n m : pnode),
  erase n = erase m -> node_id H show rid n = node_id H show rid m.
Proof. exact node_id_content. Qed.
Print Assumptions proof_id_content.

(* the bytes given to the hash determine the parts: "<len>:<part>\n" is an injective framing *)
Theorem proof_id_frame_injective : forall (ps qs : list (list Z)), frame ps = frame qs -> ps = qs.
Proof. exact frame_inj. Qed.
Print Assumptions proof_id_frame_injective.

(* so different contents can only get one identifier through a collision of the hash:
   with an injective H (and injective printing of facts and rules), equal identifiers of
   trees without placeholders mean equal content *)
Theorem proof_id_injective : forall (H : list Z -> list Z) (show : fact -> list Z) (rid : nat -> list Z),
  (forall x y, H x = H y -> x = y) -> (forall f g, show f = show g -> f = g) ->
  (forall i j, rid i = rid j -> i = j) ->
  forall n, modelled n = true -> forall m, modelled m = true ->
  node_id H show rid n = node_id H show rid m -> erase n = erase m.
Proof. exact node_id_inj. Qed.
Print Assumptions proof_id_injective.

(* the hypotheses are satisfiable (identity as hash, a prefix code as printing), and the
   framing matters: without it ["ab";"c"] and ["a";"bc"] would be hashed from the same bytes *)
Example ex_id_hyps :
  (forall x y : list Z, (fun b => b) x = (fun b => b) y -> x = y) /\
  (forall f g, enc_fact f = enc_fact g -> f = g) /\
  (forall i j, (fun k => [Z.of_nat k]) i = (fun k => [Z.of_nat k]) j -> i = j).
Proof.
  split; [auto|]. split; [exact enc_fact_inj|]. intros i j E. injection E as E. apply Nat2Z.inj. exact E.
Qed.

Example ex_id_differs :
  node_id (fun b => b) enc_fact (fun k => [Z.of_nat k])
    (PDerived 1 [(1, CNum 1)] (1, [CNum 1]) false [PLeaf (0, [CNum 1])]) <>
  node_id (fun b => b) enc_fact (fun k => [Z.of_nat k])
    (PDerived 0 [(1, CNum 1)] (1, [CNum 1]) false [PLeaf (0, [CNum 1])]) /\
  frame [[97; 98]; [99]] <> frame [[97]; [98; 99]] /\
  concat [[97; 98]; [99]] = concat [[97]; [98; 99]].
Proof. vm_compute. repeat split; discriminate. Qed.
