(* Props/C11.v - placeholder while the proofs are being written *)
From MV Require Import Analysis.Bounds.
