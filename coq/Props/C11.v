(* Props/C11.v - C11: facts of declared predicates conform to their declared bounds.

   PARTIAL.  The full statement of the property, for the real checker and every program,

     forall program P with declarations D, forall caller facts E admitted by the
     declarations of the extensional predicates:
       analysis.AnalyzeAndCheckBounds(P, ErrorForBoundsMismatch) = no error ->
       forall fact f stored by engine.EvalProgram(P, E) with a user-declared predicate:
         builtin.TypeChecker.CheckTypeBounds(f) = no error

   is NOT proved here - and it is false for the code: the model below accepts programs
   whose least model leaves the declared bounds (findings N92, N93, F7b, F7c, F7f; the
   witness of N92 is `intersection_underapproximated_refuted`).

   What is proved (`bounds_sound_partial`, `bounds_sound_strata_partial`) is the statement
   for the model `check_program` of coq/Analysis/Bounds.v, on the fragment
     - every predicate declared by the user with rows of closed first-order types, no modes;
     - bodies of atoms, negated atoms, `=`, `!=`; terms: variables, constants (names,
       strings, numbers, lists, pairs) and fn:list(..); no transform;
     - the exactness flag of the run is set (second component `true`): the decidable
       certificates listed in Bounds.v all hold;
   against the least-model semantics of Datalog/Lfp.v (C01) and the membership judgement
   `has_type` of Types/Types.v (C12, = TypeHandle.HasType = what CheckTypeBounds applies per
   argument).  Missing from the fragment, by name: built-in functions typed through function
   types and unification of type expressions (fn:pair, fn:list:cons, fn:list:get, arithmetic,
   fn:struct:get, ...), the special typing of :match_field / :match_entry / :match_prefix /
   :list:member, comparisons, let- and do-transforms, type variables, modes, temporal
   literals, tagged unions beyond what Types.v expands.  Relation types inferred for
   undeclared predicates are covered by the theorems at the end of this file
   (`bounds_sound_inferred_partial`), mutual recursion between undeclared predicates
   excepted. *)
From Coq Require Import List ZArith Bool.
From MV Require Import Datalog.Syntax Datalog.Interp Datalog.Solve Datalog.Lfp.
From MV Require Import Analysis.Bounds Analysis.BoundsProofs.
Import ListNotations.
Open Scope Z_scope.

(* If every clause and every fact written in the program passes the model checker, with
   the certificates, then every fact of the least model whose predicate is declared is a
   member of one declared row - provided the base facts that are not written in the program
   are (the caller's facts conform to the declarations of the extensional predicates). *)
Theorem bounds_sound_partial :
  forall (D : decls) (R : list clause) (init : list fact) (B : fact -> Prop),
    check_program D R init = Ok (true, true) ->
    (forall f, B f ->
       In f init \/
       match lookup_decl (fst f) D with
       | Some rows => exists r, In r rows /\ Forall2 (fun t c => T.has_type t (inj c) = true) r (snd f)
       | None => True
       end) ->
    forall f, lfp R B f ->
      match lookup_decl (fst f) D with
      | Some rows => exists r, In r rows /\ Forall2 (fun t c => T.has_type t (inj c) = true) r (snd f)
      | None => True
      end.
Proof. exact bounds_sound. Qed.
Print Assumptions bounds_sound_partial.

(* the same for the stratified least model: any list of layers, lowest first *)
Theorem bounds_sound_strata_partial :
  forall (D : decls) (P : list clause) (init : list fact),
    check_program D P init = Ok (true, true) ->
    forall (layers : list (list Z)) (B : fact -> Prop),
    (forall f, B f ->
       In f init \/
       match lookup_decl (fst f) D with
       | Some rows => exists r, In r rows /\ Forall2 (fun t c => T.has_type t (inj c) = true) r (snd f)
       | None => True
       end) ->
    forall f, slfp P layers B f ->
      match lookup_decl (fst f) D with
      | Some rows => exists r, In r rows /\ Forall2 (fun t c => T.has_type t (inj c) = true) r (snd f)
      | None => True
      end.
Proof. exact bounds_sound_strata. Qed.
Print Assumptions bounds_sound_strata_partial.

(* a fact written in the program that passes the unit-clause check is a member of a row *)
Theorem unit_clause_sound :
  forall (D : decls) (trie : list T.str) (f : fact),
    check_fact D trie f = Ok (true, true) ->
    match lookup_decl (fst f) D with
    | Some rows => exists r, In r rows /\ Forall2 (fun t c => T.has_type t (inj c) = true) r (snd f)
    | None => True
    end.
Proof. exact check_fact_sound. Qed.
Print Assumptions unit_clause_sound.

(* the bound the checker assigns to a constant contains the constant (boundOfArg) *)
Theorem bound_of_const_sound :
  forall (trie : list T.str) (c : const) (t : T.ty),
    bconst trie c = Ok (t, true) -> T.has_type t (inj c) = true.
Proof. exact bconst_sound. Qed.
Print Assumptions bound_of_const_sound.

(* the disjointness certificate is sound *)
Theorem disjoint_certificate_sound :
  forall (a b : T.ty) (c : T.const),
    disjointb a b = true -> T.has_type a c = true -> T.has_type b c = true -> False.
Proof. exact disjointb_sound. Qed.
Print Assumptions disjoint_certificate_sound.

(* ---- non-vacuity: a program with two declared rows, a join, a negation, an equality,
   an inequality and a list constructor in the head passes with the flag set *)
Definition ex_name (l : list Z) := T.TConst (47 :: l).      (* "/..." *)
Definition ex_D : decls :=
  [ (0, [[t_number]; [t_string]]);                          (* Decl p0(X) bound [/number] bound [/string]. *)
    (1, [[t_number; ex_name [97]]]);                        (* Decl p1(X,Y) bound [/number, /a]. *)
    (2, [[t_number]]);                                      (* Decl p2(X) bound [/number]. *)
    (3, [[T.TList t_number; t_name]]) ].                     (* Decl p3(X,Y) bound [fn:List(/number), /name]. *)
Definition ex_R : list clause :=
  [ mkClause (mkAtom 3 [TApp FList [TVar 0; TConst (CNum 7)]; TVar 1])
             [PAtom (mkAtom 0 [TVar 0]); PAtom (mkAtom 1 [TVar 0; TVar 1]); PNeg (mkAtom 2 [TVar 0]);
              PEq (TVar 2) (TVar 0); PIneq (TVar 2) (TConst (CNum 3))] [] ].
Definition ex_init : list fact := [ (0, [CNum 1]); (0, [CStr [120]]); (1, [CNum 1; CName [47; 97; 47; 120]]) ].

Example hypotheses_satisfiable : check_program ex_D ex_R ex_init = Ok (true, true).
Proof. vm_compute. reflexivity. Qed.

Example ex_derives :
  lfp ex_R (fun f => In f ex_init) (3, [CCons (CNum 1) (CCons (CNum 7) CNil); CName [47; 97; 47; 120]]).
Proof.
  eapply lfp_step with (I := ex_init) (c := hd (mkClause (mkAtom 0 []) [] []) ex_R).
  - intros g Hg. apply lfp_base. exact Hg.
  - left. reflexivity.
  - exists [(2, CNum 1); (1, CName [47; 97; 47; 120]); (0, CNum 1)]. split.
    + eapply sat_cons.
      { eapply holds_atom with (f := (0, [CNum 1])); [reflexivity|left; reflexivity|reflexivity]. }
      eapply sat_cons.
      { eapply holds_atom with (f := (1, [CNum 1; CName [47; 97; 47; 120]]));
          [reflexivity|right; right; left; reflexivity|reflexivity]. }
      eapply sat_cons.
      { eapply holds_neg; [reflexivity|]. intros f Hf. destruct Hf as [Hf|[Hf|[Hf|[]]]]; subst; reflexivity. }
      eapply sat_cons.
      { eapply holds_pure; [reflexivity|left; reflexivity]. }
      eapply sat_cons.
      { eapply holds_pure; [reflexivity|left; reflexivity]. }
      apply sat_nil.
    + reflexivity.
Qed.

(* ---- refutation witnesses *)
(* F7a (fixed): with the conformance judgement of the unchanged code the unit clause p(1)
   passed against Decl p(X) bound [/name]; 1 is not a member of /name. *)
Theorem f7a_unit_clause_refuted :
  T.set_conforms T.Legacy t_number t_name = Some true /\
  T.set_conforms T.Fixed t_number t_name = Some false /\
  T.has_type t_name (inj (CNum 1)) = false.
Proof. vm_compute. repeat split; reflexivity. Qed.
Print Assumptions f7a_unit_clause_refuted.

(* N92 (known finding): Decl p0(X) bound [fn:List(/number)] bound [/string].
   Decl p1(X) bound [fn:List(/string)] bound [/string].  Decl p2(X) bound [/string].
   p2(X) :- p0(X), p1(X).   The checker (model and code) accepts: the two list rows are
   judged to have an empty intersection and that combination is dropped.  The flag is not
   set, and the least model over p0([]), p1([]) contains p2([]), which is no member of
   /string. *)
Definition n92_D : decls :=
  [ (0, [[T.TList t_number]; [t_string]]); (1, [[T.TList t_string]; [t_string]]); (2, [[t_string]]) ].
Definition n92_R : list clause :=
  [ mkClause (mkAtom 2 [TVar 0]) [PAtom (mkAtom 0 [TVar 0]); PAtom (mkAtom 1 [TVar 0])] [] ].
Definition n92_B : fact -> Prop := fun f => In f [ (0, [CNil]); (1, [CNil]) ].

Theorem intersection_underapproximated_refuted :
  check_program n92_D n92_R [] = Ok (true, false) /\
  (forall f, n92_B f ->
     match lookup_decl (fst f) n92_D with
     | Some rows => exists r, In r rows /\ Forall2 (fun t c => T.has_type t (inj c) = true) r (snd f)
     | None => True
     end) /\
  lfp n92_R n92_B (2, [CNil]) /\
  ~ (exists r, In r [[t_string]] /\ Forall2 (fun t c => T.has_type t (inj c) = true) r [CNil]).
Proof.
  split; [vm_compute; reflexivity|]. split; [|split].
  - intros f [Hf|[Hf|[]]]; subst; simpl.
    + exists [T.TList t_number]. split; [left; reflexivity|]. constructor; [reflexivity|constructor].
    + exists [T.TList t_string]. split; [left; reflexivity|]. constructor; [reflexivity|constructor].
  - eapply lfp_step with (I := [ (0, [CNil]); (1, [CNil]) ]) (c := hd (mkClause (mkAtom 0 []) [] []) n92_R).
    + intros g Hg. apply lfp_base. exact Hg.
    + left. reflexivity.
    + exists [(0, CNil)]. split; [|reflexivity].
      eapply sat_cons.
      { eapply holds_atom with (f := (0, [CNil])); [reflexivity|left; reflexivity|reflexivity]. }
      eapply sat_cons.
      { eapply holds_atom with (f := (1, [CNil])); [reflexivity|right; left; reflexivity|reflexivity]. }
      apply sat_nil.
  - intros [r [[Hr|[]] F]]. subst r. inversion F; subst. discriminate.
Qed.
Print Assumptions intersection_underapproximated_refuted.

(* ---------------------------------------------------------------------------------
   Added after seeding: programs with UNDECLARED predicates, whose relation types the
   checker infers (model Analysis/BoundsInfer.v: inferRelTypes / getOrInferRelTypes, the
   recursion through `visiting`, the order in which BoundsCheck reaches the predicates as
   an explicit schedule).  PARTIAL in the same sense as above, and in one more: the
   certificate is that the whole program - the clauses of the undeclared predicates
   included - passes the checker of Bounds.v, flag set, when the inferred relation types
   are taken as declarations (`certified`); the model computes that certificate, the Go
   code does not check it.  Fragment: no mutual recursion between undeclared predicates
   (self-recursion is covered). *)
From MV Require Import Analysis.BoundsInfer Analysis.BoundsInferProofs.

Theorem bounds_sound_inferred_partial :
  forall (D : decls) (R : list clause) (init : list fact) (sched : list (Z * Z * bool))
         (E : decls) (e : bool) (B : fact -> Prop),
    check_program_inf D R init sched = Ok ((true, Some E), e) ->
    certified E R init = true ->
    (forall f, B f ->
       In f init \/
       (is_declared D (fst f) = true /\
        match lookup_decl (fst f) D with
        | Some rows => exists r, In r rows /\ Forall2 (fun t c => T.has_type t (inj c) = true) r (snd f)
        | None => True
        end)) ->
    forall f, lfp R B f ->
      match lookup_decl (fst f) D with
      | Some rows => exists r, In r rows /\ Forall2 (fun t c => T.has_type t (inj c) = true) r (snd f)
      | None => True
      end.
Proof. exact bounds_sound_inferred. Qed.
Print Assumptions bounds_sound_inferred_partial.

Theorem bounds_sound_inferred_strata_partial :
  forall (D : decls) (P : list clause) (init : list fact) (sched : list (Z * Z * bool))
         (E : decls) (e : bool),
    check_program_inf D P init sched = Ok ((true, Some E), e) ->
    certified E P init = true ->
    forall (layers : list (list Z)) (B : fact -> Prop),
    (forall f, B f ->
       In f init \/
       (is_declared D (fst f) = true /\
        match lookup_decl (fst f) D with
        | Some rows => exists r, In r rows /\ Forall2 (fun t c => T.has_type t (inj c) = true) r (snd f)
        | None => True
        end)) ->
    forall f, slfp P layers B f ->
      match lookup_decl (fst f) D with
      | Some rows => exists r, In r rows /\ Forall2 (fun t c => T.has_type t (inj c) = true) r (snd f)
      | None => True
      end.
Proof. exact bounds_sound_inferred_strata. Qed.
Print Assumptions bounds_sound_inferred_strata_partial.

(* non-vacuity and the witness of the seeded change C11-1:
     Decl p0(X) bound [/number].   Decl p1(X,Y) bound [/number,/string] bound [/string,/a].
     p5(X) :- p0(X).   p5(X) :- p5(Y), p1(Y,X).        (p5 undeclared, reached on demand)
     p2(X) :- p5(X).
   With Decl p2(X) bound [/number] bound [/string] bound [/a] the program passes and is
   certified; with Decl p2(X) bound [/number] bound [/string] (the types reachable within
   one step) the model rejects it - the seeded change accepted it and p2(/a/x) was stored. *)
Definition inf_D (rows2 : list row) : decls :=
  [ (0, [[t_number]]); (1, [[t_number; t_string]; [t_string; ex_name [97]]]); (2, rows2) ].
Definition inf_R : list clause :=
  [ mkClause (mkAtom 5 [TVar 0]) [PAtom (mkAtom 0 [TVar 0])] [];
    mkClause (mkAtom 5 [TVar 0]) [PAtom (mkAtom 5 [TVar 1]); PAtom (mkAtom 1 [TVar 1; TVar 0])] [];
    mkClause (mkAtom 2 [TVar 0]) [PAtom (mkAtom 5 [TVar 0])] [] ].
Definition inf_E : decls := (5, [[t_number]; [t_string]; [ex_name [97]]]) :: inf_D [[t_number]; [t_string]; [ex_name [97]]].

Example inferred_hypotheses_satisfiable :
  check_program_inf (inf_D [[t_number]; [t_string]; [ex_name [97]]]) inf_R [] [(5, 1, false)] = Ok ((true, Some inf_E), true) /\
  certified inf_E inf_R [] = true.
Proof. vm_compute. split; reflexivity. Qed.

Example inferred_depth_two_rejected :
  exists E, check_program_inf (inf_D [[t_number]; [t_string]]) inf_R [] [(5, 1, false)] = Ok ((false, Some E), true).
Proof. eexists. vm_compute. reflexivity. Qed.

(* ---------------------------------------------------------------------------------
   Added after the second round of seeding (C11-6, C11-4).

   "Base facts written in the program are subject to the same guarantee": when the model
   accepts with its certificates, every unit clause of the text - of whichever declared
   predicate, wherever it stands in the text, whatever unit clauses the other predicates
   have - is a member of a declared row of ITS OWN predicate.  PARTIAL as above (model,
   fragment, exactness flag). *)
From MV Require Import Analysis.BoundsBaseFacts.

Theorem base_facts_in_text_conform_partial :
  forall (D : decls) (R : list clause) (init : list fact),
    check_program D R init = Ok (true, true) ->
    forall f, In f init ->
      match lookup_decl (fst f) D with
      | Some rows => exists r, In r rows /\ Forall2 (fun t c => T.has_type t (inj c) = true) r (snd f)
      | None => True
      end.
Proof. exact base_facts_conform. Qed.
Print Assumptions base_facts_in_text_conform_partial.

(* non-vacuity, and the witness of the seeded change C11-6:
     Decl p0(X) bound [/string].  Decl p1(X) bound [/number].  p0("heavy").  p1(12).     passes;
     p0("heavy").  p1("12").  is rejected by the model in both textual orders (the seeded change recorded the
     observation fn:Rel(/string) for p0 only, accepted the program, and p1("12") was stored). *)
Definition bf_D : decls := [ (0, [[t_string]]); (1, [[t_number]]) ].

Example base_facts_hypotheses_satisfiable :
  check_program bf_D [] [ (0, [CStr [104; 101; 97; 118; 121]]); (1, [CNum 12]) ] = Ok (true, true).
Proof. vm_compute. reflexivity. Qed.

Example base_facts_same_shape_rejected :
  (exists e, check_program bf_D [] [ (0, [CStr [104; 101; 97; 118; 121]]); (1, [CStr [49; 50]]) ] = Ok (false, e)) /\
  (exists e, check_program bf_D [] [ (1, [CStr [49; 50]]); (0, [CStr [104; 101; 97; 118; 121]]) ] = Ok (false, e)).
Proof. split; eexists; vm_compute; reflexivity. Qed.

(* the witness of the seeded change C11-4 in the form the model covers (a struct-typed variable copied from a
   declared predicate; struct CONSTANTS are outside the Datalog model):
     Decl p0(X) bound [fn:Struct(/id,/number,fn:opt(/note,/string))].
     Decl p1(X) bound [fn:Struct(/id,/number,/note,T)].        p0(X) :- p1(X).
   passes for T = /string and is rejected for T = /number: a field the declaration marks optional is compared
   with the REQUIRED field of the inferred struct type that supplies it. *)
Definition st_id : T.str := [47; 105; 100].
Definition st_note : T.str := [47; 110; 111; 116; 101].
Definition st_D (t : T.ty) : decls :=
  [ (0, [[T.TStruct [(st_id, t_number)] [(st_note, t_string)]]]);
    (1, [[T.TStruct [(st_id, t_number); (st_note, t)] []]]) ].
Definition st_R : list clause := [ mkClause (mkAtom 0 [TVar 0]) [PAtom (mkAtom 1 [TVar 0])] [] ].

Example optional_struct_field_supplied_accepted :
  exists e, check_program (st_D t_string) st_R [] = Ok (true, e).
Proof. eexists. vm_compute. reflexivity. Qed.

Example optional_struct_field_wrong_type_rejected :
  exists e, check_program (st_D t_number) st_R [] = Ok (false, e).
Proof. eexists. vm_compute. reflexivity. Qed.
