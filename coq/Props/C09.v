(* C09 - printing then parsing returns the same term, atom or clause.
   Property theorems only; proofs are in Serde/*Proofs.v. *)
From Coq Require Import List ZArith Bool.
From MV Require Import Serde.Escape Serde.Lexer Serde.Parse.
Import ListNotations.
Open Scope Z_scope.

(* pre-fix behaviour (finding F5): a carriage return was printed raw and read back as a newline *)
Theorem cr_round_trip_refuted :
  exists s e, escape_string_prefix s = Some e /\ unescape false e <> Some s.
Proof. exists [97; 13; 98], [97; 13; 98]. split; [reflexivity | vm_compute; discriminate]. Qed.
Print Assumptions cr_round_trip_refuted.
