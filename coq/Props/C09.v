(* C09 - printing then parsing returns the same term, atom or clause.
   Property theorems only; the proofs are in Serde/{Escape,Lexer,Parse}Proofs.v.
   Models: Serde/Escape.v (ast/serde.go), Serde/Lexer.v (the lexer rules of
   parse/gen/Mangle.g4), Serde/Parse.v (rule `term` with the visitors of
   parse/parse.go and the constructor cases of functional.EvalApplyFn),
   Term/Print.v (Constant.String, owned by C08). Bytes are integers 0..255. *)
From Coq Require Import List ZArith Bool String.
From MV Require Import Serde.Escape Serde.EscapeProofs Serde.Lexer Serde.LexerProofs Serde.Parse Serde.ParseProofs.
From MV Require Import Term.Expr.
Import ListNotations.
Open Scope Z_scope.

(* ---- escaping ------------------------------------------------------------- *)
(* byte strings: every byte list *)
Theorem unescape_escape_bytes :
  forall s : list Z, Forall (fun c => 0 <= c < 256) s ->
  unescape true (escape_bytes s) = Some s.
Proof. exact unescape_escape_bytes_lemma. Qed.
Print Assumptions unescape_escape_bytes.

(* strings: Escape succeeds exactly on valid UTF-8 (escape_string s = Some e);
   control characters, quotes, backslashes, CR and every code point included *)
Theorem unescape_escape_string :
  forall s e : list Z, Forall (fun c => 0 <= c < 256) s ->
  escape_string s = Some e -> unescape false e = Some s.
Proof. exact unescape_escape_string_lemma. Qed.
Print Assumptions unescape_escape_string.

Example unescape_escape_string_nonvacuous :
  exists e, escape_string [97; 13; 10; 34; 92; 0; 195; 169; 240; 159; 152; 128] = Some e.
Proof. eexists. vm_compute. reflexivity. Qed.

(* UTF-8: the encoder gives back the bytes the decoder read *)
Theorem utf8_encode_decode :
  forall (s : list Z) (r : Z) (n : nat), utf8_decode s = Some (r, n) ->
  128 <= r <= max_rune /\ firstn n s = utf8_encode r /\ (n <= List.length s)%nat /\ (1 <= n)%nat.
Proof. exact utf8_decode_encode. Qed.
Print Assumptions utf8_encode_decode.

Example utf8_encode_decode_nonvacuous : utf8_decode [240; 159; 152; 128; 65] = Some (128512, 4%nat).
Proof. reflexivity. Qed.

(* ---- the lexer ------------------------------------------------------------- *)
(* the printed literal is exactly one token, whatever follows it *)
Theorem lex_string_exact :
  forall s e rest : list Z, Forall (fun c => 0 <= c < 256) s -> escape_string s = Some e ->
  next_token (34 :: e ++ 34 :: rest) = LTok (TString e) rest.
Proof. exact next_token_string. Qed.
Print Assumptions lex_string_exact.

Theorem lex_bytestring_exact :
  forall s rest : list Z, Forall (fun c => 0 <= c < 256) s ->
  next_token (98 :: 34 :: escape_bytes s ++ 34 :: rest) = LTok (TByteString (escape_bytes s)) rest.
Proof. exact next_token_bytestring. Qed.
Print Assumptions lex_bytestring_exact.

(* ---- print, then parse ------------------------------------------------------ *)
(* Full statement (not proved beyond the two leaf kinds below):

   parse_print_const : forall parse_float parse_time parse_dur fmt_float fmt_time fmt_dur,
     (forall b, float_special b = false -> parse_float (format_float64 fmt_float b) = Some b /\ the text is -?digits.digits) ->
     (forall n, parse_time (fmt_time n) = Some n /\ no quote or backslash in fmt_time n) ->
     (forall n, parse_dur (fmt_dur n) = Some n /\ no quote or backslash in fmt_dur n) ->
     forall c rest, wf c = true -> valid c = true -> map / struct keys of c sorted by distinct hashes ->
     follow rest (rest is empty or starts with one of , ) ] } or a blank) ->
     exists t, parse_term parse_float (fuel_for (print .. c ++ rest)) (print .. c ++ rest) = POk t rest
               /\ eval parse_time parse_dur t = Some c.
   parse_print_atom, parse_print_clause: the same for Atom.String and Clause.String
   (the clause level is not modelled in Coq).

   The unproved part (numbers, names, floats, times, durations, nested shapes, atoms) is covered on every
   run by the model round trip inside Coq (Run.C09.judge, cases KRound / KAtom: print, parse, evaluate, compare)
   and by the Go round trip. *)
Theorem parse_print_const_partial :
  forall (parse_float : list Z -> option Z) (fmt_float fmt_time fmt_dur : Z -> list Z)
         (f : nat) (s rest : list Z),
  Forall (fun c => 0 <= c < 256) s ->
  (* a string constant with valid UTF-8 content *)
  (forall e, escape_string s = Some e ->
     parse_term parse_float (S f) (print fmt_float fmt_time fmt_dur (mk_string s) ++ rest)
     = POk (PConst (mk_string s)) rest)
  /\
  (* a byte-string constant *)
  parse_term parse_float (S f) (print fmt_float fmt_time fmt_dur (mk_bytes s) ++ rest)
  = POk (PConst (mk_bytes s)) rest.
Proof.
  intros pf ff ft fd f s rest Hb. split.
  - intros e He. exact (parse_print_string_lemma pf ff ft fd f s e rest Hb He).
  - exact (parse_print_bytes_lemma pf ff ft fd f s rest Hb).
Qed.
Print Assumptions parse_print_const_partial.

(* ---- what failed before the fixes ------------------------------------------- *)
(* F5: Escape before the fix wrote a carriage return as it is; Unescape reads it as a newline *)
Theorem cr_round_trip_refuted :
  exists s e, escape_string_prefix s = Some e /\ unescape false e <> Some s.
Proof. exists [97; 13; 98], [97; 13; 98]. split; [reflexivity | vm_compute; discriminate]. Qed.
Print Assumptions cr_round_trip_refuted.

(* F6: the printer before the fix wrote the float 1.0 as "1", which is read as the number 1 *)
Theorem float_int_round_trip_refuted :
  exists (fmt_float : Z -> list Z) (bits : Z),
    fmt_float bits = [49] /\
    parse_term_all (fun _ => None) (print_prefix fmt_float (fun _ => []) (fun _ => []) (mk_float bits))
    = POk (PConst (mk_number 1)) [] /\
    mk_number 1 <> mk_float bits.
Proof.
  exists (fun _ => [49]), 4607182418800017408. split; [reflexivity|]. split; [vm_compute; reflexivity|].
  vm_compute. discriminate.
Qed.
Print Assumptions float_int_round_trip_refuted.

(* N18: "[-" is a token of its own; the text [-1, 2] (list printing before the fix) is not a term,
   the text with the blank the repaired printer writes is the list *)
Theorem bracket_minus_refuted :
  parse_term_all (fun _ => None) (bs "[-1, 2]"%string) = PErr /\
  parse_term_all (fun _ => None) (print (fun _ => []) (fun _ => []) (fun _ => []) (build (EList [ENum (-1); ENum 2])))
  = POk (PApply s_fn_list [PConst (mk_number (-1)); PConst (mk_number 2)]) [].
Proof. split; vm_compute; reflexivity. Qed.
Print Assumptions bracket_minus_refuted.
