(* C09 - printing then parsing returns the same term, atom or clause.
   Property theorems only; the proofs are in Serde/{Escape,Lexer,Parse,ParseTok,ParseConst,
   ParseAtom,ParseToy,ClauseTok,ClauseCell,Clause,ClauseParse,ClauseRound,ClauseFinal}Proofs.v.
   Models: Serde/Escape.v (ast/serde.go), Serde/Lexer.v (the lexer rules of
   parse/gen/Mangle.g4), Serde/Parse.v (rule `term` with the visitors of
   parse/parse.go and the constructor cases of functional.EvalApplyFn),
   Term/Print.v (Constant.String, owned by C08), Serde/Clause.v (Clause.String, Transform.String
   and the String methods of the premises), Serde/ClauseParse.v (rules `clause`, `clauseBody`,
   `literalOrFml`, `transform`, `letStmt` with their visitors). Bytes are integers 0..255. *)
From Coq Require Import List ZArith Bool String.
From MV Require Import Serde.Escape Serde.EscapeProofs Serde.Lexer Serde.LexerProofs Serde.Parse Serde.ParseProofs.
From MV Require Import Serde.ParseTokProofs Serde.ParseConstProofs Serde.ParseAtomProofs Serde.ParseToyProofs.
From MV Require Import Term.Expr Term.Atom Term.AtomPrintProofs Term.PrintInjProofs.
From MV Require Import Serde.Clause Serde.ClauseParse Serde.ClauseProofs Serde.ClauseParseProofs Serde.ClauseRoundProofs
  Serde.ClauseFinalProofs.
Import ListNotations.
Open Scope Z_scope.

(* ---- escaping ------------------------------------------------------------- *)
(* byte strings: every byte list *)
Theorem unescape_escape_bytes :
  forall s : list Z, Forall (fun c => 0 <= c < 256) s ->
  unescape true (escape_bytes s) = Some s.
Proof. exact unescape_escape_bytes_lemma. Qed.
Print Assumptions unescape_escape_bytes.

(* strings: Escape succeeds exactly on valid UTF-8 (escape_string s = Some e);
   control characters, quotes, backslashes, CR and every code point included *)
Theorem unescape_escape_string :
  forall s e : list Z, Forall (fun c => 0 <= c < 256) s ->
  escape_string s = Some e -> unescape false e = Some s.
Proof. exact unescape_escape_string_lemma. Qed.
Print Assumptions unescape_escape_string.

Example unescape_escape_string_nonvacuous :
  exists e, escape_string [97; 13; 10; 34; 92; 0; 195; 169; 240; 159; 152; 128] = Some e.
Proof. eexists. vm_compute. reflexivity. Qed.

(* UTF-8: the encoder gives back the bytes the decoder read *)
Theorem utf8_encode_decode :
  forall (s : list Z) (r : Z) (n : nat), utf8_decode s = Some (r, n) ->
  128 <= r <= max_rune /\ firstn n s = utf8_encode r /\ (n <= List.length s)%nat /\ (1 <= n)%nat.
Proof. exact utf8_decode_encode. Qed.
Print Assumptions utf8_encode_decode.

Example utf8_encode_decode_nonvacuous : utf8_decode [240; 159; 152; 128; 65] = Some (128512, 4%nat).
Proof. reflexivity. Qed.

(* ---- the lexer ------------------------------------------------------------- *)
(* the printed literal is exactly one token, whatever follows it *)
Theorem lex_string_exact :
  forall s e rest : list Z, Forall (fun c => 0 <= c < 256) s -> escape_string s = Some e ->
  next_token (34 :: e ++ 34 :: rest) = LTok (TString e) rest.
Proof. exact next_token_string. Qed.
Print Assumptions lex_string_exact.

Theorem lex_bytestring_exact :
  forall s rest : list Z, Forall (fun c => 0 <= c < 256) s ->
  next_token (98 :: 34 :: escape_bytes s ++ 34 :: rest) = LTok (TByteString (escape_bytes s)) rest.
Proof. exact next_token_bytestring. Qed.
Print Assumptions lex_bytestring_exact.

(* ---- print, then parse ------------------------------------------------------
   Library code enters through six oracles: fmt_float / fmt_time / fmt_dur
   (strconv.FormatFloat 'f' -1, time.Format RFC3339Nano, time.Duration.String) and
   parse_float / parse_time / parse_dur (strconv.ParseFloat, time.Parse RFC3339,
   time.ParseDuration). Laws assumed about them (sampled on the real library by every
   Go round trip of the check): the parser reads back what the formatter wrote; the
   repaired FormatFloat64 writes a finite float as -?digits.digits; the texts of times
   and durations contain no quote, backslash or carriage return.
   Domain: [wf] (built by the public constructors), [valid] (lexer-valid names, valid
   UTF-8 strings, bytes 0..255, finite floats), [canon] (every map / struct lists its
   entries by strictly descending key hash: the order ast.Map / ast.Struct leave them in;
   without it the text parses to the re-sorted constant, see map_order_round_trip_refuted).
   Follow set: the printed constant is followed by nothing or by a character that cannot
   occur in a name or number (C08's condition: not a letter, digit, . - _ ~ % /).
   Fuel: that of parse_term_all, 2 * length of the text + 2, or more. *)

(* every kind of constant - names, strings, byte strings, numbers (every int64), floats,
   times, durations, pairs, lists, maps, structs - at any nesting depth *)
Theorem parse_print_const :
  forall (parse_float parse_time parse_dur : list Z -> option Z) (fmt_float fmt_time fmt_dur : Z -> list Z),
  (forall b, float_special b = false -> parse_float (format_float64 fmt_float b) = Some b) ->
  (forall b, float_special b = false ->
     exists sign ip fp, format_float64 fmt_float b = sign ++ ip ++ 46 :: fp /\
       (sign = [] \/ sign = [45]) /\ ip <> [] /\ fp <> [] /\
       forallb is_digit ip = true /\ forallb is_digit fp = true) ->
  (forall n, int64_ok n = true -> ~ In 34 (fmt_time n) /\ ~ In 92 (fmt_time n) /\ ~ In 13 (fmt_time n)) ->
  (forall n, int64_ok n = true -> ~ In 34 (fmt_dur n) /\ ~ In 92 (fmt_dur n) /\ ~ In 13 (fmt_dur n)) ->
  (forall n, int64_ok n = true -> parse_time (fmt_time n) = Some n) ->
  (forall n, int64_ok n = true -> parse_dur (fmt_dur n) = Some n) ->
  forall (c : const) (rest : list Z) (fuel : nat),
  wf c = true -> valid c = true -> canon c = true ->
  match rest with [] => True | x :: _ => constant_char x || (x =? 47) = false end ->
  (fuel_for (print fmt_float fmt_time fmt_dur c ++ rest) <= fuel)%nat ->
  exists t, parse_term parse_float fuel (print fmt_float fmt_time fmt_dur c ++ rest) = POk t rest
            /\ eval parse_time parse_dur t = Some c.
Proof. exact parse_print_const_lemma. Qed.
Print Assumptions parse_print_const.

(* the same through parse_term_all (what the correspondence check runs): the whole text *)
Theorem parse_all_print_const :
  forall (parse_float parse_time parse_dur : list Z -> option Z) (fmt_float fmt_time fmt_dur : Z -> list Z),
  (forall b, float_special b = false -> parse_float (format_float64 fmt_float b) = Some b) ->
  (forall b, float_special b = false ->
     exists sign ip fp, format_float64 fmt_float b = sign ++ ip ++ 46 :: fp /\
       (sign = [] \/ sign = [45]) /\ ip <> [] /\ fp <> [] /\
       forallb is_digit ip = true /\ forallb is_digit fp = true) ->
  (forall n, int64_ok n = true -> ~ In 34 (fmt_time n) /\ ~ In 92 (fmt_time n) /\ ~ In 13 (fmt_time n)) ->
  (forall n, int64_ok n = true -> ~ In 34 (fmt_dur n) /\ ~ In 92 (fmt_dur n) /\ ~ In 13 (fmt_dur n)) ->
  (forall n, int64_ok n = true -> parse_time (fmt_time n) = Some n) ->
  (forall n, int64_ok n = true -> parse_dur (fmt_dur n) = Some n) ->
  forall c : const, wf c = true -> valid c = true -> canon c = true ->
  exists t, parse_term_all parse_float (print fmt_float fmt_time fmt_dur c) = POk t []
            /\ eval parse_time parse_dur t = Some c.
Proof. exact parse_all_print_const. Qed.
Print Assumptions parse_all_print_const.

(* the six laws are satisfiable together (decimal formatters and readers), and the domain
   contains every kind of constant, nested, with the sign after a bracket (N18), MinInt64,
   a carriage return (F5), multi-byte runes, a map inside a struct inside a map *)
Example parse_print_const_nonvacuous :
  (exists (parse_float parse_time parse_dur : list Z -> option Z) (fmt_float fmt_time fmt_dur : Z -> list Z),
    (forall b, float_special b = false -> parse_float (format_float64 fmt_float b) = Some b) /\
    (forall b, float_special b = false ->
       exists sign ip fp, format_float64 fmt_float b = sign ++ ip ++ 46 :: fp /\
         (sign = [] \/ sign = [45]) /\ ip <> [] /\ fp <> [] /\
         forallb is_digit ip = true /\ forallb is_digit fp = true) /\
    (forall n, int64_ok n = true -> ~ In 34 (fmt_time n) /\ ~ In 92 (fmt_time n) /\ ~ In 13 (fmt_time n)) /\
    (forall n, int64_ok n = true -> ~ In 34 (fmt_dur n) /\ ~ In 92 (fmt_dur n) /\ ~ In 13 (fmt_dur n)) /\
    (forall n, int64_ok n = true -> parse_time (fmt_time n) = Some n) /\
    (forall n, int64_ok n = true -> parse_dur (fmt_dur n) = Some n)) /\
  let c := build (EMap [(EName (bs "/a/b-1"), EList [ENum (-9223372036854775808); EFloat 4607182418800017408; EList []]);
                        (EStr [104; 195; 169; 34; 13; 240; 159; 152; 128], EPair (ETime 0) (EDur 5));
                        (EBytes [0; 34; 200; 92], EStruct [(EName (bs "/k"), EMap [(ENum (-1), EName (bs "/x"))]);
                                                           (EName (bs "/l"), EMap [])])]) in
  wf c = true /\ valid c = true /\ canon c = true /\
  (exists t, parse_term_all toy_parse_float (print toy_float print_number print_number c) = POk t []
             /\ eval toy_parse_int toy_parse_int t = Some c).
Proof.
  split.
  - exists toy_parse_float, toy_parse_int, toy_parse_int, toy_float, print_number, print_number.
    destruct toy_parse_laws as (A & B & C & D).
    split; [exact A|]. split; [exact B|]. split; [exact C|]. split; [exact C|]. split; [exact D|exact D].
  - cbv zeta. split; [vm_compute; reflexivity|]. split; [vm_compute; reflexivity|]. split; [vm_compute; reflexivity|].
    eexists. split; [vm_compute; reflexivity|vm_compute; reflexivity].
Qed.

(* string and byte-string constants need no condition on what follows and fuel 1
   (the former parse_print_const_partial) *)
Theorem parse_print_string_bytes :
  forall (parse_float : list Z -> option Z) (fmt_float fmt_time fmt_dur : Z -> list Z)
         (f : nat) (s rest : list Z),
  Forall (fun c => 0 <= c < 256) s ->
  (* a string constant with valid UTF-8 content *)
  (forall e, escape_string s = Some e ->
     parse_term parse_float (S f) (print fmt_float fmt_time fmt_dur (mk_string s) ++ rest)
     = POk (PConst (mk_string s)) rest)
  /\
  (* a byte-string constant *)
  parse_term parse_float (S f) (print fmt_float fmt_time fmt_dur (mk_bytes s) ++ rest)
  = POk (PConst (mk_bytes s)) rest.
Proof.
  intros pf ff ft fd f s rest Hb. split.
  - intros e He. exact (parse_print_string_lemma pf ff ft fd f s e rest Hb He).
  - exact (parse_print_bytes_lemma pf ff ft fd f s rest Hb).
Qed.
Print Assumptions parse_print_string_bytes.

(* ---- atoms -------------------------------------------------------------------
   Atom.String of NewAtom(sym, args): the predicate name is one NAME token
   ([pred_lex_valid]: 'a'..'z' ( NAME_CHAR | '.' NAME_CHAR )*, not a keyword), every
   argument is a constant of the domain above or a variable that is one VARIABLE token
   ([arg_ok]; [var_lex_valid]: '_' or 'A'..'Z' ( LETTER | DIGIT )*, not Package / Use / Decl).
   The parser returns sym(l) with one parsed argument per printed one: the variable
   itself, or a constructor expression that evaluates to the constant. Any text may
   follow the closing parenthesis. *)
Theorem parse_print_atom :
  forall (parse_float parse_time parse_dur : list Z -> option Z) (fmt_float fmt_time fmt_dur : Z -> list Z),
  (forall b, float_special b = false -> parse_float (format_float64 fmt_float b) = Some b) ->
  (forall b, float_special b = false ->
     exists sign ip fp, format_float64 fmt_float b = sign ++ ip ++ 46 :: fp /\
       (sign = [] \/ sign = [45]) /\ ip <> [] /\ fp <> [] /\
       forallb is_digit ip = true /\ forallb is_digit fp = true) ->
  (forall n, int64_ok n = true -> ~ In 34 (fmt_time n) /\ ~ In 92 (fmt_time n) /\ ~ In 13 (fmt_time n)) ->
  (forall n, int64_ok n = true -> ~ In 34 (fmt_dur n) /\ ~ In 92 (fmt_dur n) /\ ~ In 13 (fmt_dur n)) ->
  (forall n, int64_ok n = true -> parse_time (fmt_time n) = Some n) ->
  (forall n, int64_ok n = true -> parse_dur (fmt_dur n) = Some n) ->
  forall (sym : list Z) (args : list bterm) (rest : list Z) (fuel : nat),
  pred_lex_valid sym = true ->
  forallb (fun a => match a with
                    | TConst c => wf c && valid c && canon c
                    | TVar x => var_lex_valid x
                    end) args = true ->
  (fuel_for (print_atom fmt_float fmt_time fmt_dur (new_atom sym args) ++ rest) <= fuel)%nat ->
  exists l, parse_term parse_float fuel (print_atom fmt_float fmt_time fmt_dur (new_atom sym args) ++ rest)
            = POk (PApply sym l) rest
            /\ Forall2 (fun a p => match a with
                                   | TConst c => eval parse_time parse_dur p = Some c
                                   | TVar x => p = PVar x
                                   end) args l.
Proof. exact parse_print_atom_lemma. Qed.
Print Assumptions parse_print_atom.

Example parse_print_atom_nonvacuous :
  let args := [TConst (build (EList [ENum (-3); EStr (bs "x,y)")])); TVar (bs "X1"); TVar (bs "_");
               TConst (mk_name (bs "/a")); TConst (build (EMap [(ENum 1, ETime 7); (ENum 2, EFloat 0)]))] in
  pred_lex_valid (bs "foo.bar:baz_1") = true /\
  forallb (fun a => match a with
                    | TConst c => wf c && valid c && canon c
                    | TVar x => var_lex_valid x
                    end) args = true /\
  (exists l, parse_term_all toy_parse_float (print_atom toy_float print_number print_number (new_atom (bs "foo.bar:baz_1") args))
             = POk (PApply (bs "foo.bar:baz_1") l) [] /\ List.length l = 5%nat).
Proof.
  cbv zeta. split; [vm_compute; reflexivity|]. split; [vm_compute; reflexivity|].
  eexists. split; [vm_compute; reflexivity|vm_compute; reflexivity].
Qed.

(* ---- the clause level ----------------------------------------------------------
   Clause.String of a clause (Serde/Clause.v: head atom; body of atoms, negated atoms,
   equalities, inequalities - the built-in comparisons are atoms :lt :le :gt :ge for the printer;
   transforms `|> do f(..), let X = f(..) |> let ...` with any number of stages, fix N50; the
   " ." after a trailing name constant, fix N53), then parse.Clause (Serde/ClauseParse.v).
   Base terms are constants of the domain of parse_print_const, variables ([var_lex_valid]) and
   function applications fn:name(args) at any nesting depth.
   Domain [clause_ok] (Serde/ClauseRoundProofs.v): predicate symbols are one NAME token that does not
   start with "fn:" ([name_lex_valid]: ':'? 'a'..'z' ( NAME_CHAR | '.' NAME_CHAR )*, without the
   colon not a keyword - so the printed comparison atoms :lt :le :gt :ge are inside), function
   symbols one that does; a clause with Premises = nil has no transform, one with premises has
   at least one; every transform stage has at least one statement and `do` only as its first;
   the variable of a let-statement is a VARIABLE token.
   The parser returns a clause that denotes the printed one ([clause_denotes]): same symbols,
   same shape, every variable itself, every constant a constructor expression that evaluates to it.
   What may follow the final '.': nothing, or a character that is no NAME_CHAR.
   Fuel: that of parse_clause_text (what the correspondence check runs), 2 * length + 2, or more.

   _partial: what the model (hence the theorem) does not have - temporal annotations `@[..]` on
   the head or a literal and the temporal operators (ast.Clause.HeadTime, ast.TemporalLiteral),
   the long arrow U+27F8 for `:-`. Everything the clause type of Serde/Clause.v can express is
   covered; in particular the text right before the final '.' may be an atom, a function
   application, a variable (`X = Y.`: the lexer reads `Y.` + a non-NAME_CHAR as VARIABLE, '.'),
   a number or float (`X = 1.`, `X = 1.5.`), a name (" ." of N53), any other constant. *)
Theorem parse_print_clause_partial :
  forall (parse_float parse_time parse_dur : list Z -> option Z) (fmt_float fmt_time fmt_dur : Z -> list Z),
  (forall b, float_special b = false -> parse_float (format_float64 fmt_float b) = Some b) ->
  (forall b, float_special b = false ->
     exists sign ip fp, format_float64 fmt_float b = sign ++ ip ++ 46 :: fp /\
       (sign = [] \/ sign = [45]) /\ ip <> [] /\ fp <> [] /\
       forallb is_digit ip = true /\ forallb is_digit fp = true) ->
  (forall n, int64_ok n = true -> ~ In 34 (fmt_time n) /\ ~ In 92 (fmt_time n) /\ ~ In 13 (fmt_time n)) ->
  (forall n, int64_ok n = true -> ~ In 34 (fmt_dur n) /\ ~ In 92 (fmt_dur n) /\ ~ In 13 (fmt_dur n)) ->
  (forall n, int64_ok n = true -> parse_time (fmt_time n) = Some n) ->
  (forall n, int64_ok n = true -> parse_dur (fmt_dur n) = Some n) ->
  forall (c : clause) (rest : list Z) (fuel : nat),
  clause_ok c = true ->
  match rest with [] => True | x :: _ => lex_name_char x = false end ->
  (fuel_for (print_clause fmt_float fmt_time fmt_dur c ++ rest) <= fuel)%nat ->
  exists q, parse_clause parse_float fuel (print_clause fmt_float fmt_time fmt_dur c ++ rest) = ROk q rest
            /\ clause_denotes (eval parse_time parse_dur) c q.
Proof. exact parse_print_clause_lemma. Qed.
Print Assumptions parse_print_clause_partial.

(* the domain contains: negation, a comparison atom, nested function applications, a compound
   constant, an inequality that ends the body with a name constant (N53), bodies that end with a
   variable / a number / a list, a three-stage transform (N50), a fact *)
Example parse_print_clause_nonvacuous :
  let c1 := Clause (CAtom (bs "p") [BVar (bs "X"); BConst (build (EList [ENum (-1); EStr (bs "a.b")]))])
              (Some [LAtom (CAtom (bs "q.r") [BVar (bs "X"); BConst (mk_number 3)]); LNeg (CAtom (bs "r") [BVar (bs "_")]);
                     LAtom (CAtom (bs ":lt") [BVar (bs "X"); BConst (mk_number 7)]);
                     LEq (BVar (bs "Y")) (BApp (bs "fn:plus") [BVar (bs "X"); BApp (bs "fn:f") []]);
                     LIneq (BVar (bs "X")) (BConst (mk_name (bs "/a")))]) [] in
  let c2 := Clause (CAtom (bs "p") [BVar (bs "X")])
              (Some [LAtom (CAtom (bs "q") [BVar (bs "X")]); LEq (BVar (bs "Z")) (BVar (bs "X"))])
              [[TStmt None (bs "fn:group_by") [BVar (bs "X")]; TStmt (Some (bs "Y")) (bs "fn:sum") [BVar (bs "Z")]];
               [TStmt (Some (bs "W")) (bs "fn:plus") [BVar (bs "Y"); BConst (mk_number 1)]];
               [TStmt None (bs "fn:f") []]] in
  clause_ok c1 = true /\ clause_ok c2 = true /\ clause_ok (Clause (CAtom (bs "p") []) None []) = true /\
  clause_ok (Clause (CAtom (bs "p") [BVar (bs "X")]) (Some [LEq (BVar (bs "X")) (BVar (bs "Y"))]) []) = true /\
  clause_ok (Clause (CAtom (bs "p") [BVar (bs "X")]) (Some [LIneq (BVar (bs "X")) (BConst (mk_number (-5)))]) []) = true /\
  clause_ok (Clause (CAtom (bs "p") [BVar (bs "X")]) (Some [LEq (BVar (bs "X")) (BConst (build (EList [ENum 1; ENum 2])))]) []) = true /\
  match parse_clause_text toy_parse_float (print_clause toy_float print_number print_number c1) with
  | ROk q [] => List.length (match pc_prem q with Some l => l | None => [] end) = 5%nat
  | _ => False
  end /\
  match parse_clause_text toy_parse_float (print_clause toy_float print_number print_number c2) with
  | ROk q [] => List.length (pc_trans q) = 3%nat
  | _ => False
  end.
Proof. cbv zeta. repeat split; vm_compute; reflexivity. Qed.

(* ---- what failed before the fixes ------------------------------------------- *)
(* F5: Escape before the fix wrote a carriage return as it is; Unescape reads it as a newline *)
Theorem cr_round_trip_refuted :
  exists s e, escape_string_prefix s = Some e /\ unescape false e <> Some s.
Proof. exists [97; 13; 98], [97; 13; 98]. split; [reflexivity | vm_compute; discriminate]. Qed.
Print Assumptions cr_round_trip_refuted.

(* F6: the printer before the fix wrote the float 1.0 as "1", which is read as the number 1 *)
Theorem float_int_round_trip_refuted :
  exists (fmt_float : Z -> list Z) (bits : Z),
    fmt_float bits = [49] /\
    parse_term_all (fun _ => None) (print_prefix fmt_float (fun _ => []) (fun _ => []) (mk_float bits))
    = POk (PConst (mk_number 1)) [] /\
    mk_number 1 <> mk_float bits.
Proof.
  exists (fun _ => [49]), 4607182418800017408. split; [reflexivity|]. split; [vm_compute; reflexivity|].
  vm_compute. discriminate.
Qed.
Print Assumptions float_int_round_trip_refuted.

(* N18: "[-" is a token of its own; the text [-1, 2] (list printing before the fix) is not a term,
   the text with the blank the repaired printer writes is the list *)
Theorem bracket_minus_refuted :
  parse_term_all (fun _ => None) (bs "[-1, 2]"%string) = PErr /\
  parse_term_all (fun _ => None) (print (fun _ => []) (fun _ => []) (fun _ => []) (build (EList [ENum (-1); ENum 2])))
  = POk (PApply s_fn_list [PConst (mk_number (-1)); PConst (mk_number 2)]) [].
Proof. split; vm_compute; reflexivity. Qed.
Print Assumptions bracket_minus_refuted.

(* a map whose cells are not in the order of ast.Map (built with MapCons by hand: well-formed,
   valid, not [canon]) prints to a text that parses and evaluates to the re-sorted map *)
Theorem map_order_round_trip_refuted :
  exists c : const, wf c = true /\ valid c = true /\ canon c = false /\
    exists t c', parse_term_all (fun _ => None) (print (fun _ => []) (fun _ => []) (fun _ => []) c) = POk t [] /\
                 eval (fun _ => None) (fun _ => None) t = Some c' /\ c' <> c /\ canon c' = true.
Proof.
  exists (map_cons (mk_number 1) (mk_name (bs "/x")) (map_cons (mk_number 2) (mk_name (bs "/y")) map_nil)).
  split; [vm_compute; reflexivity|]. split; [vm_compute; reflexivity|]. split; [vm_compute; reflexivity|].
  eexists. eexists. split; [vm_compute; reflexivity|]. split; [vm_compute; reflexivity|].
  split; [|vm_compute; reflexivity]. vm_compute. intro H. discriminate H.
Qed.
Print Assumptions map_order_round_trip_refuted.

(* a variable named like one of the keywords Package / Use / Decl (C08's var_valid accepts it) is a
   keyword token: the printed atom is not a term - hence [var_lex_valid] in parse_print_atom *)
Theorem keyword_variable_refuted :
  var_valid (bs "Use") = true /\ var_lex_valid (bs "Use") = false /\
  parse_term_all (fun _ => None)
    (print_atom (fun _ => []) (fun _ => []) (fun _ => []) (new_atom (bs "p") [TVar (bs "Use")])) = PErr.
Proof. split; [vm_compute; reflexivity|]. split; vm_compute; reflexivity. Qed.
Print Assumptions keyword_variable_refuted.

(* N50: Transform.String before the fix printed the first stage only: the text of a clause with
   a chained transform parses - to a clause with one stage *)
Theorem transform_chain_refuted :
  let c := Clause (CAtom (bs "p") [BVar (bs "X")]) (Some [LAtom (CAtom (bs "q") [BVar (bs "X")])])
             [[TStmt None (bs "fn:group_by") [BVar (bs "X")]; TStmt (Some (bs "Y")) (bs "fn:sum") [BVar (bs "X")]];
              [TStmt (Some (bs "Z")) (bs "fn:plus") [BVar (bs "Y"); BConst (mk_number 1)]]] in
  clause_ok c = true /\ List.length (cl_trans c) = 2%nat /\
  match parse_clause_text (fun _ => None)
          (print_clause_gen (fun _ => []) (fun _ => []) (fun _ => []) false true c) with
  | ROk q [] => List.length (pc_trans q) = 1%nat
  | _ => False
  end /\
  match parse_clause_text (fun _ => None) (print_clause (fun _ => []) (fun _ => []) (fun _ => []) c) with
  | ROk q [] => List.length (pc_trans q) = 2%nat
  | _ => False
  end.
Proof. cbv zeta. repeat split; vm_compute; reflexivity. Qed.
Print Assumptions transform_chain_refuted.

(* N53: Clause.String before the fix wrote "X = /a." - the lexer takes the '.' into the name
   constant and the clause does not parse; with the blank it does *)
Theorem trailing_name_refuted :
  let c := Clause (CAtom (bs "p") [BVar (bs "X")])
             (Some [LAtom (CAtom (bs "q") [BVar (bs "X")]); LEq (BVar (bs "X")) (BConst (mk_name (bs "/a")))]) [] in
  clause_ok c = true /\
  parse_clause_text (fun _ => None)
    (print_clause_gen (fun _ => []) (fun _ => []) (fun _ => []) true false c) = RErr /\
  match parse_clause_text (fun _ => None) (print_clause (fun _ => []) (fun _ => []) (fun _ => []) c) with
  | ROk q [] => True
  | _ => False
  end.
Proof. cbv zeta. split; [vm_compute; reflexivity|]. split; [vm_compute; reflexivity|]. vm_compute. exact I. Qed.
Print Assumptions trailing_name_refuted.
