(* C13 - the temporal store answers by the pointwise meaning of intervals.
   Property theorems only; each is closed by an exact reference to a lemma. *)
From Coq Require Import List ZArith Bool Permutation Lia.
From MV Require Import Temporal.ITree Temporal.ITreeProofs Temporal.TStore Temporal.CoalesceProofs
  Temporal.TStoreProofs Temporal.Semantics Temporal.TStoreHistProofs.
Import ListNotations.
Open Scope Z_scope.

(* ---------------- the interval tree, every insertion order, every rotation *)
Theorem insert_keeps_every_interval : forall t i, Permutation (elements (insert t i)) (i :: elements t).
Proof. exact insert_elements. Qed.
Print Assumptions insert_keeps_every_interval.

Theorem insert_preserves_invariant : forall t i, inv t -> inv (insert t i).
Proof. exact insert_inv. Qed.
Print Assumptions insert_preserves_invariant.

Theorem point_query_exact : forall t x, inv t -> qpoint t x = filter (fun i => contains i x) (elements t).
Proof. exact qpoint_exact. Qed.
Print Assumptions point_query_exact.

Theorem range_query_exact : forall t s e, inv t -> qrange t s e = filter (fun i => overlaps i s e) (elements t).
Proof. exact qrange_exact. Qed.
Print Assumptions range_query_exact.

Theorem duplicate_search_exact : forall t i, inv t -> find_exact t i = existsb (iv_eqb i) (elements t).
Proof. exact find_exact_spec. Qed.
Print Assumptions duplicate_search_exact.

(* key comparison with the int64 sentinels is the pointwise meaning of a closed,
   possibly unbounded interval *)
Theorem contains_is_pointwise : forall i t, wf_iv i -> minInt64 <= t <= maxInt64 ->
  (contains i t = true <-> holds_at i t).
Proof. exact contains_holds_at. Qed.
Print Assumptions contains_is_pointwise.

(* ---------------- the store: every insertion history *)
(* after any history of Add calls the store invariant holds and the content is
   (a permutation of) the set machine's: valid, non-duplicate pairs below the
   per-atom limit, each once; the pair count is its length (part of store_inv) *)
Theorem store_refines_set_machine : forall lim h,
  let s := run_adds lim h in
  store_inv s /\ limit s = lim /\ Permutation (abs s) (spec_run lim h).
Proof. exact tstore_refines. Qed.
Print Assumptions store_refines_set_machine.

(* Add's answer (added / duplicate / invalid / limit) is the set machine's *)
Theorem add_answers_by_set_semantics : forall lim h a i,
  snd (ts_add (run_adds lim h) a i) = snd (spec_add (spec_run lim h) lim a i).
Proof. exact add_result_refines. Qed.
Print Assumptions add_answers_by_set_semantics.

Theorem point_query_is_filter : forall s q t, store_inv s ->
  ts_facts_at s q t = filter (fun x : atom * iv => matches q (fst x) && contains (snd x) t) (abs s).
Proof. exact facts_at_exact. Qed.
Print Assumptions point_query_is_filter.

Theorem range_query_is_filter : forall s q i, store_inv s ->
  ts_facts_during s q i = filter (fun x : atom * iv => matches q (fst x) && overlaps (snd x) (ks i) (ke i)) (abs s).
Proof. exact facts_during_exact. Qed.
Print Assumptions range_query_is_filter.

Theorem scan_is_filter : forall s q, store_inv s ->
  ts_all_facts s q = filter (fun x : atom * iv => matches q (fst x) && true) (abs s).
Proof. exact all_facts_exact. Qed.
Print Assumptions scan_is_filter.

(* non-vacuity: a reachable store with three atoms' worth of intervals meets store_inv *)
Example store_inv_reachable :
  let s := run_adds 1000 [((1, [7]), (Ts 3, Ts 9)); ((1, [7]), (NegInf, Ts 4)); ((1, [8]), (Ts 5, PosInf)); ((1, [7]), (Ts 3, Ts 9))] in
  store_inv s /\ count s = 3 /\ ts_facts_at s (1, [None]) 4 = [((1, [7]), (NegInf, Ts 4)); ((1, [7]), (Ts 3, Ts 9))].
Proof. split; [apply (tstore_refines 1000)|split; vm_compute; reflexivity]. Qed.

(* ---------------- coalescing *)
(* dom_ok l: every finite interval of l is valid (start <= end) and its start is
   an int64 - nothing else; in particular starts at MinInt64 are covered (fix
   N13: the adjacency test no longer computes a wrapping `Start-1`).
   the set of instants at which the atom holds is unchanged *)
Theorem coalesce_pointset : forall l t,
  (forall i, In i l -> is_concrete i = true -> ks i <= ke i /\ minInt64 <= ks i /\ ks i <= maxInt64) ->
  (covered_iv (coalesce_intervals l) t <-> covered_iv l t).
Proof. exact coalesce_pointset_lemma. Qed.
Print Assumptions coalesce_pointset.

(* any two finite intervals of the result, in result order, are neither
   overlapping nor adjacent: the later one starts at least 2 ns after the
   earlier one ends *)
Theorem coalesce_separated : forall l,
  (forall i, In i l -> is_concrete i = true -> ks i <= ke i /\ minInt64 <= ks i /\ ks i <= maxInt64) ->
  forall l1 x l2 y l3, filter is_concrete (coalesce_intervals l) = l1 ++ x :: l2 ++ y :: l3 ->
  2 <= Z.of_nat (length l) -> ke x + 1 < ks y.
Proof. exact coalesce_separated_lemma. Qed.
Print Assumptions coalesce_separated.

(* through the tree: Coalesce = collect, coalesce, Rebuild *)
Theorem coalesce_through_tree_pointset : forall t tt, it_inv t ->
  (forall i, In i (elements (fst t)) -> is_concrete i = true -> ks i <= ke i /\ minInt64 <= ks i /\ ks i <= maxInt64) ->
  (covered_iv (elements (fst (it_rebuild (coalesce_intervals (elements (fst t)))))) tt <-> covered_iv (elements (fst t)) tt).
Proof. exact coalesce_tree_pointset. Qed.
Print Assumptions coalesce_through_tree_pointset.

(* non-vacuity: the hypothesis holds of a list with starts at MinInt64, an end at
   MaxInt64, an unbounded interval and adjacent / separate finite ones *)
Example dom_ok_nonvacuous :
  let l := [(Ts 1, Ts 3); (Ts 4, Ts 6); (NegInf, Ts 0); (Ts 9, Ts 9); (Ts minInt64, Ts (-7)); (Ts minInt64, Ts (-9)); (Ts 11, Ts maxInt64)] in
  dom_ok l /\
  coalesce_intervals l = [(Ts minInt64, Ts (-7)); (Ts 1, Ts 6); (Ts 9, Ts 9); (Ts 11, Ts maxInt64); (NegInf, Ts 0)].
Proof.
  split; [|vm_compute; reflexivity].
  intros i Hi Hc. simpl in Hi. unfold minInt64, maxInt64.
  repeat (destruct Hi as [<-|Hi]; [cbn in *; try discriminate; repeat split; try reflexivity; try discriminate|]); destruct Hi.
Qed.

(* fix N13. Before the fix the test was `last.End >= curr.Start-1` (model:
   adjacent_prefix, coalesce_intervals_prefix): two finite intervals that both
   start at MinInt64 were not merged although they overlap - `curr.Start-1` wraps *)
Theorem coalesce_minint_refuted :
  coalesce_intervals_prefix [(Ts minInt64, Ts 5); (Ts minInt64, Ts 9)] = [(Ts minInt64, Ts 5); (Ts minInt64, Ts 9)].
Proof. exact coalesce_minint_refuted_lemma. Qed.
Print Assumptions coalesce_minint_refuted.

(* the repaired test merges them *)
Theorem coalesce_minint_merged :
  coalesce_intervals [(Ts minInt64, Ts 5); (Ts minInt64, Ts 9)] = [(Ts minInt64, Ts 9)].
Proof. exact coalesce_minint_merged_lemma. Qed.
Print Assumptions coalesce_minint_merged.

(* the two tests differ only at MinInt64: for a valid `cur` starting within int64
   and an `x` starting after MinInt64 they agree *)
Theorem prefix_test_differs_only_at_minint : forall cur x, minInt64 <= fst cur -> fst cur <= snd cur ->
  minInt64 < fst x -> fst x <= maxInt64 -> adjacent_prefix cur x = adjacent cur x.
Proof. exact adjacent_prefix_agrees_lemma. Qed.
Print Assumptions prefix_test_differs_only_at_minint.

(* ---------------- histories that interleave Add and Coalesce *)
(* op := OpAdd atom interval | OpCoalesce pred; run_ops lim ops folds the model's
   ts_add / ts_coalesce over the history, starting from the empty store.
   Hypothesis written out below: every finite interval handed to Add starts
   within int64 (validity start <= end is Add's own check; ends are free).
   Every reachable state satisfies the store invariant: distinct keys, every
   tree meets the interval tree invariant with exact size and no duplicate,
   and the pair count is exactly the number of stored pairs - in particular the
   arithmetic `count - (before - after)` of Coalesce is exact, because the
   coalesced list is duplicate free and Rebuild inserts every interval of it *)
Theorem mixed_history_invariant : forall lim ops,
  (forall a i, In (OpAdd a i) ops -> is_concrete i = true -> minInt64 <= ks i <= maxInt64) ->
  store_inv (run_ops lim ops).
Proof. exact mixed_history_inv. Qed.
Print Assumptions mixed_history_invariant.

(* coalescing never changes the set of instants at which an atom holds: the
   history and the same history with every Coalesce deleted agree on "a holds
   at t" for every atom and instant, when there is no per-atom limit ... *)
Theorem coalesce_ops_pointset : forall lim ops a t, lim <= 0 ->
  (forall a i, In (OpAdd a i) ops -> is_concrete i = true -> minInt64 <= ks i <= maxInt64) ->
  ((exists i, In (a, i) (abs (run_ops lim ops)) /\ contains i t = true) <->
   (exists i, In (a, i) (abs (run_ops lim (drop_coalesce ops))) /\ contains i t = true)).
Proof. exact coalesce_ops_pointset_lemma. Qed.
Print Assumptions coalesce_ops_pointset.

(* ... and with a limit as long as no Add is refused by it (result code 3) in
   either run (no_limit_refusal s ops: no Add of ops, run from s, returns 3).
   Coalescing frees capacity, so without this hypothesis the two runs can differ:
   limit_hypothesis_needed below *)
Theorem coalesce_ops_pointset_no_refusal : forall lim ops a t,
  (forall a i, In (OpAdd a i) ops -> is_concrete i = true -> minInt64 <= ks i <= maxInt64) ->
  no_limit_refusal (ts_empty lim) ops -> no_limit_refusal (ts_empty lim) (drop_coalesce ops) ->
  ((exists i, In (a, i) (abs (run_ops lim ops)) /\ contains i t = true) <->
   (exists i, In (a, i) (abs (run_ops lim (drop_coalesce ops))) /\ contains i t = true)).
Proof. exact coalesce_ops_pointset_norefusal_lemma. Qed.
Print Assumptions coalesce_ops_pointset_no_refusal.

(* hence a mixed history answers "a holds at t" like the set machine run on its Adds alone *)
Theorem mixed_history_holds_by_set_machine : forall lim ops a t, lim <= 0 ->
  (forall a i, In (OpAdd a i) ops -> is_concrete i = true -> minInt64 <= ks i <= maxInt64) ->
  ((exists i, In (a, i) (abs (run_ops lim ops)) /\ contains i t = true) <->
   (exists i, In (a, i) (spec_run lim (adds_of ops)) /\ contains i t = true)).
Proof. exact mixed_history_set_machine_lemma. Qed.
Print Assumptions mixed_history_holds_by_set_machine.

(* right after Coalesce(p), for every atom of predicate p any two distinct finite
   intervals stored are neither overlapping nor adjacent (distance >= 2) *)
Theorem coalesced_state_separated : forall lim ops p a i j,
  (forall a i, In (OpAdd a i) ops -> is_concrete i = true -> minInt64 <= ks i <= maxInt64) ->
  fst a = p ->
  In (a, i) (abs (run_ops lim (ops ++ [OpCoalesce p]))) -> In (a, j) (abs (run_ops lim (ops ++ [OpCoalesce p]))) ->
  is_concrete i = true -> is_concrete j = true -> i <> j -> ke i + 1 < ks j \/ ke j + 1 < ks i.
Proof. exact coalesced_state_separated_lemma. Qed.
Print Assumptions coalesced_state_separated.

(* the query theorems hold in every reachable state of a mixed history *)
Theorem mixed_history_point_query_is_filter : forall lim ops q t,
  (forall a i, In (OpAdd a i) ops -> is_concrete i = true -> minInt64 <= ks i <= maxInt64) ->
  ts_facts_at (run_ops lim ops) q t =
  filter (fun x : atom * iv => matches q (fst x) && contains (snd x) t) (abs (run_ops lim ops)).
Proof. exact mixed_history_point_query. Qed.
Print Assumptions mixed_history_point_query_is_filter.

Theorem mixed_history_range_query_is_filter : forall lim ops q i,
  (forall a i, In (OpAdd a i) ops -> is_concrete i = true -> minInt64 <= ks i <= maxInt64) ->
  ts_facts_during (run_ops lim ops) q i =
  filter (fun x : atom * iv => matches q (fst x) && overlaps (snd x) (ks i) (ke i)) (abs (run_ops lim ops)).
Proof. exact mixed_history_range_query. Qed.
Print Assumptions mixed_history_range_query_is_filter.

Theorem mixed_history_scan_is_filter : forall lim ops q,
  (forall a i, In (OpAdd a i) ops -> is_concrete i = true -> minInt64 <= ks i <= maxInt64) ->
  ts_all_facts (run_ops lim ops) q = filter (fun x : atom * iv => matches q (fst x) && true) (abs (run_ops lim ops)).
Proof. exact mixed_history_scan. Qed.
Print Assumptions mixed_history_scan_is_filter.

(* pointwise reading: when every interval handed to Add is one ast.NewInterval
   can produce (wf_iv) and t is an int64 instant, the point query returns exactly
   the stored pairs of matching atoms whose interval holds at t *)
Theorem mixed_history_point_query_pointwise : forall lim ops q t a i,
  (forall a i, In (OpAdd a i) ops -> is_concrete i = true -> minInt64 <= ks i <= maxInt64) ->
  (forall a i, In (OpAdd a i) ops -> wf_iv i) -> minInt64 <= t <= maxInt64 ->
  (In (a, i) (ts_facts_at (run_ops lim ops) q t) <->
   In (a, i) (abs (run_ops lim ops)) /\ matches q a = true /\ holds_at i t).
Proof. exact mixed_history_point_query_pointwise_lemma. Qed.
Print Assumptions mixed_history_point_query_pointwise.

(* non-vacuity: a history with Coalesce in the middle, an unbounded interval, a
   duplicate after coalescing and a second atom meets the hypotheses; the
   coalesced store keeps [1,6] [9,9] and the pair count is exact *)
Example mixed_history_nonvacuous :
  let ops := [OpAdd (1, [7]) (Ts 1, Ts 3); OpAdd (1, [7]) (Ts 4, Ts 6); OpAdd (1, [7]) (NegInf, Ts 0);
              OpAdd (1, [8]) (Ts 5, PosInf); OpCoalesce 1; OpAdd (1, [7]) (Ts 9, Ts 9); OpAdd (1, [7]) (Ts 1, Ts 3);
              OpCoalesce 1] in
  (forall a i, In (OpAdd a i) ops -> is_concrete i = true -> minInt64 <= ks i <= maxInt64) /\
  (forall a i, In (OpAdd a i) ops -> wf_iv i) /\
  no_limit_refusal (ts_empty 5) ops /\ no_limit_refusal (ts_empty 5) (drop_coalesce ops) /\
  count (run_ops 5 ops) = 4 /\
  abs (run_ops 5 ops) = [((1, [7]), (NegInf, Ts 0)); ((1, [7]), (Ts 1, Ts 6)); ((1, [7]), (Ts 9, Ts 9)); ((1, [8]), (Ts 5, PosInf))].
Proof.
  split; [|split; [|split; [|split; [|split]]]].
  - intros a i Hi Hc. simpl in Hi.
    repeat (destruct Hi as [E|Hi]; [try discriminate E; injection E as <- <-; try discriminate Hc;
                                     unfold ks, fst, minInt64, maxInt64; lia|]); destruct Hi.
  - intros a i Hi. simpl in Hi.
    repeat (destruct Hi as [E|Hi]; [try discriminate E; injection E as <- <-; split; cbn [fst snd]; discriminate|]); destruct Hi.
  - vm_compute. repeat split; discriminate.
  - vm_compute. repeat split; discriminate.
  - vm_compute. reflexivity.
  - vm_compute. reflexivity.
Qed.

(* the limit hypothesis of coalesce_ops_pointset is needed: Coalesce frees
   capacity. With limit 2 the third Add is accepted after coalescing and refused
   (code 3) without, so the atom holds at 10 in one run only *)
Theorem limit_hypothesis_needed :
  let ops := [OpAdd (1, [7]) (Ts 1, Ts 3); OpAdd (1, [7]) (Ts 4, Ts 6); OpCoalesce 1; OpAdd (1, [7]) (Ts 10, Ts 12)] in
  abs (run_ops 2 ops) = [((1, [7]), (Ts 1, Ts 6)); ((1, [7]), (Ts 10, Ts 12))] /\
  abs (run_ops 2 (drop_coalesce ops)) = [((1, [7]), (Ts 1, Ts 3)); ((1, [7]), (Ts 4, Ts 6))].
Proof. split; vm_compute; reflexivity. Qed.
Print Assumptions limit_hypothesis_needed.
