(* C13 - the temporal store answers by the pointwise meaning of intervals.
   Property theorems only; each is closed by an exact reference to a lemma. *)
From Coq Require Import List ZArith Bool Permutation.
From MV Require Import Temporal.ITree Temporal.ITreeProofs Temporal.TStore Temporal.CoalesceProofs
  Temporal.TStoreProofs Temporal.Semantics.
Import ListNotations.
Open Scope Z_scope.

(* ---------------- the interval tree, every insertion order, every rotation *)
Theorem insert_keeps_every_interval : forall t i, Permutation (elements (insert t i)) (i :: elements t).
Proof. exact insert_elements. Qed.
Print Assumptions insert_keeps_every_interval.

Theorem insert_preserves_invariant : forall t i, inv t -> inv (insert t i).
Proof. exact insert_inv. Qed.
Print Assumptions insert_preserves_invariant.

Theorem point_query_exact : forall t x, inv t -> qpoint t x = filter (fun i => contains i x) (elements t).
Proof. exact qpoint_exact. Qed.
Print Assumptions point_query_exact.

Theorem range_query_exact : forall t s e, inv t -> qrange t s e = filter (fun i => overlaps i s e) (elements t).
Proof. exact qrange_exact. Qed.
Print Assumptions range_query_exact.

Theorem duplicate_search_exact : forall t i, inv t -> find_exact t i = existsb (iv_eqb i) (elements t).
Proof. exact find_exact_spec. Qed.
Print Assumptions duplicate_search_exact.

(* key comparison with the int64 sentinels is the pointwise meaning of a closed,
   possibly unbounded interval *)
Theorem contains_is_pointwise : forall i t, wf_iv i -> minInt64 <= t <= maxInt64 ->
  (contains i t = true <-> holds_at i t).
Proof. exact contains_holds_at. Qed.
Print Assumptions contains_is_pointwise.

(* ---------------- the store: every insertion history *)
(* after any history of Add calls the store invariant holds and the content is
   (a permutation of) the set machine's: valid, non-duplicate pairs below the
   per-atom limit, each once; the pair count is its length (part of store_inv) *)
Theorem store_refines_set_machine : forall lim h,
  let s := run_adds lim h in
  store_inv s /\ limit s = lim /\ Permutation (abs s) (spec_run lim h).
Proof. exact tstore_refines. Qed.
Print Assumptions store_refines_set_machine.

(* Add's answer (added / duplicate / invalid / limit) is the set machine's *)
Theorem add_answers_by_set_semantics : forall lim h a i,
  snd (ts_add (run_adds lim h) a i) = snd (spec_add (spec_run lim h) lim a i).
Proof. exact add_result_refines. Qed.
Print Assumptions add_answers_by_set_semantics.

Theorem point_query_is_filter : forall s q t, store_inv s ->
  ts_facts_at s q t = filter (fun x : atom * iv => matches q (fst x) && contains (snd x) t) (abs s).
Proof. exact facts_at_exact. Qed.
Print Assumptions point_query_is_filter.

Theorem range_query_is_filter : forall s q i, store_inv s ->
  ts_facts_during s q i = filter (fun x : atom * iv => matches q (fst x) && overlaps (snd x) (ks i) (ke i)) (abs s).
Proof. exact facts_during_exact. Qed.
Print Assumptions range_query_is_filter.

Theorem scan_is_filter : forall s q, store_inv s ->
  ts_all_facts s q = filter (fun x : atom * iv => matches q (fst x) && true) (abs s).
Proof. exact all_facts_exact. Qed.
Print Assumptions scan_is_filter.

(* non-vacuity: a reachable store with three atoms' worth of intervals meets store_inv *)
Example store_inv_reachable :
  let s := run_adds 1000 [((1, [7]), (Ts 3, Ts 9)); ((1, [7]), (NegInf, Ts 4)); ((1, [8]), (Ts 5, PosInf)); ((1, [7]), (Ts 3, Ts 9))] in
  store_inv s /\ count s = 3 /\ ts_facts_at s (1, [None]) 4 = [((1, [7]), (NegInf, Ts 4)); ((1, [7]), (Ts 3, Ts 9))].
Proof. split; [apply (tstore_refines 1000)|split; vm_compute; reflexivity]. Qed.

(* ---------------- coalescing *)
(* dom_ok l: every finite interval of l is valid (start <= end) and its start is
   an int64 - nothing else; in particular starts at MinInt64 are covered (fix
   N13: the adjacency test no longer computes a wrapping `Start-1`).
   the set of instants at which the atom holds is unchanged *)
Theorem coalesce_pointset : forall l t,
  (forall i, In i l -> is_concrete i = true -> ks i <= ke i /\ minInt64 <= ks i /\ ks i <= maxInt64) ->
  (covered_iv (coalesce_intervals l) t <-> covered_iv l t).
Proof. exact coalesce_pointset_lemma. Qed.
Print Assumptions coalesce_pointset.

(* any two finite intervals of the result, in result order, are neither
   overlapping nor adjacent: the later one starts at least 2 ns after the
   earlier one ends *)
Theorem coalesce_separated : forall l,
  (forall i, In i l -> is_concrete i = true -> ks i <= ke i /\ minInt64 <= ks i /\ ks i <= maxInt64) ->
  forall l1 x l2 y l3, filter is_concrete (coalesce_intervals l) = l1 ++ x :: l2 ++ y :: l3 ->
  2 <= Z.of_nat (length l) -> ke x + 1 < ks y.
Proof. exact coalesce_separated_lemma. Qed.
Print Assumptions coalesce_separated.

(* through the tree: Coalesce = collect, coalesce, Rebuild *)
Theorem coalesce_through_tree_pointset : forall t tt, it_inv t ->
  (forall i, In i (elements (fst t)) -> is_concrete i = true -> ks i <= ke i /\ minInt64 <= ks i /\ ks i <= maxInt64) ->
  (covered_iv (elements (fst (it_rebuild (coalesce_intervals (elements (fst t)))))) tt <-> covered_iv (elements (fst t)) tt).
Proof. exact coalesce_tree_pointset. Qed.
Print Assumptions coalesce_through_tree_pointset.

(* non-vacuity: the hypothesis holds of a list with starts at MinInt64, an end at
   MaxInt64, an unbounded interval and adjacent / separate finite ones *)
Example dom_ok_nonvacuous :
  let l := [(Ts 1, Ts 3); (Ts 4, Ts 6); (NegInf, Ts 0); (Ts 9, Ts 9); (Ts minInt64, Ts (-7)); (Ts minInt64, Ts (-9)); (Ts 11, Ts maxInt64)] in
  dom_ok l /\
  coalesce_intervals l = [(Ts minInt64, Ts (-7)); (Ts 1, Ts 6); (Ts 9, Ts 9); (Ts 11, Ts maxInt64); (NegInf, Ts 0)].
Proof.
  split; [|vm_compute; reflexivity].
  intros i Hi Hc. simpl in Hi. unfold minInt64, maxInt64.
  repeat (destruct Hi as [<-|Hi]; [cbn in *; try discriminate; repeat split; try reflexivity; try discriminate|]); destruct Hi.
Qed.

(* fix N13. Before the fix the test was `last.End >= curr.Start-1` (model:
   adjacent_prefix, coalesce_intervals_prefix): two finite intervals that both
   start at MinInt64 were not merged although they overlap - `curr.Start-1` wraps *)
Theorem coalesce_minint_refuted :
  coalesce_intervals_prefix [(Ts minInt64, Ts 5); (Ts minInt64, Ts 9)] = [(Ts minInt64, Ts 5); (Ts minInt64, Ts 9)].
Proof. exact coalesce_minint_refuted_lemma. Qed.
Print Assumptions coalesce_minint_refuted.

(* the repaired test merges them *)
Theorem coalesce_minint_merged :
  coalesce_intervals [(Ts minInt64, Ts 5); (Ts minInt64, Ts 9)] = [(Ts minInt64, Ts 9)].
Proof. exact coalesce_minint_merged_lemma. Qed.
Print Assumptions coalesce_minint_merged.

(* the two tests differ only at MinInt64: for a valid `cur` starting within int64
   and an `x` starting after MinInt64 they agree *)
Theorem prefix_test_differs_only_at_minint : forall cur x, minInt64 <= fst cur -> fst cur <= snd cur ->
  minInt64 < fst x -> fst x <= maxInt64 -> adjacent_prefix cur x = adjacent cur x.
Proof. exact adjacent_prefix_agrees_lemma. Qed.
Print Assumptions prefix_test_differs_only_at_minint.
