(* C13 - the temporal store answers by the pointwise meaning of intervals.
   Property theorems only; each is closed by an exact reference to a lemma. *)
From Coq Require Import List ZArith Permutation.
From MV Require Import Temporal.ITree Temporal.ITreeProofs.
Import ListNotations.
Open Scope Z_scope.

Theorem insert_keeps_every_interval : forall t i, Permutation (elements (insert t i)) (i :: elements t).
Proof. exact insert_elements. Qed.
Print Assumptions insert_keeps_every_interval.

Theorem insert_preserves_invariant : forall t i, inv t -> inv (insert t i).
Proof. exact insert_inv. Qed.
Print Assumptions insert_preserves_invariant.

Theorem point_query_exact : forall t x, inv t -> qpoint t x = filter (fun i => contains i x) (elements t).
Proof. exact qpoint_exact. Qed.
Print Assumptions point_query_exact.

Theorem range_query_exact : forall t s e, inv t -> qrange t s e = filter (fun i => overlaps i s e) (elements t).
Proof. exact qrange_exact. Qed.
Print Assumptions range_query_exact.

Theorem duplicate_search_exact : forall t i, inv t -> find_exact t i = existsb (iv_eqb i) (elements t).
Proof. exact find_exact_spec. Qed.
Print Assumptions duplicate_search_exact.
