(* C08 - equality, hashing and printing of terms agree.
   Property theorems only; each is closed by an exact reference to a lemma.
   Model: Term/Const.v (ast.Constant as Go stores it, Equals, Hash), Term/Print.v
   (String), Term/MkMap.v (ast.Map / ast.Struct), Term/Atom.v.
   [wf] = built by the public constructors; [valid] = lexer-valid names, valid
   UTF-8 strings, bytes in 0..255, finite floats. *)
From Coq Require Import List ZArith Bool Permutation.
From Coq Require Import Strings.String.
Local Open Scope string_scope.
From MV Require Import Term.Hash Term.Const Term.ConstProofs Term.Print Term.PrintProofs
  Term.EscProofs Term.PrintInjProofs
  Term.MkMap Term.MkMapProofs Term.Expr Term.Atom Term.AtomProofs Term.AtomPrintProofs.
Import ListNotations.
Open Scope Z_scope.

(* ---- Equals is structural equality, hence an equivalence ---------------- *)
Theorem equals_iff_eq : forall c u, wf c = true -> wf u = true -> (equals c u = true <-> c = u).
Proof. exact equals_iff_eq_lemma. Qed.
Print Assumptions equals_iff_eq.

Example equals_iff_eq_nonvacuous :
  let c := build (EMap [(EName (bs "/a"), EList [ENum 1; EFloat 4607182418800017408]); (EStr (bs "k"), EPair (ETime 0) (EDur 5))]) in
  wf c = true /\ equals c c = true /\ equals c (build (EList [ENum 0])) = false.
Proof. vm_compute. repeat split. Qed.

Theorem equals_reflexive : forall c, wf c = true -> equals c c = true.
Proof. exact equals_refl. Qed.
Print Assumptions equals_reflexive.

Theorem equals_symmetric : forall c u, wf c = true -> wf u = true -> equals c u = true -> equals u c = true.
Proof.
  intros c u Wc Wu H. apply (equals_iff_eq_lemma c u Wc Wu) in H. subst u. apply equals_refl; exact Wc.
Qed.
Print Assumptions equals_symmetric.

Theorem equals_transitive : forall a b c, wf a = true -> wf b = true -> wf c = true ->
  equals a b = true -> equals b c = true -> equals a c = true.
Proof.
  intros a b c Wa Wb Wc H1 H2. apply (equals_iff_eq_lemma a b Wa Wb) in H1. subst b. exact H2.
Qed.
Print Assumptions equals_transitive.

(* ---- equal terms: equal hashes (no well-formedness needed: the short-cut) and equal prints *)
Theorem equals_hash : forall c u, equals c u = true -> hash c = hash u.
Proof. exact equals_hash_lemma. Qed.
Print Assumptions equals_hash.

Theorem equals_print : forall (fmt_float fmt_time fmt_dur : Z -> list Z) c u,
  wf c = true -> wf u = true -> equals c u = true ->
  print fmt_float fmt_time fmt_dur c = print fmt_float fmt_time fmt_dur u.
Proof.
  intros ff ft fd c u Wc Wu H. apply (equals_iff_eq_lemma c u Wc Wu) in H. subst u. reflexivity.
Qed.
Print Assumptions equals_print.

(* ---- printing is injective ------------------------------------------------
   Laws of the library formatters assumed (sampled on the real library by the
   harness, runner c08_lib): the fixed float formatter is injective on finite bit
   patterns and writes finite floats with digits, '-' and '.' only; the time and
   duration formatters are injective and never write a quote.
   [valid]: names are lexer-valid, strings are valid UTF-8 (Escape succeeds), bytes
   are in 0..255, floats are finite. *)

(* the printed form is uniquely decodable: a printed constant followed by nothing or
   by a character that cannot occur in a name or number determines the constant and
   the rest of the text *)
Theorem print_uniquely_decodable : forall (fmt_float fmt_time fmt_dur : Z -> list Z),
  (forall b b', float_special b = false -> float_special b' = false ->
     format_float64 fmt_float b = format_float64 fmt_float b' -> b = b') ->
  (forall b, float_special b = false ->
     forallb (fun c => is_digit c || (c =? 45) || (c =? 46)) (fmt_float b) = true) ->
  (forall n n', fmt_time n = fmt_time n' -> n = n') -> (forall n, ~ In 34 (fmt_time n)) ->
  (forall n n', fmt_dur n = fmt_dur n' -> n = n') -> (forall n, ~ In 34 (fmt_dur n)) ->
  forall c d r1 r2, wf c = true -> valid c = true -> wf d = true -> valid d = true ->
  match r1 with [] => True | x :: _ => constant_char x || (x =? 47) = false end ->
  match r2 with [] => True | x :: _ => constant_char x || (x =? 47) = false end ->
  (print fmt_float fmt_time fmt_dur c ++ r1 = print fmt_float fmt_time fmt_dur d ++ r2)%list -> c = d /\ r1 = r2.
Proof. exact print_decodable. Qed.
Print Assumptions print_uniquely_decodable.

(* all kinds of constants, any nesting depth *)
Theorem print_inj : forall (fmt_float fmt_time fmt_dur : Z -> list Z),
  (forall b b', float_special b = false -> float_special b' = false ->
     format_float64 fmt_float b = format_float64 fmt_float b' -> b = b') ->
  (forall b, float_special b = false ->
     forallb (fun c => is_digit c || (c =? 45) || (c =? 46)) (fmt_float b) = true) ->
  (forall n n', fmt_time n = fmt_time n' -> n = n') -> (forall n, ~ In 34 (fmt_time n)) ->
  (forall n n', fmt_dur n = fmt_dur n' -> n = n') -> (forall n, ~ In 34 (fmt_dur n)) ->
  forall c d, wf c = true -> wf d = true -> valid c = true -> valid d = true ->
  print fmt_float fmt_time fmt_dur c = print fmt_float fmt_time fmt_dur d -> c = d.
Proof. exact print_inj_lemma. Qed.
Print Assumptions print_inj.

(* the laws are satisfiable together (formatters made from the decimal printer), and the
   domain contains every kind of constant, nested *)
Example print_inj_nonvacuous :
  (exists fmt_float fmt_time fmt_dur : Z -> list Z,
    (forall b b', float_special b = false -> float_special b' = false ->
       format_float64 fmt_float b = format_float64 fmt_float b' -> b = b') /\
    (forall b, float_special b = false ->
       forallb (fun c => is_digit c || (c =? 45) || (c =? 46)) (fmt_float b) = true) /\
    (forall n n', fmt_time n = fmt_time n' -> n = n') /\ (forall n, ~ In 34 (fmt_time n)) /\
    (forall n n', fmt_dur n = fmt_dur n' -> n = n') /\ (forall n, ~ In 34 (fmt_dur n))) /\
  let c := build (EMap [(EName (bs "/a/b-1"), EList [ENum (-1); EFloat 4607182418800017408; EList []]);
                        (EStr [104; 195; 169; 34; 13; 240; 159; 152; 128], EPair (ETime 0) (EDur 5));
                        (EBytes [0; 34; 200; 92], EStruct [(EName (bs "/k"), EMap [])])]) in
  let d := build (EList [EName (bs "/a/b-1")]) in
  wf c = true /\ valid c = true /\ wf d = true /\ valid d = true /\ c <> d.
Proof.
  split.
  - exists toy_float, print_number, print_number.
    destruct toy_laws as (A & B & C & D). repeat split; assumption.
  - vm_compute. repeat split; try reflexivity. intro H; discriminate H.
Qed.

(* numbers and floats alone need only the injectivity law of the float formatter
   (the classes finding F6 confused) *)
Theorem print_inj_numbers_floats : forall (fmt_float fmt_time fmt_dur : Z -> list Z),
  (forall b b', float_special b = false -> float_special b' = false ->
     format_float64 fmt_float b = format_float64 fmt_float b' -> b = b') ->
  forall c d, wf c = true -> wf d = true -> valid c = true -> valid d = true ->
  num_or_float c = true -> num_or_float d = true ->
  print fmt_float fmt_time fmt_dur c = print fmt_float fmt_time fmt_dur d -> c = d.
Proof. exact print_inj_numeric. Qed.
Print Assumptions print_inj_numbers_floats.

Example print_inj_numbers_floats_nonvacuous :
  let c := mk_number 1 in let d := mk_float 4607182418800017408 in   (* 1 and 1.0 *)
  wf c = true /\ wf d = true /\ valid c = true /\ valid d = true /\ num_or_float c = true /\ num_or_float d = true.
Proof. vm_compute. repeat split. Qed.

Theorem print_number_inj : forall a b, print_number a = print_number b -> a = b.
Proof. exact print_number_inj_lemma. Qed.
Print Assumptions print_number_inj.

(* after fix F6 a number and a finite float never print alike, whatever strconv returns *)
Theorem number_float_print_distinct : forall (fmt_float fmt_time fmt_dur : Z -> list Z) n m,
  float_special (to_uint64 m) = false ->
  print fmt_float fmt_time fmt_dur (CLeaf NumberT [] n) <> print fmt_float fmt_time fmt_dur (CLeaf Float64T [] m).
Proof. exact number_float_distinct. Qed.
Print Assumptions number_float_print_distinct.

(* F6, the printer before the fix: strconv.FormatFloat(1.0, 'f', -1, 64) = "1" (observed) *)
Theorem float_int_print_refuted :
  exists (fmt_float fmt_time fmt_dur : Z -> list Z) c d,
    fmt_float 4607182418800017408 = bs "1" /\
    wf c = true /\ wf d = true /\ valid c = true /\ valid d = true /\
    print_prefix fmt_float fmt_time fmt_dur c = print_prefix fmt_float fmt_time fmt_dur d /\ c <> d.
Proof.
  exists (fun _ => bs "1"), (fun _ => []), (fun _ => []), (mk_number 1), (mk_float 4607182418800017408).
  vm_compute. repeat split; try reflexivity. intro H; discriminate H.
Qed.
Print Assumptions float_int_print_refuted.

(* ---- atoms ---------------------------------------------------------------- *)
Theorem atom_equals_iff_eq : forall sym args sym' args',
  forallb bterm_wf args = true -> forallb bterm_wf args' = true ->
  (atom_equals (new_atom sym args) (new_atom sym' args') = true <-> new_atom sym args = new_atom sym' args').
Proof. exact atom_equals_iff_lemma. Qed.
Print Assumptions atom_equals_iff_eq.
Theorem atom_equals_hash_print : forall (fmt_float fmt_time fmt_dur : Z -> list Z) sym args sym' args',
  forallb bterm_wf args = true -> forallb bterm_wf args' = true ->
  atom_equals (new_atom sym args) (new_atom sym' args') = true ->
  atom_hash (new_atom sym args) = atom_hash (new_atom sym' args') /\
  print_atom fmt_float fmt_time fmt_dur (new_atom sym args) = print_atom fmt_float fmt_time fmt_dur (new_atom sym' args').
Proof.
  intros ff ft fd sym args sym' args' W W' H. apply (atom_equals_iff_lemma _ _ _ _ W W') in H. rewrite H. split; reflexivity.
Qed.
Print Assumptions atom_equals_hash_print.

(* atoms with lexer-valid predicate names whose arguments are well-formed valid constants
   or lexer-valid variables ([bterm_ok]) are equal when they print identically *)
Theorem atom_print_inj : forall (fmt_float fmt_time fmt_dur : Z -> list Z),
  (forall b b', float_special b = false -> float_special b' = false ->
     format_float64 fmt_float b = format_float64 fmt_float b' -> b = b') ->
  (forall b, float_special b = false ->
     forallb (fun c => is_digit c || (c =? 45) || (c =? 46)) (fmt_float b) = true) ->
  (forall n n', fmt_time n = fmt_time n' -> n = n') -> (forall n, ~ In 34 (fmt_time n)) ->
  (forall n n', fmt_dur n = fmt_dur n' -> n = n') -> (forall n, ~ In 34 (fmt_dur n)) ->
  forall sym args sym' args',
  pred_valid sym = true -> pred_valid sym' = true ->
  forallb bterm_ok args = true -> forallb bterm_ok args' = true ->
  print_atom fmt_float fmt_time fmt_dur (new_atom sym args) = print_atom fmt_float fmt_time fmt_dur (new_atom sym' args') ->
  new_atom sym args = new_atom sym' args'.
Proof. exact atom_print_inj_lemma. Qed.
Print Assumptions atom_print_inj.

Example atom_print_inj_nonvacuous :
  let args := [TConst (build (EList [ENum (-3); EStr (bs "x,y")])); TVar (bs "X1"); TVar (bs "_"); TConst (mk_name (bs "/a"))] in
  pred_valid (bs "foo.bar:baz") = true /\ forallb bterm_ok args = true /\
  forallb bterm_ok [] = true /\ new_atom (bs "p") args <> new_atom (bs "p") [].
Proof. vm_compute. repeat split; try reflexivity. intro H; discriminate H. Qed.

Example atom_equals_nonvacuous :
  let a := new_atom (bs "p") [TConst (mk_number 0); TVar (bs "X")] in
  forallb bterm_wf (a_args a) = true /\ atom_equals a a = true
  /\ atom_equals a (new_atom (bs "p") [TConst list_nil; TVar (bs "X")]) = false.
Proof. vm_compute. repeat split. Qed.

(* ---- maps and structs do not depend on the order of the supplied entries --- *)
Theorem mk_map_perm : forall l l', Permutation l l' -> NoDup (map kv_key l) ->
  mk_map l = mk_map l' /\ mk_struct l = mk_struct l'.
Proof. exact mk_map_perm_lemma. Qed.
Print Assumptions mk_map_perm.

Example mk_map_perm_nonvacuous :
  let l := [(mk_name (bs "/a"), mk_number 1); (mk_name (bs "/b"), mk_number 2); (mk_number 7, list_nil)] in
  NoDup (map kv_key l) /\ mk_map l = mk_map (rev l) /\ wf (mk_map l) = true.
Proof.
  split; [|vm_compute; split; reflexivity].
  vm_compute. repeat constructor; cbn; intuition discriminate.
Qed.

(* N9: with equal keys the result follows the delivery order (Go map iteration) *)
Theorem mk_map_dup_refuted :
  exists l l', Permutation l l' /\ mk_map l <> mk_map l' /\ mk_struct l <> mk_struct l'.
Proof.
  exists [(mk_name (bs "/a"), mk_number 1); (mk_name (bs "/a"), mk_number 2)],
         [(mk_name (bs "/a"), mk_number 2); (mk_name (bs "/a"), mk_number 1)].
  split; [apply perm_swap|]. split; intro H; vm_compute in H; discriminate H.
Qed.
Print Assumptions mk_map_dup_refuted.
