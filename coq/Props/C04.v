(* Property C04 - programs accepted by analysis are safe to evaluate. *)
From Coq Require Import List ZArith Bool Permutation.
From MV Require Import Datalog.Syntax Datalog.Interp Datalog.Solve Analysis.RuleCheck Analysis.Declarative
  Analysis.RuleCheckProofs.
Import ListNotations.
Open Scope Z_scope.

(* ---- refutation witnesses on the model of the code BEFORE fixes F3a-c: the three
   clauses are accepted, and evaluating what analysis hands to the engine derives a fact
   that the clause as written does not (the negated atom was dropped). *)
Definition v (k : Z) := TVar k.
Definition num (k : Z) := CNum k.
Definition f3a := mkClause (mkAtom 0 [v 0]) [PAtom (mkAtom 1 [v 0]); PNeg (mkAtom 4 [v 0; v wild])] [].
Definition f3a_edb : list fact := [(1, [num 1]); (1, [num 2]); (4, [num 2; num 7])].
Definition f3b := mkClause (mkAtom 0 [v 0]) [PAtom (mkAtom 1 [v 0]); PNeg (mkAtom 3 [v 1])] [].
Definition f3b_edb : list fact := [(1, [num 1]); (3, [num 5])].
Definition f3c := mkClause (mkAtom 0 [v 0; v 1])
  [PNeg (mkAtom 3 [v 0]); PNeg (mkAtom 1 [v 1]); PAtom (mkAtom 2 [v 1; v 1]); PAtom (mkAtom 4 [v 0; v 0])] [].
Definition f3c_edb : list fact := [(4, [num 1; num 1]); (4, [num 2; num 2]); (2, [num 1; num 1]); (3, [num 1]); (1, [num 2])].

Definition eval_prefix (c : clause) (edb : list fact) :=
  eval_clause edb (fun _ => edb) (replace_wildcards (rewrite_prefix c)).
Definition eval_fixed (c : clause) (edb : list fact) :=
  eval_clause edb (fun _ => edb) (replace_wildcards (rewrite c)).

Theorem rewrite_F3_refuted :
  (* F3a: p0(2) although p4(2,7) *)
  (accepted_prefix f3a = true /\ cbody (rewrite_prefix f3a) = [PAtom (mkAtom 1 [v 0])]
   /\ eval_prefix f3a f3a_edb = Some [(0, [num 1]); (0, [num 2])]
   /\ decl_eval f3a_edb f3a_edb (domain 0 f3a f3a_edb) f3a = [(0, [num 1])])
  (* F3b: accepted, the literal is gone *)
  /\ (accepted_prefix f3b = true /\ cbody (rewrite_prefix f3b) = [PAtom (mkAtom 1 [v 0])]
      /\ eval_prefix f3b f3b_edb = Some [(0, [num 1])])
  (* F3c: !p3(X) dropped, !p1(Y) twice; p0(1,1) although p3(1) *)
  /\ (accepted_prefix f3c = true
      /\ cbody (rewrite_prefix f3c) = [PAtom (mkAtom 2 [v 1; v 1]); PNeg (mkAtom 1 [v 1]); PAtom (mkAtom 4 [v 0; v 0]); PNeg (mkAtom 1 [v 1])]
      /\ eval_prefix f3c f3c_edb = Some [(0, [num 1; num 1]); (0, [num 2; num 1])]
      /\ decl_eval f3c_edb f3c_edb (domain 0 f3c f3c_edb) f3c = [(0, [num 2; num 1])]).
Proof. vm_compute. repeat split; reflexivity. Qed.
Print Assumptions rewrite_F3_refuted.

(* the same three clauses on the model of the fixed code *)
Example rewrite_F3_fixed :
  (accepted f3a = true /\ eval_fixed f3a f3a_edb = Some [(0, [num 1])])
  /\ accepted f3b = false
  /\ (accepted f3c = true /\ eval_fixed f3c f3c_edb = Some [(0, [num 2; num 1])]).
Proof. vm_compute. repeat split; reflexivity. Qed.

(* N19 (and its sibling N62) on the pre-fix model: the clause is accepted, evaluation
   derives nothing, the clause as written derives p0(2). *)
Definition n19 := mkClause (mkAtom 0 [v 1]) [PIneq (v 1) (v 0); PAtom (mkAtom 2 [v 0; v 1])] [].
Definition n19_edb : list fact := [(2, [num 1; num 2]); (2, [num 3; num 3])].
Definition n62 := mkClause (mkAtom 0 [v 0]) [PEq (v 0) (v 1); PNeg (mkAtom 3 [v 0]); PAtom (mkAtom 1 [v 1])] [].
Theorem check_N19_refuted :
  accepted_prefix n19 = true /\ eval_prefix n19 n19_edb = Some []
  /\ decl_eval n19_edb n19_edb (domain 0 n19 n19_edb) n19 = [(0, [num 2])]
  /\ accepted n19 = false
  /\ accepted_prefix n62 = true /\ accepted n62 = false.
Proof. vm_compute. repeat split; reflexivity. Qed.
Print Assumptions check_N19_refuted.

(* ---- the rewritten body is a permutation of the body as written: RewriteClause neither
   drops nor duplicates nor invents a literal; head and transform are untouched. *)
Theorem rewrite_perm : forall c : clause,
  Permutation (cbody (rewrite c)) (cbody c) /\ chead (rewrite c) = chead c /\ clet (rewrite c) = clet c.
Proof. intros c. split; [apply rewrite_perm_body|split; [apply rewrite_head|apply rewrite_let]]. Qed.
Print Assumptions rewrite_perm.

(* ---- accepted_faithful. Full statement (not finished):
     forall c Sneg I, check (rewrite c) = true ->
       exists sols, solve Sneg (fun _ => I) 0 (cbody (replace_wildcards (rewrite c))) [[]] = Some sols
                    (or the only error is a function/comparison applied to ground arguments of the wrong type) /\
       (forall s, In s sols -> every head variable has a value in s) /\
       (forall sigma, decl_sol Sneg I c sigma <-> exists s, In s sols /\ s restricted to named_vars c = sigma).
   Proved part: for every accepted clause cr (the clause handed to CheckRule, i.e. the rewritten
   one) that is alias-free (C01's engine model has no variable-variable aliasing), on EVERY store
   and delta selection, every solution the left-to-right join computes gives a value to every
   head variable that the let-transform does not define. The invariant behind it
   (RuleCheckProofs.check_body_inv) is stronger: after each premise every variable CheckRule counts
   as bound has a value in every partial solution - so a comparison, an inequality or a negated
   atom of an accepted clause is never evaluated with a named variable that has no value.
   The equality with the declarative set is checked on samples by Run/C04.v (judge codes 5/6). *)
Theorem accepted_faithful_partial :
  forall (cr : clause) (Sneg : list fact) (sel : nat -> list fact) (sols : list subst),
  check cr = true -> alias_free cr = true ->
  solve Sneg sel 0 (cbody (replace_wildcards cr)) [[]] = Some sols ->
  forall s, In s sols ->
  forall x, In x (atom_vars (chead cr)) -> ~ In x (let_defs cr) -> lookup x s <> None.
Proof. exact accepted_binds_lemma. Qed.
Print Assumptions accepted_faithful_partial.

Example accepted_faithful_hyps :
  check (rewrite f3c) = true /\ alias_free (rewrite f3c) = true /\
  solve f3c_edb (fun _ => f3c_edb) 0 (cbody (replace_wildcards (rewrite f3c))) [[]]
    = Some [[(0, num 2); (1, num 1)]].
Proof. vm_compute. repeat split; reflexivity. Qed.

(* ---- unsafe_rejected. Full statement: as below with the conditions phrased on the clause as
   written (before rewrite and wildcard replacement). Proved part: phrased on the clause cr that
   CheckRule is given and its wildcard-replaced body (rewrite only permutes the body, theorem
   rewrite_perm; replace_wildcards only renames wildcards to fresh variables). If a variable x
   occurs in no positive atom and in no equality of the body (nothing can give it a value), and
   x is a head variable that the let-transform does not define, or an operand of a comparison or of
   an inequality, or a variable of a non-wildcard argument of a negated atom, then cr is rejected. *)
Theorem unsafe_rejected_partial :
  forall (cr : clause) (x : Z),
  ~ In x (flat_map binder_vars (cbody (replace_wildcards cr))) ->
  (In x (atom_vars (chead cr)) /\ ~ In x (let_defs cr))
  \/ (exists o p, In (o, p) (combine (cbody cr) (cbody (replace_wildcards cr))) /\ needs o p x) ->
  check cr = false.
Proof. exact unsafe_rejected_lemma. Qed.
Print Assumptions unsafe_rejected_partial.

Example unsafe_rejected_hyps :
  (* F3b: V1 of !p3(V1) occurs in no binder *)
  ~ In 1 (flat_map binder_vars (cbody (replace_wildcards (rewrite f3b))))
  /\ In (PNeg (mkAtom 3 [v 1]), PNeg (mkAtom 3 [v 1]))
        (combine (cbody (rewrite f3b)) (cbody (replace_wildcards (rewrite f3b))))
  /\ needs (PNeg (mkAtom 3 [v 1])) (PNeg (mkAtom 3 [v 1])) 1.
Proof.
  vm_compute. split; [intros [H|[]]; discriminate|]. split; [right; left; reflexivity|left; reflexivity].
Qed.
