(* Property C04 - programs accepted by analysis are safe to evaluate. *)
From Coq Require Import List ZArith Bool Permutation.
From MV Require Import Datalog.Syntax Datalog.Interp Datalog.Solve Datalog.Lfp Analysis.RuleCheck Analysis.Declarative
  Analysis.RuleCheckProofs Analysis.WildcardProofs Analysis.SafeEvalProofs Analysis.FaithfulProofs Analysis.CompleteProofs Analysis.FactsProofs.
Import ListNotations.
Open Scope Z_scope.

(* ---- refutation witnesses on the model of the code BEFORE fixes F3a-c: the three
   clauses are accepted, and evaluating what analysis hands to the engine derives a fact
   that the clause as written does not (the negated atom was dropped). *)
Definition v (k : Z) := TVar k.
Definition num (k : Z) := CNum k.
Definition f3a := mkClause (mkAtom 0 [v 0]) [PAtom (mkAtom 1 [v 0]); PNeg (mkAtom 4 [v 0; v wild])] [].
Definition f3a_edb : list fact := [(1, [num 1]); (1, [num 2]); (4, [num 2; num 7])].
Definition f3b := mkClause (mkAtom 0 [v 0]) [PAtom (mkAtom 1 [v 0]); PNeg (mkAtom 3 [v 1])] [].
Definition f3b_edb : list fact := [(1, [num 1]); (3, [num 5])].
Definition f3c := mkClause (mkAtom 0 [v 0; v 1])
  [PNeg (mkAtom 3 [v 0]); PNeg (mkAtom 1 [v 1]); PAtom (mkAtom 2 [v 1; v 1]); PAtom (mkAtom 4 [v 0; v 0])] [].
Definition f3c_edb : list fact := [(4, [num 1; num 1]); (4, [num 2; num 2]); (2, [num 1; num 1]); (3, [num 1]); (1, [num 2])].

Definition eval_prefix (c : clause) (edb : list fact) :=
  eval_clause edb (fun _ => edb) (replace_wildcards (rewrite_prefix c)).
Definition eval_fixed (c : clause) (edb : list fact) :=
  eval_clause edb (fun _ => edb) (replace_wildcards (rewrite c)).

Theorem rewrite_F3_refuted :
  (* F3a: p0(2) although p4(2,7) *)
  (accepted_prefix f3a = true /\ cbody (rewrite_prefix f3a) = [PAtom (mkAtom 1 [v 0])]
   /\ eval_prefix f3a f3a_edb = Some [(0, [num 1]); (0, [num 2])]
   /\ decl_eval f3a_edb f3a_edb (domain 0 f3a f3a_edb) f3a = [(0, [num 1])])
  (* F3b: accepted, the literal is gone *)
  /\ (accepted_prefix f3b = true /\ cbody (rewrite_prefix f3b) = [PAtom (mkAtom 1 [v 0])]
      /\ eval_prefix f3b f3b_edb = Some [(0, [num 1])])
  (* F3c: !p3(X) dropped, !p1(Y) twice; p0(1,1) although p3(1) *)
  /\ (accepted_prefix f3c = true
      /\ cbody (rewrite_prefix f3c) = [PAtom (mkAtom 2 [v 1; v 1]); PNeg (mkAtom 1 [v 1]); PAtom (mkAtom 4 [v 0; v 0]); PNeg (mkAtom 1 [v 1])]
      /\ eval_prefix f3c f3c_edb = Some [(0, [num 1; num 1]); (0, [num 2; num 1])]
      /\ decl_eval f3c_edb f3c_edb (domain 0 f3c f3c_edb) f3c = [(0, [num 2; num 1])]).
Proof. vm_compute. repeat split; reflexivity. Qed.
Print Assumptions rewrite_F3_refuted.

(* the same three clauses on the model of the fixed code *)
Example rewrite_F3_fixed :
  (accepted f3a = true /\ eval_fixed f3a f3a_edb = Some [(0, [num 1])])
  /\ accepted f3b = false
  /\ (accepted f3c = true /\ eval_fixed f3c f3c_edb = Some [(0, [num 2; num 1])]).
Proof. vm_compute. repeat split; reflexivity. Qed.

(* N19 (and its sibling N62) on the pre-fix model: the clause is accepted, evaluation
   derives nothing, the clause as written derives p0(2). *)
Definition n19 := mkClause (mkAtom 0 [v 1]) [PIneq (v 1) (v 0); PAtom (mkAtom 2 [v 0; v 1])] [].
Definition n19_edb : list fact := [(2, [num 1; num 2]); (2, [num 3; num 3])].
Definition n62 := mkClause (mkAtom 0 [v 0]) [PEq (v 0) (v 1); PNeg (mkAtom 3 [v 0]); PAtom (mkAtom 1 [v 1])] [].
Theorem check_N19_refuted :
  accepted_prefix n19 = true /\ eval_prefix n19 n19_edb = Some []
  /\ decl_eval n19_edb n19_edb (domain 0 n19 n19_edb) n19 = [(0, [num 2])]
  /\ accepted n19 = false
  /\ accepted_prefix n62 = true /\ accepted n62 = false.
Proof. vm_compute. repeat split; reflexivity. Qed.
Print Assumptions check_N19_refuted.

(* ---- the rewritten body is a permutation of the body as written: RewriteClause neither
   drops nor duplicates nor invents a literal; head and transform are untouched. *)
Theorem rewrite_perm : forall c : clause,
  Permutation (cbody (rewrite c)) (cbody c) /\ chead (rewrite c) = chead c /\ clet (rewrite c) = clet c.
Proof. intros c. split; [apply rewrite_perm_body|split; [apply rewrite_head|apply rewrite_let]]. Qed.
Print Assumptions rewrite_perm.

(* ---- accepted_binds_head_vars (the first, weaker form of accepted_faithful; the full theorems
   accepted_no_unbound_error, accepted_head_ground, accepted_faithful, accepted_faithful_facts are
   below). For every accepted clause cr (the clause handed to CheckRule, i.e. the rewritten one) that
   is alias-free (C01's engine model has no variable-variable aliasing), on EVERY store and delta
   selection, every solution the left-to-right join computes gives a value to every head variable
   that the let-transform does not define. The invariant behind it (RuleCheckProofs.check_body_inv)
   is stronger: after each premise every variable CheckRule counts as bound has a value in every
   partial solution. *)
Theorem accepted_binds_head_vars :
  forall (cr : clause) (Sneg : list fact) (sel : nat -> list fact) (sols : list subst),
  check cr = true -> alias_free cr = true ->
  solve Sneg sel 0 (cbody (replace_wildcards cr)) [[]] = Some sols ->
  forall s, In s sols ->
  forall x, In x (atom_vars (chead cr)) -> ~ In x (let_defs cr) -> lookup x s <> None.
Proof. exact accepted_binds_lemma. Qed.
Print Assumptions accepted_binds_head_vars.

Example accepted_faithful_hyps :
  check (rewrite f3c) = true /\ alias_free (rewrite f3c) = true /\
  solve f3c_edb (fun _ => f3c_edb) 0 (cbody (replace_wildcards (rewrite f3c))) [[]]
    = Some [[(0, num 2); (1, num 1)]].
Proof. vm_compute. repeat split; reflexivity. Qed.

(* ---- unsafe_rejected_replaced: the rejection theorem phrased on the clause cr that CheckRule is
   given and its wildcard-replaced body (the form on the clause as written is unsafe_rejected
   below). If a variable x occurs in no positive atom and in no equality of the body (nothing can
   give it a value), and x is a head variable that the let-transform does not define, or an operand
   of a comparison or of an inequality, or a variable of a non-wildcard argument of a negated atom,
   then cr is rejected. *)
Theorem unsafe_rejected_replaced :
  forall (cr : clause) (x : Z),
  ~ In x (flat_map binder_vars (cbody (replace_wildcards cr))) ->
  (In x (atom_vars (chead cr)) /\ ~ In x (let_defs cr))
  \/ (exists o p, In (o, p) (combine (cbody cr) (cbody (replace_wildcards cr))) /\ needs o p x) ->
  check cr = false.
Proof. exact unsafe_rejected_lemma. Qed.
Print Assumptions unsafe_rejected_replaced.

Example unsafe_rejected_hyps :
  (* F3b: V1 of !p3(V1) occurs in no binder *)
  ~ In 1 (flat_map binder_vars (cbody (replace_wildcards (rewrite f3b))))
  /\ In (PNeg (mkAtom 3 [v 1]), PNeg (mkAtom 3 [v 1]))
        (combine (cbody (rewrite f3b)) (cbody (replace_wildcards (rewrite f3b))))
  /\ needs (PNeg (mkAtom 3 [v 1])) (PNeg (mkAtom 3 [v 1])) 1.
Proof.
  vm_compute. split; [intros [H|[]]; discriminate|]. split; [right; left; reflexivity|left; reflexivity].
Qed.

(* ---- unsafe_rejected, on the clause AS WRITTEN (before RewriteClause and ReplaceWildcards). If a
   named variable x occurs in no positive atom and in no equality of the body (nothing can give it
   a value), and x is a head variable that the let-transform does not define, or an operand of a
   comparison or of an inequality, or occurs in a non-wildcard argument of a negated atom, then
   analysis rejects the clause. (needs p p x = x is needed by premise p: see RuleCheckProofs.needs.) *)
Theorem unsafe_rejected :
  forall (c : clause) (x : Z),
  x <> wild ->
  ~ In x (flat_map binder_vars (cbody c)) ->
  (In x (atom_vars (chead c)) /\ ~ In x (let_defs c)) \/ (exists p, In p (cbody c) /\ needs p p x) ->
  accepted c = false.
Proof. exact unsafe_rejected_orig. Qed.
Print Assumptions unsafe_rejected.

Example unsafe_rejected_orig_hyps :
  (1 <> wild) /\ ~ In 1 (flat_map binder_vars (cbody f3b))
  /\ In (PNeg (mkAtom 3 [v 1])) (cbody f3b) /\ needs (PNeg (mkAtom 3 [v 1])) (PNeg (mkAtom 3 [v 1])) 1.
Proof.
  vm_compute. split; [discriminate|]. split; [intros [H|[]]; discriminate|].
  split; [right; left; reflexivity|left; reflexivity].
Qed.

(* ---- accepted_no_unbound_error. C01's engine model returns None for every Go error. For a clause
   CheckRule accepts (alias-free: the engine model has no variable-variable aliasing; and outside
   the recorded finding N61: function applications inside positive atoms use only variables that
   already have a value - atom_apps_bound), on EVERY store and delta selection: if the
   left-to-right join fails, then it fails at some premise p under some partial solution s (a
   solution of the premises before p) with a value_error: a function application inside p whose
   arguments all evaluated to constants was rejected by eval_fn (wrong type, division by zero,
   unknown function), or p is a comparison of two constants that eval_cmp rejects (not both
   numbers). In particular evaluation never fails because a variable has no value inside a
   function application, a comparison, an inequality or a negated atom. *)
Theorem accepted_no_unbound_error :
  forall (cr : clause) (Sneg : list fact) (sel : nat -> list fact),
  check cr = true -> alias_free cr = true -> atom_apps_bound cr = true ->
  solve Sneg sel 0 (cbody (replace_wildcards cr)) [[]] = None ->
  exists (j : nat) (p : premise) (s : subst),
    nth_error (cbody (replace_wildcards cr)) j = Some p /\
    sat (fun f => In f Sneg) sel 0 (firstn j (cbody (replace_wildcards cr))) [] s /\
    ((exists t, In t (premise_terms p) /\ fn_error s t) \/
     (exists op l r a b, p = PCmp op l r /\ eval_term s l = Some (VConst a) /\
                         eval_term s r = Some (VConst b) /\ eval_cmp op a b = None)).
Proof. exact accepted_no_unbound_error_lemma. Qed.
Print Assumptions accepted_no_unbound_error.

(* the hypotheses are satisfiable together, with a genuine run-time error: p0(X) :- p1(Y), X = fn:div(Y, 0). *)
Definition divz := mkClause (mkAtom 0 [v 0])
  [PAtom (mkAtom 1 [v 1]); PEq (v 0) (TApp FDiv [v 1; TConst (num 0)])] [].
Example accepted_no_unbound_error_hyps :
  check (rewrite divz) = true /\ alias_free (rewrite divz) = true /\ atom_apps_bound (rewrite divz) = true /\
  solve [] (fun _ => [(1, [num 4])]) 0 (cbody (replace_wildcards (rewrite divz))) [[]] = None.
Proof. vm_compute. repeat split; reflexivity. Qed.
(* and the hypothesis atom_apps_bound cannot be dropped: finding N61 *)
Definition n61 := mkClause (mkAtom 0 [v 0]) [PAtom (mkAtom 1 [TApp FPlus [v 0; TConst (num 1)]])] [].
Example n61_accepted_unbound :
  accepted n61 = true /\ alias_free (rewrite n61) = true /\ atom_apps_bound (rewrite n61) = false /\
  solve [] (fun _ => [(1, [num 4])]) 0 (cbody (replace_wildcards (rewrite n61))) [[]] = None.
Proof. vm_compute. repeat split; reflexivity. Qed.

(* ---- accepted_head_ground. With C01's fact type a derived fact is ground by construction; what
   the model can do instead is fail in emit_head (a head variable without a value is an error
   there). For an accepted alias-free clause - outside the recorded findings N64 (a let-statement
   uses a variable defined by a later or the same statement: let_ordered) and N65 (a function
   application in the head uses a let-variable: head_apps_ok) - every solution of the join yields
   a head fact, unless a function application in the head or in a let-statement was rejected by
   eval_fn on ground arguments. *)
Theorem accepted_head_ground :
  forall (cr : clause) (Sneg : list fact) (sel : nat -> list fact) (sols : list subst),
  check cr = true -> alias_free cr = true -> head_apps_ok cr = true -> let_ordered cr = true ->
  solve Sneg sel 0 (cbody (replace_wildcards cr)) [[]] = Some sols ->
  forall s, In s sols ->
  (exists f, emit_head cr s = Some f)
  \/ (exists t, In t (aargs (chead cr)) /\ fn_error s t)
  \/ (exists j x t s', nth_error (clet cr) j = Some (x, t) /\
                        run_let s (firstn j (clet cr)) = Some s' /\ fn_error s' t).
Proof. exact accepted_head_ground_lemma. Qed.
Print Assumptions accepted_head_ground.

(* p0(X, fn:plus(Y,1)) :- p1(Y) |> let Z = fn:mult(Y,2), let X = fn:plus(Z,1). *)
Definition letc := mkClause (mkAtom 0 [v 0; TApp FPlus [v 1; TConst (num 1)]])
  [PAtom (mkAtom 1 [v 1])] [(2, TApp FMult [v 1; TConst (num 2)]); (0, TApp FPlus [v 2; TConst (num 1)])].
Example accepted_head_ground_hyps :
  check (rewrite letc) = true /\ alias_free (rewrite letc) = true /\ head_apps_ok (rewrite letc) = true /\
  let_ordered (rewrite letc) = true /\
  solve [] (fun _ => [(1, [num 4])]) 0 (cbody (replace_wildcards (rewrite letc))) [[]] = Some [[(1, num 4)]] /\
  emit_head (rewrite letc) [(1, num 4)] = Some (0, [num 9; num 5]).
Proof. vm_compute. repeat split; reflexivity. Qed.
(* and neither let_ordered nor head_apps_ok can be dropped: findings N64 and N65
   p0(A) :- p1(X) |> let A = fn:plus(B,1), let B = fn:plus(X,1).     p0(fn:plus(Y,1)) :- p1(X) |> let Y = fn:plus(X,1). *)
Definition n64 := mkClause (mkAtom 0 [v 0]) [PAtom (mkAtom 1 [v 2])]
  [(0, TApp FPlus [v 1; TConst (num 1)]); (1, TApp FPlus [v 2; TConst (num 1)])].
Definition n65 := mkClause (mkAtom 0 [TApp FPlus [v 0; TConst (num 1)]]) [PAtom (mkAtom 1 [v 2])]
  [(0, TApp FPlus [v 2; TConst (num 1)])].
Example n64_n65_accepted_head_fails :
  (accepted n64 = true /\ alias_free (rewrite n64) = true /\ head_apps_ok (rewrite n64) = true /\
   let_ordered (rewrite n64) = false /\ emit_head (rewrite n64) [(2, num 4)] = None)
  /\ (accepted n65 = true /\ alias_free (rewrite n65) = true /\ let_ordered (rewrite n65) = true /\
      head_apps_ok (rewrite n65) = false /\ emit_head (rewrite n65) [(2, num 4)] = None).
Proof. vm_compute. repeat split; reflexivity. Qed.

(* ---- accepted_eval_no_unbound_error: the two previous theorems together, for the whole clause. If
   C01's eval_clause fails on an accepted clause (outside aliasing and the findings N61, N64, N65),
   then a function or comparison rejected GROUND arguments: in a body premise under a partial
   solution, or in the head or a let-statement under a complete solution of the body. Evaluation
   of an accepted clause never fails - and never emits a non-ground fact - for want of a value. *)
Theorem accepted_eval_no_unbound_error :
  forall (cr : clause) (Sneg : list fact) (sel : nat -> list fact),
  check cr = true -> alias_free cr = true -> atom_apps_bound cr = true ->
  head_apps_ok cr = true -> let_ordered cr = true ->
  eval_clause Sneg sel (replace_wildcards cr) = None ->
  (exists j p s, nth_error (cbody (replace_wildcards cr)) j = Some p /\
                 sat (fun f => In f Sneg) sel 0 (firstn j (cbody (replace_wildcards cr))) [] s /\
                 value_error s p)
  \/ (exists s, sat (fun f => In f Sneg) sel 0 (cbody (replace_wildcards cr)) [] s /\
        ((exists t, In t (aargs (chead cr)) /\ fn_error s t)
         \/ (exists j x t s', nth_error (clet cr) j = Some (x, t) /\
                               run_let s (firstn j (clet cr)) = Some s' /\ fn_error s' t))).
Proof. exact accepted_eval_no_unbound_error_lemma. Qed.
Print Assumptions accepted_eval_no_unbound_error.

Example accepted_eval_no_unbound_error_hyps :
  check (rewrite divz) = true /\ alias_free (rewrite divz) = true /\ atom_apps_bound (rewrite divz) = true /\
  head_apps_ok (rewrite divz) = true /\ let_ordered (rewrite divz) = true /\
  eval_clause [] (fun _ => [(1, [num 4])]) (replace_wildcards (rewrite divz)) = None.
Proof. vm_compute. repeat split; reflexivity. Qed.

(* ---- accepted_faithful, soundness half: NO LITERAL IS IGNORED. For every clause c as written
   that analysis accepts (alias-free after rewriting), on every store: every solution s that the
   left-to-right join computes on the rewritten, wildcard-replaced clause - restricted to the named
   variables of c - is a declarative solution of the ORIGINAL clause: it assigns exactly the named
   variables and every literal of c holds under it (wildcards existential inside their literal),
   whatever order RewriteClause chose and whatever fresh names ReplaceWildcards invented. *)
Theorem accepted_faithful_sound :
  forall (c : clause) (Sneg I : list fact) (sols : list subst) (s : subst),
  accepted c = true -> alias_free (rewrite c) = true ->
  solve Sneg (fun _ => I) 0 (cbody (replace_wildcards (rewrite c))) [[]] = Some sols -> In s sols ->
  decl_sol Sneg I c (restrict (named_vars c) s).
Proof. exact accepted_sound_lemma. Qed.
Print Assumptions accepted_faithful_sound.

(* ---- accepted_faithful: solutions of the join = declarative solutions of the clause as written.
   For every clause c that analysis accepts (alias-free after rewriting), on every store on which
   the left-to-right join of the rewritten, wildcard-replaced clause returns without error:
   (1) every computed solution, restricted to the named variables of c, is a declarative solution
       of c (every literal of c holds, wildcards existential inside their literal);
   (2) every declarative solution of c is computed: some solution of the join gives the named
       variables of c exactly the same values.
   So the order RewriteClause chose, the delaying of negated atoms and the fresh names of
   ReplaceWildcards do not change the meaning of the clause: conjunction is order independent
   for the orders CheckRule accepts. *)
Theorem accepted_faithful :
  forall (c : clause) (Sneg I : list fact) (sols : list subst),
  accepted c = true -> alias_free (rewrite c) = true ->
  solve Sneg (fun _ => I) 0 (cbody (replace_wildcards (rewrite c))) [[]] = Some sols ->
  (forall s, In s sols -> decl_sol Sneg I c (restrict (named_vars c) s)) /\
  (forall sigma, decl_sol Sneg I c sigma ->
     exists s, In s sols /\ forall x, In x (named_vars c) -> lookup x s = lookup x sigma).
Proof.
  intros c Sneg I sols Hacc Haf Hsol. split.
  - intros s Hs. exact (accepted_sound_lemma c Sneg I sols s Hacc Haf Hsol Hs).
  - intros sigma Hd. exact (accepted_complete_lemma c Sneg I sols sigma Hacc Haf Hsol Hd).
Qed.
Print Assumptions accepted_faithful.

(* the hypotheses are satisfiable by a clause with a wildcard and a delayed negated atom (F3a:
   p0(X) :- p1(X), !p4(X,_).) and by one whose premises are reordered (F3c) *)
Example accepted_faithful_full_hyps :
  (accepted f3a = true /\ alias_free (rewrite f3a) = true /\
   solve f3a_edb (fun _ => f3a_edb) 0 (cbody (replace_wildcards (rewrite f3a))) [[]] = Some [[(0, num 1)]] /\
   named_vars f3a = [0])
  /\ (accepted f3c = true /\ alias_free (rewrite f3c) = true /\
      cbody (rewrite f3c) <> cbody f3c /\
      solve f3c_edb (fun _ => f3c_edb) 0 (cbody (replace_wildcards (rewrite f3c))) [[]]
        = Some [[(0, num 2); (1, num 1)]]).
Proof. vm_compute. repeat split; try reflexivity. discriminate. Qed.

(* ---- accepted_faithful_facts: the same at the level of derived facts (what the harness
   observes). For every accepted clause c (alias-free after rewriting) and every store on which
   C01's eval_clause of the rewritten, wildcard-replaced clause returns without error, the facts it
   derives are exactly the head instances of c AS WRITTEN under the declarative reading. *)
Theorem accepted_faithful_facts :
  forall (c : clause) (Sneg I fs : list fact),
  accepted c = true -> alias_free (rewrite c) = true ->
  eval_clause Sneg (fun _ => I) (replace_wildcards (rewrite c)) = Some fs ->
  forall f, In f fs <-> decl_derives Sneg I c f.
Proof. exact accepted_facts_lemma. Qed.
Print Assumptions accepted_faithful_facts.

Example accepted_faithful_facts_hyps :
  accepted letc = true /\ alias_free (rewrite letc) = true /\
  eval_clause [] (fun _ => [(1, [num 4])]) (replace_wildcards (rewrite letc)) = Some [(0, [num 9; num 5])]
  /\ eval_fixed f3a f3a_edb = Some [(0, [num 1])].
Proof. vm_compute. repeat split; reflexivity. Qed.

(* ======================================================================================
   Built-in predicate atoms with modes (added when the check was strengthened after seeding;
   model: Analysis/BuiltinCheck.v). A built-in goal is a positive atom whose predicate the
   mode table knows (as in Go: an ast.Atom with Predicate.IsBuiltin()); the statements hold
   for EVERY mode table tbl, in particular for builtin.Predicates (go_table).
   ====================================================================================== *)
From MV Require Import Analysis.BuiltinCheck Analysis.BuiltinCheckProofs.

(* ---- xcheck_conservative / xaccepted_conservative: on clauses without built-in atoms the
   extended model IS the model the theorems above speak about. *)
Theorem xaccepted_conservative :
  forall (tbl : mtable) (c : clause),
  no_builtin tbl (cbody c) = true ->
  xcheck tbl c = check c /\ xaccepted tbl c = accepted c.
Proof. intros tbl c H. split; [exact (xcheck_conservative_lemma tbl c H)|exact (xaccepted_conservative_lemma tbl c H)]. Qed.
Print Assumptions xaccepted_conservative.

Example xaccepted_conservative_hyps :
  no_builtin go_table (cbody f3c) = true /\ xaccepted go_table f3c = true.
Proof. vm_compute. split; reflexivity. Qed.

(* ---- builtin_input_unbound_rejected. cr is the clause CheckRule receives, a a built-in atom of
   its wildcard-replaced body with mode m, pre the premises to its left. If a variable x occurs in
   an argument at a "+" place of a (as the argument itself or inside a function application), is
   not bound by a itself at a "-"/"?" place, and occurs to the left of a in no positive atom of an
   extensional predicate, no equality and no "-"/"?" place of an earlier built-in (xbinder_vars:
   nothing to the left can have given it a value), then cr is rejected. A binder further right
   does not help. *)
Theorem builtin_input_unbound_rejected :
  forall (tbl : mtable) (cr : clause) (pre post : list premise) (a : atom) (m : list bmode) (x : Z),
  cbody (replace_wildcards cr) = pre ++ PAtom a :: post ->
  tbl (apred a) = Some m ->
  In x (in_vars m (aargs a)) ->
  ~ In x (out_vars m (aargs a)) ->
  ~ In x (flat_map (xbinder_vars tbl) pre) ->
  xcheck tbl cr = false.
Proof. intros. eapply builtin_input_unbound_rejected_lemma; eassumption. Qed.
Print Assumptions builtin_input_unbound_rejected.

(* p0(K,V) :- p7(M), :match_entry(M,K,V).  - the key K has no binder to the left (seeded change C04-3) *)
Definition me_unbound_key := mkClause (mkAtom 0 [v 1; v 2])
  [PAtom (mkAtom 7 [v 0]); PAtom (mkAtom b_match_entry [v 0; v 1; v 2])] [].
(* p0(K,V) :- :match_entry(M,K,V), p7(M), p1(K).  - binders only further right *)
Definition me_bound_right := mkClause (mkAtom 0 [v 1; v 2])
  [PAtom (mkAtom b_match_entry [v 0; v 1; v 2]); PAtom (mkAtom 7 [v 0]); PAtom (mkAtom 1 [v 1])] [].
(* p0(V) :- p7(M), p1(K), :match_entry(M,K,V). *)
Definition me_ok := mkClause (mkAtom 0 [v 2])
  [PAtom (mkAtom 7 [v 0]); PAtom (mkAtom 1 [v 1]); PAtom (mkAtom b_match_entry [v 0; v 1; v 2])] [].

Example builtin_input_unbound_rejected_hyps :
  cbody (replace_wildcards (rewrite me_unbound_key))
    = [PAtom (mkAtom 7 [v 0])] ++ PAtom (mkAtom b_match_entry [v 0; v 1; v 2]) :: []
  /\ go_table b_match_entry = Some [MIn; MIn; MOut]
  /\ In 1 (in_vars [MIn; MIn; MOut] [v 0; v 1; v 2])
  /\ ~ In 1 (out_vars [MIn; MIn; MOut] [v 0; v 1; v 2])
  /\ ~ In 1 (flat_map (xbinder_vars go_table) [PAtom (mkAtom 7 [v 0])])
  /\ xaccepted go_table me_bound_right = false
  /\ xaccepted go_table me_ok = true.
Proof.
  vm_compute. repeat split; try reflexivity.
  - right. left. reflexivity.
  - intros [H|[]]. discriminate.
  - intros [H|[]]. discriminate.
Qed.

(* with the mode table of seeded change C04-3 (:match_entry (+,?,?)) the model accepts the clause
   whose key never has a value: the theorem is about the table, the correspondence run ties the
   table to builtin.Predicates *)
Theorem match_entry_relaxed_refuted :
  xaccepted relaxed_table me_unbound_key = true /\ xaccepted go_table me_unbound_key = false.
Proof. vm_compute. split; reflexivity. Qed.
Print Assumptions match_entry_relaxed_refuted.

(* the hypothesis "not bound by the atom itself" cannot be dropped (recorded finding N108):
   p0(X) :- :list:member(X, fn:list(X, 2)).  is accepted, X is used inside the input argument *)
Definition n108 := mkClause (mkAtom 0 [v 0])
  [PAtom (mkAtom b_list_member [v 0; TApp FList [v 0; TConst (num 2)]])] [].
Example n108_accepted : xaccepted go_table n108 = true /\ In 0 (in_vars [MOut; MIn] (aargs (mkAtom b_list_member [v 0; TApp FList [v 0; TConst (num 2)]]))).
Proof. vm_compute. split; [reflexivity|left; reflexivity]. Qed.

(* ---- builtin_input_var_unbound_rejected: a PLAIN VARIABLE at a "+" place needs a binder to the
   left, whatever else the atom does with that variable. *)
Theorem builtin_input_var_unbound_rejected :
  forall (tbl : mtable) (cr : clause) (pre post : list premise) (a : atom) (m : list bmode) (i : nat) (x : Z),
  cbody (replace_wildcards cr) = pre ++ PAtom a :: post ->
  tbl (apred a) = Some m ->
  nth_error m i = Some MIn -> nth_error (aargs a) i = Some (TVar x) ->
  ~ In x (flat_map (xbinder_vars tbl) pre) ->
  xcheck tbl cr = false.
Proof. intros. eapply builtin_input_var_unbound_rejected_lemma; eassumption. Qed.
Print Assumptions builtin_input_var_unbound_rejected.

Example builtin_input_var_unbound_rejected_hyps :
  nth_error [MIn; MIn; MOut] 1 = Some MIn /\ nth_error [v 0; v 1; v 2] 1 = Some (TVar 1)
  /\ ~ In 1 (flat_map (xbinder_vars go_table) [PAtom (mkAtom 7 [v 0])]).
Proof. vm_compute. repeat split; try reflexivity. intros [H|[]]. discriminate. Qed.

(* ---- builtin_output_nonvar_rejected: a "-" place holds a variable (a constant or a function
   application there is rejected). *)
Theorem builtin_output_nonvar_rejected :
  forall (tbl : mtable) (cr : clause) (pre post : list premise) (a : atom) (m : list bmode) (i : nat),
  cbody (replace_wildcards cr) = pre ++ PAtom a :: post ->
  tbl (apred a) = Some m ->
  nth_error m i = Some MOut ->
  (forall x, nth_error (aargs a) i <> Some (TVar x)) ->
  xcheck tbl cr = false.
Proof. intros. eapply builtin_output_nonvar_rejected_lemma; eassumption. Qed.
Print Assumptions builtin_output_nonvar_rejected.

(* p0(M) :- p7(M), :match_entry(M, 1, 2). *)
Definition me_const_value := mkClause (mkAtom 0 [v 0])
  [PAtom (mkAtom 7 [v 0]); PAtom (mkAtom b_match_entry [v 0; TConst (num 1); TConst (num 2)])] [].
Example builtin_output_nonvar_rejected_hyps :
  cbody (replace_wildcards (rewrite me_const_value))
    = [PAtom (mkAtom 7 [v 0])] ++ PAtom (mkAtom b_match_entry [v 0; TConst (num 1); TConst (num 2)]) :: []
  /\ nth_error [MIn; MIn; MOut] 2 = Some MOut
  /\ (forall x, nth_error [v 0; TConst (num 1); TConst (num 2)] 2 <> Some (TVar x)).
Proof. vm_compute. repeat split; try reflexivity. intros x H. discriminate. Qed.
