(* Property C04 - programs accepted by analysis are safe to evaluate. *)
From Coq Require Import List ZArith Bool.
From MV Require Import Datalog.Syntax Datalog.Interp Datalog.Solve Analysis.RuleCheck Analysis.Declarative.
Import ListNotations.
Open Scope Z_scope.

(* ---- refutation witnesses on the model of the code BEFORE fixes F3a-c: the three
   clauses are accepted, and evaluating what analysis hands to the engine derives a fact
   that the clause as written does not (the negated atom was dropped). *)
Definition v (k : Z) := TVar k.
Definition num (k : Z) := CNum k.
Definition f3a := mkClause (mkAtom 0 [v 0]) [PAtom (mkAtom 1 [v 0]); PNeg (mkAtom 4 [v 0; v wild])] [].
Definition f3a_edb : list fact := [(1, [num 1]); (1, [num 2]); (4, [num 2; num 7])].
Definition f3b := mkClause (mkAtom 0 [v 0]) [PAtom (mkAtom 1 [v 0]); PNeg (mkAtom 3 [v 1])] [].
Definition f3b_edb : list fact := [(1, [num 1]); (3, [num 5])].
Definition f3c := mkClause (mkAtom 0 [v 0; v 1])
  [PNeg (mkAtom 3 [v 0]); PNeg (mkAtom 1 [v 1]); PAtom (mkAtom 2 [v 1; v 1]); PAtom (mkAtom 4 [v 0; v 0])] [].
Definition f3c_edb : list fact := [(4, [num 1; num 1]); (4, [num 2; num 2]); (2, [num 1; num 1]); (3, [num 1]); (1, [num 2])].

Definition eval_prefix (c : clause) (edb : list fact) :=
  eval_clause edb (fun _ => edb) (replace_wildcards (rewrite_prefix c)).
Definition eval_fixed (c : clause) (edb : list fact) :=
  eval_clause edb (fun _ => edb) (replace_wildcards (rewrite c)).

Theorem rewrite_F3_refuted :
  (* F3a: p0(2) although p4(2,7) *)
  (accepted_prefix f3a = true /\ cbody (rewrite_prefix f3a) = [PAtom (mkAtom 1 [v 0])]
   /\ eval_prefix f3a f3a_edb = Some [(0, [num 1]); (0, [num 2])]
   /\ decl_eval f3a_edb f3a_edb (domain 0 f3a f3a_edb) f3a = [(0, [num 1])])
  (* F3b: accepted, the literal is gone *)
  /\ (accepted_prefix f3b = true /\ cbody (rewrite_prefix f3b) = [PAtom (mkAtom 1 [v 0])]
      /\ eval_prefix f3b f3b_edb = Some [(0, [num 1])])
  (* F3c: !p3(X) dropped, !p1(Y) twice; p0(1,1) although p3(1) *)
  /\ (accepted_prefix f3c = true
      /\ cbody (rewrite_prefix f3c) = [PAtom (mkAtom 2 [v 1; v 1]); PNeg (mkAtom 1 [v 1]); PAtom (mkAtom 4 [v 0; v 0]); PNeg (mkAtom 1 [v 1])]
      /\ eval_prefix f3c f3c_edb = Some [(0, [num 1; num 1]); (0, [num 2; num 1])]
      /\ decl_eval f3c_edb f3c_edb (domain 0 f3c f3c_edb) f3c = [(0, [num 2; num 1])]).
Proof. vm_compute. repeat split; reflexivity. Qed.
Print Assumptions rewrite_F3_refuted.

(* the same three clauses on the model of the fixed code *)
Example rewrite_F3_fixed :
  (accepted f3a = true /\ eval_fixed f3a f3a_edb = Some [(0, [num 1])])
  /\ accepted f3b = false
  /\ (accepted f3c = true /\ eval_fixed f3c f3c_edb = Some [(0, [num 2; num 1])]).
Proof. vm_compute. repeat split; reflexivity. Qed.
