(* C18 - the concurrent store is linearizable; parallel evaluations do not interfere.
   Property theorems only.  PARTIAL by construction: what is proved is about the model
   (Conc/Concurrent.v) whose lock rules ARE the assumption about sync.RWMutex; data
   races, the Go memory model and the real mutex are exercised at run time only. *)
From Coq Require Import String List ZArith Bool.
From MV Require Import Conc.LockKinds Conc.LockTable Conc.SetSpec Conc.Concurrent Conc.LinCheck
  Conc.LinProofs Conc.ConcProofs Conc.LinCompleteDefs Conc.LinCompleteProofs.
Import ListNotations.

Definition methods : list string :=
  ["Add"; "Remove"; "Contains"; "GetFacts"; "Merge"; "ListPredicates"; "EstimateFactCount"]%string.
Definition writers : list string := ["Add"; "Remove"; "Merge"]%string.

(* The table generated from factstore/factstore.go on this run: the mutex is shared by
   all copies of the (value) receiver; all seven methods are present and nothing else;
   each is literally  acquire; defer release; [return] s.base.<same name>(same args),
   releases the kind it acquired, takes at least the read lock, and every method that
   writes to the base store takes the write lock. *)
Theorem lock_table_ok :
  t_mutex_shared lock_table = true /\
  (forall n, In n methods -> exists e, find_entry n (t_entries lock_table) = Some e) /\
  (forall e, In e (t_entries lock_table) ->
     In (e_name e) methods /\
     e_canonical e = true /\ e_deferred e = true /\ e_args_same e = true /\
     e_delegate e = e_name e /\
     e_release e = e_acquire e /\
     e_acquire e <> LNone /\
     (In (e_name e) writers -> e_acquire e = LWrite)).
Proof.
  split; [reflexivity|]. split.
  - intros n Hn. unfold methods in Hn. simpl in Hn.
    repeat (destruct Hn as [Hn|Hn]; [subst n; eexists; vm_compute; reflexivity|]). contradiction.
  - intros e He. unfold lock_table in He. simpl in He.
    repeat (destruct He as [He|He];
            [subst e; vm_compute; intuition (auto; congruence)|]).
    contradiction.
Qed.
Print Assumptions lock_table_ok.

(* ------------------------------------------------------------------------------------
   The model: any number n of threads, arbitrary programs pr, arbitrary initial set s0,
   arbitrary scheduler ([reachable] = closure of [step] over every choice of thread).
   [real_disc] is the lock discipline read from the generated table, so each theorem
   below is re-proved against factstore.go's current text on every run.
   ------------------------------------------------------------------------------------ *)

(* a thread inside the critical section of a writing method excludes every other thread
   from every critical section *)
Theorem mutual_exclusion :
  forall n pr s0 st t t' o,
    reachable real_disc n pr s0 st -> t <> t' ->
    in_cs (pcs st t) = true -> pc_op (pcs st t) = Some o -> mutating o = true ->
    in_cs (pcs st t') = false.
Proof. intros n pr s0 st t t' o. apply mutual_exclusion_lemma. exact real_disc_good. Qed.
Print Assumptions mutual_exclusion.

(* two base calls of which one writes never overlap (the model's data-race flag) *)
Theorem no_race_in_model :
  forall n pr s0 st, reachable real_disc n pr s0 st -> raced st = false.
Proof. intros n pr s0 st. apply no_race_lemma. exact real_disc_good. Qed.
Print Assumptions no_race_in_model.

(* every history (complete or not) of the model is linearizable w.r.t. the set machine:
   there is a sequential order S, legal for the set machine from s0, without repetition,
   containing every returned operation with the returned result, containing only invoked
   operations, and ordering a before b whenever a returned before b was invoked. *)
Theorem concurrent_linearizable :
  forall n pr s0 st,
    reachable real_disc n pr s0 st ->
    NoDup (inv_ids (hist st)) /\
    exists S : list lentry,
      seq_legal s0 S /\
      NoDup (ids S) /\
      (forall i t r, In (EResp i t r) (hist st) -> exists o, In (i, o, r) S) /\
      (forall i o r, In (i, o, r) S -> exists t, In (EInv i t o) (hist st)) /\
      (forall i j, before (is_resp i) (is_inv j) (hist st) -> In j (ids S) ->
                   before (has_id i) (has_id j) S).
Proof.
  intros n pr s0 st R. split.
  - exact (hist_ids_nodup _ _ _ _ _ real_disc_good R).
  - exact (linearizable_lemma _ _ _ _ _ real_disc_good R).
Qed.
Print Assumptions concurrent_linearizable.

(* every method releases what it takes: when no call is in progress the mutex is free *)
Theorem lock_released_at_end :
  forall n pr s0 st,
    reachable real_disc n pr s0 st -> (forall t, pcs st t = Idle) ->
    lockw st = None /\ lockr st = [].
Proof. intros n pr s0 st. apply lock_free_at_end. exact real_disc_good. Qed.
Print Assumptions lock_released_at_end.

(* the executable checker that judges the histories recorded from the Go store only
   accepts linearizable histories *)
Theorem lin_check_sound :
  forall s0 H, lin_check s0 H = true ->
    exists S : list lentry,
      seq_legal s0 S /\
      NoDup (ids S) /\
      (forall i t r, In (EResp i t r) H -> exists o, In (i, o, r) S) /\
      (forall i o r, In (i, o, r) S -> exists t, In (EInv i t o) H) /\
      (forall i j, before (is_resp i) (is_inv j) H -> In j (ids S) ->
                   before (has_id i) (has_id j) S).
Proof. exact lin_check_sound_lemma. Qed.
Print Assumptions lin_check_sound.

(* the checker is also COMPLETE: it accepts every linearizable history that is thread-wise
   well formed, i.e. call ids are unique and, walking the history with the map
   "thread -> id of its call in progress" ([wf_from], Conc/LinCompleteDefs.v), an
   invocation finds its thread idle and a response answers the call in progress of its
   thread.  No size bound, incomplete histories included.  The proof shows that the memo
   table only ever holds positions without a successful continuation, that the fuel
   suffices on every explored branch (LinCompleteProofs.chk_spec), and that the lazy
   search can follow any given sequential order (LinCompleteProofs.sim). *)
Theorem lin_check_complete :
  forall s0 H,
    NoDup (inv_ids H) -> wf_from (fun _ => None) H ->
    (exists S : list lentry,
      seq_legal s0 S /\
      NoDup (ids S) /\
      (forall i t r, In (EResp i t r) H -> exists o, In (i, o, r) S) /\
      (forall i o r, In (i, o, r) S -> exists t, In (EInv i t o) H) /\
      (forall i j, before (is_resp i) (is_inv j) H -> In j (ids S) ->
                   before (has_id i) (has_id j) S)) ->
    lin_check s0 H = true.
Proof. exact lin_check_complete_lemma. Qed.
Print Assumptions lin_check_complete.

(* hence on well-formed histories the checker decides linearizability exactly *)
Theorem lin_check_exact :
  forall s0 H,
    NoDup (inv_ids H) -> wf_from (fun _ => None) H ->
    (lin_check s0 H = true <->
     exists S : list lentry,
      seq_legal s0 S /\
      NoDup (ids S) /\
      (forall i t r, In (EResp i t r) H -> exists o, In (i, o, r) S) /\
      (forall i o r, In (i, o, r) S -> exists t, In (EInv i t o) H) /\
      (forall i j, before (is_resp i) (is_inv j) H -> In j (ids S) ->
                   before (has_id i) (has_id j) S)).
Proof. exact lin_check_exact_lemma. Qed.
Print Assumptions lin_check_exact.

(* and without any hypothesis: the checker accepts exactly the well-formed linearizable
   histories (the well-formedness hypothesis above is as weak as is true) *)
Theorem lin_check_characterisation :
  forall s0 H,
    lin_check s0 H = true <->
    (NoDup (inv_ids H) /\ wf_from (fun _ => None) H /\
     exists S : list lentry,
      seq_legal s0 S /\
      NoDup (ids S) /\
      (forall i t r, In (EResp i t r) H -> exists o, In (i, o, r) S) /\
      (forall i o r, In (i, o, r) S -> exists t, In (EInv i t o) H) /\
      (forall i j, before (is_resp i) (is_inv j) H -> In j (ids S) ->
                   before (has_id i) (has_id j) S)).
Proof. exact lin_check_char_lemma. Qed.
Print Assumptions lin_check_characterisation.

(* the hypotheses of lin_check_complete are met by a history with overlapping calls in
   which the call that returns last takes effect first *)
Example lin_check_complete_hypotheses_met :
  let h := [EInv 0 0 (Add (0, 1)%Z); EInv 1 1 (Contains (0, 1)%Z);
            EResp 1 1 (RBool true); EResp 0 0 (RBool true)] in
  NoDup (inv_ids h) /\ wf_from (fun _ => None) h /\ linearizable [] h /\ lin_check [] h = true.
Proof.
  simpl. split; [repeat constructor; simpl; intuition discriminate|].
  split; [vm_compute; auto|].
  split; [apply lin_check_sound_lemma; vm_compute; reflexivity|vm_compute; reflexivity].
Qed.

(* well-formedness cannot be dropped: two overlapping calls of ONE thread form a
   linearizable history in the sense of the definition (empty order), which the checker
   rejects as ill-formed *)
Example lin_check_needs_well_formed :
  let h := [EInv 0 0 (Contains (0, 1)%Z); EInv 1 0 (Contains (0, 1)%Z)] in
  linearizable [] h /\ lin_check [] h = false.
Proof.
  simpl. split; [|vm_compute; reflexivity].
  exists []. simpl. split; [exact I|]. split; [constructor|].
  split; [intros i t r [E|[E|[]]]; discriminate|].
  split; [intros i o r []|intros i j _ []].
Qed.

(* ---- non-vacuity ---- *)
Definition ex_progs (t : nat) : list op :=
  match t with
  | 0%nat => [Add (0, 1)%Z; Contains (0, 1)%Z]
  | 1%nat => [Add (0, 2)%Z; Count]
  | 2%nat => [GetFacts 0%Z None]
  | _ => []
  end.

Local Open Scope nat_scope.

(* thread 0 is inside Add's critical section, threads 1 and 2 have called and wait *)
Example mutual_exclusion_hypotheses_met :
  let st := run real_disc (init 3 ex_progs []) [0; 0; 0; 1; 1; 2; 2] in
  reachable real_disc 3 ex_progs [] st /\
  in_cs (pcs st 0) = true /\ pc_op (pcs st 0) = Some (Add (0, 1)%Z) /\
  pcs st 1 = Invoked 1 (Add (0, 2)%Z) /\ pcs st 2 = Invoked 2 (GetFacts 0%Z None).
Proof. split; [apply run_reachable; apply reach_init|vm_compute; auto]. Qed.

(* a complete run with overlapping calls; its history passes the checker *)
Example complete_run :
  let st := run real_disc (init 3 ex_progs [])
                (concat (repeat [0; 1; 2] 14)) in
  pcs st 0 = Idle /\ pcs st 1 = Idle /\ pcs st 2 = Idle /\ length (hist st) = 10 /\ shared st = [(0, 1); (0, 2)]%Z /\
  lin_check [] (hist st) = true.
Proof. vm_compute. repeat split; auto. Qed.

(* ---- refutation witness: what the theorems exclude ----
   If Add took only the read lock (Lock edited into RLock in factstore.go), the model has
   a schedule with two overlapping writing base calls, a lost update (Add(p0(1)) returned
   true, nobody removed it, a later Contains(p0(1)) returns false) and the checker rejects
   the history. *)
Definition rlock_add_disc : disc := fun o =>
  match o with Add _ => (LRead, LRead) | _ => real_disc o end.

Theorem rlock_add_refuted :
  let st := run rlock_add_disc (init 2 ex_progs []) [0; 0; 0; 1; 1; 1; 0; 1; 0; 1; 0; 0; 0; 0; 0] in
  raced st = true /\
  In (EResp 0 0 (RBool true)) (hist st) /\ In (EResp 4 0 (RBool false)) (hist st) /\
  lin_check [] (hist st) = false.
Proof. vm_compute. repeat split; auto 10. Qed.
Print Assumptions rlock_add_refuted.
