(* C14 - temporal operators and annotations mean what the documentation says.
   Property theorems only; each is closed by an exact reference to a lemma of
   Temporal/OperatorsProofs.v or Temporal/AllenProofs.v. Times are int64 Unix
   nanoseconds; [holds i t] = the stored interval i contains the instant t;
   [atom_holds St a t] = some stored interval of atom a contains t;
   [store_valid] = what ast.NewInterval / TemporalStore.Add guarantee;
   [coalesced] = intervals of one atom pairwise neither overlapping nor
   adjacent. The evaluators ([diamond_facts], [box_facts], [eval_plain],
   [derive_one], [resolve_past], [resolve_future]) are the model of
   engine/temporal.go in Temporal/Operators.v. *)
From Coq Require Import List ZArith Bool Lia.
From MV Require Import Temporal.ITree Temporal.Operators Temporal.OperatorsProofs Temporal.Allen Temporal.AllenProofs.
Import ListNotations.
Open Scope Z_scope.

(* ---- past and future diamond: some instant of the window *)
Theorem diamond_minus_exact : forall now d1 d2 St p ts s f s',
  0 <= d1 <= d2 -> in64 now -> in64 d2 -> minInt64 <= now - d2 -> store_valid St ->
  (In (f, s') (diamond_facts St (resolve_past now (BDur d1, BDur d2)) p ts s) <->
   In f St /\ fst (fst f) = p /\ unify ts (snd (fst f)) s = Some s' /\
   exists t, now - d2 <= t <= now - d1 /\ holds (snd f) t).
Proof. exact OperatorsProofs.diamond_minus_exact. Qed.
Print Assumptions diamond_minus_exact.

Theorem diamond_plus_exact : forall now d1 d2 St p ts s f s',
  0 <= d1 <= d2 -> in64 now -> now + d2 <= maxInt64 -> store_valid St ->
  (In (f, s') (diamond_facts St (resolve_future now (BDur d1, BDur d2)) p ts s) <->
   In f St /\ fst (fst f) = p /\ unify ts (snd (fst f)) s = Some s' /\
   exists t, now + d1 <= t <= now + d2 /\ holds (snd f) t).
Proof. exact OperatorsProofs.diamond_plus_exact. Qed.
Print Assumptions diamond_plus_exact.

(* ---- past and future box on a coalesced store: every instant of the window *)
Theorem box_minus_exact : forall now d1 d2 St p ts s a s',
  0 <= d1 <= d2 -> in64 now -> in64 d2 -> minInt64 <= now - d2 -> store_valid St -> coalesced St ->
  ((exists i, In (((p, a), i), s') (box_facts St (resolve_past now (BDur d1, BDur d2)) p ts s)) <->
   unify ts a s = Some s' /\ forall t, now - d2 <= t <= now - d1 -> atom_holds St (p, a) t).
Proof. exact OperatorsProofs.box_minus_exact. Qed.
Print Assumptions box_minus_exact.

Theorem box_plus_exact : forall now d1 d2 St p ts s a s',
  0 <= d1 <= d2 -> in64 now -> now + d2 <= maxInt64 -> store_valid St -> coalesced St ->
  ((exists i, In (((p, a), i), s') (box_facts St (resolve_future now (BDur d1, BDur d2)) p ts s)) <->
   unify ts a s = Some s' /\ forall t, now + d1 <= t <= now + d2 -> atom_holds St (p, a) t).
Proof. exact OperatorsProofs.box_plus_exact. Qed.
Print Assumptions box_plus_exact.

(* the solutions of an operator literal are exactly the facts selected above,
   each extended by the binding of the annotation variables *)
Theorem operator_solutions : forall now St l s w k s'',
  t_op l = Some (k, w) ->
  (In s'' (eval_tlit now St l s) <->
   exists f s', s'' = bind_ann (t_ann l) (snd f) s' /\
     In (f, s') (match k with
                 | DiamondMinus => diamond_facts St (resolve_past now w) (t_pred l) (t_args l) s
                 | BoxMinus => box_facts St (resolve_past now w) (t_pred l) (t_args l) s
                 | DiamondPlus => diamond_facts St (resolve_future now w) (t_pred l) (t_args l) s
                 | BoxPlus => box_facts St (resolve_future now w) (t_pred l) (t_args l) s
                 end)).
Proof. exact OperatorsProofs.operator_solutions. Qed.
Print Assumptions operator_solutions.

(* ---- an annotation @[S, E] with fresh distinct variables enumerates exactly
   the stored intervals of the matching atoms (start and end as time constants) *)
Theorem annotation_enumerates : forall now St p ts vs ve s s'',
  vs <> ve -> lookup_var vs s = None -> lookup_var ve s = None ->
  ~ In (TVar vs) ts -> ~ In (TVar ve) ts ->
  (In s'' (eval_plain now St p ts (Some (BVar vs, BVar ve)) s) <->
   exists f s', In f St /\ fst (fst f) = p /\ unify ts (snd (fst f)) s = Some s' /\
     s'' = (ve, CTime (ke (snd f))) :: (vs, CTime (ks (snd f))) :: s').
Proof. exact OperatorsProofs.annotation_enumerates. Qed.
Print Assumptions annotation_enumerates.

(* ---- a head annotation yields the derived atom with exactly the resolved
   interval (timestamps as written, variables by their time/number value,
   now = evaluation time, infinities, normalised as ast.NewInterval does);
   an unresolvable one is an error *)
Theorem head_time_exact : forall now r s cs h bs be,
  r_time r = Some h -> inst_args (r_args r) s = Some cs ->
  bound_value now s (fst h) = Some bs -> bound_value now s (snd h) = Some be ->
  derive_one now r s = inl ((r_pred r, cs), Some (norm_iv (bs, be))).
Proof. exact OperatorsProofs.head_time_exact. Qed.
Print Assumptions head_time_exact.

Theorem head_time_unresolved_is_error : forall now r s cs h,
  r_time r = Some h -> inst_args (r_args r) s = Some cs ->
  (bound_value now s (fst h) = None \/ bound_value now s (snd h) = None) ->
  derive_one now r s = inr 1.
Proof. exact OperatorsProofs.head_time_unresolved. Qed.
Print Assumptions head_time_unresolved_is_error.

(* ---- interval relations = documented definitions on closed intervals
   [s, e] ([inside s e t] = s <= t <= e) *)
Theorem allen_before_def : forall s1 e1 s2 e2, allen_before (closed s1 e1) (closed s2 e2) = true <-> e1 < s2.
Proof. exact before_def. Qed.
Print Assumptions allen_before_def.
Theorem allen_after_def : forall s1 e1 s2 e2, allen_after (closed s1 e1) (closed s2 e2) = true <-> e2 < s1.
Proof. exact after_def. Qed.
Print Assumptions allen_after_def.
Theorem allen_meets_def : forall s1 e1 s2 e2, allen_meets (closed s1 e1) (closed s2 e2) = true <-> e1 = s2.
Proof. exact meets_def. Qed.
Print Assumptions allen_meets_def.
Theorem allen_overlaps_def : forall s1 e1 s2 e2, s1 <= e1 -> s2 <= e2 ->
  (allen_overlaps (closed s1 e1) (closed s2 e2) = true <-> exists t, inside s1 e1 t /\ inside s2 e2 t).
Proof. exact overlaps_def. Qed.
Print Assumptions allen_overlaps_def.
Theorem allen_during_def : forall s1 e1 s2 e2, s1 <= e1 ->
  (allen_during (closed s1 e1) (closed s2 e2) = true <-> forall t, inside s1 e1 t -> inside s2 e2 t).
Proof. exact during_def. Qed.
Print Assumptions allen_during_def.
Theorem allen_contains_def : forall s1 e1 s2 e2, s2 <= e2 ->
  (allen_contains (closed s1 e1) (closed s2 e2) = true <-> forall t, inside s2 e2 t -> inside s1 e1 t).
Proof. exact contains_def. Qed.
Print Assumptions allen_contains_def.
Theorem allen_starts_def : forall s1 e1 s2 e2, allen_starts (closed s1 e1) (closed s2 e2) = true <-> s1 = s2.
Proof. exact starts_def. Qed.
Print Assumptions allen_starts_def.
Theorem allen_finishes_def : forall s1 e1 s2 e2, allen_finishes (closed s1 e1) (closed s2 e2) = true <-> e1 = e2.
Proof. exact finishes_def. Qed.
Print Assumptions allen_finishes_def.
Theorem allen_equals_def : forall s1 e1 s2 e2, allen_equals (closed s1 e1) (closed s2 e2) = true <-> s1 = s2 /\ e1 = e2.
Proof. exact equals_def. Qed.
Print Assumptions allen_equals_def.

(* converse pairs and symmetry, for all intervals including unbounded ones *)
Theorem allen_converse : forall a b : iv,
  allen_after a b = allen_before b a /\ allen_contains a b = allen_during b a.
Proof. exact converse. Qed.
Print Assumptions allen_converse.
Theorem allen_symmetric : forall a b : iv,
  allen_overlaps a b = allen_overlaps b a /\ allen_equals a b = allen_equals b a /\
  allen_starts a b = allen_starts b a /\ allen_finishes a b = allen_finishes b a.
Proof. exact symmetric. Qed.
Print Assumptions allen_symmetric.
Theorem allen_before_overlaps_after : forall s1 e1 s2 e2, s1 <= e1 -> s2 <= e2 ->
  let a := closed s1 e1 in let b := closed s2 e2 in
  (allen_before a b = true /\ allen_overlaps a b = false /\ allen_after a b = false) \/
  (allen_before a b = false /\ allen_overlaps a b = true /\ allen_after a b = false) \/
  (allen_before a b = false /\ allen_overlaps a b = false /\ allen_after a b = true).
Proof. exact trichotomy. Qed.
Print Assumptions allen_before_overlaps_after.

(* ---- non-vacuity: a coalesced valid store, an evaluation time and windows
   (zero-length, touching an end point) meeting every hypothesis above, and the
   operators deciding differently on it *)
Definition ex_store : list fact :=
  [((0, [CName 1]), (Ts 1, Ts 2)); ((0, [CName 1]), (Ts 4, Ts 6)); ((0, [CName 2]), (NegInf, Ts 3))].
Example ex_store_valid : store_valid ex_store.
Proof.
  intros f [H|[H|[H|[]]]]; subst; unfold proper, in64, ks, ke, minInt64, maxInt64; cbn;
    repeat split; try discriminate; try lia.
Qed.
Example ex_store_coalesced : coalesced ex_store.
Proof.
  intros a i j Hi Hj. cbn in Hi, Hj.
  destruct Hi as [Hi|[Hi|[Hi|[]]]]; destruct Hj as [Hj|[Hj|[Hj|[]]]];
    inversion Hi; inversion Hj; subst; try congruence; try (left; reflexivity);
    unfold ks, ke; cbn; lia.
Qed.
Example ex_hypotheses : 0 <= 1 <= 3 /\ in64 5 /\ in64 3 /\ minInt64 <= 5 - 3 /\ 5 + 3 <= maxInt64.
Proof. unfold in64, minInt64, maxInt64. lia. Qed.
(* now = 5: <-[1,3] sees [2,4]: both atoms; [-[1,3] neither is continuous on [2,4] for /c1 (gap at 3) *)
Example ex_diamond_minus :
  map (fun fs : fact * subst => fst (fst fs)) (diamond_facts ex_store (resolve_past 5 (BDur 1, BDur 3)) 0 [TVar 0] [])
  = [(0, [CName 1]); (0, [CName 1]); (0, [CName 2])].
Proof. vm_compute. reflexivity. Qed.
Example ex_box_minus : box_facts ex_store (resolve_past 5 (BDur 1, BDur 3)) 0 [TVar 0] [] = [].
Proof. vm_compute. reflexivity. Qed.
(* zero-length window touching the end point 6 of [4,6]: now = 5, [+[1,1] *)
Example ex_box_plus_touching :
  map (fun fs : fact * subst => fst fs) (box_facts ex_store (resolve_future 5 (BDur 1, BDur 1)) 0 [TVar 0] [])
  = [((0, [CName 1]), (Ts 4, Ts 6))].
Proof. vm_compute. reflexivity. Qed.
Example ex_box_plus_past_end : box_facts ex_store (resolve_future 5 (BDur 1, BDur 2)) 0 [TVar 0] [] = [].
Proof. vm_compute. reflexivity. Qed.
Example ex_annotation :
  eval_plain 5 ex_store 0 [TCst (CName 2)] (Some (BVar 10, BVar 11)) []
  = [[(11, CTime 3); (10, CTime minInt64)]].
Proof. vm_compute. reflexivity. Qed.
Example ex_head_time :
  derive_one 5 {| r_pred := 7; r_args := [TVar 0]; r_time := Some (BVar 10, BNow); r_prem := [] |}
             [(0, CName 1); (10, CTime 2)]
  = inl ((7, [CName 1]), Some (Ts 2, Ts 5)).
Proof. vm_compute. reflexivity. Qed.
Example ex_overlaps_hyp : allen_overlaps (closed 1 3) (closed 3 5) = true /\ allen_meets (closed 1 3) (closed 3 5) = true.
Proof. split; reflexivity. Qed.

(* ---- witnesses outside the hypotheses (recorded observations / findings) *)
(* N4: with a reversed past window [3,1] the diamond behaves like a box: the
   fact [4,6] holds at 3 = now-2 ... here now = 7: window instants 4..6 would
   be [now-3, now-1]; a fact holding only at 5 is not returned *)
Theorem diamond_reversed_window_refuted :
  let St := [((0, [CName 1]), (Ts 5, Ts 5))] in
  diamond_facts St (resolve_past 7 (BDur 3, BDur 1)) 0 [TVar 0] [] = [] /\
  (exists t, 7 - 3 <= t <= 7 - 1 /\ holds (Ts 5, Ts 5) t).
Proof. split; [vm_compute; reflexivity | exists 5; unfold holds, ks, ke; cbn; lia]. Qed.
Print Assumptions diamond_reversed_window_refuted.

(* int64 wrap in now - d2: the no-overflow hypothesis cannot be dropped *)
Theorem diamond_minus_overflow_refuted :
  let now := minInt64 + 1 in
  let St := [((0, [CName 1]), (Ts (minInt64 + 1), Ts (minInt64 + 1)))] in
  diamond_facts St (resolve_past now (BDur 0, BDur 5)) 0 [TVar 0] [] = [] /\
  (exists t, now - 5 <= t <= now - 0 /\ holds (Ts (minInt64 + 1), Ts (minInt64 + 1)) t).
Proof.
  split; [vm_compute; reflexivity |].
  exists (minInt64 + 1). unfold holds, ks, ke, minInt64; cbn; lia.
Qed.
Print Assumptions diamond_minus_overflow_refuted.

(* finding N60: an annotation variable that is already bound is not compared
   with the fact's end point when the other variable is unbound: with E = 2
   the literal e(X)@[E, E2] returns the fact [5,6] *)
Theorem annotation_bound_variable_ignored_refuted :
  eval_plain 3 [((1, [CName 1]), (Ts 5, Ts 6))] 1 [TVar 0] (Some (BVar 11, BVar 12)) [(11, CTime 2); (0, CName 1)]
  = [[(12, CTime 6); (11, CTime 2); (0, CName 1)]].
Proof. vm_compute. reflexivity. Qed.
Print Assumptions annotation_bound_variable_ignored_refuted.

(* without coalescing the box operator is incomplete: [1,3] and [4,6] cover
   [2,5] but no single interval does *)
Theorem box_uncoalesced_refuted :
  let St := [((0, [CName 1]), (Ts 1, Ts 3)); ((0, [CName 1]), (Ts 4, Ts 6))] in
  box_facts St (resolve_past 6 (BDur 1, BDur 4)) 0 [TVar 0] [] = [] /\
  (forall t, 6 - 4 <= t <= 6 - 1 -> atom_holds St (0, [CName 1]) t).
Proof.
  split; [vm_compute; reflexivity |].
  intros t Ht. destruct (Z_le_gt_dec t 3).
  - exists (Ts 1, Ts 3). split; [left; reflexivity | unfold holds, ks, ke; cbn; lia].
  - exists (Ts 4, Ts 6). split; [right; left; reflexivity | unfold holds, ks, ke; cbn; lia].
Qed.
Print Assumptions box_uncoalesced_refuted.
