(* C14 - temporal operators and annotations mean what the documentation says.
   Property theorems only (being filled in). *)
From Coq Require Import List ZArith.
From MV Require Import Temporal.ITree Temporal.Operators Temporal.Allen.
