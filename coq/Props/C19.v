(* C19 - a saved fact store reloads to the same set of facts. *)
From Coq Require Import List ZArith Bool.
From MV Require Import Serde.SimpleColumn Serde.SimpleColumnProofs.
Import ListNotations.
Open Scope Z_scope.

(* A constant c is admissible on a line when its printed form is non-empty, has no
   newline, does not end in CR, is shorter than the scanner's 64 KiB token limit
   after name escaping, and parses back to c (the C08/C09 round trip):
     const_ok c := print c <> [] /\ ~ In 10 (print c) /\ last (print c) 0 <> 13 /\
                   Z.of_nat (length (esc_line fixed (print c))) < 65536 /\ parse (print c) = Some c.
   A listed predicate e = ((symbol, arity), rows) is admissible (pred_ok) when the symbol is
   non-empty without blank / newline, its header line is shorter than 64 KiB, arity <= 1024,
   at most 2^32 rows, every row has `arity` admissible constants, and a zero-arity predicate
   lists at most one fact. [ordered det S] is the order WriteTo emits (S itself without the
   deterministic option; sorted by (arity, symbol) and (Atom.Hash, Atom.String) with it). *)

(* read_into (write S) = S: for every store, plain / gzip / zstd (any pair of functions with
   decompress (compress b) = b), deterministic or not, ReadInto performs exactly the Add calls
   of the written facts, in the order written; and those are the facts of S. *)
Theorem read_write_exact :
  forall (const : Type) (const_eqb : const -> const -> bool) (print : const -> bytes)
         (parse : bytes -> option const) (fhash : bytes -> list const -> Z)
         (compress decompress : bytes -> bytes),
    (forall b, decompress (compress b) = b) ->
    forall (St : pstore const) (det : bool),
      Forall (pred_ok const print parse) (ordered print fhash det St) ->
      Z.of_nat (length St) <= max_num_preds ->
      exists ls added,
        write const print fhash fixed det St = Some ls /\
        read_into const const_eqb parse fixed (scan_lines (decompress (compress (unlines ls)))) = Some added /\
        added = facts_of (ordered print fhash det St) /\
        (forall f, In f added <-> In f (facts_of St)).
Proof.
  intros const const_eqb print parse fhash compress decompress Hc St det F L.
  destruct (read_write_exact_all const const_eqb print parse fhash St det F L) as [ls [W R]].
  exists ls, (facts_of (ordered print fhash det St)). rewrite Hc.
  split; [exact W|]. split; [exact R|]. split; [reflexivity|].
  intro f. apply ordered_same_facts.
Qed.
Print Assumptions read_write_exact.

(* the hypotheses are satisfiable by a store with a '%' name, a zero-arity fact, an empty
   predicate and two columns (constants are their own printed form here) *)
Definition ex_store : pstore bytes := [(([112], 1%nat), [[[47; 37]]])].      (* p(/%) *)
Example read_write_exact_nonvacuous :
  Forall (pred_ok bytes (fun c => c) (fun b => Some b)) (ordered (fun c => c) (fun _ _ => 0) false ex_store) /\
  Z.of_nat (length ex_store) <= max_num_preds.
Proof.
  split; [|vm_compute; discriminate].
  unfold ordered, ex_store. constructor; [|constructor].
  unfold pred_ok. cbn [fst snd].
  split; [discriminate|].
  split; [intros [H|[]]; discriminate|].
  split; [intros [H|[]]; discriminate|].
  split; [vm_compute; reflexivity|].
  split; [vm_compute; discriminate|].
  split; [vm_compute; discriminate|].
  split; [|discriminate].
  intros r [<-|[]]. split; [reflexivity|]. constructor; [|constructor].
  unfold const_ok.
  split; [discriminate|].
  split; [intros [H|[H|[]]]; discriminate|].
  split; [vm_compute; discriminate|].
  split; [vm_compute; reflexivity|reflexivity].
Qed.

(* One predicate block under a query pattern (the core of the lazy store): reading the
   column-major block of `rows` with the filter FS of a query returns exactly the rows
   that match the constants of the pattern, in order, and leaves the rest of the file.
   Full statement of lazy_get_facts_exact, of which this is the proved part:
     forall S det q ls, pred_ok on (ordered det S), NoDup (map fst S), length (snd q) = arity ->
       write fixed det S = Some ls ->
       exists lz, lz_new (unlines ls) = Some lz /\
         lz_get_facts lz q = Some (filter (matches q) (facts_of (ordered det S)))
   (remaining: the offset lemma 1 + n + sum count*arity over `locate`). *)
Theorem lazy_get_facts_exact_partial :
  forall (const : Type) (const_eqb : const -> const -> bool) (print : const -> bytes)
         (parse : bytes -> option const)
         (ar : nat) (FS : list (option const)) (rows : list (list const)) (rest : list bytes),
    length FS = ar ->
    (forall r, In r rows -> length r = ar /\ Forall (const_ok const print parse) r) ->
    read_pred const const_eqb parse ar (Z.of_nat (length rows)) FS
              (flat_map (fun j => map (fun r => cell const print fixed r j) rows) (seq 0 ar) ++ rest)
    = Some (filter (args_match const const_eqb FS) rows, rest).
Proof.
  intros const const_eqb print parse ar FS rows rest H1 H2.
  exact (read_pred_ok const const_eqb print parse ar FS rows rest H1 H2).
Qed.
Print Assumptions lazy_get_facts_exact_partial.

(* deterministic_bytes - NOT proved in this round. Full statement:
     forall S1 S2, NoDup (map fst S1) -> Permutation (map fst S1) (map fst S2) ->
       (forall p r1 r2, In (p, r1) S1 -> In (p, r2) S2 -> NoDup r1 /\ Permutation r1 r2) ->
       (Atom.String injective on the rows of each predicate) ->
       write V true S1 = write V true S2
   The order sorted by: predicates by (arity, symbol bytewise), facts by (Atom.Hash, Atom.String
   bytewise). Checked on every deterministic case of the correspondence (bytes from a reordered
   listing and from four in-memory store kinds must be equal). The proved ingredient: *)
Theorem deterministic_bytes_partial :
  forall (const : Type) (print : const -> bytes) (fhash : bytes -> list const -> Z)
         (St : pstore const) (f : fact const),
    In f (facts_of (ordered print fhash true St)) <-> In f (facts_of St).
Proof.
  intros. apply ordered_same_facts.
Qed.
Print Assumptions deterministic_bytes_partial.

(* Concrete instance for the witnesses: a constant is its own printed form. *)
Definition w_print (c : bytes) : bytes := c.
Definition w_parse (b : bytes) : option bytes := Some b.
Definition w_hash (_ : bytes) (_ : list bytes) : Z := 0.

(* F12 (before the repair): p(/a%41b) is written raw and read back as p(/aAb). *)
Theorem percent_name_refuted :
  exists (St : pstore bytes) (ls : list bytes),
    write bytes w_print w_hash original false St = Some ls /\
    read_into bytes bytes_eqb w_parse original (scan_lines (unlines ls)) <> Some (facts_of St).
Proof.
  exists [(([112], 1%nat), [[[47; 97; 37; 52; 49; 98]]])].
  eexists. split; [vm_compute; reflexivity | vm_compute; discriminate].
Qed.
Print Assumptions percent_name_refuted.

(* N40 (before the repair): a listed zero-arity predicate without a fact comes back with one. *)
Theorem zero_arity_empty_refuted :
  exists (St : pstore bytes) (ls : list bytes),
    write bytes w_print w_hash original false St = Some ls /\
    facts_of St = [] /\
    read_into bytes bytes_eqb w_parse original (scan_lines (unlines ls)) = Some [(([122], 0%nat), [])].
Proof.
  exists [(([122], 0%nat), [])].
  eexists. split; [vm_compute; reflexivity | split; vm_compute; reflexivity].
Qed.
Print Assumptions zero_arity_empty_refuted.
