(* C19 - a saved fact store reloads to the same set of facts. *)
From Coq Require Import List ZArith Bool.
From MV Require Import Serde.SimpleColumn.
Import ListNotations.
Open Scope Z_scope.

(* Concrete instance for the witnesses: a constant is its own printed form. *)
Definition w_print (c : bytes) : bytes := c.
Definition w_parse (b : bytes) : option bytes := Some b.
Definition w_hash (_ : bytes) (_ : list bytes) : Z := 0.

(* F12 (before the repair): p(/a%41b) is written raw and read back as p(/aAb). *)
Theorem percent_name_refuted :
  exists (St : pstore bytes) (ls : list bytes),
    write bytes w_print w_hash original false St = Some ls /\
    read_into bytes bytes_eqb w_parse original (scan_lines (unlines ls)) <> Some (facts_of St).
Proof.
  exists [(([112], 1%nat), [[[47; 97; 37; 52; 49; 98]]])].
  eexists. split; [vm_compute; reflexivity | vm_compute; discriminate].
Qed.
Print Assumptions percent_name_refuted.

(* N40 (before the repair): a listed zero-arity predicate without a fact comes back with one. *)
Theorem zero_arity_empty_refuted :
  exists (St : pstore bytes) (ls : list bytes),
    write bytes w_print w_hash original false St = Some ls /\
    facts_of St = [] /\
    read_into bytes bytes_eqb w_parse original (scan_lines (unlines ls)) = Some [(([122], 0%nat), [])].
Proof.
  exists [(([122], 0%nat), [])].
  eexists. split; [vm_compute; reflexivity | split; vm_compute; reflexivity].
Qed.
Print Assumptions zero_arity_empty_refuted.
