(* C19 - a saved fact store reloads to the same set of facts. *)
From Coq Require Import List ZArith Bool Lia Permutation.
From MV Require Import Serde.SimpleColumn Serde.SimpleColumnProofs
                       Serde.SimpleColumnLazyProofs Serde.SimpleColumnDetProofs.
Import ListNotations.
Open Scope Z_scope.

(* A constant c is admissible on a line when its printed form is non-empty, has no
   newline, does not end in CR, is shorter than the scanner's 64 KiB token limit
   after name escaping, and parses back to c (the C08/C09 round trip):
     const_ok c := print c <> [] /\ ~ In 10 (print c) /\ last (print c) 0 <> 13 /\
                   Z.of_nat (length (esc_line fixed (print c))) < 65536 /\ parse (print c) = Some c.
   A listed predicate e = ((symbol, arity), rows) is admissible (pred_ok) when the symbol is
   non-empty without blank / newline, its header line is shorter than 64 KiB, arity <= 1024,
   at most 2^32 rows, every row has `arity` admissible constants, and a zero-arity predicate
   lists at most one fact. A store St (ListPredicates in its order, per predicate the atoms
   GetFacts yields in its order) is admissible when every listed predicate is and there are
   at most 65536 of them. [ordered det St] is the order WriteTo emits (St itself without the
   deterministic option; sorted by (arity, symbol) and (Atom.Hash, Atom.String) with it). *)

(* read_into (write S) = S: for every admissible store, plain / gzip / zstd (any pair of
   functions with decompress (compress b) = b), deterministic or not, ReadInto performs exactly
   the Add calls of the written facts, in the order written; and those are the facts of S,
   each as often as S lists it. *)
Theorem read_write_exact :
  forall (const : Type) (const_eqb : const -> const -> bool) (print : const -> bytes)
         (parse : bytes -> option const) (fhash : bytes -> list const -> Z)
         (compress decompress : bytes -> bytes),
    (forall b, decompress (compress b) = b) ->
    forall (St : pstore const) (det : bool),
      Forall (pred_ok const print parse) St ->
      Z.of_nat (length St) <= max_num_preds ->
      exists ls added,
        write const print fhash fixed det St = Some ls /\
        read_into const const_eqb parse fixed (scan_lines (decompress (compress (unlines ls)))) = Some added /\
        added = facts_of (ordered print fhash det St) /\
        Permutation added (facts_of St) /\
        (forall f, In f added <-> In f (facts_of St)).
Proof.
  intros const const_eqb print parse fhash compress decompress Hc St det F L.
  destruct (read_write_exact_store const const_eqb print parse fhash St det F L) as [ls [W R]].
  exists ls, (facts_of (ordered print fhash det St)). rewrite Hc.
  split; [exact W|]. split; [exact R|]. split; [reflexivity|].
  split; [apply ordered_facts_perm|].
  intro f. apply ordered_same_facts.
Qed.
Print Assumptions read_write_exact.

(* Witness store for the hypotheses (constants are their own printed form): a zero-arity
   fact z, an empty predicate e/1, and p/2 with a '%' name: p(/%, a), p(b, c). *)
Definition ex_store : pstore bytes :=
  [ (([122], 0%nat), [[]]);
    (([101], 1%nat), []);
    (([112], 2%nat), [[[47; 37]; [97]]; [[98]; [99]]]) ].

Ltac t_const_ok :=
  split; [discriminate|]; split; [cbn; intuition discriminate|];
  split; [vm_compute; discriminate|]; split; [vm_compute; reflexivity|reflexivity].
Ltac t_rows_ok :=
  let r := fresh "r" in let Hr := fresh "Hr" in
  intros r Hr; cbn in Hr;
  repeat (destruct Hr as [<-|Hr];
          [split; [reflexivity | repeat (constructor; [t_const_ok|]); constructor] |]);
  destruct Hr.
Ltac t_pred_ok :=
  unfold pred_ok; cbn [fst snd];
  split; [discriminate|]; split; [cbn; intuition discriminate|]; split; [cbn; intuition discriminate|];
  split; [vm_compute; reflexivity|]; split; [vm_compute; discriminate|]; split; [vm_compute; discriminate|];
  split; [t_rows_ok | cbn; intros; try discriminate; lia].

Lemma ex_store_ok : Forall (pred_ok bytes (fun c => c) (fun b => Some b)) ex_store.
Proof. unfold ex_store. repeat (constructor; [t_pred_ok|]). constructor. Qed.

Example read_write_exact_nonvacuous :
  Forall (pred_ok bytes (fun c => c) (fun b => Some b)) ex_store /\
  Z.of_nat (length ex_store) <= max_num_preds.
Proof. split; [exact ex_store_ok | vm_compute; discriminate]. Qed.

(* The lazy store: for every admissible store whose listing names no predicate twice and
   every query atom q (Some c = constant, None = variable, as many arguments as the arity of
   its predicate symbol), NewSimpleColumnStore succeeds on the written bytes and GetFacts calls
   back exactly the written facts that match q, in file order; as a set these are the facts of
   St that match q. The proof is the offset lemma (locate_answer: after the header entries of
   St1 the loop has counted 1 + n + sum count*arity lines = header + blocks of St1) composed
   with read_pred_exact below. Contains(f) is this with q = f. *)
Theorem lazy_get_facts_exact :
  forall (const : Type) (const_eqb : const -> const -> bool) (print : const -> bytes)
         (parse : bytes -> option const) (fhash : bytes -> list const -> Z)
         (compress decompress : bytes -> bytes),
    (forall b, decompress (compress b) = b) ->
    forall (St : pstore const) (det : bool) (q : pattern const),
      Forall (pred_ok const print parse) St ->
      Z.of_nat (length St) <= max_num_preds ->
      NoDup (map fst St) ->
      length (snd q) = snd (fst q) ->
      exists ls lz got,
        write const print fhash fixed det St = Some ls /\
        lz_new (decompress (compress (unlines ls))) = Some lz /\
        lz_get_facts const const_eqb parse lz q = Some got /\
        got = filter (matches const_eqb q) (facts_of (ordered print fhash det St)) /\
        (forall f, In f got <-> In f (facts_of St) /\ matches const_eqb q f = true).
Proof.
  intros const const_eqb print parse fhash compress decompress Hc St det q F L N Hq.
  destruct (lazy_get_facts_exact_all const const_eqb print parse fhash St det q F L N Hq)
    as [ls [lz [W [Z G]]]].
  exists ls, lz, (filter (matches const_eqb q) (facts_of (ordered print fhash det St))).
  rewrite Hc. split; [exact W|]. split; [exact Z|]. split; [exact G|]. split; [reflexivity|].
  intro f. rewrite filter_In, ordered_same_facts. reflexivity.
Qed.
Print Assumptions lazy_get_facts_exact.

Example lazy_get_facts_exact_nonvacuous :
  let q : pattern bytes := (([112], 2%nat), [None; Some [99]]) in              (* p(X, c) *)
  Forall (pred_ok bytes (fun c => c) (fun b => Some b)) ex_store /\
  Z.of_nat (length ex_store) <= max_num_preds /\
  NoDup (map fst ex_store) /\
  length (snd q) = snd (fst q) /\
  filter (matches bytes_eqb q) (facts_of ex_store) = [(([112], 2%nat), [[98]; [99]])].
Proof.
  cbv zeta. split; [exact ex_store_ok|]. split; [vm_compute; discriminate|].
  split; [|split; reflexivity].
  cbn. repeat (constructor; [cbn; intuition discriminate|]). constructor.
Qed.

(* One predicate block under a query pattern (the core of readPred): reading the column-major
   block of `rows` with the filter FS returns exactly the rows that match the constants of the
   pattern, in order, and leaves the rest of the file untouched. *)
Theorem read_pred_exact :
  forall (const : Type) (const_eqb : const -> const -> bool) (print : const -> bytes)
         (parse : bytes -> option const)
         (ar : nat) (FS : list (option const)) (rows : list (list const)) (rest : list bytes),
    length FS = ar ->
    (forall r, In r rows -> length r = ar /\ Forall (const_ok const print parse) r) ->
    read_pred const const_eqb parse ar (Z.of_nat (length rows)) FS
              (flat_map (fun j => map (fun r => cell const print fixed r j) rows) (seq 0 ar) ++ rest)
    = Some (filter (args_match const const_eqb FS) rows, rest).
Proof.
  intros const const_eqb print parse ar FS rows rest H1 H2.
  exact (read_pred_ok const const_eqb print parse ar FS rows rest H1 H2).
Qed.
Print Assumptions read_pred_exact.

(* deterministic_bytes: with the deterministic option the outcome of WriteTo - the lines
   written, or the error - is a function of the SET of listed predicates and the SET of facts:
   two stores that list no predicate twice and no fact twice, list the same predicates and hold
   the same facts (in whatever orders) produce the same output, for both versions of the
   writer, provided the sort key of the facts (Atom.Hash, Atom.String) is injective on the
   facts of each predicate. The sort orders: predicates by (arity, symbol bytewise) - a strict
   total order on predicate symbols, no hypothesis needed; facts by (Atom.Hash, Atom.String
   bytewise) - strict and transitive always, total exactly under the injectivity hypothesis.
   On pairwise distinct keys a list has one sorted permutation (sorted_perm_eq), so every
   correct sort - the model's insertion sort, Go's sort.Slice - returns it.
   No admissibility of constants is needed. *)
Theorem deterministic_bytes :
  forall (const : Type) (print : const -> bytes) (fhash : bytes -> list const -> Z)
         (compress : bytes -> bytes) (V : ver) (S1 S2 : pstore const),
    NoDup (map fst S1) -> (forall e, In e S1 -> NoDup (snd e)) ->
    NoDup (map fst S2) -> (forall e, In e S2 -> NoDup (snd e)) ->
    (forall p, In p (map fst S1) <-> In p (map fst S2)) ->
    (forall f, In f (facts_of S1) <-> In f (facts_of S2)) ->
    (forall p rows r1 r2, In (p, rows) S1 -> In r1 rows -> In r2 rows ->
       fhash (fst p) r1 = fhash (fst p) r2 ->
       atom_string const print (fst p) r1 = atom_string const print (fst p) r2 -> r1 = r2) ->
    write const print fhash V true S1 = write const print fhash V true S2 /\
    option_map compress (write_bytes const print fhash V true S1)
    = option_map compress (write_bytes const print fhash V true S2).
Proof.
  intros const print fhash compress V S1 S2 N1a N1b N2a N2b P F K.
  assert (E : write const print fhash V true S1 = write const print fhash V true S2)
    by (apply (write_det_set const print fhash S1 S2 (conj N1a N1b) (conj N2a N2b) P F K)).
  split; [exact E|]. unfold write_bytes. rewrite E. reflexivity.
Qed.
Print Assumptions deterministic_bytes.

(* two different listings of one set: q(b), q(a), p(a) and p(a), q(a), q(b) *)
Definition det_s1 : pstore bytes := [ (([113], 1%nat), [[[98]]; [[97]]]); (([112], 1%nat), [[[97]]]) ].
Definition det_s2 : pstore bytes := [ (([112], 1%nat), [[[97]]]); (([113], 1%nat), [[[97]]; [[98]]]) ].
Example deterministic_bytes_nonvacuous :
  det_s1 <> det_s2 /\
  NoDup (map fst det_s1) /\ (forall e, In e det_s1 -> NoDup (snd e)) /\
  NoDup (map fst det_s2) /\ (forall e, In e det_s2 -> NoDup (snd e)) /\
  (forall p, In p (map fst det_s1) <-> In p (map fst det_s2)) /\
  (forall f, In f (facts_of det_s1) <-> In f (facts_of det_s2)) /\
  (forall p rows r1 r2, In (p, rows) det_s1 -> In r1 rows -> In r2 rows ->
     (fun _ _ => 0) (fst p) r1 = (fun _ _ => 0) (fst p) r2 ->
     atom_string bytes (fun c => c) (fst p) r1 = atom_string bytes (fun c => c) (fst p) r2 -> r1 = r2).
Proof.
  split; [discriminate|].
  split; [cbn; repeat (constructor; [cbn; intuition discriminate|]); constructor|].
  split; [intros e [<-|[<-|[]]]; cbn; repeat (constructor; [cbn; intuition discriminate|]); constructor|].
  split; [cbn; repeat (constructor; [cbn; intuition discriminate|]); constructor|].
  split; [intros e [<-|[<-|[]]]; cbn; repeat (constructor; [cbn; intuition discriminate|]); constructor|].
  split; [intro p; cbn; tauto|].
  split; [intro f; cbn; tauto|].
  intros p rows r1 r2 HI H1 H2 _ HS.
  destruct HI as [E|[E|[]]]; inversion E; subst; clear E; cbn in H1, H2;
    repeat match goal with
           | H : _ \/ _ |- _ => destruct H
           | H : False |- _ => destruct H
           end; subst; try reflexivity; vm_compute in HS; discriminate.
Qed.

(* The injectivity hypothesis cannot be dropped: two distinct facts of one predicate with the
   same hash and the same Atom.String (here p(a,b , c) and p(a , b,c) over constants that
   print with a comma) are emitted in listing order. In Go this needs two distinct atoms of one
   predicate that agree on Hash() and String(). *)
Theorem deterministic_bytes_key_inj_needed :
  exists (S1 S2 : pstore bytes),
    NoDup (map fst S1) /\ (forall e, In e S1 -> NoDup (snd e)) /\
    NoDup (map fst S2) /\ (forall e, In e S2 -> NoDup (snd e)) /\
    (forall p, In p (map fst S1) <-> In p (map fst S2)) /\
    (forall f, In f (facts_of S1) <-> In f (facts_of S2)) /\
    write bytes (fun c => c) (fun _ _ => 0) fixed true S1 <> write bytes (fun c => c) (fun _ _ => 0) fixed true S2.
Proof.
  exists [ (([112], 2%nat), [[[97; 44; 98]; [99]]; [[97]; [98; 44; 99]]]) ],
         [ (([112], 2%nat), [[[97]; [98; 44; 99]]; [[97; 44; 98]; [99]]]) ].
  split; [cbn; repeat (constructor; [cbn; intuition discriminate|]); constructor|].
  split; [intros e [<-|[]]; cbn; repeat (constructor; [cbn; intuition discriminate|]); constructor|].
  split; [cbn; repeat (constructor; [cbn; intuition discriminate|]); constructor|].
  split; [intros e [<-|[]]; cbn; repeat (constructor; [cbn; intuition discriminate|]); constructor|].
  split; [intro p; cbn; tauto|].
  split; [intro f; cbn; tauto|].
  vm_compute. discriminate.
Qed.
Print Assumptions deterministic_bytes_key_inj_needed.

(* Concrete instance for the witnesses: a constant is its own printed form. *)
Definition w_print (c : bytes) : bytes := c.
Definition w_parse (b : bytes) : option bytes := Some b.
Definition w_hash (_ : bytes) (_ : list bytes) : Z := 0.

(* F12 (before the repair): p(/a%41b) is written raw and read back as p(/aAb). *)
Theorem percent_name_refuted :
  exists (St : pstore bytes) (ls : list bytes),
    write bytes w_print w_hash original false St = Some ls /\
    read_into bytes bytes_eqb w_parse original (scan_lines (unlines ls)) <> Some (facts_of St).
Proof.
  exists [(([112], 1%nat), [[[47; 97; 37; 52; 49; 98]]])].
  eexists. split; [vm_compute; reflexivity | vm_compute; discriminate].
Qed.
Print Assumptions percent_name_refuted.

(* N40 (before the repair): a listed zero-arity predicate without a fact comes back with one. *)
Theorem zero_arity_empty_refuted :
  exists (St : pstore bytes) (ls : list bytes),
    write bytes w_print w_hash original false St = Some ls /\
    facts_of St = [] /\
    read_into bytes bytes_eqb w_parse original (scan_lines (unlines ls)) = Some [(([122], 0%nat), [])].
Proof.
  exists [(([122], 0%nat), [])].
  eexists. split; [vm_compute; reflexivity | split; vm_compute; reflexivity].
Qed.
Print Assumptions zero_arity_empty_refuted.

(* ---- hash ties (added when the check was strengthened after seeding, seed C19-3).
   Atom hashes are not injective on distinct facts: the hash of a constant is that of its payload,
   so p(/a) and p("/a"), or q(5), q(5ns) and q(epoch+5ns), share a hash. deterministic_bytes covers
   them - its hypothesis is injectivity of the PAIR (Atom.Hash, Atom.String). *)
From MV Require Import Serde.SimpleColumnTieProofs.

(* the hypotheses of deterministic_bytes are satisfiable by two different listings of a fact set
   whose two facts have the SAME hash (tie_hash is constant), and the conclusion holds on them
   with an actual file *)
Example deterministic_bytes_hash_tie_nonvacuous :
  tie_s1 <> tie_s2 /\
  NoDup (map fst tie_s1) /\ (forall e, In e tie_s1 -> NoDup (snd e)) /\
  NoDup (map fst tie_s2) /\ (forall e, In e tie_s2 -> NoDup (snd e)) /\
  (forall p, In p (map fst tie_s1) <-> In p (map fst tie_s2)) /\
  (forall f, In f (facts_of tie_s1) <-> In f (facts_of tie_s2)) /\
  (forall p rows r1 r2, In (p, rows) tie_s1 -> In r1 rows -> In r2 rows ->
     tie_hash (fst p) r1 = tie_hash (fst p) r2 ->
     atom_string bytes (fun c => c) (fst p) r1 = atom_string bytes (fun c => c) (fst p) r2 -> r1 = r2).
Proof. exact tie_stores_in_scope. Qed.

Example deterministic_bytes_hash_tie_value :
  write bytes (fun c => c) tie_hash fixed true tie_s1 = write bytes (fun c => c) tie_hash fixed true tie_s2 /\
  write bytes (fun c => c) tie_hash fixed true tie_s1 <> None.
Proof. exact tie_written_equal. Qed.

(* A writer that orders the facts by their hash alone (one precomputed hash per fact, no tie-break
   on the printed form) does NOT have the property: the two listings above - same predicates, same
   facts, key pair injective - are written differently. *)
Theorem deterministic_bytes_hash_only_refuted :
  write_hash_only bytes (fun c => c) tie_hash fixed tie_s1 <> write_hash_only bytes (fun c => c) tie_hash fixed tie_s2.
Proof. exact hash_only_differs. Qed.
Print Assumptions deterministic_bytes_hash_only_refuted.
