(* C03 - stratification respects every dependency or reports failure.
   Property theorems only; each is closed by an exact reference to a lemma of
   Strat/StratifyProofs.v or Strat/DepGraphProofs.v.

   The chain: depgraph_edges_exact ties the graph g the model builds to the rule set
   (arcs = mentions, negative wins, heads = vertices); the remaining theorems are about
   any graph g.

   Vocabulary: a graph g has labelled arcs (u, v, b): "a rule with head u mentions v",
   b = true when the mention is negated or feeds an aggregation (do-transform);
   nodes g = all rule heads and all arc end points; path g u v = v is reachable
   from u along arcs (length >= 0); in_layer layers i p = p is a member of layer
   number i. The Go answer (layers, predicate->layer map, error) is judged per input
   by valid_layers (success) or neg_cycle (error), see Run/C03.v. *)
From Coq Require Import List ZArith Bool.
From MV Require Import Strat.DepGraph Strat.Stratify Strat.StratifyProofs Strat.DepGraphProofs.
Import ListNotations.
Open Scope nat_scope.

(* the fuelled closure decides reachability (it never runs out of fuel) *)
Theorem reach_decides : forall g u v, reach g u v = true <-> path g u v.
Proof. exact reach_exact. Qed.
Print Assumptions reach_decides.

(* The observer accepts exactly the layerings the property asks for: every predicate
   of the graph is in exactly one layer (and layers hold nothing else), the map agrees
   with the layers, no arc leads to a later layer and a negative arc leads to a
   strictly earlier one, two predicates share a layer iff they are mutually reachable. *)
Theorem valid_layers_exact : forall g layers m,
  valid_layers g layers m = true <->
  (forall p, In p (nodes g) -> exists i, in_layer layers i p) /\
  (forall p i j, in_layer layers i p -> in_layer layers j p -> i = j) /\
  (forall p i, in_layer layers i p -> In p (nodes g)) /\
  (forall p i, In (p, i) m <-> in_layer layers i p) /\
  (forall u v b i j, In (u, v, b) (arcs g) -> in_layer layers i u -> in_layer layers j v ->
                     j <= i /\ (b = true -> j < i)) /\
  (forall u v i j, in_layer layers i u -> in_layer layers j v ->
                   (i = j <-> path g u v /\ path g v u)).
Proof. exact valid_layers_exact_proof. Qed.
Print Assumptions valid_layers_exact.

(* failure criterion: some cycle contains a negative arc *)
Theorem neg_cycle_exact : forall g,
  neg_cycle g = true <-> exists u v, In (u, v, true) (arcs g) /\ path g v u.
Proof. exact StratifyProofs.neg_cycle_exact. Qed.
Print Assumptions neg_cycle_exact.

(* "fails exactly when": a layering of the required kind exists iff no cycle passes
   through a negative arc *)
Theorem stratifiable_iff : forall g,
  (exists layers m,
    (forall p, In p (nodes g) -> exists i, in_layer layers i p) /\
    (forall p i j, in_layer layers i p -> in_layer layers j p -> i = j) /\
    (forall p i, in_layer layers i p -> In p (nodes g)) /\
    (forall p i, In (p, i) m <-> in_layer layers i p) /\
    (forall u v b i j, In (u, v, b) (arcs g) -> in_layer layers i u -> in_layer layers j v ->
                       j <= i /\ (b = true -> j < i)) /\
    (forall u v i j, in_layer layers i u -> in_layer layers j v ->
                     (i = j <-> path g u v /\ path g v u)))
  <-> neg_cycle g = false.
Proof. exact stratifiable_iff_proof. Qed.
Print Assumptions stratifiable_iff.

(* the reference stratification answers "error" exactly on a negative cycle and
   otherwise returns a layering of the required kind *)
Theorem stratify_ref_valid : forall g,
  match stratify_ref g with
  | Some (layers, m) =>
      neg_cycle g = false /\
      (forall p, In p (nodes g) -> exists i, in_layer layers i p) /\
      (forall p i j, in_layer layers i p -> in_layer layers j p -> i = j) /\
      (forall p i, in_layer layers i p -> In p (nodes g)) /\
      (forall p i, In (p, i) m <-> in_layer layers i p) /\
      (forall u v b i j, In (u, v, b) (arcs g) -> in_layer layers i u -> in_layer layers j v ->
                         j <= i /\ (b = true -> j < i)) /\
      (forall u v i j, in_layer layers i u -> in_layer layers j v ->
                       (i = j <-> path g u v /\ path g v u))
  | None => neg_cycle g = true
  end.
Proof. exact stratify_ref_spec. Qed.
Print Assumptions stratify_ref_valid.

(* consequence used by the judge: an accepted answer is impossible on a graph with a
   negative cycle, so "Go returned layers the observer accepts" implies "no failure
   was due" *)
Theorem accepted_implies_no_neg_cycle : forall g layers m,
  valid_layers g layers m = true -> neg_cycle g = false.
Proof.
  intros g layers m H. apply (layering_no_neg_cycle g layers m).
  apply valid_layers_exact_proof. exact H.
Qed.
Print Assumptions accepted_implies_no_neg_cycle.

(* A mention inside a temporally annotated body literal counts like any other: the
   dependency graph (after fix F4) of a rule set equals the graph of the rule set
   with the annotations removed (TemporalLiteral{Atom} / TemporalAtom -> Atom,
   TemporalLiteral{NegAtom} -> NegAtom). *)
Theorem temporal_mention_counts : forall P,
  make_dep_graph P = make_dep_graph (strip_temporal P).
Proof. exact temporal_counts_proof. Qed.
Print Assumptions temporal_mention_counts.

(* ... whereas the code before F4 built the graph of the rule set with the temporal
   premises deleted *)
Theorem prefix_graph_drops_temporal : forall P,
  make_dep_graph_prefix P =
  make_dep_graph (mkProgram (builtins P) (edb P) (map drop_temporal (rules P))).
Proof. exact prefix_ignores_temporal_proof. Qed.
Print Assumptions prefix_graph_drops_temporal.

(* ------------------------------------------------- the graph is the rule set's *)
(* What one body premise of a rule r says about dependencies (DepGraphProofs.mention,
   spelled out): a positive mention of q - plain Atom, TemporalLiteral{Atom} or
   TemporalAtom alike - counts unless q is a built-in or an EDB predicate, and is
   negative exactly when r carries a do-transform; a negated mention - NegAtom or
   TemporalLiteral{NegAtom} alike - counts unless q is an EDB predicate (the Go code
   has no built-in test on that path) and is negative; anything else says nothing. *)
Theorem mention_cases : forall (P : program) (r : rule) (q : pred),
  mention P r (PAtom q) =
    (if memb q (builtins P) || memb q (edb P) then None
     else Some (q, match xform r with TDo => true | _ => false end)) /\
  mention P r (PTempLit false q) = mention P r (PAtom q) /\
  mention P r (PTempAtom q) = mention P r (PAtom q) /\
  mention P r (PNeg q) = (if memb q (edb P) then None else Some (q, true)) /\
  mention P r (PTempLit true q) = mention P r (PNeg q) /\
  mention P r POther = None.
Proof. intros P r q. repeat split; reflexivity. Qed.
Print Assumptions mention_cases.

(* The dependency graph makeDepGraph builds (after fix F4) from ANY rule set:
   - its vertices are exactly the rule heads, each once;
   - it has a negative arc h -> q exactly when SOME rule with head h has a body premise
     whose mention of q is negative (negated, or inside a do-transform rule);
   - it has a positive arc h -> q exactly when some rule with head h has a positive
     mention of q and NO rule with head h has a negative one ("negative wins",
     whatever the order of rules and premises);
   - hence an arc h -> q exists iff some rule with head h mentions q (not skipped),
     and no pair carries both labels. *)
Theorem depgraph_edges_exact : forall (P : program),
  let g := graph_of (make_dep_graph P) in
  (forall h, In h (verts g) <-> exists r, In r (rules P) /\ head r = h) /\
  NoDup (verts g) /\
  (forall h q, In (h, q, true) (arcs g) <->
     exists r pm, In r (rules P) /\ head r = h /\ In pm (body r) /\ mention P r pm = Some (q, true)) /\
  (forall h q, In (h, q, false) (arcs g) <->
     (exists r pm, In r (rules P) /\ head r = h /\ In pm (body r) /\ mention P r pm = Some (q, false)) /\
     ~ (exists r pm, In r (rules P) /\ head r = h /\ In pm (body r) /\ mention P r pm = Some (q, true))) /\
  (forall h q b b', In (h, q, b) (arcs g) -> In (h, q, b') (arcs g) -> b = b').
Proof. exact depgraph_edges_exact_proof. Qed.
Print Assumptions depgraph_edges_exact.

(* ------------------------------------------------------------- non-vacuity *)
Open Scope Z_scope.

(* two components {2,3} and {4}; 4 depends negatively on 2; vertex 5 isolated *)
Definition ex_graph : graph :=
  mkGraph [2; 3; 4; 5] [(2, 3, false); (3, 2, false); (4, 2, true); (4, 4, false)].

Example ex_accepts : valid_layers ex_graph [[5]; [3; 2]; [4]] [(2, 1%nat); (3, 1%nat); (4, 2%nat); (5, 0%nat)] = true.
Proof. vm_compute. reflexivity. Qed.
Example ex_rejects_order : valid_layers ex_graph [[4]; [3; 2]; [5]] [(2, 1%nat); (3, 1%nat); (4, 0%nat); (5, 2%nat)] = false.
Proof. vm_compute. reflexivity. Qed.
Example ex_rejects_split : valid_layers ex_graph [[5]; [3]; [2]; [4]] [(2, 2%nat); (3, 1%nat); (4, 3%nat); (5, 0%nat)] = false.
Proof. vm_compute. reflexivity. Qed.
Example ex_no_neg_cycle : neg_cycle ex_graph = false.
Proof. vm_compute. reflexivity. Qed.
Example ex_neg_cycle : neg_cycle (mkGraph [2; 3] [(2, 3, false); (3, 2, true)]) = true.
Proof. vm_compute. reflexivity. Qed.
Example ex_ref : stratify_ref ex_graph = Some ([[5]; [3; 2]; [4]], [(5, 0%nat); (4, 2%nat); (3, 1%nat); (2, 1%nat)]).
Proof. vm_compute. reflexivity. Qed.

(* depgraph_edges_exact is not vacuous: built-in 9, EDB 0; head 2 mentions 3 positively in
   one rule and negatively in another (negative wins), 4 through a negated temporal
   literal; head 4 (do-transform rule) mentions 2 through a temporal atom (negative) and
   the built-in 9 negated (kept, as in Go); head 5 reads only the EDB *)
Definition ex_prog : program :=
  mkProgram [9] [0]
    [mkRule 2 [PAtom 0; PAtom 9; PAtom 3; PTempLit true 4; POther] TNone;
     mkRule 2 [PNeg 3] TLet;
     mkRule 4 [PTempAtom 2; PNeg 9] TDo;
     mkRule 5 [PAtom 0] TNone].

Example depgraph_edges_example :
  graph_of (make_dep_graph ex_prog) =
    mkGraph [2; 4; 5] [(2, 3, true); (2, 4, true); (4, 2, true); (4, 9, true)] /\
  (exists r pm, In r (rules ex_prog) /\ head r = 2 /\ In pm (body r) /\ mention ex_prog r pm = Some (3, false)) /\
  (exists r pm, In r (rules ex_prog) /\ head r = 2 /\ In pm (body r) /\ mention ex_prog r pm = Some (3, true)).
Proof.
  split; [vm_compute; reflexivity|]. split.
  - exists (mkRule 2 [PAtom 0; PAtom 9; PAtom 3; PTempLit true 4; POther] TNone), (PAtom 3).
    simpl. repeat split; auto.
  - exists (mkRule 2 [PNeg 3] TLet), (PNeg 3). simpl. repeat split; auto.
Qed.

(* --------------------------------------------------------- finding F4 (fixed) *)
(* b@ :- a@.  c@ :- b@.  d@ :- c@.   a = 0 (EDB), b = 2, c = 4, d = 6 *)
Definition f4_witness : program :=
  mkProgram [] [0] [mkRule 2 [PTempLit false 0] TNone;
                    mkRule 4 [PTempLit false 2] TNone;
                    mkRule 6 [PTempLit false 4] TNone].

(* before the fix the graph of the chained temporal witness has no arcs, and the
   answer [d],[c],[b] that Go gave (strata in map order) passes for that graph; with
   the temporal cases the graph has the two arcs and the same answer is rejected *)
Theorem depgraph_F4_refuted :
  arcs (graph_of (make_dep_graph_prefix f4_witness)) = [] /\
  valid_layers (graph_of (make_dep_graph_prefix f4_witness)) [[6]; [4]; [2]] [(2, 2%nat); (4, 1%nat); (6, 0%nat)] = true /\
  arcs (graph_of (make_dep_graph f4_witness)) = [(4, 2, false); (6, 4, false)] /\
  valid_layers (graph_of (make_dep_graph f4_witness)) [[6]; [4]; [2]] [(2, 2%nat); (4, 1%nat); (6, 0%nat)] = false /\
  valid_layers (graph_of (make_dep_graph f4_witness)) [[2]; [4]; [6]] [(2, 0%nat); (4, 1%nat); (6, 2%nat)] = true.
Proof. vm_compute. repeat split; reflexivity. Qed.
Print Assumptions depgraph_F4_refuted.
