(* C07 - built-in functions and predicates obey their defining laws.
   Property theorems only; each is closed by an exact reference to a lemma of
   coq/Builtin/{ArithProofs,StructProofs,ReduceProofs}.v. The model (coq/Builtin/Const.v,
   Fn.v) mirrors functional/functional.go, builtin/builtin.go, ast/ast.go; evalDiv after
   fix N11. *)
From Coq Require Import List ZArith Bool Permutation Floats.
From MV Require Import Builtin.Const Builtin.Fn Builtin.ArithProofs Builtin.StructProofs Builtin.ReduceProofs.
From MV Require Run.C07.
Import ListNotations.
Open Scope Z_scope.

(* ================= constructors and accessors are mutually inverse ================= *)

Theorem match_pair_pair : forall a b, exists p,
  apply_fn FPair [a; b] = Val p /\ decide PMatchPair [PConst p; PVar; PVar] = DTrue [[a; b]].
Proof. exact match_pair_pair_l. Qed.
Print Assumptions match_pair_pair.

Theorem match_cons_cons : forall h t, is_list t = true -> exists c,
  apply_fn FCons [h; t] = Val c /\ decide PMatchCons [PConst c; PVar; PVar] = DTrue [[h; t]]
  /\ decide PMatchNil [PConst c] = DFalse.
Proof. exact match_cons_cons_l. Qed.
Print Assumptions match_cons_cons.
Example match_cons_cons_nonvacuous : is_list (of_list [CNum 1; CStr [97]]) = true.
Proof. reflexivity. Qed.

Theorem match_nil_nil : decide PMatchNil [PConst (of_list [])] = DTrue [[]]
  /\ decide PMatchCons [PConst (of_list []); PVar; PVar] = DFalse.
Proof. exact match_nil_l. Qed.
Print Assumptions match_nil_nil.

(* fn:list(l) is the list of its arguments; get returns the n-th; out of range is an error *)
Theorem list_get_list : forall l n x, nth_error l n = Some x ->
  apply_fn FList l = Val (of_list l) /\ apply_fn FListGet [of_list l; CNum (Z.of_nat n)] = Val x.
Proof. intros l n x H. split; [apply fn_list_l | apply list_get_nth; exact H]. Qed.
Print Assumptions list_get_list.
Example list_get_list_nonvacuous : nth_error [CNum 5; CNil SList; CStr [195; 169]] 2 = Some (CStr [195; 169]).
Proof. reflexivity. Qed.

Theorem list_get_out_of_range : forall l i, (i < 0 \/ Z.of_nat (length l) <= i) ->
  apply_fn FListGet [of_list l; CNum i] = Err.
Proof. exact list_get_out. Qed.
Print Assumptions list_get_out_of_range.

Theorem list_len_list : forall l, apply_fn FLen [of_list l] = Val (CNum (Z.of_nat (length l))).
Proof. exact list_len_l. Qed.
Print Assumptions list_len_list.

Theorem list_append_list : forall l e, apply_fn FAppend [of_list l; e] = Val (of_list (l ++ [e])).
Proof. exact list_append_l. Qed.
Print Assumptions list_append_list.

(* list membership enumerates exactly the elements, in order and with multiplicity *)
Theorem list_member_enumerates : forall l,
  decide PListMember [PVar; PConst (of_list l)] =
  match l with [] => DFalse | _ => DTrue (map (fun e => [e]) l) end.
Proof. exact list_member_enum. Qed.
Print Assumptions list_member_enumerates.

Theorem list_member_checks : forall l m,
  (decide PListMember [PConst m; PConst (of_list l)] = DTrue [[]] <-> In m l) /\
  (apply_fn FListContains [of_list l; m] = Val true_c <-> In m l).
Proof. intros. split; [apply list_member_check | apply list_contains_l]. Qed.
Print Assumptions list_member_checks.

(* maps and structs: what is put in under keys with pairwise distinct hashes is what get and
   match_entry / match_field return; [kvs] is the order in which Go iterates its kvMap *)
Theorem map_get_map : forall kvs k v,
  NoDup (map (fun kv => hash (fst kv)) kvs) -> In (k, v) kvs ->
  apply_fn FMap (flatten kvs) = Val (mk_map SMap kvs) /\
  apply_fn FMapGet [mk_map SMap kvs; k] = Val v /\
  apply_fn FStruct (flatten kvs) = Val (mk_map SStruct kvs) /\
  apply_fn FStructGet [mk_map SStruct kvs; k] = Val v.
Proof.
  intros kvs k v Hnd Hin. destruct (fn_map_l kvs) as [H1 H2].
  split; [exact H1|]. split; [exact (map_get_l SMap kvs k v (or_introl eq_refl) Hnd Hin)|].
  split; [exact H2|]. exact (map_get_l SStruct kvs k v (or_intror eq_refl) Hnd Hin).
Qed.
Print Assumptions map_get_map.
Example map_get_map_nonvacuous :
  NoDup (map (fun kv => hash (fst kv)) [(CName [47; 97], CNum 1); (CStr [195; 169], CNum 2); (CNum 7, CNil SList)]).
Proof. vm_compute. repeat constructor; simpl; intuition discriminate. Qed.

Theorem map_get_absent : forall kvs k, ~ In k (map fst kvs) ->
  apply_fn FMapGet [mk_map SMap kvs; k] = Err /\ apply_fn FStructGet [mk_map SStruct kvs; k] = Err /\
  (forall pat, decide PMatchEntry [PConst (mk_map SMap kvs); PConst k; pat] = DFalse) /\
  (forall pat, decide PMatchField [PConst (mk_map SStruct kvs); PConst k; pat] = DFalse).
Proof.
  intros kvs k H.
  split; [exact (map_get_absent_l SMap kvs k (or_introl eq_refl) H)|].
  split; [exact (map_get_absent_l SStruct kvs k (or_intror eq_refl) H)|].
  split; intro pat.
  - exact (match_entry_absent_l SMap kvs k pat (or_introl eq_refl) H).
  - exact (match_entry_absent_l SStruct kvs k pat (or_intror eq_refl) H).
Qed.
Print Assumptions map_get_absent.

Theorem match_entry_map : forall kvs k v,
  NoDup (map (fun kv => hash (fst kv)) kvs) -> In (k, v) kvs ->
  decide PMatchEntry [PConst (mk_map SMap kvs); PConst k; PVar] = DTrue [[v]] /\
  decide PMatchField [PConst (mk_map SStruct kvs); PConst k; PVar] = DTrue [[v]].
Proof.
  intros kvs k v Hnd Hin. split.
  - exact (match_entry_l SMap kvs k v (or_introl eq_refl) Hnd Hin).
  - exact (match_entry_l SStruct kvs k v (or_intror eq_refl) Hnd Hin).
Qed.
Print Assumptions match_entry_map.

(* with distinct key hashes the constructed value does not depend on Go's map iteration *)
Theorem map_order_irrelevant : forall sh kvs kvs', Permutation kvs kvs' ->
  NoDup (map (fun kv => hash (fst kv)) kvs) -> mk_map sh kvs = mk_map sh kvs'.
Proof. exact mk_map_order_irrelevant. Qed.
Print Assumptions map_order_irrelevant.
(* known finding N9 in the model: with hash-equal keys (Number 1 / Time 1) the order shows *)
Theorem map_order_hash_equal_refuted :
  mk_map SMap [(CNum 1, CNum 10); (CTime 1, CNum 20)] <> mk_map SMap [(CTime 1, CNum 20); (CNum 1, CNum 10)].
Proof. vm_compute. discriminate. Qed.
Print Assumptions map_order_hash_equal_refuted.

(* ================= integer arithmetic: the ring Z/2^64 in two's complement ================= *)

Theorem fn_arith_is_wrap : forall a b,
  apply_fn FPlus [CNum a; CNum b] = Val (CNum (add64 a b)) /\
  apply_fn FMult [CNum a; CNum b] = Val (CNum (mul64 a b)) /\
  apply_fn FMinus [CNum a; CNum b] = Val (CNum (sub64 a b)) /\
  apply_fn FMinus [CNum a] = Val (CNum (neg64 a)) /\
  in64 (add64 a b) /\ in64 (mul64 a b) /\ in64 (sub64 a b) /\ in64 (neg64 a).
Proof.
  intros. split; [apply fn_plus_binary|]. split; [apply fn_mult_binary|].
  split; [reflexivity|]. split; [reflexivity|].
  split; [apply wrap_in64|]. split; [apply wrap_in64|]. split; apply wrap_in64.
Qed.
Print Assumptions fn_arith_is_wrap.

Theorem plus_mult_ring : forall a b c,
  add64 a b = add64 b a /\
  add64 (add64 a b) c = add64 a (add64 b c) /\
  (in64 a -> add64 a 0 = a) /\
  add64 a (neg64 a) = 0 /\
  sub64 a b = add64 a (neg64 b) /\
  mul64 a b = mul64 b a /\
  mul64 (mul64 a b) c = mul64 a (mul64 b c) /\
  (in64 a -> mul64 a 1 = a) /\
  mul64 a (add64 b c) = add64 (mul64 a b) (mul64 a c).
Proof.
  intros. split; [apply add64_comm|]. split; [apply add64_assoc|]. split; [apply add64_0_r|].
  split; [apply add64_neg|]. split; [apply sub64_add64_neg|]. split; [apply mul64_comm|].
  split; [apply mul64_assoc|]. split; [apply mul64_1_r|]. apply mul64_add64_distr.
Qed.
Print Assumptions plus_mult_ring.
Example in64_nonvacuous : in64 min64 /\ in64 max64.
Proof. split; split; discriminate. Qed.

Theorem nary_plus_mult_minus : forall l a b r,
  apply_fn FPlus (map CNum l) = Val (CNum (wrap (fold_right Z.add 0 l))) /\
  apply_fn FMult (map CNum l) = Val (CNum (wrap (fold_right Z.mul 1 l))) /\
  apply_fn FMinus (map CNum (a :: b :: r)) = Val (CNum (fold_left sub64 (b :: r) a)).
Proof. intros. split; [apply fn_plus_nary|]. split; [apply fn_mult_nary | apply fn_minus_nary]. Qed.
Print Assumptions nary_plus_mult_minus.

(* x = (x div y)*y + (x mod y), computed with the int64 operations *)
Theorem div_mod_law : forall x y, in64 x -> in64 y -> y <> 0 ->
  apply_fn FDiv [CNum x; CNum y] = Val (CNum (div64 x y)) /\
  apply_fn FMod [CNum x; CNum y] = Val (CNum (mod64 x y)) /\
  x = add64 (mul64 (div64 x y) y) (mod64 x y).
Proof.
  intros x y Hx Hy H0. split; [apply fn_div_binary; exact H0|].
  split; [apply fn_mod_binary; exact H0 | apply div_mod_law64; assumption].
Qed.
Print Assumptions div_mod_law.
Example div_mod_law_nonvacuous : in64 (-7) /\ in64 2 /\ 2 <> 0 /\ div64 (-7) 2 = -3 /\ mod64 (-7) 2 = -1.
Proof. repeat split; discriminate. Qed.

Theorem mod_sign : forall x y, y <> 0 ->
  (0 <= x -> 0 <= mod64 x y) /\ (x <= 0 -> mod64 x y <= 0) /\ Z.abs (mod64 x y) < Z.abs y.
Proof. exact mod64_sign. Qed.
Print Assumptions mod_sign.

(* truncation toward zero, except the one overflowing quotient *)
Theorem div_truncates : forall x y, in64 x -> in64 y -> y <> 0 -> ~ (x = min64 /\ y = -1) ->
  div64 x y = Z.quot x y.
Proof. exact div64_truncates. Qed.
Print Assumptions div_truncates.

Theorem div_minint_wraps : div64 min64 (-1) = min64 /\ mod64 min64 (-1) = 0.
Proof. split; [exact div64_minint | exact mod64_minint]. Qed.
Print Assumptions div_minint_wraps.

Theorem div_by_zero_is_error : forall x,
  apply_fn FDiv [CNum x; CNum 0] = Err /\ apply_fn FMod [CNum x; CNum 0] = Err /\ apply_fn FDiv [CNum 0] = Err.
Proof. exact fn_div_mod_zero. Qed.
Print Assumptions div_by_zero_is_error.

(* n-ary division is the iterated binary division; any zero divisor is an error (fix N11) *)
Theorem nary_div : forall a d ds v,
  (In 0 (d :: ds) -> apply_fn FDiv (map CNum (a :: d :: ds)) = Err) /\
  (~ In 0 (d :: ds) -> apply_fn FDiv (map CNum (a :: d :: ds)) = Val (CNum (fold_left div64 (d :: ds) a))) /\
  apply_fn FDiv [CNum v] = apply_fn FDiv [CNum 1; CNum v].
Proof.
  intros. destruct (fn_div_nary a d ds) as [H1 H2].
  split; [exact H1|]. split; [exact H2 | apply fn_div_unary].
Qed.
Print Assumptions nary_div.

(* finding N11: evalDiv before the fix *)
Theorem div_unary_and_nary_old_refuted :
  div_wrap_old [-1] = Some 0 /\ div_wrap [1; -1] = Some (-1) /\
  div_wrap_old [1; 2; 0] = Some 0 /\ div_wrap [1; 2; 0] = None.
Proof. repeat split; reflexivity. Qed.
Print Assumptions div_unary_and_nary_old_refuted.

(* ================= comparisons: one strict total order per type and its closure ============ *)

Theorem lt_strict_total_order : forall t : numty,
  (forall a, ~ cmp_holds t OLt a a) /\
  (forall a b c, cmp_holds t OLt a b -> cmp_holds t OLt b c -> cmp_holds t OLt a c) /\
  (forall a b, cmp_holds t OLt a b \/ a = b \/ cmp_holds t OLt b a) /\
  (forall a b, cmp_holds t OLt a b -> ~ cmp_holds t OLt b a).
Proof. exact lt_strict_total. Qed.
Print Assumptions lt_strict_total_order.

Theorem le_gt_ge_from_lt : forall (t : numty) a b,
  (cmp_holds t OLe a b <-> cmp_holds t OLt a b \/ a = b) /\
  (cmp_holds t OGt a b <-> cmp_holds t OLt b a) /\
  (cmp_holds t OGe a b <-> cmp_holds t OLe b a).
Proof. exact le_gt_ge. Qed.
Print Assumptions le_gt_ge_from_lt.

(* cmp_holds unfolded: the decision of the built-in predicate on two constants of the type *)
Theorem cmp_holds_is_decide : forall t o a b,
  (cmp_holds t o a b <-> decide (PCmp t o) [PConst (mk_num t a); PConst (mk_num t b)] = DTrue [[]]) /\
  (~ cmp_holds t o a b <-> decide (PCmp t o) [PConst (mk_num t a); PConst (mk_num t b)] = DFalse).
Proof.
  intros. split; [reflexivity|]. unfold cmp_holds. rewrite decide_cmp.
  destruct (cmp o a b); simpl; split; intro H; try reflexivity; try discriminate; try congruence.
Qed.
Print Assumptions cmp_holds_is_decide.

(* ================= strings and names ================= *)

Theorem starts_with_prefix : forall s p,
  decide PStartsWith [PConst (CStr s); PConst (CStr p)] = DTrue [[]] <-> exists r, s = p ++ r.
Proof. exact starts_with_l. Qed.
Print Assumptions starts_with_prefix.

Theorem ends_with_suffix : forall s p,
  decide PEndsWith [PConst (CStr s); PConst (CStr p)] = DTrue [[]] <-> exists r, s = r ++ p.
Proof. exact ends_with_l. Qed.
Print Assumptions ends_with_suffix.

Theorem contains_infix : forall s p,
  decide PContains [PConst (CStr s); PConst (CStr p)] = DTrue [[]] <-> exists a b, s = a ++ p ++ b.
Proof. exact contains_l. Qed.
Print Assumptions contains_infix.

Theorem match_prefix_proper_prefix : forall n p,
  decide PMatchPrefix [PConst (CName n); PConst (CName p)] = DTrue [[]] <-> exists r, r <> [] /\ n = p ++ r.
Proof. exact match_prefix_l. Qed.
Print Assumptions match_prefix_proper_prefix.

Theorem concat_app : forall l a b,
  apply_fn FConcat (map CStr l) = Val (CStr (concat l)) /\
  apply_fn FConcat [CStr a; CStr b] = Val (CStr (a ++ b)) /\
  apply_fn FConcat [CStr a; CName b] = Val (CStr (a ++ b)).
Proof. intros. split; [apply concat_l|]. split; [apply concat2_l | apply concat_name_l]. Qed.
Print Assumptions concat_app.

(* the parts of a name, each with its leading '/', concatenate to the name *)
Theorem name_list_concat : forall s,
  apply_fn FNameList [CName (slash :: s)] = Val (of_list (map CName (name_parts (slash :: s)))) /\
  concat (name_parts (slash :: s)) = slash :: s /\
  Forall (fun p => exists q, p = slash :: q /\ ~ In slash q) (name_parts (slash :: s)).
Proof. intro s. destruct (name_list_l s) as [H1 H2]. split; [exact H1|]. split; [exact H2 | apply name_parts_shape]. Qed.
Print Assumptions name_list_concat.

(* ================= reducers do not depend on the order of the rows ================= *)

Theorem count_perm : forall rows rows', Permutation rows rows' -> reduce RCount rows = reduce RCount rows'.
Proof. exact count_perm_l. Qed.
Print Assumptions count_perm.

Theorem sum_min_max_perm : forall t o rows rows', Permutation rows rows' ->
  reduce (RNum t o) rows = reduce (RNum t o) rows'.
Proof. exact sum_min_max_perm_l. Qed.
Print Assumptions sum_min_max_perm.
Example perm_nonvacuous : Permutation [[CNum max64]; [CNum 1]; [CNum (-5)]] [[CNum (-5)]; [CNum max64]; [CNum 1]]
  /\ reduce (RNum TNum RSum) [[CNum max64]; [CNum 1]; [CNum (-5)]] = Val (CNum 9223372036854775803).
Proof.
  split.
  - apply Permutation_sym. apply (Permutation_cons_app [[CNum max64]; [CNum 1]] [] [CNum (-5)]). apply Permutation_refl.
  - vm_compute. reflexivity.
Qed.

Theorem list_reducer_perm : forall t o l l', Permutation l l' ->
  apply_fn (FListRed t o) [of_list l] = apply_fn (FListRed t o) [of_list l'].
Proof. exact list_reducer_perm_l. Qed.
Print Assumptions list_reducer_perm.

Theorem sum_min_max_value : forall t x vs,
  (Forall in64 (x :: vs) ->
   reduce_num t RSum (map (mk_num t) (x :: vs)) = Val (mk_num t (wrap (fold_right Z.add 0 (x :: vs))))) /\
  (exists m, reduce_num t RMin (map (mk_num t) (x :: vs)) = Val (mk_num t m)
             /\ In m (x :: vs) /\ forall y, In y (x :: vs) -> m <= y) /\
  (exists m, reduce_num t RMax (map (mk_num t) (x :: vs)) = Val (mk_num t m)
             /\ In m (x :: vs) /\ forall y, In y (x :: vs) -> y <= m).
Proof. intros. split; [apply sum_value_l | apply min_max_value_l]. Qed.
Print Assumptions sum_min_max_value.

Theorem collect_distinct_perm_set : forall rows rows', Permutation rows rows' ->
  exists l l', reduce RCollectDistinct rows = Val (of_list l)
            /\ reduce RCollectDistinct rows' = Val (of_list l')
            /\ NoDup l /\ NoDup l'
            /\ (forall x, In x l <-> In x (tuples rows))
            /\ (forall x, In x l <-> In x l').
Proof. exact collect_distinct_perm_l. Qed.
Print Assumptions collect_distinct_perm_set.

(* fn:avg over integers: for every float type whose addition is exact on integers while
   operands and result stay within +-2^53 (true of IEEE binary64; sampled on Go's float64 by
   the check), the average does not depend on the row order when the absolute values sum to
   at most 2^53 - then every partial sum in every order is within +-2^53. *)
Theorem avg_perm_invariant :
  forall (F : Type) (of_int : Z -> F) (fadd fdiv : F -> F -> F) (nan : F),
  (forall a b, Z.abs a <= p53 -> Z.abs b <= p53 -> Z.abs (a + b) <= p53 ->
     fadd (of_int a) (of_int b) = of_int (a + b)) ->
  forall l l', Permutation l l' -> sum_abs l <= p53 ->
  avg_nums of_int fadd fdiv nan l = avg_nums of_int fadd fdiv nan l'.
Proof. intros F of_int fadd fdiv nan Hex l l' Hp Hs. exact (avg_perm_l of_int fadd fdiv nan Hex l l' Hp Hs). Qed.
Print Assumptions avg_perm_invariant.
Example avg_perm_nonvacuous : sum_abs [p53 - 3; 1; -2] <= p53 /\ Permutation [p53 - 3; 1; -2] [1; -2; p53 - 3].
Proof.
  split; [discriminate|].
  apply (Permutation_cons_app [1; -2] [] (p53 - 3)). apply Permutation_refl.
Qed.

(* known finding N10: beyond 2^53 the order matters (binary64 floats of the Coq kernel) *)
Theorem avg_order_refuted :
  PrimFloat.eqb (Run.C07.pf_avg [p53; 1; - p53; 1]) (Run.C07.pf_avg [p53; - p53; 1; 1]) = false
  /\ Permutation [p53; 1; - p53; 1] [p53; - p53; 1; 1].
Proof.
  split; [vm_compute; reflexivity|].
  apply perm_skip. apply Permutation_sym. apply (Permutation_cons_app [1] [1] (- p53)). apply Permutation_refl.
Qed.
Print Assumptions avg_order_refuted.
