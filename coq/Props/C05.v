(* C05 - results do not depend on presentation, ordering or store choice.
   Property theorems only; each is closed by an exact reference to a lemma of
   Datalog/InvarianceProofs.v / Datalog/InvarianceRename.v. Model and specification are
   the ones of C01: Datalog/{Syntax,Interp,Solve,SemiNaive,Strata}.v, Datalog/Lfp.v;
   the renamings are defined in Datalog/Invariance.v. *)
From Coq Require Import List ZArith Permutation Lia.
From MV Require Import Datalog.Syntax Datalog.SyntaxProofs Datalog.Interp Datalog.Solve Datalog.SemiNaive Datalog.Strata
     Datalog.Lfp Datalog.SolveProofs Datalog.SemiNaiveProofs Datalog.StrataProofs
     Datalog.Invariance Datalog.InvarianceProofs Datalog.InvarianceRename.

Import ListNotations.
Open Scope Z_scope.

(* ---- reordering clauses / base facts: the least model of a rule list R over base facts E
   is the same for every permutation of R and of E *)
Theorem lfp_perm_clauses :
  forall (R R' : list clause) (E : list fact),
    Permutation R R' ->
    forall f, lfp R (fun g => In g E) f <-> lfp R' (fun g => In g E) f.
Proof. intros R R' E H. exact (lfp_perm R R' E E H (Permutation_refl E)). Qed.
Print Assumptions lfp_perm_clauses.

Theorem lfp_perm_facts :
  forall (R : list clause) (E E' : list fact),
    Permutation E E' ->
    forall f, lfp R (fun g => In g E) f <-> lfp R (fun g => In g E') f.
Proof. intros R E E' H. exact (lfp_perm R R E E' (Permutation_refl R) H). Qed.
Print Assumptions lfp_perm_facts.

(* the same for a whole stratified program: only membership of clauses matters *)
Theorem slfp_perm_clauses :
  forall (P P' : list clause) (layers : list (list Z)) (E E' : list fact),
    Permutation P P' -> Permutation E E' ->
    forall f, slfp P layers (fun g => In g E) f <-> slfp P' layers (fun g => In g E') f.
Proof.
  intros P P' layers E E' HP HE. apply slfp_ext2.
  - intros c. split; [apply Permutation_in; exact HP | apply Permutation_in; apply Permutation_sym; exact HP].
  - intros g. split; [apply Permutation_in; exact HE | apply Permutation_in; apply Permutation_sym; exact HE].
Qed.
Print Assumptions slfp_perm_clauses.

(* ---- rule order inside a round: for one stratum, every order (and multiplicity) of the
   rules in the first round and of the delta rules in the incremental rounds, every
   order of the start store and every fuel give the same result set.
   Hypotheses as in C01: no rule negates a predicate the stratum derives; the delta
   rules are rules of R and there is one for every body position holding a derived
   predicate (what makeDeltaRules builds, C01 delta_rules_sufficient). *)
Theorem eval_order_irrelevant :
  forall (fuel fuel' : nat) (R R' : list clause) (drules drules' : list (clause * nat))
         (St St' Res Res' : list fact),
    (forall c, In c R <-> In c R') -> (forall f, In f St <-> In f St') ->
    (forall c q, In c R -> In q (neg_preds (cbody c)) -> ~ In q (heads R)) ->
    ((forall c i, In (c, i) drules -> In c R) /\
     (forall c i a, In c R -> nth_error (cbody c) i = Some (PAtom a) -> In (apred a) (heads R) -> In (c, i) drules)) ->
    ((forall c i, In (c, i) drules' -> In c R') /\
     (forall c i a, In c R' -> nth_error (cbody c) i = Some (PAtom a) -> In (apred a) (heads R') -> In (c, i) drules')) ->
    eval_stratum fuel R drules St = Ok Res -> eval_stratum fuel' R' drules' St' = Ok Res' ->
    forall f, In f Res <-> In f Res'.
Proof. exact eval_stratum_order. Qed.
Print Assumptions eval_order_irrelevant.

(* ---- choice of the stratification: two valid stratifications of one program (Go finds
   one by iterating maps: SCC order and layer order vary from run to run) define the same
   stratified model over every base *)
Theorem strata_choice_irrelevant :
  forall (P : list clause) (L1 L2 : list (list Z)) (B : factset),
    valid_stratification P L1 -> valid_stratification P L2 ->
    forall f, slfp P L1 B f <-> slfp P L2 B f.
Proof. exact slfp_choice. Qed.
Print Assumptions strata_choice_irrelevant.

(* ---- the engine model: two finished runs on two presentations of one program - clauses
   in any order, base facts in any order and split between the caller's store and the
   program text in any way, any valid stratification with its layers in any internal
   order, any fuel - hold the same facts *)
Theorem presentation_irrelevant :
  forall (fuel fuel' : nat) (P P' : list clause) (L L' : list (list Z))
         (store store' init init' Res Res' : list fact),
    (forall c, In c P <-> In c P') ->
    (forall f, In f store \/ In f init <-> In f store' \/ In f init') ->
    valid_stratification P L -> valid_stratification P' L' ->
    eval_program fuel P L store init = Ok Res ->
    eval_program fuel' P' L' store' init' = Ok Res' ->
    forall f, In f Res <-> In f Res'.
Proof. exact eval_program_presentation. Qed.
Print Assumptions presentation_irrelevant.

(* ---- consistent renaming of predicates. r injective (a package prefix "pk." in front of
   every predicate the package defines is one): the least model of the renamed rules over
   the renamed base is exactly the renamed least model - nothing more, nothing less *)
Theorem lfp_rename_preds :
  forall (r : Z -> Z), (forall a b, r a = r b -> a = b) ->
  forall (R : list clause) (B : factset) (g : fact),
    lfp (map (rp_clause r) R) (fun g => exists f, g = rp_fact r f /\ B f) g <->
    exists f, g = rp_fact r f /\ lfp R B f.
Proof. intros r Hr R B g. exact (lfp_rp r Hr R B g). Qed.
Print Assumptions lfp_rename_preds.

Theorem slfp_rename_preds :
  forall (r : Z -> Z), (forall a b, r a = r b -> a = b) ->
  forall (P : list clause) (layers : list (list Z)) (B : factset) (g : fact),
    slfp (map (rp_clause r) P) (map (map r) layers) (fun g => exists f, g = rp_fact r f /\ B f) g <->
    exists f, g = rp_fact r f /\ slfp P layers B f.
Proof. intros r Hr P layers B g. exact (slfp_rp r Hr P layers B g). Qed.
Print Assumptions slfp_rename_preds.

(* the engine model on a program and on its renamed copy (hence: inside a package) *)
Theorem package_prefix_irrelevant :
  forall (r : Z -> Z), (forall a b, r a = r b -> a = b) ->
  forall (fuel fuel' : nat) (P : list clause) (L : list (list Z)) (store init Res Res' : list fact),
    valid_stratification P L -> valid_stratification (map (rp_clause r) P) (map (map r) L) ->
    eval_program fuel P L store init = Ok Res ->
    eval_program fuel' (map (rp_clause r) P) (map (map r) L) (map (rp_fact r) store) (map (rp_fact r) init) = Ok Res' ->
    forall g, In g Res' <-> exists f, g = rp_fact r f /\ In f Res.
Proof. exact eval_program_rp. Qed.
Print Assumptions package_prefix_irrelevant.

(* ---- consistent renaming of the variables of each clause (each clause by its own
   injective renaming v: chead, every premise, every let-statement) *)
Theorem lfp_rename_vars :
  forall (R R' : list clause) (B : factset),
    Forall2 (fun c c' => exists v : Z -> Z, (forall a b, v a = v b -> a = b) /\ c' = rn_clause v c) R R' ->
    forall f, lfp R B f <-> lfp R' B f.
Proof. exact lfp_alpha. Qed.
Print Assumptions lfp_rename_vars.

Theorem variable_names_irrelevant :
  forall (fuel fuel' : nat) (P P' : list clause) (L : list (list Z)) (store init Res Res' : list fact),
    Forall2 (fun c c' => exists v : Z -> Z, (forall a b, v a = v b -> a = b) /\ c' = rn_clause v c) P P' ->
    valid_stratification P L -> valid_stratification P' L ->
    eval_program fuel P L store init = Ok Res -> eval_program fuel' P' L store init = Ok Res' ->
    forall f, In f Res <-> In f Res'.
Proof. exact eval_program_alpha. Qed.
Print Assumptions variable_names_irrelevant.

(* ---- the observer the check uses to compare two outputs of the implementation *)
Theorem same_set_spec :
  forall a b : list fact, same_set a b = true <-> (forall f, In f a <-> In f b).
Proof. exact same_set_correct. Qed.
Print Assumptions same_set_spec.

(* ---- non-vacuity: the two-layer program with negation of C01
     t(X) :- e(X).  s(X) :- d(X), !t(X).      e=10 d=11 t=12 s=13
   has two different valid stratifications ([[12];[13]] and one with an empty and a
   spare layer and the predicates of a layer in another order) *)
Definition X := TVar 1.
Definition n_prog : list clause :=
  [ mkClause (mkAtom 12 [X]) [PAtom (mkAtom 10 [X])] [];
    mkClause (mkAtom 13 [X]) [PAtom (mkAtom 11 [X]); PNeg (mkAtom 12 [X])] [] ].

Example two_stratifications :
  valid_stratification n_prog [[12]; [13]] /\ valid_stratification n_prog [[77; 12]; []; [13; 78]] /\
  eval_program 10 n_prog [[12]; [13]] [(10, [CNum 1])] [(11, [CNum 1]); (11, [CNum 2])]
  = Ok [ (10, [CNum 1]); (11, [CNum 1]); (11, [CNum 2]); (12, [CNum 1]); (13, [CNum 2]) ] /\
  eval_program 10 (rev n_prog) [[77; 12]; []; [13; 78]] [(11, [CNum 2]); (11, [CNum 1])] [(10, [CNum 1])]
  = Ok [ (11, [CNum 2]); (11, [CNum 1]); (10, [CNum 1]); (12, [CNum 1]); (13, [CNum 2]) ].
Proof.
  split; [|split; [|split; vm_compute; reflexivity]].
  - split.
    + vm_compute. repeat constructor; simpl; intuition discriminate.
    + intros c [<-|[<-|[]]].
      * exists 0%nat. vm_compute. repeat split; intros q Hq; repeat (destruct Hq as [<-|Hq]; [auto with arith|]); try destruct Hq.
      * exists 1%nat. vm_compute. repeat split; intros q Hq; repeat (destruct Hq as [<-|Hq]; [auto with arith|]); try destruct Hq.
  - split.
    + vm_compute. repeat constructor; simpl; intuition discriminate.
    + intros c [<-|[<-|[]]].
      * exists 0%nat. vm_compute. repeat split; intros q Hq; repeat (destruct Hq as [<-|Hq]; [auto with arith|]); try destruct Hq.
      * exists 2%nat. vm_compute. repeat split; intros q Hq; repeat (destruct Hq as [<-|Hq]; [auto with arith|]); try destruct Hq.
Qed.

(* non-vacuity of the renaming theorems: r = (+100) and v = (+5) are injective, and the
   renamed program evaluates to the renamed result *)
Example renaming_satisfiable :
  (forall a b : Z, a + 100 = b + 100 -> a = b) /\
  Forall2 (fun c c' => exists v : Z -> Z, (forall a b, v a = v b -> a = b) /\ c' = rn_clause v c)
          n_prog (map (rn_clause (fun x => x + 5)) n_prog) /\
  eval_program 10 (map (rp_clause (fun k => k + 100)) (map (rn_clause (fun x => x + 5)) n_prog)) [[112]; [113]]
               [(110, [CNum 1])] [(111, [CNum 1]); (111, [CNum 2])]
  = Ok [ (110, [CNum 1]); (111, [CNum 1]); (111, [CNum 2]); (112, [CNum 1]); (113, [CNum 2]) ].
Proof.
  split; [intros a b H; lia|]. split; [|vm_compute; reflexivity].
  repeat constructor; exists (fun x => x + 5); (split; [intros a b H; lia | reflexivity]).
Qed.
