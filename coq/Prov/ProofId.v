(* Prov/ProofId.v - the content-addressed proof identifiers of the provenance package
   (provenance/provenance.go: contentHashHex, edbProofID, absenceProofID, derivedProofID,
   after the fixes at :489-517).
     contentHashHex(parts...) = hex(sha256(frame(parts))[:16]),
     frame = for each part  fmt.Fprintf(h, "%d:%s\n", len(p), p)
     edbProofID(a)      = "/proof/" + contentHashHex("edb", a.String())
     absenceProofID(a)  = "/proof/" + contentHashHex("absence", a.String())
     derivedProofID(ruleID, goal, sub) = "/proof/" + contentHashHex("derived", ruleID, goal.String(), sub[0].ID, ...)
   Byte strings are lists of Z. The hash (sha256, truncation, hex), the printing of a
   fact (ast.Atom.String) and the rule identifier (ruleContentID) are arguments.
   Placeholders and do-aggregates (POther) are not modelled. This file is NOT evaluated
   against the Go code by the correspondence check (the check compares content and
   identifiers of the Go proofs directly on every run).
   No proofs in this file. *)
From Coq Require Import List ZArith Bool Decimal.
From MV Require Import Datalog.Syntax Prov.ProofTree.
Import ListNotations.
Open Scope Z_scope.

(* ASCII digits of a decimal numeral, most significant first *)
Fixpoint uint_bytes (d : Decimal.uint) : list Z :=
  match d with
  | Nil => []
  | D0 r => 48 :: uint_bytes r | D1 r => 49 :: uint_bytes r | D2 r => 50 :: uint_bytes r
  | D3 r => 51 :: uint_bytes r | D4 r => 52 :: uint_bytes r | D5 r => 53 :: uint_bytes r
  | D6 r => 54 :: uint_bytes r | D7 r => 55 :: uint_bytes r | D8 r => 56 :: uint_bytes r
  | D9 r => 57 :: uint_bytes r
  end.

(* %d of a length *)
Definition dec (n : nat) : list Z := uint_bytes (Nat.to_uint n).

(* the bytes written to the hash: "<len>:<part>\n" for each part  (58 = ':', 10 = '\n') *)
Fixpoint frame (parts : list (list Z)) : list Z :=
  match parts with
  | [] => []
  | p :: r => dec (length p) ++ 58 :: p ++ 10 :: frame r
  end.

Definition tag_edb : list Z := [101; 100; 98].                          (* "edb" *)
Definition tag_absence : list Z := [97; 98; 115; 101; 110; 99; 101].    (* "absence" *)
Definition tag_derived : list Z := [100; 101; 114; 105; 118; 101; 100]. (* "derived" *)
Definition id_prefix : list Z := [47; 112; 114; 111; 111; 102; 47].     (* "/proof/" *)

Section Ids.
Variable H : list Z -> list Z.           (* bytes -> hex of the truncated sha256 *)
Variable show : fact -> list Z.          (* ast.Atom.String of a ground atom *)
Variable rid : nat -> list Z.            (* ruleContentID of rule number ri *)

(* bindings and the Partial flag are not hashed; a let-row node is hashed like a rule node *)
Fixpoint node_id (n : pnode) : list Z :=
  match n with
  | PLeaf f => id_prefix ++ H (frame [tag_edb; show f])
  | PAbsent f => id_prefix ++ H (frame [tag_absence; show f])
  | PDerived ri _ f _ prems => id_prefix ++ H (frame (tag_derived :: rid ri :: show f :: map node_id prems))
  | PLet ri f _ prems => id_prefix ++ H (frame (tag_derived :: rid ri :: show f :: map node_id prems))
  | POther _ _ => []
  end.
End Ids.

(* what an identifier stands for: the tree without bindings and flags *)
Fixpoint erase (n : pnode) : pnode :=
  match n with
  | PLeaf f => PLeaf f
  | PAbsent f => PAbsent f
  | PDerived ri _ f _ prems => PDerived ri [] f false (map erase prems)
  | PLet ri f _ prems => PDerived ri [] f false (map erase prems)
  | POther f prems => POther f (map erase prems)
  end.

(* no placeholder / aggregate inside *)
Fixpoint modelled (n : pnode) : bool :=
  match n with
  | PLeaf _ | PAbsent _ => true
  | PDerived _ _ _ _ prems => forallb modelled prems
  | PLet _ _ _ prems => forallb modelled prems
  | POther _ _ => false
  end.
