(* Prov/ProofTree.v - proof trees of the provenance package and the observer that judges
   them. Mirrors provenance.ProofNode (provenance/provenance.go:88-112): Kind (EDB leaf,
   absence leaf, derived, let-row), Rule (here: index into ProgramInfo.Rules), Bindings,
   Premises (one sub-proof per positive or negated body atom, in body order; equalities
   and inequalities have none - solveBodyRec :263-274, buildRule recorder.go:268), Partial.
   The observer check_proof is the specification-side judge of the C15 correspondence:
   the Go proofs are converted to this type and evaluated by it inside coqc.
   No proofs in this file. *)
From Coq Require Import List ZArith Bool.
From MV Require Import Datalog.Syntax Datalog.Interp Datalog.Solve Datalog.SemiNaive.
Import ListNotations.
Open Scope Z_scope.

Inductive pnode :=
| PLeaf (f : fact)                                   (* KindEDB: a base fact *)
| PAbsent (f : fact)                                 (* KindAbsence: negated atom, fact not stored *)
| PDerived (ri : nat) (bs : subst) (f : fact) (partial : bool) (prems : list pnode)
                                                     (* KindDerived: rule ri fired under bindings bs *)
| PLet (ri : nat) (f : fact) (partial : bool) (prems : list pnode)
                                                     (* KindLetRow: output of a let-transform; premises =
                                                        the positive body atoms only (buildLet recorder.go:287) *)
| POther (f : fact) (prems : list pnode).            (* depth-cut placeholder, do-aggregate, anything else *)

Inductive pkind := KLeaf | KAbsent | KInner | KOther.

Definition node_kind (n : pnode) : pkind :=
  match n with
  | PLeaf _ => KLeaf | PAbsent _ => KAbsent
  | PDerived _ _ _ _ _ => KInner | PLet _ _ _ _ => KInner | POther _ _ => KOther
  end.

Definition node_fact (n : pnode) : fact :=
  match n with
  | PLeaf f => f | PAbsent f => f | PDerived _ _ f _ _ => f | PLet _ f _ _ => f | POther f _ => f
  end.

Definition head_of (n : pnode) : pkind * fact := (node_kind n, node_fact n).

(* a node that proves its fact positively *)
Definition is_pos (k : pkind) : bool := match k with KLeaf | KInner => true | _ => false end.

(* ---- one rule application. The body is walked left to right from the reported
   bindings s (for a let-row: from the empty substitution, the node reports none);
   hs = kind and fact of the premise nodes not yet consumed.
   - positive atom: the next premise node proves a fact that the atom matches under s
     (variables the bindings leave open - wildcards, variables the explainer does not
     report - are bound by the match, later literals see them);
   - negated atom: ground under s, the ground fact is not in the store; with negleaf
     the next premise node is the absence leaf of exactly that fact;
   - equality / inequality: evaluated as the engine does (step_pure); a comparison atom
     has no evaluation here (outside the property, finding N17).
   Result: the substitution after the last literal; None = the node is not an instance
   of the rule. *)
Fixpoint check_body (St : list fact) (negleaf : bool) (body : list premise) (s : subst)
         (hs : list (pkind * fact)) : option subst :=
  match body with
  | [] => match hs with [] => Some s | _ => None end
  | PAtom a :: b =>
      match hs with
      | (k, g) :: hs' =>
          if is_pos k then
            match eval_args s (aargs a) with
            | Some pvs => match match_fact (apred a) pvs s g with
                          | Some u => check_body St negleaf b u hs'
                          | None => None
                          end
            | None => None
            end
          else None
      | [] => None
      end
  | PNeg a :: b =>
      match eval_args s (aargs a) with
      | Some pvs =>
          match map_opt (ground_value s) pvs with
          | Some cs =>
              let g := (apred a, cs) in
              if mem g St then None
              else if negleaf then
                     match hs with
                     | (KAbsent, g') :: hs' => if fact_eqb g g' then check_body St negleaf b s hs' else None
                     | _ => None
                     end
                   else check_body St negleaf b s hs
          | None => None
          end
      | None => None
      end
  | PCmp _ _ _ :: _ => None
  | p :: b =>
      match step_pure p s with
      | Some [u] => check_body St negleaf b u hs
      | _ => None
      end
  end.

(* the instance of clause c described by (start substitution, premise heads) concludes f *)
Definition check_rule (St : list fact) (negleaf : bool) (c : clause) (s : subst)
           (hs : list (pkind * fact)) (f : fact) : bool :=
  match check_body St negleaf (cbody c) s hs with
  | Some t => match emit_head c t with
              | Some g => fact_eqb g f
              | None => false
              end
  | None => false
  end.

(* ---- the whole tree. base = facts that need no derivation (facts written in the
   program text and facts the caller put into the store); St = the evaluated store;
   anc = facts of the proper ancestors (no fact may be its own ancestor). A node flagged
   partial, a cut placeholder or a do-aggregate is never a complete derivation. *)
Fixpoint check_node (P : list clause) (base St : list fact) (anc : list fact) (n : pnode) : bool :=
  match n with
  | PLeaf f => mem f base && mem f St && negb (mem f anc)
  | PAbsent f => negb (mem f St)
  | PDerived ri bs f partial prems =>
      negb partial && negb (mem f anc) &&
      match nth_error P ri with
      | Some c => is_nil (clet c) && check_rule St true c bs (map head_of prems) f
      | None => false
      end &&
      forallb (check_node P base St (f :: anc)) prems
  | PLet ri f partial prems =>
      negb partial && negb (mem f anc) &&
      match nth_error P ri with
      | Some c => negb (is_nil (clet c)) && check_rule St false c [] (map head_of prems) f
      | None => false
      end &&
      forallb (check_node P base St (f :: anc)) prems
  | POther _ _ => false
  end.

(* a proof of a goal: a positive node that is a valid derivation of exactly that fact *)
Definition check_proof (P : list clause) (base St : list fact) (goal : fact) (n : pnode) : bool :=
  is_pos (node_kind n) && fact_eqb (node_fact n) goal && check_node P base St [] n.

(* some node of the tree is flagged as not fully expanded (Partial, or a placeholder) *)
Fixpoint has_partial (n : pnode) : bool :=
  match n with
  | PLeaf _ | PAbsent _ => false
  | PDerived _ _ _ partial prems => partial || existsb has_partial prems
  | PLet _ _ partial prems => partial || existsb has_partial prems
  | POther _ _ => true
  end.

(* all facts occurring in positive nodes of the tree (used by the acyclicity lemmas) *)
Fixpoint pos_facts (n : pnode) : list fact :=
  match n with
  | PLeaf f => [f]
  | PAbsent _ => []
  | PDerived _ _ f _ prems => f :: flat_map pos_facts prems
  | PLet _ f _ prems => f :: flat_map pos_facts prems
  | POther f prems => f :: flat_map pos_facts prems
  end.
