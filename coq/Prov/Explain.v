(* Prov/Explain.v - a reference explainer: proofs for the facts of an evaluated store are
   built bottom-up, in the order in which a naive iteration over the transform-free rules
   reaches them (rank = round of first derivation). A proof table maps each proved fact
   to one proof; a round joins every rule body against the facts proved so far (negation
   against the final store St) and gives every NEW head fact the proof made of the rule
   and the table entries of its premises. A fact enters the table once, so the proof of a
   fact only contains facts that were in the table before it: no fact is its own
   ancestor. This is the specification-side counterpart of provenance.Explain
   (provenance/provenance.go:144) - not a model of its backward chaining.
   No proofs in this file. *)
From Coq Require Import List ZArith Bool.
From MV Require Import Datalog.Syntax Datalog.Interp Datalog.Solve Datalog.SemiNaive Prov.ProofTree.
Import ListNotations.
Open Scope Z_scope.

Definition table := list (fact * pnode).
Definition keys (tbl : table) : list fact := map fst tbl.

Fixpoint find_proof (tbl : table) (f : fact) : option pnode :=
  match tbl with
  | [] => None
  | (g, n) :: r => if fact_eqb f g then Some n else find_proof r f
  end.

(* all solutions of a body from substitution s, each with the premise nodes it used
   (the same walk as check_body, enumerating the table instead of reading given nodes) *)
Fixpoint solve_pf (St : list fact) (tbl : table) (body : list premise) (s : subst)
  : list (subst * list pnode) :=
  match body with
  | [] => [(s, [])]
  | PAtom a :: b =>
      match eval_args s (aargs a) with
      | Some pvs =>
          flat_map (fun fp => match match_fact (apred a) pvs s (fst fp) with
                              | Some u => map (fun r => (fst r, snd fp :: snd r)) (solve_pf St tbl b u)
                              | None => []
                              end) tbl
      | None => []
      end
  | PNeg a :: b =>
      match eval_args s (aargs a) with
      | Some pvs =>
          match map_opt (ground_value s) pvs with
          | Some cs => if mem (apred a, cs) St then []
                       else map (fun r => (fst r, PAbsent (apred a, cs) :: snd r)) (solve_pf St tbl b s)
          | None => []
          end
      | None => []
      end
  | PCmp _ _ _ :: _ => []
  | p :: b =>
      match step_pure p s with
      | Some [u] => solve_pf St tbl b u
      | _ => []
      end
  end.

(* the proofs rule number ri offers over the current table; the reference explainer
   reports the empty binding list (check_body then replays the join) *)
Definition clause_candidates (St : list fact) (tbl : table) (ri : nat) (c : clause) : list (fact * pnode) :=
  if is_nil (clet c) then
    fmap (fun r => match emit_head c (fst r) with
                   | Some f => Some (f, PDerived ri [] f false (snd r))
                   | None => None
                   end) (solve_pf St tbl (cbody c) [])
  else [].

Fixpoint candidates (St : list fact) (tbl : table) (ri : nat) (P : list clause) : list (fact * pnode) :=
  match P with
  | [] => []
  | c :: P' => clause_candidates St tbl ri c ++ candidates St tbl (S ri) P'
  end.

(* a fact keeps its first proof *)
Definition add_entry (tbl : table) (e : fact * pnode) : table :=
  if mem (fst e) (keys tbl) then tbl else tbl ++ [e].

Definition step_tbl (P : list clause) (St : list fact) (tbl : table) : table :=
  fold_left add_entry (candidates St tbl 0 P) tbl.

(* rounds until nothing is added; None = out of fuel *)
Fixpoint iterate (fuel : nat) (P : list clause) (St : list fact) (tbl : table) : option table :=
  match fuel with
  | O => None
  | S k => let tbl' := step_tbl P St tbl in
           if Nat.eqb (length tbl') (length tbl) then Some tbl else iterate k P St tbl'
  end.

(* leaves: the base facts the store holds *)
Definition init_tbl (base St : list fact) : table :=
  fold_left add_entry (map (fun f => (f, PLeaf f)) (filter (fun f => mem f St) base)) [].

Definition explain_ref_fuel (fuel : nat) (P : list clause) (base St : list fact) : option table :=
  iterate fuel P St (init_tbl base St).

(* every productive round proves a new fact of the store, so length St + 1 rounds are
   enough when St is the evaluated store; [] if they are not *)
Definition explain_ref (P : list clause) (base St : list fact) : table :=
  match explain_ref_fuel (S (length St)) P base St with
  | Some tbl => tbl
  | None => []
  end.
