(* Prov/ExplainProofs.v - the reference explainer only builds proofs that check_proof
   accepts (soundness), and a saturated table proves every fact of the least model
   (completeness). *)
From Coq Require Import List ZArith Bool Lia.
From MV Require Import Datalog.Syntax Datalog.SyntaxProofs Datalog.Interp Datalog.Solve Datalog.SolveProofs
  Datalog.SemiNaive Datalog.SemiNaiveProofs Datalog.Lfp Prov.ProofTree Prov.ProofTreeProofs Prov.Explain.
Import ListNotations.
Open Scope Z_scope.

Local Arguments step_pure : simpl never.

Section Sound.
Variable P : list clause.
Variables base St : list fact.

(* every entry is a checked proof of its key, built from facts that have entries *)
Definition entry_ok (tbl : table) (e : fact * pnode) : Prop :=
  node_fact (snd e) = fst e /\ is_pos (node_kind (snd e)) = true /\
  check_node P base St [] (snd e) = true /\ incl (pos_facts (snd e)) (keys tbl).

Definition Inv (tbl : table) : Prop := forall e, In e tbl -> entry_ok tbl e.

(* a candidate computed over tbl0: fine to insert into any extension of tbl0 that does
   not have its fact yet *)
Definition cand_ok (tbl0 : table) (e : fact * pnode) : Prop :=
  node_fact (snd e) = fst e /\ is_pos (node_kind (snd e)) = true /\
  incl (pos_facts (snd e)) (fst e :: keys tbl0) /\
  (~ In (fst e) (keys tbl0) -> check_node P base St [] (snd e) = true).

Lemma keys_app tbl e : keys (tbl ++ [e]) = keys tbl ++ [fst e].
Proof. unfold keys. rewrite map_app. reflexivity. Qed.

Lemma add_entry_keys tbl e : incl (keys tbl) (keys (add_entry tbl e)).
Proof.
  unfold add_entry. destruct (mem (fst e) (keys tbl)); [apply incl_refl|].
  rewrite keys_app. apply incl_appl, incl_refl.
Qed.

Lemma add_entry_inv tbl0 tbl e :
  Inv tbl -> incl (keys tbl0) (keys tbl) -> cand_ok tbl0 e -> Inv (add_entry tbl e).
Proof.
  intros HI Hk (Hf & Hp & Hs & Hc). unfold add_entry.
  destruct (mem (fst e) (keys tbl)) eqn:Hm; [exact HI|].
  apply mem_false in Hm.
  intros x Hx. apply in_app_or in Hx as [Hx|[<-|[]]].
  - destruct (HI x Hx) as (A & B & C0 & D). repeat split; auto.
    rewrite keys_app. apply incl_appl. exact D.
  - split; [exact Hf|]. split; [exact Hp|]. split.
    + apply Hc. intros Hin. apply Hm, Hk, Hin.
    + rewrite keys_app. intros g Hg. apply Hs in Hg as [<-|Hg].
      * apply in_or_app. right. left. reflexivity.
      * apply in_or_app. left. apply Hk, Hg.
Qed.

Lemma fold_add_inv tbl0 l : forall tbl,
  Inv tbl -> incl (keys tbl0) (keys tbl) -> (forall e, In e l -> cand_ok tbl0 e) ->
  Inv (fold_left add_entry l tbl) /\ incl (keys tbl) (keys (fold_left add_entry l tbl)).
Proof.
  induction l as [|e l IH]; intros tbl HI Hk Hl; simpl.
  - split; [exact HI | apply incl_refl].
  - destruct (IH (add_entry tbl e)) as [A B].
    + eapply add_entry_inv; eauto. apply Hl. left. reflexivity.
    + eapply incl_tran; [exact Hk | apply add_entry_keys].
    + intros x Hx. apply Hl. right. exact Hx.
    + split; [exact A|]. eapply incl_tran; [apply add_entry_keys | exact B].
Qed.

(* ---- the join with proofs replays as check_body *)
Definition prem_ok (tbl : table) (n : pnode) : Prop :=
  In (node_fact n, n) tbl \/ exists g, n = PAbsent g /\ ~ In g St.

Lemma solve_pf_sound tbl body : forall s t prems,
  (forall e, In e tbl -> node_fact (snd e) = fst e /\ is_pos (node_kind (snd e)) = true) ->
  In (t, prems) (solve_pf St tbl body s) ->
  check_body St true body s (map head_of prems) = Some t /\ Forall (prem_ok tbl) prems.
Proof.
  induction body as [|p b IH]; intros s t prems Ht H; simpl in H.
  - destruct H as [H|[]]. injection H as <- <-. simpl. split; constructor.
  - destruct p as [a|a|l r|l r|op l r]; simpl.
    + destruct (eval_args s (aargs a)) as [pvs|] eqn:He; [|destruct H].
      apply in_flat_map in H as ([g n] & Hin & H). simpl in H.
      destruct (match_fact (apred a) pvs s g) as [u|] eqn:Hm; [|destruct H].
      apply in_map_iff in H as ([t' ps'] & E & H). simpl in E. injection E as <- <-.
      destruct (IH u t' ps' Ht H) as [A B].
      destruct (Ht (g, n) Hin) as [Hf Hp]. simpl in Hf, Hp.
      simpl. unfold head_of at 1. rewrite Hp, Hf, Hm. split; [exact A|].
      constructor; [left; rewrite Hf; exact Hin | exact B].
    + destruct (eval_args s (aargs a)) as [pvs|] eqn:He; [|destruct H].
      destruct (map_opt (ground_value s) pvs) as [cs|] eqn:Hg; [|destruct H].
      destruct (mem (apred a, cs) St) eqn:Hmem; [destruct H|].
      apply in_map_iff in H as ([t' ps'] & E & H). simpl in E. injection E as <- <-.
      destruct (IH s t' ps' Ht H) as [A B].
      simpl. assert (Hf : fact_eqb (apred a, cs) (apred a, cs) = true) by (apply fact_eqb_spec; reflexivity).
      rewrite Hf. split; [exact A|].
      constructor; [right; exists (apred a, cs); split; [reflexivity | apply mem_false; exact Hmem] | exact B].
    + destruct (step_pure (PEq l r) s) as [[|u [|]]|] eqn:Hs; try (destruct H; fail).
      apply IH; auto.
    + destruct (step_pure (PIneq l r) s) as [[|u [|]]|] eqn:Hs; try (destruct H; fail).
      apply IH; auto.
    + destruct H.
Qed.

Lemma inv_weak tbl : Inv tbl ->
  forall e, In e tbl -> node_fact (snd e) = fst e /\ is_pos (node_kind (snd e)) = true.
Proof. intros HI e He. destruct (HI e He) as (A & B & _). auto. Qed.

Lemma in_keys tbl f n : In (f, n) tbl -> In f (keys tbl).
Proof. intros H. unfold keys. apply in_map_iff. exists (f, n). auto. Qed.

Lemma clause_candidates_ok tbl ri c e :
  Inv tbl -> nth_error P ri = Some c -> In e (clause_candidates St tbl ri c) -> cand_ok tbl e.
Proof.
  intros HI Hn He. unfold clause_candidates in He.
  destruct (is_nil (clet c)) eqn:Hl; [|destruct He].
  apply in_fmap in He as ([t prems] & Hin & He). simpl in He.
  destruct (emit_head c t) as [f|] eqn:Hh; [|discriminate]. injection He as <-.
  destruct (solve_pf_sound tbl (cbody c) [] t prems (inv_weak tbl HI) Hin) as [Hb Hp].
  assert (Hsub : incl (flat_map pos_facts prems) (keys tbl)).
  { intros g Hg. apply in_flat_map in Hg as (x & Hx & Hg). rewrite Forall_forall in Hp.
    destruct (Hp x Hx) as [Hx'|(g' & -> & _)]; [|destruct Hg].
    destruct (HI _ Hx') as (_ & _ & _ & Hs). apply Hs. exact Hg. }
  unfold cand_ok. simpl. repeat split; auto.
  - intros g [<-|Hg]; [left; reflexivity | right; apply Hsub; exact Hg].
  - intros Hnk. rewrite Hn, Hl. unfold check_rule. rewrite Hb, Hh.
    assert (Hf : fact_eqb f f = true) by (apply fact_eqb_spec; reflexivity). rewrite Hf. simpl.
    apply forallb_forall. intros x Hx. rewrite Forall_forall in Hp.
    destruct (Hp x Hx) as [Hx'|(g' & -> & Hg')].
    + destruct (HI _ Hx') as (_ & _ & Hc & Hs). simpl in Hc, Hs.
      apply (check_node_anc P base St x [] [f] Hc).
      intros g [<-|[]]. right. intros Hin2. apply Hnk, Hs, Hin2.
    + simpl. apply negb_mem. exact Hg'.
Qed.

Lemma candidates_ok tbl : Inv tbl -> forall Q k e,
  (forall i c, nth_error Q i = Some c -> nth_error P (k + i) = Some c) ->
  In e (candidates St tbl k Q) -> cand_ok tbl e.
Proof.
  intros HI Q. induction Q as [|c Q IH]; intros k e Hq He; simpl in He; [destruct He|].
  apply in_app_or in He as [He|He].
  - apply (clause_candidates_ok tbl k c e HI); auto.
    specialize (Hq O c eq_refl). rewrite Nat.add_0_r in Hq. exact Hq.
  - apply (IH (S k) e); auto. intros i c' Hi. specialize (Hq (S i) c' Hi).
    replace (S k + i)%nat with (k + S i)%nat by lia. exact Hq.
Qed.

Lemma step_tbl_inv tbl : Inv tbl -> Inv (step_tbl P St tbl) /\ incl (keys tbl) (keys (step_tbl P St tbl)).
Proof.
  intros HI. unfold step_tbl. apply (fold_add_inv tbl); auto; [apply incl_refl|].
  intros e He. apply (candidates_ok tbl HI P O e); auto.
Qed.

Lemma init_tbl_inv : Inv (init_tbl base St).
Proof.
  unfold init_tbl.
  apply (fold_add_inv [] (map (fun f => (f, PLeaf f)) (filter (fun f => mem f St) base)) []).
  - intros e [].
  - apply incl_refl.
  - intros e He. apply in_map_iff in He as (f & <- & Hf). apply filter_In in Hf as [Hb Hs].
    unfold cand_ok. simpl. repeat split; auto.
    + intros g [<-|[]]. left. reflexivity.
    + intros _. apply mem_spec in Hb. rewrite Hb, Hs. reflexivity.
Qed.

Lemma iterate_inv fuel : forall tbl res, Inv tbl -> iterate fuel P St tbl = Some res -> Inv res.
Proof.
  induction fuel as [|k IH]; intros tbl res HI H; simpl in H; [discriminate|].
  destruct (Nat.eqb (length (step_tbl P St tbl)) (length tbl)).
  - injection H as <-. exact HI.
  - apply (IH _ _ (proj1 (step_tbl_inv tbl HI)) H).
Qed.

Lemma find_proof_in tbl f n : find_proof tbl f = Some n -> In (f, n) tbl.
Proof.
  induction tbl as [|[g m] tbl IH]; simpl; [discriminate|].
  destruct (fact_eqb f g) eqn:E.
  - intros H. injection H as ->. apply fact_eqb_spec in E. subst. left. reflexivity.
  - intros H. right. apply IH, H.
Qed.

Lemma explain_ref_fuel_sound fuel tbl f n :
  explain_ref_fuel fuel P base St = Some tbl -> find_proof tbl f = Some n ->
  check_proof P base St f n = true.
Proof.
  intros H Hf. unfold explain_ref_fuel in H.
  pose proof (iterate_inv fuel _ _ init_tbl_inv H) as HI.
  apply find_proof_in in Hf. destruct (HI _ Hf) as (A & B & C0 & _). simpl in *.
  unfold check_proof. rewrite B, C0. rewrite A.
  assert (E : fact_eqb f f = true) by (apply fact_eqb_spec; reflexivity). rewrite E. reflexivity.
Qed.

Lemma explain_ref_sound_lemma f n :
  find_proof (explain_ref P base St) f = Some n -> check_proof P base St f n = true.
Proof.
  unfold explain_ref. destruct (explain_ref_fuel (S (length St)) P base St) as [tbl|] eqn:H.
  - apply (explain_ref_fuel_sound _ _ _ _ H).
  - discriminate.
Qed.

End Sound.

(* ================================================================ completeness *)

(* ---- saturation: a round that does not lengthen the table added nothing *)
Lemma add_entry_len tbl e : (length tbl <= length (add_entry tbl e))%nat.
Proof. unfold add_entry. destruct (mem (fst e) (keys tbl)); [lia|]. rewrite app_length. simpl. lia. Qed.

Lemma fold_add_len l : forall tbl, (length tbl <= length (fold_left add_entry l tbl))%nat.
Proof.
  induction l as [|e l IH]; intros tbl; simpl; [lia|].
  pose proof (add_entry_len tbl e). pose proof (IH (add_entry tbl e)). lia.
Qed.

Lemma fold_add_saturated l : forall tbl,
  length (fold_left add_entry l tbl) = length tbl -> forall e, In e l -> In (fst e) (keys tbl).
Proof.
  induction l as [|x l IH]; intros tbl Hlen e He; [destruct He|]. simpl in Hlen.
  pose proof (add_entry_len tbl x) as H1. pose proof (fold_add_len l (add_entry tbl x)) as H2.
  assert (Hx : add_entry tbl x = tbl /\ In (fst x) (keys tbl)).
  { unfold add_entry in *. destruct (mem (fst x) (keys tbl)) eqn:Hm.
    - split; [reflexivity | apply mem_spec; exact Hm].
    - rewrite app_length in H2. simpl in H2. lia. }
  destruct Hx as [Hx Hk]. destruct He as [<-|He]; [exact Hk|].
  rewrite Hx in Hlen. apply (IH tbl Hlen e He).
Qed.

Lemma iterate_saturated P St fuel : forall tbl res,
  iterate fuel P St tbl = Some res ->
  incl (keys tbl) (keys res) /\ forall e, In e (candidates St res 0 P) -> In (fst e) (keys res).
Proof.
  induction fuel as [|k IH]; intros tbl res H; simpl in H; [discriminate|].
  destruct (Nat.eqb (length (step_tbl P St tbl)) (length tbl)) eqn:E.
  - injection H as <-. split; [apply incl_refl|]. apply Nat.eqb_eq in E.
    apply (fold_add_saturated _ _ E).
  - destruct (IH _ _ H) as [A B]. split; [|exact B].
    eapply incl_tran; [|exact A]. unfold step_tbl.
    clear. generalize (candidates St tbl 0 P). intros l. revert tbl.
    induction l as [|e l IHl]; intros tbl; simpl; [apply incl_refl|].
    eapply incl_tran; [apply add_entry_keys | apply IHl].
Qed.

(* ---- ground negated atoms *)
Lemma eval_term_var s t v : eval_term s t = Some (VVar v) -> lookup v s = None.
Proof.
  destruct t as [w|c|f args]; simpl.
  - destruct (lookup w s) eqn:E; intros H; inversion H; subst; auto.
  - discriminate.
  - match goal with |- context [match ?X with Some _ => _ | None => _ end] => destruct X end; [|discriminate].
    destruct (eval_fn f l); discriminate.
Qed.

Lemma ground_args_match s args : forall pvs cs p,
  eval_args s args = Some pvs -> map_opt (ground_value s) pvs = Some cs ->
  match_fact p pvs s (p, cs) = Some s.
Proof.
  unfold match_fact, eval_args. intros pvs cs p. simpl. rewrite Z.eqb_refl. revert pvs cs.
  induction args as [|a args IH]; intros pvs cs He Hg; simpl in He.
  - injection He as <-. simpl in Hg. injection Hg as <-. reflexivity.
  - destruct (eval_term s a) as [v|] eqn:Ea; [|discriminate].
    destruct (map_opt (eval_term s) args) as [r|] eqn:Er; [|discriminate].
    injection He as <-. simpl in Hg.
    destruct (ground_value s v) as [c|] eqn:Ev; [|discriminate].
    destruct (map_opt (ground_value s) r) as [cs'|] eqn:Ec; [|discriminate].
    injection Hg as <-. simpl.
    destruct v as [d|w]; simpl in Ev.
    + injection Ev as ->. assert (E : const_eqb c c = true) by (apply const_eqb_spec; reflexivity).
      unfold unify1. rewrite E. apply IH; auto.
    + apply eval_term_var in Ea. congruence.
Qed.

(* every negated atom of the body is ground when the join reaches it - whatever facts
   the positive atoms before it were matched with and whatever the earlier negated atoms
   said (the walk below lets every negation pass): the safety condition of the analysis *)
Definition nofacts : factset := fun _ => False.

Definition neg_ground_from (body : list premise) (s : subst) : Prop :=
  forall I k pre a post u pvs,
    body = pre ++ PNeg a :: post -> sat nofacts (fun _ => I) k pre s u ->
    eval_args u (aargs a) = Some pvs -> exists cs, map_opt (ground_value u) pvs = Some cs.

Lemma holds_weaken N I I' p s u : incl I I' -> holds N I p s u -> holds nofacts I' p s u.
Proof.
  intros Hi H. destruct H as [a s pvs f u He Hf Hm | a s pvs He Hall | p s us u He Hu].
  - eapply holds_atom; eauto.
  - eapply holds_neg; eauto. intros f [].
  - eapply holds_pure; eauto.
Qed.

Lemma sat_weaken N I I' b : forall k k' s t,
  incl I I' -> sat N (fun _ => I) k b s t -> sat nofacts (fun _ => I') k' b s t.
Proof.
  induction b as [|p b IH]; intros k k' s t Hi H; inversion H; subst.
  - constructor.
  - econstructor; [eapply holds_weaken; eauto | eapply IH; eauto].
Qed.

Definition no_cmp (body : list premise) : Prop := forall op l r, ~ In (PCmp op l r) body.

Lemma step_pure_single p s us u :
  (forall op l r, p <> PCmp op l r) -> step_pure p s = Some us -> In u us -> us = [u].
Proof.
  intros Hc H Hu. destruct p as [a|a|l r|l r|op l r]; unfold step_pure in H; try discriminate.
  - destruct (eval_term s l) as [[a|v]|]; try discriminate;
      destruct (eval_term s r) as [[b|w]|]; try discriminate.
    + injection H as <-. destruct (const_eqb a b); simpl in Hu; try (destruct Hu; fail); destruct Hu as [<-|[]]; reflexivity.
    + injection H as <-. destruct Hu as [<-|[]]; reflexivity.
    + injection H as <-. destruct Hu as [<-|[]]; reflexivity.
    + destruct (v =? w); [|discriminate]. injection H as <-. destruct Hu as [<-|[]]; reflexivity.
  - destruct (eval_term s l) as [[a|v]|]; try discriminate;
      destruct (eval_term s r) as [[b|w]|]; try discriminate; injection H as <-;
      try (destruct Hu; fail).
    destruct (const_eqb a b); simpl in Hu; try (destruct Hu; fail); destruct Hu as [<-|[]]; reflexivity.
  - exfalso. apply (Hc op l r). reflexivity.
Qed.

Section Complete.
Variable P : list clause.
Variables base St : list fact.
Variable B : factset.            (* the base of the stratum: lower strata complete *)

Lemma solve_pf_complete tbl I body : forall k s t,
  (forall g, In g I -> exists n, In (g, n) tbl) ->
  neg_agree body (fun f => In f St) B -> neg_ground_from body s -> no_cmp body ->
  sat B (fun _ => I) k body s t ->
  exists prems, In (t, prems) (solve_pf St tbl body s).
Proof.
  induction body as [|p b IH]; intros k s t HI Hna Hng Hnc Hs.
  - inversion Hs; subst. exists []. left. reflexivity.
  - inversion Hs as [|k' p' b' s' u t' Hh Hr]; subst.
    assert (Hng' : neg_ground_from b u).
    { intros I' k2 pre a post u' pvs E Hsat. apply (Hng (I ++ I') k (p :: pre) a post u' pvs).
      - rewrite E. reflexivity.
      - econstructor.
        + eapply holds_weaken; [|exact Hh]. apply incl_appl, incl_refl.
        + eapply sat_weaken; [|exact Hsat]. apply incl_appr, incl_refl. }
    assert (Hnc' : no_cmp b) by (intros op l r Hin; apply (Hnc op l r); right; exact Hin).
    assert (Hna' : neg_agree b (fun f => In f St) B) by (eapply neg_agree_tail; eauto).
    destruct p as [a|a|l r|l r|op l r].
    + apply holds_atom_inv in Hh as (pvs & g & He & Hg & Hm).
      destruct (HI g Hg) as (n & Hn).
      destruct (IH (S k) u t HI Hna' Hng' Hnc' Hr) as (prems & Hp).
      exists (n :: prems). simpl. rewrite He. apply in_flat_map. exists (g, n). split; [exact Hn|].
      simpl. rewrite Hm. apply in_map_iff. exists (t, prems). split; [reflexivity | exact Hp].
    + apply holds_neg_inv in Hh as (-> & pvs & He & Hall).
      destruct (Hng I k [] a b s pvs eq_refl (sat_nil _ _ _ _) He) as (cs & Hcs).
      destruct (IH (S k) s t HI Hna' Hng' Hnc' Hr) as (prems & Hp).
      exists (PAbsent (apred a, cs) :: prems). simpl. rewrite He, Hcs.
      destruct (mem (apred a, cs) St) eqn:Hm.
      * exfalso. apply mem_spec in Hm.
        assert (HB : B (apred a, cs)) by (apply (Hna a (apred a, cs)); [left; reflexivity | reflexivity | exact Hm]).
        specialize (Hall _ HB). rewrite (ground_args_match s (aargs a) pvs cs (apred a) He Hcs) in Hall. discriminate.
      * apply in_map_iff. exists (t, prems). split; [reflexivity | exact Hp].
    + apply holds_pure_inv in Hh as (us & Hsp & Hu); [|intros a; discriminate|intros a; discriminate].
      rewrite (step_pure_single (PEq l r) s us u ltac:(intros; discriminate) Hsp Hu) in Hsp.
      destruct (IH (S k) u t HI Hna' Hng' Hnc' Hr) as (prems & Hp).
      exists prems. simpl. simpl in Hsp. rewrite Hsp. exact Hp.
    + apply holds_pure_inv in Hh as (us & Hsp & Hu); [|intros a; discriminate|intros a; discriminate].
      rewrite (step_pure_single (PIneq l r) s us u ltac:(intros; discriminate) Hsp Hu) in Hsp.
      destruct (IH (S k) u t HI Hna' Hng' Hnc' Hr) as (prems & Hp).
      exists prems. simpl. simpl in Hsp. rewrite Hsp. exact Hp.
    + exfalso. apply (Hnc op l r). left. reflexivity.
Qed.

End Complete.

(* ---- a saturated table is closed under the rules, hence contains the least model *)
Section Layers.
Variable P : list clause.
Variables base St : list fact.

(* what the completeness argument needs of a clause of the stratum with base B:
   transform-free, no built-in comparison atoms, ground negation, and the evaluated
   store judges its negated atoms like B (stratification: the negated predicates are
   complete in B) *)
Definition clause_fine (B : factset) (c : clause) : Prop :=
  clet c = [] /\ no_cmp (cbody c) /\ neg_ground_from (cbody c) [] /\
  neg_agree (cbody c) (fun f => In f St) B.

Lemma candidates_in tbl e c : forall Q k i,
  nth_error Q i = Some c -> In e (clause_candidates St tbl (k + i) c) -> In e (candidates St tbl k Q).
Proof.
  induction Q as [|c0 Q IH]; intros k i Hn He; [destruct i; discriminate|].
  simpl. apply in_or_app. destruct i as [|i]; simpl in Hn.
  - injection Hn as ->. left. rewrite Nat.add_0_r in He. exact He.
  - right. apply (IH (S k) i Hn). replace (S k + i)%nat with (k + S i)%nat by lia. exact He.
Qed.

Lemma keys_entry tbl f : In f (keys tbl) -> exists n, In (f, n) tbl.
Proof.
  unfold keys. intros H. apply in_map_iff in H as ([g n] & E & H). simpl in E. subst g. exists n. exact H.
Qed.

Lemma saturated_closed tbl R B :
  (forall e, In e (candidates St tbl 0 P) -> In (fst e) (keys tbl)) ->
  (forall c, In c R -> In c P /\ clause_fine B c) ->
  (forall f, B f -> In f (keys tbl)) ->
  forall f, lfp R B f -> In f (keys tbl).
Proof.
  intros Hsat HR HB f Hf. induction Hf as [f Hf | I c f _ IH Hc (t & Hs & He)].
  - apply HB, Hf.
  - destruct (HR c Hc) as (HcP & Hl & Hnc & Hng & Hna).
    destruct (solve_pf_complete St B tbl I (cbody c) 0 [] t
                (fun g Hg => keys_entry tbl g (IH g Hg)) Hna Hng Hnc Hs) as (prems & Hp).
    apply In_nth_error in HcP as (ri & Hri).
    apply (Hsat (f, PDerived ri [] f false prems)).
    apply (candidates_in tbl _ c P O ri Hri). simpl.
    unfold clause_candidates. rewrite Hl. simpl.
    apply in_fmap. exists (t, prems). split; [exact Hp|]. simpl. rewrite He. reflexivity.
Qed.

Fixpoint strat_ok (B : factset) (layers : list (list Z)) : Prop :=
  match layers with
  | [] => True
  | ps :: rest => (forall c, In c (layer_rules P ps) -> clause_fine B c) /\
                  strat_ok (lfp (layer_rules P ps) B) rest
  end.

Lemma saturated_slfp tbl layers : forall B : factset,
  (forall e, In e (candidates St tbl 0 P) -> In (fst e) (keys tbl)) ->
  (forall f, B f -> In f (keys tbl)) -> strat_ok B layers ->
  forall f, slfp P layers B f -> In f (keys tbl).
Proof.
  induction layers as [|ps rest IH]; intros B Hsat HB Hok f Hf; simpl in *.
  - apply HB, Hf.
  - destruct Hok as [Hfine Hrest].
    apply (IH (lfp (layer_rules P ps) B) Hsat); auto.
    apply (saturated_closed tbl (layer_rules P ps) B Hsat); auto.
    intros c Hc. split; [|apply Hfine, Hc]. unfold layer_rules in Hc. apply filter_In in Hc. tauto.
Qed.

Lemma fold_add_has l : forall tbl e, In e l -> In (fst e) (keys (fold_left add_entry l tbl)).
Proof.
  induction l as [|x l IH]; intros tbl e He; [destruct He|]. simpl. destruct He as [<-|He].
  - assert (Hx : In (fst x) (keys (add_entry tbl x))).
    { unfold add_entry. destruct (mem (fst x) (keys tbl)) eqn:Hm; [apply mem_spec; exact Hm|].
      rewrite keys_app. apply in_or_app. right. left. reflexivity. }
    revert Hx. generalize (add_entry tbl x). clear. induction l as [|y l IHl]; intros tbl H; simpl; [exact H|].
    apply IHl. apply add_entry_keys. exact H.
  - apply IH, He.
Qed.

Lemma find_proof_some tbl f : In f (keys tbl) -> exists n, find_proof tbl f = Some n.
Proof.
  induction tbl as [|[g m] tbl IH]; simpl; [intros []|].
  intros [->|H].
  - assert (E : fact_eqb f f = true) by (apply fact_eqb_spec; reflexivity). rewrite E. eauto.
  - destruct (fact_eqb f g); eauto.
Qed.

Lemma explain_ref_fuel_complete fuel layers tbl :
  explain_ref_fuel fuel P base St = Some tbl ->
  (forall f, In f base -> In f St) ->
  strat_ok (fun f => In f base) layers ->
  forall f, slfp P layers (fun g => In g base) f ->
  exists n, find_proof tbl f = Some n /\ check_proof P base St f n = true.
Proof.
  intros H Hbs Hok f Hf. unfold explain_ref_fuel in H.
  destruct (iterate_saturated P St fuel _ _ H) as [Hk Hsat].
  assert (Hin : In f (keys tbl)).
  { apply (saturated_slfp tbl layers (fun g => In g base) Hsat); auto.
    intros g Hg. apply Hk. unfold init_tbl.
    apply (fold_add_has _ [] (g, PLeaf g)). apply in_map_iff. exists g. split; [reflexivity|].
    apply filter_In. split; [exact Hg|]. apply mem_spec. apply Hbs, Hg. }
  destruct (find_proof_some tbl f Hin) as (n & Hn). exists n. split; [exact Hn|].
  apply (explain_ref_fuel_sound P base St fuel tbl f n H Hn).
Qed.

End Layers.
