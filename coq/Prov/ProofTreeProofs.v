(* Prov/ProofTreeProofs.v - the observer check_proof accepts exactly the valid derivations.
   `valid` is the declarative reading of the C15 statement: every inner node is an
   instance of its rule under the reported bindings with the premises in body order,
   leaves are base facts in the store, absence leaves are ground atoms genuinely absent
   from it, (in)equalities hold, no fact is its own ancestor. *)
From Coq Require Import List ZArith Bool Lia.
From MV Require Import Datalog.Syntax Datalog.SyntaxProofs Datalog.Interp Datalog.Solve Datalog.SolveProofs
  Datalog.SemiNaive Datalog.SemiNaiveProofs Prov.ProofTree.
Import ListNotations.
Open Scope Z_scope.

(* ---- induction over proof trees (nested lists) *)
Section pnode_ind2.
Variable Q : pnode -> Prop.
Hypothesis Hleaf : forall f, Q (PLeaf f).
Hypothesis Habs : forall f, Q (PAbsent f).
Hypothesis Hder : forall ri bs f partial prems, Forall Q prems -> Q (PDerived ri bs f partial prems).
Hypothesis Hlet : forall ri f partial prems, Forall Q prems -> Q (PLet ri f partial prems).
Hypothesis Hoth : forall f prems, Forall Q prems -> Q (POther f prems).

Fixpoint pnode_ind2 (n : pnode) : Q n :=
  let go := fix go (l : list pnode) : Forall Q l :=
              match l with
              | [] => Forall_nil Q
              | x :: r => Forall_cons x (pnode_ind2 x) (go r)
              end in
  match n with
  | PLeaf f => Hleaf f
  | PAbsent f => Habs f
  | PDerived ri bs f partial prems => Hder ri bs f partial prems (go prems)
  | PLet ri f partial prems => Hlet ri f partial prems (go prems)
  | POther f prems => Hoth f prems (go prems)
  end.
End pnode_ind2.

(* ---- one rule application, declaratively *)
Inductive body_ok (St : list fact) (negleaf : bool)
  : list premise -> subst -> list (pkind * fact) -> subst -> Prop :=
| bo_nil s : body_ok St negleaf [] s [] s
| bo_atom a b s k g hs pvs u t :
    is_pos k = true ->
    eval_args s (aargs a) = Some pvs -> match_fact (apred a) pvs s g = Some u ->
    body_ok St negleaf b u hs t ->
    body_ok St negleaf (PAtom a :: b) s ((k, g) :: hs) t
| bo_neg_leaf a b s pvs cs hs t :
    negleaf = true ->
    eval_args s (aargs a) = Some pvs -> map_opt (ground_value s) pvs = Some cs ->
    ~ In (apred a, cs) St ->
    body_ok St negleaf b s hs t ->
    body_ok St negleaf (PNeg a :: b) s ((KAbsent, (apred a, cs)) :: hs) t
| bo_neg_noleaf a b s pvs cs hs t :
    negleaf = false ->
    eval_args s (aargs a) = Some pvs -> map_opt (ground_value s) pvs = Some cs ->
    ~ In (apred a, cs) St ->
    body_ok St negleaf b s hs t ->
    body_ok St negleaf (PNeg a :: b) s hs t
| bo_eq l r b s u hs t :
    step_pure (PEq l r) s = Some [u] -> body_ok St negleaf b u hs t ->
    body_ok St negleaf (PEq l r :: b) s hs t
| bo_ineq l r b s u hs t :
    step_pure (PIneq l r) s = Some [u] -> body_ok St negleaf b u hs t ->
    body_ok St negleaf (PIneq l r :: b) s hs t.

Lemma check_body_sound St nl body : forall s hs t,
  check_body St nl body s hs = Some t -> body_ok St nl body s hs t.
Proof.
  induction body as [|p b IH]; intros s hs t H; simpl in H.
  - destruct hs; [injection H as <-; constructor | discriminate].
  - destruct p as [a|a|l r|l r|op l r].
    + destruct hs as [|[k g] hs']; [discriminate|].
      destruct (is_pos k) eqn:Hk; [|discriminate].
      destruct (eval_args s (aargs a)) as [pvs|] eqn:He; [|discriminate].
      destruct (match_fact (apred a) pvs s g) as [u|] eqn:Hm; [|discriminate].
      eapply bo_atom; eauto.
    + destruct (eval_args s (aargs a)) as [pvs|] eqn:He; [|discriminate].
      destruct (map_opt (ground_value s) pvs) as [cs|] eqn:Hg; [|discriminate].
      destruct (mem (apred a, cs) St) eqn:Hmem; [discriminate|].
      apply mem_false in Hmem.
      destruct nl eqn:Hnl.
      * destruct hs as [|[k g'] hs']; [discriminate|].
        destruct k; try discriminate.
        destruct (fact_eqb (apred a, cs) g') eqn:Hf; [|discriminate].
        apply fact_eqb_spec in Hf. subst g'.
        eapply bo_neg_leaf; eauto.
      * eapply bo_neg_noleaf; eauto.
    + destruct (step_pure (PEq l r) s) as [[|u [|]]|] eqn:Hs; try discriminate.
      eapply bo_eq; eauto.
    + destruct (step_pure (PIneq l r) s) as [[|u [|]]|] eqn:Hs; try discriminate.
      eapply bo_ineq; eauto.
    + discriminate.
Qed.

Lemma check_body_complete St nl body s hs t :
  body_ok St nl body s hs t -> check_body St nl body s hs = Some t.
Proof.
  induction 1 as [s | a b s k g hs pvs u t Hk He Hm _ IH | a b s pvs cs hs t Hnl He Hg Hn _ IH
                  | a b s pvs cs hs t Hnl He Hg Hn _ IH | l r b s u hs t Hs _ IH | l r b s u hs t Hs _ IH]; simpl.
  - reflexivity.
  - rewrite Hk, He, Hm. exact IH.
  - rewrite He, Hg. apply mem_false in Hn. rewrite Hn. subst nl.
    assert (Hf : fact_eqb (apred a, cs) (apred a, cs) = true) by (apply fact_eqb_spec; reflexivity).
    rewrite Hf. exact IH.
  - rewrite He, Hg. apply mem_false in Hn. rewrite Hn. subst nl. exact IH.
  - simpl in Hs. rewrite Hs. exact IH.
  - simpl in Hs. rewrite Hs. exact IH.
Qed.

Lemma check_body_spec St nl body s hs t :
  check_body St nl body s hs = Some t <-> body_ok St nl body s hs t.
Proof. split; [apply check_body_sound | apply check_body_complete]. Qed.

Lemma check_rule_spec St nl c s hs f :
  check_rule St nl c s hs f = true <->
  exists t, body_ok St nl (cbody c) s hs t /\ emit_head c t = Some f.
Proof.
  unfold check_rule. split.
  - destruct (check_body St nl (cbody c) s hs) as [t|] eqn:Hb; [|discriminate].
    destruct (emit_head c t) as [g|] eqn:He; [|discriminate].
    intros Hf. apply fact_eqb_spec in Hf. subst g. exists t. split; auto. apply check_body_spec; auto.
  - intros (t & Hb & He). apply check_body_spec in Hb. rewrite Hb, He. apply fact_eqb_spec. reflexivity.
Qed.

(* ---- the whole tree, declaratively *)
Inductive valid (P : list clause) (base St : list fact) : list fact -> pnode -> Prop :=
| v_leaf anc f : In f base -> In f St -> ~ In f anc -> valid P base St anc (PLeaf f)
| v_absent anc f : ~ In f St -> valid P base St anc (PAbsent f)
| v_derived anc ri bs f prems c t :
    nth_error P ri = Some c -> clet c = [] -> ~ In f anc ->
    body_ok St true (cbody c) bs (map head_of prems) t -> emit_head c t = Some f ->
    Forall (valid P base St (f :: anc)) prems ->
    valid P base St anc (PDerived ri bs f false prems)
| v_let anc ri f prems c t :
    nth_error P ri = Some c -> clet c <> [] -> ~ In f anc ->
    body_ok St false (cbody c) [] (map head_of prems) t -> emit_head c t = Some f ->
    Forall (valid P base St (f :: anc)) prems ->
    valid P base St anc (PLet ri f false prems).

Lemma is_nil_spec {A} (l : list A) : is_nil l = true <-> l = [].
Proof. destruct l; simpl; split; intros H; auto; discriminate. Qed.

Lemma negb_mem f l : negb (mem f l) = true <-> ~ In f l.
Proof. rewrite negb_true_iff. apply mem_false. Qed.

Lemma check_node_spec P base St n : forall anc,
  check_node P base St anc n = true <-> valid P base St anc n.
Proof.
  induction n as [f | f | ri bs f partial prems IH | ri f partial prems IH | f prems IH] using pnode_ind2; intros anc; simpl.
  - rewrite !andb_true_iff, !mem_spec, negb_mem. split.
    + intros [[H1 H2] H3]. constructor; auto.
    + intros H. inversion H; subst. auto.
  - rewrite negb_mem. split.
    + intros H. constructor; auto.
    + intros H. inversion H; subst. auto.
  - rewrite !andb_true_iff, negb_mem. split.
    + intros [[[Hp Ha] Hr] Hf]. destruct partial; [discriminate|].
      destruct (nth_error P ri) as [c|] eqn:Hn; [|discriminate].
      apply andb_true_iff in Hr as [Hl Hr]. apply is_nil_spec in Hl.
      apply check_rule_spec in Hr as (t & Hb & He).
      eapply v_derived; eauto.
      rewrite forallb_forall in Hf. rewrite Forall_forall in *. intros x Hx. apply IH; auto.
    + intros H. inversion H as [| |anc' ri' bs' f' prems' c t Hn Hl Ha Hb He Hf|]; subst.
      rewrite Hn. repeat split; auto.
      * apply andb_true_iff. split; [apply is_nil_spec; auto | apply check_rule_spec; eauto].
      * rewrite forallb_forall. rewrite Forall_forall in *. intros x Hx. apply IH; auto.
  - rewrite !andb_true_iff, negb_mem. split.
    + intros [[[Hp Ha] Hr] Hf]. destruct partial; [discriminate|].
      destruct (nth_error P ri) as [c|] eqn:Hn; [|discriminate].
      apply andb_true_iff in Hr as [Hl Hr]. apply negb_true_iff in Hl.
      apply check_rule_spec in Hr as (t & Hb & He).
      eapply v_let; eauto.
      * intros E. apply is_nil_spec in E. congruence.
      * rewrite forallb_forall in Hf. rewrite Forall_forall in *. intros x Hx. apply IH; auto.
    + intros H. inversion H as [| | |anc' ri' f' prems' c t Hn Hl Ha Hb He Hf]; subst.
      rewrite Hn. repeat split; auto.
      * apply andb_true_iff. split; [|apply check_rule_spec; eauto].
        apply negb_true_iff. destruct (is_nil (clet c)) eqn:E; auto. apply is_nil_spec in E. contradiction.
      * rewrite forallb_forall. rewrite Forall_forall in *. intros x Hx. apply IH; auto.
  - split; [discriminate | intros H; inversion H].
Qed.

Theorem check_proof_exact_lemma P base St goal n :
  check_proof P base St goal n = true <->
  (is_pos (node_kind n) = true /\ node_fact n = goal /\ valid P base St [] n).
Proof.
  unfold check_proof. rewrite !andb_true_iff, fact_eqb_spec, check_node_spec. tauto.
Qed.

(* ---- ancestors: a tree checked against one ancestor list passes against any other
   list whose members are old ancestors or do not occur in the tree *)
Lemma pos_facts_head n : is_pos (node_kind n) = true -> In (node_fact n) (pos_facts n).
Proof. destruct n; simpl; intros H; auto; discriminate. Qed.

Lemma check_node_anc P base St n : forall a1 a2,
  check_node P base St a1 n = true ->
  (forall g, In g a2 -> In g a1 \/ ~ In g (pos_facts n)) ->
  check_node P base St a2 n = true.
Proof.
  induction n as [f | f | ri bs f partial prems IH | ri f partial prems IH | f prems IH] using pnode_ind2;
    intros a1 a2 H Ha; simpl in *; auto.
  - rewrite !andb_true_iff in *. destruct H as [[H1 H2] H3]. repeat split; auto.
    apply negb_mem. apply negb_mem in H3. intros Hin. destruct (Ha f Hin) as [|Hn]; auto.
  - rewrite !andb_true_iff in *. destruct H as [[[Hp Hm] Hr] Hf]. repeat split; auto.
    + apply negb_mem. apply negb_mem in Hm. intros Hin. destruct (Ha f Hin) as [|Hn]; auto.
    + rewrite forallb_forall in *. rewrite Forall_forall in IH. intros x Hx.
      apply (IH x Hx (f :: a1) (f :: a2) (Hf x Hx)).
      intros g [->|Hg]; [left; left; reflexivity|].
      destruct (Ha g Hg) as [|Hn]; [left; right; auto|].
      right. intros Hin. apply Hn. right. apply in_flat_map. exists x. auto.
  - rewrite !andb_true_iff in *. destruct H as [[[Hp Hm] Hr] Hf]. repeat split; auto.
    + apply negb_mem. apply negb_mem in Hm. intros Hin. destruct (Ha f Hin) as [|Hn]; auto.
    + rewrite forallb_forall in *. rewrite Forall_forall in IH. intros x Hx.
      apply (IH x Hx (f :: a1) (f :: a2) (Hf x Hx)).
      intros g [->|Hg]; [left; left; reflexivity|].
      destruct (Ha g Hg) as [|Hn]; [left; right; auto|].
      right. intros Hin. apply Hn. right. apply in_flat_map. exists x. auto.
Qed.
