(* Prov/ExistsProofs.v - the two steps that ExplainProofs.v left as hypotheses of the
   completeness statement:
   (1) strat_ok follows from a valid stratification when the store holds exactly the
       stratified least model (a negated predicate lies strictly below the layer of the
       rule, so the layers from the rule's own upward never add a fact of it);
   (2) length St + 1 rounds are enough for the reference explainer when the store is
       closed under the rules (negation judged against the store itself): the table never
       holds a fact outside St, never holds a fact twice, and every round that does not
       stop lengthens it.
   Together: every fact of the evaluated store of a transform-free stratified program has
   a proof that check_proof accepts, and explain_ref returns one. *)
From Coq Require Import List ZArith Bool Lia.
From MV Require Import Datalog.Syntax Datalog.SyntaxProofs Datalog.Interp Datalog.Solve Datalog.SolveProofs
  Datalog.SemiNaive Datalog.SemiNaiveProofs Datalog.Lfp Datalog.Strata Datalog.StrataProofs
  Datalog.InvarianceProofs Prov.ProofTree Prov.ProofTreeProofs Prov.Explain Prov.ExplainProofs.
Import ListNotations.
Open Scope Z_scope.

Local Arguments step_pure : simpl never.

(* the program class of proof_exists: no let-transform, no built-in comparison atom
   (positive atoms, negated atoms, = and != are covered), negated atoms ground when the
   left-to-right join reaches them *)
Definition prog_fine (P : list clause) : Prop :=
  forall c, In c P -> clet c = [] /\ no_cmp (cbody c) /\ neg_ground_from (cbody c) [].

(* ================================================================ (1) strat_ok *)

Lemma strat_ok_of_valid P St (B : factset) : forall post pre,
  prog_fine P -> valid_stratification P (pre ++ post) ->
  (forall f, In f St <-> slfp P (pre ++ post) B f) ->
  strat_ok P St (slfp P pre B) post.
Proof.
  induction post as [|ps rest IH]; intros pre Hfine Hv Hst; simpl; [exact I|].
  split.
  - intros c Hc. apply in_layer_rules in Hc as (HcP & Hps).
    destruct (Hfine c HcP) as (Hl & Hnc & Hng).
    split; [exact Hl|]. split; [exact Hnc|]. split; [exact Hng|].
    destruct (valid_split P pre ps rest c Hv HcP Hps) as (_ & Hneg).
    intros a f Ha Hf. split.
    + intros Hin. apply Hst in Hin. rewrite slfp_app in Hin.
      eapply slfp_keep; [exact Hin|].
      apply Hneg. apply in_neg_preds. exists a. split; [exact Ha | symmetry; exact Hf].
    + intros HB. apply Hst. rewrite slfp_app. apply slfp_mono. exact HB.
  - assert (E : (pre ++ [ps]) ++ rest = pre ++ ps :: rest) by (rewrite <- app_assoc; reflexivity).
    assert (H := IH (pre ++ [ps]) Hfine).
    rewrite E in H. specialize (H Hv Hst).
    rewrite slfp_app in H. exact H.
Qed.

Lemma strat_ok_valid P layers base St :
  prog_fine P -> valid_stratification P layers ->
  (forall f, In f St <-> slfp P layers (fun g => In g base) f) ->
  strat_ok P St (fun g => In g base) layers.
Proof. intros Hfine Hv Hst. apply (strat_ok_of_valid P St (fun g => In g base) layers [] Hfine Hv Hst). Qed.

(* ================================================================ (2) fuel *)

(* the store is closed under every rule instance over facts it holds, negated atoms
   judged against the store itself *)
Definition store_closed (P : list clause) (St : list fact) : Prop :=
  forall I c f, incl I St -> In c P -> derives (fun g => In g St) I c f -> In f St.

Lemma store_closed_of_slfp P layers (B : factset) St :
  valid_stratification P layers -> (forall f, In f St <-> slfp P layers B f) -> store_closed P St.
Proof.
  intros Hv Hst I c f HI Hc (t & Hs & He). apply Hst.
  apply (slfp_closed P layers B Hv I c f); [intros g Hg; apply Hst, HI, Hg | exact Hc |].
  exists t. split; [|exact He].
  eapply sat_mono; [intros j _; apply incl_refl | | exact Hs].
  intros a g _ _. apply Hst.
Qed.

(* ---- a ground pattern only matches its own fact *)
Lemma unify_args_ground s : forall pvs cs cs' u,
  map_opt (ground_value s) pvs = Some cs -> unify_args s pvs cs' = Some u -> cs' = cs.
Proof.
  induction pvs as [|pv pvs IH]; intros cs cs' u Hg Hu; simpl in Hg.
  - injection Hg as <-. destruct cs'; [reflexivity | discriminate].
  - destruct (ground_value s pv) as [d|] eqn:Hd; [|discriminate].
    destruct (map_opt (ground_value s) pvs) as [r|] eqn:Hr; [|discriminate].
    injection Hg as <-. destruct cs' as [|c cs']; [discriminate|].
    assert (H1 : unify1 s pv c = if const_eqb d c then Some s else None).
    { destruct pv as [d'|v]; simpl in Hd; unfold unify1.
      - injection Hd as ->. reflexivity.
      - rewrite Hd. reflexivity. }
    cbn [unify_args] in Hu. rewrite H1 in Hu.
    destruct (const_eqb d c) eqn:E; [|discriminate]. apply const_eqb_spec in E. subst c.
    f_equal. eapply IH; eauto.
Qed.

Lemma match_fact_ground p pvs s cs f u :
  map_opt (ground_value s) pvs = Some cs -> match_fact p pvs s f = Some u -> f = (p, cs).
Proof.
  intros Hg Hm. pose proof (match_fact_pred _ _ _ _ _ Hm) as Hp.
  unfold match_fact in Hm. destruct (fst f =? p); [|discriminate].
  destruct f as [q args]. simpl in *. subst q. f_equal. eapply unify_args_ground; eauto.
Qed.

(* ---- the join with proofs only finds solutions of the body over the table's facts *)
Lemma solve_pf_sat St tbl body : forall k s t prems,
  In (t, prems) (solve_pf St tbl body s) ->
  sat (fun g => In g St) (fun _ => keys tbl) k body s t.
Proof.
  induction body as [|p b IH]; intros k s t prems H; simpl in H.
  - destruct H as [H|[]]. injection H as <- _. constructor.
  - destruct p as [a|a|l r|l r|op l r].
    + destruct (eval_args s (aargs a)) as [pvs|] eqn:He; [|destruct H].
      apply in_flat_map in H as ([g n] & Hin & H). simpl in H.
      destruct (match_fact (apred a) pvs s g) as [u|] eqn:Hm; [|destruct H].
      apply in_map_iff in H as ([t' ps'] & E & H). simpl in E. injection E as <- _.
      econstructor; [|eapply IH; exact H].
      eapply holds_atom; [exact He | eapply in_keys; exact Hin | exact Hm].
    + destruct (eval_args s (aargs a)) as [pvs|] eqn:He; [|destruct H].
      destruct (map_opt (ground_value s) pvs) as [cs|] eqn:Hg; [|destruct H].
      destruct (mem (apred a, cs) St) eqn:Hmem; [destruct H|].
      apply in_map_iff in H as ([t' ps'] & E & H). simpl in E. injection E as <- _.
      econstructor; [|eapply IH; exact H].
      eapply holds_neg; [exact He|]. intros f Hf.
      destruct (match_fact (apred a) pvs s f) as [u|] eqn:Hm; [|reflexivity].
      exfalso. apply mem_false in Hmem. apply Hmem.
      rewrite <- (match_fact_ground _ _ _ _ _ _ Hg Hm). exact Hf.
    + destruct (step_pure (PEq l r) s) as [[|u [|]]|] eqn:Hs; try (destruct H; fail).
      econstructor; [|eapply IH; exact H].
      eapply holds_pure; [exact Hs | left; reflexivity].
    + destruct (step_pure (PIneq l r) s) as [[|u [|]]|] eqn:Hs; try (destruct H; fail).
      econstructor; [|eapply IH; exact H].
      eapply holds_pure; [exact Hs | left; reflexivity].
    + destruct H.
Qed.

Lemma clause_candidates_derive St tbl ri c e :
  In e (clause_candidates St tbl ri c) -> derives (fun g => In g St) (keys tbl) c (fst e).
Proof.
  unfold clause_candidates. destruct (is_nil (clet c)); [|intros []].
  intros He. apply in_fmap in He as ([t prems] & Hin & He). simpl in He.
  destruct (emit_head c t) as [f|] eqn:Hh; [|discriminate]. injection He as <-. simpl.
  exists t. split; [|exact Hh]. eapply solve_pf_sat. exact Hin.
Qed.

Lemma candidates_derive St tbl e : forall Q k,
  In e (candidates St tbl k Q) -> exists c, In c Q /\ derives (fun g => In g St) (keys tbl) c (fst e).
Proof.
  induction Q as [|c Q IH]; intros k He; simpl in He; [destruct He|].
  apply in_app_or in He as [He|He].
  - exists c. split; [left; reflexivity | eapply clause_candidates_derive; exact He].
  - destruct (IH (S k) He) as (c' & Hc' & Hd). exists c'. split; [right; exact Hc' | exact Hd].
Qed.

(* ---- the table: no fact twice, no fact outside the store *)
Definition tbl_ok (St : list fact) (tbl : table) : Prop := NoDup (keys tbl) /\ incl (keys tbl) St.

Lemma nodup_snoc {A} (l : list A) x : NoDup l -> ~ In x l -> NoDup (l ++ [x]).
Proof.
  induction l as [|y l IH]; intros Hn Hx; simpl.
  - constructor; [intros [] | constructor].
  - inversion Hn as [|y' l' Hy Hn']; subst. constructor.
    + intros Hin. apply in_app_or in Hin as [Hin|[<-|[]]]; [exact (Hy Hin)|]. apply Hx. left. reflexivity.
    + apply IH; [exact Hn'|]. intros Hin. apply Hx. right. exact Hin.
Qed.

Lemma add_entry_ok St tbl e : tbl_ok St tbl -> In (fst e) St -> tbl_ok St (add_entry tbl e).
Proof.
  intros [Hn Hi] He. unfold add_entry. destruct (mem (fst e) (keys tbl)) eqn:Hm; [split; assumption|].
  apply mem_false in Hm. unfold tbl_ok. rewrite keys_app. split.
  - apply nodup_snoc; assumption.
  - intros g Hg. apply in_app_or in Hg as [Hg|[<-|[]]]; [apply Hi, Hg | exact He].
Qed.

Lemma fold_add_ok St l : forall tbl,
  tbl_ok St tbl -> (forall e, In e l -> In (fst e) St) -> tbl_ok St (fold_left add_entry l tbl).
Proof.
  induction l as [|e l IH]; intros tbl Hok Hl; simpl; [exact Hok|].
  apply IH.
  - apply add_entry_ok; [exact Hok | apply Hl; left; reflexivity].
  - intros x Hx. apply Hl. right. exact Hx.
Qed.

Lemma step_tbl_ok P St tbl : store_closed P St -> tbl_ok St tbl -> tbl_ok St (step_tbl P St tbl).
Proof.
  intros Hcl Hok. unfold step_tbl. apply fold_add_ok; [exact Hok|].
  intros e He. destruct (candidates_derive St tbl e P O He) as (c & Hc & Hd).
  apply (Hcl (keys tbl) c (fst e)); [exact (proj2 Hok) | exact Hc | exact Hd].
Qed.

Lemma init_tbl_ok base St : tbl_ok St (init_tbl base St).
Proof.
  unfold init_tbl. apply fold_add_ok.
  - split; [constructor | intros g []].
  - intros e He. apply in_map_iff in He as (f & <- & Hf). apply filter_In in Hf as [_ Hs].
    simpl. apply mem_spec. exact Hs.
Qed.

Lemma tbl_ok_length St tbl : tbl_ok St tbl -> (length tbl <= length St)%nat.
Proof.
  intros [Hn Hi]. replace (length tbl) with (length (keys tbl)) by (unfold keys; apply map_length).
  apply NoDup_incl_length; assumption.
Qed.

(* every round that does not stop lengthens the table, the table is never longer than
   the store: the iteration stops within (length St - length tbl) + 1 rounds *)
Lemma iterate_total P St : store_closed P St -> forall fuel tbl,
  tbl_ok St tbl -> (length St < fuel + length tbl)%nat -> exists res, iterate fuel P St tbl = Some res.
Proof.
  intros Hcl. induction fuel as [|k IH]; intros tbl Hok Hlen.
  - pose proof (tbl_ok_length St tbl Hok). lia.
  - simpl. destruct (Nat.eqb (length (step_tbl P St tbl)) (length tbl)) eqn:E; [eauto|].
    apply Nat.eqb_neq in E. apply IH; [apply step_tbl_ok; assumption|].
    pose proof (fold_add_len (candidates St tbl 0 P) tbl) as Hge. fold (step_tbl P St tbl) in Hge. lia.
Qed.

Lemma explain_ref_fuel_total P base St :
  store_closed P St -> exists tbl, explain_ref_fuel (S (length St)) P base St = Some tbl.
Proof.
  intros Hcl. unfold explain_ref_fuel. apply (iterate_total P St Hcl); [apply init_tbl_ok | lia].
Qed.

(* ================================================================ proof_exists *)

Lemma proof_exists_lemma P layers base St :
  prog_fine P -> valid_stratification P layers ->
  (forall f, In f St <-> slfp P layers (fun g => In g base) f) ->
  forall f, In f St ->
  exists n, find_proof (explain_ref P base St) f = Some n /\
            check_proof P base St f n = true /\ node_fact n = f.
Proof.
  intros Hfine Hv Hst f Hf.
  destruct (explain_ref_fuel_total P base St (store_closed_of_slfp P layers _ St Hv Hst)) as (tbl & Ht).
  assert (Hbs : forall g, In g base -> In g St) by (intros g Hg; apply Hst, slfp_mono; exact Hg).
  destruct (explain_ref_fuel_complete P base St _ layers tbl Ht Hbs
              (strat_ok_valid P layers base St Hfine Hv Hst) f (proj1 (Hst f) Hf)) as (n & Hn & Hc).
  exists n. unfold explain_ref. rewrite Ht. split; [exact Hn|]. split; [exact Hc|].
  apply check_proof_exact_lemma in Hc. tauto.
Qed.

(* the store the engine model computes *)
Lemma proof_exists_eval_lemma fuel P layers store init St :
  prog_fine P -> valid_stratification P layers ->
  eval_program fuel P layers store init = Ok St ->
  forall f, In f St ->
  exists n, find_proof (explain_ref P (add_all store init) St) f = Some n /\
            check_proof P (add_all store init) St f n = true /\ node_fact n = f.
Proof.
  intros Hfine Hv He. apply (proof_exists_lemma P layers (add_all store init) St Hfine Hv).
  apply (eval_program_exact fuel P layers store init St Hv He).
Qed.
