(* Prov/SeededProofs.v - added after seeding (seeded/C15-1, seeded/C15-2). Statements that
   back the two observables the strengthened correspondence relies on:

   1. recorded-mode (and post-hoc) trees are judged against the rules of the PROGRAM: the
      harness turns a node's rule into the index of the identical rule of
      ProgramInfo.Rules; a rule that is not one of them (e.g. the engine-internal delta
      rule `reach(Y) :- edge(X,Y), X != Y, Δreach(X).` of seeded C15-2) gets an index
      outside the program, and such a node is never part of an accepted proof - whatever
      its bindings, premises and fact are (foreign_rule_rejected, foreign_rule_inside_rejected);
   2. the observation of seeded C15-1 (ring a :- b. a :- base. b :- c. c :- a. g :- a, b.,
      Explain(g(1)) = ErrNoProof) gets verdict 53 = goal 5, code 3 from the judge, while
      the reference explainer proves every stored fact of that program
      (ring3_no_proof_refuted, ring3_has_proofs). *)
From Coq Require Import List ZArith Bool.
From MV Require Import Datalog.Syntax Datalog.Interp Datalog.Solve Datalog.SemiNaive Prov.ProofTree Prov.Explain.
From MV Require Run.C15.
Import ListNotations.
Open Scope Z_scope.

Lemma foreign_rule_node_rejected : forall P base St anc ri bs f partial prems,
  nth_error P ri = None ->
  check_node P base St anc (PDerived ri bs f partial prems) = false.
Proof.
  intros P base St anc ri bs f partial prems H.
  cbn [check_node]. rewrite H.
  rewrite andb_false_r. reflexivity.
Qed.

Lemma foreign_rule_let_rejected : forall P base St anc ri f partial prems,
  nth_error P ri = None ->
  check_node P base St anc (PLet ri f partial prems) = false.
Proof.
  intros P base St anc ri f partial prems H.
  cbn [check_node]. rewrite H.
  rewrite andb_false_r. reflexivity.
Qed.

(* a node whose rule is not a rule of the program is not an accepted proof of any goal *)
Theorem foreign_rule_rejected : forall P base St goal ri bs f partial prems,
  nth_error P ri = None ->
  check_proof P base St goal (PDerived ri bs f partial prems) = false.
Proof.
  intros. unfold check_proof. rewrite foreign_rule_node_rejected by assumption.
  apply andb_false_r.
Qed.
Print Assumptions foreign_rule_rejected.

(* ... nor can it occur as a direct premise of an accepted node *)
Theorem foreign_rule_inside_rejected : forall P base St anc ri bs f partial pre post ri' bs' f' partial' prems',
  nth_error P ri' = None ->
  check_node P base St anc
    (PDerived ri bs f partial (pre ++ PDerived ri' bs' f' partial' prems' :: post)) = false.
Proof.
  intros P base St anc ri bs f partial pre post ri' bs' f' partial' prems' H.
  cbn [check_node]. rewrite forallb_app. cbn [forallb].
  rewrite foreign_rule_node_rejected by assumption.
  rewrite andb_false_l, andb_false_r, andb_false_r. reflexivity.
Qed.
Print Assumptions foreign_rule_inside_rejected.

(* seeded C15-1: p0 = base, p1 = a, p2 = b, p3 = c, p4 = g *)
Definition ring3_prog : list clause :=
  [mkClause (mkAtom 1 [TVar 1]) [PAtom (mkAtom 2 [TVar 1])] [];
   mkClause (mkAtom 1 [TVar 1]) [PAtom (mkAtom 0 [TVar 1])] [];
   mkClause (mkAtom 2 [TVar 1]) [PAtom (mkAtom 3 [TVar 1])] [];
   mkClause (mkAtom 3 [TVar 1]) [PAtom (mkAtom 1 [TVar 1])] [];
   mkClause (mkAtom 4 [TVar 1]) [PAtom (mkAtom 1 [TVar 1]); PAtom (mkAtom 2 [TVar 1])] []].
Definition ring3_base : list fact := [(0, [CNum 1])].
Definition ring3_store : list fact :=
  [(0, [CNum 1]); (1, [CNum 1]); (2, [CNum 1]); (3, [CNum 1]); (4, [CNum 1])].

Definition leaf0 := PLeaf (0, [CNum 1]).
Definition pa := PDerived 1%nat [(1, CNum 1)] (1, [CNum 1]) false [leaf0].
Definition pc := PDerived 3%nat [(1, CNum 1)] (3, [CNum 1]) false [pa].
Definition pb := PDerived 2%nat [(1, CNum 1)] (2, [CNum 1]) false [pc].

(* what the seeded tree returned: proofs for base, a, b, c - none for the stored fact g(1) *)
Theorem ring3_no_proof_refuted :
  Run.C15.judge (Run.C15.mkCase ring3_prog ring3_base ring3_store true
                   [Run.C15.mkGoal (0, [CNum 1]) true [leaf0];
                    Run.C15.mkGoal (1, [CNum 1]) true [pa];
                    Run.C15.mkGoal (2, [CNum 1]) true [pb];
                    Run.C15.mkGoal (3, [CNum 1]) true [pc];
                    Run.C15.mkGoal (4, [CNum 1]) true []]) = 53.
Proof. vm_compute. reflexivity. Qed.
Print Assumptions ring3_no_proof_refuted.

(* the specification side proves every stored fact of that program *)
Theorem ring3_has_proofs :
  forallb (fun f => match find_proof (explain_ref ring3_prog ring3_base ring3_store) f with
                    | Some n => check_proof ring3_prog ring3_base ring3_store f n
                    | None => false
                    end) ring3_store = true.
Proof. vm_compute. reflexivity. Qed.
Print Assumptions ring3_has_proofs.

(* seeded C15-2: reach(Y) :- edge(X,Y), X != Y, reach(X). - the recorded node of reach(2)
   carries the delta rule (index outside the program, 4000 in checks/c15.py): verdict 2 *)
Definition reach_prog : list clause :=
  [mkClause (mkAtom 2 [TVar 1]) [PAtom (mkAtom 1 [TVar 1])] [];
   mkClause (mkAtom 2 [TVar 2]) [PAtom (mkAtom 0 [TVar 1; TVar 2]); PIneq (TVar 1) (TVar 2); PAtom (mkAtom 2 [TVar 1])] []].
Definition reach_base : list fact := [(0, [CNum 1; CNum 2]); (1, [CNum 1])].
Definition reach_store : list fact := [(0, [CNum 1; CNum 2]); (1, [CNum 1]); (2, [CNum 1]); (2, [CNum 2])].
Definition reach1 := PDerived 0%nat [(1, CNum 1)] (2, [CNum 1]) false [PLeaf (1, [CNum 1])].
Definition reach2 (ri : nat) :=
  PDerived ri [(1, CNum 1); (2, CNum 2)] (2, [CNum 2]) false [PLeaf (0, [CNum 1; CNum 2]); reach1].

Theorem delta_rule_node_refuted :
  Run.C15.judge (Run.C15.mkCase reach_prog reach_base reach_store false
                   [Run.C15.mkGoal (2, [CNum 2]) true [reach2 4000%nat]]) = 12.
Proof. vm_compute. reflexivity. Qed.
Print Assumptions delta_rule_node_refuted.

(* the same tree with the program's rule is accepted *)
Example program_rule_node_accepted :
  Run.C15.judge (Run.C15.mkCase reach_prog reach_base reach_store false
                   [Run.C15.mkGoal (2, [CNum 2]) true [reach2 1%nat]]) = 0.
Proof. vm_compute. reflexivity. Qed.

(* ==================================================================================
   Round 2 (seeded/C15-4: the premise accumulators of alternative body solutions share one
   backing array - alternatives of one goal report different bindings but carry the same
   premises). Statements:
   3. alternatives_bindings_agree - for ALL programs, stores, ancestors: two accepted nodes of
      one rule with the same premise kinds / facts report the same value for every variable
      that is an argument of a positive body atom. So the oracle of checks/c15.py
      (alt_findings: alternatives of one rule that differ in such a binding but have equal
      premises) can never fire on two valid derivations, and whenever it fires check_proof
      rejects at least one of the two;
   4. aliased_alternatives_refuted / aliased_second_alternative_refuted - the seeded observation
      gets verdict 12 from Run.C15.judge (every alternative is judged, not only the first);
      own_premises_accepted - the unchanged tree's answer gets 0.
   ================================================================================== *)
From MV Require Import Datalog.SyntaxProofs.

(* ==== round 2 (seeded/C15-4): alternatives of one goal ==== *)

(* the constant a fact carries at the first argument position at which the atom has the variable v *)
Fixpoint arg_at (ts : list term) (v : Z) (cs : list const) : option const :=
  match ts, cs with
  | t :: ts', c :: cs' =>
      match t with
      | TVar w => if Z.eqb w v then Some c else arg_at ts' v cs'
      | _ => arg_at ts' v cs'
      end
  | _, _ => None
  end.

Lemma unify1_keeps s pv c u v d :
  unify1 s pv c = Some u -> lookup v s = Some d -> lookup v u = Some d.
Proof.
  intros Hu Hl. destruct pv as [e|w]; cbn [unify1] in Hu.
  - destruct (const_eqb e c); [|discriminate]. injection Hu as <-. exact Hl.
  - destruct (lookup w s) as [e|] eqn:E.
    + destruct (const_eqb e c); [|discriminate]. injection Hu as <-. exact Hl.
    + injection Hu as <-. cbn [lookup]. destruct (Z.eqb_spec v w) as [->|_]; [congruence|exact Hl].
Qed.

Lemma unify_args_keeps : forall pvs s cs u v d,
  unify_args s pvs cs = Some u -> lookup v s = Some d -> lookup v u = Some d.
Proof.
  induction pvs as [|pv pvs IH]; intros s cs u v d Hu Hl; destruct cs as [|c cs]; cbn [unify_args] in Hu; try discriminate.
  - injection Hu as <-. exact Hl.
  - destruct (unify1 s pv c) as [s'|] eqn:E; [|discriminate].
    eapply IH; [exact Hu|]. eapply unify1_keeps; eauto.
Qed.

Lemma unify_args_at s0 : forall ts s pvs cs u v c,
  map_opt (eval_term s0) ts = Some pvs -> unify_args s pvs cs = Some u ->
  In (TVar v) ts -> lookup v s0 = Some c -> arg_at ts v cs = Some c.
Proof.
  induction ts as [|t ts IH]; intros s pvs cs u v c He Hu Hin Hl; [destruct Hin|].
  cbn [map_opt] in He.
  destruct (eval_term s0 t) as [pv|] eqn:Et; [|discriminate].
  destruct (map_opt (eval_term s0) ts) as [pvs'|] eqn:Em; [|discriminate].
  injection He as <-.
  destruct cs as [|c0 cs]; cbn [unify_args] in Hu; [discriminate|].
  destruct (unify1 s pv c0) as [s'|] eqn:Eu; [|discriminate].
  assert (Hrest : In (TVar v) ts -> arg_at ts v cs = Some c) by (intro Hi; eapply IH; eauto).
  destruct t as [w|k|f args]; cbn [arg_at].
  - destruct (Z.eqb_spec w v) as [->|Hne].
    + cbn [eval_term] in Et. rewrite Hl in Et. injection Et as <-.
      cbn [unify1] in Eu. destruct (const_eqb c c0) eqn:Ec; [|discriminate].
      apply const_eqb_spec in Ec. subst c0. reflexivity.
    + destruct Hin as [Heq|Hi]; [injection Heq as ->; contradiction|auto].
  - destruct Hin as [Heq|Hi]; [discriminate|auto].
  - destruct Hin as [Heq|Hi]; [discriminate|auto].
Qed.

Lemma eval_vvar_unbound s t v : eval_term s t = Some (VVar v) -> lookup v s = None.
Proof.
  destruct t as [w|k|f args]; cbn [eval_term]; intro H.
  - destruct (lookup w s) eqn:E; [discriminate|]. injection H as <-. exact E.
  - discriminate.
  - match type of H with match ?x with _ => _ end = _ => destruct x end; [|discriminate].
    match type of H with match ?x with _ => _ end = _ => destruct x end; discriminate.
Qed.

Lemma lookup_cons_other v w c s d : lookup w s = None -> lookup v s = Some d -> lookup v ((w, c) :: s) = Some d.
Proof.
  intros Hn Hl. cbn [lookup]. destruct (Z.eqb_spec v w) as [->|_]; [congruence|exact Hl].
Qed.

Lemma step_pure_keeps p s u v d :
  step_pure p s = Some [u] -> lookup v s = Some d -> lookup v u = Some d.
Proof.
  intros Hs Hl. destruct p as [a|a|l r|l r|op l r]; cbn [step_pure] in Hs; try discriminate.
  - destruct (eval_term s l) as [[a|x]|] eqn:El; destruct (eval_term s r) as [[b|y]|] eqn:Er; try discriminate.
    + destruct (const_eqb a b); [|discriminate]. injection Hs as <-. exact Hl.
    + injection Hs as <-. apply lookup_cons_other; [eapply eval_vvar_unbound; eauto|exact Hl].
    + injection Hs as <-. apply lookup_cons_other; [eapply eval_vvar_unbound; eauto|exact Hl].
    + destruct (x =? y); [|discriminate]. injection Hs as <-. exact Hl.
  - destruct (eval_term s l) as [[a|x]|] eqn:El; destruct (eval_term s r) as [[b|y]|] eqn:Er; try discriminate.
    destruct (const_eqb a b); [discriminate|]. injection Hs as <-. exact Hl.
  - destruct (eval_term s l) as [[a|x]|] eqn:El; destruct (eval_term s r) as [[b|y]|] eqn:Er; try discriminate.
    destruct (eval_cmp op a b) as [[|]|]; try discriminate. injection Hs as <-. exact Hl.
Qed.

Ltac dmatch H :=
  match type of H with
  | match ?x with _ => _ end = _ => let E := fresh "E" in destruct x eqn:E; try discriminate
  end.

(* Two instances of one rule body that check_body accepts over the SAME premise heads agree on
   every reported variable that is an argument of a positive body atom. *)
Lemma check_body_bindings_agree St nl : forall body s1 s2 hs t1 t2,
  check_body St nl body s1 hs = Some t1 -> check_body St nl body s2 hs = Some t2 ->
  forall a v c1 c2, In (PAtom a) body -> In (TVar v) (aargs a) ->
  lookup v s1 = Some c1 -> lookup v s2 = Some c2 -> c1 = c2.
Proof.
  induction body as [|p b IH]; intros s1 s2 hs t1 t2 H1 H2 a v c1 c2 Hin Hv L1 L2; [destruct Hin|].
  destruct p as [a0|a0|l r|l r|op l r]; cbn [check_body] in H1, H2.
  - destruct hs as [|[k g] hs']; [discriminate|].
    destruct (is_pos k); [|discriminate].
    destruct (eval_args s1 (aargs a0)) as [pvs1|] eqn:E1; [|discriminate].
    destruct (match_fact (apred a0) pvs1 s1 g) as [u1|] eqn:M1; [|discriminate].
    destruct (eval_args s2 (aargs a0)) as [pvs2|] eqn:E2; [|discriminate].
    destruct (match_fact (apred a0) pvs2 s2 g) as [u2|] eqn:M2; [|discriminate].
    unfold match_fact in M1, M2. destruct (fst g =? apred a0); [|discriminate].
    destruct Hin as [Heq|Hin].
    + injection Heq as ->.
      pose proof (unify_args_at s1 _ _ _ _ _ _ _ E1 M1 Hv L1) as A1.
      pose proof (unify_args_at s2 _ _ _ _ _ _ _ E2 M2 Hv L2) as A2.
      congruence.
    + eapply (IH u1 u2 hs' t1 t2 H1 H2 a v c1 c2 Hin Hv); eapply unify_args_keeps; eauto.
  - destruct Hin as [Heq|Hin]; [discriminate|].
    repeat dmatch H1; repeat dmatch H2; subst; try discriminate;
      try (eapply (IH s1 s2 _ t1 t2); eauto; fail).
    all: match goal with
         | Ha : _ = ?x :: ?y, Hb : _ = ?x' :: ?y' |- _ => rewrite Ha in Hb; injection Hb; intros; subst
         end; eapply (IH s1 s2 _ t1 t2); eauto.
  - destruct Hin as [Heq|Hin]; [discriminate|].
    destruct (step_pure (PEq l r) s1) as [[|u1 [|]]|] eqn:S1; try discriminate.
    destruct (step_pure (PEq l r) s2) as [[|u2 [|]]|] eqn:S2; try discriminate.
    eapply (IH u1 u2 hs t1 t2 H1 H2 a v c1 c2 Hin Hv); eapply step_pure_keeps; eauto.
  - destruct Hin as [Heq|Hin]; [discriminate|].
    destruct (step_pure (PIneq l r) s1) as [[|u1 [|]]|] eqn:S1; try discriminate.
    destruct (step_pure (PIneq l r) s2) as [[|u2 [|]]|] eqn:S2; try discriminate.
    eapply (IH u1 u2 hs t1 t2 H1 H2 a v c1 c2 Hin Hv); eapply step_pure_keeps; eauto.
  - discriminate.
Qed.

Lemma check_node_body P base St anc ri bs f partial prems c :
  nth_error P ri = Some c ->
  check_node P base St anc (PDerived ri bs f partial prems) = true ->
  exists t, check_body St true (cbody c) bs (map head_of prems) = Some t.
Proof.
  intros Hn H. cbn [check_node] in H. rewrite Hn in H.
  apply andb_true_iff in H as [H _]. apply andb_true_iff in H as [_ H].
  apply andb_true_iff in H as [_ H]. unfold check_rule in H.
  destruct (check_body St true (cbody c) bs (map head_of prems)) as [t|]; [eauto|discriminate].
Qed.

(* Alternatives: two accepted nodes of the same rule whose premises have the same kinds and
   facts report the same value for every variable that is an argument of a positive body atom.
   Contrapositive = the oracle alt_findings of checks/c15.py: alternatives of one rule that
   differ in such a binding but carry the same premises cannot both be valid derivations (for
   all programs, stores, goals, ancestors). *)
Theorem alternatives_bindings_agree : forall P base St anc1 anc2 ri c bs1 bs2 f1 f2 pt1 pt2 prems1 prems2,
  nth_error P ri = Some c ->
  check_node P base St anc1 (PDerived ri bs1 f1 pt1 prems1) = true ->
  check_node P base St anc2 (PDerived ri bs2 f2 pt2 prems2) = true ->
  map head_of prems1 = map head_of prems2 ->
  forall a v c1 c2, In (PAtom a) (cbody c) -> In (TVar v) (aargs a) ->
  lookup v bs1 = Some c1 -> lookup v bs2 = Some c2 -> c1 = c2.
Proof.
  intros P base St anc1 anc2 ri c bs1 bs2 f1 f2 pt1 pt2 prems1 prems2 Hn H1 H2 Hh a v c1 c2 Ha Hv L1 L2.
  destruct (check_node_body _ _ _ _ _ _ _ _ _ _ Hn H1) as [t1 B1].
  destruct (check_node_body _ _ _ _ _ _ _ _ _ _ Hn H2) as [t2 B2].
  rewrite Hh in B1.
  eapply (check_body_bindings_agree St true (cbody c) bs1 bs2 _ t1 t2 B1 B2 a v c1 c2); eauto.
Qed.
Print Assumptions alternatives_bindings_agree.

(* seeded C15-4: a(1). b(1). c(1). d(1,10). d(1,20). d(1,30). r(X) :- a(X), b(X), c(X), d(X,Y).
   (p0..p3 = a..d, p4 = r), Explain(r(1), MaxProofs 3) *)
Definition wide_prog : list clause :=
  [mkClause (mkAtom 4 [TVar 1])
     [PAtom (mkAtom 0 [TVar 1]); PAtom (mkAtom 1 [TVar 1]); PAtom (mkAtom 2 [TVar 1]); PAtom (mkAtom 3 [TVar 1; TVar 2])] []].
Definition wide_base : list fact :=
  [(0, [CNum 1]); (1, [CNum 1]); (2, [CNum 1]); (3, [CNum 1; CNum 10]); (3, [CNum 1; CNum 20]); (3, [CNum 1; CNum 30])].
Definition wide_store : list fact := wide_base ++ [(4, [CNum 1])].
(* the alternative that reports Y = y and carries the premise d(1, d) *)
Definition wide_alt (y d : Z) : pnode :=
  PDerived 0%nat [(1, CNum 1); (2, CNum y)] (4, [CNum 1]) false
    [PLeaf (0, [CNum 1]); PLeaf (1, [CNum 1]); PLeaf (2, [CNum 1]); PLeaf (3, [CNum 1; CNum d])].

(* what the seeded tree returned: bindings Y = 10, 20, 30, all three with the premise d(1,30) *)
Theorem aliased_alternatives_refuted :
  Run.C15.judge (Run.C15.mkCase wide_prog wide_base wide_store true
                   [Run.C15.mkGoal (4, [CNum 1]) true [wide_alt 10 30; wide_alt 20 30; wide_alt 30 30]]) = 12.
Proof. vm_compute. reflexivity. Qed.
Print Assumptions aliased_alternatives_refuted.

(* ... a single bad alternative behind a good first one is enough (EVERY alternative is judged) *)
Theorem aliased_second_alternative_refuted :
  Run.C15.judge (Run.C15.mkCase wide_prog wide_base wide_store false
                   [Run.C15.mkGoal (4, [CNum 1]) true [wide_alt 10 10; wide_alt 20 30; wide_alt 30 30]]) = 12.
Proof. vm_compute. reflexivity. Qed.
Print Assumptions aliased_second_alternative_refuted.

(* the unchanged tree: each alternative carries its own premise *)
Example own_premises_accepted :
  Run.C15.judge (Run.C15.mkCase wide_prog wide_base wide_store true
                   [Run.C15.mkGoal (4, [CNum 1]) true [wide_alt 10 10; wide_alt 20 20; wide_alt 30 30]]) = 0.
Proof. vm_compute. reflexivity. Qed.

(* the hypotheses of alternatives_bindings_agree are satisfiable with different bindings (then the premises differ) *)
Example ex_alternatives_hyps :
  nth_error wide_prog 0 = Some (hd (mkClause (mkAtom 0 []) [] []) wide_prog) /\
  check_node wide_prog wide_base wide_store [] (wide_alt 10 10) = true /\
  check_node wide_prog wide_base wide_store [] (wide_alt 20 20) = true.
Proof. vm_compute. repeat split. Qed.
