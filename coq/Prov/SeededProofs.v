(* Prov/SeededProofs.v - added after seeding (seeded/C15-1, seeded/C15-2). Statements that
   back the two observables the strengthened correspondence relies on:

   1. recorded-mode (and post-hoc) trees are judged against the rules of the PROGRAM: the
      harness turns a node's rule into the index of the identical rule of
      ProgramInfo.Rules; a rule that is not one of them (e.g. the engine-internal delta
      rule `reach(Y) :- edge(X,Y), X != Y, Δreach(X).` of seeded C15-2) gets an index
      outside the program, and such a node is never part of an accepted proof - whatever
      its bindings, premises and fact are (foreign_rule_rejected, foreign_rule_inside_rejected);
   2. the observation of seeded C15-1 (ring a :- b. a :- base. b :- c. c :- a. g :- a, b.,
      Explain(g(1)) = ErrNoProof) gets verdict 53 = goal 5, code 3 from the judge, while
      the reference explainer proves every stored fact of that program
      (ring3_no_proof_refuted, ring3_has_proofs). *)
From Coq Require Import List ZArith Bool.
From MV Require Import Datalog.Syntax Datalog.Interp Datalog.Solve Datalog.SemiNaive Prov.ProofTree Prov.Explain.
From MV Require Run.C15.
Import ListNotations.
Open Scope Z_scope.

Lemma foreign_rule_node_rejected : forall P base St anc ri bs f partial prems,
  nth_error P ri = None ->
  check_node P base St anc (PDerived ri bs f partial prems) = false.
Proof.
  intros P base St anc ri bs f partial prems H.
  cbn [check_node]. rewrite H.
  rewrite andb_false_r. reflexivity.
Qed.

Lemma foreign_rule_let_rejected : forall P base St anc ri f partial prems,
  nth_error P ri = None ->
  check_node P base St anc (PLet ri f partial prems) = false.
Proof.
  intros P base St anc ri f partial prems H.
  cbn [check_node]. rewrite H.
  rewrite andb_false_r. reflexivity.
Qed.

(* a node whose rule is not a rule of the program is not an accepted proof of any goal *)
Theorem foreign_rule_rejected : forall P base St goal ri bs f partial prems,
  nth_error P ri = None ->
  check_proof P base St goal (PDerived ri bs f partial prems) = false.
Proof.
  intros. unfold check_proof. rewrite foreign_rule_node_rejected by assumption.
  apply andb_false_r.
Qed.
Print Assumptions foreign_rule_rejected.

(* ... nor can it occur as a direct premise of an accepted node *)
Theorem foreign_rule_inside_rejected : forall P base St anc ri bs f partial pre post ri' bs' f' partial' prems',
  nth_error P ri' = None ->
  check_node P base St anc
    (PDerived ri bs f partial (pre ++ PDerived ri' bs' f' partial' prems' :: post)) = false.
Proof.
  intros P base St anc ri bs f partial pre post ri' bs' f' partial' prems' H.
  cbn [check_node]. rewrite forallb_app. cbn [forallb].
  rewrite foreign_rule_node_rejected by assumption.
  rewrite andb_false_l, andb_false_r, andb_false_r. reflexivity.
Qed.
Print Assumptions foreign_rule_inside_rejected.

(* seeded C15-1: p0 = base, p1 = a, p2 = b, p3 = c, p4 = g *)
Definition ring3_prog : list clause :=
  [mkClause (mkAtom 1 [TVar 1]) [PAtom (mkAtom 2 [TVar 1])] [];
   mkClause (mkAtom 1 [TVar 1]) [PAtom (mkAtom 0 [TVar 1])] [];
   mkClause (mkAtom 2 [TVar 1]) [PAtom (mkAtom 3 [TVar 1])] [];
   mkClause (mkAtom 3 [TVar 1]) [PAtom (mkAtom 1 [TVar 1])] [];
   mkClause (mkAtom 4 [TVar 1]) [PAtom (mkAtom 1 [TVar 1]); PAtom (mkAtom 2 [TVar 1])] []].
Definition ring3_base : list fact := [(0, [CNum 1])].
Definition ring3_store : list fact :=
  [(0, [CNum 1]); (1, [CNum 1]); (2, [CNum 1]); (3, [CNum 1]); (4, [CNum 1])].

Definition leaf0 := PLeaf (0, [CNum 1]).
Definition pa := PDerived 1%nat [(1, CNum 1)] (1, [CNum 1]) false [leaf0].
Definition pc := PDerived 3%nat [(1, CNum 1)] (3, [CNum 1]) false [pa].
Definition pb := PDerived 2%nat [(1, CNum 1)] (2, [CNum 1]) false [pc].

(* what the seeded tree returned: proofs for base, a, b, c - none for the stored fact g(1) *)
Theorem ring3_no_proof_refuted :
  Run.C15.judge (Run.C15.mkCase ring3_prog ring3_base ring3_store true
                   [Run.C15.mkGoal (0, [CNum 1]) true [leaf0];
                    Run.C15.mkGoal (1, [CNum 1]) true [pa];
                    Run.C15.mkGoal (2, [CNum 1]) true [pb];
                    Run.C15.mkGoal (3, [CNum 1]) true [pc];
                    Run.C15.mkGoal (4, [CNum 1]) true []]) = 53.
Proof. vm_compute. reflexivity. Qed.
Print Assumptions ring3_no_proof_refuted.

(* the specification side proves every stored fact of that program *)
Theorem ring3_has_proofs :
  forallb (fun f => match find_proof (explain_ref ring3_prog ring3_base ring3_store) f with
                    | Some n => check_proof ring3_prog ring3_base ring3_store f n
                    | None => false
                    end) ring3_store = true.
Proof. vm_compute. reflexivity. Qed.
Print Assumptions ring3_has_proofs.

(* seeded C15-2: reach(Y) :- edge(X,Y), X != Y, reach(X). - the recorded node of reach(2)
   carries the delta rule (index outside the program, 4000 in checks/c15.py): verdict 2 *)
Definition reach_prog : list clause :=
  [mkClause (mkAtom 2 [TVar 1]) [PAtom (mkAtom 1 [TVar 1])] [];
   mkClause (mkAtom 2 [TVar 2]) [PAtom (mkAtom 0 [TVar 1; TVar 2]); PIneq (TVar 1) (TVar 2); PAtom (mkAtom 2 [TVar 1])] []].
Definition reach_base : list fact := [(0, [CNum 1; CNum 2]); (1, [CNum 1])].
Definition reach_store : list fact := [(0, [CNum 1; CNum 2]); (1, [CNum 1]); (2, [CNum 1]); (2, [CNum 2])].
Definition reach1 := PDerived 0%nat [(1, CNum 1)] (2, [CNum 1]) false [PLeaf (1, [CNum 1])].
Definition reach2 (ri : nat) :=
  PDerived ri [(1, CNum 1); (2, CNum 2)] (2, [CNum 2]) false [PLeaf (0, [CNum 1; CNum 2]); reach1].

Theorem delta_rule_node_refuted :
  Run.C15.judge (Run.C15.mkCase reach_prog reach_base reach_store false
                   [Run.C15.mkGoal (2, [CNum 2]) true [reach2 4000%nat]]) = 12.
Proof. vm_compute. reflexivity. Qed.
Print Assumptions delta_rule_node_refuted.

(* the same tree with the program's rule is accepted *)
Example program_rule_node_accepted :
  Run.C15.judge (Run.C15.mkCase reach_prog reach_base reach_store false
                   [Run.C15.mkGoal (2, [CNum 2]) true [reach2 1%nat]]) = 0.
Proof. vm_compute. reflexivity. Qed.
