(* Prov/ProofIdProofs.v - the identifier of a proof node is a function of (rule, fact,
   sub-identifiers), hence of the tree without bindings and flags; and the framing of the
   hashed parts ("<len>:<part>\n") is injective, so that two different contents are never
   hashed from the same bytes: with a collision-free hash, equal identifiers mean equal
   content. *)
From Coq Require Import List ZArith Bool Lia Decimal DecimalNat.
From MV Require Import Datalog.Syntax Prov.ProofTree Prov.ProofTreeProofs Prov.ProofId.
Import ListNotations.
Open Scope Z_scope.

(* ---- decimal numerals *)
Lemma uint_bytes_inj : forall d d', uint_bytes d = uint_bytes d' -> d = d'.
Proof.
  induction d; destruct d'; simpl; intros E; try discriminate; try reflexivity;
    injection E as E; f_equal; auto.
Qed.

Lemma dec_inj n m : dec n = dec m -> n = m.
Proof.
  unfold dec. intros E. apply uint_bytes_inj in E.
  rewrite <- (Unsigned.of_to n), <- (Unsigned.of_to m), E. reflexivity.
Qed.

Lemma uint_bytes_digits d : Forall (fun b => b <> 58) (uint_bytes d).
Proof. induction d; simpl; constructor; auto; discriminate. Qed.

Lemma dec_nonempty n : dec n <> [].
Proof.
  unfold dec. intros E. change [] with (uint_bytes Nil) in E. apply uint_bytes_inj in E.
  assert (E' : Nat.of_uint (Nat.to_uint n) = Nat.of_uint Nil) by (rewrite E; reflexivity).
  rewrite Unsigned.of_to in E'. simpl in E'. subst n. vm_compute in E. discriminate.
Qed.

(* ---- the framing *)
Lemma split_at_colon : forall d1 d2 r1 r2,
  Forall (fun b => b <> 58) d1 -> Forall (fun b => b <> 58) d2 ->
  d1 ++ 58 :: r1 = d2 ++ 58 :: r2 -> d1 = d2 /\ r1 = r2.
Proof.
  induction d1 as [|x d1 IH]; destruct d2 as [|y d2]; simpl; intros r1 r2 H1 H2 E.
  - injection E as E. auto.
  - injection E as E1 E2. inversion H2 as [|? ? Hy _]; subst. exfalso. apply Hy. reflexivity.
  - injection E as E1 E2. inversion H1 as [|? ? Hx _]; subst. exfalso. apply Hx. reflexivity.
  - injection E as E1 E2. inversion H1; inversion H2; subst.
    destruct (IH d2 r1 r2) as [A B]; auto. subst. auto.
Qed.

Lemma app_same_length {A} : forall (p q r r' : list A),
  length p = length q -> p ++ r = q ++ r' -> p = q /\ r = r'.
Proof.
  induction p as [|x p IH]; destruct q as [|y q]; simpl; intros r r' Hl E; try discriminate.
  - auto.
  - injection E as E1 E2. injection Hl as Hl. destruct (IH q r r' Hl E2) as [Ea Eb]. subst. auto.
Qed.

Lemma frame_inj : forall ps qs, frame ps = frame qs -> ps = qs.
Proof.
  induction ps as [|p ps IH]; destruct qs as [|q qs]; cbn [frame]; intros E.
  - reflexivity.
  - exfalso. destruct (dec (length q)) eqn:Ed; [exact (dec_nonempty _ Ed) | discriminate].
  - exfalso. destruct (dec (length p)) eqn:Ed; [exact (dec_nonempty _ Ed) | discriminate].
  - apply split_at_colon in E as [E1 E2]; try apply uint_bytes_digits.
    apply dec_inj in E1.
    apply app_same_length in E2 as [E2 E3]; [|exact E1].
    injection E3 as E3. subst q. f_equal. apply IH. exact E3.
Qed.

(* ---- identifiers *)
Section Ids.
Variable H : list Z -> list Z.
Variable show : fact -> list Z.
Variable rid : nat -> list Z.

Notation nid := (node_id H show rid).

(* DESIGN C15 proof_id_functional: the identifier of a rule node is a function of the
   rule, the fact and the identifiers of the sub-proofs (bindings, flags, and the
   sub-proofs themselves beyond their identifiers do not enter) *)
Lemma node_id_local ri f bs bs' pa pa' prems prems' :
  map nid prems = map nid prems' ->
  nid (PDerived ri bs f pa prems) = nid (PDerived ri bs' f pa' prems').
Proof. intros E. cbn [node_id]. rewrite E. reflexivity. Qed.

Lemma map_ext_forall2 {A B C} (f : A -> B) (g : A -> C) : forall l l',
  Forall (fun x => forall y, g x = g y -> f x = f y) l -> map g l = map g l' -> map f l = map f l'.
Proof.
  induction l as [|x l IH]; destruct l' as [|y l']; simpl; intros HF E; try discriminate; [reflexivity|].
  injection E as E1 E2. inversion HF as [|? ? Hx Hl]; subst. f_equal; [apply Hx; exact E1 | apply IH; assumption].
Qed.

(* ... hence of the content of the tree *)
Lemma node_id_content : forall n m, erase n = erase m -> nid n = nid m.
Proof.
  assert (R : forall ri f prems rj g qs,
             Forall (fun n => forall m, erase n = erase m -> nid n = nid m) prems ->
             PDerived ri [] f false (map erase prems) = PDerived rj [] g false (map erase qs) ->
             H (frame (tag_derived :: rid ri :: show f :: map nid prems)) =
             H (frame (tag_derived :: rid rj :: show g :: map nid qs))).
  { intros ri f prems rj g qs IH E. injection E as E1 E2 E3. subst rj g.
    rewrite (map_ext_forall2 nid erase prems qs IH E3). reflexivity. }
  induction n as [f | f | ri bs f pa prems IH | ri f pa prems IH | f prems IH] using pnode_ind2;
    intros m E; destruct m as [g | g | rj cs g pb qs | rj g pb qs | g qs]; cbn [erase] in E; try discriminate;
    cbn [node_id]; try (injection E as <-; reflexivity); try reflexivity;
    f_equal; apply R; assumption.
Qed.

(* with a collision-free hash and injective printing, the converse *)
Hypothesis H_inj : forall x y, H x = H y -> x = y.
Hypothesis show_inj : forall f g, show f = show g -> f = g.
Hypothesis rid_inj : forall i j, rid i = rid j -> i = j.

Lemma map_inj_forall {A B C} (f : A -> B) (g : A -> C) (ok : A -> bool) : forall l l',
  Forall (fun x => ok x = true -> forall y, ok y = true -> f x = f y -> g x = g y) l ->
  forallb ok l = true -> forallb ok l' = true -> map f l = map f l' -> map g l = map g l'.
Proof.
  induction l as [|x l IH]; destruct l' as [|y l']; simpl; intros HF O1 O2 E; try discriminate; [reflexivity|].
  injection E as E1 E2. inversion HF as [|? ? Hx Hl]; subst.
  apply andb_true_iff in O1 as [Ox O1]. apply andb_true_iff in O2 as [Oy O2].
  f_equal; [apply Hx; assumption | apply IH; assumption].
Qed.

Lemma node_id_inj : forall n, modelled n = true -> forall m, modelled m = true ->
  nid n = nid m -> erase n = erase m.
Proof.
  induction n as [f | f | ri bs f pa prems IH | ri f pa prems IH | f prems IH] using pnode_ind2;
    intros Mn m Mm E; destruct m as [g | g | rj cs g pb qs | rj g pb qs | g qs];
    cbn [modelled] in Mn, Mm; try discriminate;
    cbn [node_id] in E; apply app_inv_head in E; apply H_inj in E; apply frame_inj in E;
    try (injection E as E; discriminate E); try discriminate;
    try (injection E as E; apply show_inj in E; subst g; reflexivity);
    try (injection E as E1 E2 E3; apply rid_inj in E1; apply show_inj in E2; subst rj g; cbn [erase];
         rewrite (map_inj_forall nid erase modelled prems qs IH Mn Mm E3); reflexivity).
Qed.
End Ids.

(* ---- the hypotheses of node_id_inj are satisfiable: an injective printing of facts
   (a prefix code), the identity as hash, rule number as rule identifier *)
Fixpoint enc_c (c : const) : list Z :=
  match c with
  | CNum n => [0; n]
  | CName s => 1 :: Z.of_nat (length s) :: s
  | CStr s => 2 :: Z.of_nat (length s) :: s
  | CPair a b => 3 :: enc_c a ++ enc_c b
  | CNil => [4]
  | CCons h t => 5 :: enc_c h ++ enc_c t
  end.

Fixpoint enc_l (l : list const) : list Z :=
  match l with
  | [] => [9]
  | c :: r => 8 :: enc_c c ++ enc_l r
  end.

Definition enc_fact (f : fact) : list Z := fst f :: enc_l (snd f).

Lemma enc_c_prefix_free : forall a b r r', enc_c a ++ r = enc_c b ++ r' -> a = b /\ r = r'.
Proof.
  induction a as [s|s|n|a1 IH1 a2 IH2| |a1 IH1 a2 IH2]; destruct b as [t|t|m|b1 b2| |b1 b2];
    simpl; intros r r' E; try discriminate.
  - injection E as E1 E2. apply Nat2Z.inj in E1. destruct (app_same_length s t r r' E1 E2) as [-> ->]. auto.
  - injection E as E1 E2. apply Nat2Z.inj in E1. destruct (app_same_length s t r r' E1 E2) as [-> ->]. auto.
  - injection E as -> ->. auto.
  - injection E as E. rewrite <- !app_assoc in E.
    destruct (IH1 _ _ _ E) as [-> E']. destruct (IH2 _ _ _ E') as [-> ->]. auto.
  - injection E as ->. auto.
  - injection E as E. rewrite <- !app_assoc in E.
    destruct (IH1 _ _ _ E) as [-> E']. destruct (IH2 _ _ _ E') as [-> ->]. auto.
Qed.

Lemma enc_l_inj : forall l l', enc_l l = enc_l l' -> l = l'.
Proof.
  induction l as [|c l IH]; destruct l' as [|c' l']; simpl; intros E; try discriminate; [reflexivity|].
  injection E as E. destruct (enc_c_prefix_free _ _ _ _ E) as [-> E']. f_equal. apply IH. exact E'.
Qed.

Lemma enc_fact_inj f g : enc_fact f = enc_fact g -> f = g.
Proof.
  destruct f as [p a], g as [q b]. unfold enc_fact. simpl. intros E. injection E as -> E.
  apply enc_l_inj in E. subst. reflexivity.
Qed.
