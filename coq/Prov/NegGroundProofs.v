(* Prov/NegGroundProofs.v - a decidable sufficient condition for the program class of
   proof_exists. neg_ground_from (ExplainProofs.v) is the semantic safety condition
   "a negated atom is ground when the left-to-right join reaches it"; neg_bound_b is the
   syntactic reading: every variable that is an argument of a negated atom is an argument
   of an earlier positive atom of the body, or one side of an earlier equality whose other
   side is not a variable. (A variable inside a function application needs no check: the
   application does not evaluate while the variable is unbound.) *)
From Coq Require Import List ZArith Bool Lia.
From MV Require Import Datalog.Syntax Datalog.SyntaxProofs Datalog.Interp Datalog.Solve Datalog.SolveProofs
  Datalog.SemiNaive Datalog.SemiNaiveProofs Datalog.Lfp Prov.ProofTree Prov.ProofTreeProofs Prov.Explain
  Prov.ExplainProofs Prov.ExistsProofs.
Import ListNotations.
Open Scope Z_scope.

Local Arguments step_pure : simpl never.

(* variables that are arguments themselves *)
Fixpoint tvars (ts : list term) : list Z :=
  match ts with
  | [] => []
  | TVar v :: r => v :: tvars r
  | _ :: r => tvars r
  end.

(* the variable an equality certainly binds: one side a variable, the other not *)
Definition eq_binds (l r : term) : list Z :=
  match l, r with
  | TVar _, TVar _ => []
  | TVar v, _ => [v]
  | _, TVar v => [v]
  | _, _ => []
  end.

(* bv = variables certainly bound before the body is entered *)
Fixpoint neg_bound_b (bv : list Z) (body : list premise) : bool :=
  match body with
  | [] => true
  | PAtom a :: b => neg_bound_b (tvars (aargs a) ++ bv) b
  | PNeg a :: b => forallb (fun v => memZ v bv) (tvars (aargs a)) && neg_bound_b bv b
  | PEq l r :: b => neg_bound_b (eq_binds l r ++ bv) b
  | _ :: b => neg_bound_b bv b
  end.

Definition no_cmp_b (body : list premise) : bool :=
  forallb (fun p => match p with PCmp _ _ _ => false | _ => true end) body.

(* the decidable program class *)
Definition prog_fine_b (P : list clause) : bool :=
  forallb (fun c => is_nil (clet c) && no_cmp_b (cbody c) && neg_bound_b [] (cbody c)) P.

(* ---- bound variables stay bound along the join *)
Definition bound (s : subst) (v : Z) : Prop := lookup v s <> None.

Lemma bound_cons v c s w : bound s w -> bound ((v, c) :: s) w.
Proof. unfold bound. simpl. destruct (w =? v); [discriminate | auto]. Qed.

Lemma bound_head v c s : bound ((v, c) :: s) v.
Proof. unfold bound. simpl. rewrite Z.eqb_refl. discriminate. Qed.

Lemma unify1_bound s pv c s' : unify1 s pv c = Some s' ->
  (forall w, bound s w -> bound s' w) /\ (forall v, pv = VVar v -> bound s' v).
Proof.
  destruct pv as [d|x]; unfold unify1.
  - destruct (const_eqb d c); [|discriminate]. intros H. injection H as <-.
    split; [auto | intros v Hv; discriminate].
  - destruct (lookup x s) as [d|] eqn:El.
    + destruct (const_eqb d c); [|discriminate]. intros H. injection H as <-.
      split; [auto|]. intros v Hv. injection Hv as <-. unfold bound. congruence.
    + intros H. injection H as <-. split; [intros w; apply bound_cons|].
      intros v Hv. injection Hv as <-. apply bound_head.
Qed.

Lemma unify_args_bound : forall pvs s cs u, unify_args s pvs cs = Some u ->
  (forall w, bound s w -> bound u w) /\ (forall v, In (VVar v) pvs -> bound u v).
Proof.
  induction pvs as [|pv pvs IH]; intros s cs u H.
  - destruct cs; [|discriminate]. simpl in H. injection H as <-. split; [auto | intros v []].
  - destruct cs as [|c cs]; [discriminate|]. cbn [unify_args] in H.
    destruct (unify1 s pv c) as [s'|] eqn:E1; [|discriminate].
    destruct (unify1_bound _ _ _ _ E1) as [A1 B1]. destruct (IH _ _ _ H) as [A2 B2]. split.
    + intros w Hw. apply A2, A1, Hw.
    + intros v [->|Hin]; [apply A2, (B1 v eq_refl) | apply B2, Hin].
Qed.

Lemma eval_term_tvar_const s v c : eval_term s (TVar v) = Some (VConst c) -> bound s v.
Proof. simpl. unfold bound. destruct (lookup v s); [discriminate|]. intros H. discriminate. Qed.

Lemma eval_term_vvar s t x : eval_term s t = Some (VVar x) -> t = TVar x.
Proof.
  destruct t as [w|c|f args]; simpl.
  - destruct (lookup w s); intros H; inversion H; reflexivity.
  - discriminate.
  - match goal with |- context [match ?X with Some _ => _ | None => _ end] => destruct X end; [|discriminate].
    destruct (eval_fn f l); discriminate.
Qed.

Lemma eval_args_tvars s : forall args pvs v,
  eval_args s args = Some pvs -> In v (tvars args) -> In (VVar v) pvs \/ bound s v.
Proof.
  unfold eval_args. induction args as [|a args IH]; intros pvs v He Hin; [destruct Hin|].
  cbn [map_opt] in He.
  destruct (eval_term s a) as [pv|] eqn:Ea; [|discriminate].
  destruct (map_opt (eval_term s) args) as [r|] eqn:Er; [|discriminate].
  injection He as <-.
  assert (Tail : In v (tvars args) -> In (VVar v) (pv :: r) \/ bound s v).
  { intros H. destruct (IH r v eq_refl H) as [H1|H1]; [left; right; exact H1 | right; exact H1]. }
  destruct a as [w|c|f l]; simpl in Hin; try (apply Tail; exact Hin).
  destruct Hin as [->|Hin]; [|apply Tail; exact Hin].
  destruct pv as [c|x].
  - right. eapply eval_term_tvar_const; eauto.
  - apply eval_term_vvar in Ea. injection Ea as ->. left. left. reflexivity.
Qed.

Lemma eq_binds_in l r v : In v (eq_binds l r) ->
  (l = TVar v /\ forall w, r <> TVar w) \/ (r = TVar v /\ forall w, l <> TVar w).
Proof.
  destruct l as [x|c|f a]; destruct r as [y|d|g b]; simpl; intros H; try (destruct H; fail);
    destruct H as [<-|[]]; ((left; split; [reflexivity | intros; discriminate]) ||
                            (right; split; [reflexivity | intros; discriminate])).
Qed.

Lemma step_pure_eq_bound l r s us u : step_pure (PEq l r) s = Some us -> In u us ->
  (forall w, bound s w -> bound u w) /\ (forall v, In v (eq_binds l r) -> bound u v).
Proof.
  unfold step_pure. intros H Hu.
  destruct (eval_term s l) as [[a|x]|] eqn:El; [| |discriminate];
    (destruct (eval_term s r) as [[b|y]|] eqn:Er; [| |discriminate]).
  - injection H as <-. assert (u = s) as ->.
    { destruct (const_eqb a b); [destruct Hu as [<-|[]]; reflexivity | destruct Hu]. }
    split; [auto|]. intros v Hv. apply eq_binds_in in Hv as [[-> _]|[-> _]]; eapply eval_term_tvar_const; eauto.
  - injection H as <-. destruct Hu as [<-|[]]. split; [intros w; apply bound_cons|].
    apply eval_term_vvar in Er as Er'. subst r.
    intros v Hv. apply eq_binds_in in Hv as [[-> Hn]|[Hr _]].
    + exfalso. exact (Hn y eq_refl).
    + injection Hr as ->. apply bound_head.
  - injection H as <-. destruct Hu as [<-|[]]. split; [intros w; apply bound_cons|].
    apply eval_term_vvar in El as El'. subst l.
    intros v Hv. apply eq_binds_in in Hv as [[Hl _]|[-> Hn]].
    + injection Hl as ->. apply bound_head.
    + exfalso. exact (Hn x eq_refl).
  - apply eval_term_vvar in El. apply eval_term_vvar in Er. subst l r.
    destruct (x =? y); [|discriminate]. injection H as <-. destruct Hu as [<-|[]].
    split; [auto | intros v []].
Qed.

Lemma step_pure_other_bound p s us u :
  (forall l r, p <> PEq l r) -> step_pure p s = Some us -> In u us -> u = s.
Proof.
  intros Hne H Hu. destruct p as [a|a|l r|l r|op l r]; unfold step_pure in H; try discriminate.
  - exfalso. exact (Hne l r eq_refl).
  - destruct (eval_term s l) as [[a|x]|]; try discriminate;
      destruct (eval_term s r) as [[b|y]|]; try discriminate; injection H as <-;
      try (destruct Hu; fail).
    destruct (const_eqb a b); [destruct Hu | destruct Hu as [<-|[]]; reflexivity].
  - destruct (eval_term s l) as [[a|x]|]; try discriminate;
      destruct (eval_term s r) as [[b|y]|]; try discriminate.
    destruct (eval_cmp op a b) as [[|]|]; try discriminate; injection H as <-;
      [destruct Hu as [<-|[]]; reflexivity | destruct Hu].
Qed.

(* what one premise adds to the certainly bound variables *)
Definition binds (p : premise) : list Z :=
  match p with
  | PAtom a => tvars (aargs a)
  | PEq l r => eq_binds l r
  | _ => []
  end.

Lemma holds_bound N I p s u : holds N I p s u ->
  (forall w, bound s w -> bound u w) /\ (forall v, In v (binds p) -> bound u v).
Proof.
  intros H. destruct H as [a s pvs f u He Hf Hm | a s pvs He Hall | p s us u He Hu].
  - unfold match_fact in Hm. destruct (fst f =? apred a); [|discriminate].
    destruct (unify_args_bound _ _ _ _ Hm) as [A B]. split; [exact A|].
    simpl. intros v Hv. destruct (eval_args_tvars s (aargs a) pvs v He Hv) as [H1|H1]; [apply B, H1 | apply A, H1].
  - split; [auto | intros v []].
  - destruct p as [a|a|l r|l r|op l r]; try (unfold step_pure in He; discriminate).
    + apply (step_pure_eq_bound l r s us u He Hu).
    + assert (Hne : forall l' r', PIneq l r <> PEq l' r') by (intros; discriminate).
      rewrite (step_pure_other_bound _ s us u Hne He Hu). split; [auto | intros v []].
    + assert (Hne : forall l' r', PCmp op l r <> PEq l' r') by (intros; discriminate).
      rewrite (step_pure_other_bound _ s us u Hne He Hu). split; [auto | intros v []].
Qed.

(* ---- a pattern whose variable arguments are bound evaluates to constants *)
Lemma eval_args_ground u : forall args pvs,
  eval_args u args = Some pvs -> (forall v, In v (tvars args) -> bound u v) ->
  exists cs, map_opt (ground_value u) pvs = Some cs.
Proof.
  unfold eval_args. induction args as [|a args IH]; intros pvs He Hb.
  - simpl in He. injection He as <-. exists []. reflexivity.
  - cbn [map_opt] in He.
    destruct (eval_term u a) as [pv|] eqn:Ea; [|discriminate].
    destruct (map_opt (eval_term u) args) as [r|] eqn:Er; [|discriminate].
    injection He as <-.
    destruct (IH r eq_refl) as (cs & Hcs).
    { intros v Hv. apply Hb. destruct a; simpl; auto. }
    assert (Hpv : exists c, ground_value u pv = Some c).
    { destruct pv as [c|x]; [exists c; reflexivity|].
      apply eval_term_vvar in Ea as Ea'. subst a.
      assert (Hx : bound u x) by (apply Hb; simpl; left; reflexivity).
      simpl. destruct (lookup x u) as [c|] eqn:El; [exists c; reflexivity|].
      exfalso. apply Hx. exact El. }
    destruct Hpv as (c & Hc). exists (c :: cs). cbn [map_opt]. rewrite Hc, Hcs. reflexivity.
Qed.

Lemma neg_bound_step bv p b : neg_bound_b bv (p :: b) = true -> neg_bound_b (binds p ++ bv) b = true.
Proof.
  destruct p as [a|a|l r|l r|op l r]; simpl; auto.
  rewrite andb_true_iff. tauto.
Qed.

Lemma neg_bound_sound : forall body bv s,
  neg_bound_b bv body = true -> (forall v, In v bv -> bound s v) -> neg_ground_from body s.
Proof.
  induction body as [|p b IH]; intros bv s Hb Hs I k pre a post u pvs E Hsat He.
  - destruct pre; discriminate.
  - destruct pre as [|p' pre].
    + simpl in E. injection E as -> ->. inversion Hsat; subst.
      simpl in Hb. apply andb_true_iff in Hb as [Hb _]. rewrite forallb_forall in Hb.
      apply (eval_args_ground u (aargs a) pvs He).
      intros v Hv. apply Hs. apply memZ_spec. apply Hb. exact Hv.
    + simpl in E. injection E as <- ->.
      inversion Hsat as [|k' p0 b0 s0 u0 t0 Hh Hr]; subst.
      destruct (holds_bound _ _ _ _ _ Hh) as [A B].
      apply (IH (binds p ++ bv) u0 (neg_bound_step bv p _ Hb)) with (I := I) (k := S k) (pre := pre) (a := a) (post := post) (u := u) (pvs := pvs); auto.
      intros v Hv. apply in_app_or in Hv as [Hv|Hv]; [apply B, Hv | apply A, Hs, Hv].
Qed.

Lemma no_cmp_b_sound body : no_cmp_b body = true -> no_cmp body.
Proof.
  unfold no_cmp_b, no_cmp. rewrite forallb_forall. intros H op l r Hin. specialize (H _ Hin). discriminate.
Qed.

Lemma prog_fine_b_sound P : prog_fine_b P = true -> prog_fine P.
Proof.
  unfold prog_fine_b, prog_fine. rewrite forallb_forall. intros H c Hc. specialize (H c Hc).
  apply andb_true_iff in H as [H H3]. apply andb_true_iff in H as [H1 H2].
  split; [apply is_nil_spec; exact H1|]. split; [apply no_cmp_b_sound; exact H2|].
  apply (neg_bound_sound (cbody c) [] [] H3). intros v [].
Qed.
