(* Correspondence runner for C03. A case is a rule set (shapes only) and the
   distinct answers analysis.Stratify gave for it over several runs (Go's answer
   depends on map iteration order). Each answer is judged against the dependency
   graph the model builds from the rule shapes:
     error            -> must have neg_cycle g = true   (neg_cycle_exact)
     layers + map     -> must satisfy valid_layers g    (valid_layers_exact)
   judge = 0: every answer passes; 2 + 10*k: answer number k (from 0) violates the
   property. Because the graph is the model's, a change of makeDepGraph in Go shows
   up as a verdict 2 on the inputs where it matters. *)
From Coq Require Import List ZArith Bool.
From MV Require Export Strat.DepGraph Strat.Stratify.
Import ListNotations.
Open Scope Z_scope.

(* compact input: (builtins, edb, rules); rule = (head, kind, body); kind 0 none,
   1 let-transform, 2 do-transform; body item = (tag, predicate): 0 Atom, 1 NegAtom,
   2 TemporalLiteral(Atom), 3 TemporalLiteral(NegAtom), 4 TemporalAtom, other: a
   premise without predicate (Eq/Ineq). *)
Definition zrule := (Z * Z * list (Z * Z))%type.
Definition zprog := (list Z * list Z * list zrule)%type.

Definition dec_premise (tp : Z * Z) : premise :=
  let (t, p) := tp in
  if t =? 0 then PAtom p else if t =? 1 then PNeg p else if t =? 2 then PTempLit false p
  else if t =? 3 then PTempLit true p else if t =? 4 then PTempAtom p else POther.
Definition dec_kind (k : Z) : tkind := if k =? 1 then TLet else if k =? 2 then TDo else TNone.
Definition dec_rule (r : zrule) : rule :=
  let '(h, k, b) := r in mkRule h (map dec_premise b) (dec_kind k).
Definition dec_prog (P : zprog) : program :=
  let '(bi, e, rs) := P in mkProgram bi e (map dec_rule rs).

Inductive outcome :=
| OErr
| OOk (layers : list (list Z)) (m : list (Z * Z)).

Definition model_graph (P : zprog) : graph := graph_of (make_dep_graph (dec_prog P)).

Definition judge_one (g : graph) (nc : bool) (o : outcome) : bool :=
  match o with
  | OErr => nc
  | OOk layers m =>
      forallb (fun pi => 0 <=? snd pi) m
      && valid_layers g layers (map (fun pi => (fst pi, Z.to_nat (snd pi))) m)
  end.

Fixpoint judge_all (g : graph) (nc : bool) (k : Z) (os : list outcome) : Z :=
  match os with
  | [] => 0
  | o :: os' => if judge_one g nc o then judge_all g nc (k + 1) os' else 2 + 10 * k
  end.

Definition judge (c : zprog * list outcome) : Z :=
  let g := model_graph (fst c) in
  judge_all g (neg_cycle g) 0 (snd c).

(* the same judgement against the graph of the code before fix F4 (temporal
   premises ignored); used by the check to tell which cases exercise F4 *)
Definition judge_prefix (c : zprog * list outcome) : Z :=
  let g := graph_of (make_dep_graph_prefix (dec_prog (fst c))) in
  judge_all g (neg_cycle g) 0 (snd c).

(* ---- compact wire format (elaborating nested tuples of number literals is what
   costs time in coqc): a case is a list of rows of numbers, the first number is the
   row kind:  0 builtins | 1 edb | 2 head kind item* (item = tag*1000 + predicate)
   | 3 an answer "error" | 4 p i p i ... an answer "ok" with its predicate->layer map
   | 5 p* one layer of the answer that follows (the rows 5 precede their row 4)
   | 6 also evaluate the reference stratification on this case *)
Definition zcase := list (list Z).

Definition prog_of (rows : zcase) : zprog :=
  (flat_map (fun r => match r with 0 :: l => l | _ => [] end) rows,
   flat_map (fun r => match r with 1 :: l => l | _ => [] end) rows,
   flat_map (fun r => match r with
                      | 2 :: h :: k :: l => [(h, k, map (fun x => (x / 1000, x mod 1000)) l)]
                      | _ => [] end) rows).

Fixpoint pairs (l : list Z) : list (Z * Z) :=
  match l with a :: b :: r => (a, b) :: pairs r | _ => [] end.

Definition answers_of (rows : zcase) : list outcome :=
  snd (fold_left (fun (st : list (list Z) * list outcome) r =>
        let '(ls, out) := st in
        match r with
        | 5 :: l => (ls ++ [l], out)
        | 4 :: m => ([], out ++ [OOk ls (pairs m)])
        | 3 :: _ => ([], out ++ [OErr])
        | _ => (ls, out)
        end) rows ([], [])).

(* for replay files: arcs of the model graph, failure criterion, reference answer *)
Definition explain (P : zprog) :=
  let g := model_graph P in
  (verts g, arcs g, neg_cycle g,
   match stratify_ref g with
   | Some (ls, m) => (ls, map (fun pi => (fst pi, Z.of_nat (snd pi))) m)
   | None => ([], [])
   end).

(* does the reference itself pass the observer / agree with neg_cycle (sanity of
   the run, proved in general as stratify_ref_valid) *)
Definition ref_ok (P : zprog) : Z :=
  let g := model_graph P in
  match stratify_ref g with
  | Some (ls, m) => if valid_layers g ls m then 0 else 1
  | None => if neg_cycle g then 0 else 1
  end.

(* what the check evaluates per case: judge code (< 1000) + 1000 if the same answers
   fail against the pre-F4 graph + 100000 if the reference fails its observer *)
Definition judge_full (rows : zcase) : Z :=
  let P := prog_of rows in
  let os := answers_of rows in
  judge (P, os)
  + (if judge_prefix (P, os) =? 0 then 0 else 1000)
  + (if existsb (fun r => match r with 6 :: _ => true | _ => false end) rows
     then 100000 * ref_ok P else 0).
Definition explain_rows (rows : zcase) := explain (prog_of rows).
