(* Correspondence runner for C02. One case = a program with do-transform rules, its
   layers, the base facts and what engine.EvalProgram left in the store. judge
   (a) replays the case on the model (rewrite + semi-naive strata + do-transforms) and
       compares the visible fact sets, and
   (b) runs the observer: for every predicate that has an aggregating rule, the facts Go
       holds for it must be exactly the base facts of that predicate plus, per rule, the
       independent fold spec_do over the rule's own body solutions computed (C01 solve)
       from Go's OWN facts of the body predicates; plain rules of such a predicate
       contribute their one-step consequences over Go's facts.
   (b) is the property verdict; it does not use rewriting, internal relations or the
   grouping loop. *)
From Coq Require Import List ZArith Bool.
From MV Require Export Datalog.Syntax Datalog.Interp Datalog.Solve Datalog.SemiNaive Datalog.Strata
     Datalog.Rewrite Datalog.Transform.
From MV Require Run.C01.
Import ListNotations.
Open Scope Z_scope.

Inductive obs :=
| OFacts (fs : list fact)     (* evaluation returned nil; visible facts read back *)
| OEvalErr                    (* evaluation returned an error or panicked *)
| OLimit.                     (* fact limit / timeout guard *)

Record case := mkCase {
  c_prog : list rule;
  c_layers : list (list Z);
  c_store : list fact;
  c_init : list fact;
  c_fuel : Z;
  c_sort : list (Z * Z);      (* (predicate, column): list value compared as a multiset (collect) *)
  c_obs : obs }.

(* ---- a total order on constants, to sort collect lists on both sides *)
Fixpoint bytes_cmp (a b : list Z) : comparison :=
  match a, b with
  | [], [] => Datatypes.Eq
  | [], _ => Datatypes.Lt
  | _, [] => Datatypes.Gt
  | x :: a', y :: b' => match Z.compare x y with Datatypes.Eq => bytes_cmp a' b' | o => o end
  end.

Definition rank (c : const) : Z :=
  match c with CName _ => 0 | CStr _ => 1 | CNum _ => 2 | CPair _ _ => 3 | CNil => 4 | CCons _ _ => 5 end.

Fixpoint const_cmp (a b : const) : comparison :=
  match a, b with
  | CName s, CName t => bytes_cmp s t
  | CStr s, CStr t => bytes_cmp s t
  | CNum n, CNum m => Z.compare n m
  | CPair a1 a2, CPair b1 b2 => match const_cmp a1 b1 with Datatypes.Eq => const_cmp a2 b2 | o => o end
  | CNil, CNil => Datatypes.Eq
  | CCons a1 a2, CCons b1 b2 => match const_cmp a1 b1 with Datatypes.Eq => const_cmp a2 b2 | o => o end
  | _, _ => Z.compare (rank a) (rank b)
  end.

Fixpoint insert_sorted (c : const) (l : list const) : list const :=
  match l with
  | [] => [c]
  | d :: l' => match const_cmp c d with Datatypes.Gt => d :: insert_sorted c l' | _ => c :: d :: l' end
  end.

Fixpoint elems (c : const) : option (list const) :=
  match c with
  | CNil => Some []
  | CCons h t => match elems t with Some l => Some (h :: l) | None => None end
  | _ => None
  end.

Definition sort_list_const (c : const) : const :=
  match elems c with
  | Some l => list_of_consts (fold_right insert_sorted [] l)
  | None => c
  end.

Definition memZZ (x : Z * Z) (l : list (Z * Z)) : bool :=
  existsb (fun y => Z.eqb (fst x) (fst y) && Z.eqb (snd x) (snd y)) l.

Fixpoint norm_args (srt : list (Z * Z)) (p : Z) (i : Z) (cs : list const) : list const :=
  match cs with
  | [] => []
  | c :: cs' => (if memZZ (p, i) srt then sort_list_const c else c) :: norm_args srt p (i + 1) cs'
  end.

Definition norm_fact (srt : list (Z * Z)) (f : fact) : fact := (fst f, norm_args srt (fst f) 0 (snd f)).
Definition norm (srt : list (Z * Z)) (fs : list fact) : list fact := map (norm_fact srt) fs.

Definition subset (a b : list fact) : bool := forallb (fun f => mem f b) a.
Definition set_eqb (a b : list fact) : bool := subset a b && subset b a.

Definition visible (fs : list fact) : list fact := filter (fun f => negb (is_internal (fst f))) fs.

(* ---- model side *)
Definition ord_id (l : list Z) : list Z := l.

Definition run_model (c : case) : outcome (list fact) :=
  eval_program_do (rewrite ord_id) (Z.to_nat (c_fuel c)) (c_prog c) (c_layers c) (c_store c) (c_init c).

(* the code before the fixes, for the seeded-defect demonstrations and refutations *)
Definition run_model_F2 (c : case) : outcome (list fact) :=
  eval_program_do (rewrite_F2 ord_id) (Z.to_nat (c_fuel c)) (c_prog c) (c_layers c) (c_store c) (c_init c).
Definition run_model_F2c (c : case) : outcome (list fact) :=
  eval_program_do (rewrite_F2c ord_id) (Z.to_nat (c_fuel c)) (c_prog c) (c_layers c) (c_store c) (c_init c).

(* ---- observer side: the solution set of a rule's own body over the facts G.
   A solution binds the body's variables; the wildcard positions are not part of it,
   except for a body that is a single atom over distinct variables, where Go (and the
   documented reading "one row per matching fact") counts every matching fact. *)
Definition project (cols : list Z) (s : subst) : subst :=
  fmap (fun v => match lookup v s with Some c => Some (v, c) | None => None end) cols.

Definition bind_eqb (x y : Z * const) : bool := Z.eqb (fst x) (fst y) && const_eqb (snd x) (snd y).
Definition row_eqb (a b : subst) : bool := list_eqb bind_eqb a b.

Definition dedup_rows (rows : list subst) : list subst :=
  fold_left (fun acc r => if existsb (row_eqb r) acc then acc else acc ++ [r]) rows [].

Definition all_cols (b : list premise) : list Z := dedupZ (flat_map premise_vars b).

Definition spec_rows (G : list fact) (r : rule) : option (list subst) :=
  let b := cbody (r_clause r) in
  match solve G (sel_all G) 0 b [[]] with
  | None => None
  | Some sols =>
      let cols := if single_atom_premise true (r_wild r) b then all_cols b else body_cols (r_wild r) b in
      Some (dedup_rows (map (project cols) sols))
  end.

Definition expected_for (G : list fact) (r : rule) : option (list fact) :=
  match r_do r with
  | None => eval_clause G (sel_all G) (r_clause r)
  | Some d => match spec_rows G r with
              | Some rows => spec_do (chead (r_clause r)) d rows
              | None => None
              end
  end.

Definition agg_heads (P : list rule) : list Z :=
  dedupZ (map r_head (filter (fun r => negb (is_plain r)) P)).

Definition observe (c : case) (G : list fact) : option bool :=
  let hs := agg_heads (c_prog c) in
  match flat_map_opt (expected_for G) (filter (fun r => memZ (r_head r) hs) (c_prog c)) with
  | None => None
  | Some ex =>
      let base := filter (fun f => memZ (fst f) hs) (c_store c ++ c_init c) in
      Some (set_eqb (norm (c_sort c) (base ++ ex))
                    (norm (c_sort c) (filter (fun f => memZ (fst f) hs) G)))
  end.

(* 0 Go = model and the observer accepts
   1 Go differs from the model, the observer accepts Go's facts (correspondence broke,
     property holds on this input)
   2 the observer rejects Go's facts: the property is violated on this input
   3 Go reported an error, the model finished     4 the model reports an error, Go finished
   5 model out of fuel / Go limit (inconclusive)  7 the observer's own evaluation failed *)
Definition judge_with (m : outcome (list fact)) (c : case) : Z :=
  match c_obs c with
  | OFacts G =>
      match observe c G with
      | Some false => 2
      | None => match m with EvalError => 4 | _ => 7 end
      | Some true =>
          match m with
          | Ok M => if set_eqb (norm (c_sort c) (visible M)) (norm (c_sort c) G) then 0 else 1
          | EvalError => 4
          | OutOfFuel => 5
          end
      end
  | OEvalErr => match m with EvalError => 0 | Ok _ => 3 | OutOfFuel => 5 end
  | OLimit => 5
  end.

Definition judge (c : case) : Z := judge_with (run_model c) c.
Definition judge_F2 (c : case) : Z := judge_with (run_model_F2 c) c.
Definition judge_F2c (c : case) : Z := judge_with (run_model_F2c c) c.

(* the observer alone on the model's own result: must accept (do_groups_exact +
   rewrite_isolated say so under their hypotheses); used by the probes *)
Definition self_check (c : case) : Z :=
  match run_model c with
  | Ok M => match observe c (visible M) with Some true => 0 | Some false => 2 | None => 7 end
  | EvalError => 4
  | OutOfFuel => 5
  end.

(* ---- replay rendering (format of Run/C01.v, parsed by checks/datalog_common.py) *)
Definition model_tokens (c : case) : list Z :=
  Run.C01.outcome_tokens (match run_model c with Ok M => Ok (norm (c_sort c) (visible M)) | o => o end).

Definition expected_tokens (c : case) : list Z :=
  match c_obs c with
  | OFacts G =>
      let hs := agg_heads (c_prog c) in
      match flat_map_opt (expected_for G) (filter (fun r => memZ (r_head r) hs) (c_prog c)) with
      | Some ex => Run.C01.outcome_tokens
                     (Ok (norm (c_sort c) (add_all [] (filter (fun f => memZ (fst f) hs) (c_store c ++ c_init c) ++ ex))))
      | None => [1]
      end
  | _ => [1]
  end.

(* ---- runner for the rewrite correspondence: the head ids and arities of the rewritten
   rules, flattened as  head arity is_do  per rule; compared with rewrite.Rewrite *)
Definition rewrite_tokens (rs : list rule) : list Z :=
  flat_map (fun r => [r_head r; Z.of_nat (length (aargs (chead (r_clause r)))); if is_plain r then 0 else 1])
           (rewrite ord_id rs).

Definition judge_rewrite (x : list rule * list Z) : Z :=
  if list_eqb Z.eqb (rewrite_tokens (fst x)) (snd x) then 0 else 1.

(* ======== strengthened after seeding (notes/C02.md) ========
   (1) model_tokens_all: the model's facts INCLUDING the internal relations, for the
       hash-collision filter of the python side (known finding F8 is about hash-equal
       facts in one store; the confusable-constant stream must not contain that trigger).
   (2) recursion through an aggregation edge: the library's way of guaranteeing "the body
       is solved over the completed fixpoint of everything it depends on" is to refuse such
       a program (analysis.Stratify). judge_cyc takes the program, the number of runs that
       were evaluated instead of refused and one store left by such a run. *)
From MV Require Export Datalog.AggCycle.

Definition model_tokens_all (c : case) : list Z := Run.C01.outcome_tokens (run_model c).

(* every plain rule's one-step consequences over G are in G *)
Definition closed_plain (P : list rule) (G : list fact) : option bool :=
  match flat_map_opt (fun r => eval_clause G (sel_all G) (r_clause r)) (filter is_plain P) with
  | Some fs => Some (subset fs G)
  | None => None
  end.

(* what is wrong with a store left by an evaluated cyclic program
   1 = not closed under the plain rules: the relation the aggregate was taken over is not
       the completed one            2 = closed, but the observer rejects the aggregates
   3 = closed and the observer accepts (the cycle never fired)      7 = could not evaluate *)
Definition cyc_detail (c : case) : Z :=
  match c_obs c with
  | OFacts G =>
      match closed_plain (c_prog c) G with
      | Some false => 1
      | Some true => match observe c G with Some false => 2 | Some true => 3 | None => 7 end
      | None => 7
      end
  | _ => 7
  end.

(* 0 = the program has an aggregation edge on a cycle and every run refused it
   2 = it has one and at least one run evaluated it (property violated: no evaluation by
       strata can have the body complete before the aggregate, AggCycleProofs)
   9 = the program has no such cycle (generator error, nothing is claimed) *)
Definition judge_cyc (x : case * Z) : Z :=
  if negb (agg_in_cycle (c_prog (fst x))) then 9
  else if snd x =? 0 then 0 else 2.

Definition judge_cyc_detail (x : case * Z) : Z := cyc_detail (fst x).

(* ======== strengthened after seeding, round 2 (notes/C02.md) ========
   Aggregating rules whose bodies contain built-in predicate atoms that bind variables
   (:match_pair :match_cons :list:member :match_field :match_entry; Datalog/AggBuiltin.v).
   A built-in goal is a PAtom with the built-in's id; the built-in relations are
   materialised over the sub-constants of the facts at hand.
   Observer: exactly `observe` above (base facts + per rule spec_do over C01 solve of the
   rule's own body), evaluated on Go's facts G extended by the built-in relations over the
   sub-constants of G - the body solutions are computed with the built-ins evaluated.
   Model: the same rewrite + strata + do-transforms, the relations materialised anew before
   every stratum (bi_eval_program). Verdict codes as for judge. *)
From MV Require Export Datalog.AggBuiltin.

Definition run_model_bi (c : case) : outcome (list fact) :=
  bi_eval_program (rewrite ord_id) (Z.to_nat (c_fuel c)) (c_prog c) (c_layers c) (c_store c) (c_init c).

Definition observe_bi (c : case) (G : list fact) : option bool :=
  observe c (with_builtins (c_prog c) G).

Definition judge_bi (c : case) : Z :=
  let m := run_model_bi c in
  match c_obs c with
  | OFacts G =>
      match observe_bi c G with
      | Some false => 2
      | None => match m with EvalError => 4 | _ => 7 end
      | Some true =>
          match m with
          | Ok M => if set_eqb (norm (c_sort c) (visible M)) (norm (c_sort c) G) then 0 else 1
          | EvalError => 4
          | OutOfFuel => 5
          end
      end
  | OEvalErr => match m with EvalError => 0 | Ok _ => 3 | OutOfFuel => 5 end
  | OLimit => 5
  end.

Definition model_tokens_bi (c : case) : list Z :=
  Run.C01.outcome_tokens (match run_model_bi c with Ok M => Ok (norm (c_sort c) (visible M)) | o => o end).

Definition model_tokens_all_bi (c : case) : list Z := Run.C01.outcome_tokens (run_model_bi c).

Definition expected_tokens_bi (c : case) : list Z :=
  match c_obs c with
  | OFacts G =>
      let hs := agg_heads (c_prog c) in
      let G' := with_builtins (c_prog c) G in
      match flat_map_opt (expected_for G') (filter (fun r => memZ (r_head r) hs) (c_prog c)) with
      | Some ex => Run.C01.outcome_tokens
                     (Ok (norm (c_sort c) (add_all [] (filter (fun f => memZ (fst f) hs) (c_store c ++ c_init c) ++ ex))))
      | None => [1]
      end
  | _ => [1]
  end.

(* one entry point for mixed batches: tag 1 = a program with built-in atoms (judge_bi) *)
Definition judge_tagged (x : Z * case) : Z :=
  if fst x =? 1 then judge_bi (snd x) else judge (snd x).

(* every kind of case of one run in one batch (fewer coqc starts): *)
Inductive anycase :=
| APlain (c : case)                    (* judge *)
| ABuiltin (c : case)                  (* judge_bi *)
| ARewrite (x : list rule * list Z)    (* judge_rewrite *)
| ACycle (x : case * Z).               (* judge_cyc *)

Definition judge_any (a : anycase) : Z :=
  match a with
  | APlain c => judge c
  | ABuiltin c => judge_bi c
  | ARewrite x => judge_rewrite x
  | ACycle x => judge_cyc x
  end.
