(* Correspondence runner for C09: the model's escape / unescape, lexer + term
   parser, constructor evaluation and printer against what Go's ast.Escape,
   ast.Unescape, parse.Term (through parse.Unit), functional.EvalExpr and
   String() returned. *)
From Coq Require Import List ZArith Bool.
From MV Require Export Term.Hash Term.Const Term.Print Term.MkMap Term.Expr Term.Atom.
From MV Require Export Serde.Utf8 Serde.Escape Serde.Lexer Serde.Parse.
Import ListNotations.
Open Scope Z_scope.

(* per-case tables of library results observed on the Go side:
   formatting (key = bits / nanoseconds) and parsing (key = text) *)
Definition ftable := list (Z * list Z).
Fixpoint flookup (t : ftable) (k : Z) : list Z :=
  match t with [] => [] | (k', v) :: r => if k =? k' then v else flookup r k end.
Definition ptable := list (list Z * option Z).
Fixpoint plookup (t : ptable) (k : list Z) : option Z :=
  match t with [] => None | (k', v) :: r => if bytes_eqb k k' then v else plookup r k end.

Record tables := Tables {
  t_float : ftable; t_time : ftable; t_dur : ftable;       (* FormatFloat, FormatTime, FormatDuration *)
  p_float : ptable; p_time : ptable; p_dur : ptable        (* ParseFloat, time.Parse, ParseDuration *)
}.

Definition printT (t : tables) : const -> list Z :=
  print (flookup (t_float t)) (flookup (t_time t)) (flookup (t_dur t)).
Definition print_atomT (t : tables) : atom -> list Z :=
  print_atom (flookup (t_float t)) (flookup (t_time t)) (flookup (t_dur t)).
Definition parseT (t : tables) : list Z -> pres := parse_term_all (plookup (p_float t)).
Definition evalT (t : tables) : pterm -> option const := eval (plookup (p_time t)) (plookup (p_dur t)).

(* structural equality *)
Fixpoint const_eqb (a b : const) : bool :=
  match a, b with
  | CLeaf t s n, CLeaf t' s' n' => ctype_eqb t t' && bytes_eqb s s' && (n =? n')
  | CCell t n f s, CCell t' n' f' s' => ctype_eqb t t' && (n =? n') && const_eqb f f' && const_eqb s s'
  | _, _ => false
  end.

Fixpoint pterm_eqb (a b : pterm) {struct a} : bool :=
  match a, b with
  | PVar x, PVar y => bytes_eqb x y
  | PConst c, PConst d => const_eqb c d
  | PApply n l, PApply m k =>
      bytes_eqb n m &&
      (fix go (l k : list pterm) : bool :=
         match l, k with
         | [], [] => true
         | x :: l', y :: k' => pterm_eqb x y && go l' k'
         | _, _ => false
         end) l k
  | _, _ => false
  end.

(* the tree Go's parser returned: leaves as constructor expressions *)
Inductive gterm :=
| GVar (name : list Z)
| GConst (e : cexpr)
| GApply (name : list Z) (args : list gterm).
Fixpoint to_pterm (g : gterm) : pterm :=
  match g with
  | GVar x => PVar x
  | GConst e => PConst (build e)
  | GApply n l => PApply n (map to_pterm l)
  end.

(* atom arguments *)
Inductive aarg := AConst (e : cexpr) | AVar (name : list Z).
Definition build_arg (a : aarg) : bterm :=
  match a with AConst e => TConst (build e) | AVar x => TVar x end.

Inductive case :=
(* parse.Unit("m(" text "\n).") gave exactly one fact m(t): Some t; anything else: None *)
| KParse (t : tables) (text : list Z) (go : option gterm)
(* String() of the constant e (built by the public constructors) *)
| KRound (t : tables) (e : cexpr) (text : list Z)
(* String() of the atom sym(args) *)
| KAtom (t : tables) (sym : list Z) (args : list aarg) (text : list Z)
(* ast.Unescape(text, is_bytes): Some result, None = error *)
| KUnescape (is_bytes : bool) (text : list Z) (go : option (list Z))
(* ast.Escape(s, is_bytes) *)
| KEscape (is_bytes : bool) (s : list Z) (go : option (list Z)).

Definition opt_bytes_eqb (a b : option (list Z)) : bool :=
  match a, b with
  | Some x, Some y => bytes_eqb x y
  | None, None => true
  | _, _ => false
  end.

(* does the parsed argument denote the expected one? *)
Definition arg_matches (t : tables) (a : aarg) (p : pterm) : bool :=
  match a with
  | AVar x => match p with PVar y => bytes_eqb x y | _ => false end
  | AConst e => match evalT t p with Some c => const_eqb c (build e) | None => false end
  end.
Fixpoint args_match (t : tables) (l : list aarg) (k : list pterm) : bool :=
  match l, k with
  | [], [] => true
  | a :: l', p :: k' => arg_matches t a p && args_match t l' k'
  | _, _ => false
  end.

(* codes: 0 agreement.
   KParse: 1 model rejects what Go accepts, 2 model accepts what Go rejects,
           3 both accept, different trees, 9 out of fuel.
   KRound / KAtom: 4 model printer differs from String(), 5 model parser
           rejects the printed text, 6 the parsed expression does not evaluate
           to a constant, 7 it evaluates to a different constant (the model
           round trip fails), 9 out of fuel.
   KUnescape / KEscape: 1 results differ. *)
Definition judge (c : case) : Z :=
  match c with
  | KParse t text go =>
      match parseT t text, go with
      | PFuel, _ => 9
      | PErr, None => 0
      | PErr, Some _ => 1
      | POk _ _, None => 2
      | POk p _, Some g => if pterm_eqb p (to_pterm g) then 0 else 3
      end
  | KRound t e text =>
      let c := build e in
      if negb (bytes_eqb (printT t c) text) then 4 else
      match parseT t text with
      | PFuel => 9
      | PErr => 5
      | POk p _ =>
          match evalT t p with
          | None => 6
          | Some c' => if const_eqb c' c then 0 else 7
          end
      end
  | KAtom t sym args text =>
      let a := new_atom sym (map build_arg args) in
      if negb (bytes_eqb (print_atomT t a) text) then 4 else
      match parseT t text with
      | PFuel => 9
      | PErr => 5
      | POk (PApply n l) _ =>
          if negb (bytes_eqb n sym) then 7
          else if args_match t args l then 0 else 7
      | POk _ _ => 7
      end
  | KUnescape b text go => if opt_bytes_eqb (unescape b text) go then 0 else 1
  | KEscape b s go =>
      let m := if b then Some (escape_bytes s) else escape_string s in
      if opt_bytes_eqb m go then 0 else 1
  end.

(* model outputs for a replay file *)
Definition show (c : case) :=
  match c with
  | KParse t text _ => (parseT t text, @None const, @nil Z)
  | KRound t e text =>
      (parseT t text,
       match parseT t text with POk p _ => evalT t p | _ => None end,
       printT t (build e))
  | KAtom t sym args text =>
      (parseT t text, @None const, print_atomT t (new_atom sym (map build_arg args)))
  | KUnescape b text _ => (PErr, @None const, match unescape b text with Some x => x | None => [] end)
  | KEscape b s _ => (PErr, @None const,
                      match (if b then Some (escape_bytes s) else escape_string s) with Some x => x | None => [] end)
  end.

(* generated case files spell printable texts as Coq string literals: (bs "..."%string) *)
From Coq Require Export Strings.String.

(* ---- the clause level (appended): Serde/Clause.v printer and Serde/ClauseParse.v parser
   against Clause.String and parse.Clause ------------------------------------------------ *)
From MV Require Export Serde.Clause Serde.ClauseParse.

(* a clause as the check describes it (built on the Go side with the public constructors)
   and as parse.Clause returned it: base terms are [gterm]s *)
Inductive gprem :=
| GPAtom (n : list Z) (args : list gterm)
| GPNeg (n : list Z) (args : list gterm)
| GPEq (l r : gterm)
| GPIneq (l r : gterm).
Inductive gstmt := GStmt (v : option (list Z)) (fn : list Z) (args : list gterm).
Record gclause := GClause {
  g_sym : list Z; g_args : list gterm; g_prem : option (list gprem); g_trans : list (list gstmt) }.

Fixpoint to_bexp (g : gterm) : bexp :=
  match g with
  | GVar x => BVar x
  | GConst e => BConst (build e)
  | GApply n l => BApp n (map to_bexp l)
  end.
Definition to_premise (p : gprem) : premise :=
  match p with
  | GPAtom n a => LAtom (CAtom n (map to_bexp a))
  | GPNeg n a => LNeg (CAtom n (map to_bexp a))
  | GPEq l r => LEq (to_bexp l) (to_bexp r)
  | GPIneq l r => LIneq (to_bexp l) (to_bexp r)
  end.
Definition to_stmt (s : gstmt) : tstmt := match s with GStmt v fn a => TStmt v fn (map to_bexp a) end.
Definition to_clause (c : gclause) : clause :=
  Clause (CAtom (g_sym c) (map to_bexp (g_args c))) (option_map (map to_premise) (g_prem c))
         (map (map to_stmt) (g_trans c)).

Definition to_pprem (p : gprem) : pprem :=
  match p with
  | GPAtom n a => QAtom n (map to_pterm a)
  | GPNeg n a => QNeg n (map to_pterm a)
  | GPEq l r => QEq (to_pterm l) (to_pterm r)
  | GPIneq l r => QIneq (to_pterm l) (to_pterm r)
  end.
Definition to_pstmt (s : gstmt) : pstmt := match s with GStmt v fn a => PStmt v fn (map to_pterm a) end.
Definition to_pclause (c : gclause) : pclause :=
  PClause (g_sym c) (map to_pterm (g_args c)) (option_map (map to_pprem) (g_prem c))
          (map (map to_pstmt) (g_trans c)).

Section ListEq.
  Context {A B : Type} (eqb : A -> B -> bool).
  Fixpoint list_eqb2 (l : list A) (k : list B) : bool :=
    match l, k with
    | [], [] => true
    | x :: l', y :: k' => eqb x y && list_eqb2 l' k'
    | _, _ => false
    end.
End ListEq.
Definition opt_eqb2 {A B} (eqb : A -> B -> bool) (a : option A) (b : option B) : bool :=
  match a, b with Some x, Some y => eqb x y | None, None => true | _, _ => false end.

(* structural equality of parse results *)
Definition pprem_eqb (a b : pprem) : bool :=
  match a, b with
  | QAtom n l, QAtom m k => bytes_eqb n m && list_eqb2 pterm_eqb l k
  | QNeg n l, QNeg m k => bytes_eqb n m && list_eqb2 pterm_eqb l k
  | QEq l r, QEq l' r' => pterm_eqb l l' && pterm_eqb r r'
  | QIneq l r, QIneq l' r' => pterm_eqb l l' && pterm_eqb r r'
  | _, _ => false
  end.
Definition pstmt_eqb (a b : pstmt) : bool :=
  opt_eqb2 bytes_eqb (ps_var a) (ps_var b) && bytes_eqb (ps_fn a) (ps_fn b)
  && list_eqb2 pterm_eqb (ps_args a) (ps_args b).
Definition pclause_eqb (a b : pclause) : bool :=
  bytes_eqb (pc_sym a) (pc_sym b) && list_eqb2 pterm_eqb (pc_args a) (pc_args b)
  && opt_eqb2 (list_eqb2 pprem_eqb) (pc_prem a) (pc_prem b)
  && list_eqb2 (list_eqb2 pstmt_eqb) (pc_trans a) (pc_trans b).

(* the decidable form of ClauseParse.clause_denotes with ev = evalT: does the parsed clause
   denote the described one? *)
Fixpoint exp_matches (t : tables) (e : gterm) (p : pterm) {struct e} : bool :=
  match e with
  | GVar x => match p with PVar y => bytes_eqb x y | _ => false end
  | GConst c => match evalT t p with Some c' => const_eqb c' (build c) | None => false end
  | GApply n l =>
      match p with
      | PApply m k =>
          bytes_eqb n m &&
          (fix go (l : list gterm) (k : list pterm) : bool :=
             match l, k with
             | [], [] => true
             | x :: l', y :: k' => exp_matches t x y && go l' k'
             | _, _ => false
             end) l k
      | _ => false
      end
  end.
Definition prem_matches (t : tables) (p : gprem) (q : pprem) : bool :=
  match p, q with
  | GPAtom n a, QAtom m l => bytes_eqb n m && list_eqb2 (exp_matches t) a l
  | GPNeg n a, QNeg m l => bytes_eqb n m && list_eqb2 (exp_matches t) a l
  | GPEq x y, QEq u v => exp_matches t x u && exp_matches t y v
  | GPIneq x y, QIneq u v => exp_matches t x u && exp_matches t y v
  | _, _ => false
  end.
Definition stmt_matches (t : tables) (s : gstmt) (q : pstmt) : bool :=
  match s with
  | GStmt v fn a => opt_eqb2 bytes_eqb v (ps_var q) && bytes_eqb fn (ps_fn q) && list_eqb2 (exp_matches t) a (ps_args q)
  end.
Definition clause_matches (t : tables) (c : gclause) (q : pclause) : bool :=
  bytes_eqb (g_sym c) (pc_sym q) && list_eqb2 (exp_matches t) (g_args c) (pc_args q)
  && opt_eqb2 (list_eqb2 (prem_matches t)) (g_prem c) (pc_prem q)
  && list_eqb2 (list_eqb2 (stmt_matches t)) (g_trans c) (pc_trans q).

Definition print_clauseT (t : tables) : clause -> list Z :=
  print_clause (flookup (t_float t)) (flookup (t_time t)) (flookup (t_dur t)).
Definition parse_clauseT (t : tables) : list Z -> res pclause := parse_clause_text (plookup (p_float t)).
(* one clause, then nothing but blanks and comments (what parse.Unit asks for) *)
Definition parse_unitT (t : tables) (s : list Z) : res pclause :=
  match parse_clauseT t s with
  | ROk q rest => match next_token rest with LEof => ROk q [] | _ => RErr end
  | e => e
  end.

Inductive ccase :=
(* the clause c built with the public constructors printed as text; parse.Clause(text)
   returned go (None = error) *)
| KClause (t : tables) (c : gclause) (text : list Z) (go : option gclause)
(* parse.Unit on a text: Some = exactly one clause and nothing else *)
| KClauseText (t : tables) (text : list Z) (go : option gclause).

(* codes: 0 agreement. 1 model parser rejects what Go accepts, 2 model parser accepts what Go
   rejects, 3 both accept, different trees, 4 model printer differs from Clause.String,
   5 model parser and Go both reject the printed text, 7 the clause the model parser read
   does not denote the printed one (the model round trip fails), 8 the text uses syntax
   outside the model (temporal), 9 out of fuel. *)
Definition judge_clause (c : ccase) : Z :=
  match c with
  | KClause t c text go =>
      if negb (bytes_eqb (print_clauseT t (to_clause c)) text) then 4 else
      match parse_clauseT t text, go with
      | RFuel, _ => 9
      | RUnsup, _ => 8
      | RErr, None => 5
      | RErr, Some _ => 1
      | ROk _ _, None => 2
      | ROk q _, Some g =>
          if negb (pclause_eqb q (to_pclause g)) then 3
          else if clause_matches t c q then 0 else 7
      end
  | KClauseText t text go =>
      match parse_unitT t text, go with
      | RFuel, _ => 9
      | RUnsup, _ => 8
      | RErr, None => 0
      | RErr, Some _ => 1
      | ROk _ _, None => 2
      | ROk q _, Some g => if pclause_eqb q (to_pclause g) then 0 else 3
      end
  end.

(* model outputs for a replay file *)
Definition show_clause (c : ccase) :=
  match c with
  | KClause t c text _ => (parse_clauseT t text, print_clauseT t (to_clause c))
  | KClauseText t text _ => (parse_unitT t text, @nil Z)
  end.
