(* Correspondence runner for C09: the model's escape / unescape, lexer + term
   parser, constructor evaluation and printer against what Go's ast.Escape,
   ast.Unescape, parse.Term (through parse.Unit), functional.EvalExpr and
   String() returned. *)
From Coq Require Import List ZArith Bool.
From MV Require Export Term.Hash Term.Const Term.Print Term.MkMap Term.Expr Term.Atom.
From MV Require Export Serde.Utf8 Serde.Escape Serde.Lexer Serde.Parse.
Import ListNotations.
Open Scope Z_scope.

(* per-case tables of library results observed on the Go side:
   formatting (key = bits / nanoseconds) and parsing (key = text) *)
Definition ftable := list (Z * list Z).
Fixpoint flookup (t : ftable) (k : Z) : list Z :=
  match t with [] => [] | (k', v) :: r => if k =? k' then v else flookup r k end.
Definition ptable := list (list Z * option Z).
Fixpoint plookup (t : ptable) (k : list Z) : option Z :=
  match t with [] => None | (k', v) :: r => if bytes_eqb k k' then v else plookup r k end.

Record tables := Tables {
  t_float : ftable; t_time : ftable; t_dur : ftable;       (* FormatFloat, FormatTime, FormatDuration *)
  p_float : ptable; p_time : ptable; p_dur : ptable        (* ParseFloat, time.Parse, ParseDuration *)
}.

Definition printT (t : tables) : const -> list Z :=
  print (flookup (t_float t)) (flookup (t_time t)) (flookup (t_dur t)).
Definition print_atomT (t : tables) : atom -> list Z :=
  print_atom (flookup (t_float t)) (flookup (t_time t)) (flookup (t_dur t)).
Definition parseT (t : tables) : list Z -> pres := parse_term_all (plookup (p_float t)).
Definition evalT (t : tables) : pterm -> option const := eval (plookup (p_time t)) (plookup (p_dur t)).

(* structural equality *)
Fixpoint const_eqb (a b : const) : bool :=
  match a, b with
  | CLeaf t s n, CLeaf t' s' n' => ctype_eqb t t' && bytes_eqb s s' && (n =? n')
  | CCell t n f s, CCell t' n' f' s' => ctype_eqb t t' && (n =? n') && const_eqb f f' && const_eqb s s'
  | _, _ => false
  end.

Fixpoint pterm_eqb (a b : pterm) {struct a} : bool :=
  match a, b with
  | PVar x, PVar y => bytes_eqb x y
  | PConst c, PConst d => const_eqb c d
  | PApply n l, PApply m k =>
      bytes_eqb n m &&
      (fix go (l k : list pterm) : bool :=
         match l, k with
         | [], [] => true
         | x :: l', y :: k' => pterm_eqb x y && go l' k'
         | _, _ => false
         end) l k
  | _, _ => false
  end.

(* the tree Go's parser returned: leaves as constructor expressions *)
Inductive gterm :=
| GVar (name : list Z)
| GConst (e : cexpr)
| GApply (name : list Z) (args : list gterm).
Fixpoint to_pterm (g : gterm) : pterm :=
  match g with
  | GVar x => PVar x
  | GConst e => PConst (build e)
  | GApply n l => PApply n (map to_pterm l)
  end.

(* atom arguments *)
Inductive aarg := AConst (e : cexpr) | AVar (name : list Z).
Definition build_arg (a : aarg) : bterm :=
  match a with AConst e => TConst (build e) | AVar x => TVar x end.

Inductive case :=
(* parse.Unit("m(" text "\n).") gave exactly one fact m(t): Some t; anything else: None *)
| KParse (t : tables) (text : list Z) (go : option gterm)
(* String() of the constant e (built by the public constructors) *)
| KRound (t : tables) (e : cexpr) (text : list Z)
(* String() of the atom sym(args) *)
| KAtom (t : tables) (sym : list Z) (args : list aarg) (text : list Z)
(* ast.Unescape(text, is_bytes): Some result, None = error *)
| KUnescape (is_bytes : bool) (text : list Z) (go : option (list Z))
(* ast.Escape(s, is_bytes) *)
| KEscape (is_bytes : bool) (s : list Z) (go : option (list Z)).

Definition opt_bytes_eqb (a b : option (list Z)) : bool :=
  match a, b with
  | Some x, Some y => bytes_eqb x y
  | None, None => true
  | _, _ => false
  end.

(* does the parsed argument denote the expected one? *)
Definition arg_matches (t : tables) (a : aarg) (p : pterm) : bool :=
  match a with
  | AVar x => match p with PVar y => bytes_eqb x y | _ => false end
  | AConst e => match evalT t p with Some c => const_eqb c (build e) | None => false end
  end.
Fixpoint args_match (t : tables) (l : list aarg) (k : list pterm) : bool :=
  match l, k with
  | [], [] => true
  | a :: l', p :: k' => arg_matches t a p && args_match t l' k'
  | _, _ => false
  end.

(* codes: 0 agreement.
   KParse: 1 model rejects what Go accepts, 2 model accepts what Go rejects,
           3 both accept, different trees, 9 out of fuel.
   KRound / KAtom: 4 model printer differs from String(), 5 model parser
           rejects the printed text, 6 the parsed expression does not evaluate
           to a constant, 7 it evaluates to a different constant (the model
           round trip fails), 9 out of fuel.
   KUnescape / KEscape: 1 results differ. *)
Definition judge (c : case) : Z :=
  match c with
  | KParse t text go =>
      match parseT t text, go with
      | PFuel, _ => 9
      | PErr, None => 0
      | PErr, Some _ => 1
      | POk _ _, None => 2
      | POk p _, Some g => if pterm_eqb p (to_pterm g) then 0 else 3
      end
  | KRound t e text =>
      let c := build e in
      if negb (bytes_eqb (printT t c) text) then 4 else
      match parseT t text with
      | PFuel => 9
      | PErr => 5
      | POk p _ =>
          match evalT t p with
          | None => 6
          | Some c' => if const_eqb c' c then 0 else 7
          end
      end
  | KAtom t sym args text =>
      let a := new_atom sym (map build_arg args) in
      if negb (bytes_eqb (print_atomT t a) text) then 4 else
      match parseT t text with
      | PFuel => 9
      | PErr => 5
      | POk (PApply n l) _ =>
          if negb (bytes_eqb n sym) then 7
          else if args_match t args l then 0 else 7
      | POk _ _ => 7
      end
  | KUnescape b text go => if opt_bytes_eqb (unescape b text) go then 0 else 1
  | KEscape b s go =>
      let m := if b then Some (escape_bytes s) else escape_string s in
      if opt_bytes_eqb m go then 0 else 1
  end.

(* model outputs for a replay file *)
Definition show (c : case) :=
  match c with
  | KParse t text _ => (parseT t text, @None const, @nil Z)
  | KRound t e text =>
      (parseT t text,
       match parseT t text with POk p _ => evalT t p | _ => None end,
       printT t (build e))
  | KAtom t sym args text =>
      (parseT t text, @None const, print_atomT t (new_atom sym (map build_arg args)))
  | KUnescape b text _ => (PErr, @None const, match unescape b text with Some x => x | None => [] end)
  | KEscape b s _ => (PErr, @None const,
                      match (if b then Some (escape_bytes s) else escape_string s) with Some x => x | None => [] end)
  end.

(* generated case files spell printable texts as Coq string literals: (bs "..."%string) *)
From Coq Require Export Strings.String.
