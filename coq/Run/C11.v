(* Run/C11.v - judge of the correspondence runs of C11: the verdict of
   analysis.AnalyzeAndCheckBounds(.., ErrorForBoundsMismatch) against the model
   Analysis/Bounds.check_program, and Go's own run-time type check of the stored facts
   against the soundness theorem (Props/C11.v). *)
From Coq Require Import List ZArith Bool.
From MV Require Export Datalog.Syntax.
From MV Require Export Types.Types.          (* unqualified TConst, CName, ... are the TYPE level ones *)
From MV Require Export Analysis.Bounds.
Import ListNotations.
Open Scope Z_scope.

(* compact strings of checks/types_common.py (same decoders as Run/C12.v) *)
Fixpoint sz_fuel (n : nat) (z : Z) : str :=
  match n with
  | O => []
  | S n' => if z =? 0 then [] else (z mod 256) :: sz_fuel n' (z / 256)
  end.
Definition sz (z : Z) : str := sz_fuel 200 z.
Fixpoint bz_nat (k : nat) (z : Z) : list bool :=
  match k with O => [] | S k' => Z.odd z :: bz_nat k' (Z.div2 z) end.
Definition bz (k z : Z) : list bool := bz_nat (Z.to_nat k) z.
Fixpoint qz_nat (k : nat) (z : Z) : list Z :=
  match k with O => [] | S k' => (z mod 4) :: qz_nat k' (z / 4) end.
Definition qz (k z : Z) : list Z := qz_nat (Z.to_nat k) z.

(* Datalog level constructors under names that do not clash with the type level *)
Definition dname (s : list Z) : Syntax.const := Syntax.CName s.
Definition dstr (s : list Z) : Syntax.const := Syntax.CStr s.
Definition dnum (n : Z) : Syntax.const := Syntax.CNum n.
Definition dpair (a b : Syntax.const) : Syntax.const := Syntax.CPair a b.
Fixpoint dlist (l : list Syntax.const) : Syntax.const :=
  match l with [] => Syntax.CNil | x :: l' => Syntax.CCons x (dlist l') end.
Definition tv (v : Z) : term := Syntax.TVar v.
Definition tk (c : Syntax.const) : term := Syntax.TConst c.
Definition tlist (args : list term) : term := TApp FList args.
Definition tother (args : list term) : term := TApp (FOther 0) args.   (* any function outside the fragment *)
Definition at_ (p : Z) (args : list term) : atom := mkAtom p args.
Definition cl (h : atom) (b : list premise) : clause := mkClause h b [].
Definition cl_let (h : atom) (b : list premise) : clause := mkClause h b [(0, tv 0)].   (* a clause with a transform *)

Record case := mkCase {
  k_decls : decls;
  k_rules : list clause;
  k_init : list fact;
  k_go_accepts : bool;      (* AnalyzeAndCheckBounds(ErrorForBoundsMismatch) returned no error *)
  k_go_sound : bool         (* every stored fact of a declared predicate passed CheckTypeBounds *)
}.

(* 0  agree: accepted, exactness flag set (inside the fragment of bounds_sound_partial), Go's facts conform
   5  agree: accepted, flag not set (outside the fragment of the theorem)
   6  agree: rejected
   1  model accepts, Go rejects      2  model rejects, Go accepts
   3  model accepts with the flag set, Go accepts, and a stored fact fails CheckTypeBounds:
      the theorem says this cannot happen for the model - model and code differ, and the
      code violates the property on this input
   10 outside the modelled fragment  11 model out of fuel *)
Definition judge (k : case) : Z :=
  match check_program (k_decls k) (k_rules k) (k_init k) with
  | Unsupported => 10
  | Fuel => 11
  | Ok (v, e) =>
      if v then
        if k_go_accepts k then
          (if e then (if k_go_sound k then 0 else 3) else 5)
        else 1
      else if k_go_accepts k then 2 else 6
  end.

(* ---------------------------------------------------------------------------------
   Added after seeding: programs with UNDECLARED predicates (model Analysis/BoundsInfer.v).
   The schedule is the order in which BoundsCheck reaches the undeclared predicates
   (computed by checks/c11.py from the sorted predicate symbols and the clause texts):
   (predicate, arity, reached first by BoundsCheck's own loop?). *)
From MV Require Export Analysis.BoundsInfer.

Record case_inf := mkCaseInf {
  ki_decls : decls;
  ki_rules : list clause;
  ki_init : list fact;
  ki_sched : list (Z * Z * bool);
  ki_go_accepts : bool;
  ki_go_sound : bool
}.

(* codes as for `judge`; 0 = accepted by both, the inferred relation types taken as
   declarations certify the whole program (fragment of bounds_sound_inferred_partial), and
   Go's stored facts conform *)
Definition judge_inf (k : case_inf) : Z :=
  match check_program_inf (ki_decls k) (ki_rules k) (ki_init k) (ki_sched k) with
  | Unsupported => 10
  | Fuel => 11
  | Ok ((v, oE), _) =>
      if v then
        if ki_go_accepts k then
          match oE with
          | Some E => if certified E (ki_rules k) (ki_init k)
                      then (if ki_go_sound k then 0 else 3) else 5
          | None => 5
          end
        else 1
      else if ki_go_accepts k then 2 else 6
  end.
