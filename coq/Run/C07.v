(* Correspondence runner for C07: compares what functional.EvalApplyFn / EvalReduceFn /
   builtin.Decide returned on an argument tuple with the model (coq/Builtin/Fn.v).
   judge: 0 = agree, 1 = disagree, 3 = argument shape outside the model. *)
From Coq Require Import List ZArith Bool Floats Uint63.
From MV Require Export Builtin.Const Builtin.Fn.
Import ListNotations.
Open Scope Z_scope.

(* float64(int64 z) with Coq's primitive binary64 floats (round to nearest even) *)
Definition pf_of_int (z : Z) : float :=
  if z =? min64 then PrimFloat.opp (Z.ldexp (PrimFloat.of_uint63 (Uint63.of_Z 1)) 63)
  else if z <? 0 then PrimFloat.opp (PrimFloat.of_uint63 (Uint63.of_Z (- z)))
  else PrimFloat.of_uint63 (Uint63.of_Z z).
Definition pf_avg (l : list Z) : float :=
  avg_nums pf_of_int PrimFloat.add PrimFloat.div PrimFloat.nan l.

Inductive case :=
| KFn (f : fn) (args : list const) (obs : option const)        (* None: Go returned an error *)
| KRed (r : red) (rows : list (list const)) (obs : option const)
| KAvg (rows : list Z) (obs_nan : bool) (m e : Z)               (* Go result m * 2^e, |m| < 2^53 *)
| KDec (p : pred) (args : list parg) (obs : dres).

Definition res_code (r : res) (obs : option const) : Z :=
  match r, obs with
  | Unmodelled, _ => 3
  | Val c, Some c' => if const_eqb c c' then 0 else 1
  | Err, None => 0
  | _, _ => 1
  end.

Fixpoint list_eqb {A} (eqb : A -> A -> bool) (a b : list A) : bool :=
  match a, b with
  | [], [] => true
  | x :: a', y :: b' => eqb x y && list_eqb eqb a' b'
  | _, _ => false
  end.

Definition dres_eqb (a b : dres) : bool :=
  match a, b with
  | DErr, DErr => true
  | DFalse, DFalse => true
  | DTrue s, DTrue t => list_eqb (list_eqb const_eqb) s t
  | _, _ => false
  end.

Definition judge (c : case) : Z :=
  match c with
  | KFn f args obs => res_code (apply_fn f args) obs
  | KRed r rows obs => res_code (reduce r rows) obs
  | KAvg rows obs_nan m e =>
      let r := pf_avg rows in
      if obs_nan then (if PrimFloat.is_nan r then 0 else 1)
      else if PrimFloat.eqb r (Z.ldexp (pf_of_int m) e) then 0 else 1
  | KDec p args obs => if dres_eqb (decide p args) obs then 0 else 1
  end.

(* model output for replay files *)
Definition model_fn (f : fn) (args : list const) := apply_fn f args.
Definition model_red (r : red) (rows : list (list const)) := reduce r rows.
Definition model_dec (p : pred) (args : list parg) := decide p args.
Definition model_avg (rows : list Z) := Prim2SF (pf_avg rows).
