(* Correspondence runner for C14: evaluates the model of the temporal
   operators / annotations / head intervals on a generated program and
   compares the set of derived (atom, interval) pairs with what the Go engine
   produced; and the model of the interval relations with builtin.Decide.
   Sets are compared up to order (Go iterates maps). *)
From Coq Require Import List ZArith Bool.
From MV Require Export Temporal.ITree Temporal.Operators Temporal.Allen.
Import ListNotations.
Open Scope Z_scope.

Fixpoint remove1 {A} (eqb : A -> A -> bool) (x : A) (l : list A) : option (list A) :=
  match l with
  | [] => None
  | y :: l' => if eqb x y then Some l' else
               match remove1 eqb x l' with Some r => Some (y :: r) | None => None end
  end.
Fixpoint perm_eqb {A} (eqb : A -> A -> bool) (a b : list A) : bool :=
  match a with
  | [] => match b with [] => true | _ => false end
  | x :: a' => match remove1 eqb x b with Some b' => perm_eqb eqb a' b' | None => false end
  end.

Definition derived_eqb (x y : derived) : bool :=
  tatom_eqb (fst x) (fst y) &&
  match snd x, snd y with
  | Some i, Some j => iv_eqb i j
  | None, None => true
  | _, _ => false
  end.

Inductive case :=
(* evaluation time, stored pairs before evaluation, rules, observed result of
   engine.EvalProgram: Some = the pairs / plain atoms of the head predicates
   after evaluation, None = an error was returned *)
| CProg (now : Z) (edb : list fact) (rules : list rule) (obs : option (list derived))
(* relation id, two intervals, observed verdict of builtin.Decide *)
| CAllen (l : list (Z * iv * iv * bool))
(* batched form of CProg: the rules are  h_k(X) :- OP[d1,d2] p0(X)  for the four
   operators x every window 0 <= d1 <= d2 <= T+1 (k = 100, 101, ... in that
   order, see batch_rules); observed: for every rule the set of derived
   constants /c<i> as the bit mask sum 2^i *)
| CBatch (now : Z) (edb : list fact) (T : nat) (obs : list Z).

Definition fuel : nat := 200.

Definition heads (rules : list rule) : list Z := map r_pred rules.
Definition model_derived (now : Z) (edb : list fact) (rules : list rule) : list derived + Z :=
  let '(st, e) := eval_program fuel now edb rules in
  if negb (e =? 0) then inr e else
  inl (map (fun f : fact => (fst f, Some (snd f)))
           (filter (fun f : fact => existsb (Z.eqb (fst (fst f))) (heads rules)) (fst st))
       ++ map (fun a : tatom => (a, None)) (snd st)).

Definition windows (T : nat) : list (Z * Z) :=
  flat_map (fun d1 => map (fun d2 => (Z.of_nat d1, Z.of_nat d2)) (seq d1 (T + 2 - d1))) (seq 0 (T + 2)).
Definition batch_bodies (T : nat) : list (opkind * (Z * Z)) :=
  flat_map (fun op => map (pair op) (windows T)) [DiamondMinus; BoxMinus; DiamondPlus; BoxPlus].
Fixpoint number_rules (k : Z) (l : list (opkind * (Z * Z))) : list rule :=
  match l with
  | [] => []
  | (op, (d1, d2)) :: l' =>
      {| r_pred := k; r_args := [TVar 0]; r_time := None;
         r_prem := [{| t_op := Some (op, (BDur d1, BDur d2)); t_pred := 0; t_args := [TVar 0]; t_ann := None |}] |}
      :: number_rules (k + 1) l'
  end.
Definition batch_rules (T : nat) : list rule := number_rules 100 (batch_bodies T).
Definition mask_of (ds : list derived) (h : Z) : Z :=
  fold_left (fun acc (d : derived) =>
    match d with
    | ((p, [CName c]), None) => if p =? h then acc + 2 ^ c else acc
    | ((p, _), _) => if p =? h then acc + 2 ^ 40 else acc     (* not of the expected form *)
    end) ds 0.

(* 0 = agreement; 1 = both succeed, sets differ; 2 = model derives, Go
   returned an error; 3 = model says error, Go succeeded; 9 = out of fuel *)
Definition judge (c : case) : Z :=
  match c with
  | CProg now edb rules obs =>
      match model_derived now edb rules, obs with
      | inl m, Some o => if perm_eqb derived_eqb m o then 0 else 1
      | inl _, None => 2
      | inr 9, _ => 9
      | inr _, None => 0
      | inr _, Some _ => 3
      end
  | CAllen l =>
      Z.of_nat (length (filter (fun x : Z * iv * iv * bool =>
        let '(rel, a, b, o) := x in negb (Bool.eqb (allen rel a b) o)) l))
  | CBatch now edb T obs =>
      let rules := batch_rules T in
      match model_derived now edb rules with
      | inr e => 100 + e
      | inl m =>
          let masks := map (fun r => mask_of m (r_pred r)) rules in
          if Nat.eqb (length masks) (length obs) then
            Z.of_nat (length (filter (fun xy : Z * Z => negb (fst xy =? snd xy)) (combine masks obs)))
          else (-1)
      end
  end.

(* model output for replay files *)
Definition show (c : case) :=
  match c with
  | CProg now edb rules _ => model_derived now edb rules
  | CAllen l => inl (map (fun x : Z * iv * iv * bool =>
        let '(rel, a, b, _) := x in ((rel, [if allen rel a b then CNum 1 else CNum 0]), Some a)) l)
  | CBatch now edb T _ =>
      match model_derived now edb (batch_rules T) with
      | inr e => inr e
      | inl m => inl (map (fun r => ((r_pred r, [CNum (mask_of m (r_pred r))]), None)) (batch_rules T))
      end
  end.

(* monomorphic builders for the generated case files (no implicit arguments to
   infer: the files elaborate an order of magnitude faster) *)
Definition F (p : Z) (args : list cst) (s e : bound) : fact := ((p, args), (s, e)).
Definition D0 (p : Z) (args : list cst) : derived := ((p, args), None).
Definition D1 (p : Z) (args : list cst) (s e : bound) : derived := ((p, args), Some (s, e)).
Definition opcode (k : Z) : opkind :=
  if k =? 1 then DiamondMinus else if k =? 2 then BoxMinus else if k =? 3 then DiamondPlus else BoxPlus.
(* op = 0: no operator (w1 w2 ignored); ann = false: no annotation (a1 a2 ignored) *)
Definition L (op : Z) (w1 w2 : pbound) (p : Z) (args : list term) (ann : bool) (a1 a2 : pbound) : tlit :=
  {| t_op := if op =? 0 then None else Some (opcode op, (w1, w2)); t_pred := p; t_args := args;
     t_ann := if ann then Some (a1, a2) else None |}.
Definition R (p : Z) (args : list term) (ht : bool) (h1 h2 : pbound) (prem : list tlit) : rule :=
  {| r_pred := p; r_args := args; r_time := if ht then Some (h1, h2) else None; r_prem := prem |}.
Definition P (now : Z) (edb : list fact) (rules : list rule) (ok : bool) (obs : list derived) : case :=
  CProg now edb rules (if ok then Some obs else None).
Definition A (rel s1 e1 s2 e2 : Z) (o : bool) : Z * iv * iv * bool := (rel, (Ts s1, Ts e1), (Ts s2, Ts e2), o).
