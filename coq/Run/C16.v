(* Correspondence runner for C16: replays a command history observed on the Go
   interpreter against the model (Interp/Stack.v) instantiated with the
   parse/analyse/eval tables observed on fresh Go interpreters, and reports the
   first command after which result class or any query answer differs
   (0 = none).  Answers are compared as multisets. *)
From Coq Require Import List ZArith Bool.
From MV Require Export Interp.Stack Interp.StackTables.
Import ListNotations.
Open Scope Z_scope.

(* observation after one command: result class, and for every KNOWN predicate name of the
   universe 1..n the facts returned by Query; a name that is not listed was answered
   "not found" by ParseQuery *)
Definition obs := (Z * list (pred * list fact))%type.

Fixpoint find_obs (p : pred) (l : list (pred * list fact)) : option (list fact) :=
  match l with [] => None | (q, fs) :: r => if p =? q then Some fs else find_obs p r end.

Definition answer_eqb (a b : option (list fact)) : bool :=
  match a, b with
  | None, None => true
  | Some x, Some y => perm_eqb pair_eqb x y
  | _, _ => false
  end.

Definition universe (n : nat) : list pred := map Z.of_nat (seq 1 n).

Definition obs_ok (n : nat) (s : tstate) (r : result) (o : obs) : bool :=
  (result_code r =? fst o) &&
  forallb (fun p => answer_eqb (query s p) (find_obs p (snd o))) (universe n).

Definition history := (nat * tables * list (cmd * obs))%type.

Fixpoint replay (n : nat) (T : tables) (s : tstate) (k : Z) (h : list (cmd * obs)) : Z :=
  match h with
  | [] => 0
  | (c, o) :: h' =>
      let '(s', r) := t_step T s c in
      if obs_ok n s' r o then replay n T s' (k + 1) h' else k
  end.

Definition judge (c : history) : Z :=
  let '(n, T, h) := c in replay n T init 1 h.

(* monomorphic constructors for the generated case files (fast to elaborate) *)
Definition fa (p i : Z) : fact := (p, i).
Definition kd (p d : Z) : pred * declid := (p, d).
Definition pe (s : src) (b : bool) : src * bool := (s, b).
Definition pg (id : Z) (ds : list (pred * declid)) : option tprog := Some (id, ds).
Definition nopg : option tprog := None.
Definition ae (s : src) (k : ktab) (r : option tprog) : (src * ktab) * option tprog := ((s, k), r).
Definition ee (p : Z) (vis fs : list fact) (ok : bool) : (Z * list fact) * (list fact * bool) := ((p, vis), (fs, ok)).
Definition ob (p : Z) (fs : list fact) : pred * list fact := (p, fs).
Definition st (c : cmd) (res : Z) (o : list (pred * list fact)) : cmd * obs := (c, (res, o)).
Definition mk (n : nat) (p : list (src * bool)) (a : list ((src * ktab) * option tprog))
  (e : list ((Z * list fact) * (list fact * bool))) (h : list (cmd * obs)) : history :=
  (n, Build_tables p a e, h).

(* the same with the pre-fix behaviour switched on (used by the check to show that the
   model of the unfixed code reproduces N2 / N5 on the Go side of a scratch tree) *)
Fixpoint replay_var (n : nat) (T : tables) (f2 f5 f32 : bool) (s : tstate) (k : Z) (h : list (cmd * obs)) : Z :=
  match h with
  | [] => 0
  | (c, o) :: h' =>
      let '(s', r) := t_step_var T f2 f5 f32 s c in
      if obs_ok n s' r o then replay_var n T f2 f5 f32 s' (k + 1) h' else k
  end.
Definition judge_unfixed (c : history) : Z :=
  let '(n, T, h) := c in replay_var n T false false false init 1 h.

(* model output for a replay file *)
Fixpoint trace (T : tables) (s : tstate) (univ : list pred) (cs : list cmd) :=
  match cs with
  | [] => []
  | c :: r => let '(s', res) := t_step T s c in
              (result_code res, map (fun p => (p, query s' p)) univ, buffer s', map f_src (frags s'))
              :: trace T s' univ r
  end.
Definition model_trace (c : history) :=
  let '(n, T, h) := c in trace T init (universe n) (map fst h).
Definition model_live (c : history) := let '(n, T, h) := c in t_live T (map fst h).
