(* Correspondence runner for C04. One case = one clause (wildcards = TVar wild) over
   extensional predicates, a small EDB, and what the Go side observed:
   the verdict of analysis.AnalyzeOneUnit, the premise order of the rewritten rule (as
   indices into the original body), and the facts of the head predicate after
   engine.EvalProgram (or an error). *)
From Coq Require Import List ZArith Bool.
From MV Require Export Datalog.Syntax Datalog.Interp Datalog.Solve Analysis.RuleCheck Analysis.Declarative.
Import ListNotations.
Open Scope Z_scope.

Inductive obs :=
| ONone                       (* analysis rejected: nothing was evaluated *)
| OFacts (fs : list fact)     (* evaluation returned nil: the facts of the head predicate *)
| OErr.                       (* evaluation returned an error, panicked or stored a non-ground atom *)

Record case := mkCase {
  k_clause : clause;
  k_edb : list fact;
  k_rounds : Z;               (* closure rounds of the brute-force domain *)
  k_accept : bool;            (* Go: analysis accepted *)
  k_perm : list Z;            (* Go: original index of each premise of the rewritten rule *)
  k_obs : obs }.

Fixpoint term_eqb (a b : term) : bool :=
  match a, b with
  | TVar v, TVar w => Z.eqb v w
  | TConst c, TConst d => const_eqb c d
  | TApp f x, TApp g y =>
      match f, g with
      | FPlus, FPlus | FMinus, FMinus | FMult, FMult | FDiv, FDiv
      | FPair, FPair | FCons, FCons | FList, FList | FLen, FLen => true
      | FOther i, FOther j => Z.eqb i j
      | _, _ => false
      end &&
      (fix go (l1 l2 : list term) : bool :=
         match l1, l2 with
         | [], [] => true
         | t :: l1', u :: l2' => term_eqb t u && go l1' l2'
         | _, _ => false
         end) x y
  | _, _ => false
  end.
Definition atom_eqb (a b : atom) : bool := Z.eqb (apred a) (apred b) && list_eqb term_eqb (aargs a) (aargs b).
Definition cmp_eqb (a b : cmp) : bool :=
  match a, b with Lt, Lt | Le, Le | Gt, Gt | Ge, Ge => true | _, _ => false end.
Definition premise_eqb (p q : premise) : bool :=
  match p, q with
  | PAtom a, PAtom b | PNeg a, PNeg b => atom_eqb a b
  | PEq l r, PEq l' r' | PIneq l r, PIneq l' r' => term_eqb l l' && term_eqb r r'
  | PCmp o l r, PCmp o' l' r' => cmp_eqb o o' && term_eqb l l' && term_eqb r r'
  | _, _ => false
  end.

Definition subsetf (a b : list fact) : bool := forallb (fun f => memf f b) a.
Definition set_eqb (a b : list fact) : bool := subsetf a b && subsetf b a.

Definition same_order (c : clause) (perm : list Z) : bool :=
  list_eqb premise_eqb (cbody (rewrite c))
           (map (fun i => nth (Z.to_nat i) (cbody c) (PEq (TVar wild) (TVar wild))) perm)
  && forallb (fun i => (0 <=? i) && (i <? Z.of_nat (length (cbody c)))) perm.

(* what the model of the engine (C01's eval_clause) makes of the accepted clause *)
Definition model_eval (c : clause) (edb : list fact) : option (list fact) :=
  eval_clause edb (fun _ => edb) (replace_wildcards (rewrite c)).
Definition decl_facts (k : case) : list fact :=
  decl_eval (k_edb k) (k_edb k) (domain (Z.to_nat (k_rounds k)) (k_clause k) (k_edb k)) (k_clause k).

(* 0 agree
   1 Go accepts, the model of analysis rejects      2 Go rejects, the model accepts
   3 the rewritten premise order differs
   5 accepted, Go's facts differ from the declarative reading (property violated)
   4 accepted, Go's facts = declarative, but differ from the engine model
   6 accepted, Go's facts = declarative, the engine model reports an error
   7 accepted, Go: evaluation error / panic / non-ground fact
   8 malformed case
   9 as 6, and the clause has a variable = variable equality with both sides unbound:
     the documented gap of the engine model (Solve.v has no aliasing); Go = declarative *)
Definition judge (k : case) : Z :=
  let c := k_clause k in
  let m := accepted c in
  if negb (Bool.eqb m (k_accept k)) then (if k_accept k then 1 else 2)
  else if negb m then 0
  else if negb (same_order c (k_perm k)) then 3
  else match k_obs k with
       | ONone => 8
       | OErr => 7
       | OFacts fs =>
           if negb (set_eqb fs (decl_facts k)) then 5
           else match model_eval c (k_edb k) with
                | None => if alias_free (rewrite c) then 6 else 9
                | Some ms => if set_eqb fs ms then 0 else 4
                end
       end.

(* for replays: model verdict, rewritten body as indices is not available, so the
   declarative facts and the engine-model facts as token lists
   (constants: numbers only are rendered, anything else as -1) *)
Definition const_tok (c : const) : Z := match c with CNum n => n | _ => -1 end.
Definition fact_toks (f : fact) : list Z := fst f :: Z.of_nat (length (snd f)) :: map const_tok (snd f).
Definition show (k : case) : list Z :=
  (if accepted (k_clause k) then 1 else 0)
  :: Z.of_nat (length (decl_facts k)) :: flat_map fact_toks (decl_facts k)
  ++ match model_eval (k_clause k) (k_edb k) with
     | None => [-1]
     | Some ms => Z.of_nat (length ms) :: flat_map fact_toks ms
     end.

(* the pre-fix model, for the seeded-defect demonstration and the refutation witnesses *)
Definition model_eval_prefix (c : clause) (edb : list fact) : option (list fact) :=
  eval_clause edb (fun _ => edb) (replace_wildcards (rewrite_prefix c)).

(* ---- built-in stream (added when the check was strengthened after seeding). The clause may
   contain built-in atoms: PAtom / PNeg with a predicate number of go_table (Analysis/BuiltinCheck.v;
   constants the syntax cannot express - maps, structs - are sent as CNum 0: the analysis model
   never looks inside a constant). Only the verdict of analysis and the premise order are judged
   by the model; the engine model has no built-ins, evaluation is judged by the property-level
   oracle of checks/c04.py on Go's own output. A case of this stream has k_rounds = -1. *)
From MV Require Export Analysis.BuiltinCheck.

Definition judge_b (k : case) : Z :=
  let c := k_clause k in
  let m := xaccepted go_table c in
  if negb (Bool.eqb m (k_accept k)) then (if k_accept k then 1 else 2)
  else if negb m then 0
  else if negb (same_order c (k_perm k)) then 3
  else 0.

Definition judge_x (k : case) : Z := if k_rounds k <? 0 then judge_b k else judge k.
