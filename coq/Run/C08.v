(* Correspondence runner for C08: the model's print / hash / equals of constants
   and atoms against what Go's String / Hash / Equals returned. *)
From Coq Require Import List ZArith Bool.
From MV Require Export Term.Hash Term.Const Term.Print Term.MkMap Term.Expr Term.Atom.
Import ListNotations.
Open Scope Z_scope.

(* per-case tables of library formatting results observed on the Go side *)
Definition table := list (Z * list Z).
Fixpoint lookup (t : table) (k : Z) : list Z :=
  match t with [] => [] | (k', v) :: r => if k =? k' then v else lookup r k end.

Record tables := Tables { t_float : table; t_time : table; t_dur : table }.

Definition printT (t : tables) : const -> list Z :=
  print (lookup (t_float t)) (lookup (t_time t)) (lookup (t_dur t)).
Definition print_atomT (t : tables) : atom -> list Z :=
  print_atom (lookup (t_float t)) (lookup (t_time t)) (lookup (t_dur t)).

(* one observed constant: how it was built, String(), Hash() *)
Record cobs := CObs { co_expr : cexpr; co_print : list Z; co_hash : Z }.
(* atom arguments *)
Inductive aarg := AConst (e : cexpr) | AVar (name : list Z).
Record aobs := AObs { ao_sym : list Z; ao_args : list aarg; ao_print : list Z; ao_hash : Z }.

Record case := Case {
  c_tables : tables;
  c_consts : list cobs;
  c_cmat : list (list bool);       (* Equals(i, j) over the constants *)
  c_atoms : list aobs;
  c_amat : list (list bool)
}.

Fixpoint bools_eqb (a b : list bool) : bool :=
  match a, b with
  | [], [] => true
  | x :: a', y :: b' => Bool.eqb x y && bools_eqb a' b'
  | _, _ => false
  end.

(* codes: 0 = agreement. For the item with 1-based index i:
   10*i+1 String differs, 10*i+2 Hash differs, 10*i+3 the Equals row differs,
   10*i+4 the built constant is not well-formed (generator outside the domain);
   atoms use 1000000 + the same scheme. *)
Fixpoint judge_consts (t : tables) (all : list const) (i : Z) (l : list cobs) (m : list (list bool)) : Z :=
  match l with
  | [] => 0
  | CObs e s h :: l' =>
      let c := build e in
      if negb (wf c) then 10 * i + 4
      else if negb (bytes_eqb (printT t c) s) then 10 * i + 1
      else if negb (hash c =? h) then 10 * i + 2
      else match m with
           | [] => 10 * i + 3
           | row :: m' =>
               if negb (bools_eqb (map (equals c) all) row) then 10 * i + 3
               else judge_consts t all (i + 1) l' m'
           end
  end.

Definition build_arg (a : aarg) : bterm :=
  match a with AConst e => TConst (build e) | AVar x => TVar x end.
Definition build_atom (o : aobs) : atom :=
  new_atom (ao_sym o) (map build_arg (ao_args o)).

Fixpoint judge_atoms (t : tables) (all : list atom) (i : Z) (l : list aobs) (m : list (list bool)) : Z :=
  match l with
  | [] => 0
  | o :: l' =>
      let a := build_atom o in
      let s := ao_print o in let h := ao_hash o in
      if negb (bytes_eqb (print_atomT t a) s) then 10 * i + 1
      else if negb (atom_hash a =? h) then 10 * i + 2
      else match m with
           | [] => 10 * i + 3
           | row :: m' =>
               if negb (bools_eqb (map (atom_equals a) all) row) then 10 * i + 3
               else judge_atoms t all (i + 1) l' m'
           end
  end.

Definition judge (c : case) : Z :=
  let r := judge_consts (c_tables c) (map (fun o => build (co_expr o)) (c_consts c)) 1 (c_consts c) (c_cmat c) in
  if negb (r =? 0) then r
  else let r2 := judge_atoms (c_tables c) (map build_atom (c_atoms c)) 1 (c_atoms c) (c_amat c) in
       if r2 =? 0 then 0 else 1000000 + r2.

(* ast.Name accepts / rejects *)
Definition judge_name (c : list Z * bool) : Z := if Bool.eqb (name_ok (fst c)) (snd c) then 0 else 1.

(* model outputs for a replay file *)
Definition show (c : case) :=
  (map (fun o => let k := build (co_expr o) in (printT (c_tables c) k, hash k)) (c_consts c),
   map (fun o => let a := build_atom o in (print_atomT (c_tables c) a, atom_hash a)) (c_atoms c)).

(* generated case files spell printable texts as Coq string literals: (bs "..."%string) *)
From Coq Require Export Strings.String.
